import ChythonModel.Proofs.C11Meta
import ChythonModel.Proofs.C11Frame
/-!
# C11 — one whole SDF (V2000) record: text written by `SDFWrite.write` → block → `read_structure`
-/
namespace ChythonModel.Proofs.C11
open ChythonModel.Model.C11 ChythonModel.Gen.Mdl

/-! ## mapping numbers -/

theorem remapLoop_id : ∀ (ms used : List Int) (next : Int), (∀ m ∈ ms, m ≠ 0) → ms.Nodup → (∀ m ∈ ms, m ∉ used) →
    remapLoop ms used next = ms := by
  intro ms
  induction ms with
  | nil => intro _ _ _ _ _; rfl
  | cons m ms ih =>
    intro used next h0 hnd hdis
    have hm0 : (m == 0) = false := by simpa using h0 m (by simp)
    have hmu : used.contains m = false := by
      have := hdis m (by simp)
      simpa using this
    simp only [remapLoop, hm0, Bool.false_eq_true, if_false, hmu]
    rw [ih (m :: used) next (fun x hx => h0 x (by simp [hx])) (List.nodup_cons.mp hnd).2]
    intro x hx hxu
    simp only [List.mem_cons] at hxu
    rcases hxu with h | h
    · subst h; exact (List.nodup_cons.mp hnd).1 hx
    · exact hdis x (by simp [hx]) h

/-- `postprocess_parsed_molecule`: distinct non-zero mapping numbers are kept exactly -/
theorem mapping_preserved (ms : List Int) (hne : ms ≠ []) (h0 : ∀ m ∈ ms, m ≠ 0) (hnd : ms.Nodup) :
    postprocessMapping ms = .ok ms := by
  unfold postprocessMapping
  cases ms with
  | nil => exact absurd rfl hne
  | cons a as =>
    simp only [pyMax]
    rw [remapLoop_id (a :: as) [] _ h0 hnd (fun _ _ h => by cases h)]
    rfl

/-! ## no written line before the last one starts with `M  END` -/

/-- first character is not `M` (so the line cannot start with `M  END`, `M  V30 …`) -/
def HeadNotM (s : Str) : Prop := ∃ c tl, s = c :: tl ∧ c ≠ 'M'

theorem headNotM_append {s : Str} (t : Str) (h : HeadNotM s) : HeadNotM (s ++ t) := by
  obtain ⟨c, tl, hs, hc⟩ := h
  exact ⟨c, tl ++ t, by rw [hs]; rfl, hc⟩

theorem headNotM_padLeft {s : Str} (w : Nat) (h : HeadNotM s) : HeadNotM (padLeft w s) := by
  unfold padLeft
  cases hk : w - s.length with
  | zero => simpa using h
  | succ k => exact ⟨' ', List.replicate k ' ' ++ s, by simp [List.replicate_succ], by decide⟩

theorem headNotM_digits {s : Str} (h : s.all isDigit = true) (hne : s ≠ []) : HeadNotM s := by
  cases s with
  | nil => exact absurd rfl hne
  | cons c cs =>
    simp only [List.all_cons, Bool.and_eq_true] at h
    exact ⟨c, cs, rfl, by intro hc; subst hc; exact absurd h.1 (by decide)⟩

theorem headNotM_intDigits (n : Int) : HeadNotM (intDigits n) := by
  unfold intDigits
  split
  · exact ⟨'-', _, rfl, by decide⟩
  · exact headNotM_digits (natDigits_spec _).2.1 (natDigits_spec _).2.2

theorem headNotM_fmtD (w : Nat) (n : Int) : HeadNotM (fmtD w n) := headNotM_padLeft w (headNotM_intDigits n)

theorem headNotM_f4 (k : Int) : HeadNotM (f4 k) := by
  unfold f4
  by_cases hk : k < 0
  · simp only [hk, if_true]
    exact ⟨'-', _, rfl, by decide⟩
  · simp only [hk, if_false, List.nil_append]
    rw [List.append_assoc]
    exact headNotM_append _ (headNotM_digits (natDigits_spec _).2.1 (natDigits_spec _).2.2)

theorem headNotM_fmtF4 (w : Nat) (k : Int) : HeadNotM (fmtF4 w k) := headNotM_padLeft w (headNotM_f4 k)

theorem not_startsWith_M {s : Str} (h : HeadNotM s) (p : Str) : startsWith s ('M' :: p) = false := by
  obtain ⟨c, tl, hs, hc⟩ := h
  rw [hs]
  simp [startsWith, List.isPrefixOf, Ne.symm hc]

theorem mapM'_all {w : α → R Str} {P : Str → Prop} :
    ∀ {xs : List α} {ls : List Str}, mapM' w xs = .ok ls → (∀ x l, w x = .ok l → P l) → ∀ l ∈ ls, P l := by
  intro xs
  induction xs with
  | nil => intro ls h _ l hl; simp [mapM', pure, Except.pure] at h; subst h; cases hl
  | cons x xs ih =>
    intro ls h hp l hl
    simp only [mapM', bind, Except.bind] at h
    cases hx : w x with
    | error e => rw [hx] at h; cases h
    | ok l0 =>
      rw [hx] at h
      cases hr : mapM' w xs with
      | error e => rw [hr] at h; cases h
      | ok r =>
        rw [hr] at h
        simp only [pure, Except.pure, Except.ok.injEq] at h
        subst h
        simp only [List.mem_cons] at hl
        rcases hl with h1 | h1
        · subst h1; exact hp x _ hx
        · exact ih hr hp l h1

theorem atomLine_headNotM (mapping : Bool) (a : WAtom) (l : Str) (h : writeAtomLine mapping a = .ok l) : HeadNotM l := by
  simp only [writeAtomLine, bind, Except.bind] at h
  cases hc : writeCharge a.charge with
  | error e => rw [hc] at h; cases h
  | ok code =>
    rw [hc] at h
    simp only [pure, Except.pure, Except.ok.injEq] at h
    subst h
    simp only [List.append_assoc]
    exact headNotM_append _ (headNotM_fmtF4 10 a.x)

theorem bondLine_headNotM (atoms : List WAtom) (b : Nat × Nat × Nat) (l : Str) (h : writeBondLine atoms b = .ok l) :
    HeadNotM l := by
  obtain ⟨n, m, o⟩ := b
  simp only [writeBondLine, bind, Except.bind] at h
  cases hi : atomIndex atoms n with
  | error e => rw [hi] at h; cases h
  | ok i =>
    rw [hi] at h
    cases hj : atomIndex atoms m with
    | error e => rw [hj] at h; cases h
    | ok j =>
      rw [hj] at h
      simp only [pure, Except.pure, Except.ok.injEq] at h
      subst h
      unfold bondText
      simp only [List.append_assoc]
      exact headNotM_append _ (headNotM_fmtD 3 _)

theorem wedgeLine_headNotM (atoms : List WAtom) (w : Nat × Nat × Int) (l : Str) (h : writeWedgeLine atoms w = .ok l) :
    HeadNotM l := by
  obtain ⟨n, m, s⟩ := w
  simp only [writeWedgeLine, bind, Except.bind] at h
  cases hi : atomIndex atoms n with
  | error e => rw [hi] at h; cases h
  | ok i =>
    rw [hi] at h
    cases hj : atomIndex atoms m with
    | error e => rw [hj] at h; cases h
    | ok j =>
      rw [hj] at h
      cases ho : bondOrder atoms n m with
      | error e => rw [ho] at h; cases h
      | ok o =>
        rw [ho] at h
        simp only [pure, Except.pure, Except.ok.injEq] at h
        subst h
        unfold wedgeText
        simp only [List.append_assoc]
        exact headNotM_append _ (headNotM_fmtD 3 _)

theorem propLines_notMEnd (k : Nat) (a : WAtom) : ∀ l ∈ writePropLines k a, isMEnd l = false := by
  intro l hl
  unfold writePropLines at hl
  simp only [List.mem_append] at hl
  rcases hl with (hl | hl) | hl
  · split at hl
    · simp only [List.mem_singleton] at hl; subst hl
      simp only [isMEnd, List.append_assoc]
      rw [startsWith_append_of_le _ _ _ (by decide)]; decide
    · cases hl
  · split at hl
    · simp only [List.mem_singleton] at hl; subst hl
      simp only [isMEnd, List.append_assoc]
      rw [startsWith_append_of_le _ _ _ (by decide)]; decide
    · cases hl
  · split at hl
    · simp only [List.mem_singleton] at hl; subst hl
      simp only [isMEnd, List.append_assoc]
      rw [startsWith_append_of_le _ _ _ (by decide)]; decide
    · cases hl

/-! ## shape of the written block -/

theorem writeMol2000_shape (mapping : Bool) (g : WMol) (h : WFMol g) (ls : List Str)
    (hw : writeMol2000 mapping g = .ok ls) :
    ∃ pre : List Str, ls = pre ++ [sL "M  END\n"] ∧ 5 ≤ pre.length ∧
      (∀ l ∈ pre.drop 1, isMEnd l = false) ∧ pre[0]? = some (g.name ++ sL "\n") ∧
      (∃ l4, pre[4]? = some l4 ∧ HeadNotM l4) := by
  have hne : g.atoms.isEmpty = false := by
    cases hg : g.atoms with
    | nil => exact absurd hg h.atomsNe
    | cons _ _ => rfl
  have hnum : (g.atoms.any fun a => decide (a.num > 999)) = false := by
    rw [List.any_eq_false]
    intro a ha
    have := (h.atomsOk a ha).1.numHi
    simp; omega
  simp only [writeMol2000, hne, hnum, Bool.false_eq_true, if_false, bind, Except.bind, pure, Except.pure] at hw
  cases hal : mapM' (writeAtomLine mapping) g.atoms with
  | error e => rw [hal] at hw; cases hw
  | ok al =>
    rw [hal] at hw
    cases hwl : mapM' (writeWedgeLine g.atoms) g.wedge with
    | error e => rw [hwl] at hw; cases hw
    | ok wl =>
      rw [hwl] at hw
      cases hbl : mapM' (writeBondLine g.atoms)
          (List.filter (fun b => !inWedge g.wedge b.1 b.2.1) (bondsIter g.atoms [])) with
      | error e => rw [hbl] at hw; cases hw
      | ok bl =>
        rw [hbl] at hw
        simp only [Except.ok.injEq] at hw
        have hA : ∀ l ∈ al, HeadNotM l := mapM'_all hal (fun a l hl => atomLine_headNotM mapping a l hl)
        have hW : ∀ l ∈ wl, HeadNotM l := mapM'_all hwl (fun w l hl => wedgeLine_headNotM g.atoms w l hl)
        have hB : ∀ l ∈ bl, HeadNotM l := mapM'_all hbl (fun b l hl => bondLine_headNotM g.atoms b l hl)
        have hlal : al.length = g.atoms.length := mapM'_ok_length hal
        have hal1 : 1 ≤ al.length := by
          rw [hlal]
          cases hg : g.atoms with
          | nil => exact absurd hg h.atomsNe
          | cons _ _ => simp
        obtain ⟨a0, atl, hal0⟩ : ∃ a0 atl, al = a0 :: atl := by
          cases al with
          | nil => simp at hal1
          | cons a0 atl => exact ⟨a0, atl, rfl⟩
        refine ⟨[g.name ++ sL "\n", sL "\n", sL "\n",
            fmtD 3 (g.atoms.length : Int) ++ fmtD 3 (bondsCount g.atoms : Int) ++ sL "  0  0  0  0            999 V2000\n"] ++
            al ++ wl ++ bl ++ (List.map (fun p => writePropLines p.fst p.snd) (enumFrom1 g.atoms)).flatten,
          hw.symm, by simp; omega, ?_, rfl, ⟨a0, by rw [hal0]; rfl, hA a0 (by rw [hal0]; simp)⟩⟩
        intro l hl
        simp only [List.cons_append, List.nil_append, List.drop_succ_cons, List.drop_zero, List.mem_cons,
          List.mem_append, List.mem_flatten, List.mem_map] at hl
        have hM : ∀ {s : Str}, HeadNotM s → isMEnd s = false := fun hs => not_startsWith_M hs _
        rcases hl with h1 | h1 | h1 | h1
        · subst h1; decide
        · subst h1; decide
        · subst h1
          simp only [List.append_assoc]
          exact hM (headNotM_append _ (headNotM_fmtD 3 _))
        · rcases h1 with ((h1 | h1) | h1) | h1
          · exact hM (hA l h1)
          · exact hM (hW l h1)
          · exact hM (hB l h1)
          · obtain ⟨pls, ⟨p, _, rfl⟩, hl⟩ := h1
            exact propLines_notMEnd p.1 p.2 l hl

theorem firstMEnd_block (pre post : List Str) (hname : ∀ l ∈ pre, isMEnd l = false) :
    firstMEnd (pre ++ sL "M  END\n" :: post) = some (pre.length + 1) := by
  unfold firstMEnd
  rw [List.findIdx?_append]
  have h1 : pre.findIdx? isMEnd = none := by
    rw [List.findIdx?_eq_none_iff]
    intro l hl
    simp [hname l hl]
  have h2 : isMEnd (sL "M  END\n") = true := by decide
  simp [h1, List.findIdx?_cons, h2]

/-! ## the record theorem -/

/-- the record `SDFRead.read_structure` builds (modelled part) from what `SDFWrite.write` wrote -/
theorem sdf_record_roundtrip (g : WMol) (h : WFMol g) (kvs : List (Str × List Str))
    (hmeta : ∀ kv ∈ kvs, WFKey kv.1 ∧ (∀ v ∈ kv.2, WFValueLine v) ∧ kv.2 ≠ []) (hnd : (kvs.map (·.1)).Nodup)
    (hname : isMEnd (g.name ++ sL "\n") = false)
    (hnums : (g.atoms.map fun a => (a.num : Int)).Nodup) (hnum0 : ∀ a ∈ g.atoms, a.num ≠ 0)
    (ls : List Str) (hw : writeMol2000 true g = .ok ls) :
    readStructure ⟨ls ++ (kvs.map fun kv => chunkLines kv.1 kv.2).flatten,
                   firstMEnd (ls ++ (kvs.map fun kv => chunkLines kv.1 kv.2).flatten)⟩ =
      .ok { mol := .v2 (expectedMol true g), mapping := g.atoms.map fun a => (a.num : Int), md := kvs.map fun kv => (kv.1, joinWith ['\n'] kv.2) } := by
  obtain ⟨pre, hls, hlen, hpre, hp0, l4, hp4, hl4⟩ := writeMol2000_shape true g h ls hw
  generalize hml : (kvs.map fun kv => chunkLines kv.1 kv.2).flatten = ml
  have hpreAll : ∀ l ∈ pre, isMEnd l = false := by
    intro l hl
    cases pre with
    | nil => cases hl
    | cons p0 ptl =>
      simp only [List.mem_cons] at hl
      rcases hl with h1 | h1
      · subst h1
        simp only [List.getElem?_cons_zero, Option.some.injEq] at hp0
        rw [hp0]; exact hname
      · exact hpre l (by simpa using h1)
  have hblock : ls ++ ml = pre ++ sL "M  END\n" :: ml := by rw [hls]; simp
  have hfm : firstMEnd (ls ++ ml) = some ls.length := by
    rw [hblock, firstMEnd_block pre ml hpreAll, hls]; simp
  have hmol : blockMol ⟨ls ++ ml, firstMEnd (ls ++ ml)⟩ = .ok ls := by
    simp [blockMol, hfm, pure, Except.pure]
  have hmt : blockMeta ⟨ls ++ ml, firstMEnd (ls ++ ml)⟩ = .ok ml := by
    simp [blockMeta, hfm, pure, Except.pure]
  have hv3 : isV3000 ls = .ok false := by
    have : ls[4]? = some l4 := by
      rw [hls, List.getElem?_append_left (by omega)]; exact hp4
    simp only [isV3000, lineAt, this, bind, Except.bind, pure, Except.pure]
    have : startsWith l4 (sL "M  V30 BEGIN CTAB") = false := not_startsWith_M hl4 _
    rw [this]
  have hparse := molblock_roundtrip true g h ls hw
  have hmaps : (AnyMol.v2 (expectedMol true g)).maps = g.atoms.map fun a => (a.num : Int) := by
    simp only [AnyMol.maps, expectedMol, List.map_map]
    apply List.map_congr_left
    intro a _
    simp only [Function.comp, withProps, expectedAtom]
    split <;> split <;> split <;> simp
  have hmapping : postprocessMapping (g.atoms.map fun a => (a.num : Int)) = .ok (g.atoms.map fun a => (a.num : Int)) := by
    apply mapping_preserved
    · intro hnil
      exact h.atomsNe (List.map_eq_nil_iff.mp hnil)
    · intro m hm
      simp only [List.mem_map] at hm
      obtain ⟨a, ha, rfl⟩ := hm
      have := hnum0 a ha
      omega
    · exact hnums
  have hmd : readMeta ml = kvs.map fun kv => (kv.1, joinWith ['\n'] kv.2) := by
    unfold readMeta
    rw [← hml, readMetaLoop_chunks kvs none [] hmeta (by simpa using hnd)]
    simp
  simp only [readStructure, hmol, hmt, hv3, hparse, hmaps, hmapping, hmd, bind, Except.bind, pure, Except.pure,
    Bool.false_eq_true, if_false, Functor.map, Except.map]

end ChythonModel.Proofs.C11
