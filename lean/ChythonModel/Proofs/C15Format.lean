import ChythonModel.Model.C15Format
/-!
Order lemmas for the role sort key of `ReactionContainer.__format__` and uniqueness of the sorted role.
-/
namespace ChythonModel.Proofs.C15
open ChythonModel.Model.C15

theorem lexLe_refl : ∀ a, lexLe a a = true
  | [] => rfl
  | x :: xs => by simp [lexLe, lexLe_refl xs]

theorem lexLe_total : ∀ a b, (lexLe a b || lexLe b a) = true
  | [], _ => by simp [lexLe]
  | _ :: _, [] => by simp [lexLe]
  | x :: xs, y :: ys => by
    have ih := lexLe_total xs ys
    simp only [lexLe, Bool.or_eq_true, Bool.and_eq_true, decide_eq_true_eq, beq_iff_eq] at ih ⊢
    rcases Nat.lt_trichotomy x y with h | h | h
    · exact Or.inl (Or.inl h)
    · subst h; rcases ih with h | h
      · exact Or.inl (Or.inr ⟨rfl, h⟩)
      · exact Or.inr (Or.inr ⟨rfl, h⟩)
    · exact Or.inr (Or.inl h)

theorem lexLe_antisymm : ∀ a b, lexLe a b = true → lexLe b a = true → a = b
  | [], [] => fun _ _ => rfl
  | [], _ :: _ => by simp [lexLe]
  | _ :: _, [] => by simp [lexLe]
  | x :: xs, y :: ys => by
    intro h1 h2
    simp only [lexLe, Bool.or_eq_true, Bool.and_eq_true, decide_eq_true_eq, beq_iff_eq] at h1 h2
    rcases h1 with h1 | ⟨e1, h1⟩
    · rcases h2 with h2 | ⟨e2, _⟩
      · omega
      · omega
    · subst e1
      rcases h2 with h2 | ⟨_, h2⟩
      · omega
      · rw [lexLe_antisymm xs ys h1 h2]

theorem lexLe_trans : ∀ a b c, lexLe a b = true → lexLe b c = true → lexLe a c = true
  | [], _, _ => by simp [lexLe]
  | _ :: _, [], _ => by simp [lexLe]
  | _ :: _, _ :: _, [] => by simp [lexLe]
  | x :: xs, y :: ys, z :: zs => by
    intro h1 h2
    simp only [lexLe, Bool.or_eq_true, Bool.and_eq_true, decide_eq_true_eq, beq_iff_eq] at h1 h2 ⊢
    rcases h1 with h1 | ⟨e1, h1⟩
    · rcases h2 with h2 | ⟨e2, _⟩
      · exact Or.inl (by omega)
      · exact Or.inl (by omega)
    · subst e1
      rcases h2 with h2 | ⟨e2, h2⟩
      · exact Or.inl h2
      · exact Or.inr ⟨e2, lexLe_trans xs ys zs h1 h2⟩

theorem b2n_inj : ∀ a b : List Bool, a.map b2n = b.map b2n → a = b
  | [], [] => fun _ => rfl
  | [], _ :: _ => by simp
  | _ :: _, [] => by simp
  | x :: xs, y :: ys => by
    intro h
    simp only [List.map_cons, List.cons.injEq] at h
    have : x = y := by
      cases x <;> cases y <;> simp [b2n] at h <;> rfl
    rw [this, b2n_inj xs ys h.2]

theorem keyLe_total (a b : MolSig) : (keyLe a b || keyLe b a) = true := by
  unfold keyLe
  by_cases h : a.s = b.s
  · simp only [h, beq_self_eq_true, if_true]
    exact lexLe_total _ _
  · have h' : ¬ b.s = a.s := fun e => h e.symm
    simp only [beq_iff_eq, h, h', if_false]
    exact lexLe_total _ _

theorem keyLe_antisymm (a b : MolSig) (h1 : keyLe a b = true) (h2 : keyLe b a = true) :
    a.s = b.s ∧ a.radicals = b.radicals := by
  unfold keyLe at h1 h2
  by_cases h : a.s = b.s
  · simp only [h, beq_self_eq_true, if_true] at h1 h2
    exact ⟨h, b2n_inj _ _ (lexLe_antisymm _ _ h1 h2)⟩
  · have h' : ¬ b.s = a.s := fun e => h e.symm
    simp only [beq_iff_eq, h, h', if_false] at h1 h2
    exact absurd (lexLe_antisymm _ _ h1 h2) h

theorem keyLe_trans (a b c : MolSig) (h1 : keyLe a b = true) (h2 : keyLe b c = true) : keyLe a c = true := by
  unfold keyLe at h1 h2 ⊢
  by_cases hab : a.s = b.s <;> by_cases hbc : b.s = c.s
  · simp only [hab, hbc, beq_self_eq_true, if_true] at h1 h2 ⊢
    exact lexLe_trans _ _ _ h1 h2
  · simp only [beq_iff_eq, hab, hbc, if_false, if_true] at h1 h2 ⊢
    exact h2
  · have hac : ¬ a.s = c.s := fun e => hab (e.trans hbc.symm)
    rw [if_neg (by simpa using hab)] at h1
    rw [if_neg (by simpa using hac)]
    rw [← hbc]; exact h1
  · simp only [beq_iff_eq, hab, hbc, if_false] at h1 h2
    have h13 := lexLe_trans _ _ _ h1 h2
    by_cases hac : a.s = c.s
    · exfalso
      rw [← hac] at h2
      exact hab (lexLe_antisymm _ _ h1 h2)
    · simp only [beq_iff_eq, hac, if_false]; exact h13

/-- permuted roles sort to the same list when the sort key identifies a molecule among those of the role -/
theorem sortRole_perm (l₁ l₂ : List MolSig) (hp : l₁.Perm l₂)
    (hk : ∀ a ∈ l₁, ∀ b ∈ l₁, a.s = b.s → a.radicals = b.radicals → a = b) :
    sortRole false l₁ = sortRole false l₂ := by
  simp only [sortRole, Bool.false_eq_true, if_false]
  have p1 := List.mergeSort_perm l₁ keyLe
  have p2 := List.mergeSort_perm l₂ keyLe
  apply List.Perm.eq_of_pairwise (le := fun a b => keyLe a b = true)
  · intro a b ha hb hab hba
    have ha' : a ∈ l₁ := p1.subset ha
    have hb' : b ∈ l₁ := hp.symm.subset (p2.subset hb)
    obtain ⟨e1, e2⟩ := keyLe_antisymm a b hab hba
    exact hk a ha' b hb' e1 e2
  · exact List.pairwise_mergeSort keyLe_trans keyLe_total l₁
  · exact List.pairwise_mergeSort keyLe_trans keyLe_total l₂
  · exact p1.trans (hp.trans p2.symm)

theorem lookup_mem {α β : Type} [BEq α] [LawfulBEq α] (l : List (α × β)) (k : α) (v : β) :
    l.lookup k = some v → (k, v) ∈ l := by
  induction l with
  | nil => simp [List.lookup]
  | cons hd tl ih =>
    obtain ⟨k', v'⟩ := hd
    simp only [List.lookup]
    split
    · rename_i h; intro hv
      have := eq_of_beq h
      simp only [Option.some.injEq] at hv
      subst this; subst hv; exact List.mem_cons_self
    · intro h; exact List.mem_cons_of_mem _ (ih h)

end ChythonModel.Proofs.C15
