import ChythonModel.Proofs.C17Frag
/-! C17: `_fragments` and `linear_hash_set` characterised through the simple paths. -/
set_option linter.unusedSimpArgs false
namespace ChythonModel.Proofs.C17
open ChythonModel.Model ChythonModel.Model.Fingerprint ChythonModel.Spec.Fingerprint

theorem canon_canon (p : Path) : canon (canon p) = canon p := by
  rcases canon_eq_or p with h | h
  · rw [h]; exact h
  · rw [h]; exact (canon_reverse p).trans h

theorem simplePath_canon (m : Mol) (hwf : m.WF = true) (p : Path) (h : SimplePath m p) : SimplePath m (canon p) := by
  rcases canon_eq_or p with e | e <;> rw [e]
  · exact h
  · exact simplePath_reverse m (adj_symm_of_wf m hwf) p h

/-- `_fragments` never raises on a well-formed molecule and is the grouping of the chains by `fragKey` -/
theorem fragments_eq (H : TupleHash) (m : Mol) (hwf : m.WF = true) (lo hi : Int) (h1 : 1 ≤ lo) (h2 : lo ≤ hi) :
    ∃ cs, chains m lo hi = .ok cs ∧
      fragments H m lo hi = .ok (groupFold (fragKey H m) (fragDir H m) [] cs) := by
  obtain ⟨cs, hcs⟩ := chains_ok m hwf lo hi
  refine ⟨cs, hcs, ?_⟩
  have hsimple : ∀ c ∈ cs, SimplePath m c := by
    intro c hc
    obtain ⟨p, hp, _, _, rfl⟩ := (chains_exact_aux m hwf lo hi h1 h2 cs hcs c).mp hc
    exact simplePath_canon m hwf p hp
  unfold fragments
  simp only [hcs, bind, Except.bind]
  exact foldlM_fragStep H m hwf cs [] hsimple

theorem fragments_struct (H : TupleHash) (m : Mol) (hwf : m.WF = true) (lo hi : Int) (h1 : 1 ≤ lo) (h2 : lo ≤ hi)
    (d : FragDict) (h : fragments H m lo hi = .ok d) :
    (d.map (·.1)).Nodup ∧
    (∀ p, SimplePath m p → lo ≤ (p.length : Int) → (p.length : Int) ≤ hi → ∃ ps, (fragKey H m p, ps) ∈ d) ∧
    ∀ K ps, (K, ps) ∈ d →
      (∀ q ∈ ps, labelSeq H m q = K) ∧ (ps.map canon).Nodup ∧
      ∀ x, x ∈ ps.map canon ↔
        ∃ p, SimplePath m p ∧ lo ≤ (p.length : Int) ∧ (p.length : Int) ≤ hi ∧ fragKey H m p = K ∧ x = canon p := by
  obtain ⟨cs, hcs, hd⟩ := fragments_eq H m hwf lo hi h1 h2
  rw [hd] at h; cases h
  have hex := chains_exact_aux m hwf lo hi h1 h2 cs hcs
  have hnd := chains_nodup_aux m hwf lo hi cs hcs
  have hkeys := keys_nodup_groupFold (fragKey H m) (fragDir H m) cs [] (by simp)
  refine ⟨hkeys, ?_, ?_⟩
  · intro p hp hl1 hl2
    have hc : canon p ∈ cs := (hex _).mpr ⟨p, hp, hl1, hl2, rfl⟩
    have hk : fragKey H m p ∈ (groupFold (fragKey H m) (fragDir H m) [] cs).map (·.1) :=
      (mem_keys_groupFold _ _ cs [] _).mpr (Or.inr ⟨canon p, hc, fragKey_canon H m hwf p⟩)
    exact ⟨_, mem_of_mem_keys _ _ hk⟩
  · intro K ps hmem
    have hv := valuesOf_of_mem _ K ps hkeys hmem
    rw [valuesOf_groupFold] at hv
    simp only [valuesOf, List.nil_append] at hv
    subst hv
    have hcanon : ((cs.filter fun a => fragKey H m a = K).map (fragDir H m)).map canon
        = cs.filter fun a => fragKey H m a = K := by
      rw [List.map_map]
      conv => rhs; rw [← List.map_id (cs.filter fun a => fragKey H m a = K)]
      apply List.map_congr_left
      intro c hc
      have hc' := (List.mem_filter.mp hc).1
      obtain ⟨p, _, _, _, rfl⟩ := (hex c).mp hc'
      simp only [Function.comp, canon_fragDir, canon_canon, id]
    refine ⟨?_, ?_, ?_⟩
    · intro q hq
      obtain ⟨c, hc, rfl⟩ := List.mem_map.mp hq
      rw [labelSeq_fragDir H m hwf c]
      simpa using (List.mem_filter.mp hc).2
    · rw [hcanon]; exact hnd.filter _
    · intro x
      rw [hcanon, List.mem_filter]
      constructor
      · rintro ⟨hx, hk⟩
        obtain ⟨p, hp, hl1, hl2, rfl⟩ := (hex x).mp hx
        refine ⟨p, hp, hl1, hl2, ?_, rfl⟩
        rw [← fragKey_canon H m hwf p]; simpa using hk
      · rintro ⟨p, hp, hl1, hl2, hk, rfl⟩
        refine ⟨(hex _).mpr ⟨p, hp, hl1, hl2, rfl⟩, ?_⟩
        rw [fragKey_canon H m hwf p]; simpa using hk

theorem lt_capCount (n : Nat) (nbp : Int) (cnt : Nat) :
    cnt < capCount n nbp ↔ cnt < n ∧ (if nbp = 0 then cnt < 999999999 else (cnt : Int) < nbp) := by
  unfold capCount
  split <;> omega

theorem mem_hashesOfDict (H : TupleHash) (nbp : Int) (d : FragDict) (x : Int) :
    x ∈ hashesOfDict H nbp d ↔ ∃ K ps, (K, ps) ∈ d ∧ ∃ cnt : Nat, cnt < ps.length ∧
      (if nbp = 0 then cnt < 999999999 else (cnt : Int) < nbp) ∧ x = H (K ++ [(cnt : Int)]) := by
  unfold hashesOfDict
  rw [mem_toSet, List.mem_flatMap]
  constructor
  · rintro ⟨⟨K, ps⟩, hmem, hx⟩
    obtain ⟨cnt, hc, rfl⟩ := List.mem_map.mp hx
    rw [List.mem_range, lt_capCount] at hc
    exact ⟨K, ps, hmem, cnt, hc.1, hc.2, rfl⟩
  · rintro ⟨K, ps, hmem, cnt, h1, h2, rfl⟩
    refine ⟨(K, ps), hmem, List.mem_map.mpr ⟨cnt, ?_, rfl⟩⟩
    rw [List.mem_range, lt_capCount]; exact ⟨h1, h2⟩

end ChythonModel.Proofs.C17
