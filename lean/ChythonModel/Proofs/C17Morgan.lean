import ChythonModel.Proofs.C17FragTop
/-! C17: `_morgan_hash_dict` — iterated neighbourhood identifiers; independence of numbering and insertion order. -/
set_option linter.unusedSimpArgs false
namespace ChythonModel.Proofs.C17
open ChythonModel.Model ChythonModel.Model.Fingerprint ChythonModel.Spec.Fingerprint

/-- one refinement round at atom `x`: hash of the own identifier followed by the sorted (bond order, neighbour identifier) pairs -/
def ecStep (H : TupleHash) (m : Mol) (F : Nat → Int) (x : Nat) : Int :=
  H (F x :: flattenPairs (((m.nbrs x).map fun kb => ((kb.2.order : Int), F kb.1)).mergeSort pairLe))

/-- neighbourhood identifier of atom `x` after `r` refinement rounds (chython's "radius `r + 1`") -/
def ecIdent (H : TupleHash) (m : Mol) : Nat → Nat → Int
  | 0, x => identOf H m x
  | r + 1, x => ecStep H m (ecIdent H m r) x

def layerOf (m : Mol) (F : Nat → Int) : List (Nat × Int) := m.ids.map fun x => (x, F x)

/-! ## lookups -/

theorem lookup_of_mem_nodup {β : Type} : ∀ (l : List (Nat × β)) (k : Nat) (v : β),
    (l.map (·.1)).Nodup → (k, v) ∈ l → l.lookup k = some v
  | [], _, _, _, h => by simp at h
  | (k', v') :: l, k, v, hn, h => by
    simp only [List.map_cons, List.nodup_cons] at hn
    rw [List.lookup_cons]
    rcases List.mem_cons.mp h with e | h'
    · cases e; simp
    · have : k ≠ k' := by
        intro e; subst e
        exact hn.1 (List.mem_map.mpr ⟨(k, v), h', rfl⟩)
      have : (k == k') = false := by simpa using this
      rw [this]
      exact lookup_of_mem_nodup l k v hn.2 h'

theorem lookup_layer (F : Nat → Int) : ∀ (l : List Nat) (k : Nat), k ∈ l → (l.map fun x => (x, F x)).lookup k = some (F k)
  | [], _, h => by simp at h
  | a :: l, k, h => by
    simp only [List.map_cons, List.lookup_cons]
    by_cases e : k = a
    · subst e; simp
    · have : (k == a) = false := by simpa using e
      rw [this]
      rcases List.mem_cons.mp h with h | h
      · exact absurd h e
      · exact lookup_layer F l k h

theorem getItem_layer (m : Mol) (F : Nat → Int) (k : Nat) (h : k ∈ m.ids) : getItem (layerOf m F) k = .ok (F k) := by
  unfold getItem layerOf
  rw [lookup_layer F m.ids k h]; rfl

theorem atomIdentifiers_eq_layer (H : TupleHash) (m : Mol) (hwf : m.WF = true) :
    atomIdentifiers H m = layerOf m (identOf H m) := by
  unfold atomIdentifiers layerOf Mol.ids
  rw [List.map_map]
  apply List.map_congr_left
  intro na hna
  have hn : (m.atoms.map (·.1)).Nodup := (wf_parts m hwf).1
  have := lookup_of_mem_nodup m.atoms na.1 na.2 hn hna
  simp only [Function.comp, identOf, Mol.atom?, this, Option.elim]

/-! ## the dict comprehension without `KeyError` -/

theorem nbrPairs_ok (m : Mol) (F : Nat → Int) : ∀ (ms : List (Nat × Bond)), (∀ kb ∈ ms, kb.1 ∈ m.ids) →
    nbrPairs (layerOf m F) ms = .ok (ms.map fun kb => ((kb.2.order : Int), F kb.1))
  | [], _ => rfl
  | (k, b) :: ms, h => by
    have hk := h (k, b) (by simp)
    have ih := nbrPairs_ok m F ms (fun kb hkb => h kb (List.mem_cons_of_mem _ hkb))
    simp only [nbrPairs, getItem_layer m F k hk, ih, bind, Except.bind, pure, Except.pure, List.map_cons]

theorem nbrs_in_ids (m : Mol) (hwf : m.WF = true) (x : Nat) : ∀ kb ∈ m.nbrs x, kb.1 ∈ m.ids := by
  intro kb hkb
  exact closed_of_wf m hwf x kb.1 (List.mem_map.mpr ⟨kb, hkb, rfl⟩)

theorem morganStepOver_ok (H : TupleHash) (m : Mol) (hwf : m.WF = true) (F : Nat → Int) : ∀ (l : List Nat),
    (∀ x ∈ l, x ∈ m.ids) →
    morganStepOver H m (layerOf m F) (l.map fun x => (x, F x)) = .ok (l.map fun x => (x, ecStep H m F x))
  | [], _ => rfl
  | x :: l, h => by
    have hx := h x (by simp)
    have ih := morganStepOver_ok H m hwf F l (fun y hy => h y (List.mem_cons_of_mem _ hy))
    simp only [List.map_cons, morganStepOver, getItem_adj m hwf x hx, nbrPairs_ok m F (m.nbrs x) (nbrs_in_ids m hwf x),
      ih, bind, Except.bind, pure, Except.pure, ecStep]

theorem morganStep_ok (H : TupleHash) (m : Mol) (hwf : m.WF = true) (F : Nat → Int) :
    morganStep H m (layerOf m F) = .ok (layerOf m (ecStep H m F)) :=
  morganStepOver_ok H m hwf F m.ids (fun _ h => h)

theorem morganIter_ok (H : TupleHash) (m : Mol) (hwf : m.WF = true) : ∀ (k r : Nat),
    morganIter H m k (layerOf m (ecIdent H m r)) =
      .ok ((List.range' (r + 1) k).map fun i => layerOf m (ecIdent H m i))
  | 0, r => rfl
  | k + 1, r => by
    have ih := morganIter_ok H m hwf k (r + 1)
    simp only [morganIter, morganStep_ok H m hwf, bind, Except.bind, pure, Except.pure]
    have : ecStep H m (ecIdent H m r) = ecIdent H m (r + 1) := rfl
    rw [this, ih]
    simp [List.range'_succ]

/-- **layers** — for `1 ≤ lo ≤ hi` the result is the list of identifier dicts of radii `lo … hi` -/
theorem morganHashDict_ok (H : TupleHash) (m : Mol) (hwf : m.WF = true) (lo hi : Int) (h1 : 1 ≤ lo) (h2 : lo ≤ hi) :
    morganHashDict H m lo hi =
      .ok ((List.range' (lo - 1).toNat (hi - lo + 1).toNat).map fun i => layerOf m (ecIdent H m i)) := by
  unfold morganHashDict
  have e1 : ¬ lo < 1 := by omega
  have e2 : ¬ hi < lo := by omega
  simp only [e1, e2, if_false, bind, Except.bind, pure, Except.pure]
  rw [atomIdentifiers_eq_layer H m hwf]
  have h0 : identOf H m = ecIdent H m 0 := rfl
  rw [h0, morganIter_ok H m hwf]
  simp only []
  have hcons : (layerOf m (ecIdent H m 0) :: (List.range' (0 + 1) (hi - 1).toNat).map fun i => layerOf m (ecIdent H m i))
      = (List.range' 0 ((hi - 1).toNat + 1)).map fun i => layerOf m (ecIdent H m i) := by
    simp [List.range'_succ]
  rw [hcons]
  unfold sliceLast
  have hk : hi - lo + 1 > 0 := by omega
  rw [if_pos hk, ← List.map_drop, List.length_map, List.length_range', List.drop_range']
  have ea : 0 + ((hi - 1).toNat + 1 - (hi - lo + 1).toNat) * 1 = (lo - 1).toNat := by omega
  have eb : (hi - 1).toNat + 1 - ((hi - 1).toNat + 1 - (hi - lo + 1).toNat) = (hi - lo + 1).toNat := by omega
  rw [ea, eb]

theorem mem_morganHashSet (H : TupleHash) (m : Mol) (hwf : m.WF = true) (lo hi : Int) (h1 : 1 ≤ lo) (h2 : lo ≤ hi)
    (hs : List Int) (h : morganHashSet H m lo hi = .ok hs) (x : Int) :
    x ∈ hs ↔ ∃ r : Nat, lo ≤ (r : Int) + 1 ∧ (r : Int) + 1 ≤ hi ∧ ∃ a ∈ m.ids, x = ecIdent H m r a := by
  unfold morganHashSet at h
  rw [morganHashDict_ok H m hwf lo hi h1 h2] at h
  simp only [bind, Except.bind, pure, Except.pure] at h
  cases h
  rw [mem_toSet, List.mem_flatMap]
  constructor
  · rintro ⟨d, hd, hx⟩
    obtain ⟨r, hr, rfl⟩ := List.mem_map.mp hd
    rw [List.mem_range'_1] at hr
    simp only [layerOf, List.map_map, List.mem_map, Function.comp] at hx
    obtain ⟨a, ha, rfl⟩ := hx
    exact ⟨r, by omega, by omega, a, ha, rfl⟩
  · rintro ⟨r, hr1, hr2, a, ha, rfl⟩
    refine ⟨layerOf m (ecIdent H m r), List.mem_map.mpr ⟨r, ?_, rfl⟩, ?_⟩
    · rw [List.mem_range'_1]; omega
    · simp only [layerOf, List.map_map, List.mem_map, Function.comp]
      exact ⟨a, ha, rfl⟩

/-! ## sorting forgets the order of the neighbour dict -/

theorem pairLe_trans (a b c : Int × Int) : pairLe a b = true → pairLe b c = true → pairLe a c = true := by
  unfold pairLe
  simp only [Bool.or_eq_true, Bool.and_eq_true, decide_eq_true_eq, beq_iff_eq]
  omega

theorem pairLe_total (a b : Int × Int) : (pairLe a b || pairLe b a) = true := by
  unfold pairLe
  simp only [Bool.or_eq_true, Bool.and_eq_true, decide_eq_true_eq, beq_iff_eq]
  omega

theorem pairLe_antisymm (a b : Int × Int) : pairLe a b = true → pairLe b a = true → a = b := by
  unfold pairLe
  simp only [Bool.or_eq_true, Bool.and_eq_true, decide_eq_true_eq, beq_iff_eq]
  intro h1 h2
  have : a.1 = b.1 ∧ a.2 = b.2 := by omega
  exact Prod.ext this.1 this.2

theorem mergeSort_eq_of_perm (l l' : List (Int × Int)) (h : l.Perm l') : l.mergeSort pairLe = l'.mergeSort pairLe := by
  apply List.Perm.eq_of_pairwise (le := fun a b => pairLe a b = true)
  · intro a b _ _ h1 h2; exact pairLe_antisymm a b h1 h2
  · exact List.pairwise_mergeSort pairLe_trans pairLe_total l
  · exact List.pairwise_mergeSort pairLe_trans pairLe_total l'
  · exact ((List.mergeSort_perm l pairLe).trans h).trans (List.mergeSort_perm l' pairLe).symm

end ChythonModel.Proofs.C17
