import ChythonModel.Spec.CycleBasis
/-!
# Soundness of the GF(2) Gaussian elimination in `Spec/CycleBasis.lean`

`echelon vs = some B` ⇒ `B` is in echelon form (non-zero, strictly decreasing leading bits), spans the same
space as `vs`, and `vs` is linearly independent (`Independent`, the coefficient form).
-/
namespace ChythonModel.Proofs.C06
open ChythonModel.Spec.CycleBasis

theorem xor_cancel_a (x y v : Nat) : x ^^^ v ^^^ (y ^^^ v) = x ^^^ y := by grind
theorem xor_cancel_b (v s : Nat) : v ^^^ s ^^^ v = s := by grind
theorem xor_cancel_d (x r v : Nat) : x ^^^ r ^^^ (r ^^^ v) = x ^^^ v := by grind
theorem xor_cancel_e (r v : Nat) : r ^^^ v ^^^ v = r := by grind

/-- GF(2) span of a list of bit masks -/
def Span : List Nat → Nat → Prop
  | [], x => x = 0
  | v :: vs, x => Span vs x ∨ Span vs (x ^^^ v)

theorem span_zero (vs : List Nat) : Span vs 0 := by
  induction vs with
  | nil => rfl
  | cons v vs ih => exact Or.inl ih

theorem span_xor {vs : List Nat} {x y : Nat} : Span vs x → Span vs y → Span vs (x ^^^ y) := by
  induction vs generalizing x y with
  | nil => intro hx hy; simp only [Span] at *; subst hx hy; rfl
  | cons v vs ih =>
    intro hx hy
    rcases hx with hx | hx <;> rcases hy with hy | hy
    · exact Or.inl (ih hx hy)
    · refine Or.inr ?_
      have h := ih hx hy
      have e : x ^^^ (y ^^^ v) = x ^^^ y ^^^ v := by ac_rfl
      rwa [e] at h
    · refine Or.inr ?_
      have h := ih hx hy
      have e : x ^^^ v ^^^ y = x ^^^ y ^^^ v := by ac_rfl
      rwa [e] at h
    · refine Or.inl ?_
      have h := ih hx hy
      have e := xor_cancel_a x y v
      rwa [e] at h

theorem span_head (v : Nat) (vs : List Nat) : Span (v :: vs) v := by
  refine Or.inr ?_
  rw [Nat.xor_self]; exact span_zero vs

theorem span_tail {v : Nat} {vs : List Nat} {x : Nat} (h : Span vs x) : Span (v :: vs) x := Or.inl h

theorem xorSel_span (cs : List Bool) (vs : List Nat) : Span vs (xorSel cs vs) := by
  induction vs generalizing cs with
  | nil => cases cs <;> simp [xorSel, Span]
  | cons v vs ih =>
    cases cs with
    | nil => simp only [xorSel]; exact span_zero _
    | cons c cs =>
      simp only [xorSel]
      cases c
      · simp only [Bool.false_eq_true, ↓reduceIte, Nat.zero_xor]; exact Or.inl (ih cs)
      · simp only [↓reduceIte]
        refine Or.inr ?_
        have e := xor_cancel_b v (xorSel cs vs)
        rw [e]; exact ih cs

/-- recursive form of independence: no vector lies in the span of the later ones -/
def IndepRec : List Nat → Prop
  | [] => True
  | v :: vs => ¬ Span vs v ∧ IndepRec vs

theorem xor_eq_zero {a b : Nat} (h : a ^^^ b = 0) : a = b := by
  apply Nat.eq_of_testBit_eq; intro i
  have := congrArg (·.testBit i) h
  simp only [Nat.testBit_xor, Nat.zero_testBit] at this
  revert this; cases a.testBit i <;> cases b.testBit i <;> simp

theorem indepRec_independent {vs : List Nat} (h : IndepRec vs) : Independent vs := by
  induction vs with
  | nil =>
    intro cs hl _ c hc
    cases cs with
    | nil => cases hc
    | cons _ _ => simp at hl
  | cons v vs ih =>
    intro cs hl hz c hc
    cases cs with
    | nil => cases hc
    | cons c0 cs =>
      simp only [xorSel] at hz
      have hl' : cs.length = vs.length := by simpa using hl
      cases c0 with
      | true =>
        simp only [↓reduceIte] at hz
        have := xor_eq_zero hz
        exact absurd (this ▸ xorSel_span cs vs) h.1
      | false =>
        simp only [Bool.false_eq_true, ↓reduceIte, Nat.zero_xor] at hz
        rcases List.mem_cons.1 hc with rfl | hc
        · rfl
        · exact ih h.2 cs hl' hz c hc

/-! ## echelon form -/

def Ech : List Nat → Prop
  | [] => True
  | b :: B => b ≠ 0 ∧ (∀ c ∈ B, c.log2 < b.log2) ∧ Ech B

theorem testBit_of_log2_lt {c k : Nat} (h : c.log2 < k) : c.testBit k = false := by
  apply Nat.testBit_lt_two_pow
  exact Nat.lt_of_lt_of_le Nat.lt_log2_self (Nat.pow_le_pow_right (by decide) h)

theorem span_low {B : List Nat} {k : Nat} (hB : ∀ c ∈ B, c.testBit k = false) {s : Nat} (hs : Span B s) :
    s.testBit k = false := by
  induction B generalizing s with
  | nil => simp only [Span] at hs; subst hs; simp
  | cons b B ih =>
    have hb := hB b (List.mem_cons_self ..)
    have hB' : ∀ c ∈ B, c.testBit k = false := fun c hc => hB c (List.mem_cons_of_mem _ hc)
    rcases hs with hs | hs
    · exact ih hB' hs
    · have := ih hB' hs
      simpa [Nat.testBit_xor, hb] using this

theorem ech_span_zero {B : List Nat} (hE : Ech B) {s : Nat} (hs : Span B s)
    (hp : ∀ b ∈ B, s.testBit b.log2 = false) : s = 0 := by
  induction B generalizing s with
  | nil => exact hs
  | cons b B ih =>
    obtain ⟨hb0, hlt, hE'⟩ := hE
    have hlow : ∀ c ∈ B, c.testBit b.log2 = false := fun c hc => testBit_of_log2_lt (hlt c hc)
    rcases hs with hs | hs
    · exact ih hE' hs fun c hc => hp c (List.mem_cons_of_mem _ hc)
    · have h1 := span_low hlow hs
      have h2 := hp b (List.mem_cons_self ..)
      have h3 := Nat.testBit_log2 hb0
      simp [Nat.testBit_xor, h2, h3] at h1

theorem reduce_low {B : List Nat} {k : Nat} (hB : ∀ c ∈ B, c.testBit k = false) (v : Nat) :
    (reduce B v).testBit k = v.testBit k := by
  induction B generalizing v with
  | nil => rfl
  | cons b B ih =>
    have hb := hB b (List.mem_cons_self ..)
    have hB' : ∀ c ∈ B, c.testBit k = false := fun c hc => hB c (List.mem_cons_of_mem _ hc)
    simp only [reduce]
    rw [ih hB']
    split <;> simp [Nat.testBit_xor, hb]

theorem reduce_pivots {B : List Nat} (hE : Ech B) (v : Nat) : ∀ b ∈ B, (reduce B v).testBit b.log2 = false := by
  induction B generalizing v with
  | nil => intro b hb; cases hb
  | cons b B ih =>
    obtain ⟨hb0, hlt, hE'⟩ := hE
    intro c hc
    simp only [reduce]
    rcases List.mem_cons.1 hc with rfl | hc
    · have hlow : ∀ d ∈ B, d.testBit c.log2 = false := fun d hd => testBit_of_log2_lt (hlt d hd)
      rw [reduce_low hlow]
      have h3 := Nat.testBit_log2 hb0
      split
      · next h => simp [Nat.testBit_xor, h, h3]
      · next h => simpa using h
    · exact ih hE' _ c hc

theorem reduce_span (B : List Nat) (v : Nat) : Span B (reduce B v ^^^ v) := by
  induction B generalizing v with
  | nil => simp [reduce, Span]
  | cons b B ih =>
    simp only [reduce]
    split
    · refine Or.inr ?_
      have h := ih (v ^^^ b)
      have e : reduce B (v ^^^ b) ^^^ v ^^^ b = reduce B (v ^^^ b) ^^^ (v ^^^ b) := by ac_rfl
      rw [e]; exact h
    · exact Or.inl (ih v)

theorem mem_insertDesc {r : Nat} {B : List Nat} {c : Nat} : c ∈ insertDesc r B ↔ c = r ∨ c ∈ B := by
  induction B with
  | nil => simp [insertDesc]
  | cons b B ih =>
    simp only [insertDesc]
    split
    · simp
    · simp only [List.mem_cons, ih]
      constructor
      · rintro (h | h | h) <;> simp [h]
      · rintro (h | h | h) <;> simp [h]

theorem span_insertDesc (r : Nat) (B : List Nat) (x : Nat) : Span (insertDesc r B) x ↔ Span (r :: B) x := by
  induction B generalizing x with
  | nil => simp [insertDesc]
  | cons b B ih =>
    simp only [insertDesc]
    split
    · exact Iff.rfl
    · simp only [Span, ih]
      have e : x ^^^ b ^^^ r = x ^^^ r ^^^ b := by ac_rfl
      rw [e]
      constructor
      · rintro ((h | h) | (h | h))
        · exact Or.inl (Or.inl h)
        · exact Or.inr (Or.inl h)
        · exact Or.inl (Or.inr h)
        · exact Or.inr (Or.inr h)
      · rintro ((h | h) | (h | h))
        · exact Or.inl (Or.inl h)
        · exact Or.inr (Or.inl h)
        · exact Or.inl (Or.inr h)
        · exact Or.inr (Or.inr h)

theorem ech_insertDesc {r : Nat} {B : List Nat} (hE : Ech B) (hr : r ≠ 0)
    (hp : ∀ b ∈ B, r.testBit b.log2 = false) : Ech (insertDesc r B) := by
  induction B with
  | nil => exact ⟨hr, by simp, trivial⟩
  | cons b B ih =>
    obtain ⟨hb0, hlt, hE'⟩ := hE
    simp only [insertDesc]
    split
    · next h =>
      refine ⟨hr, ?_, hb0, hlt, hE'⟩
      intro c hc
      rcases List.mem_cons.1 hc with rfl | hc
      · exact h
      · exact Nat.lt_trans (hlt c hc) h
    · next h =>
      have hne : r.log2 ≠ b.log2 := by
        intro e
        have h1 := hp b (List.mem_cons_self ..)
        have h2 := Nat.testBit_log2 hr
        rw [e] at h2; rw [h1] at h2; cases h2
      have hlt' : r.log2 < b.log2 := by omega
      refine ⟨hb0, ?_, ih hE' fun c hc => hp c (List.mem_cons_of_mem _ hc)⟩
      intro c hc
      rcases mem_insertDesc.1 hc with rfl | hc
      · exact hlt'
      · exact hlt c hc

/-- the elimination is sound: a returned basis is echelon, spans the same space, and the input is independent -/
theorem echelon_sound {vs B : List Nat} (h : echelon vs = some B) :
    Ech B ∧ (∀ x, Span vs x ↔ Span B x) ∧ IndepRec vs := by
  induction vs generalizing B with
  | nil => simp only [echelon, Option.some.injEq] at h; subst h; exact ⟨trivial, fun _ => Iff.rfl, trivial⟩
  | cons v vs ih =>
    simp only [echelon] at h
    split at h
    · cases h
    · next B0 hB0 =>
      obtain ⟨hE, hspan, hind⟩ := ih hB0
      split at h
      · cases h
      · next hr =>
        simp only [Option.some.injEq] at h; subst h
        have hpiv := reduce_pivots hE v
        have hred := reduce_span B0 v
        refine ⟨ech_insertDesc hE hr hpiv, ?_, ?_, hind⟩
        · intro x
          rw [span_insertDesc]
          simp only [Span, hspan]
          -- Span B0 (x ^^^ v) ↔ Span B0 (x ^^^ reduce B0 v)
          have key : Span B0 (x ^^^ v) ↔ Span B0 (x ^^^ reduce B0 v) := by
            constructor
            · intro hx
              have := span_xor hx hred
              have e := xor_cancel_a x (reduce B0 v) v
              rwa [e] at this
            · intro hx
              have := span_xor hx hred
              have e := xor_cancel_d x (reduce B0 v) v
              rwa [e] at this
          rw [key]
        · intro hv
          have hv' : Span B0 v := (hspan v).1 hv
          have : Span B0 (reduce B0 v) := by
            have := span_xor hred hv'
            have e := xor_cancel_e (reduce B0 v) v
            rwa [e] at this
          exact hr (ech_span_zero hE this hpiv)

theorem indepCheck_sound {vs : List Nat} (h : indepCheck vs = true) : Independent vs := by
  unfold indepCheck at h
  cases he : echelon vs with
  | none => rw [he] at h; cases h
  | some B => exact indepRec_independent (echelon_sound he).2.2

/-! ## completeness: an independent list is never rejected -/

theorem xor_self_cancel (v x : Nat) : v ^^^ (x ^^^ v) = x := by grind

theorem span_coeff {vs : List Nat} {x : Nat} (h : Span vs x) : ∃ cs, cs.length = vs.length ∧ xorSel cs vs = x := by
  induction vs generalizing x with
  | nil => exact ⟨[], rfl, by simpa [Span, xorSel] using h.symm⟩
  | cons v vs ih =>
    rcases h with h | h
    · obtain ⟨cs, hl, hx⟩ := ih h
      exact ⟨false :: cs, by simp [hl], by simp [xorSel, hx]⟩
    · obtain ⟨cs, hl, hx⟩ := ih h
      refine ⟨true :: cs, by simp [hl], ?_⟩
      simp only [xorSel, ↓reduceIte, hx]
      exact xor_self_cancel v x

theorem independent_tail {v : Nat} {vs : List Nat} (h : Independent (v :: vs)) : Independent vs := by
  intro cs hl hz c hc
  exact h (false :: cs) (by simp [hl]) (by simp [xorSel, hz]) c (List.mem_cons_of_mem _ hc)

theorem echelon_complete {vs : List Nat} (h : Independent vs) : (echelon vs).isSome = true := by
  induction vs with
  | nil => rfl
  | cons v vs ih =>
    have hi := ih (independent_tail h)
    cases hB : echelon vs with
    | none => rw [hB] at hi; cases hi
    | some B =>
      simp only [echelon, hB]
      split
      · next hr =>
        exfalso
        have hs := echelon_sound hB
        have hred := reduce_span B v
        rw [hr, Nat.zero_xor] at hred
        obtain ⟨cs, hl, hx⟩ := span_coeff ((hs.2.1 v).2 hred)
        have := h (true :: cs) (by simp [hl]) (by simp [xorSel, hx]) true (List.mem_cons_self ..)
        cases this
      · rfl

theorem indepCheck_iff (vs : List Nat) : indepCheck vs = true ↔ Independent vs :=
  ⟨indepCheck_sound, fun h => echelon_complete h⟩

end ChythonModel.Proofs.C06
