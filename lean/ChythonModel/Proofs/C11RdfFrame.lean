import ChythonModel.Proofs.C11Frame
/-!
# C11 — RDF record framing: `RDFRead._read_block` / iteration on a file of `$MFMT|$RFMT`-introduced records
-/
namespace ChythonModel.Proofs.C11
open ChythonModel.Model.C11

def isDtype (l : Str) : Bool := startsWith l (sL "$DTYPE")

/-- `__m_start` of a complete buffer scanned from position `i`, current value `ms` (0 is falsy: a `$DTYPE` found at
    position 0 does not stick) -/
def mStartFrom : Nat → Nat → List Str → Nat
  | _, ms, [] => ms
  | i, ms, l :: ls => mStartFrom (i + 1) (if ms == 0 && isDtype l then i else ms) ls

def rdfMStart (b : List Str) : Nat := mStartFrom 0 0 b

/-- an RDF record body the reader sees as one block: non-empty, no line starts with `$RFMT`/`$MFMT`, strictly smaller
    than the read-ahead buffer (the size test precedes the separator test in the code) -/
structure WFRBlock (bufSize : Nat) (b : List Str) : Prop where
  ne : b ≠ []
  noFmt : ∀ l ∈ b, isFmt l = false
  fits : b.length < bufSize

theorem not_dtype_of_fmt {f : Str} (h : isFmt f = true) : startsWith f (sL "$DTYPE") = false := by
  have e1 : sL "$RFMT" = ['$', 'R', 'F', 'M', 'T'] := rfl
  have e2 : sL "$MFMT" = ['$', 'M', 'F', 'M', 'T'] := rfl
  have e3 : sL "$DTYPE" = ['$', 'D', 'T', 'Y', 'P', 'E'] := rfl
  unfold isFmt startsWith at h
  unfold startsWith
  rw [e1, e2] at h
  rw [e3]
  match f, h with
  | [], h => simp [List.isPrefixOf] at h
  | [_], h => simp [List.isPrefixOf] at h
  | c0 :: c1 :: tl, h =>
    simp only [List.isPrefixOf, Bool.and_eq_true, Bool.or_eq_true, beq_iff_eq] at h
    simp only [List.isPrefixOf, Bool.and_eq_false_iff, beq_eq_false_iff_ne, ne_eq]
    rcases h with h | h
    · right; left; intro hc; have := h.2.1; rw [← this] at hc; exact absurd hc (by decide)
    · right; left; intro hc; have := h.2.1; rw [← this] at hc; exact absurd hc (by decide)

/-- body lines of one record in front of the next record marker (or the end of the file) -/
theorem rdfBlockGo_body (bufSize : Nat) :
    ∀ (b : List Str) (n : Nat) (buf : List Str) (ms : Nat) (tail : List Str),
      (∀ l ∈ b, isFmt l = false) → n + b.length < bufSize →
      (tail = [] ∨ ∃ f rest, tail = f :: rest ∧ isFmt f = true) →
      rdfBlockGo bufSize n false buf ms (b ++ tail) =
        .ok (⟨buf ++ b, mStartFrom buf.length ms b⟩, tail.drop 1) := by
  intro b
  induction b with
  | nil =>
    intro n buf ms tail _ hn ht
    rcases ht with h | ⟨f, rest, h, hf⟩
    · subst h; simp [rdfBlockGo, mStartFrom, pure, Except.pure]
    · subst h
      have hne : (n == bufSize) = false := by simp only [beq_eq_false_iff_ne, ne_eq]; simp at hn; omega
      have hd : (ms == 0 && startsWith f (sL "$DTYPE")) = false := by
        simp [not_dtype_of_fmt hf]
      simp [rdfBlockGo, hne, hd, hf, mStartFrom, pure, Except.pure]
  | cons l ls ih =>
    intro n buf ms tail hs hn ht
    have hl : isFmt l = false := hs l (by simp)
    have hne : (n == bufSize) = false := by
      simp only [List.length_cons] at hn
      simp only [beq_eq_false_iff_ne, ne_eq]; omega
    simp only [List.cons_append, rdfBlockGo, hne, Bool.false_eq_true, if_false, hl]
    have := ih (n + 1) (buf ++ [l]) (if ms == 0 && isDtype l then buf.length else ms) tail
      (fun x hx => hs x (by simp [hx])) (by simp only [List.length_cons] at hn; omega) ht
    by_cases hd : (ms == 0 && startsWith l (sL "$DTYPE")) = true
    · have hd' : (ms == 0 && isDtype l) = true := hd
      simp only [hd, if_true]
      simp only [hd', if_true] at this
      simpa [mStartFrom, hd', List.append_assoc] using this
    · have hd0 : (ms == 0 && startsWith l (sL "$DTYPE")) = false := by simpa using hd
      have hd' : (ms == 0 && isDtype l) = false := hd0
      simp only [hd0, Bool.false_eq_true, if_false]
      simp only [hd', Bool.false_eq_true, if_false] at this
      simpa [mStartFrom, hd', List.append_assoc] using this

/-- the rest of a file after a record body: the following markers and bodies -/
def rdfTail : List (Str × List Str) → List Str
  | [] => []
  | (m, b) :: rest => m :: (b ++ rdfTail rest)

theorem rdfTail_shape (rest : List (Str × List Str)) (hm : ∀ p ∈ rest, isFmt p.1 = true) :
    rdfTail rest = [] ∨ ∃ f r, rdfTail rest = f :: r ∧ isFmt f = true := by
  cases rest with
  | nil => left; rfl
  | cons p ps => right; exact ⟨p.1, p.2 ++ rdfTail ps, rfl, hm p (by simp)⟩

/-- one block read from inside the file (`_tell > 0`) -/
theorem rdfReadBlock_body (bufSize tell : Nat) (b : List Str) (rest : List (Str × List Str))
    (hb : WFRBlock bufSize b) (hm : ∀ p ∈ rest, isFmt p.1 = true) :
    rdfReadBlock bufSize (tell + 1) (b ++ rdfTail rest) = .ok (⟨b, rdfMStart b⟩, (rdfTail rest).drop 1) := by
  unfold rdfReadBlock
  have h0 : (tell + 1 == 0) = false := by simp
  rw [h0]
  have := rdfBlockGo_body bufSize b 0 [] 0 (rdfTail rest) hb.noFmt (by simpa using hb.fits) (rdfTail_shape rest hm)
  simp only [List.nil_append, List.length_nil] at this
  rw [this]
  cases hbe : b with
  | nil => exact absurd hbe hb.ne
  | cons _ _ => rfl

set_option linter.unusedSimpArgs false in
theorem rdfIterate_inside (rs : RBlock → R ρ) (bufSize : Nat) :
    ∀ (rest : List (Str × List Str)) (b : List Str) (tell fuel : Nat), rest.length + 1 < fuel →
      WFRBlock bufSize b → (∀ p ∈ rest, isFmt p.1 = true ∧ WFRBlock bufSize p.2) →
      NoCrash (rs ⟨b, rdfMStart b⟩) → (∀ p ∈ rest, NoCrash (rs ⟨p.2, rdfMStart p.2⟩)) →
      rdfIterate rs bufSize fuel (tell + 1) (b ++ rdfTail rest) =
        ((okPart (rs ⟨b, rdfMStart b⟩)).toList ++ rest.filterMap (fun p => okPart (rs ⟨p.2, rdfMStart p.2⟩)), none) := by
  intro rest
  induction rest with
  | nil =>
    intro b tell fuel hf hb _ hnc _
    obtain ⟨f1, rfl⟩ : ∃ f1, fuel = f1 + 1 := ⟨fuel - 1, by omega⟩
    obtain ⟨f2, rfl⟩ : ∃ f2, f1 = f2 + 1 := ⟨f1 - 1, by simp at hf; omega⟩
    have hrb := rdfReadBlock_body bufSize tell b [] hb (by simp)
    simp only [rdfTail, List.append_nil, List.drop_nil] at hrb
    have hend : rdfReadBlock bufSize (tell + 1 + 1) [] = .error .eof := by
      simp [rdfReadBlock, rdfBlockGo, bind, Except.bind, pure, Except.pure, throw, throwThe, MonadExceptOf.throw]
    simp only [rdfTail, List.append_nil, rdfIterate, hrb, List.filterMap_nil, List.append_nil]
    cases hr : rs ⟨b, rdfMStart b⟩ with
    | ok r => simp [hend, okPart_ok]
    | error e =>
      rw [hr] at hnc
      simp only [NoCrash] at hnc
      cases e <;> first | exact absurd hnc (by decide) | simp [hend, okPart_error, Err.isSkipped, Err.isValueError]
  | cons p ps ih =>
    intro b tell fuel hf hb hrest hnc hncs
    obtain ⟨f1, rfl⟩ : ∃ f1, fuel = f1 + 1 := ⟨fuel - 1, by omega⟩
    have hrb := rdfReadBlock_body bufSize tell b (p :: ps) hb (fun q hq => (hrest q hq).1)
    have hdrop : (rdfTail (p :: ps)).drop 1 = p.2 ++ rdfTail ps := by
      obtain ⟨m, bp⟩ := p; rfl
    rw [hdrop] at hrb
    have hih := ih p.2 (tell + 1) f1 (by simp only [List.length_cons] at hf; omega) (hrest p (by simp)).2
      (fun q hq => hrest q (by simp [hq])) (hncs p (by simp)) (fun q hq => hncs q (by simp [hq]))
    simp only [rdfIterate, hrb, List.filterMap_cons]
    cases hr : rs ⟨b, rdfMStart b⟩ with
    | ok r =>
      simp only [hih, okPart_ok, Option.toList]
      cases okPart (rs ⟨p.2, rdfMStart p.2⟩) <;> simp
    | error e =>
      rw [hr] at hnc
      simp only [NoCrash] at hnc
      cases e <;> first | exact absurd hnc (by decide) |
        (simp only [Err.isSkipped, Err.isValueError, okPart_error, Option.toList, List.nil_append, hih, Bool.or_true,
          Bool.true_or, Bool.or_false, if_true, decide_true, BEq.rfl]
         cases okPart (rs ⟨p.2, rdfMStart p.2⟩) <;> simp)

theorem not_rxn_of_fmt {f : Str} (h : isFmt f = true) : startsWith f (sL "$RXN") = false := by
  have e1 : sL "$RFMT" = ['$', 'R', 'F', 'M', 'T'] := rfl
  have e2 : sL "$MFMT" = ['$', 'M', 'F', 'M', 'T'] := rfl
  have e3 : sL "$RXN" = ['$', 'R', 'X', 'N'] := rfl
  unfold isFmt startsWith at h
  unfold startsWith
  rw [e1, e2] at h
  rw [e3]
  match f, h with
  | [], h => simp [List.isPrefixOf] at h
  | [_], h => simp [List.isPrefixOf] at h
  | [_, _], h => simp [List.isPrefixOf] at h
  | c0 :: c1 :: c2 :: tl, h =>
    simp only [List.isPrefixOf, Bool.and_eq_true, Bool.or_eq_true, beq_iff_eq] at h
    simp only [List.isPrefixOf, Bool.and_eq_false_iff, beq_eq_false_iff_ne, ne_eq]
    rcases h with h | h
    · right; right; left; intro hc; have := h.2.2.1; rw [← this] at hc; exact absurd hc (by decide)
    · right; left; intro hc; have := h.2.1; rw [← this] at hc; exact absurd hc (by decide)

/-- the search for the first record marker at the top of the file -/
theorem rdfBlockGo_drop (bufSize : Nat) (m : Str) (tail : List Str) (hm : isFmt m = true) :
    ∀ (head : List Str) (n : Nat), (∀ l ∈ head, isFmt l = false ∧ startsWith l (sL "$RXN") = false) →
      rdfBlockGo bufSize n true [] 0 (head ++ m :: tail) = rdfBlockGo bufSize (n + head.length + 1) false [] 0 tail := by
  intro head
  induction head with
  | nil =>
    intro n _
    simp [rdfBlockGo, not_rxn_of_fmt hm, hm]
  | cons l ls ih =>
    intro n h
    obtain ⟨h1, h2⟩ := h l (by simp)
    simp only [List.cons_append, rdfBlockGo, if_true, h2, Bool.false_eq_true, if_false, h1]
    rw [ih (n + 1) (fun x hx => h x (by simp [hx]))]
    simp only [List.length_cons]
    congr 1; omega

set_option linter.unusedSimpArgs false in
/-- **RDF framing**: iterating over `head ++ marker₁ body₁ marker₂ body₂ …` applies the structure reader to exactly the
    bodies, in order; rejected ones are skipped -/
theorem rdfIterate_render (rs : RBlock → R ρ) (bufSize : Nat) (head : List Str) (m : Str) (b : List Str)
    (rest : List (Str × List Str)) (fuel : Nat) (hf : rest.length + 1 < fuel)
    (hhead : ∀ l ∈ head, isFmt l = false ∧ startsWith l (sL "$RXN") = false) (hm : isFmt m = true)
    (hb : WFRBlock bufSize b) (hfirst : head.length + 1 + b.length < bufSize)
    (hrest : ∀ p ∈ rest, isFmt p.1 = true ∧ WFRBlock bufSize p.2)
    (hnc : NoCrash (rs ⟨b, rdfMStart b⟩)) (hncs : ∀ p ∈ rest, NoCrash (rs ⟨p.2, rdfMStart p.2⟩)) :
    rdfIterate rs bufSize fuel 0 (head ++ rdfTail ((m, b) :: rest)) =
      ((okPart (rs ⟨b, rdfMStart b⟩)).toList ++ rest.filterMap (fun p => okPart (rs ⟨p.2, rdfMStart p.2⟩)), none) := by
  obtain ⟨f1, rfl⟩ : ∃ f1, fuel = f1 + 1 := ⟨fuel - 1, by omega⟩
  have hrb : rdfReadBlock bufSize 0 (head ++ rdfTail ((m, b) :: rest)) =
      .ok (⟨b, rdfMStart b⟩, (rdfTail rest).drop 1) := by
    unfold rdfReadBlock
    have h0 : ((0 : Nat) == 0) = true := rfl
    simp only [h0, rdfTail]
    rw [rdfBlockGo_drop bufSize m _ hm head 0 hhead]
    have := rdfBlockGo_body bufSize b (0 + head.length + 1) [] 0 (rdfTail rest) hb.noFmt (by omega)
      (rdfTail_shape rest (fun q hq => (hrest q hq).1))
    simp only [List.nil_append, List.length_nil] at this
    rw [this]
    cases hbe : b with
    | nil => exact absurd hbe hb.ne
    | cons _ _ => rfl
  cases rest with
  | nil =>
    obtain ⟨f2, rfl⟩ : ∃ f2, f1 = f2 + 1 := ⟨f1 - 1, by simp at hf; omega⟩
    have hend : rdfReadBlock bufSize 1 [] = .error .eof := by
      simp [rdfReadBlock, rdfBlockGo, bind, Except.bind, pure, Except.pure, throw, throwThe, MonadExceptOf.throw]
    have hd0 : (rdfTail ([] : List (Str × List Str))).drop 1 = [] := rfl
    rw [hd0] at hrb
    simp only [rdfIterate, hrb, List.filterMap_nil, List.append_nil]
    cases hr : rs ⟨b, rdfMStart b⟩ with
    | ok r => simp [hend, okPart_ok]
    | error e =>
      rw [hr] at hnc
      simp only [NoCrash] at hnc
      cases e <;> first | exact absurd hnc (by decide) | simp [hend, okPart_error, Err.isSkipped, Err.isValueError]
  | cons p ps =>
    have hdrop : (rdfTail (p :: ps)).drop 1 = p.2 ++ rdfTail ps := by
      obtain ⟨m', bp⟩ := p; rfl
    rw [hdrop] at hrb
    have hin := rdfIterate_inside rs bufSize ps p.2 0 f1 (by simp only [List.length_cons] at hf; omega)
      (hrest p (by simp)).2 (fun q hq => hrest q (by simp [hq])) (hncs p (by simp)) (fun q hq => hncs q (by simp [hq]))
    simp only [rdfIterate, hrb, List.filterMap_cons]
    cases hr : rs ⟨b, rdfMStart b⟩ with
    | ok r =>
      simp only [hin, okPart_ok, Option.toList]
      cases okPart (rs ⟨p.2, rdfMStart p.2⟩) <;> simp
    | error e =>
      rw [hr] at hnc
      simp only [NoCrash] at hnc
      cases e <;> first | exact absurd hnc (by decide) |
        (simp only [Err.isSkipped, Err.isValueError, okPart_error, Option.toList, List.nil_append, hin, Bool.or_true,
          Bool.true_or, Bool.or_false, if_true, decide_true, BEq.rfl]
         cases okPart (rs ⟨p.2, rdfMStart p.2⟩) <;> simp)

end ChythonModel.Proofs.C11
