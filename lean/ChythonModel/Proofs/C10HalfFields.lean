import ChythonModel.Model.Half
/-!
# C10: field extraction of `double_from_bytes` over the whole bit-pattern domain (kernel evaluation)
-/
namespace ChythonModel.Proofs.C10
open ChythonModel.Model.Pack

theorem ofF16_fields : ∀ s < 2, ∀ ex < 32, ∀ fh < 32, ∀ fl < 32,
    ofF16 (u16 ((fh * 32 + fl) ||| (ex <<< 10) ||| (s <<< 15))) =
      (if ex != 0 then ⟨s != 0, 1024 + (fh * 32 + fl), (ex : Int) - 15 - 10⟩ else ⟨s != 0, fh * 32 + fl, -24⟩) := by
  decide +kernel

end ChythonModel.Proofs.C10
