import ChythonModel.Proofs.C17Equiv
/-! C17: the fragment multiset, `linear_hash_set` and `morgan_hash_set` do not depend on numbering / insertion order. -/
set_option linter.unusedSimpArgs false
namespace ChythonModel.Proofs.C17
open ChythonModel.Model ChythonModel.Model.Fingerprint ChythonModel.Spec.Fingerprint

section
variable {f : Nat → Nat} {m m' : Mol} (R : Renumbering f m m') (hwf : m.WF = true) (hwf' : m'.WF = true)
  (lo hi : Int) (h1 : 1 ≤ lo) (h2 : lo ≤ hi)
include R hwf hwf' h1 h2

/-- the chains of the renumbered molecule are, up to order, the renamed chains re-canonicalised -/
theorem ren_chains_perm (cs cs' : List Path) (hc : chains m lo hi = .ok cs) (hc' : chains m' lo hi = .ok cs') :
    cs'.Perm (cs.map fun c => canon (c.map f)) := by
  have hex := chains_exact_aux m hwf lo hi h1 h2 cs hc
  have hex' := chains_exact_aux m' hwf' lo hi h1 h2 cs' hc'
  have hnd := chains_nodup_aux m hwf lo hi cs hc
  have hnd' := chains_nodup_aux m' hwf' lo hi cs' hc'
  have hsimple : ∀ c ∈ cs, SimplePath m c ∧ canon c = c := by
    intro c hc
    obtain ⟨p, hp, _, _, rfl⟩ := (hex c).mp hc
    exact ⟨simplePath_canon m hwf p hp, canon_canon p⟩
  have hnd2 : (cs.map fun c => canon (c.map f)).Nodup := by
    apply nodup_map_of_inj_on _ cs hnd
    intro a ha b hb e
    have hsa := hsimple a ha
    have hsb := hsimple b hb
    have key : a = b ∨ a = b.reverse := by
      rcases (canon_eq_iff _ _).mp e with e' | e'
      · left
        exact map_inj_on f (· ∈ m.ids) (fun x hx y hy => R.inj x hx y hy) a b hsa.1.atoms hsb.1.atoms e'
      · right
        rw [← List.map_reverse] at e'
        exact map_inj_on f (· ∈ m.ids) (fun x hx y hy => R.inj x hx y hy) a b.reverse hsa.1.atoms
          (by simpa using hsb.1.atoms) e'
    have := (canon_eq_iff a b).mpr key
    rw [hsa.2, hsb.2] at this
    exact this
  rw [List.perm_ext_iff_of_nodup hnd' hnd2]
  intro x
  rw [hex' x, List.mem_map]
  constructor
  · rintro ⟨q, hq, hl1, hl2, rfl⟩
    obtain ⟨p, hp, rfl⟩ := (ren_simple_iff R hwf q).mp hq
    simp only [List.length_map] at hl1 hl2
    exact ⟨canon p, (hex _).mpr ⟨p, hp, hl1, hl2, rfl⟩, canon_map_canon f p⟩
  · rintro ⟨c, hc, rfl⟩
    obtain ⟨p, hp, hl1, hl2, rfl⟩ := (hex c).mp hc
    refine ⟨p.map f, ren_simple R hwf p hp, by simpa using hl1, by simpa using hl2, ?_⟩
    exact canon_map_canon f p

/-- the number of chains carrying a given fragment key is the same in both numberings -/
theorem ren_count (H : TupleHash) (cs cs' : List Path) (hc : chains m lo hi = .ok cs) (hc' : chains m' lo hi = .ok cs')
    (K : List Int) :
    (cs'.filter fun c => fragKey H m' c = K).length = (cs.filter fun c => fragKey H m c = K).length := by
  have hperm := ren_chains_perm R hwf hwf' lo hi h1 h2 cs cs' hc hc'
  have hex := chains_exact_aux m hwf lo hi h1 h2 cs hc
  rw [(hperm.filter _).length_eq, List.filter_map, List.length_map]
  congr 1
  apply List.filter_congr
  intro c hc
  obtain ⟨p, hp, _, _, rfl⟩ := (hex c).mp hc
  simp only [Function.comp]
  rw [fragKey_canon H m' hwf', ren_fragKey R hwf H (canon p) (simplePath_canon m hwf p hp).atoms]

end

/-- keys and multiplicities of one fragment dict are found in the other when the per-key chain counts agree -/
theorem dict_transfer (H : TupleHash) (m m' : Mol) (cs cs' : List Path)
    (hcount : ∀ K, (cs'.filter fun c => fragKey H m' c = K).length = (cs.filter fun c => fragKey H m c = K).length)
    (K : List Int) (ps : List Path)
    (h : (K, ps) ∈ groupFold (fragKey H m) (fragDir H m) [] cs) :
    ∃ ps', (K, ps') ∈ groupFold (fragKey H m') (fragDir H m') [] cs' ∧ ps'.length = ps.length := by
  have hkeys := keys_nodup_groupFold (fragKey H m) (fragDir H m) cs [] (by simp)
  have hv := valuesOf_of_mem _ K ps hkeys h
  rw [valuesOf_groupFold] at hv
  simp only [valuesOf, List.nil_append] at hv
  have hK : K ∈ (groupFold (fragKey H m) (fragDir H m) [] cs).map (·.1) := List.mem_map.mpr ⟨(K, ps), h, rfl⟩
  rw [mem_keys_groupFold] at hK
  have hpos : 0 < (cs.filter fun c => fragKey H m c = K).length := by
    rcases hK with hK | ⟨a, ha, e⟩
    · simp at hK
    · exact List.length_pos_of_mem (List.mem_filter.mpr ⟨ha, by simpa using e⟩)
  rw [← hcount K] at hpos
  obtain ⟨a', ha'⟩ := List.exists_mem_of_length_pos hpos
  rw [List.mem_filter] at ha'
  have hK' : K ∈ (groupFold (fragKey H m') (fragDir H m') [] cs').map (·.1) :=
    (mem_keys_groupFold _ _ cs' [] K).mpr (Or.inr ⟨a', ha'.1, by simpa using ha'.2⟩)
  refine ⟨_, mem_of_mem_keys _ K hK', ?_⟩
  rw [valuesOf_groupFold]
  simp only [valuesOf, List.nil_append, List.length_map]
  rw [hcount K, ← hv, List.length_map]

end ChythonModel.Proofs.C17
