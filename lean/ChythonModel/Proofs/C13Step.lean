import ChythonModel.Proofs.C13
/-!
# C13 — from event lists to public operations: the per-object invariant and its preservation by `step`
-/
namespace ChythonModel.Proofs.C13
open ChythonModel.Model ChythonModel.Model.C13 ChythonModel.Gen.CacheEffects ChythonModel.Spec.Deps

def inTxn (o : Obj) : Bool :=
  match o.backup with
  | some (some _) => true
  | _ => false

/-- what holds of every object between public operations -/
structure Inv (o : Obj) : Prop where
  chg : o.changed ≠ none
  bk : o.backup = some none ∨ ∃ b, o.backup = some (some b)
  good : BackupGood o
  skel : freshKind .skel o.toCore
  conn : freshKind .conn o.toCore
  full : o.backup = some none → freshKind .full o.toCore

def WInv (w : World) : Prop := ∀ o ∈ w.objs, Inv o

theorem gamma_entry {o : Obj} (h : Inv o) (labKnown : Bool) (hl : labKnown = true → labelsFresh o.toCore = true) :
    Gamma (entryAbs (inTxn o) labKnown) o where
  np := fun K hK => by cases K <;> simp [entryAbs, K3.get] at hK
  fr := fun K hK => by
    cases K with
    | skel => exact h.skel
    | conn => exact h.conn
    | full =>
      simp [entryAbs, K3.get] at hK
      rcases h.bk with hb | ⟨b, hb⟩
      · exact h.full hb
      · simp [inTxn, hb] at hK
  lab := fun hlab => by
    simp [entryAbs] at hlab
    exact hl hlab
  bk := by
    rcases h.bk with hb | ⟨b, hb⟩
    · simp [entryAbs, inTxn, hb, bkRel]
    · simp [entryAbs, inTxn, hb, bkRel]
  chg := fun _ => h.chg
  good := h.good

theorem inv_of_gamma {A : Abs} {o : Obj} (tx : Bool) (h : Gamma A o) (hend : endOK tx A = true) (hc : A.chgSet = true)
    (hb : A.bk = if tx then .set else .none) : Inv o := by
  simp [endOK] at hend
  have hbk := h.bk
  rw [hb] at hbk
  refine ⟨h.chg hc, ?_, h.good, h.fr .skel (by simpa [K3.get] using hend.1.1), h.fr .conn (by simpa [K3.get] using hend.1.2), ?_⟩
  · cases tx with
    | true => exact Or.inr (by simpa [bkRel] using hbk)
    | false => exact Or.inl (by simpa [bkRel] using hbk)
  · intro hnone
    cases tx with
    | true =>
      simp [bkRel] at hbk
      obtain ⟨b, hb'⟩ := hbk
      rw [hb'] at hnone; cases hnone
    | false =>
      have := hend.2
      simp at this
      exact h.fr .full (by simpa [K3.get] using this)

theorem winv_set {w : World} {i : Nat} {o : Obj} (hw : WInv w) (ho : Inv o) : WInv (setObj w i o) := by
  intro x hx
  simp only [setObj] at hx
  rcases List.mem_or_eq_of_mem_set hx with h | h
  · exact hw x h
  · rw [h]; exact ho

theorem winv_vecs {w : World} (v : List (Int × Int)) (hw : WInv w) : WInv { w with vecs := v } := hw

theorem winv_append {w : World} {o : Obj} (v : List (Int × Int)) (hw : WInv w) (ho : Inv o) :
    WInv { objs := w.objs ++ [o], vecs := v } := by
  intro x hx
  simp only [List.mem_append, List.mem_singleton] at hx
  rcases hx with h | h
  · exact hw x h
  · rw [h]; exact ho

/-- a method run through the regenerated event lists: abstract result describes the concrete one -/
theorem runFn_gamma {T : Tables} (hK : keepOK T = true) {w : World} {i : Nat} {o : Obj} {cx : Ctx} {f : String}
    {env : List (String × Bool)} {A A' : Abs} (hg : Gamma A o)
    (ha : absRun T cx.skip cx.special (expand T.fns expandFuel f env) A = some A')
    (herr : (runFn T w i o cx f env).err = none) :
    ∃ o' v, (runFn T w i o cx f env).w = setObj { w with vecs := v } i o' ∧ Gamma A' o' := by
  unfold runFn at herr ⊢
  cases hi : interp T cx (expand T.fns expandFuel f env) { o := o, vecs := w.vecs } with
  | ok c =>
    refine ⟨c.o, c.vecs, by simp [hi], ?_⟩
    exact interp_sound hK _ A { o := o, vecs := w.vecs } A' c hg ha hi
  | err c e => simp [hi] at herr

theorem mutators_accept {T : Tables} (h : mutatorsOK T = true) (e : Entry13) (he : e ∈ entryPoints) (special tx : Bool) :
    accepts T e special tx = true := by
  simp only [mutatorsOK, List.all_eq_true] at h
  have := h e he special (by cases special <;> simp) tx (by cases tx <;> simp)
  exact this

/-- one public mutator that is an entry point of the analysis preserves the invariant -/
theorem runFn_inv {T : Tables} (hK : keepOK T = true) (hM : mutatorsOK T = true) (e : Entry13) (he : e ∈ entryPoints)
    {w : World} {i : Nat} {o : Obj} {cx : Ctx} (hskip : cx.skip = false) (hw : WInv w) (ho : Inv o)
    (hl : e.needsLabels = true → labelsFresh o.toCore = true)
    (herr : (runFn T w i o cx e.fn e.env).err = none) : WInv (runFn T w i o cx e.fn e.env).w := by
  have hacc := mutators_accept hM e he cx.special (inTxn o)
  unfold accepts analyse at hacc
  cases han : absRun T false cx.special (expand T.fns expandFuel e.fn e.env) (entryAbs (inTxn o) e.needsLabels) with
  | none => simp [han] at hacc
  | some A' =>
    simp only [han, Bool.and_eq_true, beq_iff_eq] at hacc
    have hg := gamma_entry ho e.needsLabels hl
    obtain ⟨o', v, hw', hg'⟩ := runFn_gamma hK hg (by rw [hskip]; exact han) herr
    rw [hw']
    exact winv_set (winv_vecs v hw) (inv_of_gamma (inTxn o) hg' hacc.1.1.1 hacc.1.2 hacc.2)

/-- skel / conn views only look at the adjacency -/
theorem fresh_adjonly_congr {c1 c2 : Core} (e : Entry) (hk : kindOf e.key ≠ .full) (hm : c1.mol.adj = c2.mol.adj) :
    e.fresh c1 = e.fresh c2 := by
  cases hk' : kindOf e.key <;> simp_all [Entry.fresh, viewOf, skelView, connView]

theorem inv_congr {o o' : Obj} (hc : o'.cache = o.cache) (hm : o'.mol = o.mol) (hh : o'.hs = o.hs)
    (hl : o'.labels = o.labels) (hb : o'.backup = o.backup) (hch : o'.changed = o.changed) (h : Inv o) : Inv o' := by
  have fk : ∀ K, freshKind K o.toCore → freshKind K o'.toCore := by
    intro K hf e he hk
    rw [hc] at he
    exact (fresh_congr e (c1 := o'.toCore) (c2 := o.toCore) hm hh hl).trans (hf e he hk)
  refine ⟨by rw [hch]; exact h.chg, by rw [hb]; exact h.bk, fun bk hbk => h.good bk (by rw [← hb]; exact hbk),
    fk _ h.skel, fk _ h.conn, fun hn => fk _ (h.full (by rw [← hb]; exact hn))⟩

/-- writing an atom attribute inside a transaction: ring and component values are unaffected -/
theorem inv_atoms {o : Obj} (atoms' : List (Nat × Atom)) (htx : inTxn o = true) (h : Inv o) :
    Inv { o with mol := { o.mol with atoms := atoms' } } := by
  have fk : ∀ K, K ≠ .full → freshKind K o.toCore → freshKind K ({ o with mol := { o.mol with atoms := atoms' } } : Obj).toCore := by
    intro K hK hf e he hk
    exact (fresh_adjonly_congr e (c1 := ({ o with mol := { o.mol with atoms := atoms' } } : Obj).toCore) (c2 := o.toCore)
      (by rw [hk]; exact hK) rfl).trans (hf e he hk)
  refine ⟨h.chg, h.bk, h.good, fk _ (by decide) h.skel, fk _ (by decide) h.conn, ?_⟩
  intro hn
  simp [inTxn] at htx
  simp only at hn
  rw [hn] at htx
  simp at htx

theorem inv_shrink {o : Obj} (cache' : List Entry) (hs : ∀ e ∈ cache', e ∈ o.cache) (h : Inv o) : Inv { o with cache := cache' } := by
  have fk : ∀ K, freshKind K o.toCore → freshKind K ({ o with cache := cache' } : Obj).toCore := by
    intro K hf e he hk
    exact (fresh_congr e (c2 := o.toCore) rfl rfl rfl).trans (hf e (hs e he) hk)
  exact ⟨h.chg, h.bk, h.good, fk _ h.skel, fk _ h.conn, fun hn => fk _ (h.full hn)⟩

theorem inv_read {T : Tables} (hR : readOK T = true) {o : Obj} (k : String) (hk : k ∈ T.keys) (obs : List String) (h : Inv o) :
    Inv (readKey T o k obs false) := by
  have hg := read_sound (T := T) o k obs false (gamma_entry h false (by simp))
  simp only [readOK, List.all_eq_true] at hR
  have hend := hR k hk (inTxn o) (by cases inTxn o <;> simp)
  refine inv_of_gamma (inTxn o) hg hend ?_ ?_
  · simp [absRead, entryAbs]
  · simp [absRead, entryAbs]

/-- a new object made by `copy()` -/
theorem inv_copyObj {T : Tables} (hK : keepOK T = true) (hS : slotsOK T = true) {o : Obj} (vecs : List (Int × Int)) (kS kC : Bool)
    (h : Inv o) : Inv (copyObj T o vecs kS kC).1 := by
  simp only [slotsOK, Bool.and_eq_true] at hS
  obtain ⟨hm, hh, hl, hc⟩ := copyCore_fields T o.toCore vecs kS kC
  have hfr : ∀ K, freshKind K (copyObj T o vecs kS kC).1.toCore := by
    intro K e he hk
    have he' : e ∈ copyKeep T kS kC o.cache := by
      simp only [copyObj] at he
      rw [← hc]; exact he
    obtain ⟨hmem, hkind⟩ := copyKeep_kind hK kS kC _ e he'
    have : e.fresh (copyObj T o vecs kS kC).1.toCore = e.fresh o.toCore :=
      fresh_congr e (by simp only [copyObj]; exact hm) (by simp only [copyObj]; exact hh) (by simp only [copyObj]; exact hl)
    rw [this]
    rcases hkind with ⟨_, h2⟩ | ⟨_, h2⟩
    · exact h.skel e hmem h2
    · exact h.conn e hmem h2
  have h1 : "_changed" ∈ T.copySlots := by simpa using hS.1.1.1.1.1.1.1.1.1.1
  have h2 : "_backup" ∈ T.copySlots := by simpa using hS.1.1.1.1.1.1.1.1.1.2
  refine ⟨?_, ?_, ?_, hfr _, hfr _, fun _ => hfr _⟩
  · simp [copyObj, h1]
  · left; simp [copyObj, h2]
  · intro bk hbk; simp [copyObj, h2] at hbk

def isPublic : Op → Bool
  | .addAtom _ _ _ skip | .addBond _ _ _ _ skip | .delAtom _ _ skip | .delBond _ _ _ skip => !skip
  | _ => true

/-- the property's domain for one step (decidable): public keyword arguments only; atom attributes are written only
inside a transaction; `calc_labels()` / `fix_structure(recalculate_hydrogens=False)` are called on a labelled molecule;
`with` blocks are not nested; memoised reads name an attribute the class has -/
def stepPre (T : Tables) (w : World) (op : Op) : Bool :=
  isPublic op &&
  match w.objs[op.target]? with
  | none => true
  | some o =>
    match op with
    | .setCharge .. | .setRadical .. => inTxn o
    | .calcLabels _ | .fixStructure _ false => labelsFresh o.toCore
    | .enter _ => !inTxn o
    | .exitOk _ | .exitExc _ => inTxn o
    | .read _ k => T.keys.contains k
    | _ => true

def StepPre (T : Tables) (w : World) (op : Op) : Prop :=
  isPublic op = true ∧
  ∀ o, w.objs[op.target]? = some o →
    match op with
    | .setCharge .. | .setRadical .. => inTxn o = true
    | .calcLabels _ | .fixStructure _ false => labelsFresh o.toCore = true
    | .enter _ => inTxn o = false
    | .exitOk _ | .exitExc _ => inTxn o = true
    | .read _ k => k ∈ T.keys
    | _ => True

theorem stepPre_iff {T : Tables} {w : World} {op : Op} (h : stepPre T w op = true) : StepPre T w op := by
  simp only [stepPre, Bool.and_eq_true] at h
  refine ⟨h.1, ?_⟩
  intro o ho
  have h2 := h.2
  simp only [ho] at h2
  cases op with
  | fixStructure oi r => cases r <;> simp_all
  | _ => simp_all

theorem tables_parts {T : Tables} (h : TablesOK T = true) :
    keepOK T = true ∧ mutatorsOK T = true ∧ enterOK T = true ∧ exitOK T = true ∧ subOK T = true ∧ readOK T = true ∧
      slotsOK T = true := by
  simp only [TablesOK, Bool.and_eq_true] at h
  exact ⟨h.1.1.1.1.1.1.1, h.1.1.1.1.1.1.2, h.1.1.1.1.1.2, h.1.1.1.1.2, h.1.1.1.2, h.1.1.2, h.1.2⟩

theorem mem_of_get {w : World} {i : Nat} {o : Obj} (h : w.objs[i]? = some o) : o ∈ w.objs := List.mem_of_getElem? h


theorem inv_emptyCache {o : Obj} (hc : o.cache = []) (hch : o.changed ≠ none) (hb : o.backup = some none) : Inv o := by
  have fk : ∀ K, freshKind K o.toCore := by
    intro K e he
    have : e ∈ o.cache := he
    rw [hc] at this; cases this
  exact ⟨hch, Or.inl hb, fun bk hbk => (by rw [hb] at hbk; cases hbk), fk _, fk _, fun _ => fk _⟩

theorem setObj_setObj (w : World) (j : Nat) (o1 o2 : Obj) (v1 v2 : List (Int × Int)) :
    setObj { setObj { w with vecs := v1 } j o1 with vecs := v2 } j o2 = setObj { w with vecs := v2 } j o2 := by
  simp [setObj, List.set_set]

theorem get_setObj_last (w : World) (s o1 : Obj) (v v' : List (Int × Int)) :
    (setObj { objs := w.objs ++ [s], vecs := v' } w.objs.length o1).objs[w.objs.length]? = some o1 := by
  simp [setObj]

theorem copyObj_nokeep_cache (T : Tables) (o : Obj) (v : List (Int × Int)) : (copyObj T o v false false).1.cache = [] := by
  simp [copyObj, copyCore, copyKeep]

theorem step_inv {T : Tables} (hT : TablesOK T = true) {w : World} {op : Op} {obs : List String} (hw : WInv w)
    (hp : StepPre T w op) (herr : (step T w op obs).err = none) : WInv (step T w op obs).w := by
  obtain ⟨hK, hM, hEn, hEx, hSub, hR, hS⟩ := tables_parts hT
  obtain ⟨hpub, hpre⟩ := hp
  unfold step at herr ⊢
  cases hget : w.objs[op.target]? with
  | none => simp only [hget]; exact hw
  | some o =>
    have ho : Inv o := hw o (mem_of_get hget)
    have hpre' := hpre o hget
    simp only [hget] at herr ⊢
    cases op with
    | addAtom oi z n skip =>
      have : skip = false := by simpa [isPublic] using hpub
      subst this
      simp only at herr ⊢
      cases hg : gAddAtom o.mol z n with
      | error e => simp [hg] at herr
      | ok r =>
        obtain ⟨m', k⟩ := r
        simp only [hg] at herr ⊢
        exact runFn_inv hK hM ⟨"MoleculeContainer.add_atom", [], false, true⟩ (by decide) rfl hw ho (by simp) herr
    | addBond oi a b order skip =>
      have : skip = false := by simpa [isPublic] using hpub
      subst this
      simp only at herr ⊢
      cases hg : gAddBond o.mol a b order with
      | error e => simp [hg] at herr
      | ok m' =>
        simp only [hg] at herr ⊢
        exact runFn_inv hK hM ⟨"MoleculeContainer.add_bond", [], false, true⟩ (by decide) rfl hw ho (by simp) herr
    | delAtom oi n skip =>
      have : skip = false := by simpa [isPublic] using hpub
      subst this
      simp only at herr ⊢
      cases hg : gDelAtom o.mol n with
      | error e => simp [hg] at herr
      | ok m' =>
        simp only [hg] at herr ⊢
        exact runFn_inv hK hM ⟨"MoleculeContainer.delete_atom", [], false, true⟩ (by decide) rfl hw ho (by simp) herr
    | delBond oi a b skip =>
      have : skip = false := by simpa [isPublic] using hpub
      subst this
      simp only at herr ⊢
      cases hg : gDelBond o.mol a b with
      | error e => simp [hg] at herr
      | ok m' =>
        simp only [hg] at herr ⊢
        exact runFn_inv hK hM ⟨"MoleculeContainer.delete_bond", [], false, true⟩ (by decide) rfl hw ho (by simp) herr
    | remap oi mp =>
      simp only at herr ⊢
      cases hg : gRemap o.mol mp with
      | error e => simp [hg] at herr
      | ok m' =>
        simp only [hg] at herr ⊢
        exact runFn_inv hK hM ⟨"Graph.remap", [], false, false⟩ (by decide) rfl hw ho (by simp) herr
    | fixStructure oi r =>
      simp only at herr ⊢
      cases r with
      | true => exact runFn_inv hK hM ⟨"MoleculeContainer.fix_structure", [("recalculate_hydrogens", true)], false, true⟩
                  (by decide) rfl hw ho (by simp) herr
      | false => exact runFn_inv hK hM ⟨"MoleculeContainer.fix_structure", [("recalculate_hydrogens", false)], true, true⟩
                  (by decide) rfl hw ho (fun _ => hpre') herr
    | calcLabels oi =>
      exact runFn_inv hK hM ⟨"MoleculeContainer.calc_labels", [], true, true⟩ (by decide) rfl hw ho (fun _ => hpre') herr
    | fixStereo oi =>
      exact runFn_inv hK hM ⟨"MoleculeStereo.fix_stereo", [], false, false⟩ (by decide) rfl hw ho (by simp) herr
    | cleanStereo oi =>
      exact runFn_inv hK hM ⟨"MoleculeStereo.clean_stereo", [], false, false⟩ (by decide) rfl hw ho (by simp) herr
    | copy oi kS kC =>
      simp only at herr ⊢
      split at herr
      · simp at herr
      · rename_i hdeep
        simp only [hdeep, if_false, Bool.false_eq_true]
        exact winv_append _ hw (inv_copyObj hK hS w.vecs kS kC ho)
    | flush oi kS kC =>
      simp only at herr ⊢
      exact winv_set hw (inv_shrink _ (fun e he => by
        have := flushKeep_kind hK kS kC o.cache e he
        exact this.1) ho)
    | enter oi =>
      simp only at herr ⊢
      have hacc := hEn
      unfold enterOK analyse at hacc
      cases han : absRun T false false (expand T.fns expandFuel "MoleculeContainer.__enter__" []) (entryAbs false false) with
      | none => simp [han] at hacc
      | some A' =>
        simp only [han, Bool.and_eq_true, beq_iff_eq] at hacc
        have hg := gamma_entry ho false (by simp)
        rw [hpre'] at hg
        obtain ⟨o', v, hw', hg'⟩ := runFn_gamma (cx := { obs := obs }) hK hg han herr
        rw [hw']
        refine winv_set (winv_vecs v hw) (inv_of_gamma true hg' ?_ hacc.2 (by simpa using hacc.1.2))
        simp only [cleanAbs, anyDirty, Bool.not_eq_true', Bool.or_eq_false_iff] at hacc
        simp [endOK, hacc.1.1.1.1, hacc.1.1.1.2]
    | exitOk oi =>
      simp only at herr ⊢
      have hacc := hEx
      unfold exitOK analyse at hacc
      simp only [Bool.and_eq_true] at hacc
      cases han : absRun T false false (expand T.fns expandFuel "MoleculeContainer.__exit__#ok" []) (entryAbs true false) with
      | none => simp [han] at hacc
      | some A' =>
        have hacc1 := hacc.1
        simp only [han, Bool.and_eq_true, beq_iff_eq] at hacc1
        have hg := gamma_entry ho false (by simp)
        rw [hpre'] at hg
        obtain ⟨o', v, hw', hg'⟩ := runFn_gamma (cx := { obs := obs }) hK hg han herr
        rw [hw']
        refine winv_set (winv_vecs v hw) (inv_of_gamma false hg' ?_ hacc1.2 (by simpa using hacc1.1.1.2))
        have hc := hacc1.1.1.1
        simp only [cleanAbs, anyDirty, Bool.not_eq_true', Bool.or_eq_false_iff] at hc
        simp [endOK, hc.1.1, hc.1.2, hc.2]
    | exitExc oi =>
      simp only at herr ⊢
      have hacc := hEx
      unfold exitOK analyse at hacc
      simp only [Bool.and_eq_true] at hacc
      cases han : absRun T false false (expand T.fns expandFuel "MoleculeContainer.__exit__#exc" []) (entryAbs true false) with
      | none => simp [han] at hacc
      | some A' =>
        have hacc2 := hacc.2
        simp only [han, Bool.and_eq_true, beq_iff_eq] at hacc2
        have hg := gamma_entry ho false (by simp)
        rw [hpre'] at hg
        obtain ⟨o', v, hw', hg'⟩ := runFn_gamma (cx := { obs := obs }) hK hg han herr
        rw [hw']
        refine winv_set (winv_vecs v hw) (inv_of_gamma false hg' ?_ hacc2.2 (by simpa using hacc2.1.2))
        have hc := hacc2.1.1
        simp only [cleanAbs, anyDirty, Bool.not_eq_true', Bool.or_eq_false_iff] at hc
        simp [endOK, hc.1.1, hc.1.2, hc.2]
    | setCharge oi n ch =>
      simp only at herr ⊢
      split at herr
      · simp at herr
      · split at herr
        · simp at herr
        · rename_i h1 h2
          simp only [h1, h2, if_false, Bool.false_eq_true]
          exact winv_set hw (inv_atoms _ hpre' ho)
    | setRadical oi n r =>
      simp only at herr ⊢
      split at herr
      · simp at herr
      · rename_i h1
        simp only [h1, if_false, Bool.false_eq_true]
        exact winv_set hw (inv_atoms _ hpre' ho)
    | setXY oi n x y =>
      simp only at herr ⊢
      cases hl : o.xy.lookup n with
      | none => simp [hl] at herr
      | some a => simp only [hl]; exact hw
    | setMeta oi k v =>
      simp only at herr ⊢
      exact winv_set hw (inv_congr (o := o) rfl rfl rfl rfl rfl rfl ho)
    | read oi k =>
      simp only at herr ⊢
      exact winv_set hw (inv_read hR k hpre' obs ho)
    | substructure oi atoms recalc =>
      simp only at herr ⊢
      split at herr
      · simp at herr
      · rename_i h1
        split at herr
        · simp at herr
        · rename_i h2
          split at herr
          · simp at herr
          · rename_i h3
            simp only [h1, h2, h3, if_false, Bool.false_eq_true]
            split at herr
            · simp at herr
            · rename_i h4
              simp only [h4, if_false, Bool.false_eq_true] at herr ⊢
              -- the freshly created object
              simp only [slotsOK, Bool.and_eq_true] at hS
              have hs3 : "_changed" ∈ T.subSlots := by simpa using hS.1.1.1.1.1.1.1.1.2
              have hs4 : "_backup" ∈ T.subSlots := by simpa using hS.1.1.1.1.1.1.1.2
              simp only [subOK, Bool.and_eq_true, List.all_eq_true] at hSub
              have hso := hSub.2 recalc (by cases recalc <;> simp)
              unfold subRun at hso
              generalize hsub : (subObj T o w.vecs atoms recalc).1 = sub at herr ⊢
              have hsc : sub.cache = [] := by rw [← hsub]; rfl
              have hsch : sub.changed = some none := by rw [← hsub]; simp [subObj, hs3]
              have hsb : sub.backup = some none := by rw [← hsub]; simp [subObj, hs4]
              have hgs : Gamma newAbs sub := by
                refine ⟨fun K _ e he => ?_, fun K _ e he => ?_, fun hl => by simp [newAbs] at hl, ?_, fun _ => by rw [hsch]; simp,
                  fun bk hbk => by rw [hsb] at hbk; cases hbk⟩
                · have : e ∈ sub.cache := he
                  rw [hsc] at this; cases this
                · have : e ∈ sub.cache := he
                  rw [hsc] at this; cases this
                · simp [newAbs, bkRel, hsb]
              generalize hv : (subObj T o w.vecs atoms recalc).2 = v' at herr ⊢
              cases ha1 : absRun T false false (expand T.fns expandFuel "MoleculeContainer.fix_structure"
                  [("recalculate_hydrogens", recalc)]) newAbs with
              | none => simp [ha1] at hso
              | some A1 =>
                simp only [ha1, Option.bind_some] at hso
                cases ha2 : absRun T false false (expand T.fns expandFuel "MoleculeStereo.fix_stereo" []) A1 with
                | none => simp [ha2] at hso
                | some A2 =>
                  simp only [ha2, Bool.and_eq_true, beq_iff_eq] at hso
                  generalize hr1 : runFn T { objs := w.objs ++ [sub], vecs := v' } w.objs.length sub { obs := obs }
                    "MoleculeContainer.fix_structure" [("recalculate_hydrogens", recalc)] = r1 at herr ⊢
                  cases he1 : r1.err with
                  | some e1 => simp [he1] at herr
                  | none =>
                    obtain ⟨o1, v1, hw1, hg1⟩ := runFn_gamma (cx := { obs := obs }) (w := { objs := w.objs ++ [sub], vecs := v' })
                      (i := w.objs.length) hK hgs ha1 (by rw [hr1]; exact he1)
                    rw [hr1] at hw1
                    have hj : r1.w.objs[w.objs.length]? = some o1 := by
                      rw [hw1]; exact get_setObj_last w sub o1 v1 v'
                    simp only [he1, hj] at herr ⊢
                    obtain ⟨o2, v2, hw2, hg2⟩ := runFn_gamma (cx := { obs := obs }) (w := r1.w) (i := w.objs.length) hK hg1 ha2 herr
                    rw [hw2, hw1, setObj_setObj]
                    refine winv_set (winv_append v2 hw (inv_emptyCache hsc (by rw [hsch]; simp) hsb))
                      (inv_of_gamma false hg2 ?_ hso.2 (by simpa using hso.1.2))
                    have hc := hso.1.1
                    simp only [cleanAbs, anyDirty, Bool.not_eq_true', Bool.or_eq_false_iff] at hc
                    simp [endOK, hc.1.1, hc.1.2, hc.2]
    | union oi p rmp cp =>
      simp only at herr ⊢
      cases hgp : w.objs[p]? with
      | none => simp [hgp] at herr
      | some other =>
        simp only [hgp] at herr ⊢
        split at herr
        · simp at herr
        · rename_i h1
          split at herr
          · simp at herr
          · rename_i h2
            simp only [h1, h2, if_false, Bool.false_eq_true]
            simp only [slotsOK, Bool.and_eq_true] at hS
            have hs1 : "_changed" ∈ T.copySlots := by simpa using hS.1.1.1.1.1.1.1.1.1.1
            have hs2 : "_backup" ∈ T.copySlots := by simpa using hS.1.1.1.1.1.1.1.1.1.2
            cases cp with
            | true =>
              simp only [if_true]
              refine winv_append _ hw (inv_emptyCache ?_ ?_ ?_)
              · simp [copyObj, copyCore, copyKeep]
              · simp [copyObj, hs1]
              · simp [copyObj, hs2]
            | false =>
              simp only [if_false, Bool.false_eq_true] at herr ⊢
              cases rmp with
              | true => exact runFn_inv hK hM ⟨"MoleculeContainer.union", [("copy", false), ("remap", true)], false, false⟩
                          (by decide) rfl (winv_vecs _ hw) ho (by simp) herr
              | false => exact runFn_inv hK hM ⟨"MoleculeContainer.union", [("copy", false), ("remap", false)], false, false⟩
                          (by decide) rfl (winv_vecs _ hw) ho (by simp) herr
/-! ## no AttributeError -/

/-- an accepted event never raises AttributeError (slot never assigned) and never hits a hole of the model;
the only Python exception left is the KeyError of `calc_implicit` on a pending atom that no longer exists -/
theorem stepEv_err {T : Tables} {A A' : Abs} {cx : Ctx} {opt : Bool} {c c' : Cfg} {e : Ev} {er : Err}
    (h : Gamma A c.o) (ha : absEv T A e = some A') (ho : opt = true → optOK e = true)
    (hs : stepEv T cx opt c e = .err c' er) : er = .key := by
  cases e with
  | edit => simp [stepEv] at hs
  | call f args => simp [absEv] at ha
  | flushAll => simp [stepEv] at hs
  | flush a b =>
    simp only [absEv] at ha
    simp only [stepEv] at hs
    cases ha' : flagBool a <;> cases hb' : flagBool b <;> simp [ha', hb'] at ha hs
    cases opt with
    | true => simp [optOK] at ho
    | false => simp at hs
  | pop k => simp only [stepEv] at hs; split at hs <;> cases hs
  | dictSet k => simp [stepEv] at hs
  | readC k => simp [stepEv] at hs
  | changedAdd =>
    simp only [absEv] at ha
    split at ha <;> cases ha
    rename_i hc
    have := h.chg hc
    simp only [stepEv] at hs
    split at hs
    · cases hs
    · split at hs
      · rename_i hn; exact absurd hn this
      · cases hs
      · cases hs
  | changedDiscard =>
    simp only [absEv] at ha
    split at ha <;> cases ha
    rename_i hc
    have := h.chg hc
    simp only [stepEv] at hs
    split at hs
    · rename_i hn; exact absurd hn this
    · cases hs
    · cases hs
  | changedAttr =>
    simp only [absEv] at ha
    split at ha <;> cases ha
    rename_i hc
    simp only [Bool.and_eq_true, beq_iff_eq] at hc
    have h1 := h.chg hc.1
    have hb := h.bk
    rw [hc.2] at hb
    obtain ⟨bk, hb⟩ := hb
    simp only [stepEv, hb] at hs
    split at hs
    · rename_i hn; exact absurd hn h1
    · cases hs
    · cases hs
  | changedNone => simp [stepEv] at hs
  | changedRead =>
    simp only [absEv] at ha
    split at ha <;> cases ha
    rename_i hc
    have := h.chg hc
    simp only [stepEv] at hs
    split at hs
    · rename_i hn; exact absurd hn this
    · cases hs
  | backupRead =>
    simp only [absEv] at ha
    split at ha <;> cases ha
    rename_i hc
    have hb := h.bk
    rw [hc] at hb
    obtain ⟨bk, hb⟩ := hb
    simp only [stepEv, hb] at hs
    cases hs
  | backupCopy a b =>
    simp only [absEv] at ha
    simp only [stepEv] at hs
    cases ha' : flagBool a <;> cases hb' : flagBool b <;> simp [ha', hb'] at ha hs
  | backupNone => simp [stepEv] at hs
  | restore slots =>
    simp only [absEv] at ha
    split at ha <;> cases ha
    rename_i hc
    simp only [Bool.and_eq_true, decide_eq_true_eq] at hc
    have hb := h.bk
    rw [hc.1.1.1] at hb
    obtain ⟨bk, hb⟩ := hb
    simp only [stepEv, hb] at hs
    cases hs
  | hcalc =>
    simp only [absEv] at ha
    split at ha <;> cases ha
    rename_i hc
    have := h.chg hc
    simp only [stepEv] at hs
    split at hs
    · rename_i hn; exact absurd hn this
    · split at hs <;> (split at hs <;> first | (cases hs; rfl) | cases hs)
  | labelsWrite => simp [stepEv] at hs
  | stereoWrite => simp [stepEv] at hs

theorem interp_err {T : Tables} (hK : keepOK T = true) {cx : Ctx} :
    ∀ (es : List GEv) (A : Abs) (c : Cfg) (A' : Abs) (c' : Cfg) (er : Err), Gamma A c.o →
      absRun T cx.skip cx.special es A = some A' → interp T cx es c = .err c' er → er = .key := by
  intro es
  induction es with
  | nil => intro A c A' c' er h ha hi; simp [interp] at hi
  | cons ge rest ih =>
    intro A c A' c' er h ha hi
    simp only [absRun] at ha
    simp only [interp] at hi
    cases hm : absGuards cx.skip cx.special A ge.gs with
    | bad => simp [hm] at ha
    | skip =>
      have hg := guards_agree (cx := cx) h ge.gs (by rw [hm]; simp)
      rw [hm] at hg
      simp only [hm] at ha
      cases hd : decideGuards cx c.o ge.gs with
      | error e => simp [hd, toMode] at hg
      | ok r =>
        cases r with
        | some b => simp [hd, toMode] at hg
        | none =>
          simp only [hd] at hi
          exact ih A c A' c' er h ha hi
    | run opt =>
      have hg := guards_agree (cx := cx) h ge.gs (by rw [hm]; simp)
      rw [hm] at hg
      simp only [hm] at ha
      cases hd : decideGuards cx c.o ge.gs with
      | error e => simp [hd, toMode] at hg
      | ok r =>
        cases r with
        | none => simp [hd, toMode] at hg
        | some b =>
          simp [hd, toMode] at hg
          subst hg
          simp only [hd] at hi
          cases b with
          | false =>
            simp only at ha
            cases hae : absEv T A ge.e with
            | none => simp [hae] at ha
            | some A1 =>
              simp only [hae, Option.bind_some] at ha
              cases hse : stepEv T cx false c ge.e with
              | err c1 e1 =>
                simp only [hse] at hi
                cases hi
                exact stepEv_err h hae (by simp) hse
              | ok c1 =>
                simp only [hse] at hi
                exact ih A1 c1 A' c' er (stepEv_sound hK h hae hse) ha hi
          | true =>
            simp only at ha
            split at ha
            · rename_i hok
              cases hae : absEv T A ge.e with
              | none => simp [hae] at ha
              | some A1 =>
                simp only [hae, Option.bind_some] at ha
                cases hj : Abs.join A A1 with
                | none => simp [hj] at ha
                | some J =>
                  simp only [hj, Option.bind_some] at ha
                  cases hse : stepEv T cx true c ge.e with
                  | err c1 e1 =>
                    simp only [hse] at hi
                    cases hi
                    exact stepEv_err h hae (fun _ => hok) hse
                  | ok c1 =>
                    simp only [hse] at hi
                    exact ih J c1 A' c' er (gamma_join_right hj (stepEv_sound hK h hae hse)) ha hi
            · cases ha
/-! ## the abort path -/

theorem abort_interp {T : Tables} {cx : Ctx} (bk : Core) :
    ∀ (es : List GEv) (r n b : Bool) (c c' : Cfg), abortShape r n b es = true →
      (b = false → c.o.backup = some (some bk)) → (b = true → c.o.backup = some none) →
      (r = true → c.o.toCore = bk) → (n = true → c.o.changed = some none) →
      interp T cx es c = .ok c' →
      c'.o.toCore = bk ∧ c'.o.changed = some none ∧ c'.o.backup = some none := by
  intro es
  induction es with
  | nil =>
    intro r n b c c' hs hb0 hb1 hr hn hi
    simp only [abortShape, Bool.and_eq_true] at hs
    simp only [interp, Res.ok.injEq] at hi
    subst hi
    exact ⟨hr hs.1.1, hn hs.1.2, hb1 hs.2⟩
  | cons ge rest ih =>
    intro r n b c c' hs hb0 hb1 hr hn hi
    simp only [abortShape, Bool.and_eq_true, List.isEmpty_iff] at hs
    obtain ⟨hgs, hs⟩ := hs
    simp only [interp, hgs, decideGuards] at hi
    cases he : ge.e with
    | restore slots =>
      simp only [he, Bool.and_eq_true, Bool.not_eq_true', List.all_eq_true] at hs
      obtain ⟨⟨hbf, hall⟩, hrest⟩ := hs
      have hbk := hb0 hbf
      simp only [he, stepEv, hbk] at hi
      have h1 : slots.contains "_atoms" = true := hall "_atoms" (by simp)
      have h2 : slots.contains "_bonds" = true := hall "_bonds" (by simp)
      have h3 : slots.contains "_meta" = true := hall "_meta" (by simp)
      have h4 : slots.contains "_name" = true := hall "_name" (by simp)
      have h5 : slots.contains "__dict__" = true := hall "__dict__" (by simp)
      simp only [h1, h2, h3, h4, h5, if_true] at hi
      refine ih true n b _ c' hrest ?_ ?_ ?_ ?_ hi
      · intro _; rfl
      · intro hb; exact absurd hb (by simp [hbf])
      · intro _; cases bk; rfl
      · intro hn'; exact hn hn'
    | changedNone =>
      simp only [he] at hs
      simp only [he, stepEv] at hi
      refine ih r true b _ c' hs ?_ ?_ ?_ ?_ hi
      · intro hb; exact hb0 hb
      · intro hb; exact hb1 hb
      · intro hr'; exact hr hr'
      · intro _; rfl
    | backupRead =>
      simp only [he, Bool.and_eq_true, Bool.not_eq_true'] at hs
      have hbk := hb0 hs.1
      simp only [he, stepEv, hbk] at hi
      exact ih r n b c c' hs.2 hb0 hb1 hr hn hi
    | changedRead =>
      simp only [he] at hs
      cases hch : c.o.changed with
      | none => simp [he, stepEv, hch] at hi
      | some ch =>
        simp only [he, stepEv, hch] at hi
        exact ih r n b c c' hs hb0 hb1 hr hn hi
    | stereoWrite =>
      simp only [he] at hs
      simp only [he, stepEv] at hi
      exact ih r n b c c' hs hb0 hb1 hr hn hi
    | backupNone =>
      simp only [he, Bool.and_eq_true, Bool.not_eq_true'] at hs
      simp only [he, stepEv] at hi
      refine ih r n true _ c' hs.2 ?_ ?_ ?_ ?_ hi
      · intro hb; cases hb
      · intro _; rfl
      · intro hr'; exact hr (by simpa using hr')
      · intro hn'; exact hn hn'
    | edit => simp [he] at hs
    | call f a => simp [he] at hs
    | flushAll => simp [he] at hs
    | flush a b' => simp [he] at hs
    | pop k => simp [he] at hs
    | dictSet k => simp [he] at hs
    | readC k => simp [he] at hs
    | changedAdd => simp [he] at hs
    | changedDiscard => simp [he] at hs
    | changedAttr => simp [he] at hs
    | backupCopy a b' => simp [he] at hs
    | hcalc => simp [he] at hs
    | labelsWrite => simp [he] at hs
/-! ## frame -/

theorem abort_of_tables {T : Tables} (h : TablesOK T = true) : abortOK T = true := by
  simp only [TablesOK, Bool.and_eq_true] at h
  exact h.2

theorem getElem?_setObj_self {w : World} {i : Nat} {o o' : Obj} (v : List (Int × Int)) (h : w.objs[i]? = some o) :
    (setObj { w with vecs := v } i o').objs[i]? = some o' := by
  have hlt : i < w.objs.length := by
    rcases Nat.lt_or_ge i w.objs.length with hl | hl
    · exact hl
    · rw [List.getElem?_eq_none hl] at h; cases h
  simp [setObj, hlt]

theorem getElem?_setObj_ne {w : World} {i j : Nat} {o' : Obj} (v : List (Int × Int)) (h : j ≠ i) :
    (setObj { w with vecs := v } i o').objs[j]? = w.objs[j]? := by
  simp [setObj, List.getElem?_set, Ne.symm h]

/-- operations that run a method of object `i` touch no other object -/
theorem runFn_frame (T : Tables) (w : World) (i : Nat) (o : Obj) (cx : Ctx) (f : String) (env : List (String × Bool))
    (j : Nat) (h : j ≠ i) : (runFn T w i o cx f env).w.objs[j]? = w.objs[j]? := by
  unfold runFn
  split <;> exact getElem?_setObj_ne _ h

theorem runFn_length (T : Tables) (w : World) (i : Nat) (o : Obj) (cx : Ctx) (f : String) (env : List (String × Bool)) :
    (runFn T w i o cx f env).w.objs.length = w.objs.length := by
  unfold runFn
  split <;> simp [setObj]

theorem getElem?_append_lt {α} (l : List α) (x : α) (j : Nat) (h : j < l.length) : (l ++ [x])[j]? = l[j]? := by
  simp [List.getElem?_append_left h]

/-- **frame**: an operation on object `i` leaves every other existing object exactly as it was (atoms, bonds, cache,
slots — everything but the shared Vector heap, see `setXY_frame`) -/
theorem step_frame (T : Tables) (w : World) (op : Op) (obs : List String) (j : Nat) (hj : j ≠ op.target)
    (hlt : j < w.objs.length) : (step T w op obs).w.objs[j]? = w.objs[j]? := by
  unfold step
  cases hget : w.objs[op.target]? with
  | none => simp only [hget]
  | some o =>
    simp only [hget]
    cases op with
    | addAtom oi z n skip =>
      simp only [Op.target] at hj
      simp only; split
      · rfl
      · exact runFn_frame _ _ _ _ _ _ _ _ hj
    | addBond oi a b order skip =>
      simp only [Op.target] at hj
      simp only; split
      · rfl
      · exact runFn_frame _ _ _ _ _ _ _ _ hj
    | delAtom oi n skip =>
      simp only [Op.target] at hj
      simp only; split
      · rfl
      · exact runFn_frame _ _ _ _ _ _ _ _ hj
    | delBond oi a b skip =>
      simp only [Op.target] at hj
      simp only; split
      · rfl
      · exact runFn_frame _ _ _ _ _ _ _ _ hj
    | remap oi mp =>
      simp only [Op.target] at hj
      simp only; split
      · rfl
      · exact runFn_frame _ _ _ _ _ _ _ _ hj
    | copy oi kS kC =>
      simp only; split
      · rfl
      · exact getElem?_append_lt _ _ _ hlt
    | substructure oi atoms recalc =>
      simp only [Op.target] at hj
      simp only
      split; · rfl
      split; · rfl
      split; · rfl
      split; · rfl
      have hj' : j ≠ w.objs.length := Nat.ne_of_lt hlt
      split
      · simp only
        rw [runFn_frame _ _ _ _ _ _ _ _ hj', runFn_frame _ _ _ _ _ _ _ _ hj']
        exact getElem?_append_lt _ _ _ hlt
      · simp only
        rw [runFn_frame _ _ _ _ _ _ _ _ hj']
        exact getElem?_append_lt _ _ _ hlt
    | union oi p rmp cp =>
      simp only [Op.target] at hj
      simp only
      split; · rfl
      split; · rfl
      split; · rfl
      split
      · exact getElem?_append_lt _ _ _ hlt
      · exact runFn_frame _ _ _ _ _ _ _ _ hj
    | fixStructure oi r => simp only [Op.target] at hj; exact runFn_frame _ _ _ _ _ _ _ _ hj
    | calcLabels oi => simp only [Op.target] at hj; exact runFn_frame _ _ _ _ _ _ _ _ hj
    | fixStereo oi => simp only [Op.target] at hj; exact runFn_frame _ _ _ _ _ _ _ _ hj
    | cleanStereo oi => simp only [Op.target] at hj; exact runFn_frame _ _ _ _ _ _ _ _ hj
    | flush oi kS kC => simp only [Op.target] at hj; exact getElem?_setObj_ne w.vecs hj
    | enter oi => simp only [Op.target] at hj; exact runFn_frame _ _ _ _ _ _ _ _ hj
    | exitOk oi => simp only [Op.target] at hj; exact runFn_frame _ _ _ _ _ _ _ _ hj
    | exitExc oi => simp only [Op.target] at hj; exact runFn_frame _ _ _ _ _ _ _ _ hj
    | setCharge oi n c =>
      simp only [Op.target] at hj
      simp only
      split; · rfl
      split; · rfl
      exact getElem?_setObj_ne w.vecs hj
    | setRadical oi n r =>
      simp only [Op.target] at hj
      simp only
      split; · rfl
      exact getElem?_setObj_ne w.vecs hj
    | setXY oi n x y =>
      simp only
      split <;> rfl
    | setMeta oi k v => simp only [Op.target] at hj; exact getElem?_setObj_ne w.vecs hj
    | read oi k => simp only [Op.target] at hj; exact getElem?_setObj_ne w.vecs hj

/-- the abort path of an accepted table restores exactly the snapshot -/
theorem exitExc_restores {T : Tables} (hT : TablesOK T = true) {w : World} {i : Nat} {o : Obj} {bk : Core} {obs : List String}
    (hget : w.objs[i]? = some o) (hb : o.backup = some (some bk)) (herr : (step T w (.exitExc i) obs).err = none) :
    ∃ o', (step T w (.exitExc i) obs).w.objs[i]? = some o' ∧ o'.toCore = bk ∧ o'.changed = some none ∧
      o'.backup = some none := by
  have hab := abort_of_tables hT
  unfold abortOK at hab
  unfold step at herr ⊢
  simp only [Op.target, hget] at herr ⊢
  unfold runFn at herr ⊢
  cases hi : interp T { obs := obs } (expand T.fns expandFuel "MoleculeContainer.__exit__#exc" []) { o := o, vecs := w.vecs } with
  | err c e => simp [hi] at herr
  | ok c =>
    simp only [hi]
    refine ⟨c.o, getElem?_setObj_self _ hget, ?_⟩
    exact abort_interp bk _ false false false _ c hab (fun _ => hb) (fun h => by cases h) (fun h => by cases h)
      (fun h => by cases h) hi

/-- a non-sharing `Element.copy` allocates Vector objects that did not exist before -/
theorem copyXY_fresh (T : Tables) (h : T.elementCopySharesXY = false) (vecs : List (Int × Int)) (xy : List (Nat × Nat)) :
    (∀ p ∈ (copyXY T vecs xy).1, vecs.length ≤ p.2) ∧ vecs.length ≤ (copyXY T vecs xy).2.length := by
  unfold copyXY
  simp only [h, if_false, Bool.false_eq_true]
  suffices hs : ∀ (xy : List (Nat × Nat)) (acc : List (Nat × Nat) × List (Int × Int)),
      (∀ p ∈ acc.1, vecs.length ≤ p.2) → vecs.length ≤ acc.2.length →
      (∀ p ∈ (xy.foldl (fun acc p => (acc.1 ++ [(p.1, acc.2.length)], acc.2 ++ [vecs.getD p.2 (0, 0)])) acc).1, vecs.length ≤ p.2) ∧
        vecs.length ≤ (xy.foldl (fun acc p => (acc.1 ++ [(p.1, acc.2.length)], acc.2 ++ [vecs.getD p.2 (0, 0)])) acc).2.length by
    exact hs xy ([], vecs) (by simp) (Nat.le_refl _)
  intro xy
  induction xy with
  | nil => intro acc h1 h2; exact ⟨h1, h2⟩
  | cons q rest ih =>
    intro acc h1 h2
    simp only [List.foldl_cons]
    apply ih
    · intro p hp
      simp only [List.mem_append, List.mem_singleton] at hp
      rcases hp with hp | hp
      · exact h1 p hp
      · rw [hp]; exact h2
    · simp only [List.length_append, List.length_singleton]; omega

/-- moving an atom writes exactly one cell of the Vector heap: the one its own object points to -/
theorem setXY_vecs (T : Tables) (w : World) (i n : Nat) (x y : Int) (obs : List String) (o : Obj) (a : Nat)
    (hget : w.objs[i]? = some o) (ha : o.xy.lookup n = some a) :
    (step T w (.setXY i n x y) obs).w.vecs = w.vecs.set a (x, y) ∧ (step T w (.setXY i n x y) obs).w.objs = w.objs := by
  unfold step
  simp only [Op.target, hget, ha]
  simp
/-! ## the snapshot is touched only by enter / exit -/

def bkWrite : Ev → Bool
  | .backupCopy _ _ | .backupNone => true
  | _ => false

def noBkWrites (es : List GEv) : Bool := es.all fun ge => !bkWrite ge.e

theorem applyEdit_backup' (cx : Ctx) (c : Cfg) : (applyEdit cx c).o.backup = c.o.backup := applyEdit_backup cx c

theorem readKey_backup (T : Tables) (o : Obj) (k : String) (obs : List String) (opt : Bool) :
    (readKey T o k obs opt).backup = o.backup := by
  unfold readKey; split <;> rfl

theorem stepEv_backup {T : Tables} {cx : Ctx} {opt : Bool} {c : Cfg} {e : Ev} (h : bkWrite e = false) :
    (stepEv T cx opt c e).cfg.o.backup = c.o.backup := by
  cases e with
  | edit => simp [stepEv, Res.cfg, applyEdit_backup]
  | call f a => simp [stepEv, Res.cfg]
  | flushAll => simp [stepEv, Res.cfg]
  | flush a b =>
    simp only [stepEv]
    cases flagBool a <;> cases flagBool b <;> cases opt <;> simp [Res.cfg]
  | pop k => simp only [stepEv]; split <;> rfl
  | dictSet k => simp [stepEv, Res.cfg, readKey_backup]
  | readC k => simp [stepEv, Res.cfg, readKey_backup]
  | changedAdd =>
    simp only [stepEv]
    split
    · rfl
    · split <;> rfl
  | changedDiscard => simp only [stepEv]; split <;> rfl
  | changedAttr =>
    simp only [stepEv]
    split
    · rfl
    · rfl
    · split <;> rfl
  | changedNone => simp [stepEv, Res.cfg]
  | changedRead => simp only [stepEv]; split <;> rfl
  | backupRead => simp only [stepEv]; split <;> rfl
  | backupCopy a b => simp [bkWrite] at h
  | backupNone => simp [bkWrite] at h
  | restore slots => simp only [stepEv]; split <;> rfl
  | hcalc =>
    simp only [stepEv]
    split
    · rfl
    · split <;> (split <;> rfl)
  | labelsWrite => simp [stepEv, Res.cfg]
  | stereoWrite => simp [stepEv, Res.cfg]

theorem interp_backup {T : Tables} {cx : Ctx} :
    ∀ (es : List GEv) (c : Cfg), noBkWrites es = true → (interp T cx es c).cfg.o.backup = c.o.backup := by
  intro es
  induction es with
  | nil => intro c _; rfl
  | cons ge rest ih =>
    intro c h
    simp only [noBkWrites, List.all_cons, Bool.and_eq_true, Bool.not_eq_true'] at h
    simp only [interp]
    split
    · rfl
    · exact ih c (by simpa [noBkWrites] using h.2)
    · rename_i opt _
      have hb := stepEv_backup (T := T) (cx := cx) (opt := opt) (c := c) h.1
      split
      · rename_i c' heq
        rw [heq] at hb
        rw [ih c' (by simpa [noBkWrites] using h.2)]
        exact hb
      · rename_i c' e' heq
        rw [heq] at hb
        exact hb

theorem runFn_backup {T : Tables} {w : World} {i : Nat} {o o0 : Obj} {cx : Ctx} {f : String} {env : List (String × Bool)}
    (hno : noBkWrites (expand T.fns expandFuel f env) = true) (hget : w.objs[i]? = some o0) :
    ∃ o', (runFn T w i o cx f env).w.objs[i]? = some o' ∧ o'.backup = o.backup := by
  have hb := interp_backup (T := T) (cx := cx) _ { o := o, vecs := w.vecs } hno
  unfold runFn
  split
  · rename_i c heq
    rw [heq] at hb
    exact ⟨c.o, getElem?_setObj_self _ hget, hb⟩
  · rename_i c e heq
    rw [heq] at hb
    exact ⟨c.o, getElem?_setObj_self _ hget, hb⟩

def txnFree (i : Nat) : Op → Bool
  | .enter o | .exitOk o | .exitExc o => o != i
  | _ => true

theorem getElem?_setObj_self' {w : World} {i : Nat} {o o' : Obj} (h : w.objs[i]? = some o) :
    (setObj w i o').objs[i]? = some o' := getElem?_setObj_self w.vecs h

/-- inside a transaction on object `i`, nothing but `__enter__`/`__exit__` of that object touches its snapshot -/
theorem step_backup_current (w : World) (op : Op) (obs : List String) (i : Nat) (o : Obj) (hget : w.objs[i]? = some o)
    (hfree : txnFree i op = true) :
    ∃ o', (step current w op obs).w.objs[i]? = some o' ∧ o'.backup = o.backup := by
  have hlt : i < w.objs.length := by
    rcases Nat.lt_or_ge i w.objs.length with hl | hl
    · exact hl
    · rw [List.getElem?_eq_none hl] at hget; cases hget
  by_cases hti : i = op.target
  · subst hti
    unfold step
    simp only [hget]
    cases op with
    | addAtom oi z n skip =>
      simp only; split
      · exact ⟨o, hget, rfl⟩
      · exact runFn_backup (by decide +kernel) hget
    | addBond oi a b order skip =>
      simp only; split
      · exact ⟨o, hget, rfl⟩
      · exact runFn_backup (by decide +kernel) hget
    | delAtom oi n skip =>
      simp only; split
      · exact ⟨o, hget, rfl⟩
      · exact runFn_backup (by decide +kernel) hget
    | delBond oi a b skip =>
      simp only; split
      · exact ⟨o, hget, rfl⟩
      · exact runFn_backup (by decide +kernel) hget
    | remap oi mp =>
      simp only; split
      · exact ⟨o, hget, rfl⟩
      · exact runFn_backup (by decide +kernel) hget
    | copy oi kS kC =>
      have ht : (Op.copy oi kS kC).target = oi := rfl
      rw [ht] at hget hlt ⊢
      simp only; split
      · exact ⟨o, hget, rfl⟩
      · exact ⟨o, by simp only; rw [getElem?_append_lt _ _ _ hlt]; exact hget, rfl⟩
    | substructure oi atoms recalc =>
      have ht : (Op.substructure oi atoms recalc).target = oi := rfl
      rw [ht] at hget hlt ⊢
      have hj' : oi ≠ w.objs.length := Nat.ne_of_lt hlt
      simp only
      split; · exact ⟨o, hget, rfl⟩
      split; · exact ⟨o, hget, rfl⟩
      split; · exact ⟨o, hget, rfl⟩
      split; · exact ⟨o, hget, rfl⟩
      split
      · refine ⟨o, ?_, rfl⟩
        simp only
        rw [runFn_frame _ _ _ _ _ _ _ _ hj', runFn_frame _ _ _ _ _ _ _ _ hj', getElem?_append_lt _ _ _ hlt]
        exact hget
      · refine ⟨o, ?_, rfl⟩
        simp only
        rw [runFn_frame _ _ _ _ _ _ _ _ hj', getElem?_append_lt _ _ _ hlt]
        exact hget
    | union oi p rmp cp =>
      have ht : (Op.union oi p rmp cp).target = oi := rfl
      rw [ht] at hget hlt ⊢
      simp only
      split; · exact ⟨o, hget, rfl⟩
      split; · exact ⟨o, hget, rfl⟩
      split; · exact ⟨o, hget, rfl⟩
      split
      · exact ⟨o, by simp only; rw [getElem?_append_lt _ _ _ hlt]; exact hget, rfl⟩
      · cases rmp
        · exact runFn_backup (w := { w with vecs := _ }) (by decide +kernel) hget
        · exact runFn_backup (w := { w with vecs := _ }) (by decide +kernel) hget
    | fixStructure oi r =>
      cases r
      · exact runFn_backup (by decide +kernel) hget
      · exact runFn_backup (by decide +kernel) hget
    | calcLabels oi => exact runFn_backup (by decide +kernel) hget
    | fixStereo oi => exact runFn_backup (by decide +kernel) hget
    | cleanStereo oi => exact runFn_backup (by decide +kernel) hget
    | flush oi kS kC => exact ⟨_, getElem?_setObj_self' hget, rfl⟩
    | enter oi => simp [txnFree, Op.target] at hfree
    | exitOk oi => simp [txnFree, Op.target] at hfree
    | exitExc oi => simp [txnFree, Op.target] at hfree
    | setCharge oi n c =>
      simp only
      split; · exact ⟨o, hget, rfl⟩
      split; · exact ⟨o, hget, rfl⟩
      exact ⟨_, getElem?_setObj_self' hget, rfl⟩
    | setRadical oi n r =>
      simp only
      split; · exact ⟨o, hget, rfl⟩
      exact ⟨_, getElem?_setObj_self' hget, rfl⟩
    | setXY oi n x y =>
      simp only
      split <;> exact ⟨o, hget, rfl⟩
    | setMeta oi k v => exact ⟨_, getElem?_setObj_self' hget, rfl⟩
    | read oi k => exact ⟨_, getElem?_setObj_self' hget, readKey_backup _ _ _ _ _⟩
  · refine ⟨o, ?_, rfl⟩
    rw [step_frame current w op obs i hti hlt]
    exact hget
/-! ## created objects -/

theorem runFn_created (T : Tables) (w : World) (i : Nat) (o : Obj) (cx : Ctx) (f : String) (env : List (String × Bool)) :
    (runFn T w i o cx f env).created = none := by
  unfold runFn; split <;> rfl

/-- an operation that reports a created object appended exactly one object, at the next index -/
theorem step_created (T : Tables) (w : World) (op : Op) (obs : List String) (j : Nat)
    (h : (step T w op obs).created = some j) :
    j = w.objs.length ∧ (step T w op obs).w.objs.length = w.objs.length + 1 := by
  unfold step at h ⊢
  cases hget : w.objs[op.target]? with
  | none => simp [hget] at h
  | some o =>
    simp only [hget] at h ⊢
    cases op with
    | addAtom oi z n skip =>
      simp only at h
      split at h
      · simp at h
      · simp [runFn_created] at h
    | addBond oi a b order skip =>
      simp only at h
      split at h
      · simp at h
      · simp [runFn_created] at h
    | delAtom oi n skip =>
      simp only at h
      split at h
      · simp at h
      · simp [runFn_created] at h
    | delBond oi a b skip =>
      simp only at h
      split at h
      · simp at h
      · simp [runFn_created] at h
    | remap oi mp =>
      simp only at h
      split at h
      · simp at h
      · simp [runFn_created] at h
    | copy oi kS kC =>
      simp only at h ⊢
      split at h
      · simp at h
      · rename_i hd
        simp only [hd, if_false, Bool.false_eq_true]
        simp only [Option.some.injEq] at h
        exact ⟨h.symm, by simp⟩
    | substructure oi atoms recalc =>
      simp only at h ⊢
      split at h; · simp at h
      rename_i h1
      split at h; · simp at h
      rename_i h2
      split at h; · simp at h
      rename_i h3
      split at h; · simp at h
      rename_i h4
      simp only [h1, h2, h3, h4, if_false, Bool.false_eq_true]
      refine ⟨?_, ?_⟩
      · split at h <;> (simp only [Option.some.injEq] at h; exact h.symm)
      · split <;> simp [runFn_length]
    | union oi p rmp cp =>
      simp only at h ⊢
      cases hgp : w.objs[p]? with
      | none => simp [hgp] at h
      | some other =>
        simp only [hgp] at h ⊢
        split at h; · simp at h
        rename_i h1
        split at h; · simp at h
        rename_i h2
        simp only [h1, h2, if_false, Bool.false_eq_true]
        cases cp with
        | true =>
          simp only [if_true, Option.some.injEq] at h ⊢
          exact ⟨h.symm, by simp⟩
        | false => simp [runFn_created] at h
    | fixStructure oi r => simp [runFn_created] at h
    | calcLabels oi => simp [runFn_created] at h
    | fixStereo oi => simp [runFn_created] at h
    | cleanStereo oi => simp [runFn_created] at h
    | flush oi kS kC => simp at h
    | enter oi => simp [runFn_created] at h
    | exitOk oi => simp [runFn_created] at h
    | exitExc oi => simp [runFn_created] at h
    | setCharge oi n c =>
      simp only at h
      split at h; · simp at h
      split at h <;> simp at h
    | setRadical oi n r =>
      simp only at h
      split at h <;> simp at h
    | setXY oi n x y =>
      simp only at h
      split at h <;> simp at h
    | setMeta oi k v => simp at h
    | read oi k => simp at h

end ChythonModel.Proofs.C13
