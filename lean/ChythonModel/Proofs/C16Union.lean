import ChythonModel.Proofs.C16Overlap
/-!
# C16 — `Graph.union` (`a | b`, `a.union(b)`, `a.union(b, remap=flag)`): closed form and what it preserves

`union a b` on well-formed operands never raises and is `a` followed by a relabelled copy of `b`; the relabelling is the
identity when the operands share no number, otherwise it renumbers *all* atoms of `b` as `max(a)+1, max(a)+2, …` in `b`'s
order.
-/
namespace ChythonModel.Proofs.C16U
open ChythonModel.Model ChythonModel.Model.C16 ChythonModel.Proofs.C16P ChythonModel.Proofs.C16O

/-- the renumbering `union a b` applies to the atoms of `b` -/
def shiftOf (a b : Mol) : Nat → Nat :=
  if a.ids.any b.ids.contains then mgD (zipCount b.ids (maxOf a.ids + 1)) else id

/-- `b` with every atom number (dict keys and neighbour keys) sent through `f`, order kept -/
def relabel (f : Nat → Nat) (b : Mol) : Mol :=
  ⟨b.atoms.map fun p => (f p.1, p.2), b.adj.map fun p => (f p.1, p.2.map fun q => (f q.1, q.2))⟩

/-! ### small list facts -/

theorem maxKey_eq_maxOf {l : List Nat} (h : l ≠ []) : maxKey l = .ok (maxOf l) := by
  cases l with
  | nil => exact absurd rfl h
  | cons a tl => simp [maxKey, maxOf]

theorem eraseDups_of_nodup (l : List Nat) (h : l.Nodup) : l.eraseDups = l := by
  induction l with
  | nil => rfl
  | cons x xs ih =>
    rw [List.nodup_cons] at h
    rw [List.eraseDups_cons]
    have : xs.filter (fun b => !b == x) = xs := by
      rw [List.filter_eq_self]
      intro y hy
      have : y ≠ x := by rintro rfl; exact h.1 hy
      simpa using this
    rw [this, ih h.2]

theorem zipCount_vals (l : List Nat) (c : Nat) : (zipCount l c).map (·.2) = List.range' c l.length := by
  induction l generalizing c with
  | nil => rfl
  | cons x xs ih => simp [zipCount, ih, List.range'_succ]

theorem zipCount_length (l : List Nat) (c : Nat) : (zipCount l c).length = l.length := by
  induction l generalizing c with
  | nil => rfl
  | cons x xs ih => simp [zipCount, ih]

theorem zipCount_lookup_idx (l : List Nat) (hnd : l.Nodup) (c i : Nat) (hi : i < l.length) :
    (zipCount l c).lookup l[i] = some (c + i) := by
  induction l generalizing c i with
  | nil => simp at hi
  | cons x xs ih =>
    rw [List.nodup_cons] at hnd
    cases i with
    | zero => simp [zipCount]
    | succ j =>
      have hj : j < xs.length := by simpa using hi
      have hne : xs[j] ≠ x := by
        intro e
        exact hnd.1 (e ▸ List.getElem_mem hj)
      have hb : (xs[j] == x) = false := by simpa using hne
      simp only [zipCount, List.getElem_cons_succ, List.lookup, hb]
      rw [ih hnd.2 (c + 1) j hj]
      congr 1
      omega

/-- `mg(k, k)` over `zip(l, count(c))` is injective on `l` -/
theorem mgD_zip_inj (l : List Nat) (c : Nat) :
    ∀ k1 ∈ l, ∀ k2 ∈ l, mgD (zipCount l c) k1 = mgD (zipCount l c) k2 → k1 = k2 := by
  intro k1 h1 k2 h2 e
  obtain ⟨v1, hv1⟩ := zipCount_lookup_some l c k1 h1
  obtain ⟨v2, hv2⟩ := zipCount_lookup_some l c k2 h2
  simp only [mgD, hv1, hv2, Option.getD_some] at e
  subst e
  exact zipCount_lookup_inj l c k1 k2 v1 hv1 hv2

theorem mgD_zip_ge (l : List Nat) (c k : Nat) (h : k ∈ l) : c ≤ mgD (zipCount l c) k := renum_in l c k h

/-! ### the executable `WF` as propositions -/

structure WFP (m : Mol) : Prop where
  nodup : m.ids.Nodup
  keys : m.adj.map (·.1) = m.ids
  row_nodup : ∀ n row, (n, row) ∈ m.adj → (row.map (·.1)).Nodup
  row_ne : ∀ n row, (n, row) ∈ m.adj → ∀ k bd, (k, bd) ∈ row → k ≠ n
  row_in : ∀ n row, (n, row) ∈ m.adj → ∀ k bd, (k, bd) ∈ row → k ∈ m.ids
  row_sym : ∀ n row, (n, row) ∈ m.adj → ∀ k bd, (k, bd) ∈ row → m.bond? k n = some bd

theorem hasAtom_iff (m : Mol) (k : Nat) : m.hasAtom k = true ↔ k ∈ m.ids := by
  simp [Mol.hasAtom, Mol.ids]

theorem wfp_iff (m : Mol) : m.WF = true ↔ WFP m := by
  simp only [Mol.WF, Bool.and_eq_true, decide_eq_true_eq, beq_iff_eq, List.all_eq_true, bne_iff_ne, ne_eq,
    hasAtom_iff, Prod.forall]
  constructor
  · rintro ⟨⟨h1, h2⟩, h3⟩
    exact ⟨h1, h2, fun n row hr => (h3 n row hr).1,
      fun n row hr k bd hk => ((h3 n row hr).2 k bd hk).1.1,
      fun n row hr k bd hk => ((h3 n row hr).2 k bd hk).1.2,
      fun n row hr k bd hk => ((h3 n row hr).2 k bd hk).2⟩
  · intro h
    exact ⟨⟨h.nodup, h.keys⟩, fun n row hr => ⟨h.row_nodup n row hr, fun k bd hk =>
      ⟨⟨h.row_ne n row hr k bd hk, h.row_in n row hr k bd hk⟩, h.row_sym n row hr k bd hk⟩⟩⟩

/-! ### dict algebra under an injective relabelling -/

theorem keys_map_fst {β} (f : Nat → Nat) (l : List (Nat × β)) :
    (l.map fun q => (f q.1, q.2)).map (·.1) = (l.map (·.1)).map f := by
  simp [List.map_map, Function.comp_def]

theorem dictOfList_map_inj {β} (f : Nat → Nat) (l : List (Nat × β)) (hnd : (l.map (·.1)).Nodup)
    (hinj : ∀ a ∈ l.map (·.1), ∀ b ∈ l.map (·.1), f a = f b → a = b) :
    dictOfList (l.map fun q => (f q.1, q.2)) = l.map fun q => (f q.1, q.2) :=
  dictOfList_nodup _ (by rw [keys_map_fst]; exact nodup_map_of_inj _ hnd hinj)

theorem dictUpdate_disjoint {β} (x y : List (Nat × β)) (h : (x.map (·.1) ++ y.map (·.1)).Nodup) :
    dictUpdate x y = x ++ y := foldl_dictSet_nodup y x h

theorem relabel_id (b : Mol) : relabel id b = b := by
  simp [relabel]

theorem relabel_ids (f : Nat → Nat) (b : Mol) : (relabel f b).ids = b.ids.map f := by
  simp [relabel, Mol.ids, List.map_map, Function.comp_def]

theorem relabel_adj_keys (f : Nat → Nat) (b : Mol) : (relabel f b).adj.map (·.1) = (b.adj.map (·.1)).map f := by
  simp [relabel, List.map_map, Function.comp_def]

/-- `Graph.remap` with a mapping that covers every atom and sends them to `start, start+1, …`: never raises -/
theorem remap_closed {b : Mol} (hb : WFP b) (start : Nat) :
    remap b (zipCount b.ids start) = .ok (relabel (mgD (zipCount b.ids start)) b) := by
  have hz : dictOfList (zipCount b.ids start) = zipCount b.ids start :=
    dictOfList_nodup _ (by rw [zipCount_keys]; exact hb.nodup)
  have hinj := mgD_zip_inj b.ids start
  have g1 : ((List.range' start b.ids.length).eraseDups.length != (zipCount b.ids start).length) = false := by
    rw [eraseDups_of_nodup _ (List.nodup_range' (step := 1))]
    simp [zipCount_length]
  have g2 : (b.ids.filter fun n => !b.ids.contains n) = [] := by
    rw [List.filter_eq_nil_iff]
    intro n hn
    simp [hn]
  have hatoms : dictOfList (b.atoms.map fun p => (mgD (zipCount b.ids start) p.1, p.2)) =
      b.atoms.map fun p => (mgD (zipCount b.ids start) p.1, p.2) :=
    dictOfList_map_inj _ _ hb.nodup hinj
  have hrows : (b.adj.map fun p => (mgD (zipCount b.ids start) p.1,
        dictOfList (p.2.map fun q => (mgD (zipCount b.ids start) q.1, q.2)))) =
      b.adj.map fun p => (mgD (zipCount b.ids start) p.1, p.2.map fun q => (mgD (zipCount b.ids start) q.1, q.2)) := by
    apply List.map_congr_left
    rintro ⟨n, row⟩ hr
    have hsub : ∀ k ∈ row.map (·.1), k ∈ b.ids := by
      intro k hk
      obtain ⟨⟨k', bd⟩, hq, rfl⟩ := List.mem_map.1 hk
      exact hb.row_in n row hr k' bd hq
    simp only
    rw [dictOfList_map_inj _ row (hb.row_nodup n row hr)
      (fun x hx y hy => hinj x (hsub x hx) y (hsub y hy))]
  have hadj : dictOfList (b.adj.map fun p => (mgD (zipCount b.ids start) p.1,
        p.2.map fun q => (mgD (zipCount b.ids start) q.1, q.2))) =
      b.adj.map fun p => (mgD (zipCount b.ids start) p.1, p.2.map fun q => (mgD (zipCount b.ids start) q.1, q.2)) := by
    apply dictOfList_nodup
    have : ((b.adj.map fun p => (mgD (zipCount b.ids start) p.1,
        p.2.map fun q => (mgD (zipCount b.ids start) q.1, q.2))).map (·.1)) = b.ids.map (mgD (zipCount b.ids start)) := by
      rw [← hb.keys]; simp [List.map_map, Function.comp_def]
    rw [this]
    exact nodup_map_of_inj _ hb.nodup hinj
  unfold remap
  simp only [hz, zipCount_keys, zipCount_vals, g1, g2, List.any_nil, Bool.or_self, Bool.false_eq_true, if_false,
    hatoms, hrows, hadj, relabel]

/-! ### the renumbering of `union` -/

theorem collide_iff (a b : Mol) : a.ids.any b.ids.contains = true ↔ ∃ n, n ∈ a.ids ∧ n ∈ b.ids := by
  simp [List.any_eq_true]

theorem shiftOf_of_collide {a b : Mol} (h : a.ids.any b.ids.contains = true) :
    shiftOf a b = mgD (zipCount b.ids (maxOf a.ids + 1)) := by
  simp [shiftOf, h]

theorem shiftOf_of_disjoint {a b : Mol} (h : ∀ n ∈ a.ids, n ∉ b.ids) : shiftOf a b = id := by
  have : a.ids.any b.ids.contains = false := by
    cases hc : a.ids.any b.ids.contains with
    | false => rfl
    | true =>
      obtain ⟨n, h1, h2⟩ := (collide_iff a b).1 hc
      exact absurd h2 (h n h1)
  simp [shiftOf, this]

/-- (a) the renumbering is injective on the atoms of `b` -/
theorem shiftOf_inj (a b : Mol) : ∀ k1 ∈ b.ids, ∀ k2 ∈ b.ids, shiftOf a b k1 = shiftOf a b k2 → k1 = k2 := by
  intro k1 h1 k2 h2 e
  cases hc : a.ids.any b.ids.contains with
  | true =>
    rw [shiftOf_of_collide hc] at e
    exact mgD_zip_inj _ _ k1 h1 k2 h2 e
  | false =>
    simpa [shiftOf, hc] using e

/-- (b) the renumbered atoms of `b` avoid every number of `a` -/
theorem shiftOf_fresh (a b : Mol) : ∀ k ∈ b.ids, shiftOf a b k ∉ a.ids := by
  intro k hk hin
  cases hc : a.ids.any b.ids.contains with
  | true =>
    rw [shiftOf_of_collide hc] at hin
    have h1 := mgD_zip_ge b.ids (maxOf a.ids + 1) k hk
    have h2 := maxOf_ge a.ids _ hin
    omega
  | false =>
    have : shiftOf a b k = k := by simp [shiftOf, hc]
    rw [this] at hin
    have : a.ids.any b.ids.contains = true := (collide_iff a b).2 ⟨k, hin, hk⟩
    rw [hc] at this
    cases this

/-- (c) the numbering exactly as the code does it: `max(a)+1, max(a)+2, …` along `b`'s atom order -/
theorem shiftOf_collide_idx (a b : Mol) (hnd : b.ids.Nodup) (hc : a.ids.any b.ids.contains = true) :
    ∀ i (hi : i < b.ids.length), shiftOf a b b.ids[i] = maxOf a.ids + 1 + i := by
  intro i hi
  rw [shiftOf_of_collide hc]
  simp [mgD, zipCount_lookup_idx b.ids hnd (maxOf a.ids + 1) i hi]

theorem shiftOf_no_collide (a b : Mol) (hc : a.ids.any b.ids.contains = false) : ∀ k, shiftOf a b k = k := by
  intro k
  simp [shiftOf, hc]

theorem shiftOf_spec (a b : Mol) (hnd : b.ids.Nodup) :
    (∀ k1 ∈ b.ids, ∀ k2 ∈ b.ids, shiftOf a b k1 = shiftOf a b k2 → k1 = k2) ∧
    (∀ k ∈ b.ids, shiftOf a b k ∉ a.ids) ∧
    (if a.ids.any b.ids.contains = true then
       ∀ i (hi : i < b.ids.length), shiftOf a b b.ids[i] = maxOf a.ids + 1 + i
     else ∀ k, shiftOf a b k = k) := by
  refine ⟨shiftOf_inj a b, shiftOf_fresh a b, ?_⟩
  split
  · next hc => exact shiftOf_collide_idx a b hnd hc
  · next hc => exact shiftOf_no_collide a b (by simpa using hc)

/-- numbers of `a` followed by the renumbered numbers of `b` are pairwise distinct -/
theorem union_keys_nodup {a b : Mol} (ha : a.ids.Nodup) (hb : b.ids.Nodup) :
    (a.ids ++ b.ids.map (shiftOf a b)).Nodup := by
  rw [List.nodup_append]
  refine ⟨ha, nodup_map_of_inj _ hb (shiftOf_inj a b), ?_⟩
  intro x hx y hy e
  obtain ⟨k, hk, rfl⟩ := List.mem_map.1 hy
  subst e
  exact shiftOf_fresh a b k hk hx

/-! ### closed form of `union` -/

theorem union_closed_form' {a b : Mol} (ha : WFP a) (hb : WFP b) :
    union a b = .ok ⟨a.atoms ++ (relabel (shiftOf a b) b).atoms, a.adj ++ (relabel (shiftOf a b) b).adj⟩ := by
  have hnd := union_keys_nodup (a := a) (b := b) ha.nodup hb.nodup
  have h1 : dictUpdate a.atoms (relabel (shiftOf a b) b).atoms = a.atoms ++ (relabel (shiftOf a b) b).atoms := by
    apply dictUpdate_disjoint
    have := relabel_ids (shiftOf a b) b
    simp only [Mol.ids] at this hnd
    rw [this]; exact hnd
  have h2 : dictUpdate a.adj (relabel (shiftOf a b) b).adj = a.adj ++ (relabel (shiftOf a b) b).adj := by
    apply dictUpdate_disjoint
    rw [relabel_adj_keys, ha.keys, hb.keys]; exact hnd
  unfold union
  cases hc : a.ids.any b.ids.contains with
  | true =>
    have hne : a.ids ≠ [] := by
      intro e; rw [e] at hc; simp at hc
    rw [shiftOf_of_collide hc] at h1 h2 ⊢
    simp only [if_true, maxKey_eq_maxOf hne, remap_closed hb, h1, h2]
  | false =>
    have : shiftOf a b = id := by funext k; exact shiftOf_no_collide a b hc k
    rw [this, relabel_id] at h1 h2 ⊢
    simp only [Bool.false_eq_true, if_false, h1, h2]

/-- `union` (`a | b`) never raises on well-formed operands; the result is `a` followed by the relabelled `b` -/
theorem union_closed_form {a b : Mol} (ha : a.WF = true) (hb : b.WF = true) :
    union a b = .ok ⟨a.atoms ++ (relabel (shiftOf a b) b).atoms, a.adj ++ (relabel (shiftOf a b) b).adj⟩ :=
  union_closed_form' ((wfp_iff a).1 ha) ((wfp_iff b).1 hb)

/-! ### lookups in a relabelled dict -/

theorem lookup_map_inj {β γ} (f : Nat → Nat) (g : β → γ) (l : List (Nat × β)) (k : Nat)
    (h : ∀ k' ∈ l.map (·.1), f k' = f k → k' = k) :
    (l.map fun p => (f p.1, g p.2)).lookup (f k) = (l.lookup k).map g := by
  induction l with
  | nil => rfl
  | cons p tl ih =>
    obtain ⟨k', v⟩ := p
    have ih' := ih (fun x hx => h x (List.mem_cons_of_mem _ hx))
    by_cases e : k = k'
    · subst e; simp [List.lookup]
    · have hne : f k ≠ f k' := fun e' => e (h k' (by simp) e'.symm).symm
      have b1 : (k == k') = false := by simpa using e
      have b2 : (f k == f k') = false := by simpa using hne
      simp only [List.map_cons, List.lookup, b1, b2]
      exact ih'

theorem lookup_map_inj' {β} (f : Nat → Nat) (l : List (Nat × β)) (k : Nat)
    (h : ∀ k' ∈ l.map (·.1), f k' = f k → k' = k) :
    (l.map fun p => (f p.1, p.2)).lookup (f k) = l.lookup k := by
  have := lookup_map_inj f (id : β → β) l k h
  simpa using this

theorem lookup_map_notin {β γ} (f : Nat → Nat) (g : β → γ) (l : List (Nat × β)) (c : Nat)
    (h : c ∉ (l.map (·.1)).map f) : (l.map fun p => (f p.1, g p.2)).lookup c = none := by
  rw [lookup_none_iff_not_mem_keys]
  simpa [List.map_map, Function.comp_def] using h

theorem lookup_append_left {β} (x y : List (Nat × β)) (k : Nat) (h : k ∈ x.map (·.1)) :
    (x ++ y).lookup k = x.lookup k := by
  rw [List.lookup_append]
  have := (lookup_isSome_iff_mem_keys x k).2 h
  cases hx : x.lookup k with
  | none => rw [hx] at this; cases this
  | some v => rfl

theorem lookup_append_right {β} (x y : List (Nat × β)) (k : Nat) (h : k ∉ x.map (·.1)) :
    (x ++ y).lookup k = y.lookup k := by
  rw [List.lookup_append, (lookup_none_iff_not_mem_keys x k).2 h]
  rfl

/-! ### what `union` keeps -/

/-- the closed form as a molecule -/
def glue (a b : Mol) : Mol :=
  ⟨a.atoms ++ (relabel (shiftOf a b) b).atoms, a.adj ++ (relabel (shiftOf a b) b).adj⟩

theorem union_eq_glue {a b u : Mol} (ha : a.WF = true) (hb : b.WF = true) (h : union a b = .ok u) : u = glue a b := by
  rw [union_closed_form ha hb] at h
  simp only [Except.ok.injEq] at h
  exact h.symm

theorem nbrs_keys_sub {b : Mol} (hb : WFP b) (k : Nat) : ∀ x ∈ (b.nbrs k).map (·.1), x ∈ b.ids := by
  intro x hx
  simp only [Mol.nbrs] at hx
  cases hl : b.adj.lookup k with
  | none => simp [hl] at hx
  | some row =>
    simp only [hl, Option.getD_some] at hx
    obtain ⟨⟨x', bd⟩, hq, rfl⟩ := List.mem_map.1 hx
    exact hb.row_in k row (lookup_some_mem' hl) x' bd hq

theorem glue_ids (a b : Mol) : (glue a b).ids = a.ids ++ b.ids.map (shiftOf a b) := by
  simp [glue, Mol.ids, relabel, List.map_map, Function.comp_def]

theorem glue_adj_keys {a b : Mol} (ha : WFP a) (hb : WFP b) : (glue a b).adj.map (·.1) = (glue a b).ids := by
  rw [glue_ids]
  simp only [glue, List.map_append, relabel_adj_keys, ha.keys, hb.keys]

theorem glue_atoms_first (a b : Mol) : ∀ n ∈ a.ids, (glue a b).atoms.lookup n = a.atoms.lookup n := by
  intro n hn
  exact lookup_append_left _ _ n hn

theorem glue_nbrs_first {a : Mol} (ha : WFP a) (b : Mol) : ∀ n ∈ a.ids, (glue a b).nbrs n = a.nbrs n := by
  intro n hn
  simp only [Mol.nbrs, glue]
  rw [lookup_append_left _ _ n (by rw [ha.keys]; exact hn)]

theorem glue_atoms_second (a b : Mol) :
    ∀ k ∈ b.ids, (glue a b).atoms.lookup (shiftOf a b k) = b.atoms.lookup k := by
  intro k hk
  simp only [glue, relabel]
  rw [lookup_append_right _ _ _ (shiftOf_fresh a b k hk)]
  exact lookup_map_inj' _ _ k (fun k' hk' e => shiftOf_inj a b k' hk' k hk e)

theorem glue_nbrs_second {a : Mol} (ha : WFP a) {b : Mol} (hb : WFP b) :
    ∀ k ∈ b.ids, (glue a b).nbrs (shiftOf a b k) = (b.nbrs k).map fun q => (shiftOf a b q.1, q.2) := by
  intro k hk
  simp only [Mol.nbrs, glue, relabel]
  rw [lookup_append_right _ _ _ (by rw [ha.keys]; exact shiftOf_fresh a b k hk)]
  rw [lookup_map_inj (shiftOf a b) (fun row : List (Nat × Bond) => row.map fun q => (shiftOf a b q.1, q.2)) b.adj k
    (by rw [hb.keys]; exact fun k' hk' e => shiftOf_inj a b k' hk' k hk e)]
  cases b.adj.lookup k <;> simp

theorem glue_bond_second {a : Mol} (ha : WFP a) {b : Mol} (hb : WFP b) :
    ∀ k ∈ b.ids, ∀ k' ∈ b.ids, (glue a b).bond? (shiftOf a b k) (shiftOf a b k') = b.bond? k k' := by
  intro k hk k' hk'
  simp only [Mol.bond?]
  rw [glue_nbrs_second ha hb k hk]
  exact lookup_map_inj' _ _ k' (fun x hx e => shiftOf_inj a b x (nbrs_keys_sub hb k x hx) k' hk' e)

theorem glue_bond_second_outside {a : Mol} (ha : WFP a) {b : Mol} (hb : WFP b) :
    ∀ k ∈ b.ids, ∀ c, c ∉ b.ids.map (shiftOf a b) → (glue a b).bond? (shiftOf a b k) c = none := by
  intro k hk c hc
  simp only [Mol.bond?]
  rw [glue_nbrs_second ha hb k hk]
  have := lookup_map_notin (shiftOf a b) (id : Bond → Bond) (b.nbrs k) c (by
    intro hin
    obtain ⟨x, hx, rfl⟩ := List.mem_map.1 hin
    exact hc (List.mem_map.2 ⟨x, nbrs_keys_sub hb k x hx, rfl⟩))
  simpa using this

/-! ### `union_spec`, stated on the value `union` returns -/

section spec
variable {a b u : Mol}

theorem union_ids (ha : a.WF = true) (hb : b.WF = true) (h : union a b = .ok u) :
    u.ids = a.ids ++ b.ids.map (shiftOf a b) ∧ u.ids.Nodup := by
  rw [union_eq_glue ha hb h, glue_ids]
  exact ⟨rfl, union_keys_nodup ((wfp_iff a).1 ha).nodup ((wfp_iff b).1 hb).nodup⟩

theorem union_keeps_first_atoms (ha : a.WF = true) (hb : b.WF = true) (h : union a b = .ok u) :
    ∀ n ∈ a.ids, u.atoms.lookup n = a.atoms.lookup n := by
  rw [union_eq_glue ha hb h]
  exact glue_atoms_first a b

theorem union_keeps_first_bonds (ha : a.WF = true) (hb : b.WF = true) (h : union a b = .ok u) :
    ∀ n ∈ a.ids, ∀ c, u.bond? n c = a.bond? n c := by
  rw [union_eq_glue ha hb h]
  intro n hn c
  simp only [Mol.bond?, glue_nbrs_first ((wfp_iff a).1 ha) b n hn]

theorem union_copies_second_atoms (ha : a.WF = true) (hb : b.WF = true) (h : union a b = .ok u) :
    ∀ k ∈ b.ids, u.atoms.lookup (shiftOf a b k) = b.atoms.lookup k := by
  rw [union_eq_glue ha hb h]
  exact glue_atoms_second a b

theorem union_copies_second_bonds (ha : a.WF = true) (hb : b.WF = true) (h : union a b = .ok u) :
    ∀ k ∈ b.ids, ∀ k' ∈ b.ids, u.bond? (shiftOf a b k) (shiftOf a b k') = b.bond? k k' := by
  rw [union_eq_glue ha hb h]
  exact glue_bond_second ((wfp_iff a).1 ha) ((wfp_iff b).1 hb)

theorem union_second_bonds_inside (ha : a.WF = true) (hb : b.WF = true) (h : union a b = .ok u) :
    ∀ k ∈ b.ids, ∀ c, c ∉ b.ids.map (shiftOf a b) → u.bond? (shiftOf a b k) c = none := by
  rw [union_eq_glue ha hb h]
  exact glue_bond_second_outside ((wfp_iff a).1 ha) ((wfp_iff b).1 hb)

/-- no bond joins the copy of `a` and the copy of `b` -/
theorem union_no_cross_bond (ha : a.WF = true) (hb : b.WF = true) (h : union a b = .ok u) :
    ∀ n ∈ a.ids, ∀ k ∈ b.ids, u.bond? n (shiftOf a b k) = none ∧ u.bond? (shiftOf a b k) n = none := by
  intro n hn k hk
  have wa := (wfp_iff a).1 ha
  constructor
  · rw [union_keeps_first_bonds ha hb h n hn]
    simp only [Mol.bond?]
    rw [lookup_none_iff_not_mem_keys]
    intro hin
    exact shiftOf_fresh a b k hk (nbrs_keys_sub wa n _ hin)
  · apply union_second_bonds_inside ha hb h k hk
    intro hin
    obtain ⟨x, hx, e⟩ := List.mem_map.1 hin
    exact shiftOf_fresh a b x hx (e ▸ hn)

theorem union_spec (ha : a.WF = true) (hb : b.WF = true) (h : union a b = .ok u) :
    (u.ids = a.ids ++ b.ids.map (shiftOf a b) ∧ u.ids.Nodup) ∧
    (∀ n ∈ a.ids, u.atoms.lookup n = a.atoms.lookup n) ∧
    (∀ n ∈ a.ids, ∀ c, u.bond? n c = a.bond? n c) ∧
    (∀ k ∈ b.ids, u.atoms.lookup (shiftOf a b k) = b.atoms.lookup k) ∧
    (∀ k ∈ b.ids, ∀ k' ∈ b.ids, u.bond? (shiftOf a b k) (shiftOf a b k') = b.bond? k k') ∧
    (∀ n ∈ a.ids, ∀ k ∈ b.ids, u.bond? n (shiftOf a b k) = none ∧ u.bond? (shiftOf a b k) n = none) ∧
    (∀ k ∈ b.ids, ∀ c, c ∉ b.ids.map (shiftOf a b) → u.bond? (shiftOf a b k) c = none) :=
  ⟨union_ids ha hb h, union_keeps_first_atoms ha hb h, union_keeps_first_bonds ha hb h,
   union_copies_second_atoms ha hb h, union_copies_second_bonds ha hb h, union_no_cross_bond ha hb h,
   union_second_bonds_inside ha hb h⟩

end spec

/-! ### `union(remap=False)` -/

theorem unionStrict_error_iff' (a b : Mol) :
    unionStrict a b = .error (.mappingError "mapping of graphs is not disjoint") ↔ ∃ n, n ∈ a.ids ∧ n ∈ b.ids := by
  rw [← collide_iff]
  unfold unionStrict
  cases a.ids.any b.ids.contains <;> simp

theorem unionStrict_error_iff (a b : Mol) : (∃ e, unionStrict a b = .error e) ↔ ∃ n, n ∈ a.ids ∧ n ∈ b.ids := by
  rw [← collide_iff]
  unfold unionStrict
  cases a.ids.any b.ids.contains <;> simp

theorem unionStrict_eq_union {a b : Mol} (h : ∀ n ∈ a.ids, n ∉ b.ids) : unionStrict a b = union a b := by
  have : a.ids.any b.ids.contains = false := by
    cases hc : a.ids.any b.ids.contains with
    | false => rfl
    | true =>
      obtain ⟨n, h1, h2⟩ := (collide_iff a b).1 hc
      exact absurd h2 (h n h1)
  simp [unionStrict, union, this]

theorem unionStrict_shift_id {a b : Mol} (h : ∀ n ∈ a.ids, n ∉ b.ids) : shiftOf a b = id := shiftOf_of_disjoint h

theorem unionR_true (a b : Mol) : unionR true a b = union a b := rfl
theorem unionR_false (a b : Mol) : unionR false a b = unionStrict a b := rfl

/-- `union(remap=flag)` on well-formed operands raises exactly when `flag` is off and a number occurs in both -/
theorem unionR_error_iff {a b : Mol} (ha : a.WF = true) (hb : b.WF = true) (flag : Bool) :
    (∃ e, unionR flag a b = .error e) ↔ flag = false ∧ ∃ n, n ∈ a.ids ∧ n ∈ b.ids := by
  cases flag with
  | true => simp [unionR_true, union_closed_form ha hb]
  | false => simp [unionR_false, unionStrict_error_iff]

/-! ### the union of well-formed graphs is well-formed -/

theorem mem_glue_adj {a b : Mol} {n : Nat} {row : List (Nat × Bond)} (h : (n, row) ∈ (glue a b).adj) :
    (n, row) ∈ a.adj ∨ ∃ k0 row0, (k0, row0) ∈ b.adj ∧ n = shiftOf a b k0 ∧
      row = row0.map fun q => (shiftOf a b q.1, q.2) := by
  simp only [glue, relabel, List.mem_append, List.mem_map] at h
  rcases h with h | ⟨⟨k0, row0⟩, hin, e⟩
  · exact Or.inl h
  · simp only [Prod.mk.injEq] at e
    exact Or.inr ⟨k0, row0, hin, e.1.symm, e.2.symm⟩

theorem key_mem_ids {m : Mol} (hm : WFP m) {n : Nat} {row : List (Nat × Bond)} (h : (n, row) ∈ m.adj) : n ∈ m.ids := by
  rw [← hm.keys]
  exact List.mem_map.2 ⟨(n, row), h, rfl⟩

theorem glue_wfp {a b : Mol} (ha : WFP a) (hb : WFP b) : WFP (glue a b) := by
  have hids := glue_ids a b
  have inl : ∀ k ∈ a.ids, k ∈ (glue a b).ids := fun k hk => by rw [hids]; exact List.mem_append.2 (Or.inl hk)
  have inr : ∀ k ∈ b.ids, shiftOf a b k ∈ (glue a b).ids := fun k hk => by
    rw [hids]; exact List.mem_append.2 (Or.inr (List.mem_map.2 ⟨k, hk, rfl⟩))
  refine ⟨by rw [hids]; exact union_keys_nodup ha.nodup hb.nodup, glue_adj_keys ha hb, ?_, ?_, ?_, ?_⟩
  · intro n row hr
    rcases mem_glue_adj hr with h | ⟨k0, row0, hin, rfl, rfl⟩
    · exact ha.row_nodup n row h
    · rw [keys_map_fst]
      apply nodup_map_of_inj _ (hb.row_nodup k0 row0 hin)
      intro x hx y hy e
      obtain ⟨⟨x', bx⟩, hqx, rfl⟩ := List.mem_map.1 hx
      obtain ⟨⟨y', by'⟩, hqy, rfl⟩ := List.mem_map.1 hy
      exact shiftOf_inj a b _ (hb.row_in k0 row0 hin x' bx hqx) _ (hb.row_in k0 row0 hin y' by' hqy) e
  · intro n row hr k bd hk
    rcases mem_glue_adj hr with h | ⟨k0, row0, hin, rfl, rfl⟩
    · exact ha.row_ne n row h k bd hk
    · obtain ⟨⟨q, bq⟩, hq, e⟩ := List.mem_map.1 hk
      simp only [Prod.mk.injEq] at e
      obtain ⟨rfl, rfl⟩ := e
      intro e
      exact hb.row_ne k0 row0 hin q bq hq
        (shiftOf_inj a b q (hb.row_in k0 row0 hin q bq hq) k0 (key_mem_ids hb hin) e)
  · intro n row hr k bd hk
    rcases mem_glue_adj hr with h | ⟨k0, row0, hin, rfl, rfl⟩
    · exact inl k (ha.row_in n row h k bd hk)
    · obtain ⟨⟨q, bq⟩, hq, e⟩ := List.mem_map.1 hk
      simp only [Prod.mk.injEq] at e
      obtain ⟨rfl, rfl⟩ := e
      exact inr q (hb.row_in k0 row0 hin q bq hq)
  · intro n row hr k bd hk
    rcases mem_glue_adj hr with h | ⟨k0, row0, hin, rfl, rfl⟩
    · have hka := ha.row_in n row h k bd hk
      simp only [Mol.bond?, glue_nbrs_first ha b k hka]
      exact ha.row_sym n row h k bd hk
    · obtain ⟨⟨q, bq⟩, hq, e⟩ := List.mem_map.1 hk
      simp only [Prod.mk.injEq] at e
      obtain ⟨rfl, rfl⟩ := e
      rw [glue_bond_second ha hb q (hb.row_in k0 row0 hin q bq hq) k0 (key_mem_ids hb hin)]
      exact hb.row_sym k0 row0 hin q bq hq

theorem union_wf {a b u : Mol} (ha : a.WF = true) (hb : b.WF = true) (h : union a b = .ok u) : u.WF = true := by
  rw [union_eq_glue ha hb h]
  exact (wfp_iff _).2 (glue_wfp ((wfp_iff a).1 ha) ((wfp_iff b).1 hb))

/-- `reduce(or_, …)` step: the union of well-formed graphs exists and is well-formed -/
theorem union_total_wf {a b : Mol} (ha : a.WF = true) (hb : b.WF = true) : ∃ u, union a b = .ok u ∧ u.WF = true :=
  ⟨_, union_closed_form ha hb, union_wf ha hb (union_closed_form ha hb)⟩

end ChythonModel.Proofs.C16U
