import ChythonModel.Proofs.C13Step
import ChythonModel.Proofs.C13WF
/-!
# C13 — well-formedness of every stored graph (live molecule and transaction snapshot) is an invariant of `step`

Lifted from the data operations (`Proofs/C13WF.lean`) through `stepEv`, `interp`, `runFn` and all 21 public operations,
for every table whose `restore` events restore `_atoms` and `_bonds` together (`GraphOK`, decidable, true of today's table),
for every context, every `obs`, successful or failing outcome alike.
-/
namespace ChythonModel.Proofs.C13
open ChythonModel.Model ChythonModel.Model.C13 ChythonModel.Gen.CacheEffects ChythonModel.Spec.Deps

/-- the live graph and, inside a transaction, the snapshot graph are well-formed -/
def ObjWF (o : Obj) : Prop := MolWF o.mol ∧ ∀ bk, o.backup = some (some bk) → MolWF bk.mol

def WorldWF (w : World) : Prop := ∀ o ∈ w.objs, ObjWF o

def CtxWF (cx : Ctx) : Prop := ∀ m', cx.editMol = some m' → MolWF m'

/-- a `restore` event gives back `_atoms` and `_bonds` together (or neither) -/
def evGraphOK : Ev → Bool
  | .restore slots => slots.contains "_atoms" == slots.contains "_bonds"
  | _ => true

def graphOK (es : List GEv) : Bool := es.all fun ge => evGraphOK ge.e

/-- every (method, keyword arguments) pair `step` runs through the regenerated event lists -/
def stepFns : List (String × List (String × Bool)) :=
  [("MoleculeContainer.add_atom", []), ("MoleculeContainer.add_bond", []), ("MoleculeContainer.delete_atom", []),
   ("MoleculeContainer.delete_bond", []), ("Graph.remap", []),
   ("MoleculeContainer.fix_structure", [("recalculate_hydrogens", true)]),
   ("MoleculeContainer.fix_structure", [("recalculate_hydrogens", false)]),
   ("MoleculeStereo.fix_stereo", []), ("MoleculeStereo.clean_stereo", []), ("MoleculeContainer.calc_labels", []),
   ("MoleculeContainer.union", [("copy", false), ("remap", true)]),
   ("MoleculeContainer.union", [("copy", false), ("remap", false)]),
   ("MoleculeContainer.__enter__", []), ("MoleculeContainer.__exit__#ok", []), ("MoleculeContainer.__exit__#exc", [])]

def GraphOK (T : Tables) : Bool := stepFns.all fun fe => graphOK (expand T.fns expandFuel fe.1 fe.2)

theorem applyEdit_mol (cx : Ctx) (c : Cfg) :
    (applyEdit cx c).o.mol = c.o.mol ∨ cx.editMol = some (applyEdit cx c).o.mol := by
  unfold applyEdit
  split
  · exact Or.inl rfl
  · split
    · exact Or.inl rfl
    · rename_i m' hm
      exact Or.inr hm

theorem readKey_mol (T : Tables) (o : Obj) (k : String) (obs : List String) (opt : Bool) :
    (readKey T o k obs opt).mol = o.mol := by
  unfold readKey; split <;> rfl

theorem objWF_congr {o o' : Obj} (hm : o'.mol = o.mol) (hb : o'.backup = o.backup) (h : ObjWF o) : ObjWF o' :=
  ⟨by rw [hm]; exact h.1, fun bk hbk => h.2 bk (by rw [← hb]; exact hbk)⟩

theorem stepEv_wf {T : Tables} {cx : Ctx} {opt : Bool} {c : Cfg} {e : Ev} (h : ObjWF c.o) (hcx : CtxWF cx)
    (he : evGraphOK e = true) : ObjWF (stepEv T cx opt c e).cfg.o := by
  cases e with
  | edit =>
    simp only [stepEv, Res.cfg]
    refine ⟨?_, fun bk hbk => h.2 bk (by rw [← applyEdit_backup cx c]; exact hbk)⟩
    rcases applyEdit_mol cx c with hm | hm
    · rw [hm]; exact h.1
    · exact hcx _ hm
  | call f a => exact h
  | flushAll => exact h
  | flush a b =>
    simp only [stepEv]
    cases flagBool a <;> cases flagBool b <;> cases opt <;> exact h
  | pop k => simp only [stepEv]; split <;> exact h
  | dictSet k => exact objWF_congr (readKey_mol _ _ _ _ _) (readKey_backup _ _ _ _ _) h
  | readC k => exact objWF_congr (readKey_mol _ _ _ _ _) (readKey_backup _ _ _ _ _) h
  | changedAdd =>
    simp only [stepEv]
    split
    · exact h
    · split <;> exact h
  | changedDiscard => simp only [stepEv]; split <;> exact h
  | changedAttr =>
    simp only [stepEv]
    split
    · exact h
    · exact h
    · split <;> exact h
  | changedNone => exact h
  | changedRead => simp only [stepEv]; split <;> exact h
  | backupRead => simp only [stepEv]; split <;> exact h
  | backupCopy a b =>
    simp only [stepEv]
    cases flagBool a <;> cases flagBool b <;> try exact h
    refine ⟨h.1, fun bk hbk => ?_⟩
    simp only [Res.cfg, Option.some.injEq] at hbk
    subst hbk
    exact h.1
  | backupNone =>
    refine ⟨h.1, fun bk hbk => ?_⟩
    simp [stepEv, Res.cfg] at hbk
  | restore slots =>
    simp only [stepEv]
    split
    · rename_i bk hb
      simp only [evGraphOK, beq_iff_eq] at he
      refine ⟨?_, fun b hbk => h.2 b hbk⟩
      simp only [Res.cfg]
      cases ha : slots.contains "_atoms" with
      | true =>
        rw [ha] at he
        simp only [← he, if_true]
        exact h.2 bk hb
      | false =>
        rw [ha] at he
        simp only [← he, if_false, Bool.false_eq_true]
        exact h.1
    · exact h
  | hcalc =>
    simp only [stepEv]
    split
    · exact h
    · split <;> (split <;> exact h)
  | labelsWrite => exact h
  | stereoWrite => exact h

theorem interp_wf {T : Tables} {cx : Ctx} (hcx : CtxWF cx) :
    ∀ (es : List GEv) (c : Cfg), graphOK es = true → ObjWF c.o → ObjWF (interp T cx es c).cfg.o := by
  intro es
  induction es with
  | nil => intro c _ h; exact h
  | cons ge rest ih =>
    intro c hg h
    simp only [graphOK, List.all_cons, Bool.and_eq_true] at hg
    simp only [interp]
    split
    · exact h
    · exact ih c hg.2 h
    · rename_i opt _
      have hs := stepEv_wf (T := T) (opt := opt) h hcx hg.1
      split
      · rename_i c' heq
        rw [heq] at hs
        exact ih c' hg.2 hs
      · rename_i c' e' heq
        rw [heq] at hs
        exact hs

theorem worldWF_set {w : World} {i : Nat} {o : Obj} (v : List (Int × Int)) (hw : WorldWF w) (ho : ObjWF o) :
    WorldWF (setObj { w with vecs := v } i o) := by
  intro x hx
  simp only [setObj] at hx
  rcases List.mem_or_eq_of_mem_set hx with h | h
  · exact hw x h
  · rw [h]; exact ho

theorem worldWF_append {w : World} {o : Obj} (v : List (Int × Int)) (hw : WorldWF w) (ho : ObjWF o) :
    WorldWF { objs := w.objs ++ [o], vecs := v } := by
  intro x hx
  simp only [List.mem_append, List.mem_singleton] at hx
  rcases hx with h | h
  · exact hw x h
  · rw [h]; exact ho

theorem runFn_wf {T : Tables} {w : World} {i : Nat} {o : Obj} {cx : Ctx} {f : String} {env : List (String × Bool)}
    (hG : graphOK (expand T.fns expandFuel f env) = true) (hcx : CtxWF cx) (hw : WorldWF w) (ho : ObjWF o) :
    WorldWF (runFn T w i o cx f env).w := by
  have hi := interp_wf (T := T) hcx _ { o := o, vecs := w.vecs } hG ho
  unfold runFn
  split
  · rename_i c heq
    rw [heq] at hi
    exact worldWF_set _ hw hi
  · rename_i c e heq
    rw [heq] at hi
    exact worldWF_set _ hw hi

theorem graphOK_of {T : Tables} (hG : GraphOK T = true) (fe : String × List (String × Bool)) (h : fe ∈ stepFns) :
    graphOK (expand T.fns expandFuel fe.1 fe.2) = true := by
  simp only [GraphOK, List.all_eq_true] at hG
  exact hG fe h

theorem ctxWF_none {cx : Ctx} (h : cx.editMol = none) : CtxWF cx := by
  intro m' hm; rw [h] at hm; cases hm

/-! ## the data operations bound by `step` -/

theorem map_fst_update {α} (l : List (Nat × α)) (n : Nat) (g : α → α) :
    (l.map fun p => if p.1 == n then (p.1, g p.2) else p).map (·.1) = l.map (·.1) := by
  induction l with
  | nil => rfl
  | cons p rest ih =>
    simp only [List.map_cons, ih]
    split <;> rfl

theorem copyObj_wf {T : Tables} {o : Obj} (v : List (Int × Int)) (kS kC : Bool) (h : ObjWF o) : ObjWF (copyObj T o v kS kC).1 := by
  refine ⟨h.1, fun bk hbk => ?_⟩
  simp only [copyObj] at hbk
  split at hbk <;> cases hbk

theorem subObj_wf {T : Tables} {o : Obj} (v : List (Int × Int)) (atoms : List Nat) (r : Bool) (h : ObjWF o) :
    ObjWF (subObj T o v atoms r).1 := by
  refine ⟨restrict_wf (fun x => (o.mol.ids.filter atoms.contains).contains x) h.1, fun bk hbk => ?_⟩
  simp only [subObj] at hbk
  split at hbk <;> cases hbk

theorem mapId_nil (n : Nat) : mapId [] n = n := by simp [mapId]

theorem unionMap_keys (self other : Mol) : (unionMap self other).map (·.1) = other.ids := by
  simp [unionMap, List.map_map, Function.comp_def]

theorem unionMap_vals (self other : Mol) :
    (unionMap self other).map (·.2) = (List.range' 0 other.ids.length).map fun j => listMax self.ids + 1 + j := by
  have : (unionMap self other).map (·.2) = (other.ids.zipIdx.map (·.2)).map fun j => listMax self.ids + 1 + j := by
    simp only [unionMap, List.map_map]; rfl
  rw [this, List.zipIdx_map_snd]

/-- the renumbered copy of `other` that `Graph.union` merges in is well-formed and disjoint from `self` -/
theorem unionOther_wf {self other : Mol} (ho : MolWF other) (rmp : Bool)
    (hov : (self.ids.any other.hasAtom && !rmp) = false) :
    let mp := if self.ids.any other.hasAtom then unionMap self other else []
    MolWF (mapMol (mapId mp) other) ∧ ∀ x ∈ self.ids, x ∉ (mapMol (mapId mp) other).ids := by
  intro mp
  have hids : (mapMol (mapId mp) other).ids = other.ids.map (mapId mp) := by simp [mapMol, Mol.ids, List.map_map, Function.comp_def]
  cases hany : self.ids.any other.hasAtom with
  | false =>
    have hmp : mp = [] := by simp [mp, hany]
    rw [hids, hmp]
    refine ⟨mapMol_wf _ (fun x _ y _ hxy => by simpa [mapId_nil] using hxy) ho, ?_⟩
    intro x hx hmem
    obtain ⟨y, hy, hxy⟩ := List.mem_map.mp hmem
    rw [mapId_nil] at hxy
    subst hxy
    have : self.ids.any other.hasAtom = true := List.any_eq_true.mpr ⟨y, hx, hasAtom_iff.mpr hy⟩
    rw [hany] at this; cases this
  | true =>
    have hmp : mp = unionMap self other := by simp [mp, hany]
    rw [hids, hmp]
    have hvals := unionMap_vals self other
    have hkey : ∀ n ∈ other.ids, ∃ v, (unionMap self other).lookup n = some v ∧ listMax self.ids < v := by
      intro n hn
      cases hl : (unionMap self other).lookup n with
      | none =>
        have := lookup_none_iff.mp hl
        rw [unionMap_keys] at this
        exact absurd hn this
      | some v =>
        refine ⟨v, rfl, ?_⟩
        have hv : v ∈ (unionMap self other).map (·.2) := List.mem_map.mpr ⟨_, mem_of_lookup hl, rfl⟩
        rw [hvals] at hv
        obtain ⟨j, _, rfl⟩ := List.mem_map.mp hv
        omega
    refine ⟨mapMol_wf _ (mapId_injOn ?_ ?_) ho, ?_⟩
    · rw [hvals]
      exact nodup_map_of_injOn (fun x _ y _ hxy => by omega) List.nodup_range'
    · intro n hn hnone
      obtain ⟨v, hv, _⟩ := hkey n hn
      rw [hnone] at hv; cases hv
    · intro x hx hmem
      obtain ⟨y, hy, hxy⟩ := List.mem_map.mp hmem
      obtain ⟨v, hv, hlt⟩ := hkey y hy
      simp only [mapId, hv, Option.getD_some] at hxy
      have := le_listMax hx
      omega

theorem getElem?_mem {w : World} {i : Nat} {o : Obj} (h : w.objs[i]? = some o) : o ∈ w.objs := List.mem_of_getElem? h

/-- **every public operation keeps every stored graph well-formed** — whatever the arguments, the observed read
resolution and the outcome (a Python exception leaves the partially updated object, which is still well-formed) -/
theorem step_wf {T : Tables} (hG : GraphOK T = true) {w : World} (op : Op) (obs : List String) (hw : WorldWF w) :
    WorldWF (step T w op obs).w := by
  unfold step
  cases hget : w.objs[op.target]? with
  | none => simp only [hget]; exact hw
  | some o =>
    have ho : ObjWF o := hw o (getElem?_mem hget)
    simp only [hget]
    cases op with
    | addAtom oi z n skip =>
      simp only
      cases hg : gAddAtom o.mol z n with
      | error e => exact hw
      | ok r =>
        obtain ⟨m', k⟩ := r
        exact runFn_wf (graphOK_of hG ("MoleculeContainer.add_atom", []) (by decide))
          (fun m hm => by cases hm; exact addAtom_wf hg ho.1) hw ho
    | addBond oi a b order skip =>
      simp only
      cases hg : gAddBond o.mol a b order with
      | error e => exact hw
      | ok m' =>
        exact runFn_wf (graphOK_of hG ("MoleculeContainer.add_bond", []) (by decide))
          (fun m hm => by cases hm; exact addBond_wf hg ho.1) hw ho
    | delAtom oi n skip =>
      simp only
      cases hg : gDelAtom o.mol n with
      | error e => exact hw
      | ok m' =>
        exact runFn_wf (graphOK_of hG ("MoleculeContainer.delete_atom", []) (by decide))
          (fun m hm => by cases hm; exact delAtom_wf hg ho.1) hw ho
    | delBond oi a b skip =>
      simp only
      cases hg : gDelBond o.mol a b with
      | error e => exact hw
      | ok m' =>
        exact runFn_wf (graphOK_of hG ("MoleculeContainer.delete_bond", []) (by decide))
          (fun m hm => by cases hm; exact delBond_wf hg ho.1) hw ho
    | remap oi mp =>
      simp only
      cases hg : gRemap o.mol mp with
      | error e => exact hw
      | ok m' =>
        exact runFn_wf (graphOK_of hG ("Graph.remap", []) (by decide))
          (fun m hm => by cases hm; exact remap_wf hg ho.1) hw ho
    | copy oi kS kC =>
      simp only
      split
      · exact hw
      · exact worldWF_append _ hw (copyObj_wf w.vecs kS kC ho)
    | substructure oi atoms recalc =>
      simp only
      split; · exact hw
      split; · exact hw
      split; · exact hw
      split; · exact hw
      have hsub := subObj_wf (T := T) w.vecs atoms recalc ho
      have hw1 : WorldWF { objs := w.objs ++ [(subObj T o w.vecs atoms recalc).1], vecs := (subObj T o w.vecs atoms recalc).2 } :=
        worldWF_append _ hw hsub
      have hr1 := runFn_wf (i := w.objs.length) (cx := { obs := obs })
        (graphOK_of hG ("MoleculeContainer.fix_structure", [("recalculate_hydrogens", recalc)]) (by cases recalc <;> decide))
        (ctxWF_none rfl) hw1 hsub
      split
      · rename_i s1 _ hs1
        exact runFn_wf (graphOK_of hG ("MoleculeStereo.fix_stereo", []) (by decide)) (ctxWF_none rfl) hr1
          (hr1 s1 (getElem?_mem hs1))
      · exact hr1
    | union oi p rmp cp =>
      simp only
      cases hgp : w.objs[p]? with
      | none => exact hw
      | some other =>
        have hother : ObjWF other := hw other (getElem?_mem hgp)
        simp only
        split; · exact hw
        rename_i hov
        split; · exact hw
        have hov' : (o.mol.ids.any other.mol.hasAtom && !rmp) = false := by
          cases hq : (o.mol.ids.any other.mol.hasAtom && !rmp) with
          | false => rfl
          | true => exact absurd hq hov
        obtain ⟨hom, hdis⟩ := unionOther_wf (self := o.mol) hother.1 rmp hov'
        have hmerged : MolWF ⟨o.mol.atoms ++ (mapMol (mapId (if o.mol.ids.any other.mol.hasAtom then unionMap o.mol other.mol else [])) other.mol).atoms,
            o.mol.adj ++ (mapMol (mapId (if o.mol.ids.any other.mol.hasAtom then unionMap o.mol other.mol else [])) other.mol).adj⟩ :=
          merge_wf ho.1 hom hdis
        split
        · refine worldWF_append _ hw ⟨hmerged, fun bk hbk => ?_⟩
          simp only [copyObj] at hbk
          split at hbk <;> cases hbk
        · cases rmp with
          | true =>
            exact runFn_wf (graphOK_of hG ("MoleculeContainer.union", [("copy", false), ("remap", true)]) (by decide))
              (fun m hm => by cases hm; exact hmerged) hw ho
          | false =>
            exact runFn_wf (graphOK_of hG ("MoleculeContainer.union", [("copy", false), ("remap", false)]) (by decide))
              (fun m hm => by cases hm; exact hmerged) hw ho
    | fixStructure oi r =>
      exact runFn_wf (graphOK_of hG ("MoleculeContainer.fix_structure", [("recalculate_hydrogens", r)]) (by cases r <;> decide))
        (ctxWF_none rfl) hw ho
    | calcLabels oi => exact runFn_wf (graphOK_of hG ("MoleculeContainer.calc_labels", []) (by decide)) (ctxWF_none rfl) hw ho
    | fixStereo oi => exact runFn_wf (graphOK_of hG ("MoleculeStereo.fix_stereo", []) (by decide)) (ctxWF_none rfl) hw ho
    | cleanStereo oi => exact runFn_wf (graphOK_of hG ("MoleculeStereo.clean_stereo", []) (by decide)) (ctxWF_none rfl) hw ho
    | flush oi kS kC => exact worldWF_set w.vecs hw ho
    | enter oi => exact runFn_wf (graphOK_of hG ("MoleculeContainer.__enter__", []) (by decide)) (ctxWF_none rfl) hw ho
    | exitOk oi => exact runFn_wf (graphOK_of hG ("MoleculeContainer.__exit__#ok", []) (by decide)) (ctxWF_none rfl) hw ho
    | exitExc oi => exact runFn_wf (graphOK_of hG ("MoleculeContainer.__exit__#exc", []) (by decide)) (ctxWF_none rfl) hw ho
    | setCharge oi n c =>
      simp only
      split; · exact hw
      split; · exact hw
      refine worldWF_set w.vecs hw ⟨MolWF.congr (m := o.mol) ?_ rfl ho.1, ho.2⟩
      exact map_fst_update o.mol.atoms n (fun x => { x with charge := c })
    | setRadical oi n r =>
      simp only
      split; · exact hw
      refine worldWF_set w.vecs hw ⟨MolWF.congr (m := o.mol) ?_ rfl ho.1, ho.2⟩
      exact map_fst_update o.mol.atoms n (fun x => { x with radical := r })
    | setXY oi n x y =>
      simp only
      split <;> exact hw
    | setMeta oi k v => exact worldWF_set w.vecs hw ho
    | read oi k => exact worldWF_set w.vecs hw (objWF_congr (readKey_mol _ _ _ _ _) (readKey_backup _ _ _ _ _) ho)

end ChythonModel.Proofs.C13
