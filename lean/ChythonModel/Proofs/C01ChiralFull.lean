import ChythonModel.Proofs.C01Chiral
import ChythonModel.Model.C01Chiral
/-!
Lemmas about the full `_chiral_morgan` model (`Model/C01Chiral.lean`): the fuel given to the three loops always suffices,
the model extends the tetrahedral-only model, labels on pairwise inequivalent elements change nothing.
-/
namespace ChythonModel.Proofs.C01
open ChythonModel.Model ChythonModel.Model.Morgan ChythonModel.Model.Stereo ChythonModel.Model.ChiralMorgan
open ChythonModel.Model.ChiralFull
open List

/-! ## fuel of `cumulenes` -/

theorem adjSize_cons (r : Nat × List Nat) (tl : DAdj) : adjSize (r :: tl) = r.2.length + adjSize tl := rfl

theorem adjSize_setRow_le (adj : DAdj) (k : Nat) : adjSize (setRow adj k []) ≤ adjSize adj := by
  induction adj with
  | nil => exact Nat.le_refl _
  | cons r tl ih =>
    simp only [setRow, map_cons] at ih ⊢
    rw [adjSize_cons, adjSize_cons]
    split
    · simp only [length_nil]; omega
    · omega

theorem adjSize_setRow_lt (adj : DAdj) (k : Nat) (hne : rowOf adj k ≠ []) :
    adjSize (setRow adj k []) < adjSize adj := by
  induction adj with
  | nil => simp [rowOf] at hne
  | cons r tl ih =>
    obtain ⟨k', row⟩ := r
    simp only [setRow, map_cons]
    rw [adjSize_cons, adjSize_cons]
    by_cases hk : k' = k
    · subst hk
      have : rowOf ((k', row) :: tl) k' = row := by simp [rowOf]
      rw [this] at hne
      have h1 := adjSize_setRow_le tl k'
      simp only [setRow] at h1
      have : 0 < row.length := length_pos_iff.mpr hne
      simp only [beq_self_eq_true, if_true, length_nil]
      omega
    · have hkb : (k' == k) = false := by simpa using hk
      have hkb' : (k == k') = false := by simpa using fun h => hk h.symm
      have : rowOf ((k', row) :: tl) k = rowOf tl k := by simp [rowOf, lookup_cons, hkb']
      rw [this] at hne
      have := ih hne
      simp only [setRow] at this
      simp only [hkb, Bool.false_eq_true, if_false]
      omega

theorem popOnly_ok_ne_nil {l : List Nat} {x : Nat} (h : popOnly l = .ok x) : l ≠ [] := by
  intro hl; subst hl; simp [popOnly] at h

theorem walk_fuel (mol : MolView) (terminals : List Nat) :
    ∀ (fuel : Nat) (adj : DAdj) (n m : Nat) (path : List Nat), adjSize adj < fuel →
      walk mol terminals fuel adj n m path ≠ .error .fuelOut := by
  intro fuel
  induction fuel with
  | zero => intro adj _ _ _ h; omega
  | succ fuel ih =>
    intro adj n m path hlt
    unfold walk
    split
    · simp
    · split
      · simp
      · split
        · simp
        · split
          · rename_i s hs
            intro heq
            injection heq with heq
            subst heq
            -- `popOnly` never answers fuelOut
            revert hs
            generalize (rowOf adj m).filter (· != n) = l
            intro hs
            match l, hs with
            | [], hs => simp [popOnly] at hs
            | [_], hs => simp [popOnly] at hs
            | _ :: _ :: _, hs => simp [popOnly] at hs
          · rename_i m2 hm2
            apply ih
            have hne : rowOf adj m ≠ [] := by
              intro h0
              rw [h0] at hm2
              simp [popOnly] at hm2
            have := adjSize_setRow_lt adj m hne
            omega

theorem popOnly_ne_fuelOut (l : List Nat) : popOnly l ≠ .error .fuelOut := by
  match l with
  | [] => simp [popOnly]
  | [_] => simp [popOnly]
  | _ :: _ :: _ => simp [popOnly]

theorem cumLoop_fuel (mol : MolView) :
    ∀ (fuel : Nat) (terminals : List Nat) (adj : DAdj) (acc : List (List Nat)), terminals.length ≤ fuel →
      cumLoop mol fuel terminals adj acc ≠ .error .fuelOut := by
  intro fuel
  induction fuel with
  | zero =>
    intro terminals adj acc h
    cases terminals with
    | nil => simp [cumLoop]
    | cons _ _ => simp at h
  | succ fuel ih =>
    intro terminals adj acc hle
    cases terminals with
    | nil => simp [cumLoop]
    | cons n tl =>
      simp only [length_cons] at hle
      unfold cumLoop
      split
      · rename_i s hs
        intro heq; injection heq with heq; subst heq
        exact popOnly_ne_fuelOut _ hs
      · rename_i m hm
        simp only
        split
        · rename_i s hs
          intro heq; injection heq with heq; subst heq
          exact walk_fuel mol tl _ _ n m [n, m] (Nat.lt_succ_self _) hs
        · apply ih; omega
        · split
          · rename_i s hs
            intro heq; injection heq with heq; subst heq
            exact popOnly_ne_fuelOut _ hs
          · apply ih
            have he : ∀ x : Nat, (tl.erase x).length ≤ tl.length := fun x => length_erase_le
            rename_i last _ _ _ _ _
            have := he last
            omega

theorem cumulenes_fuel (dbl : Nat → Bool) (mol : MolView) : cumulenes dbl mol ≠ .error .fuelOut := by
  unfold cumulenes
  split
  · simp
  · split
    · simp
    · exact cumLoop_fuel mol _ _ _ _ (Nat.le_refl _)

/-! ## fuel of `__differentiation` -/

/-- every output of `exMapM f l` is the image of a member of `l` -/
theorem exMapM_mem {α β : Type} (f : α → Except PyErr β) :
    ∀ (l : List α) (r : List β), exMapM f l = .ok r → ∀ b ∈ r, ∃ a ∈ l, f a = .ok b := by
  intro l
  induction l with
  | nil => intro r h b hb; simp only [exMapM, pure, Except.pure, Except.ok.injEq] at h; subst h; simp at hb
  | cons a tl ih =>
    intro r h b hb
    simp only [exMapM, bind, Except.bind] at h
    cases hfa : f a with
    | error e => simp [hfa] at h
    | ok v =>
      simp only [hfa] at h
      cases hr : exMapM f tl with
      | error e => simp [hr] at h
      | ok r' =>
        simp only [hr, pure, Except.pure, Except.ok.injEq] at h
        subst h
        rcases mem_cons.mp hb with rfl | hb'
        · exact ⟨a, mem_cons_self, hfa⟩
        · obtain ⟨a', ha', hfa'⟩ := ih r' hr b hb'
          exact ⟨a', mem_cons_of_mem _ ha', hfa'⟩

theorem groupsBy_subset {α : Type} (keyed : List (α × Int)) :
    ∀ g ∈ groupsBy keyed, ∀ a ∈ g, a ∈ keyed.map (·.1) := by
  intro g hg a ha
  unfold groupsBy at hg
  obtain ⟨k, _, rfl⟩ := mem_map.mp hg
  obtain ⟨nv, hnv, rfl⟩ := mem_map.mp ha
  exact mem_map.mpr ⟨nv, (mem_filter.mp hnv).1, rfl⟩

/-- what one group can do to the state of a block -/
theorem processBlock_spec {α β : Type} (test sign : α → Except PyErr Bool) (atomOf : α → Nat) (setKey : α → β)
    (w : Weights) (st st' : BlockState β) (g : List α)
    (h : processBlock test sign atomOf setKey w st g = .ok st') :
    (st'.update = st.update ∧ st'.discard = st.discard) ∨ (g ≠ [] ∧ st'.discard = st.discard ++ g.map setKey) := by
  unfold processBlock at h
  split at h
  · simp only [Except.ok.injEq] at h; subst h; exact Or.inl ⟨rfl, rfl⟩
  · split at h
    · simp only [Except.ok.injEq] at h; subst h; exact Or.inl ⟨rfl, rfl⟩
    · split at h
      · simp at h
      · split at h
        · simp at h
        · split at h
          · split at h
            · simp at h
            · split at h
              · split at h
                · simp at h
                · simp only [Except.ok.injEq] at h
                  subst h
                  exact Or.inr ⟨by simp, rfl⟩
              · simp only [Except.ok.injEq] at h; subst h; exact Or.inl ⟨rfl, rfl⟩
          · simp only [Except.ok.injEq] at h
            subst h
            exact Or.inl ⟨rfl, rfl⟩

/-- invariant of a block: a non-empty update comes with a discarded member of the block's set -/
def BlockInv {β : Type} (S : List β) (st : BlockState β) : Prop := st.update = [] ∨ ∃ x, x ∈ st.discard ∧ x ∈ S

theorem processBlocks_inv {α β : Type} (test sign : α → Except PyErr Bool) (atomOf : α → Nat) (setKey : α → β)
    (w : Weights) (S : List β) :
    ∀ (gs : List (List α)) (st st' : BlockState β), (∀ g ∈ gs, ∀ a ∈ g, setKey a ∈ S) → BlockInv S st →
      processBlocks test sign atomOf setKey w st gs = .ok st' → BlockInv S st' := by
  intro gs
  induction gs with
  | nil =>
    intro st st' _ hinv h
    simp only [processBlocks, Except.ok.injEq] at h
    subst h; exact hinv
  | cons g tl ih =>
    intro st st' hsub hinv h
    simp only [processBlocks] at h
    cases h1 : processBlock test sign atomOf setKey w st g with
    | error e => simp [h1] at h
    | ok st1 =>
      simp only [h1] at h
      refine ih st1 st' (fun g' hg' => hsub g' (mem_cons_of_mem _ hg')) ?_ h
      rcases processBlock_spec test sign atomOf setKey w st st1 g h1 with ⟨hu, hd⟩ | ⟨hne, hd⟩
      · rcases hinv with h0 | ⟨n, hn, hnS⟩
        · exact Or.inl (hu ▸ h0)
        · exact Or.inr ⟨n, hd ▸ hn, hnS⟩
      · cases g with
        | nil => exact absurd rfl hne
        | cons g0 gt =>
          refine Or.inr ⟨setKey g0, ?_, hsub _ mem_cons_self g0 mem_cons_self⟩
          rw [hd]; exact mem_append_right _ (by simp)

theorem ctKey_snd (w : Weights) (nm : Nat × Nat) (kv : CTItem × Int) (h : ctKey w nm = .ok kv) : kv.1.2 = nm := by
  unfold ctKey at h
  split at h
  · simp at h
  · split at h
    · simp at h
    · simp only [Except.ok.injEq] at h
      subst h
      split <;> rfl

theorem keyOf_fst (w : Weights) (n : Nat) (kv : Nat × Int) (h : keyOf w n = .ok kv) : kv.1 = n := by
  unfold keyOf at h
  split at h
  · simp at h
  · simp only [Except.ok.injEq] at h; subst h; rfl

theorem passCT_inv (T : Tables) (w : Weights) (Sc : List (Nat × Nat)) (st : BlockState (Nat × Nat))
    (h : passCT T w Sc = .ok st) : BlockInv Sc st := by
  unfold passCT at h
  cases hk : exMapM (ctKey w) Sc with
  | error e => simp [hk] at h
  | ok keyed =>
    simp only [hk] at h
    refine processBlocks_inv _ _ _ _ w Sc _ _ st ?_ (Or.inl rfl) h
    intro g hg a ha
    obtain ⟨kv, hkv, rfl⟩ := mem_map.mp (groupsBy_subset keyed g hg a ha)
    obtain ⟨nm, hnm, hf⟩ := exMapM_mem _ Sc keyed hk kv hkv
    rw [ctKey_snd w nm kv hf]; exact hnm

theorem passAL_inv (T : Tables) (w : Weights) (Sa : List Nat) (st : BlockState Nat)
    (h : passAL T w Sa = .ok st) : BlockInv Sa st := by
  unfold passAL at h
  cases hk : exMapM (keyOf w) Sa with
  | error e => simp [hk] at h
  | ok keyed =>
    simp only [hk] at h
    refine processBlocks_inv _ _ _ _ w Sa _ _ st ?_ (Or.inl rfl) h
    intro g hg a ha
    obtain ⟨kv, hkv, rfl⟩ := mem_map.mp (groupsBy_subset keyed g hg a ha)
    obtain ⟨n, hn, hf⟩ := exMapM_mem _ Sa keyed hk kv hkv
    simp only [id]
    rw [keyOf_fst w n kv hf]; exact hn

theorem filter_not_contains_lt {α : Type} [BEq α] [LawfulBEq α] (S d : List α) (x : α) (hd : x ∈ d) (hS : x ∈ S) :
    (S.filter fun n => !d.contains n).length < S.length := by
  apply length_filter_lt_length_iff_exists.mpr
  exact ⟨x, hS, by simp [hd]⟩

theorem passFull_progress (T : Tables) (w : Weights) (St : List Nat) (Sc : List (Nat × Nat)) (Sa : List Nat)
    (st : FullState) (h : passFull T w St Sc Sa = .ok st) (hupd : st.update.isEmpty = false) :
    (St.filter fun n => !st.dT.contains n).length + (Sc.filter fun nm => !st.dC.contains nm).length +
      (Sa.filter fun n => !st.dA.contains n).length < St.length + Sc.length + Sa.length := by
  unfold passFull at h
  cases hp : pass T.tetra T.labels w St with
  | error e => simp [hp] at h
  | ok pt =>
    simp only [hp] at h
    cases hc : passCT T w Sc with
    | error e => simp [hc] at h
    | ok pc =>
      simp only [hc] at h
      cases ha : passAL T w Sa with
      | error e => simp [ha] at h
      | ok pa =>
        simp only [ha, Except.ok.injEq] at h
        subst h
        simp only at hupd ⊢
        have h1 := pass_inv _ _ _ _ _ hp
        have h2 := passCT_inv _ _ _ _ hc
        have h3 := passAL_inv _ _ _ _ ha
        have l1 : (St.filter fun n => !pt.discard.contains n).length ≤ St.length := length_filter_le _ _
        have l2 : (Sc.filter fun nm => !pc.discard.contains nm).length ≤ Sc.length := length_filter_le _ _
        have l3 : (Sa.filter fun n => !pa.discard.contains n).length ≤ Sa.length := length_filter_le _ _
        rcases h1 with h1 | ⟨x, hx, hxS⟩
        · rcases h2 with h2 | ⟨x, hx, hxS⟩
          · rcases h3 with h3 | ⟨x, hx, hxS⟩
            · simp [h1, h2, h3] at hupd
            · have := filter_not_contains_lt Sa pa.discard x hx hxS; omega
          · have := filter_not_contains_lt Sc pc.discard x hx hxS; omega
        · have := filter_not_contains_lt St pt.discard x hx hxS; omega

theorem processBlock_ne_fuelOut {α β : Type} (test sign : α → Except PyErr Bool) (atomOf : α → Nat) (setKey : α → β)
    (w : Weights) (st : BlockState β) (g : List α) :
    processBlock test sign atomOf setKey w st g ≠ .error .fuelOut := by
  unfold processBlock
  repeat' split
  all_goals simp

theorem processBlocks_ne_fuelOut {α β : Type} (test sign : α → Except PyErr Bool) (atomOf : α → Nat) (setKey : α → β)
    (w : Weights) : ∀ (gs : List (List α)) (st : BlockState β),
      processBlocks test sign atomOf setKey w st gs ≠ .error .fuelOut := by
  intro gs
  induction gs with
  | nil => intro st; simp [processBlocks]
  | cons g tl ih =>
    intro st
    simp only [processBlocks]
    cases h1 : processBlock test sign atomOf setKey w st g with
    | error s =>
      simp only
      intro heq; injection heq with heq; subst heq
      exact processBlock_ne_fuelOut _ _ _ _ _ _ _ h1
    | ok st1 => exact ih st1

theorem passFull_ne_fuelOut (T : Tables) (w : Weights) (St : List Nat) (Sc : List (Nat × Nat)) (Sa : List Nat) :
    passFull T w St Sc Sa ≠ .error .fuelOut := by
  unfold passFull passCT passAL
  cases pass T.tetra T.labels w St with
  | error e => simp
  | ok pt =>
    simp only
    cases exMapM (ctKey w) Sc with
    | error e => simp
    | ok keyed =>
      simp only
      cases hc : processBlocks (ctTest T w) (ctSign T w) (·.1) (·.2) w ⟨[], [], false⟩ (groupsBy keyed) with
      | error s =>
        simp only
        intro heq; injection heq with heq; subst heq
        exact processBlocks_ne_fuelOut _ _ _ _ _ _ _ hc
      | ok pc =>
        simp only
        cases exMapM (keyOf w) Sa with
        | error e => simp
        | ok keyedA =>
          simp only
          cases ha : processBlocks (alTest T w) (alSign T w) id id w ⟨[], [], false⟩ (groupsBy keyedA) with
          | error s =>
            simp only
            intro heq; injection heq with heq; subst heq
            exact processBlocks_ne_fuelOut _ _ _ _ _ _ _ ha
          | ok pa => simp

theorem diffFull_fuel (h : TupleHash) (bonds : IntAdj) (T : Tables) :
    ∀ (fuel : Nat) (morgan : List (Nat × Nat)) (St : List Nat) (Sc : List (Nat × Nat)) (Sa : List Nat),
      St.length + Sc.length + Sa.length < fuel → diffFull h bonds T fuel morgan St Sc Sa ≠ .error .fuelOut := by
  intro fuel
  induction fuel with
  | zero => intro _ _ _ _ hlt; omega
  | succ fuel ih =>
    intro morgan St Sc Sa hlt
    simp only [diffFull]
    cases hp : passFull T (toWeights morgan) St Sc Sa with
    | error s =>
      simp only
      intro heq; injection heq with heq; subst heq
      exact passFull_ne_fuelOut _ _ _ _ _ hp
    | ok st =>
      simp only
      split
      · simp
      · rename_i hupd
        split
        · simp
        · apply ih
          have := passFull_progress T _ St Sc Sa st hp (by simpa using hupd)
          omega

theorem tablesOf_ne_fuelOut (single dbl : Nat → Bool) (mol : MolView) (labels : List (Nat × Bool)) :
    tablesOf single dbl mol labels ≠ .error .fuelOut := by
  unfold tablesOf
  cases hc : cumulenes dbl mol with
  | error s =>
    simp only
    intro heq; injection heq with heq; subst heq
    exact cumulenes_fuel dbl mol hc
  | ok paths =>
    simp only
    repeat' split
    all_goals simp

theorem outcomeOfStop_fuelOut (s : Stop) : outcomeOfStop s = .fuelOut ↔ s = .fuelOut := by
  cases s <;> simp [outcomeOfStop]

/-- `fuelOut` is never the answer of the full model -/
theorem chiralFull_fuel (h : TupleHash) (single dbl : Nat → Bool) (mol : MolView) (labels : List (Nat × Bool)) :
    chiralFull h single dbl mol labels ≠ .fuelOut := by
  unfold chiralFull
  split
  · split <;> simp
  · split
    · simp
    · split
      · simp
      · simp only
        split
        · rename_i s hs
          intro heq
          rw [outcomeOfStop_fuelOut] at heq
          subst heq
          exact tablesOf_ne_fuelOut _ _ _ _ hs
        · split
          · simp
          · split
            · rename_i s hs
              intro heq
              rw [outcomeOfStop_fuelOut] at heq
              subst heq
              exact diffFull_fuel h _ _ _ _ _ _ _ (Nat.lt_succ_self _) hs
            · split <;> simp

/-! ## labels on pairwise inequivalent elements change nothing -/

theorem mem_of_mem_dedupInts : ∀ (l : List Int) (x : Int), x ∈ dedupInts l → x ∈ l := by
  intro l
  induction l with
  | nil => intro x hx; simp [dedupInts] at hx
  | cons a tl ih =>
    intro x hx
    simp only [dedupInts, mem_cons, mem_filter] at hx
    rcases hx with rfl | ⟨hx, _⟩
    · exact mem_cons_self
    · exact mem_cons_of_mem _ (ih x hx)

theorem filter_key_length_one {α : Type} (keyed : List (α × Int)) (k : Int) (hd : (keyed.map (·.2)).Nodup)
    (hk : k ∈ keyed.map (·.2)) : (keyed.filter fun nv => nv.2 == k).length = 1 := by
  induction keyed with
  | nil => simp at hk
  | cons a tl ih =>
    simp only [map_cons, nodup_cons] at hd
    simp only [filter_cons]
    by_cases hak : a.2 = k
    · subst hak
      have : filter (fun nv => nv.2 == a.2) tl = [] := by
        simp only [filter_eq_nil_iff, beq_iff_eq]
        intro nv hnv heq
        exact hd.1 (mem_map.mpr ⟨nv, hnv, heq⟩)
      simp [this]
    · have hne : (a.2 == k) = false := by simp [hak]
      simp only [hne, Bool.false_eq_true, if_false]
      apply ih hd.2
      simp only [map_cons, mem_cons] at hk
      rcases hk with h | h
      · exact absurd h.symm hak
      · exact h

/-- pairwise different keys: every group is a singleton -/
theorem groupsBy_singletons {α : Type} (keyed : List (α × Int)) (hd : (keyed.map (·.2)).Nodup) :
    ∀ g ∈ groupsBy keyed, g.length = 1 := by
  intro g hg
  unfold groupsBy at hg
  obtain ⟨k, hk, rfl⟩ := mem_map.mp hg
  rw [length_map]
  exact filter_key_length_one keyed k hd (mem_of_mem_dedupInts _ _ hk)

theorem processBlock_singleton {α β : Type} (test sign : α → Except PyErr Bool) (atomOf : α → Nat) (setKey : α → β)
    (w : Weights) (st : BlockState β) (g : List α) (hg : g.length = 1) :
    processBlock test sign atomOf setKey w st g = .ok st := by
  unfold processBlock
  simp [hg]

theorem processBlocks_singletons {α β : Type} (test sign : α → Except PyErr Bool) (atomOf : α → Nat) (setKey : α → β)
    (w : Weights) : ∀ (gs : List (List α)) (st : BlockState β), (∀ g ∈ gs, g.length = 1) →
      processBlocks test sign atomOf setKey w st gs = .ok st := by
  intro gs
  induction gs with
  | nil => intro st _; rfl
  | cons g tl ih =>
    intro st hg
    simp only [processBlocks, processBlock_singleton test sign atomOf setKey w st g (hg g mem_cons_self)]
    exact ih st (fun g' hg' => hg g' (mem_cons_of_mem _ hg'))

theorem groupsOf_eq_groupsBy (w : Weights) (S : List Nat) (keyed : List (Nat × Int))
    (hk : exMapM (keyOf w) S = .ok keyed) : groupsOf w S = .ok (groupsBy keyed) := by
  unfold groupsOf groupsBy
  rw [hk]

/-- one pass over sets whose members have pairwise different keys does nothing -/
theorem passFull_distinct (T : Tables) (w : Weights) (St : List Nat) (Sc : List (Nat × Nat)) (Sa : List Nat)
    (keyedT : List (Nat × Int)) (keyedC : List (CTItem × Int)) (keyedA : List (Nat × Int))
    (hkt : exMapM (keyOf w) St = .ok keyedT) (hdt : (keyedT.map (·.2)).Nodup)
    (hkc : exMapM (ctKey w) Sc = .ok keyedC) (hdc : (keyedC.map (·.2)).Nodup)
    (hka : exMapM (keyOf w) Sa = .ok keyedA) (hda : (keyedA.map (·.2)).Nodup) :
    passFull T w St Sc Sa = .ok ⟨[], [], [], [], false⟩ := by
  have h1 : pass T.tetra T.labels w St = .ok ⟨[], [], []⟩ := by
    unfold pass
    rw [groupsOf_eq_groupsBy w St keyedT hkt]
    exact processGroups_singletons _ _ _ _ _ (groupsBy_singletons keyedT hdt)
  have h2 : passCT T w Sc = .ok ⟨[], [], false⟩ := by
    unfold passCT
    rw [hkc]
    exact processBlocks_singletons _ _ _ _ _ _ _ (groupsBy_singletons keyedC hdc)
  have h3 : passAL T w Sa = .ok ⟨[], [], false⟩ := by
    unfold passAL
    rw [hka]
    exact processBlocks_singletons _ _ _ _ _ _ _ (groupsBy_singletons keyedA hda)
  unfold passFull
  rw [h1, h2, h3]
  rfl

/-- … hence `_chiral_morgan` returns `atoms_order` -/
theorem chiralFull_distinct (h : TupleHash) (single dbl : Nat → Bool) (mol : MolView) (labels : List (Nat × Bool))
    (r0 : List (Nat × Nat)) (tet : List Nat) (T : Tables) (terminals : List (Nat × (Nat × Nat)))
    (pairs : List (Nat × Nat))
    (keyedT : List (Nat × Int)) (keyedC : List (CTItem × Int)) (keyedA : List (Nat × Int))
    (hr : atomsOrder h mol = some r0) (ht : tetrahedrons mol = .ok tet)
    (hT : tablesOf single dbl mol labels = .ok (T, terminals))
    (hp : exMapM (getKey terminals) (stereoBondAtoms mol.bonds) = .ok pairs)
    (hkt : exMapM (keyOf (toWeights r0)) ((labels.map (·.1)).filter tet.contains) = .ok keyedT)
    (hdt : (keyedT.map (·.2)).Nodup)
    (hkc : exMapM (ctKey (toWeights r0)) (dedupPairs pairs) = .ok keyedC) (hdc : (keyedC.map (·.2)).Nodup)
    (hka : exMapM (keyOf (toWeights r0)) ((labels.map (·.1)).filter fun n => !tet.contains n) = .ok keyedA)
    (hda : (keyedA.map (·.2)).Nodup) :
    chiralFull h single dbl mol labels = .ranks r0 := by
  unfold chiralFull
  simp only [hr, ht, hT, hp]
  split
  · rfl
  · simp only [diffFull, passFull_distinct T (toWeights r0) _ _ _ keyedT keyedC keyedA hkt hdt hkc hdc hka hda,
      isEmpty_nil, if_true]
    rfl

/-! ## groups of odd size change nothing (root cause of known finding 3) -/

theorem processBlock_odd {α β : Type} (test sign : α → Except PyErr Bool) (atomOf : α → Nat) (setKey : α → β)
    (w : Weights) (st : BlockState β) (g : List α) (hg : g.length % 2 = 1) :
    processBlock test sign atomOf setKey w st g = .ok st := by
  unfold processBlock
  simp [hg]

theorem processBlocks_odd {α β : Type} (test sign : α → Except PyErr Bool) (atomOf : α → Nat) (setKey : α → β)
    (w : Weights) : ∀ (gs : List (List α)) (st : BlockState β), (∀ g ∈ gs, g.length % 2 = 1) →
      processBlocks test sign atomOf setKey w st gs = .ok st := by
  intro gs
  induction gs with
  | nil => intro st _; rfl
  | cons g tl ih =>
    intro st hg
    simp only [processBlocks, processBlock_odd test sign atomOf setKey w st g (hg g mem_cons_self)]
    exact ih st (fun g' hg' => hg g' (mem_cons_of_mem _ hg'))

theorem processGroup_odd (tetra : List (Nat × List Nat)) (labels : List (Nat × Bool)) (w : Weights)
    (st : PassState) (g : List Nat) (hg : g.length % 2 = 1) : processGroup tetra labels w st g = .ok st := by
  unfold processGroup
  simp [hg]

theorem processGroups_odd (tetra : List (Nat × List Nat)) (labels : List (Nat × Bool)) (w : Weights) :
    ∀ (gs : List (List Nat)) (st : PassState), (∀ g ∈ gs, g.length % 2 = 1) →
      processGroups tetra labels w st gs = .ok st := by
  intro gs
  induction gs with
  | nil => intro st _; rfl
  | cons g tl ih =>
    intro st hg
    simp only [processGroups, processGroup_odd tetra labels w st g (hg g mem_cons_self)]
    exact ih st (fun g' hg' => hg g' (mem_cons_of_mem _ hg'))

theorem passFull_odd (T : Tables) (w : Weights) (St : List Nat) (Sc : List (Nat × Nat)) (Sa : List Nat)
    (keyedT : List (Nat × Int)) (keyedC : List (CTItem × Int)) (keyedA : List (Nat × Int))
    (hkt : exMapM (keyOf w) St = .ok keyedT) (hdt : ∀ g ∈ groupsBy keyedT, g.length % 2 = 1)
    (hkc : exMapM (ctKey w) Sc = .ok keyedC) (hdc : ∀ g ∈ groupsBy keyedC, g.length % 2 = 1)
    (hka : exMapM (keyOf w) Sa = .ok keyedA) (hda : ∀ g ∈ groupsBy keyedA, g.length % 2 = 1) :
    passFull T w St Sc Sa = .ok ⟨[], [], [], [], false⟩ := by
  have h1 : pass T.tetra T.labels w St = .ok ⟨[], [], []⟩ := by
    unfold pass
    rw [groupsOf_eq_groupsBy w St keyedT hkt]
    exact processGroups_odd _ _ _ _ _ hdt
  have h2 : passCT T w Sc = .ok ⟨[], [], false⟩ := by
    unfold passCT
    rw [hkc]
    exact processBlocks_odd _ _ _ _ _ _ _ hdc
  have h3 : passAL T w Sa = .ok ⟨[], [], false⟩ := by
    unfold passAL
    rw [hka]
    exact processBlocks_odd _ _ _ _ _ _ _ hda
  unfold passFull
  rw [h1, h2, h3]
  rfl

/-- if every group of labelled elements with one grouping key has an odd number of members, `_chiral_morgan = atoms_order` -/
theorem chiralFull_odd (h : TupleHash) (single dbl : Nat → Bool) (mol : MolView) (labels : List (Nat × Bool))
    (r0 : List (Nat × Nat)) (tet : List Nat) (T : Tables) (terminals : List (Nat × (Nat × Nat)))
    (pairs : List (Nat × Nat))
    (keyedT : List (Nat × Int)) (keyedC : List (CTItem × Int)) (keyedA : List (Nat × Int))
    (hr : atomsOrder h mol = some r0) (ht : tetrahedrons mol = .ok tet)
    (hT : tablesOf single dbl mol labels = .ok (T, terminals))
    (hp : exMapM (getKey terminals) (stereoBondAtoms mol.bonds) = .ok pairs)
    (hkt : exMapM (keyOf (toWeights r0)) ((labels.map (·.1)).filter tet.contains) = .ok keyedT)
    (hdt : ∀ g ∈ groupsBy keyedT, g.length % 2 = 1)
    (hkc : exMapM (ctKey (toWeights r0)) (dedupPairs pairs) = .ok keyedC) (hdc : ∀ g ∈ groupsBy keyedC, g.length % 2 = 1)
    (hka : exMapM (keyOf (toWeights r0)) ((labels.map (·.1)).filter fun n => !tet.contains n) = .ok keyedA)
    (hda : ∀ g ∈ groupsBy keyedA, g.length % 2 = 1) :
    chiralFull h single dbl mol labels = .ranks r0 := by
  unfold chiralFull
  simp only [hr, ht, hT, hp]
  split
  · rfl
  · simp only [diffFull, passFull_odd T (toWeights r0) _ _ _ keyedT keyedC keyedA hkt hdt hkc hdc hka hda,
      isEmpty_nil, if_true]
    rfl

/-! ## the full model extends the tetrahedral-only model -/

theorem passCT_nil (T : Tables) (w : Weights) : passCT T w [] = .ok ⟨[], [], false⟩ := rfl
theorem passAL_nil (T : Tables) (w : Weights) : passAL T w [] = .ok ⟨[], [], false⟩ := rfl

def ofDiffResult : DiffResult → R (List (Nat × Nat) × Bool)
  | .done morgan _ groups => .ok (morgan, !groups.isEmpty)
  | .err e => .error (.err e)
  | .fuelOut => .error .fuelOut

theorem diffFull_tetra_only (h : TupleHash) (bonds : IntAdj) (T : Tables) :
    ∀ (fuel : Nat) (morgan : List (Nat × Nat)) (St : List Nat),
      diffFull h bonds T fuel morgan St [] [] = ofDiffResult (differentiation h bonds T.tetra T.labels fuel morgan St) := by
  intro fuel
  induction fuel with
  | zero => intro _ _; rfl
  | succ fuel ih =>
    intro morgan St
    simp only [diffFull, differentiation, passFull, passCT_nil, passAL_nil]
    cases pass T.tetra T.labels (toWeights morgan) St with
    | error e => rfl
    | ok pt =>
      simp only [append_nil, filter_nil]
      split
      · simp [ofDiffResult]
      · cases Morgan.morgan h (applyUpdate (toWeights morgan) pt.update) bonds with
        | none => rfl
        | some morgan' => exact ih morgan' _

theorem tablesOf_fields (single dbl : Nat → Bool) (mol : MolView) (labels : List (Nat × Bool)) (T : Tables)
    (terminals : List (Nat × (Nat × Nat))) (hT : tablesOf single dbl mol labels = .ok (T, terminals)) :
    stereogenicTetrahedrons single mol = .ok T.tetra ∧ T.labels = labels := by
  unfold tablesOf at hT
  split at hT
  · simp at hT
  · split at hT
    · simp at hT
    · split at hT
      · simp at hT
      · rename_i tetra htet
        simp only [Except.ok.injEq, Prod.mk.injEq] at hT
        obtain ⟨hT, _⟩ := hT
        subst hT
        exact ⟨htet, rfl⟩

/-- wherever the tetrahedral-only model gives an answer, the full model gives the same answer
    (given that the double-bond tables of the molecule can be computed, which the old model never looks at) -/
theorem chiralFull_extends (h : TupleHash) (single dbl : Nat → Bool) (mol : MolView) (labels : List (Nat × Bool))
    (T : Tables) (terminals : List (Nat × (Nat × Nat)))
    (hT : tablesOf single dbl mol labels = .ok (T, terminals))
    (hm : chiralMorgan h single mol labels ≠ .notModelled) :
    chiralFull h single dbl mol labels = chiralMorgan h single mol labels := by
  obtain ⟨htet, hlab⟩ := tablesOf_fields single dbl mol labels T terminals hT
  unfold chiralMorgan at hm ⊢
  unfold chiralFull
  by_cases hcond : (labels.isEmpty && (stereoBondAtoms mol.bonds).isEmpty) = true
  · rw [if_pos hcond, if_pos hcond]; cases atomsOrder h mol <;> rfl
  · rw [if_neg hcond] at hm ⊢
    rw [if_neg hcond]
    by_cases hb : (!(stereoBondAtoms mol.bonds).isEmpty) = true
    · rw [if_pos hb] at hm; exact absurd rfl hm
    · rw [if_neg hb] at hm ⊢
      have hb' : stereoBondAtoms mol.bonds = [] := by
        cases hs : stereoBondAtoms mol.bonds with
        | nil => rfl
        | cons a tl => simp [hs] at hb
      cases hr : atomsOrder h mol with
      | none => rfl
      | some r0 =>
        simp only [hr] at hm ⊢
        cases ht : tetrahedrons mol with
        | error e => rfl
        | ok tet =>
          simp only [ht] at hm ⊢
          split at hm
          · exact absurd rfl hm
          · rename_i hlen
            rw [if_neg hlen]
            have hall : ∀ n ∈ labels.map (·.1), tet.contains n = true := by
              have : ((labels.map (·.1)).filter tet.contains).length = (labels.map (·.1)).length := by
                simpa using hlen
              exact length_filter_eq_length_iff.mp this
            have hSa : ((labels.map (·.1)).filter fun n => !tet.contains n) = [] := by
              apply filter_eq_nil_iff.mpr
              intro n hn
              have := hall n hn
              simpa using this
            simp only [hT, hb', hSa, exMapM, pure, Except.pure, dedupPairs, length_nil, Nat.add_zero, htet,
              diffFull_tetra_only, hlab]
            cases differentiation h (intAdjacency mol.bonds) T.tetra labels
                (((labels.map (·.1)).filter tet.contains).length + 1) r0 ((labels.map (·.1)).filter tet.contains) with
            | err e => rfl
            | fuelOut => rfl
            | done morgan S groups =>
              simp only [ofDiffResult]
              cases groups <;> rfl

end ChythonModel.Proofs.C01
