import ChythonModel.Model.Stereo
import ChythonModel.Model.StereoParse
import ChythonModel.Spec.Parity
import Mathlib.Data.List.Perm.Basic
/-!
# Helper lemmas for C12: enumeration of the arrangements of 3 / 4 distinct atoms, position maps
-/
set_option linter.unusedSimpArgs false
namespace ChythonModel.Proofs.C12
open ChythonModel.Gen ChythonModel.Spec ChythonModel.Model.Stereo

/-- all arrangements of a list, by choosing the head among the members (fuel = length) -/
def permsN : Nat → List Nat → List (List Nat)
  | 0, _ => [[]]
  | n+1, l => l.flatMap fun x => (permsN n (l.erase x)).map (x :: ·)

theorem mem_permsN : ∀ (env l : List Nat), env.Perm l → env ∈ permsN l.length l := by
  intro env
  induction env with
  | nil => intro l h; have := h.nil_eq; subst this; simp [permsN]
  | cons w e ih =>
    intro l h
    obtain ⟨hw, he⟩ := List.cons_perm_iff_perm_erase.mp h
    have hl : l.length = (l.erase w).length + 1 := by
      rw [List.length_erase_of_mem hw]; have := List.length_pos_of_mem hw; omega
    rw [hl]
    simp only [permsN, List.mem_flatMap, List.mem_map]
    exact ⟨w, hw, e, ih _ he, rfl⟩

/-- the 12 disequalities of four pairwise distinct atoms -/
structure Distinct4 (a b c d : Nat) : Prop where
  ab : a ≠ b
  ac : a ≠ c
  ad : a ≠ d
  bc : b ≠ c
  bd : b ≠ d
  cd : c ≠ d
  ba : b ≠ a
  ca : c ≠ a
  da : d ≠ a
  cb : c ≠ b
  db : d ≠ b
  dc : d ≠ c

theorem distinct4_of_nodup {a b c d : Nat} (hnd : [a, b, c, d].Nodup) : Distinct4 a b c d := by
  simp only [List.nodup_cons, List.mem_cons, List.not_mem_nil, not_or, or_false, List.nodup_nil, and_true,
    not_false_eq_true] at hnd
  obtain ⟨⟨hab, hac, had⟩, ⟨hbc, hbd⟩, hcd⟩ := hnd
  exact ⟨hab, hac, had, hbc, hbd, hcd, Ne.symm hab, Ne.symm hac, Ne.symm had, Ne.symm hbc, Ne.symm hbd, Ne.symm hcd⟩

theorem perm4_cases {a b c d : Nat} (hnd : [a, b, c, d].Nodup) {env : List Nat} (hp : env.Perm [a, b, c, d]) :
    env = [a, b, c, d] ∨ env = [a, b, d, c] ∨ env = [a, c, b, d] ∨ env = [a, c, d, b] ∨ env = [a, d, b, c] ∨
    env = [a, d, c, b] ∨ env = [b, a, c, d] ∨ env = [b, a, d, c] ∨ env = [b, c, a, d] ∨ env = [b, c, d, a] ∨
    env = [b, d, a, c] ∨ env = [b, d, c, a] ∨ env = [c, a, b, d] ∨ env = [c, a, d, b] ∨ env = [c, b, a, d] ∨
    env = [c, b, d, a] ∨ env = [c, d, a, b] ∨ env = [c, d, b, a] ∨ env = [d, a, b, c] ∨ env = [d, a, c, b] ∨
    env = [d, b, a, c] ∨ env = [d, b, c, a] ∨ env = [d, c, a, b] ∨ env = [d, c, b, a] := by
  have h := mem_permsN env _ hp
  have D := distinct4_of_nodup hnd
  simpa [permsN, List.erase_cons, D.ab, D.ac, D.ad, D.bc, D.bd, D.cd, D.ba, D.ca, D.da, D.cb, D.db, D.dc] using h

theorem perm3_cases {a b c : Nat} (hnd : [a, b, c].Nodup) {env : List Nat} (hp : env.Perm [a, b, c]) :
    env = [a, b, c] ∨ env = [a, c, b] ∨ env = [b, a, c] ∨ env = [b, c, a] ∨ env = [c, a, b] ∨ env = [c, b, a] := by
  have h := mem_permsN env _ hp
  simp only [List.nodup_cons, List.mem_cons, List.not_mem_nil, not_or, or_false, List.nodup_nil, and_true,
    not_false_eq_true] at hnd
  obtain ⟨⟨hab, hac⟩, hbc⟩ := hnd
  have hba := Ne.symm hab; have hca := Ne.symm hac; have hcb := Ne.symm hbc
  simpa [permsN, List.erase_cons, hab, hac, hbc, hba, hca, hcb] using h

/-- the 24 index lists -/
def allPerms4 : List (List Nat) := permsN 4 [0, 1, 2, 3]

/-- position lists of an arrangement of four distinct atoms are exactly the 24 index permutations -/
theorem idx_mem_allPerms4 {a b c d : Nat} (hnd : [a, b, c, d].Nodup) {env : List Nat} (hp : env.Perm [a, b, c, d]) :
    env.map (pos [a, b, c, d]) ∈ allPerms4 := by
  have D := distinct4_of_nodup hnd
  rcases perm4_cases hnd hp with h|h|h|h|h|h|h|h|h|h|h|h|h|h|h|h|h|h|h|h|h|h|h|h <;> subst h <;>
    simp [pos, D.ab, D.ac, D.ad, D.bc, D.bd, D.cd, D.ba, D.ca, D.da, D.cb, D.db, D.dc] <;> decide

/-- `pos` is injective on members -/
theorem pos_inj : ∀ (l : List Nat) (x y : Nat), x ∈ l → y ∈ l → pos l x = pos l y → x = y := by
  intro l
  induction l with
  | nil => intro x y hx; simp at hx
  | cons z zs ih =>
    intro x y hx hy h
    simp only [pos] at h
    by_cases hzx : z = x <;> by_cases hzy : z = y
    · rw [← hzx, ← hzy]
    · subst hzx; rw [if_pos rfl, if_neg hzy] at h; omega
    · subst hzy; rw [if_pos rfl, if_neg hzx] at h; omega
    · simp only [hzx, hzy, if_false, Nat.add_right_cancel_iff] at h
      have hx' : x ∈ zs := by
        rcases List.mem_cons.mp hx with h1 | h1
        · exact absurd h1.symm hzx
        · exact h1
      have hy' : y ∈ zs := by
        rcases List.mem_cons.mp hy with h1 | h1
        · exact absurd h1.symm hzy
        · exact h1
      exact ih x y hx' hy' h

/-- renaming by a map that is injective on the atoms involved does not change positions -/
theorem pos_map_inj (f : Nat → Nat) : ∀ (l : List Nat) (x : Nat), (∀ y ∈ l, f y = f x → y = x) →
    pos (l.map f) (f x) = pos l x := by
  intro l
  induction l with
  | nil => intro x _; rfl
  | cons z zs ih =>
    intro x hinj
    simp only [List.map_cons, pos]
    by_cases hzx : z = x
    · simp [hzx]
    · have : f z ≠ f x := fun h => hzx (hinj z (List.mem_cons_self) h)
      simp only [hzx, this, if_false]
      rw [ih x (fun y hy => hinj y (List.mem_cons_of_mem _ hy))]

/-- composition: positions of `e2` relative to `e1` = positions of the index list of `e2` relative to the index list of `e1` -/
theorem idx_comp (o e1 e2 : List Nat) (h1 : ∀ x ∈ e1, x ∈ o) (h2 : ∀ x ∈ e2, x ∈ o) :
    e2.map (pos e1) = (e2.map (pos o)).map (pos (e1.map (pos o))) := by
  rw [List.map_map]
  apply List.map_congr_left
  intro x hx
  simp only [Function.comp]
  exact (pos_map_inj (pos o) e1 x (fun y hy h => pos_inj o y x (h1 y hy) (h2 x hx) h)).symm

/-- parity is a homomorphism on the 24 index permutations (kernel-evaluated, 576 cases) -/
theorem oddPerm_comp : ∀ p1 ∈ allPerms4, ∀ p2 ∈ allPerms4,
    (oddPerm p1 ^^ oddPerm p2) = oddPerm (p2.map (pos p1)) := by decide +kernel

/-! ### `tuple.index` -/

theorem index?_none_iff : ∀ (l : List Nat) (x : Nat), index? l x = none ↔ x ∉ l := by
  intro l
  induction l with
  | nil => intro x; simp [index?]
  | cons y ys ih =>
    intro x
    by_cases h : y = x
    · simp [index?, h]
    · have h' : ¬ x = y := fun e => h e.symm
      simp [index?, h, h', ih x]

theorem index?_lt : ∀ (l : List Nat) (x i : Nat), index? l x = some i → i < l.length := by
  intro l
  induction l with
  | nil => intro x i h; simp [index?] at h
  | cons y ys ih =>
    intro x i h
    by_cases hy : y = x
    · simp [index?, hy] at h; subst h; simp
    · simp only [index?, hy, if_false, Option.map_eq_some_iff] at h
      obtain ⟨j, hj, rfl⟩ := h
      have := ih x j hj
      simp; omega

theorem index?_inj : ∀ (l : List Nat) (x y i : Nat), index? l x = some i → index? l y = some i → x = y := by
  intro l
  induction l with
  | nil => intro x y i h; simp [index?] at h
  | cons z zs ih =>
    intro x y i hx hy
    by_cases hzx : z = x <;> by_cases hzy : z = y
    · rw [← hzx, ← hzy]
    · subst hzx
      rw [index?, if_pos rfl] at hx
      rw [index?, if_neg hzy, Option.map_eq_some_iff] at hy
      obtain ⟨j, _, hj⟩ := hy
      injection hx with hx; omega
    · subst hzy
      rw [index?, if_pos rfl] at hy
      rw [index?, if_neg hzx, Option.map_eq_some_iff] at hx
      obtain ⟨j, _, hj⟩ := hx
      injection hy with hy; omega
    · simp only [index?, hzx, hzy, if_false, Option.map_eq_some_iff] at hx hy
      obtain ⟨j, hj, rfl⟩ := hx
      obtain ⟨k, hk, hk'⟩ := hy
      have : k = j := by omega
      subst this
      exact ih x y k hj hk

/-! ### dict / dict-of-dict assignment (parser `stereo_bonds`) -/

section
open ChythonModel.Model.StereoParse

theorem aget_aset {κ ν} [DecidableEq κ] (l : List (κ × ν)) (a : κ) (v : ν) (c : κ) :
    aget (aset l a v) c = if c = a then some v else aget l c := by
  induction l with
  | nil => simp [aset, aget]
  | cons p tl ih =>
    obtain ⟨k, w⟩ := p
    by_cases hk : k = a
    · subst hk
      by_cases hc : c = k <;> simp [aset, aget, hc]
    · by_cases hc : c = k
      · subst hc
        have : ¬ c = a := hk
        simp [aset, aget, hk, this]
      · simp [aset, aget, hk, hc, ih]

theorem sbGet_sbSet (sb : SB) (a b : Nat) (v : Bool) (c d : Nat) :
    sbGet (sbSet sb a b v) c d = if c = a ∧ d = b then some v else sbGet sb c d := by
  unfold sbGet sbSet
  rw [aget_aset]
  by_cases hc : c = a
  · subst hc
    simp only [if_true, Option.bind_some, aget_aset, true_and]
    by_cases hd : d = b
    · simp [hd]
    · simp only [hd, if_false]
      cases aget sb c <;> simp [aget]
  · simp [hc]

/-- writing both directions of one bond: `sb[x][y] = v; sb[y][x] = w` -/
theorem sbGet_pair (sb : SB) (x y : Nat) (v w : Bool) (h : x ≠ y) :
    sbGet (sbSet (sbSet sb x y v) y x w) x y = some v ∧ sbGet (sbSet (sbSet sb x y v) y x w) y x = some w := by
  have h' : y ≠ x := Ne.symm h
  constructor
  · rw [sbGet_sbSet, sbGet_sbSet]; simp [h, h']
  · rw [sbGet_sbSet]; simp

end

end ChythonModel.Proofs.C12
