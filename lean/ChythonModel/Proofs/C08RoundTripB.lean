import ChythonModel.Model.SmartsParse
import ChythonModel.Spec.SmartsDoc
namespace ChythonModel.Proofs.C08
open ChythonModel.Model.Query ChythonModel.Spec.Query
theorem rt_single : gridSingleFamily.all (fun d => DocWF d && (smartsModel ('[' :: printDoc d ++ [']']) [] == .ok ⟨[(numberOf d, denote d)], []⟩)) = true := by decide +kernel
end ChythonModel.Proofs.C08
