import ChythonModel.Model.C14Charges
import ChythonModel.Proofs.C14Hydrogens
/-!
# C14 — helper lemmas for `standardize_charges` (`Model/C14Charges.lean`): only `_charge` is ever written
-/
namespace ChythonModel.Proofs.C14
open ChythonModel.Model ChythonModel.Model.Std ChythonModel.Gen.Rules

/-- the molecule with every formal charge erased: everything `standardize_charges` must leave alone -/
def uncharged (m : Mol) : Mol := { m with atoms := m.atoms.map fun p => (p.1, { p.2 with charge := 0 }) }

theorem uncharged_updAtom_charge (m : Mol) (n : Nat) (c : Int) :
    uncharged (updAtom m n fun a => { a with charge := c }) = uncharged m := by
  unfold uncharged updAtom
  simp only [List.map_map]
  congr 1
  apply List.map_congr_left
  intro p _
  simp only [Function.comp, setAtomEntry]
  split <;> rfl

theorem uncharged_setCharge {m m' : Mol} {n : Nat} {c : Int} (h : setCharge m n c = some m') : uncharged m' = uncharged m := by
  unfold setCharge at h
  split at h
  · simp at h
  · simp only [Option.some.injEq] at h; subst h; exact uncharged_updAtom_charge m n c

theorem setCharge_ids {m m' : Mol} {n : Nat} {c : Int} (h : setCharge m n c = some m') : m'.ids = m.ids := by
  unfold setCharge at h
  split at h
  · simp at h
  · simp only [Option.some.injEq] at h; subst h; exact updAtom_ids _ _ _

/-- lookup after one entry was rewritten -/
theorem lookup_map_setAtomEntry (l : List (Nat × Atom)) (n x : Nat) (f : Atom → Atom) :
    (l.map (setAtomEntry n f)).lookup x = (l.lookup x).map fun a => if x == n then f a else a := by
  induction l with
  | nil => rfl
  | cons p tl ih =>
    obtain ⟨k, b⟩ := p
    simp only [List.map_cons, setAtomEntry]
    by_cases hk : k = n
    · subst hk
      simp only [beq_self_eq_true, if_true]
      by_cases hx : x = k
      · subst hx; simp [List.lookup]
      · have : (x == k) = false := beq_false_of_ne hx
        simp only [List.lookup, this, ih]
    · have hkn : (k == n) = false := beq_false_of_ne hk
      simp only [hkn, Bool.false_eq_true, if_false]
      by_cases hx : x = k
      · subst hx; simp [List.lookup, hkn]
      · have : (x == k) = false := beq_false_of_ne hx
        simp only [List.lookup, this, ih]

theorem atom?_updAtom (m : Mol) (n x : Nat) (f : Atom → Atom) :
    (updAtom m n f).atom? x = (m.atom? x).map fun a => if x == n then f a else a := by
  unfold updAtom Mol.atom?; exact lookup_map_setAtomEntry _ _ _ _

/-! ## every loop of `standardize_charges` preserves `uncharged` -/

theorem chargeBody_uncharged (morgan fix : Bool) (st : CState) (mp : Iso.Dict) (st' : CState)
    (h : chargeBody morgan fix st mp = some st') : uncharged st'.mol = uncharged st.mol := by
  unfold chargeBody at h
  simp only at h
  split at h
  · simp only [Option.some.injEq] at h; subst h; rfl
  · split at h
    · rename_i a1 a2 _ _
      split at h
      · simp at h
      · simp only [Option.some.injEq] at h; subst h; rfl
      · split at h
        · simp at h
        · simp only [Option.some.injEq] at h; subst h; rfl
        · split at h
          · split at h
            · simp at h
            · split at h
              · simp at h
              · rename_i m1 h1
                split at h
                · simp only [Option.some.injEq] at h; subst h; exact uncharged_setCharge h1
                · obtain ⟨m2, h2, rfl⟩ := Option.map_eq_some_iff.mp h
                  exact (uncharged_setCharge h2).trans (uncharged_setCharge h1)
          · split at h
            · simp at h
            · rename_i m1 h1
              split at h
              · simp only [Option.some.injEq] at h; subst h; exact uncharged_setCharge h1
              · obtain ⟨m2, h2, rfl⟩ := Option.map_eq_some_iff.mp h
                exact (uncharged_setCharge h2).trans (uncharged_setCharge h1)
    · simp at h

theorem drainC_uncharged (body : CState → Iso.Dict → Option CState)
    (hb : ∀ st mp st', body st mp = some st' → uncharged st'.mol = uncharged st.mol) (g : GenCtx) :
    ∀ (fuel : Nat) (st : CState) (ms : MState) (st' : CState), drainC body g fuel st ms = some st' →
      uncharged st'.mol = uncharged st.mol := by
  intro fuel
  induction fuel with
  | zero => intro st ms st' h; simp [drainC] at h
  | succ k ih =>
    intro st ms st' h
    rw [drainC] at h
    split at h
    · simp at h
    · simp only [Option.some.injEq] at h; subst h; rfl
    · split at h
      · simp at h
      · rename_i st1 h1
        exact (ih _ _ _ h).trans (hb _ _ _ h1)

theorem loopC_uncharged (body : CState → Iso.Dict → Option CState)
    (hb : ∀ st mp st', body st mp = some st' → uncharged st'.mol = uncharged st.mol)
    (p : Pattern) (lq : List Iso.Step) (cl : Iso.Closures) (L : Labels) :
    ∀ (comps : List (List Nat)) (st st' : CState), loopC body p lq cl L comps st = some st' →
      uncharged st'.mol = uncharged st.mol := by
  intro comps
  induction comps with
  | nil => intro st st' h; simp only [loopC, Option.some.injEq] at h; subst h; rfl
  | cons cand rest ih =>
    intro st st' h
    unfold loopC at h
    split at h
    · simp at h
    · simp only at h
      split at h
      · simp at h
      · rename_i st1 h1
        exact (ih _ _ h).trans (drainC_uncharged body hb _ _ _ _ _ h1)

theorem runChargeRule_uncharged (morgan : Bool) (r : ChargeRule) (L : Labels) (comps : List (List Nat)) (st st' : CState)
    (h : runChargeRule morgan r L comps st = some st') : uncharged st'.mol = uncharged st.mol := by
  unfold runChargeRule at h
  split at h
  · exact loopC_uncharged _ (chargeBody_uncharged morgan r.fix) _ _ _ _ _ _ _ h
  · simp at h

theorem runChargeTable_uncharged (morgan : Bool) (L : Labels) (comps : List (List Nat)) :
    ∀ (rules : List ChargeRule) (st st' : CState), runChargeTable morgan L comps rules st = some st' →
      uncharged st'.mol = uncharged st.mol := by
  intro rules
  induction rules with
  | nil => intro st st' h; simp only [runChargeTable, Option.some.injEq] at h; subst h; rfl
  | cons r rest ih =>
    intro st st' h
    rw [runChargeTable] at h
    split at h
    · simp at h
    · rename_i st1 h1
      exact (ih _ _ h).trans (runChargeRule_uncharged morgan r L comps _ _ h1)

theorem matchPhase_uncharged (m : Mol) (L : Labels) (comps : List (List Nat)) (st : CState)
    (h : matchPhase m L comps = some st) : uncharged st.mol = uncharged m := by
  unfold matchPhase at h
  obtain ⟨st1, h1, h2⟩ := Option.bind_eq_some_iff.mp h
  exact (runChargeTable_uncharged true L comps _ _ _ h2).trans (runChargeTable_uncharged false L comps _ _ _ h1)

theorem applyPairs_uncharged (order : List (Nat × Nat)) :
    ∀ (pairs : List (Nat × Nat × Bool)) (m : Mol) (ch : List Nat) (m' : Mol) (ch' : List Nat),
      applyPairs order pairs m ch = some (m', ch') → uncharged m' = uncharged m := by
  intro pairs
  induction pairs with
  | nil => intro m ch m' ch' h; simp only [applyPairs, Option.some.injEq, Prod.mk.injEq] at h; rw [h.1]
  | cons p rest ih =>
    intro m ch m' ch' h
    obtain ⟨a1, a2, fix⟩ := p
    rw [applyPairs] at h
    split at h
    · split at h
      · split at h
        · simp at h
        · rename_i m1 h1
          exact (ih _ _ _ _ h).trans (uncharged_setCharge h1)
      · split at h
        · simp at h
        · rename_i m1 h1
          exact (ih _ _ _ _ h).trans (uncharged_setCharge h1)
    · simp at h

theorem ferroceneScan_uncharged (L : Labels) :
    ∀ (rings : List (List Nat)) (m : Mol) (ch : List Nat) (fcr : List (List Nat)) (m' : Mol) (ch' : List Nat) (fcr' : List (List Nat)),
      ferroceneScan L rings m ch fcr = some (m', ch', fcr') → uncharged m' = uncharged m := by
  intro rings
  induction rings with
  | nil => intro m ch fcr m' ch' fcr' h; simp only [ferroceneScan, Option.some.injEq, Prod.mk.injEq] at h; rw [h.1]
  | cons r rest ih =>
    intro m ch fcr m' ch' fcr' h
    rw [ferroceneScan] at h
    split at h
    · simp at h
    · exact ih _ _ _ _ _ _ h
    · split at h
      · simp at h
      · rename_i m1 h1
        exact (ih _ _ _ _ _ _ h).trans (uncharged_setCharge h1)

theorem ferroceneFix_uncharged (order : List (Nat × Nat)) :
    ∀ (fcr : List (List Nat)) (m : Mol) (ch : List Nat) (m' : Mol) (ch' : List Nat),
      ferroceneFix order fcr m ch = some (m', ch') → uncharged m' = uncharged m := by
  intro fcr
  induction fcr with
  | nil => intro m ch m' ch' h; simp only [ferroceneFix, Option.some.injEq, Prod.mk.injEq] at h; rw [h.1]
  | cons ca rest ih =>
    intro m ch m' ch' h
    rw [ferroceneFix] at h
    split at h
    · simp at h
    · split at h
      · simp at h
      · rename_i m1 h1
        exact (ih _ _ _ _ h).trans (uncharged_setCharge h1)

theorem standardizeCharges_uncharged (m : Mol) (L : Labels) (comps sssr : List (List Nat)) (orders : List (List (Nat × Nat)))
    (o : Mol) (ch : List Nat) (h : standardizeCharges m L comps sssr orders = some (.done o ch)) :
    uncharged o = uncharged m := by
  unfold standardizeCharges at h
  split at h
  · simp at h
  · rename_i st hst
    have h0 := matchPhase_uncharged m L comps st hst
    simp only at h
    split at h
    · simp at h
    · simp at h
    · rename_i m1 ch1 os hap
      have h1 : uncharged m1 = uncharged st.mol := by
        split at hap
        · simp only [Option.some.injEq, Prod.mk.injEq] at hap; rw [← hap.1]
        · simp at hap
        · obtain ⟨⟨m', c'⟩, hp, he⟩ := Option.map_eq_some_iff.mp hap
          simp only [Option.some.injEq, Prod.mk.injEq] at he
          rw [← he.1]; exact applyPairs_uncharged _ _ _ _ _ _ hp
      split at h
      · simp at h
      · rename_i m2 ch2 fcr hsc
        have h2 := ferroceneScan_uncharged L sssr m1 ch1 [] m2 ch2 fcr hsc
        split at h
        · simp only [Option.some.injEq, COut.done.injEq] at h
          rw [← h.1]; exact h2.trans (h1.trans h0)
        · simp at h
        · obtain ⟨⟨m3, c3⟩, hf, he⟩ := Option.map_eq_some_iff.mp h
          simp only [COut.done.injEq] at he
          rw [← he.1]; exact (ferroceneFix_uncharged _ _ _ _ _ _ hf).trans (h2.trans (h1.trans h0))

/-! ## what `uncharged` determines -/

theorem adj_of_uncharged {m m' : Mol} (h : uncharged m' = uncharged m) : m'.adj = m.adj := by
  have := congrArg Mol.adj h; simpa [uncharged] using this

theorem skeleton_of_uncharged {m m' : Mol} (h : uncharged m' = uncharged m) : skeleton m' = skeleton m := by
  have := congrArg (fun x => x.atoms.map fun p => (p.1, p.2.z, p.2.isotope)) h
  simp only [uncharged, List.map_map] at this
  exact this

theorem implSum_of_uncharged {m m' : Mol} (h : uncharged m' = uncharged m) : implSum m' = implSum m := by
  have := congrArg (fun x => (x.atoms.map fun p => ((p.2.implH.getD 0 : Nat) : Int)).sum) h
  simp only [uncharged, List.map_map] at this
  exact this

/-- everything but the charge, per atom -/
theorem atomView_of_uncharged {m m' : Mol} (h : uncharged m' = uncharged m) :
    m'.atoms.map (fun p => (p.1, p.2.z, p.2.isotope, p.2.radical, p.2.implH, p.2.stereo)) =
    m.atoms.map (fun p => (p.1, p.2.z, p.2.isotope, p.2.radical, p.2.implH, p.2.stereo)) := by
  have := congrArg (fun x => x.atoms.map fun p => (p.1, p.2.z, p.2.isotope, p.2.radical, p.2.implH, p.2.stereo)) h
  simp only [uncharged, List.map_map] at this
  exact this

end ChythonModel.Proofs.C14
