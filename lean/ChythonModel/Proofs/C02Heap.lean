import ChythonModel.Model.C02RoundTrip
/-! # C02 — the closure-number allocator (`heappop` on first sight, delayed `heappush` on second) keeps open numbers distinct -/
namespace ChythonModel.Proofs.C02
open ChythonModel.Model ChythonModel.Model.SmilesWriter ChythonModel.Model.C02RT


/-! ## closure numbers -/

theorem mem_insertAsc {x k : Nat} {l : List Nat} : k ∈ insertAsc x l ↔ k = x ∨ k ∈ l := by
  induction l with
  | nil => simp [insertAsc]
  | cons y tl ih =>
    simp only [insertAsc]
    split
    · simp
    · simp [ih]; grind

theorem nodup_insertAsc {x : Nat} {l : List Nat} (hl : l.Nodup) (hx : x ∉ l) : (insertAsc x l).Nodup := by
  induction l with
  | nil => simp [insertAsc]
  | cons y tl ih =>
    simp only [insertAsc]
    split
    · exact List.nodup_cons.mpr ⟨hx, hl⟩
    · have hl' := List.nodup_cons.mp hl
      refine List.nodup_cons.mpr ⟨?_, ih hl'.2 (by simp at hx; exact hx.2)⟩
      rw [mem_insertAsc]; simp at hx; grind

theorem mem_pushAll {k : Nat} : ∀ {released heap : List Nat}, k ∈ pushAll heap released ↔ k ∈ heap ∨ k ∈ released := by
  intro released
  induction released with
  | nil => intro heap; simp [pushAll]
  | cons r tl ih =>
    intro heap
    have : pushAll heap (r :: tl) = pushAll (insertAsc r heap) tl := by simp [pushAll]
    rw [this, ih, mem_insertAsc]; simp; grind

theorem nodup_pushAll : ∀ {released heap : List Nat}, heap.Nodup → released.Nodup → (∀ k ∈ released, k ∉ heap) →
    (pushAll heap released).Nodup := by
  intro released
  induction released with
  | nil => intro heap h _ _; simpa [pushAll] using h
  | cons r tl ih =>
    intro heap hh hr hd
    have : pushAll heap (r :: tl) = pushAll (insertAsc r heap) tl := by simp [pushAll]
    rw [this]
    have hr' := List.nodup_cons.mp hr
    refine ih (nodup_insertAsc hh (hd r (by simp))) hr'.2 ?_
    intro k hk
    rw [mem_insertAsc]
    have := hd k (by simp [hk])
    grind

theorem lookup_append_of_some {α} (l : List (Nat × α)) (x : Nat × α) (c : Nat) (v : α) (h : l.lookup c = some v) :
    (l ++ [x]).lookup c = some v := by
  induction l with
  | nil => simp at h
  | cons y tl ih =>
    simp only [List.cons_append, List.lookup] at h ⊢
    split <;> simp_all

theorem lookup_append_of_none {α} (l : List (Nat × α)) (c' : Nat) (v : α) (c : Nat) (h : l.lookup c = none) :
    (l ++ [(c', v)]).lookup c = if c == c' then some v else none := by
  induction l with
  | nil => simp [List.lookup]; split <;> simp_all
  | cons y tl ih =>
    simp only [List.cons_append, List.lookup] at h ⊢
    split
    · simp_all
    · rename_i hne
      rw [hne] at h
      exact ih h

/-- every cycle in `S` holds a number that is not free; different cycles of `S` hold different numbers; no free number twice -/
structure Held (casted : List (Nat × Nat)) (heap : List Nat) (S : List Nat) : Prop where
  has : ∀ c ∈ S, ∃ k, casted.lookup c = some k ∧ k ∉ heap
  inj : ∀ c ∈ S, ∀ c' ∈ S, casted.lookup c = casted.lookup c' → c = c'
  nodup : heap.Nodup

/-- the numbers waiting for the delayed release are pairwise distinct and belong to cycles closed on this atom -/
def Pending (casted : List (Nat × Nat)) (released closed : List Nat) : Prop :=
  released.Nodup ∧ ∀ k ∈ released, ∃ c ∈ closed, casted.lookup c = some k

theorem castOne_held : ∀ (cyc : List Nat) (casted : List (Nat × Nat)) (heap released S closed : List Nat)
    (casted' : List (Nat × Nat)) (heap' released' : List Nat),
    Held casted heap S → Pending casted released closed → (∀ c ∈ closed, c ∈ S) →
    cyc.Nodup → (∀ c ∈ cyc, c ∉ closed) → (∀ c ∈ cyc, c ∈ S ∨ casted.lookup c = none) →
    castOne cyc casted heap released = .ok (casted', heap', released') →
    ∃ S' closed', Held casted' heap' S' ∧ Pending casted' released' closed' ∧ (∀ c ∈ closed', c ∈ S') ∧
      (∀ c, c ∈ S' ↔ c ∈ S ∨ c ∈ cyc) ∧ (∀ c, c ∈ closed' ↔ c ∈ closed ∨ (c ∈ cyc ∧ c ∈ S)) ∧
      (∀ c ∈ S, casted'.lookup c = casted.lookup c) := by
  intro cyc
  induction cyc with
  | nil =>
    intro casted heap released S closed casted' heap' released' hH hP hcl _ _ _ h
    simp only [castOne, Except.ok.injEq, Prod.mk.injEq] at h
    obtain ⟨rfl, rfl, rfl⟩ := h
    exact ⟨S, closed, hH, hP, hcl, by simp, by simp, by simp⟩
  | cons c cs ih =>
    intro casted heap released S closed casted' heap' released' hH hP hcl hnd hnc hfr h
    have hnd' := List.nodup_cons.mp hnd
    simp only [castOne] at h
    split at h
    · -- second sight: release
      rename_i num hnum
      have hcS : c ∈ S := by
        rcases hfr c (by simp) with h1 | h1
        · exact h1
        · rw [h1] at hnum; cases hnum
      have hnumrel : num ∉ released := by
        intro hin
        obtain ⟨c0, hc0, hl0⟩ := hP.2 num hin
        have := hH.inj c0 (hcl c0 hc0) c hcS (by rw [hl0, hnum])
        exact hnc c (by simp) (this ▸ hc0)
      have hP1 : Pending casted (released ++ [num]) (c :: closed) := by
        refine ⟨?_, ?_⟩
        · rw [List.nodup_append]
          refine ⟨hP.1, by simp, ?_⟩
          intro a ha b hb
          simp at hb; subst hb; intro hab; subst hab; exact hnumrel ha
        · intro k hk
          simp at hk
          rcases hk with hk | hk
          · obtain ⟨c0, hc0, hl0⟩ := hP.2 k hk
            exact ⟨c0, by simp [hc0], hl0⟩
          · exact ⟨c, by simp, by rw [hk]; exact hnum⟩
      obtain ⟨S', closed', h1, h2, h3, h4, h5, h6⟩ := ih casted heap (released ++ [num]) S (c :: closed) casted' heap' released'
        hH hP1 (by intro x hx; simp at hx; rcases hx with rfl | hx; exact hcS; exact hcl x hx) hnd'.2
        (by intro x hx; simp; exact ⟨by rintro rfl; exact hnd'.1 hx, hnc x (by simp [hx])⟩)
        (by intro x hx; exact hfr x (by simp [hx])) h
      refine ⟨S', closed', h1, h2, h3, ?_, ?_, h6⟩
      · intro x; rw [h4]; simp; grind
      · intro x; rw [h5]; simp; grind
    · -- first sight: take the smallest free number
      rename_i hnone
      split at h
      · cases h
      · rename_i hp heap1
        have hcS : c ∉ S := by
          intro hin
          obtain ⟨k, hk, _⟩ := hH.has c hin
          rw [hnone] at hk; cases hk
        have hnd2 := List.nodup_cons.mp hH.nodup
        have hlk : ∀ x ∈ S, (casted ++ [(c, hp)]).lookup x = casted.lookup x := by
          intro x hx
          obtain ⟨k, hk, _⟩ := hH.has x hx
          rw [hk]; exact lookup_append_of_some _ _ _ _ hk
        have hlc : (casted ++ [(c, hp)]).lookup c = some hp := by
          rw [lookup_append_of_none _ _ _ _ hnone]; simp
        have hH1 : Held (casted ++ [(c, hp)]) heap1 (c :: S) := by
          refine ⟨?_, ?_, hnd2.2⟩
          · intro x hx
            simp at hx
            rcases hx with rfl | hx
            · exact ⟨hp, hlc, hnd2.1⟩
            · obtain ⟨k, hk, hkn⟩ := hH.has x hx
              exact ⟨k, by rw [hlk x hx]; exact hk, by intro hin; exact hkn (by simp [hin])⟩
          · intro x hx y hy hxy
            simp at hx hy
            rcases hx with rfl | hx <;> rcases hy with rfl | hy
            · rfl
            · rw [hlc, hlk y hy] at hxy
              obtain ⟨k, hk, hkn⟩ := hH.has y hy
              rw [hk] at hxy; cases hxy; exact absurd (by simp) hkn
            · rw [hlc, hlk x hx] at hxy
              obtain ⟨k, hk, hkn⟩ := hH.has x hx
              rw [hk] at hxy; cases hxy; exact absurd (by simp) hkn
            · rw [hlk x hx, hlk y hy] at hxy; exact hH.inj x hx y hy hxy
        have hP1 : Pending (casted ++ [(c, hp)]) released closed := by
          refine ⟨hP.1, ?_⟩
          intro k hk
          obtain ⟨c0, hc0, hl0⟩ := hP.2 k hk
          exact ⟨c0, hc0, by rw [hlk c0 (hcl c0 hc0)]; exact hl0⟩
        obtain ⟨S', closed', h1, h2, h3, h4, h5, h6⟩ := ih (casted ++ [(c, hp)]) heap1 released (c :: S) closed casted' heap' released'
          hH1 hP1 (by intro x hx; simp; exact Or.inr (hcl x hx)) hnd'.2
          (by intro x hx; exact hnc x (by simp [hx]))
          (by
            intro x hx
            rcases hfr x (by simp [hx]) with h1 | h1
            · exact Or.inl (by simp [h1])
            · right
              rw [lookup_append_of_none _ _ _ _ h1]
              have : x ≠ c := by rintro rfl; exact hnd'.1 hx
              simp [this]) h
        refine ⟨S', closed', h1, h2, h3, ?_, ?_, ?_⟩
        · intro x; rw [h4]; simp; grind
        · intro x; rw [h5]; simp
          constructor
          · rintro (hx | ⟨hx, hx2⟩)
            · exact Or.inl hx
            · rcases hx2 with rfl | hx2
              · exact absurd hx hnd'.1
              · exact Or.inr ⟨Or.inr hx, hx2⟩
          · rintro (hx | ⟨hx, hx2⟩)
            · exact Or.inl hx
            · rcases hx with rfl | hx
              · exact absurd hx2 hcS
              · exact Or.inr ⟨hx, Or.inr hx2⟩
        · intro x hx
          rw [h6 x (by simp [hx]), hlk x hx]

theorem castOne_keys : ∀ (cyc : List Nat) (casted : List (Nat × Nat)) (heap released : List Nat)
    (casted' : List (Nat × Nat)) (heap' released' : List Nat),
    castOne cyc casted heap released = .ok (casted', heap', released') →
    ∀ c, casted'.lookup c ≠ none → casted.lookup c ≠ none ∨ c ∈ cyc := by
  intro cyc
  induction cyc with
  | nil =>
    intro casted heap released casted' heap' released' h c hc
    simp only [castOne, Except.ok.injEq, Prod.mk.injEq] at h
    obtain ⟨rfl, _, _⟩ := h
    exact Or.inl hc
  | cons x cs ih =>
    intro casted heap released casted' heap' released' h c hc
    simp only [castOne] at h
    split at h
    · rcases ih _ _ _ _ _ _ h c hc with h1 | h1
      · exact Or.inl h1
      · exact Or.inr (by simp [h1])
    · split at h
      · cases h
      · rename_i hp heap1
        rcases ih _ _ _ _ _ _ h c hc with h1 | h1
        · by_cases hcx : c = x
          · exact Or.inr (by simp [hcx])
          · left
            intro hn
            rw [lookup_append_of_none _ _ _ _ hn] at h1
            simp [hcx] at h1
        · exact Or.inr (by simp [h1])

theorem mem_toggle {opened cyc : List Nat} {c : Nat} :
    c ∈ toggle opened cyc ↔ (c ∈ opened ∧ c ∉ cyc) ∨ (c ∈ cyc ∧ c ∉ opened) := by
  simp [toggle]

theorem Held.congr {casted heap S S'} (h : Held casted heap S) (hs : ∀ c, c ∈ S' → c ∈ S) : Held casted heap S' :=
  ⟨fun c hc => h.has c (hs c hc), fun c hc c' hc' => h.inj c (hs c hc) c' (hs c' hc'), h.nodup⟩

/-- one closure atom: the open cycles keep pairwise distinct numbers none of which is free, and the numbers written on
    this atom are pairwise distinct (delayed release) -/
theorem castAtom_held (cyc : List Nat) (casted : List (Nat × Nat)) (heap opened : List Nat)
    (casted' : List (Nat × Nat)) (heap1 released : List Nat)
    (hH : Held casted heap opened) (hnd : cyc.Nodup) (hfr : ∀ c ∈ cyc, c ∈ opened ∨ casted.lookup c = none)
    (h : castOne cyc casted heap [] = .ok (casted', heap1, released)) :
    Held casted' (pushAll heap1 released) (toggle opened cyc) ∧
    (∀ c ∈ cyc, ∃ k, casted'.lookup c = some k) ∧
    (∀ c ∈ cyc, ∀ c' ∈ cyc, casted'.lookup c = casted'.lookup c' → c = c') ∧
    (∀ c ∈ opened, casted'.lookup c = casted.lookup c) := by
  obtain ⟨S', closed', h1, h2, h3, h4, h5, h6⟩ := castOne_held cyc casted heap [] opened [] casted' heap1 released hH
    ⟨by simp, by simp⟩ (by simp) hnd (by simp) hfr h
  have hrel : ∀ k ∈ released, ∃ c ∈ closed', c ∈ S' ∧ casted'.lookup c = some k := by
    intro k hk
    obtain ⟨c, hc, hl⟩ := h2.2 k hk
    exact ⟨c, hc, h3 c hc, hl⟩
  refine ⟨⟨?_, ?_, ?_⟩, ?_, ?_, h6⟩
  · intro c hc
    rw [mem_toggle] at hc
    have hcS : c ∈ S' := by rw [h4]; grind
    have hcc : c ∉ closed' := by rw [h5]; simp; grind
    obtain ⟨k, hk, hkn⟩ := h1.has c hcS
    refine ⟨k, hk, ?_⟩
    rw [mem_pushAll]
    rintro (hin | hin)
    · exact hkn hin
    · obtain ⟨c0, hc0, hc0S, hl0⟩ := hrel k hin
      have := h1.inj c hcS c0 hc0S (by rw [hk, hl0])
      exact hcc (this ▸ hc0)
  · intro c hc c' hc' heq
    rw [mem_toggle] at hc hc'
    exact h1.inj c (by rw [h4]; grind) c' (by rw [h4]; grind) heq
  · refine nodup_pushAll h1.nodup h2.1 ?_
    intro k hk
    obtain ⟨c0, _, hc0S, hl0⟩ := hrel k hk
    obtain ⟨k', hk', hkn⟩ := h1.has c0 hc0S
    rw [hl0] at hk'; cases hk'; exact hkn
  · intro c hc
    obtain ⟨k, hk, _⟩ := h1.has c (by rw [h4]; exact Or.inr hc)
    exact ⟨k, hk⟩
  · intro c hc c' hc' heq
    exact h1.inj c (by rw [h4]; exact Or.inr hc) c' (by rw [h4]; exact Or.inr hc') heq

/-- keys of `casted_cycles` have all been seen -/
def KeysSeen (casted : List (Nat × Nat)) (seen : List Nat) : Prop := ∀ c, casted.lookup c ≠ none → c ∈ seen

/-- the whole allocation loop keeps the discipline -/
theorem castSeq_held : ∀ (L : List (List Nat)) (casted : List (Nat × Nat)) (heap opened seen : List Nat)
    (casted' : List (Nat × Nat)) (heap' : List Nat),
    Held casted heap opened → KeysSeen casted seen → cyclesWF opened seen L = true →
    castSeq L casted heap = .ok (casted', heap') →
    Held casted' heap' (L.foldl toggle opened) ∧ KeysSeen casted' (seen ++ L.flatten) := by
  intro L
  induction L with
  | nil =>
    intro casted heap opened seen casted' heap' hH hK _ h
    simp only [castSeq, Except.ok.injEq, Prod.mk.injEq] at h
    obtain ⟨rfl, rfl⟩ := h
    exact ⟨by simpa using hH, by simpa using hK⟩
  | cons cyc tl ih =>
    intro casted heap opened seen casted' heap' hH hK hwf h
    simp only [cyclesWF, Bool.and_eq_true, decide_eq_true_eq, List.all_eq_true, Bool.or_eq_true,
      List.contains_eq_mem, Bool.not_eq_eq_eq_not, Bool.not_true, decide_eq_false_iff_not] at hwf
    obtain ⟨⟨hnd, hfr⟩, hwf'⟩ := hwf
    simp only [castSeq] at h
    split at h
    · cases h
    · rename_i casted1 heap1 released hc
      have hfr' : ∀ c ∈ cyc, c ∈ opened ∨ casted.lookup c = none := by
        intro c hc
        rcases hfr c hc with h1 | h1
        · exact Or.inl (by simpa using h1)
        · right
          cases hl : casted.lookup c with
          | none => rfl
          | some k => exact absurd (hK c (by rw [hl]; simp)) (by simpa using h1)
      obtain ⟨hH1, _, _, _⟩ := castAtom_held cyc casted heap opened casted1 heap1 released hH hnd hfr' hc
      have hK1 : KeysSeen casted1 (seen ++ cyc) := by
        intro c hne
        rcases castOne_keys _ _ _ _ _ _ _ hc c hne with h1 | h1
        · simp [hK c h1]
        · simp [h1]
      obtain ⟨r1, r2⟩ := ih casted1 (pushAll heap1 released) (toggle opened cyc) (seen ++ cyc) casted' heap' hH1 hK1 hwf' h
      exact ⟨by simpa using r1, by simpa [List.append_assoc] using r2⟩

theorem initialHeap_nodup : initialHeap.Nodup := by
  unfold initialHeap
  exact List.Nodup.sublist List.filter_sublist List.nodup_range

theorem held_initial : Held [] initialHeap [] := ⟨by simp, by simp, initialHeap_nodup⟩


end ChythonModel.Proofs.C02
