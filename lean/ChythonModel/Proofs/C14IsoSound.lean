import ChythonModel.Proofs.C07Complete
import ChythonModel.Proofs.C07WF
import ChythonModel.Proofs.C07Compile
import ChythonModel.Proofs.C07Stack
/-!
# C14 — the one fact about C07's matcher that C14's neutralisation theorems use, assembled from C07's helper lemmas
(`Proofs/C07*.lean`; same derivation as `Props/C07.lean: getMapping_exact`, soundness direction only — restated here so that
C14 does not depend on the *Props* file of another property, which its owner keeps extending).
-/
namespace ChythonModel.Proofs.C14
open ChythonModel.Model.Iso ChythonModel.Spec.Embedding ChythonModel.Proofs.C07

/-- bond compatibility does not depend on the direction in which a bond is looked at (one shared bond object) -/
def BondSymm (bondOk : Nat → Nat → Nat → Nat → Bool) : Prop := ∀ u v x y, bondOk u v x y = bondOk v u y x

/-- **soundness of `_get_mapping` for one component** (C07): on a well-formed pattern and target, with the model's own
    linearisation, the matcher terminates normally and every dict it returns is the dict of a valid embedding -/
theorem getMapping_sound (q t : Graph) (hq : q.WF = true) (ht : t.WF = true) (comps : List (List Step)) (cl : Closures)
    (hcq : compileQuery q = some (comps, cl)) (lq : List Step) (hlq : lq ∈ comps) (scope : Nat → Bool)
    (atomOk : Nat → Nat → Bool) (bondOk : Nat → Nat → Nat → Nat → Bool) (hb : BondSymm bondOk) :
    ∃ r, getMapping { lq := lq, cl := cl, oAtoms := t.atoms, t := t, scope := scope, atomOk := atomOk, bondOk := bondOk } = some r ∧
      ∀ m ∈ r, ∃ f, m = asDict (lq.map (·.front)) f ∧ EmbedsComp q t (lq.map (·.front)) scope atomOk bondOk f := by
  have hc := compile_ok q hq comps cl hcq
  have hQ := wf_ok q hq
  have hT := wf_ok t ht
  have hS : Setting q { lq := lq, cl := cl, oAtoms := t.atoms, t := t, scope := scope, atomOk := atomOk, bondOk := bondOk } :=
    ⟨hc.comp lq hlq, hc.comp_nodup hlq, hQ.symm, hQ.loop, hT.symm, hT.loop, hT.closed, rfl, hb⟩
  refine ⟨_, getMapping_eq_rec q _ hS hT.nbrs_nodup, ?_⟩
  intro m hm
  rw [recMapping_eq] at hm
  obtain ⟨p, hp, rfl⟩ := List.mem_map.1 hm
  have pv := (mem_allPaths _ hS.ok.ne p).1 hp
  refine ⟨fOf lq p, ?_, pathValid_embeds hS pv⟩
  have := pv_path_eq hS pv
  show (lq.map (·.front)).zip p = (lq.map (·.front)).zip ((lq.map (·.front)).map (fOf lq p))
  exact congrArg _ this

end ChythonModel.Proofs.C14
