import ChythonModel.Proofs.C15Cx
import ChythonModel.Model.C15Radicals
/-!
Reader side of the CXSMILES radical block: `findall(cx_radicals)` on the written block gives the written indices,
`markRadicals` resolves them over the atom counts of the parsed molecules back to the per-molecule flags.
-/
namespace ChythonModel.Proofs.C15
open ChythonModel.Model.C15

/-! ## index resolution -/

/-- positions of `true` (what the writer emits: `n for n, r in enumerate(radicals) if r`) -/
def trueIdx (l : List Bool) : List Nat := l.zipIdx.filterMap fun bi => if bi.1 then some bi.2 else none

theorem mem_zipIdx_filterMap (l : List Bool) (k n : Nat) :
    n ∈ (l.zipIdx k).filterMap (fun bi => if bi.1 then some bi.2 else none) ↔ k ≤ n ∧ l[n - k]? = some true := by
  induction l generalizing k with
  | nil => simp
  | cons b bs ih =>
    rw [List.zipIdx_cons, List.filterMap_cons]
    cases b with
    | true =>
      simp only [if_true, List.mem_cons, ih (k + 1)]
      constructor
      · rintro (h | ⟨h1, h2⟩)
        · subst h; simp
        · refine ⟨by omega, ?_⟩
          have : n - k = (n - (k + 1)) + 1 := by omega
          rw [this, List.getElem?_cons_succ]; exact h2
      · rintro ⟨h1, h2⟩
        by_cases e : n = k
        · exact Or.inl e
        · right
          refine ⟨by omega, ?_⟩
          have : n - k = (n - (k + 1)) + 1 := by omega
          rw [this, List.getElem?_cons_succ] at h2; exact h2
    | false =>
      simp only [Bool.false_eq_true, if_false, ih (k + 1)]
      constructor
      · rintro ⟨h1, h2⟩
        refine ⟨by omega, ?_⟩
        have : n - k = (n - (k + 1)) + 1 := by omega
        rw [this, List.getElem?_cons_succ]; exact h2
      · rintro ⟨h1, h2⟩
        by_cases e : n = k
        · subst e; simp at h2
        · refine ⟨by omega, ?_⟩
          have : n - k = (n - (k + 1)) + 1 := by omega
          rw [this, List.getElem?_cons_succ] at h2; exact h2

theorem mem_trueIdx (l : List Bool) (n : Nat) : n ∈ trueIdx l ↔ l[n]? = some true := by
  unfold trueIdx
  have := mem_zipIdx_filterMap l 0 n
  simpa using this

theorem zipIdx_filterMap_pairwise (l : List Bool) (k : Nat) :
    ((l.zipIdx k).filterMap (fun bi => if bi.1 then some bi.2 else none)).Pairwise (· < ·) := by
  induction l generalizing k with
  | nil => simp
  | cons b bs ih =>
    rw [List.zipIdx_cons, List.filterMap_cons]
    cases b with
    | true =>
      simp only [if_true, List.pairwise_cons]
      refine ⟨?_, ih (k + 1)⟩
      intro n hn
      have := (mem_zipIdx_filterMap bs (k + 1) n).mp hn
      omega
    | false => simpa using ih (k + 1)

theorem trueIdx_nodup (l : List Bool) : (trueIdx l).Nodup := by
  unfold trueIdx List.Nodup
  exact (zipIdx_filterMap_pairwise l 0).imp (by intro a b h; omega)

theorem trueIdx_lt (l : List Bool) (n : Nat) (h : n ∈ trueIdx l) : n < l.length := by
  have := (mem_trueIdx l n).mp h
  rcases Nat.lt_or_ge n l.length with hc | hc
  · exact hc
  · rw [List.getElem?_eq_none hc] at this
    cases this

theorem flagsFrom_eq (rad : List Nat) (start : Nat) (l : List Bool)
    (h : ∀ i (hi : i < l.length), rad.contains (start + i) = l[i]) : flagsFrom rad start l.length = l := by
  unfold flagsFrom
  apply List.ext_getElem
  · simp
  · intro i h1 h2
    simp only [List.getElem_map, List.getElem_range]
    exact h i h2

theorem splitFlags_eq (rad : List Nat) (F : List (List Bool)) :
    ∀ start, (∀ i (hi : i < F.flatten.length), rad.contains (start + i) = F.flatten[i]) →
      splitFlags rad start (F.map List.length) = F := by
  induction F with
  | nil => intro _ _; rfl
  | cons l ls ih =>
    intro start h
    simp only [List.map_cons, splitFlags]
    have h1 : flagsFrom rad start l.length = l := by
      apply flagsFrom_eq
      intro i hi
      have hi' : i < (l :: ls).flatten.length := by rw [List.flatten_cons, List.length_append]; omega
      rw [h i hi']
      simp only [List.flatten_cons]
      rw [List.getElem_append_left hi]
    have h2 : splitFlags rad (start + l.length) (ls.map List.length) = ls := by
      apply ih
      intro i hi
      have hi' : l.length + i < (l :: ls).flatten.length := by rw [List.flatten_cons, List.length_append]; omega
      have := h (l.length + i) hi'
      rw [Nat.add_assoc, this]
      simp only [List.flatten_cons]
      rw [List.getElem_append_right (by omega)]
      simp
    rw [h1, h2]

theorem sum_map_length (F : List (List Bool)) : (F.map List.length).sum = F.flatten.length := by
  induction F with
  | nil => rfl
  | cons l ls ih => simp only [List.map_cons, List.sum_cons, List.flatten_cons, List.length_append, ih]

/-- **index resolution inverts the writer's enumeration**: the positions of the `true` flags over the concatenated
    molecules, resolved over the atom counts, give back the flags of every molecule -/
theorem markRadicals_trueIdx (F : List (List Bool)) :
    markRadicals (F.map List.length) (trueIdx F.flatten) = .ok F := by
  unfold markRadicals
  have hno : (trueIdx F.flatten).any (fun x => decide ((F.map List.length).sum ≤ x)) = false := by
    rw [List.any_eq_false]
    intro x hx
    have := trueIdx_lt _ x hx
    have e := sum_map_length F
    simp only [decide_eq_true_eq, Nat.not_le]
    omega
  rw [hno]
  simp only [Bool.false_eq_true, if_false]
  rw [splitFlags_eq]
  intro i hi
  simp only [Nat.zero_add]
  cases hb : F.flatten[i] with
  | true =>
    have : i ∈ trueIdx F.flatten := (mem_trueIdx _ i).mpr (by rw [List.getElem?_eq_getElem hi, hb])
    simpa using this
  | false =>
    have : i ∉ trueIdx F.flatten := by
      intro hm
      have := (mem_trueIdx _ i).mp hm
      rw [List.getElem?_eq_getElem hi, hb] at this
      cases this
    simpa using this

/-! ## general specification of `markRadicals` (any indices, any counts) -/

theorem splitFlags_shape (rad : List Nat) (counts : List Nat) :
    ∀ start, (splitFlags rad start counts).map List.length = counts ∧
      ∀ i (hi : i < (splitFlags rad start counts).flatten.length),
        (splitFlags rad start counts).flatten[i] = rad.contains (start + i) := by
  induction counts with
  | nil => intro _; exact ⟨rfl, by intro i hi; simp [splitFlags] at hi⟩
  | cons n ns ih =>
    intro start
    obtain ⟨ih1, ih2⟩ := ih (start + n)
    have hl : (flagsFrom rad start n).length = n := by simp [flagsFrom]
    refine ⟨by simp [splitFlags, ih1, hl], ?_⟩
    intro i hi
    simp only [splitFlags, List.flatten_cons] at hi ⊢
    by_cases h : i < n
    · rw [List.getElem_append_left (by omega)]
      simp [flagsFrom]
    · rw [List.getElem_append_right (by omega)]
      have hi2 : i - (flagsFrom rad start n).length < (splitFlags rad (start + n) ns).flatten.length := by
        rw [List.length_append] at hi; omega
      rw [ih2 _ hi2, hl]
      congr 1; omega

/-! ## `findall(cx_radicals)` on the written block -/

/-- `,n,n…` -/
def commaNumStr : List Nat → Str
  | [] => []
  | n :: ns => chComma :: digits n ++ commaNumStr ns

theorem join_commaNums_cons (n : Nat) (ns : List Nat) :
    join chComma ((n :: ns).map digits) = digits n ++ commaNumStr ns := by
  induction ns generalizing n with
  | nil => simp [join, commaNumStr]
  | cons m ms ih =>
    simp only [List.map_cons, join, commaNumStr] at ih ⊢
    rw [ih m]
    rfl

theorem head_commaNumStr_append (ns : List Nat) (rest : Str) (hr : ∀ c, rest.head? = some c → isDigit c = false) :
    ∀ c, (commaNumStr ns ++ rest).head? = some c → isDigit c = false := by
  cases ns with
  | nil => simpa [commaNumStr] using hr
  | cons n ns => intro c hc; simp [commaNumStr] at hc; subst hc; decide

theorem commaNums_render (ns : List Nat) (rest : Str)
    (hhead : ∀ c, rest.head? = some c → isDigit c = false)
    (hstop : ∀ f, commaNums f rest = ([], rest)) :
    ∀ fuel, (commaNumStr ns ++ rest).length ≤ fuel → commaNums fuel (commaNumStr ns ++ rest) = (ns, rest) := by
  induction ns with
  | nil => intro fuel _; simpa [commaNumStr] using hstop fuel
  | cons n ns ih =>
    intro fuel hf
    simp only [commaNumStr, List.cons_append, List.append_assoc, List.length_cons, List.length_append] at hf ⊢
    cases fuel with
    | zero => omega
    | succ f =>
      have hspan := spanDigits_append (digits n) (commaNumStr ns ++ rest) (digits_all n)
        (head_commaNumStr_append ns rest hhead)
      simp only [commaNums, beq_self_eq_true, if_true, hspan]
      have hne := digits_ne_nil n
      have ihf := ih f (by simp only [List.length_append]; omega)
      cases hd : digits n with
      | nil => exact absurd hd hne
      | cons d ds =>
        simp only [ihf]
        rw [← hd, toNat_digits]

theorem matchRadical_not_caret (c : Nat) (s : Str) (h : c ≠ chCaret) : matchRadical (c :: s) = none := by
  unfold matchRadical
  split
  · rename_i c0 c1 c2 rest heq
    simp only [List.cons.injEq] at heq
    have : (c0 == chCaret) = false := by rw [← heq.1]; simpa using h
    simp [this]
  · rfl

theorem findRadicals_noCaret : ∀ (fuel : Nat) (s : Str), (∀ c ∈ s, c ≠ chCaret) → findRadicals fuel s = []
  | 0, _, _ => rfl
  | _ + 1, [], _ => rfl
  | fuel + 1, c :: cs, h => by
    simp only [findRadicals, matchRadical_not_caret c cs (h c List.mem_cons_self)]
    exact findRadicals_noCaret fuel cs (fun c' hc' => h c' (List.mem_cons_of_mem _ hc'))

/-- the written radical part `^1:i,i…` followed by `rest` (the closing bar, or `,f:…|`) is found as exactly these numbers -/
theorem findRadicals_render (i : Nat) (is : List Nat) (rest : Str)
    (hhead : ∀ c, rest.head? = some c → isDigit c = false)
    (hstop : ∀ f, commaNums f rest = ([], rest))
    (hrest : ∀ c ∈ rest, c ≠ chCaret) (fuel : Nat) :
    findRadicals (fuel + 2)
      (chBar :: (chCaret :: 49 :: chColon :: join chComma ((i :: is).map digits)) ++ rest) = i :: is := by
  have hb : chBar ≠ chCaret := by decide
  simp only [List.cons_append, findRadicals, matchRadical_not_caret chBar _ hb]
  rw [join_commaNums_cons, List.append_assoc]
  have hspan := spanDigits_append (digits i) (commaNumStr is ++ rest) (digits_all i)
    (head_commaNumStr_append is rest hhead)
  have hm : matchRadical (chCaret :: 49 :: chColon :: (digits i ++ (commaNumStr is ++ rest))) = some (i :: is, rest) := by
    unfold matchRadical
    simp only [beq_self_eq_true, Bool.true_and, Bool.and_true]
    have h49 : (decide (49 ≤ 49) && decide (49 ≤ 55)) = true := by decide
    simp only [h49, if_true, hspan]
    have hne := digits_ne_nil i
    cases hd : digits i with
    | nil => exact absurd hd hne
    | cons d ds =>
      simp only [commaNums_render is rest hhead hstop _ (Nat.le_refl _)]
      rw [← hd, toNat_digits]
  rw [hm]
  simp only [findRadicals_noCaret fuel rest hrest, List.append_nil]

theorem commaNums_stop_bar : ∀ f, commaNums f [chBar] = ([], [chBar]) := by
  intro f; cases f <;> rfl

theorem commaNums_stop_f (tail : Str) : ∀ f, commaNums f (chComma :: chF :: tail) = ([], chComma :: chF :: tail) := by
  intro f
  cases f with
  | zero => rfl
  | succ f => simp [commaNums, spanDigits, isDigit, chF]

/-! ## the written text: tokens, radical indices -/

def radStr (idx : List Nat) : Str := chCaret :: 49 :: chColon :: join chComma (idx.map digits)
def fStr (gs : List (List Nat)) : Str := chF :: chColon :: join chComma (gs.map fun g => join chDot (g.map digits))

/-- the parts of the CXSMILES block as `render` assembles them -/
def cxParts (idx : List Nat) (gs : List (List Nat)) : List Str :=
  (if idx.isEmpty then [] else [radStr idx]) ++ (if gs.isEmpty then [] else [fStr gs])

theorem render_eq (roles : List (List Str)) (idx : List Nat) (gs : List (List Nat)) :
    render false ⟨roles, idx, gs⟩ =
      if (cxParts idx gs).isEmpty then join chGt (roles.map (join chDot))
      else join chGt (roles.map (join chDot)) ++ chSpace :: chBar :: join chComma (cxParts idx gs) ++ [chBar] := rfl

theorem fStr_chars' (gs : List (List Nat)) (c : Nat) (h : c ∈ fStr gs) : isSpace c = false ∧ c ≠ chCaret := by
  unfold fStr at h
  simp only [List.mem_cons] at h
  rcases h with h | h | h
  · subst h; decide
  · subst h; decide
  · rcases mem_join chComma _ c h with h | ⟨p, hp, hc⟩
    · subst h; decide
    · obtain ⟨g, _, e⟩ := List.mem_map.mp hp
      subst e
      rcases numbers_chars chDot g c hc with h | h
      · subst h; decide
      · refine ⟨(digit_not_space c h).1, ?_⟩
        simp only [isDigit, Bool.and_eq_true, decide_eq_true_eq] at h
        simp [chCaret]; omega

theorem cx_chars (idx : List Nat) (gs : List (List Nat)) :
    ∀ c ∈ join chComma (cxParts idx gs), isSpace c = false := by
  intro c hc
  rcases mem_join chComma _ c hc with h | ⟨p, hp, hcp⟩
  · subst h; decide
  · unfold cxParts at hp
    rcases List.mem_append.mp hp with hp | hp
    · by_cases hi : idx.isEmpty
      · simp [hi] at hp
      · simp only [hi, Bool.false_eq_true, if_false, List.mem_singleton] at hp
        subst hp
        exact (radStr_chars idx c hcp).1
    · by_cases hg : gs.isEmpty
      · simp [hg] at hp
      · simp only [hg, Bool.false_eq_true, if_false, List.mem_singleton] at hp
        subst hp
        exact (fStr_chars' gs c hcp).1

/-- `data.split()` of the written text: the signature and the CXSMILES token -/
theorem splitWs_render (roles : List (List Str)) (idx : List Nat) (gs : List (List Nat))
    (hsp : ∀ c ∈ join chGt (roles.map (join chDot)), isSpace c = false)
    (hne : join chGt (roles.map (join chDot)) ≠ []) :
    splitWs (render false ⟨roles, idx, gs⟩) =
      if (cxParts idx gs).isEmpty then [join chGt (roles.map (join chDot))]
      else [join chGt (roles.map (join chDot)), chBar :: join chComma (cxParts idx gs) ++ [chBar]] := by
  rw [render_eq]
  by_cases hcx : (cxParts idx gs).isEmpty
  · simp only [hcx, if_true]
    exact splitWs_single _ hne hsp
  · simp only [hcx, Bool.false_eq_true, if_false]
    have e : join chGt (roles.map (join chDot)) ++ chSpace :: chBar :: join chComma (cxParts idx gs) ++ [chBar] =
        join chGt (roles.map (join chDot)) ++ chSpace :: (chBar :: join chComma (cxParts idx gs) ++ [chBar]) := by simp
    rw [e]
    apply splitWs_pair _ _ hne (by simp) hsp
    intro c hc
    simp only [List.cons_append, List.mem_cons, List.mem_append, List.mem_nil_iff, or_false] at hc
    rcases hc with h | h | h
    · subst h; decide
    · exact cx_chars idx gs c h
    · subst h; decide

theorem radicalsOf_single (w : Str) : radicalsOf [w] = [] := rfl

theorem radicalsOf_token (w body : Str) :
    radicalsOf [w, chBar :: body ++ [chBar]] =
      (let r := findRadicals ((chBar :: body ++ [chBar]).length + 1) (chBar :: body ++ [chBar])
       if r.eraseDups.length != r.length then [] else r) := by
  unfold radicalsOf
  have h1 : (chBar :: body ++ [chBar]).head? = some chBar := rfl
  have h2 : (chBar :: body ++ [chBar]).getLast? = some chBar := by
    rw [show chBar :: body ++ [chBar] = (chBar :: body) ++ [chBar] from rfl, List.getLast?_append]
    simp
  simp only [h1, h2, beq_self_eq_true, Bool.and_self, if_true]

/-- **the radical indices of the written block are read back**: `findall(cx_radicals)` + `int` + collision test on the
    CXSMILES token of the written text give exactly the written indices (any fragment block next to them) -/
theorem radicalsOf_render (roles : List (List Str)) (idx : List Nat) (gs : List (List Nat))
    (hsp : ∀ c ∈ join chGt (roles.map (join chDot)), isSpace c = false)
    (hne : join chGt (roles.map (join chDot)) ≠ [])
    (hnd : idx.Nodup) :
    radicalsOf (splitWs (render false ⟨roles, idx, gs⟩)) = idx := by
  rw [splitWs_render roles idx gs hsp hne]
  cases idx with
  | nil =>
    cases gs with
    | nil => rfl
    | cons g gs' =>
      have hp : cxParts [] (g :: gs') = [fStr (g :: gs')] := rfl
      rw [hp]
      simp only [List.isEmpty_cons, Bool.false_eq_true, if_false, join]
      rw [radicalsOf_token]
      have hnc : ∀ c ∈ chBar :: fStr (g :: gs') ++ [chBar], c ≠ chCaret := by
        intro c hc
        simp only [List.cons_append, List.mem_cons, List.mem_append, List.mem_nil_iff, or_false] at hc
        rcases hc with h | h | h
        · subst h; decide
        · exact (fStr_chars' _ c h).2
        · subst h; decide
      rw [findRadicals_noCaret _ _ hnc]
      rfl
  | cons i is =>
    have fin : ∀ rest : Str, (∀ c, rest.head? = some c → isDigit c = false) → (∀ f, commaNums f rest = ([], rest)) →
        (∀ c ∈ rest, c ≠ chCaret) → ∀ n, 2 ≤ n →
        (let r := findRadicals n (chBar :: radStr (i :: is) ++ rest)
         if r.eraseDups.length != r.length then [] else r) = i :: is := by
      intro rest h1 h2 h3 n hn
      obtain ⟨fuel, rfl⟩ : ∃ fuel, n = fuel + 2 := ⟨n - 2, by omega⟩
      have := findRadicals_render i is rest h1 h2 h3 fuel
      unfold radStr
      simp only [this, eraseDups_of_nodup _ hnd, bne_self_eq_false, Bool.false_eq_true, if_false]
    cases gs with
    | nil =>
      have hp : cxParts (i :: is) [] = [radStr (i :: is)] := rfl
      rw [hp]
      simp only [List.isEmpty_cons, Bool.false_eq_true, if_false, join]
      rw [radicalsOf_token]
      have hbar : ∀ c, [chBar].head? = some c → isDigit c = false := by
        intro c hc; simp at hc; subst hc; decide
      have hnc : ∀ c ∈ [chBar], c ≠ chCaret := by
        intro c hc; simp at hc; subst hc; decide
      have := fin [chBar] hbar commaNums_stop_bar hnc ((chBar :: radStr (i :: is) ++ [chBar]).length + 1)
        (by simp only [List.length_append, List.length_cons]; omega)
      simpa using this
    | cons g gs' =>
      have hp : cxParts (i :: is) (g :: gs') = [radStr (i :: is), fStr (g :: gs')] := rfl
      rw [hp]
      simp only [List.isEmpty_cons, Bool.false_eq_true, if_false, join]
      rw [radicalsOf_token]
      have hh : ∀ c, (chComma :: (fStr (g :: gs') ++ [chBar])).head? = some c → isDigit c = false := by
        intro c hc; simp at hc; subst hc; decide
      have hnc : ∀ c ∈ chComma :: (fStr (g :: gs') ++ [chBar]), c ≠ chCaret := by
        intro c hc
        simp only [List.mem_cons, List.mem_append, List.mem_nil_iff, or_false] at hc
        rcases hc with h | h | h
        · subst h; decide
        · exact (fStr_chars' _ c h).2
        · subst h; decide
      have hstop : ∀ f, commaNums f (chComma :: (fStr (g :: gs') ++ [chBar])) = ([], chComma :: (fStr (g :: gs') ++ [chBar])) := by
        intro f
        exact commaNums_stop_f _ f
      have := fin (chComma :: (fStr (g :: gs') ++ [chBar])) hh hstop hnc
        ((chBar :: (radStr (i :: is) ++ chComma :: fStr (g :: gs')) ++ [chBar]).length + 1)
        (by simp only [List.length_append, List.length_cons]; omega)
      simpa using this

/-! ## the whole round trip incl. radical marks -/

theorem foldl_molStep_radicals (rad : List Str → List Bool) (ms : List (List Str)) :
    ∀ acc : FmtAcc, ((ms.map (sigOf rad)).foldl molStep acc).radicals = acc.radicals ++ (ms.map rad).flatten := by
  induction ms with
  | nil => intro acc; simp
  | cons m rest ih =>
    intro acc
    simp only [List.map_cons, List.foldl_cons, List.flatten_cons]
    rw [ih]
    unfold molStep sigOf
    by_cases hk : m.length > 1
    · simp only [hk, if_true, List.append_assoc]
    · simp only [hk, if_false, List.append_assoc]

theorem formatCore_radicalIdx (rad : List Str → List Bool) (R A P : List (List Str)) :
    (formatCore true (R.map (sigOf rad)) (A.map (sigOf rad)) (P.map (sigOf rad))).radicalIdx
      = trueIdx ((R ++ A ++ P).map rad).flatten := by
  unfold formatCore sortRole trueIdx
  simp only [if_true, ← List.map_append]
  rw [foldl_molStep_radicals]
  rfl

theorem readSmi_eq (smi : Str) (c : Option (List (List Nat))) :
    readSmi smi c = (match readSmiRaw smi c with | .roles r a p => mkRxn r a p | o => o) := by
  unfold readSmi readSmiRaw
  by_cases hgt : (!smi.contains chGt) = true
  · simp only [hgt, if_true]
  · simp only [hgt]
    cases splitOn chGt smi with
    | nil => rfl
    | cons r t =>
      cases t with
      | nil => rfl
      | cons a t =>
        cases t with
        | nil => rfl
        | cons p t =>
          cases t with
          | cons _ _ => rfl
          | nil =>
            simp only [Bool.false_eq_true, if_false]
            cases c with
            | none => rfl
            | some gs =>
              cases gs with
              | nil => rfl
              | cons g gs =>
                simp only
                cases contractRoles (rolePieces r) (rolePieces a) (rolePieces p) (g :: gs) with
                | error e => rfl
                | ok v => rfl

theorem readSmiRaw_of_readSmi (smi : Str) (c : Option (List (List Nat))) (x y z : List Str)
    (h : readSmi smi c = .roles x y z) :
    readSmiRaw smi c = .roles x y z ∧ ¬ ((x.isEmpty && y.isEmpty && z.isEmpty) = true) := by
  rw [readSmi_eq] at h
  cases hr : readSmiRaw smi c with
  | molecule => rw [hr] at h; cases h
  | error e => rw [hr] at h; cases h
  | roles r a p =>
    rw [hr] at h
    simp only at h
    unfold mkRxn at h
    split at h
    · cases h
    · rename_i hne
      cases h
      exact ⟨rfl, hne⟩

theorem readRxnRad_of_readRxn (natoms : Str → Nat) (text : Str) (x y z : List Str) (fl : List (List Bool))
    (hr : readRxn text = .roles x y z)
    (hm : markRadicals ((x ++ y ++ z).map natoms) (radicalsOf (splitWs text)) = .ok fl) :
    readRxnRad natoms text =
      .roles x y z (fl.take x.length) ((fl.drop x.length).take y.length) (fl.drop (x.length + y.length)) := by
  unfold readRxn at hr
  unfold readRxnRad
  cases hs : splitWs text with
  | nil => rw [hs] at hr; cases hr
  | cons smi rest =>
    rw [hs] at hr hm
    simp only at hr ⊢
    obtain ⟨h1, h2⟩ := readSmiRaw_of_readSmi _ _ _ _ _ hr
    rw [h1]
    simp only [hm]
    rw [if_neg h2]

theorem take_drop3 {α : Type} (a b c : List α) :
    (a ++ b ++ c).take a.length = a ∧ ((a ++ b ++ c).drop a.length).take b.length = b ∧
      (a ++ b ++ c).drop (a.length + b.length) = c := by
  refine ⟨?_, ?_, ?_⟩
  · rw [List.append_assoc, List.take_left']; rfl
  · rw [List.append_assoc, List.drop_left', List.take_left'] <;> rfl
  · rw [← List.length_append, List.drop_left']; rfl

/-- **write → read incl. radical marks** (text level, `!c`): the roles, the molecules and the `is_radical` flag of every
    atom are restored. `natoms` (atom count of the parsed molecule string) agrees with the number of flags the writer
    had for the molecule (the parser yields the atoms of the written string, in the written order: C02/C03). -/
theorem read_format_rad (rad : List Str → List Bool) (natoms : Str → Nat) (R A P : List (List Str))
    (hR : WrittenOK R) (hA : WrittenOK A) (hP : WrittenOK P) (hne : R ++ A ++ P ≠ [])
    (hsp : ∀ m ∈ R ++ A ++ P, ∀ f ∈ m, ∀ c ∈ f, isSpace c = false)
    (hn : ∀ m ∈ R ++ A ++ P, natoms (join chDot m) = (rad m).length) :
    readRxnRad natoms (formatRxn true false (R.map (sigOf rad)) (A.map (sigOf rad)) (P.map (sigOf rad))) =
      .roles (R.map (join chDot)) (A.map (join chDot)) (P.map (join chDot)) (R.map rad) (A.map rad) (P.map rad) := by
  have hread := read_format rad R A P hR hA hP hne hsp
  have hc := formatCore_contract rad R A P
  have hr := formatCore_roles rad R A P
  have hi := formatCore_radicalIdx rad R A P
  -- the radical indices read from the text
  have hrad : radicalsOf (splitWs (formatRxn true false (R.map (sigOf rad)) (A.map (sigOf rad)) (P.map (sigOf rad)))) =
      trueIdx ((R ++ A ++ P).map rad).flatten := by
    unfold formatRxn
    have eta : formatCore true (R.map (sigOf rad)) (A.map (sigOf rad)) (P.map (sigOf rad)) =
        ⟨[R.map (join chDot), A.map (join chDot), P.map (join chDot)], trueIdx ((R ++ A ++ P).map rad).flatten,
         groupsFrom 0 (R ++ A ++ P)⟩ := by
      rw [← hc, ← hr, ← hi]
    rw [eta]
    have roleChars : ∀ X : List (List Str), (∀ m ∈ X, m ∈ R ++ A ++ P) →
        ∀ c ∈ join chDot (X.map (join chDot)), isSpace c = false := by
      intro X hX c hc'
      rcases mem_join chDot _ c hc' with h | ⟨p, hp, hcp⟩
      · subst h; decide
      · obtain ⟨m, hm, e⟩ := List.mem_map.mp hp
        subst e
        rcases mem_join chDot m c hcp with h | ⟨f, hf, hcf⟩
        · subst h; decide
        · exact hsp m (hX m hm) f hf c hcf
    have hsig : ∀ c ∈ join chGt ([R.map (join chDot), A.map (join chDot), P.map (join chDot)].map (join chDot)),
        isSpace c = false := by
      intro c hc'
      rcases mem_join chGt _ c hc' with h | ⟨p, hp, hcp⟩
      · subst h; decide
      · simp only [List.map_cons, List.map_nil, List.mem_cons, List.mem_nil_iff, or_false] at hp
        rcases hp with h | h | h
        · subst h; exact roleChars R (fun m hm => by simp [hm]) c hcp
        · subst h; exact roleChars A (fun m hm => by simp [hm]) c hcp
        · subst h; exact roleChars P (fun m hm => by simp [hm]) c hcp
    have hsne : join chGt ([R.map (join chDot), A.map (join chDot), P.map (join chDot)].map (join chDot)) ≠ [] := by
      simp [join]
    exact radicalsOf_render _ _ _ hsig hsne (trueIdx_nodup _)
  have hcounts : (R.map (join chDot) ++ A.map (join chDot) ++ P.map (join chDot)).map natoms =
      ((R ++ A ++ P).map rad).map List.length := by
    rw [← List.map_append, ← List.map_append, List.map_map, List.map_map]
    apply List.map_congr_left
    intro m hm
    exact hn m hm
  have hm : markRadicals ((R.map (join chDot) ++ A.map (join chDot) ++ P.map (join chDot)).map natoms)
      (radicalsOf (splitWs (formatRxn true false (R.map (sigOf rad)) (A.map (sigOf rad)) (P.map (sigOf rad))))) =
      .ok ((R ++ A ++ P).map rad) := by
    rw [hrad, hcounts]
    exact markRadicals_trueIdx _
  rw [readRxnRad_of_readRxn natoms _ _ _ _ _ hread hm]
  have t := take_drop3 (R.map rad) (A.map rad) (P.map rad)
  simp only [List.length_map] at t ⊢
  rw [List.map_append, List.map_append, t.1, t.2.1, t.2.2]

/-- the default (sorted) signature: molecules and radical marks of every role are restored, in the canonical order -/
theorem read_format_rad_sorted (rad : List Str → List Bool) (natoms : Str → Nat) (R A P : List (List Str))
    (hR : WrittenOK R) (hA : WrittenOK A) (hP : WrittenOK P) (hne : R ++ A ++ P ≠ [])
    (hsp : ∀ m ∈ R ++ A ++ P, ∀ f ∈ m, ∀ c ∈ f, isSpace c = false)
    (hn : ∀ m ∈ R ++ A ++ P, natoms (join chDot m) = (rad m).length) :
    ∃ R' A' P' : List (List Str), R'.Perm R ∧ A'.Perm A ∧ P'.Perm P ∧
      readRxnRad natoms (formatRxn false false (R.map (sigOf rad)) (A.map (sigOf rad)) (P.map (sigOf rad))) =
        .roles (R'.map (join chDot)) (A'.map (join chDot)) (P'.map (join chDot))
          (R'.map rad) (A'.map rad) (P'.map rad) := by
  obtain ⟨R', pR, eR⟩ := perm_map_inv (sigOf rad) (sortRole false (R.map (sigOf rad))) R
    (by unfold sortRole; simp only [Bool.false_eq_true, if_false]; exact List.mergeSort_perm _ _)
  obtain ⟨A', pA, eA⟩ := perm_map_inv (sigOf rad) (sortRole false (A.map (sigOf rad))) A
    (by unfold sortRole; simp only [Bool.false_eq_true, if_false]; exact List.mergeSort_perm _ _)
  obtain ⟨P', pP, eP⟩ := perm_map_inv (sigOf rad) (sortRole false (P.map (sigOf rad))) P
    (by unfold sortRole; simp only [Bool.false_eq_true, if_false]; exact List.mergeSort_perm _ _)
  refine ⟨R', A', P', pR, pA, pP, ?_⟩
  have hsort : formatRxn false false (R.map (sigOf rad)) (A.map (sigOf rad)) (P.map (sigOf rad)) =
      formatRxn true false (R'.map (sigOf rad)) (A'.map (sigOf rad)) (P'.map (sigOf rad)) := by
    rw [eR, eA, eP]; rfl
  rw [hsort]
  have wok : ∀ X X' : List (List Str), X'.Perm X → WrittenOK X → WrittenOK X' :=
    fun X X' p h m hm => h m (p.subset hm)
  have sub : ∀ m ∈ R' ++ A' ++ P', m ∈ R ++ A ++ P := by
    intro m hm
    simp only [List.mem_append] at hm ⊢
    rcases hm with (h | h) | h
    · exact Or.inl (Or.inl (pR.subset h))
    · exact Or.inl (Or.inr (pA.subset h))
    · exact Or.inr (pP.subset h)
  apply read_format_rad rad natoms R' A' P' (wok R R' pR hR) (wok A A' pA hA) (wok P P' pP hP)
  · intro h
    apply hne
    have h1 := List.append_eq_nil_iff.mp h
    have h2 := List.append_eq_nil_iff.mp h1.1
    have r0 : R = [] := List.Perm.eq_nil (by have := pR.symm; rwa [h2.1] at this)
    have a0 : A = [] := List.Perm.eq_nil (by have := pA.symm; rwa [h2.2] at this)
    have p0 : P = [] := List.Perm.eq_nil (by have := pP.symm; rwa [h1.2] at this)
    rw [r0, a0, p0]
    rfl
  · intro m hm; exact hsp m (sub m hm)
  · intro m hm; exact hn m (sub m hm)

/-- general reader-side specification: an index outside the parsed atoms is `IncorrectSmiles`, otherwise the flag of the
    `i`-th atom (counted over all molecules in order) is `i ∈ radicals`, and every molecule keeps its atom count -/
theorem markRadicals_spec (counts rad : List Nat) :
    ((∃ x ∈ rad, counts.sum ≤ x) → markRadicals counts rad = .error "IncorrectSmiles") ∧
    ((∀ x ∈ rad, x < counts.sum) → ∃ F, markRadicals counts rad = .ok F ∧ F.map List.length = counts ∧
        ∀ i (hi : i < F.flatten.length), F.flatten[i] = rad.contains i) := by
  constructor
  · rintro ⟨x, hx, hle⟩
    unfold markRadicals
    have : rad.any (fun x => decide (counts.sum ≤ x)) = true := by
      rw [List.any_eq_true]; exact ⟨x, hx, by simpa using hle⟩
    rw [this]; rfl
  · intro h
    unfold markRadicals
    have : rad.any (fun x => decide (counts.sum ≤ x)) = false := by
      rw [List.any_eq_false]
      intro x hx
      have := h x hx
      simp only [decide_eq_true_eq, Nat.not_le]; omega
    rw [this]
    obtain ⟨s1, s2⟩ := splitFlags_shape rad counts 0
    refine ⟨_, rfl, s1, ?_⟩
    intro i hi
    have := s2 i hi
    simpa using this

/-! ## molecules as (components, radical flags): two molecules may print identically and differ in their marks -/

/-- a written molecule: its component strings and the radical flags of its atoms in the written order -/
abbrev WMol := List Str × List Bool

def sigOfW (x : WMol) : MolSig := ⟨join chDot x.1, x.1.length, x.2⟩

theorem foldl_molStep_contractW (ms : List WMol) :
    ∀ acc : FmtAcc, ((ms.map sigOfW).foldl molStep acc).contract = acc.contract ++ groupsFrom acc.count (ms.map Prod.fst) := by
  induction ms with
  | nil => intro acc; simp [groupsFrom]
  | cons m rest ih =>
    intro acc
    simp only [List.map_cons, List.foldl_cons]
    rw [ih]
    have e : groupsFrom acc.count (m.1 :: rest.map Prod.fst) =
        (if m.1.length > 1 then [(List.range m.1.length).map (· + acc.count)] else [])
          ++ groupsFrom (if m.1.length > 1 then acc.count + m.1.length else acc.count + 1) (rest.map Prod.fst) := by
      rw [groupsFrom]
    rw [e]
    unfold molStep sigOfW
    by_cases hk : m.1.length > 1
    · simp only [hk, if_true, List.append_assoc, List.singleton_append]
    · simp only [hk, if_false, List.nil_append]

theorem foldl_molStep_radicalsW (ms : List WMol) :
    ∀ acc : FmtAcc, ((ms.map sigOfW).foldl molStep acc).radicals = acc.radicals ++ (ms.map Prod.snd).flatten := by
  induction ms with
  | nil => intro acc; simp
  | cons m rest ih =>
    intro acc
    simp only [List.map_cons, List.foldl_cons, List.flatten_cons]
    rw [ih]
    unfold molStep sigOfW
    by_cases hk : m.1.length > 1
    · simp only [hk, if_true, List.append_assoc]
    · simp only [hk, if_false, List.append_assoc]

theorem formatCoreW (R A P : List WMol) :
    formatCore true (R.map sigOfW) (A.map sigOfW) (P.map sigOfW) =
      ⟨[(R.map Prod.fst).map (join chDot), (A.map Prod.fst).map (join chDot), (P.map Prod.fst).map (join chDot)],
       trueIdx ((R ++ A ++ P).map Prod.snd).flatten,
       groupsFrom 0 ((R ++ A ++ P).map Prod.fst)⟩ := by
  unfold formatCore sortRole trueIdx
  simp only [if_true, ← List.map_append]
  rw [foldl_molStep_radicalsW, foldl_molStep_contractW]
  simp [sigOfW, List.map_map, Function.comp_def]

/-- roles and molecules are restored (general form of `read_format`) -/
theorem read_formatW (R A P : List WMol)
    (hR : WrittenOK (R.map Prod.fst)) (hA : WrittenOK (A.map Prod.fst)) (hP : WrittenOK (P.map Prod.fst))
    (hne : R ++ A ++ P ≠ [])
    (hsp : ∀ m ∈ R ++ A ++ P, ∀ f ∈ m.1, ∀ c ∈ f, isSpace c = false) :
    readRxn (formatRxn true false (R.map sigOfW) (A.map sigOfW) (P.map sigOfW)) =
      .roles ((R.map Prod.fst).map (join chDot)) ((A.map Prod.fst).map (join chDot)) ((P.map Prod.fst).map (join chDot)) ∧
    radicalsOf (splitWs (formatRxn true false (R.map sigOfW) (A.map sigOfW) (P.map sigOfW))) =
      trueIdx ((R ++ A ++ P).map Prod.snd).flatten := by
  have hne1 : R.map Prod.fst ++ A.map Prod.fst ++ P.map Prod.fst ≠ [] := by
    rw [← List.map_append, ← List.map_append]
    intro h; exact hne (List.map_eq_nil_iff.mp h)
  have hsp1 : ∀ m ∈ R.map Prod.fst ++ A.map Prod.fst ++ P.map Prod.fst, ∀ f ∈ m, ∀ c ∈ f, isSpace c = false := by
    intro m hm
    rw [← List.map_append, ← List.map_append] at hm
    obtain ⟨x, hx, rfl⟩ := List.mem_map.mp hm
    exact hsp x hx
  have neAll : ∀ m ∈ R.map Prod.fst ++ A.map Prod.fst ++ P.map Prod.fst, m ≠ [] := by
    intro m hm
    simp only [List.mem_append] at hm
    rcases hm with (h | h) | h
    · exact (hR m h).1
    · exact (hA m h).1
    · exact (hP m h).1
  unfold formatRxn
  rw [formatCoreW]
  have roleChars : ∀ X : List (List Str), (∀ m ∈ X, m ∈ R.map Prod.fst ++ A.map Prod.fst ++ P.map Prod.fst) →
      ∀ c ∈ join chDot (X.map (join chDot)), isSpace c = false := by
    intro X hX c hc'
    rcases mem_join chDot _ c hc' with h | ⟨p, hp, hcp⟩
    · subst h; decide
    · obtain ⟨m, hm, e⟩ := List.mem_map.mp hp
      subst e
      rcases mem_join chDot m c hcp with h | ⟨f, hf, hcf⟩
      · subst h; decide
      · exact hsp1 m (hX m hm) f hf c hcf
  have hsig : ∀ c ∈ join chGt ([(R.map Prod.fst).map (join chDot), (A.map Prod.fst).map (join chDot),
      (P.map Prod.fst).map (join chDot)].map (join chDot)), isSpace c = false := by
    intro c hc'
    rcases mem_join chGt _ c hc' with h | ⟨p, hp, hcp⟩
    · subst h; decide
    · simp only [List.map_cons, List.map_nil, List.mem_cons, List.mem_nil_iff, or_false] at hp
      rcases hp with h | h | h
      · subst h; exact roleChars _ (fun m hm => by simp [hm]) c hcp
      · subst h; exact roleChars _ (fun m hm => by simp [hm]) c hcp
      · subst h; exact roleChars _ (fun m hm => by simp [hm]) c hcp
  have hsne : join chGt ([(R.map Prod.fst).map (join chDot), (A.map Prod.fst).map (join chDot),
      (P.map Prod.fst).map (join chDot)].map (join chDot)) ≠ [] := by
    simp [join]
  refine ⟨?_, radicalsOf_render _ _ _ hsig hsne (trueIdx_nodup _)⟩
  have hgs : ∀ g ∈ groupsFrom 0 ((R ++ A ++ P).map Prod.fst), 2 ≤ g.length := by
    intro g hg
    obtain ⟨k, s', hk, e⟩ := groupsFrom_shape _ 0 g hg
    rw [e]; simpa using hk
  have e3 : (R ++ A ++ P).map Prod.fst = R.map Prod.fst ++ A.map Prod.fst ++ P.map Prod.fst := by
    simp only [List.map_append]
  rw [readRxn_render _ _ _ hsig hsne hgs (by rw [e3]; exact groups_normalised _ neAll 0)]
  have main := read_written (R.map Prod.fst) (A.map Prod.fst) (P.map Prod.fst) hR hA hP hne1
    (groupsFrom 0 (R.map Prod.fst ++ A.map Prod.fst ++ P.map Prod.fst)) rfl
  rw [e3]
  simp only [List.map_cons, List.map_nil] at main ⊢
  cases hcl : groupsFrom 0 (R.map Prod.fst ++ A.map Prod.fst ++ P.map Prod.fst) with
  | nil => rw [hcl] at main; simp only [groupsOpt]; rw [readSmi_none]; exact main
  | cons g gs => rw [hcl] at main; exact main

/-- **write → read incl. radical marks, molecules as (components, flags)**: also when two molecules of a role print
    identically and differ only in their radical marks (the `[Na]` / `[Na]•` tie) -/
theorem read_format_radW (natoms : Str → Nat) (R A P : List WMol)
    (hR : WrittenOK (R.map Prod.fst)) (hA : WrittenOK (A.map Prod.fst)) (hP : WrittenOK (P.map Prod.fst))
    (hne : R ++ A ++ P ≠ [])
    (hsp : ∀ m ∈ R ++ A ++ P, ∀ f ∈ m.1, ∀ c ∈ f, isSpace c = false)
    (hn : ∀ m ∈ R ++ A ++ P, natoms (join chDot m.1) = m.2.length) :
    readRxnRad natoms (formatRxn true false (R.map sigOfW) (A.map sigOfW) (P.map sigOfW)) =
      .roles ((R.map Prod.fst).map (join chDot)) ((A.map Prod.fst).map (join chDot)) ((P.map Prod.fst).map (join chDot))
        (R.map Prod.snd) (A.map Prod.snd) (P.map Prod.snd) := by
  obtain ⟨hread, hrad⟩ := read_formatW R A P hR hA hP hne hsp
  have hcounts : ((R.map Prod.fst).map (join chDot) ++ (A.map Prod.fst).map (join chDot) ++
      (P.map Prod.fst).map (join chDot)).map natoms = ((R ++ A ++ P).map Prod.snd).map List.length := by
    simp only [← List.map_append, List.map_map]
    apply List.map_congr_left
    intro m hm
    exact hn m hm
  have hm : markRadicals (((R.map Prod.fst).map (join chDot) ++ (A.map Prod.fst).map (join chDot) ++
      (P.map Prod.fst).map (join chDot)).map natoms)
      (radicalsOf (splitWs (formatRxn true false (R.map sigOfW) (A.map sigOfW) (P.map sigOfW)))) =
      .ok ((R ++ A ++ P).map Prod.snd) := by
    rw [hrad, hcounts]
    exact markRadicals_trueIdx _
  rw [readRxnRad_of_readRxn natoms _ _ _ _ _ hread hm]
  have t := take_drop3 (R.map Prod.snd) (A.map Prod.snd) (P.map Prod.snd)
  simp only [List.length_map] at t ⊢
  rw [List.map_append, List.map_append, t.1, t.2.1, t.2.2]

theorem read_format_radW_sorted (natoms : Str → Nat) (R A P : List WMol)
    (hR : WrittenOK (R.map Prod.fst)) (hA : WrittenOK (A.map Prod.fst)) (hP : WrittenOK (P.map Prod.fst))
    (hne : R ++ A ++ P ≠ [])
    (hsp : ∀ m ∈ R ++ A ++ P, ∀ f ∈ m.1, ∀ c ∈ f, isSpace c = false)
    (hn : ∀ m ∈ R ++ A ++ P, natoms (join chDot m.1) = m.2.length) :
    ∃ R' A' P' : List WMol, R'.Perm R ∧ A'.Perm A ∧ P'.Perm P ∧
      readRxnRad natoms (formatRxn false false (R.map sigOfW) (A.map sigOfW) (P.map sigOfW)) =
        .roles ((R'.map Prod.fst).map (join chDot)) ((A'.map Prod.fst).map (join chDot)) ((P'.map Prod.fst).map (join chDot))
          (R'.map Prod.snd) (A'.map Prod.snd) (P'.map Prod.snd) := by
  obtain ⟨R', pR, eR⟩ := perm_map_inv sigOfW (sortRole false (R.map sigOfW)) R
    (by unfold sortRole; simp only [Bool.false_eq_true, if_false]; exact List.mergeSort_perm _ _)
  obtain ⟨A', pA, eA⟩ := perm_map_inv sigOfW (sortRole false (A.map sigOfW)) A
    (by unfold sortRole; simp only [Bool.false_eq_true, if_false]; exact List.mergeSort_perm _ _)
  obtain ⟨P', pP, eP⟩ := perm_map_inv sigOfW (sortRole false (P.map sigOfW)) P
    (by unfold sortRole; simp only [Bool.false_eq_true, if_false]; exact List.mergeSort_perm _ _)
  refine ⟨R', A', P', pR, pA, pP, ?_⟩
  have hsort : formatRxn false false (R.map sigOfW) (A.map sigOfW) (P.map sigOfW) =
      formatRxn true false (R'.map sigOfW) (A'.map sigOfW) (P'.map sigOfW) := by
    rw [eR, eA, eP]; rfl
  rw [hsort]
  have wok : ∀ X X' : List WMol, X'.Perm X → WrittenOK (X.map Prod.fst) → WrittenOK (X'.map Prod.fst) := by
    intro X X' p h m hm
    obtain ⟨x, hx, rfl⟩ := List.mem_map.mp hm
    exact h x.1 (List.mem_map.mpr ⟨x, p.subset hx, rfl⟩)
  have sub : ∀ m ∈ R' ++ A' ++ P', m ∈ R ++ A ++ P := by
    intro m hm
    simp only [List.mem_append] at hm ⊢
    rcases hm with (h | h) | h
    · exact Or.inl (Or.inl (pR.subset h))
    · exact Or.inl (Or.inr (pA.subset h))
    · exact Or.inr (pP.subset h)
  apply read_format_radW natoms R' A' P' (wok R R' pR hR) (wok A A' pA hA) (wok P P' pP hP)
  · intro h
    apply hne
    have h1 := List.append_eq_nil_iff.mp h
    have h2 := List.append_eq_nil_iff.mp h1.1
    have r0 : R = [] := List.Perm.eq_nil (by have := pR.symm; rwa [h2.1] at this)
    have a0 : A = [] := List.Perm.eq_nil (by have := pA.symm; rwa [h2.2] at this)
    have p0 : P = [] := List.Perm.eq_nil (by have := pP.symm; rwa [h1.2] at this)
    rw [r0, a0, p0]
    rfl
  · intro m hm; exact hsp m (sub m hm)
  · intro m hm; exact hn m (sub m hm)

/-! ## `ignore=False`: the strict reader accepts everything the writer writes -/

theorem sig_nospace (R A P : List (List Str))
    (hsp : ∀ m ∈ R ++ A ++ P, ∀ f ∈ m, ∀ c ∈ f, isSpace c = false) :
    (∀ c ∈ join chGt ([R.map (join chDot), A.map (join chDot), P.map (join chDot)].map (join chDot)), isSpace c = false) ∧
    join chGt ([R.map (join chDot), A.map (join chDot), P.map (join chDot)].map (join chDot)) ≠ [] := by
  have roleChars : ∀ X : List (List Str), (∀ m ∈ X, m ∈ R ++ A ++ P) →
      ∀ c ∈ join chDot (X.map (join chDot)), isSpace c = false := by
    intro X hX c hc'
    rcases mem_join chDot _ c hc' with h | ⟨p, hp, hcp⟩
    · subst h; decide
    · obtain ⟨m, hm, e⟩ := List.mem_map.mp hp
      subst e
      rcases mem_join chDot m c hcp with h | ⟨f, hf, hcf⟩
      · subst h; decide
      · exact hsp m (hX m hm) f hf c hcf
  refine ⟨?_, by simp [join]⟩
  intro c hc'
  rcases mem_join chGt _ c hc' with h | ⟨p, hp, hcp⟩
  · subst h; decide
  · simp only [List.map_cons, List.map_nil, List.mem_cons, List.mem_nil_iff, or_false] at hp
    rcases hp with h | h | h
    · subst h; exact roleChars R (fun m hm => by simp [hm]) c hcp
    · subst h; exact roleChars A (fun m hm => by simp [hm]) c hcp
    · subst h; exact roleChars P (fun m hm => by simp [hm]) c hcp

theorem noEmptyPiece_written (X : List (List Str)) (hX : WrittenOK X) :
    hasEmptyPiece (join chDot (X.map (join chDot))) = false ∧ chGt ∉ join chDot (X.map (join chDot)) := by
  have neX : ∀ m ∈ X, m ≠ [] := fun m hm => (hX m hm).1
  rw [join_flatten chDot X neX]
  have frs : ∀ f ∈ X.flatten, f ≠ [] ∧ chDot ∉ f ∧ chGt ∉ f := by
    intro f hf
    obtain ⟨m, hm, hfm⟩ := List.mem_flatten.mp hf
    exact (hX m hm).2 f hfm
  constructor
  · unfold hasEmptyPiece
    by_cases he : X.flatten = []
    · rw [he]; rfl
    · rw [splitOn_join chDot X.flatten he (fun f hf => (frs f hf).2.1)]
      have : X.flatten.any (·.isEmpty) = false := by
        rw [List.any_eq_false]
        intro f hf
        have := (frs f hf).1
        simpa using this
      rw [this, Bool.and_false]
  · intro hmem
    rcases mem_join chDot X.flatten chGt hmem with h | ⟨f, hf, hc⟩
    · simp [chGt, chDot] at h
    · exact (frs f hf).2.2 hc

/-- on every text the writer can emit (any radical indices, any fragment groups) the strict reader (`ignore=False`)
    does exactly what the default reader does -/
theorem readRxnRadOpt_written (natoms : Str → Nat) (R A P : List (List Str)) (idx : List Nat) (gs : List (List Nat))
    (hR : WrittenOK R) (hA : WrittenOK A) (hP : WrittenOK P)
    (hsp : ∀ m ∈ R ++ A ++ P, ∀ f ∈ m, ∀ c ∈ f, isSpace c = false) :
    readRxnRadOpt false natoms (render false ⟨[R.map (join chDot), A.map (join chDot), P.map (join chDot)], idx, gs⟩) =
      readRxnRad natoms (render false ⟨[R.map (join chDot), A.map (join chDot), P.map (join chDot)], idx, gs⟩) := by
  obtain ⟨hsig, hsne⟩ := sig_nospace R A P hsp
  obtain ⟨eR, gR⟩ := noEmptyPiece_written R hR
  obtain ⟨eA, gA⟩ := noEmptyPiece_written A hA
  obtain ⟨eP, gP⟩ := noEmptyPiece_written P hP
  have hsplit := splitOn_join chGt [join chDot (R.map (join chDot)), join chDot (A.map (join chDot)),
    join chDot (P.map (join chDot))] (by simp) (by
      intro p hp
      simp only [List.mem_cons, List.mem_nil_iff, or_false] at hp
      rcases hp with rfl | rfl | rfl <;> assumption)
  unfold readRxnRadOpt
  rw [splitWs_render _ idx gs hsig hsne]
  by_cases hcx : (cxParts idx gs).isEmpty = true
  · simp only [hcx, if_true, List.map_cons, List.map_nil, hsplit, eR, eA, eP, Bool.or_false, Bool.and_false,
      Bool.false_eq_true, if_false]
  · simp only [hcx, Bool.false_eq_true, if_false, List.map_cons, List.map_nil, hsplit, eR, eA, eP, Bool.or_false,
      Bool.and_false]

theorem readRxnRadOpt_format (natoms : Str → Nat) (keep : Bool) (R A P : List WMol)
    (hR : WrittenOK (R.map Prod.fst)) (hA : WrittenOK (A.map Prod.fst)) (hP : WrittenOK (P.map Prod.fst))
    (hsp : ∀ m ∈ R ++ A ++ P, ∀ f ∈ m.1, ∀ c ∈ f, isSpace c = false) :
    readRxnRadOpt false natoms (formatRxn keep false (R.map sigOfW) (A.map sigOfW) (P.map sigOfW)) =
      readRxnRad natoms (formatRxn keep false (R.map sigOfW) (A.map sigOfW) (P.map sigOfW)) := by
  -- the sorted signature is the `!c` signature of permuted roles
  have key : ∀ R A P : List WMol, WrittenOK (R.map Prod.fst) → WrittenOK (A.map Prod.fst) → WrittenOK (P.map Prod.fst) →
      (∀ m ∈ R ++ A ++ P, ∀ f ∈ m.1, ∀ c ∈ f, isSpace c = false) →
      readRxnRadOpt false natoms (formatRxn true false (R.map sigOfW) (A.map sigOfW) (P.map sigOfW)) =
        readRxnRad natoms (formatRxn true false (R.map sigOfW) (A.map sigOfW) (P.map sigOfW)) := by
    intro R A P hR hA hP hsp
    have hsp1 : ∀ m ∈ R.map Prod.fst ++ A.map Prod.fst ++ P.map Prod.fst, ∀ f ∈ m, ∀ c ∈ f, isSpace c = false := by
      intro m hm
      rw [← List.map_append, ← List.map_append] at hm
      obtain ⟨x, hx, rfl⟩ := List.mem_map.mp hm
      exact hsp x hx
    unfold formatRxn
    rw [formatCoreW]
    exact readRxnRadOpt_written natoms _ _ _ _ _ hR hA hP hsp1
  cases keep with
  | true => exact key R A P hR hA hP hsp
  | false =>
    obtain ⟨R', pR, eR⟩ := perm_map_inv sigOfW (sortRole false (R.map sigOfW)) R
      (by unfold sortRole; simp only [Bool.false_eq_true, if_false]; exact List.mergeSort_perm _ _)
    obtain ⟨A', pA, eA⟩ := perm_map_inv sigOfW (sortRole false (A.map sigOfW)) A
      (by unfold sortRole; simp only [Bool.false_eq_true, if_false]; exact List.mergeSort_perm _ _)
    obtain ⟨P', pP, eP⟩ := perm_map_inv sigOfW (sortRole false (P.map sigOfW)) P
      (by unfold sortRole; simp only [Bool.false_eq_true, if_false]; exact List.mergeSort_perm _ _)
    have hsort : formatRxn false false (R.map sigOfW) (A.map sigOfW) (P.map sigOfW) =
        formatRxn true false (R'.map sigOfW) (A'.map sigOfW) (P'.map sigOfW) := by
      rw [eR, eA, eP]; rfl
    rw [hsort]
    have wok : ∀ X X' : List WMol, X'.Perm X → WrittenOK (X.map Prod.fst) → WrittenOK (X'.map Prod.fst) := by
      intro X X' p h m hm
      obtain ⟨x, hx, rfl⟩ := List.mem_map.mp hm
      exact h x.1 (List.mem_map.mpr ⟨x, p.subset hx, rfl⟩)
    apply key R' A' P' (wok R R' pR hR) (wok A A' pA hA) (wok P P' pP hP)
    intro m hm
    apply hsp m
    simp only [List.mem_append] at hm ⊢
    rcases hm with (h | h) | h
    · exact Or.inl (Or.inl (pR.subset h))
    · exact Or.inl (Or.inr (pA.subset h))
    · exact Or.inr (pP.subset h)

end ChythonModel.Proofs.C15
