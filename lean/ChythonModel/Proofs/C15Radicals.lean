import ChythonModel.Proofs.C15Cx
import ChythonModel.Model.C15Radicals
/-!
Reader side of the CXSMILES radical block: `findall(cx_radicals)` on the written block gives the written indices,
`markRadicals` resolves them over the atom counts of the parsed molecules back to the per-molecule flags.
-/
namespace ChythonModel.Proofs.C15
open ChythonModel.Model.C15

/-! ## index resolution -/

/-- positions of `true` (what the writer emits: `n for n, r in enumerate(radicals) if r`) -/
def trueIdx (l : List Bool) : List Nat := l.zipIdx.filterMap fun bi => if bi.1 then some bi.2 else none

theorem mem_zipIdx_filterMap (l : List Bool) (k n : Nat) :
    n ∈ (l.zipIdx k).filterMap (fun bi => if bi.1 then some bi.2 else none) ↔ k ≤ n ∧ l[n - k]? = some true := by
  induction l generalizing k with
  | nil => simp
  | cons b bs ih =>
    rw [List.zipIdx_cons, List.filterMap_cons]
    cases b with
    | true =>
      simp only [if_true, List.mem_cons, ih (k + 1)]
      constructor
      · rintro (h | ⟨h1, h2⟩)
        · subst h; simp
        · refine ⟨by omega, ?_⟩
          have : n - k = (n - (k + 1)) + 1 := by omega
          rw [this, List.getElem?_cons_succ]; exact h2
      · rintro ⟨h1, h2⟩
        by_cases e : n = k
        · exact Or.inl e
        · right
          refine ⟨by omega, ?_⟩
          have : n - k = (n - (k + 1)) + 1 := by omega
          rw [this, List.getElem?_cons_succ] at h2; exact h2
    | false =>
      simp only [Bool.false_eq_true, if_false, ih (k + 1)]
      constructor
      · rintro ⟨h1, h2⟩
        refine ⟨by omega, ?_⟩
        have : n - k = (n - (k + 1)) + 1 := by omega
        rw [this, List.getElem?_cons_succ]; exact h2
      · rintro ⟨h1, h2⟩
        by_cases e : n = k
        · subst e; simp at h2
        · refine ⟨by omega, ?_⟩
          have : n - k = (n - (k + 1)) + 1 := by omega
          rw [this, List.getElem?_cons_succ] at h2; exact h2

theorem mem_trueIdx (l : List Bool) (n : Nat) : n ∈ trueIdx l ↔ l[n]? = some true := by
  unfold trueIdx
  have := mem_zipIdx_filterMap l 0 n
  simpa using this

theorem zipIdx_filterMap_pairwise (l : List Bool) (k : Nat) :
    ((l.zipIdx k).filterMap (fun bi => if bi.1 then some bi.2 else none)).Pairwise (· < ·) := by
  induction l generalizing k with
  | nil => simp
  | cons b bs ih =>
    rw [List.zipIdx_cons, List.filterMap_cons]
    cases b with
    | true =>
      simp only [if_true, List.pairwise_cons]
      refine ⟨?_, ih (k + 1)⟩
      intro n hn
      have := (mem_zipIdx_filterMap bs (k + 1) n).mp hn
      omega
    | false => simpa using ih (k + 1)

theorem trueIdx_nodup (l : List Bool) : (trueIdx l).Nodup := by
  unfold trueIdx List.Nodup
  exact (zipIdx_filterMap_pairwise l 0).imp (by intro a b h; omega)

theorem trueIdx_lt (l : List Bool) (n : Nat) (h : n ∈ trueIdx l) : n < l.length := by
  have := (mem_trueIdx l n).mp h
  rcases Nat.lt_or_ge n l.length with hc | hc
  · exact hc
  · rw [List.getElem?_eq_none hc] at this
    cases this

theorem flagsFrom_eq (rad : List Nat) (start : Nat) (l : List Bool)
    (h : ∀ i (hi : i < l.length), rad.contains (start + i) = l[i]) : flagsFrom rad start l.length = l := by
  unfold flagsFrom
  apply List.ext_getElem
  · simp
  · intro i h1 h2
    simp only [List.getElem_map, List.getElem_range]
    exact h i h2

theorem splitFlags_eq (rad : List Nat) (F : List (List Bool)) :
    ∀ start, (∀ i (hi : i < F.flatten.length), rad.contains (start + i) = F.flatten[i]) →
      splitFlags rad start (F.map List.length) = F := by
  induction F with
  | nil => intro _ _; rfl
  | cons l ls ih =>
    intro start h
    simp only [List.map_cons, splitFlags]
    have h1 : flagsFrom rad start l.length = l := by
      apply flagsFrom_eq
      intro i hi
      have hi' : i < (l :: ls).flatten.length := by rw [List.flatten_cons, List.length_append]; omega
      rw [h i hi']
      simp only [List.flatten_cons]
      rw [List.getElem_append_left hi]
    have h2 : splitFlags rad (start + l.length) (ls.map List.length) = ls := by
      apply ih
      intro i hi
      have hi' : l.length + i < (l :: ls).flatten.length := by rw [List.flatten_cons, List.length_append]; omega
      have := h (l.length + i) hi'
      rw [Nat.add_assoc, this]
      simp only [List.flatten_cons]
      rw [List.getElem_append_right (by omega)]
      simp
    rw [h1, h2]

theorem sum_map_length (F : List (List Bool)) : (F.map List.length).sum = F.flatten.length := by
  induction F with
  | nil => rfl
  | cons l ls ih => simp only [List.map_cons, List.sum_cons, List.flatten_cons, List.length_append, ih]

/-- **index resolution inverts the writer's enumeration**: the positions of the `true` flags over the concatenated
    molecules, resolved over the atom counts, give back the flags of every molecule -/
theorem markRadicals_trueIdx (F : List (List Bool)) :
    markRadicals (F.map List.length) (trueIdx F.flatten) = .ok F := by
  unfold markRadicals
  have hno : (trueIdx F.flatten).any (fun x => decide ((F.map List.length).sum ≤ x)) = false := by
    rw [List.any_eq_false]
    intro x hx
    have := trueIdx_lt _ x hx
    have e := sum_map_length F
    simp only [decide_eq_true_eq, Nat.not_le]
    omega
  rw [hno]
  simp only [Bool.false_eq_true, if_false]
  rw [splitFlags_eq]
  intro i hi
  simp only [Nat.zero_add]
  cases hb : F.flatten[i] with
  | true =>
    have : i ∈ trueIdx F.flatten := (mem_trueIdx _ i).mpr (by rw [List.getElem?_eq_getElem hi, hb])
    simpa using this
  | false =>
    have : i ∉ trueIdx F.flatten := by
      intro hm
      have := (mem_trueIdx _ i).mp hm
      rw [List.getElem?_eq_getElem hi, hb] at this
      cases this
    simpa using this

/-! ## general specification of `markRadicals` (any indices, any counts) -/

theorem splitFlags_shape (rad : List Nat) (counts : List Nat) :
    ∀ start, (splitFlags rad start counts).map List.length = counts ∧
      ∀ i (hi : i < (splitFlags rad start counts).flatten.length),
        (splitFlags rad start counts).flatten[i] = rad.contains (start + i) := by
  induction counts with
  | nil => intro _; exact ⟨rfl, by intro i hi; simp [splitFlags] at hi⟩
  | cons n ns ih =>
    intro start
    obtain ⟨ih1, ih2⟩ := ih (start + n)
    have hl : (flagsFrom rad start n).length = n := by simp [flagsFrom]
    refine ⟨by simp [splitFlags, ih1, hl], ?_⟩
    intro i hi
    simp only [splitFlags, List.flatten_cons] at hi ⊢
    by_cases h : i < n
    · rw [List.getElem_append_left (by omega)]
      simp [flagsFrom]
    · rw [List.getElem_append_right (by omega)]
      have hi2 : i - (flagsFrom rad start n).length < (splitFlags rad (start + n) ns).flatten.length := by
        rw [List.length_append] at hi; omega
      rw [ih2 _ hi2, hl]
      congr 1; omega

/-! ## `findall(cx_radicals)` on the written block -/

/-- `,n,n…` -/
def commaNumStr : List Nat → Str
  | [] => []
  | n :: ns => chComma :: digits n ++ commaNumStr ns

theorem join_commaNums_cons (n : Nat) (ns : List Nat) :
    join chComma ((n :: ns).map digits) = digits n ++ commaNumStr ns := by
  induction ns generalizing n with
  | nil => simp [join, commaNumStr]
  | cons m ms ih =>
    simp only [List.map_cons, join, commaNumStr] at ih ⊢
    rw [ih m]
    rfl

theorem head_commaNumStr_append (ns : List Nat) (rest : Str) (hr : ∀ c, rest.head? = some c → isDigit c = false) :
    ∀ c, (commaNumStr ns ++ rest).head? = some c → isDigit c = false := by
  cases ns with
  | nil => simpa [commaNumStr] using hr
  | cons n ns => intro c hc; simp [commaNumStr] at hc; subst hc; decide

theorem commaNums_render (ns : List Nat) (rest : Str)
    (hhead : ∀ c, rest.head? = some c → isDigit c = false)
    (hstop : ∀ f, commaNums f rest = ([], rest)) :
    ∀ fuel, (commaNumStr ns ++ rest).length ≤ fuel → commaNums fuel (commaNumStr ns ++ rest) = (ns, rest) := by
  induction ns with
  | nil => intro fuel _; simpa [commaNumStr] using hstop fuel
  | cons n ns ih =>
    intro fuel hf
    simp only [commaNumStr, List.cons_append, List.append_assoc, List.length_cons, List.length_append] at hf ⊢
    cases fuel with
    | zero => omega
    | succ f =>
      have hspan := spanDigits_append (digits n) (commaNumStr ns ++ rest) (digits_all n)
        (head_commaNumStr_append ns rest hhead)
      simp only [commaNums, beq_self_eq_true, if_true, hspan]
      have hne := digits_ne_nil n
      have ihf := ih f (by simp only [List.length_append]; omega)
      cases hd : digits n with
      | nil => exact absurd hd hne
      | cons d ds =>
        simp only [ihf]
        rw [← hd, toNat_digits]

theorem matchRadical_not_caret (c : Nat) (s : Str) (h : c ≠ chCaret) : matchRadical (c :: s) = none := by
  unfold matchRadical
  split
  · rename_i c0 c1 c2 rest heq
    simp only [List.cons.injEq] at heq
    have : (c0 == chCaret) = false := by rw [← heq.1]; simpa using h
    simp [this]
  · rfl

theorem findRadicals_noCaret : ∀ (fuel : Nat) (s : Str), (∀ c ∈ s, c ≠ chCaret) → findRadicals fuel s = []
  | 0, _, _ => rfl
  | _ + 1, [], _ => rfl
  | fuel + 1, c :: cs, h => by
    simp only [findRadicals, matchRadical_not_caret c cs (h c List.mem_cons_self)]
    exact findRadicals_noCaret fuel cs (fun c' hc' => h c' (List.mem_cons_of_mem _ hc'))

/-- the written radical part `^1:i,i…` followed by `rest` (the closing bar, or `,f:…|`) is found as exactly these numbers -/
theorem findRadicals_render (i : Nat) (is : List Nat) (rest : Str)
    (hhead : ∀ c, rest.head? = some c → isDigit c = false)
    (hstop : ∀ f, commaNums f rest = ([], rest))
    (hrest : ∀ c ∈ rest, c ≠ chCaret) (fuel : Nat) :
    findRadicals (fuel + 2)
      (chBar :: (chCaret :: 49 :: chColon :: join chComma ((i :: is).map digits)) ++ rest) = i :: is := by
  have hb : chBar ≠ chCaret := by decide
  simp only [List.cons_append, findRadicals, matchRadical_not_caret chBar _ hb]
  rw [join_commaNums_cons, List.append_assoc]
  have hspan := spanDigits_append (digits i) (commaNumStr is ++ rest) (digits_all i)
    (head_commaNumStr_append is rest hhead)
  have hm : matchRadical (chCaret :: 49 :: chColon :: (digits i ++ (commaNumStr is ++ rest))) = some (i :: is, rest) := by
    unfold matchRadical
    simp only [beq_self_eq_true, Bool.true_and, Bool.and_true]
    have h49 : (decide (49 ≤ 49) && decide (49 ≤ 55)) = true := by decide
    simp only [h49, if_true, hspan]
    have hne := digits_ne_nil i
    cases hd : digits i with
    | nil => exact absurd hd hne
    | cons d ds =>
      simp only [commaNums_render is rest hhead hstop _ (Nat.le_refl _)]
      rw [← hd, toNat_digits]
  rw [hm]
  simp only [findRadicals_noCaret fuel rest hrest, List.append_nil]

theorem commaNums_stop_bar : ∀ f, commaNums f [chBar] = ([], [chBar]) := by
  intro f; cases f <;> rfl

theorem commaNums_stop_f (tail : Str) : ∀ f, commaNums f (chComma :: chF :: tail) = ([], chComma :: chF :: tail) := by
  intro f
  cases f with
  | zero => rfl
  | succ f => simp [commaNums, spanDigits, isDigit, chF]

/-! ## the written text: tokens, radical indices -/

def radStr (idx : List Nat) : Str := chCaret :: 49 :: chColon :: join chComma (idx.map digits)
def fStr (gs : List (List Nat)) : Str := chF :: chColon :: join chComma (gs.map fun g => join chDot (g.map digits))

/-- the parts of the CXSMILES block as `render` assembles them -/
def cxParts (idx : List Nat) (gs : List (List Nat)) : List Str :=
  (if idx.isEmpty then [] else [radStr idx]) ++ (if gs.isEmpty then [] else [fStr gs])

theorem render_eq (roles : List (List Str)) (idx : List Nat) (gs : List (List Nat)) :
    render false ⟨roles, idx, gs⟩ =
      if (cxParts idx gs).isEmpty then join chGt (roles.map (join chDot))
      else join chGt (roles.map (join chDot)) ++ chSpace :: chBar :: join chComma (cxParts idx gs) ++ [chBar] := rfl

theorem fStr_chars' (gs : List (List Nat)) (c : Nat) (h : c ∈ fStr gs) : isSpace c = false ∧ c ≠ chCaret := by
  unfold fStr at h
  simp only [List.mem_cons] at h
  rcases h with h | h | h
  · subst h; decide
  · subst h; decide
  · rcases mem_join chComma _ c h with h | ⟨p, hp, hc⟩
    · subst h; decide
    · obtain ⟨g, _, e⟩ := List.mem_map.mp hp
      subst e
      rcases numbers_chars chDot g c hc with h | h
      · subst h; decide
      · refine ⟨(digit_not_space c h).1, ?_⟩
        simp only [isDigit, Bool.and_eq_true, decide_eq_true_eq] at h
        simp [chCaret]; omega

theorem cx_chars (idx : List Nat) (gs : List (List Nat)) :
    ∀ c ∈ join chComma (cxParts idx gs), isSpace c = false := by
  intro c hc
  rcases mem_join chComma _ c hc with h | ⟨p, hp, hcp⟩
  · subst h; decide
  · unfold cxParts at hp
    rcases List.mem_append.mp hp with hp | hp
    · by_cases hi : idx.isEmpty
      · simp [hi] at hp
      · simp only [hi, Bool.false_eq_true, if_false, List.mem_singleton] at hp
        subst hp
        exact (radStr_chars idx c hcp).1
    · by_cases hg : gs.isEmpty
      · simp [hg] at hp
      · simp only [hg, Bool.false_eq_true, if_false, List.mem_singleton] at hp
        subst hp
        exact (fStr_chars' gs c hcp).1

/-- `data.split()` of the written text: the signature and the CXSMILES token -/
theorem splitWs_render (roles : List (List Str)) (idx : List Nat) (gs : List (List Nat))
    (hsp : ∀ c ∈ join chGt (roles.map (join chDot)), isSpace c = false)
    (hne : join chGt (roles.map (join chDot)) ≠ []) :
    splitWs (render false ⟨roles, idx, gs⟩) =
      if (cxParts idx gs).isEmpty then [join chGt (roles.map (join chDot))]
      else [join chGt (roles.map (join chDot)), chBar :: join chComma (cxParts idx gs) ++ [chBar]] := by
  rw [render_eq]
  by_cases hcx : (cxParts idx gs).isEmpty
  · simp only [hcx, if_true]
    exact splitWs_single _ hne hsp
  · simp only [hcx, Bool.false_eq_true, if_false]
    have e : join chGt (roles.map (join chDot)) ++ chSpace :: chBar :: join chComma (cxParts idx gs) ++ [chBar] =
        join chGt (roles.map (join chDot)) ++ chSpace :: (chBar :: join chComma (cxParts idx gs) ++ [chBar]) := by simp
    rw [e]
    apply splitWs_pair _ _ hne (by simp) hsp
    intro c hc
    simp only [List.cons_append, List.mem_cons, List.mem_append, List.mem_nil_iff, or_false] at hc
    rcases hc with h | h | h
    · subst h; decide
    · exact cx_chars idx gs c h
    · subst h; decide

theorem radicalsOf_single (w : Str) : radicalsOf [w] = [] := rfl

theorem radicalsOf_token (w body : Str) :
    radicalsOf [w, chBar :: body ++ [chBar]] =
      (let r := findRadicals ((chBar :: body ++ [chBar]).length + 1) (chBar :: body ++ [chBar])
       if r.eraseDups.length != r.length then [] else r) := by
  unfold radicalsOf
  have h1 : (chBar :: body ++ [chBar]).head? = some chBar := rfl
  have h2 : (chBar :: body ++ [chBar]).getLast? = some chBar := by
    rw [show chBar :: body ++ [chBar] = (chBar :: body) ++ [chBar] from rfl, List.getLast?_append]
    simp
  simp only [h1, h2, beq_self_eq_true, Bool.and_self, if_true]

/-- **the radical indices of the written block are read back**: `findall(cx_radicals)` + `int` + collision test on the
    CXSMILES token of the written text give exactly the written indices (any fragment block next to them) -/
theorem radicalsOf_render (roles : List (List Str)) (idx : List Nat) (gs : List (List Nat))
    (hsp : ∀ c ∈ join chGt (roles.map (join chDot)), isSpace c = false)
    (hne : join chGt (roles.map (join chDot)) ≠ [])
    (hnd : idx.Nodup) :
    radicalsOf (splitWs (render false ⟨roles, idx, gs⟩)) = idx := by
  rw [splitWs_render roles idx gs hsp hne]
  cases idx with
  | nil =>
    cases gs with
    | nil => rfl
    | cons g gs' =>
      have hp : cxParts [] (g :: gs') = [fStr (g :: gs')] := rfl
      rw [hp]
      simp only [List.isEmpty_cons, Bool.false_eq_true, if_false, join]
      rw [radicalsOf_token]
      have hnc : ∀ c ∈ chBar :: fStr (g :: gs') ++ [chBar], c ≠ chCaret := by
        intro c hc
        simp only [List.cons_append, List.mem_cons, List.mem_append, List.mem_nil_iff, or_false] at hc
        rcases hc with h | h | h
        · subst h; decide
        · exact (fStr_chars' _ c h).2
        · subst h; decide
      rw [findRadicals_noCaret _ _ hnc]
      rfl
  | cons i is =>
    have fin : ∀ rest : Str, (∀ c, rest.head? = some c → isDigit c = false) → (∀ f, commaNums f rest = ([], rest)) →
        (∀ c ∈ rest, c ≠ chCaret) → ∀ n, 2 ≤ n →
        (let r := findRadicals n (chBar :: radStr (i :: is) ++ rest)
         if r.eraseDups.length != r.length then [] else r) = i :: is := by
      intro rest h1 h2 h3 n hn
      obtain ⟨fuel, rfl⟩ : ∃ fuel, n = fuel + 2 := ⟨n - 2, by omega⟩
      have := findRadicals_render i is rest h1 h2 h3 fuel
      unfold radStr
      simp only [this, eraseDups_of_nodup _ hnd, bne_self_eq_false, Bool.false_eq_true, if_false]
    cases gs with
    | nil =>
      have hp : cxParts (i :: is) [] = [radStr (i :: is)] := rfl
      rw [hp]
      simp only [List.isEmpty_cons, Bool.false_eq_true, if_false, join]
      rw [radicalsOf_token]
      have hbar : ∀ c, [chBar].head? = some c → isDigit c = false := by
        intro c hc; simp at hc; subst hc; decide
      have hnc : ∀ c ∈ [chBar], c ≠ chCaret := by
        intro c hc; simp at hc; subst hc; decide
      have := fin [chBar] hbar commaNums_stop_bar hnc ((chBar :: radStr (i :: is) ++ [chBar]).length + 1)
        (by simp only [List.length_append, List.length_cons]; omega)
      simpa using this
    | cons g gs' =>
      have hp : cxParts (i :: is) (g :: gs') = [radStr (i :: is), fStr (g :: gs')] := rfl
      rw [hp]
      simp only [List.isEmpty_cons, Bool.false_eq_true, if_false, join]
      rw [radicalsOf_token]
      have hh : ∀ c, (chComma :: (fStr (g :: gs') ++ [chBar])).head? = some c → isDigit c = false := by
        intro c hc; simp at hc; subst hc; decide
      have hnc : ∀ c ∈ chComma :: (fStr (g :: gs') ++ [chBar]), c ≠ chCaret := by
        intro c hc
        simp only [List.mem_cons, List.mem_append, List.mem_nil_iff, or_false] at hc
        rcases hc with h | h | h
        · subst h; decide
        · exact (fStr_chars' _ c h).2
        · subst h; decide
      have hstop : ∀ f, commaNums f (chComma :: (fStr (g :: gs') ++ [chBar])) = ([], chComma :: (fStr (g :: gs') ++ [chBar])) := by
        intro f
        exact commaNums_stop_f _ f
      have := fin (chComma :: (fStr (g :: gs') ++ [chBar])) hh hstop hnc
        ((chBar :: (radStr (i :: is) ++ chComma :: fStr (g :: gs')) ++ [chBar]).length + 1)
        (by simp only [List.length_append, List.length_cons]; omega)
      simpa using this

end ChythonModel.Proofs.C15
