import ChythonModel.Proofs.C14Neutral
import ChythonModel.Proofs.C14IsoSound
/-!
# C14 — helper lemmas: what `neutralize` leaves behind (donors are cations, acceptors anions, no donor is left once all gave
# their proton). The one-atom acid pattern is handled directly (`getMapping_single`: the matcher on a one-step query is a
# filter); the multi-atom base patterns through C07's soundness (`Proofs/C14IsoSound.lean: getMapping_sound`, assembled from C07's helper lemmas).
-/
namespace ChythonModel.Proofs.C14
open ChythonModel.Model ChythonModel.Model.Std ChythonModel.Gen.Rules

/-! ## the matcher on a one-atom pattern -/

theorem dict_set_nil (k v : Nat) : Iso.Dict.set [] k v = [(k, v)] := by simp [Iso.Dict.set]

theorem runLoop_single (e : Iso.Env) (s : Iso.Step) (h : e.lq = [s]) :
    ∀ (ns : List Nat) (fuel : Nat) (path : List Nat) (acc : List Iso.Dict), ns.length < fuel →
      Iso.runLoop e 0 fuel (ns.map (·, 0)) path [] [] acc = some (acc.reverse ++ ns.map fun n => [(s.front, n)]) := by
  intro ns
  induction ns with
  | nil =>
    intro fuel path acc hf
    cases fuel with
    | zero => omega
    | succ k => simp [Iso.runLoop]
  | cons n tl ih =>
    intro fuel path acc hf
    cases fuel with
    | zero => omega
    | succ k =>
      simp only [List.map_cons, Iso.runLoop, h, List.getElem?_cons_zero, beq_self_eq_true, if_true, dict_set_nil]
      rw [ih k path _ (by simp only [List.length_cons] at hf; omega)]
      simp

theorem roots_length_le (e : Iso.Env) : (Iso.roots e).length ≤ e.oAtoms.length := by
  unfold Iso.roots
  split
  · simp
  · exact List.length_filter_le _ _

theorem getMapping_single (e : Iso.Env) (s : Iso.Step) (h : e.lq = [s]) :
    Iso.getMapping e = some ((Iso.roots e).reverse.map fun n => [(s.front, n)]) := by
  unfold Iso.getMapping
  rw [h]
  simp only [List.length_cons, List.length_nil, Nat.zero_add, Nat.sub_self]
  have hf : ((Iso.roots e).reverse).length < Iso.machineFuel e := by
    have := roots_length_le e
    unfold Iso.machineFuel
    rw [List.length_reverse]
    have h1 : e.oAtoms.length ≤ e.oAtoms.length * (e.oAtoms.length + 1) ^ (e.lq.length + 1) := by
      apply Nat.le_mul_of_pos_right
      exact Nat.pow_pos (by omega)
    omega
  have := runLoop_single e s h (Iso.roots e).reverse (Iso.machineFuel e) [] [] hf
  simpa using this


/-! ## `matchFirstAtoms` on the one-atom acid pattern: a filter -/

/-- the donor pattern of `neutralize` (`tautomers/_acid.py: stripped_rules[0]`, regenerated) -/
def acid0 : Pattern := acidStripped.headD default

theorem acidStripped_eq : acidStripped = [acid0] := by decide +kernel

theorem compile_acid0 : Iso.compileQuery (graphOfPattern acid0) = some ([[⟨1, none⟩]], []) := by decide +kernel

theorem mem_setAdd_iff (s : List Nat) (x y : Nat) : y ∈ setAdd s x ↔ y ∈ s ∨ y = x := by
  unfold setAdd
  split
  · rename_i h
    constructor
    · exact Or.inl
    · rintro (h1 | rfl)
      · exact h1
      · simpa using h
  · simp

theorem mem_setUnion_iff (xs : List Nat) : ∀ (s : List Nat) (y : Nat), y ∈ setUnion s xs ↔ y ∈ s ∨ y ∈ xs := by
  induction xs with
  | nil => intro s y; simp [setUnion]
  | cons x tl ih =>
    intro s y
    unfold setUnion at ih ⊢
    rw [List.foldl_cons, ih, mem_setAdd_iff]
    simp only [List.mem_cons]
    constructor
    · rintro ((h | h) | h)
      · exact Or.inl h
      · exact Or.inr (Or.inl h)
      · exact Or.inr (Or.inr h)
    · rintro (h | h | h)
      · exact Or.inl (Or.inl h)
      · exact Or.inl (Or.inr h)
      · exact Or.inr h

/-- is `x` a donor: an atom of some component that compares equal to the acid query atom -/
def isDonor (m : Mol) (L : Labels) (comps : List (List Nat)) (x : Nat) : Prop :=
  x ∈ m.ids ∧ (∃ cand ∈ comps, cand.contains x = true) ∧ atomOk acid0 m L 1 x = true

theorem lookup_one_dicts (ns : List Nat) :
    (ns.map fun n => ([(1, n)] : Iso.Dict)).mapM (fun (d : Iso.Dict) => d.lookup 1) = some ns := by
  induction ns with
  | nil => rfl
  | cons n tl ih => simp [List.mapM_cons, ih, List.lookup]

/-- the environment `matchFirstAtoms` builds for the acid pattern and one component -/
def donorEnv (m : Mol) (L : Labels) (cand : List Nat) : Iso.Env :=
  { lq := [⟨1, none⟩], cl := [], oAtoms := m.ids, t := graphOfMol m, scope := fun n => cand.contains n,
    atomOk := atomOk acid0 m L, bondOk := bondOk acid0 m L }

def donorStep (m : Mol) (L : Labels) (acc : List Nat) (cand : List Nat) : Option (List Nat) :=
  match Iso.getMapping (donorEnv m L cand) with
  | none => none
  | some ds => (ds.mapM fun (d : Iso.Dict) => d.lookup 1).map fun xs => setUnion acc xs

theorem donorStep_eq (m : Mol) (L : Labels) (acc cand : List Nat) :
    donorStep m L acc cand = some (setUnion acc (Iso.roots (donorEnv m L cand)).reverse) := by
  unfold donorStep
  rw [getMapping_single _ ⟨1, none⟩ rfl]
  simp only [lookup_one_dicts, Option.map_some]

theorem mem_roots_donorEnv (m : Mol) (L : Labels) (cand : List Nat) (x : Nat) :
    x ∈ (Iso.roots (donorEnv m L cand)).reverse ↔ x ∈ m.ids ∧ cand.contains x = true ∧ atomOk acid0 m L 1 x = true := by
  simp only [Iso.roots, donorEnv, List.mem_reverse, List.mem_filter, Bool.and_eq_true]

theorem donors_fold (m : Mol) (L : Labels) :
    ∀ (comps : List (List Nat)) (acc : List Nat),
      ∃ r, comps.foldlM (donorStep m L) acc = some r ∧
        ∀ x, x ∈ r ↔ x ∈ acc ∨ (x ∈ m.ids ∧ (∃ cand ∈ comps, cand.contains x = true) ∧ atomOk acid0 m L 1 x = true) := by
  intro comps
  induction comps with
  | nil => intro acc; exact ⟨acc, rfl, by simp⟩
  | cons cand rest ih =>
    intro acc
    simp only [List.foldlM_cons, donorStep_eq, Option.bind_eq_bind, Option.bind_some]
    obtain ⟨r, hr, hmem⟩ := ih (setUnion acc (Iso.roots (donorEnv m L cand)).reverse)
    refine ⟨r, hr, ?_⟩
    intro x
    rw [hmem, mem_setUnion_iff, mem_roots_donorEnv]
    constructor
    · rintro ((h | ⟨h1, h2, h3⟩) | ⟨h1, ⟨c, hc, hx⟩, h3⟩)
      · exact Or.inl h
      · exact Or.inr ⟨h1, ⟨cand, List.mem_cons_self, h2⟩, h3⟩
      · exact Or.inr ⟨h1, ⟨c, List.mem_cons_of_mem _ hc, hx⟩, h3⟩
    · rintro (h | ⟨h1, ⟨c, hc, hx⟩, h3⟩)
      · exact Or.inl (Or.inl h)
      · rcases List.mem_cons.mp hc with rfl | hc
        · exact Or.inl (Or.inr ⟨h1, hx, h3⟩)
        · exact Or.inr ⟨h1, ⟨c, hc, hx⟩, h3⟩

/-- `matchFirstAtoms acidStripped` never crashes and returns exactly the donors -/
theorem donors_spec (m : Mol) (L : Labels) (comps : List (List Nat)) :
    ∃ r, matchFirstAtoms acidStripped m L comps = some r ∧ ∀ x, x ∈ r ↔ isDonor m L comps x := by
  obtain ⟨r, hr, hmem⟩ := donors_fold m L comps []
  refine ⟨r, ?_, fun x => by rw [hmem]; simp [isDonor]⟩
  unfold matchFirstAtoms
  rw [acidStripped_eq]
  simp only [List.foldlM_cons, List.foldlM_nil, compile_acid0]
  show (comps.foldlM (donorStep m L) []).bind pure = some r
  rw [hr]; rfl


/-! ## charges atom by atom after a fold of proton moves -/

theorem lookup_isSome_of_mem_keys : ∀ (l : List (Nat × Atom)) (x : Nat), x ∈ l.map (·.1) → ∃ a, l.lookup x = some a := by
  intro l
  induction l with
  | nil => intro x h; simp at h
  | cons p tl ih =>
    intro x h
    obtain ⟨k, b⟩ := p
    by_cases hk : x = k
    · subst hk; exact ⟨b, by simp [List.lookup]⟩
    · have hne : (x == k) = false := beq_false_of_ne hk
      simp only [List.map_cons, List.mem_cons] at h
      rcases h with h | h
      · exact absurd h hk
      · obtain ⟨a, ha⟩ := ih x h
        exact ⟨a, by simp only [List.lookup, hne]; exact ha⟩

theorem atom?_isSome_of_mem_ids (m : Mol) (x : Nat) (h : x ∈ m.ids) : ∃ a, m.atom? x = some a :=
  lookup_isSome_of_mem_keys m.atoms x h

theorem deprotonate_atom (m m' : Mol) (n : Nat) (h : deprotonate m n = some m') (x : Nat) (a : Atom) (ha : m.atom? x = some a) :
    ∃ a', m'.atom? x = some a' ∧ a'.charge = a.charge - (if x = n then 1 else 0) ∧ (x ≠ n → a' = a) := by
  unfold deprotonate at h
  cases hn : m.atom? n with
  | none => simp [hn, bind] at h
  | some b =>
    cases hh : b.implH with
    | none => simp [hn, hh, bind] at h
    | some k =>
      simp only [hn, hh, bind, Option.bind, pure] at h
      split at h
      · simp at h
      · simp only [Option.some.injEq] at h
        subst h
        rw [atom?_updAtom, ha]
        by_cases hx : x = n
        · subst hx; simp
        · have : (x == n) = false := beq_false_of_ne hx
          simp [this, hx]

theorem protonate_atom (m m' : Mol) (n : Nat) (h : protonate m n = some m') (x : Nat) (a : Atom) (ha : m.atom? x = some a) :
    ∃ a', m'.atom? x = some a' ∧ a'.charge = a.charge + (if x = n then 1 else 0) ∧ (x ≠ n → a' = a) := by
  unfold protonate at h
  cases hn : m.atom? n with
  | none => simp [hn, bind] at h
  | some b =>
    cases hh : b.implH with
    | none => simp [hn, hh, bind] at h
    | some k =>
      simp only [hn, hh, bind, Option.bind, pure, Option.some.injEq] at h
      subst h
      rw [atom?_updAtom, ha]
      by_cases hx : x = n
      · subst hx; simp
      · have : (x == n) = false := beq_false_of_ne hx
        simp [this, hx]

theorem foldOpt_atom (f : Mol → Nat → Option Mol) (δ : Int)
    (hf : ∀ m m' n, f m n = some m' → ∀ x a, m.atom? x = some a →
      ∃ a', m'.atom? x = some a' ∧ a'.charge = a.charge + δ * (if x = n then 1 else 0) ∧ (x ≠ n → a' = a)) :
    ∀ (ns : List Nat) (m m' : Mol), foldOpt f ns m = some m' → ∀ x a, m.atom? x = some a →
      ∃ a', m'.atom? x = some a' ∧ a'.charge = a.charge + δ * (ns.count x : Int) ∧ (x ∉ ns → a' = a) := by
  intro ns
  induction ns with
  | nil => intro m m' h x a ha; simp only [foldOpt, Option.some.injEq] at h; subst h; exact ⟨a, ha, by simp, fun _ => rfl⟩
  | cons n ns ih =>
    intro m m' h x a ha
    rw [foldOpt] at h
    cases h1 : f m n with
    | none => simp [h1] at h
    | some m1 =>
      simp only [h1, Option.bind] at h
      obtain ⟨a1, ha1, hc1, hu1⟩ := hf _ _ _ h1 x a ha
      obtain ⟨a2, ha2, hc2, hu2⟩ := ih _ _ h x a1 ha1
      refine ⟨a2, ha2, ?_, ?_⟩
      · rw [hc2, hc1, List.count_cons]
        by_cases hx : x = n
        · subst hx; simp; rw [Int.mul_add]; omega
        · have : (n == x) = false := beq_false_of_ne (fun e => hx e.symm)
          simp [hx, this]
      · intro hnot
        simp only [List.mem_cons, not_or] at hnot
        rw [hu2 hnot.2, hu1 hnot.1]

theorem neutralizeWith_atom (m o : Mol) (ds as : List Nat) (h : neutralizeWith m ds as = some o) (x : Nat) (a : Atom)
    (ha : m.atom? x = some a) :
    ∃ a', o.atom? x = some a' ∧ a'.charge = a.charge - (ds.count x : Int) + (as.count x : Int) ∧
      (x ∉ ds → x ∉ as → a' = a) := by
  unfold neutralizeWith at h
  cases h1 : foldOpt deprotonate ds m with
  | none => simp [h1] at h
  | some m1 =>
    simp only [h1, Option.bind] at h
    obtain ⟨a1, ha1, hc1, hu1⟩ := foldOpt_atom deprotonate (-1)
      (fun m m' n hh x a ha => by
        obtain ⟨a', h1, h2, h3⟩ := deprotonate_atom m m' n hh x a ha
        exact ⟨a', h1, by rw [h2]; split <;> omega, h3⟩) ds m m1 h1 x a ha
    obtain ⟨a2, ha2, hc2, hu2⟩ := foldOpt_atom protonate 1
      (fun m m' n hh x a ha => by
        obtain ⟨a', h1, h2, h3⟩ := protonate_atom m m' n hh x a ha
        exact ⟨a', h1, by rw [h2]; split <;> omega, h3⟩) as m1 o h x a1 ha1
    exact ⟨a2, ha2, by rw [hc2, hc1]; omega, fun h1 h2 => by rw [hu2 h2, hu1 h1]⟩


theorem count_eq_one_of_nodup : ∀ (l : List Nat) (x : Nat), l.Nodup → x ∈ l → l.count x = 1 := by
  intro l
  induction l with
  | nil => intro x _ hx; simp at hx
  | cons y tl ih =>
    intro x h hx
    rw [List.nodup_cons] at h
    rw [List.count_cons]
    by_cases hxy : x = y
    · subst hxy
      have : tl.count x = 0 := List.count_eq_zero.mpr h.1
      simp [this]
    · have hx' : x ∈ tl := by
        rcases List.mem_cons.mp hx with e | e
        · exact absurd e hxy
        · exact e
      have : (y == x) = false := beq_false_of_ne (fun e => hxy e.symm)
      simp [this, ih x h.2 hx']

/-- a live match pins the charge: a non-metal query atom `u` of `p` that compares equal to atom `x` of the live molecule
    (`atomOk` = `QueryElement.__eq__`, C08's model) forces `x` to carry exactly the pattern charge -/
theorem atomOk_pins_charge (p : Pattern) (m : Mol) (L : Labels) (u x : Nat) (q : Query.QAtom)
    (hq : p.atoms.lookup u = some q) (hk : q.kind ≠ .metal) (h : atomOk p m L u x = true) :
    ∃ a, m.atom? x = some a ∧ a.charge = q.charge := by
  unfold atomOk at h
  rw [hq] at h
  cases hl : liveAtom m L x with
  | none => simp [hl] at h
  | some ma =>
    simp only [hl] at h
    unfold liveAtom at hl
    cases ha : m.atom? x with
    | none => simp [ha, bind] at hl
    | some a =>
      cases hlab : L.atoms.lookup x with
      | none => simp [ha, hlab, bind] at hl
      | some l =>
        simp only [ha, hlab, bind, Option.bind, pure, Option.some.injEq] at hl
        subst hl
        refine ⟨a, rfl, ?_⟩
        have tail : ∀ iso, Query.extendedTail q iso
            { z := a.z, isotope := a.isotope, charge := a.charge, radical := a.radical, neighbors := l.neighbors,
              hybridization := l.hybridization, ringSizes := l.ringSizes, implH := a.implH, heteroatoms := l.heteroatoms } = true →
            a.charge = q.charge := by
          intro iso ht
          unfold Query.extendedTail at ht
          split at ht
          · simp at ht
          · rename_i hne
            simp only [bne_iff_ne, ne_eq, Decidable.not_not] at hne
            exact hne.symm
        unfold Query.pyEq at h
        split at h
        · split at h
          · simp at h
          · exact tail _ h
        · exact tail _ h
        · split at h
          · simp at h
          · exact tail _ h
        · rename_i hm; exact absurd hm hk

theorem atomOk_congr (p : Pattern) (m o : Mol) (L : Labels) (u x : Nat) (h : o.atom? x = m.atom? x) :
    atomOk p o L u x = atomOk p m L u x := by
  unfold atomOk liveAtom
  rw [h]

theorem acid0_atom : ∃ q, acid0.atoms.lookup 1 = some q ∧ q.kind ≠ .metal ∧ q.charge = 1 := ⟨_, rfl, by decide, by decide⟩

/-- a donor carries `+1` -/
theorem donor_charge (m : Mol) (L : Labels) (comps : List (List Nat)) (x : Nat) (h : isDonor m L comps x) :
    ∃ a, m.atom? x = some a ∧ a.charge = 1 := by
  obtain ⟨q, hq, hk, hc⟩ := acid0_atom
  obtain ⟨a, ha, hac⟩ := atomOk_pins_charge acid0 m L 1 x q hq hk h.2.2
  exact ⟨a, ha, hac.trans hc⟩

/-- **once every donor has given its proton, no donor is left**: if all donors `ds` of `m` are deprotonated and any duplicate-free
    list of anions is protonated, the stripped acid pattern matches nowhere in the result -/
theorem no_donor_left (m o : Mol) (L : Labels) (comps : List (List Nat)) (ds as' : List Nat)
    (hd : matchFirstAtoms acidStripped m L comps = some ds)
    (hnd : as'.Nodup) (hacc : ∀ x ∈ as', ∃ a, m.atom? x = some a ∧ a.charge = -1)
    (ho : neutralizeWith m ds as' = some o) :
    matchFirstAtoms acidStripped o L comps = some [] := by
  obtain ⟨r, hr, hmem⟩ := donors_spec o L comps
  obtain ⟨r0, hr0, hmem0⟩ := donors_spec m L comps
  rw [hd] at hr0
  simp only [Option.some.injEq] at hr0
  subst hr0
  have hmove := neutralizeWith_protonMove m o ds as' ho
  suffices hnil : r = [] by rw [hr, hnil]
  apply List.eq_nil_iff_forall_not_mem.mpr
  intro x hx
  have hdon := (hmem x).mp hx
  obtain ⟨ao, hao, hao1⟩ := donor_charge o L comps x hdon
  have hxm : x ∈ m.ids := by rw [← hmove.2.1]; exact hdon.1
  obtain ⟨a, ha⟩ := atom?_isSome_of_mem_ids m x hxm
  obtain ⟨a', ha', hch, hun⟩ := neutralizeWith_atom m o ds as' ho x a ha
  rw [hao] at ha'
  simp only [Option.some.injEq] at ha'
  subst ha'
  by_cases hxd : x ∈ ds
  · obtain ⟨b, hb, hb1⟩ := donor_charge m L comps x ((hmem0 x).mp hxd)
    rw [ha] at hb; simp only [Option.some.injEq] at hb; subst hb
    have hxa : x ∉ as' := by
      intro hxa
      obtain ⟨b, hb, hbm⟩ := hacc x hxa
      rw [ha] at hb; simp only [Option.some.injEq] at hb; subst hb
      omega
    have c1 : 1 ≤ ds.count x := List.count_pos_iff.mpr hxd
    have c2 : as'.count x = 0 := List.count_eq_zero.mpr hxa
    rw [c2] at hch
    omega
  · by_cases hxa : x ∈ as'
    · obtain ⟨b, hb, hbm⟩ := hacc x hxa
      rw [ha] at hb; simp only [Option.some.injEq] at hb; subst hb
      have c1 : ds.count x = 0 := List.count_eq_zero.mpr hxd
      have c2 : as'.count x = 1 := count_eq_one_of_nodup _ _ hnd hxa
      rw [c1, c2] at hch
      omega
    · have heq : ao = a := hun hxd hxa
      subst heq
      have hok : atomOk acid0 m L 1 x = true := by
        rw [← atomOk_congr acid0 m o L 1 x (by rw [hao, ha])]; exact hdon.2.2
      exact hxd ((hmem0 x).mpr ⟨hxm, hdon.2.1, hok⟩)


/-! ## acceptors: the base patterns through C07's exactness theorem -/

theorem mem_of_mapM_lookup : ∀ (ds : List Iso.Dict) (xs : List Nat), ds.mapM (fun (d : Iso.Dict) => d.lookup 1) = some xs →
    ∀ x ∈ xs, ∃ d ∈ ds, d.lookup 1 = some x := by
  intro ds
  induction ds with
  | nil => intro xs h x hx; simp at h; subst h; simp at hx
  | cons d tl ih =>
    intro xs h x hx
    rw [List.mapM_cons] at h
    cases h1 : d.lookup 1 with
    | none => simp [h1] at h
    | some y =>
      cases h2 : tl.mapM (fun (d : Iso.Dict) => d.lookup 1) with
      | none => simp [h1, h2] at h
      | some ys =>
        simp [h1, h2] at h
        subst h
        rcases List.mem_cons.mp hx with rfl | hx
        · exact ⟨d, List.mem_cons_self, h1⟩
        · obtain ⟨d', hd', hl⟩ := ih ys h2 x hx
          exact ⟨d', List.mem_cons_of_mem _ hd', hl⟩


theorem foldlM_inv {α β : Type} (f : β → α → Option β) (I : β → Prop) :
    ∀ (l : List α), (∀ b a b', a ∈ l → I b → f b a = some b' → I b') → ∀ b r, I b → l.foldlM f b = some r → I r := by
  intro l
  induction l with
  | nil => intro _ b r hb h; simp at h; subst h; exact hb
  | cons a tl ih =>
    intro hf b r hb h
    simp only [List.foldlM_cons] at h
    cases h1 : f b a with
    | none => simp [h1] at h
    | some b1 =>
      simp only [h1, Option.bind_eq_bind, Option.bind_some] at h
      exact ih (fun b a' b' ha' => hf b a' b' (List.mem_cons_of_mem _ ha')) b1 r (hf b a b1 List.mem_cons_self hb h1) h

/-- the environment `matchFirstAtoms` builds for pattern `p` and component `cand` -/
def matchEnv (p : Pattern) (lq : List Iso.Step) (cl : Iso.Closures) (m : Mol) (L : Labels) (cand : List Nat) : Iso.Env :=
  { lq := lq, cl := cl, oAtoms := m.ids, t := graphOfMol m, scope := fun n => cand.contains n,
    atomOk := atomOk p m L, bondOk := bondOk p m L }

/-- whatever holds of the image of pattern atom 1 in every mapping the matcher returns holds of every atom
    `matchFirstAtoms` collects -/
theorem matchFirstAtoms_sound (pats : List Pattern) (m : Mol) (L : Labels) (comps : List (List Nat)) (P : Nat → Prop)
    (hP : ∀ p ∈ pats, ∀ lq cl, Iso.compileQuery (graphOfPattern p) = some ([lq], cl) → ∀ cand ds,
      Iso.getMapping (matchEnv p lq cl m L cand) = some ds → ∀ d ∈ ds, ∀ x, d.lookup 1 = some x → P x)
    (r : List Nat) (h : matchFirstAtoms pats m L comps = some r) : ∀ x ∈ r, P x := by
  unfold matchFirstAtoms at h
  refine foldlM_inv _ (fun acc => ∀ x ∈ acc, P x) pats ?_ [] r (by simp) h
  intro acc p acc' hp hacc hstep
  split at hstep
  · rename_i lq cl hcomp
    refine foldlM_inv _ (fun acc => ∀ x ∈ acc, P x) comps ?_ acc acc' hacc hstep
    intro b cand b' _ hb hs
    simp only at hs
    split at hs
    · simp at hs
    · rename_i ds hds
      obtain ⟨xs, hxs, rfl⟩ := Option.map_eq_some_iff.mp hs
      intro x hx
      rcases (mem_setUnion_iff xs b x).mp hx with h1 | h1
      · exact hb x h1
      · obtain ⟨d, hd, hl⟩ := mem_of_mapM_lookup ds xs hxs x h1
        exact hP p hp lq cl hcomp cand ds hds d hd x hl
  · simp at hstep

theorem lookup_zip_map (f : Nat → Nat) : ∀ (C : List Nat) (k x : Nat), (C.zip (C.map f)).lookup k = some x → k ∈ C ∧ x = f k := by
  intro C
  induction C with
  | nil => intro k x h; simp at h
  | cons c tl ih =>
    intro k x h
    simp only [List.map_cons, List.zip_cons_cons] at h
    by_cases hk : k = c
    · subst hk
      simp only [List.lookup, beq_self_eq_true, Option.some.injEq] at h
      exact ⟨List.mem_cons_self, h.symm⟩
    · have hne : (k == c) = false := beq_false_of_ne hk
      simp only [List.lookup, hne] at h
      obtain ⟨h1, h2⟩ := ih k x h
      exact ⟨List.mem_cons_of_mem _ h1, h2⟩

theorem baseStripped_wf : ∀ p ∈ baseStripped, (graphOfPattern p).WF = true := by decide +kernel

theorem baseStripped_atom1 : (baseStripped.all fun p =>
    match p.atoms.lookup 1 with
    | some q => q.kind != .metal && q.charge == -1
    | none => false) = true := by decide +kernel

/-- **every acceptor is an anion**: on a well-formed molecule graph, with direction-independent bond tests, every atom that
    `matchFirstAtoms baseStripped` collects compares equal to pattern atom 1 of one of the base patterns, hence carries `−1` -/
theorem acceptors_are_anions (m : Mol) (L : Labels) (comps : List (List Nat)) (as : List Nat)
    (hwf : (graphOfMol m).WF = true) (hsym : ∀ p ∈ baseStripped, BondSymm (bondOk p m L))
    (h : matchFirstAtoms baseStripped m L comps = some as) :
    ∀ x ∈ as, ∃ a, m.atom? x = some a ∧ a.charge = -1 := by
  refine matchFirstAtoms_sound baseStripped m L comps _ ?_ as h
  intro p hp lq cl hcomp cand ds hds d hd x hl
  obtain ⟨r, hr, hex⟩ := getMapping_sound (graphOfPattern p) (graphOfMol m) (baseStripped_wf p hp) hwf [lq] cl hcomp lq
    List.mem_cons_self (fun n => cand.contains n) (atomOk p m L) (bondOk p m L) (hsym p hp)
  have hr' : Iso.getMapping (matchEnv p lq cl m L cand) = some r := hr
  rw [hds] at hr'
  simp only [Option.some.injEq] at hr'
  subst hr'
  obtain ⟨f, rfl, emb⟩ := hex d hd
  obtain ⟨h1, rfl⟩ := lookup_zip_map f _ 1 x hl
  have hok := emb.atom_matches 1 h1
  have hq := List.all_eq_true.mp baseStripped_atom1 p hp
  cases hq1 : p.atoms.lookup 1 with
  | none => simp [hq1] at hq
  | some q =>
    simp only [hq1, Bool.and_eq_true, bne_iff_ne, ne_eq, beq_iff_eq] at hq
    obtain ⟨a, ha, hac⟩ := atomOk_pins_charge p m L 1 (f 1) q hq1 hq.1 hok
    exact ⟨a, ha, hac.trans hq.2⟩


/-! ## the collected atoms form a set -/

theorem setAdd_nodup (s : List Nat) (x : Nat) (h : s.Nodup) : (setAdd s x).Nodup := by
  unfold setAdd
  split
  · exact h
  · rename_i hc
    rw [List.nodup_append]
    refine ⟨h, List.nodup_singleton x, ?_⟩
    intro a ha b hb
    simp only [List.mem_singleton] at hb
    subst hb
    intro e
    subst e
    exact hc (by simpa using ha)

theorem setUnion_nodup (xs : List Nat) : ∀ (s : List Nat), s.Nodup → (setUnion s xs).Nodup := by
  induction xs with
  | nil => intro s h; simpa [setUnion] using h
  | cons x tl ih =>
    intro s h
    unfold setUnion at ih ⊢
    rw [List.foldl_cons]
    exact ih _ (setAdd_nodup s x h)

/-- `matchFirstAtoms` returns a duplicate-free list (a Python `set`) -/
theorem matchFirstAtoms_nodup (pats : List Pattern) (m : Mol) (L : Labels) (comps : List (List Nat)) (r : List Nat)
    (h : matchFirstAtoms pats m L comps = some r) : r.Nodup := by
  unfold matchFirstAtoms at h
  refine foldlM_inv _ (fun acc => acc.Nodup) pats ?_ [] r List.nodup_nil h
  intro acc p acc' _ hacc hstep
  split at hstep
  · refine foldlM_inv _ (fun acc => acc.Nodup) comps ?_ acc acc' hacc hstep
    intro b cand b' _ hb hs
    simp only at hs
    split at hs
    · simp at hs
    · obtain ⟨xs, _, rfl⟩ := Option.map_eq_some_iff.mp hs
      exact setUnion_nodup xs b hb
  · simp at hstep

/-! ## direction independence of the bond test, from decidable well-formedness -/

/-- every bond of the pattern is stored in both neighbour dicts with the same query bond (decidable, finite) -/
def patSymm (p : Pattern) : Bool :=
  p.adj.all fun ur => ur.2.all fun vb => patBond p vb.1 ur.1 == some vb.2

/-- the ring flags were cached for both directions of every bond -/
def ringSymm (L : Labels) : Bool := L.ringBonds.all fun xy => L.ringBonds.contains (xy.2, xy.1)

theorem patBond_symm_of (p : Pattern) (h : patSymm p = true) (u v : Nat) (b : Query.QBond)
    (hb : patBond p u v = some b) : patBond p v u = some b := by
  unfold patBond at hb
  cases hr : p.adj.lookup u with
  | none => simp [hr] at hb
  | some row =>
    simp only [hr, Option.bind] at hb
    have h1 := mem_of_lookup_eq_some _ _ _ hr
    have h2 := mem_of_lookup_eq_some _ _ _ hb
    have := List.all_eq_true.mp (List.all_eq_true.mp h (u, row) h1) (v, b) h2
    simpa using this

theorem patBond_symm (p : Pattern) (h : patSymm p = true) (u v : Nat) : patBond p u v = patBond p v u := by
  cases h1 : patBond p u v with
  | some b => exact (patBond_symm_of p h u v b h1).symm
  | none =>
    cases h2 : patBond p v u with
    | none => rfl
    | some b => rw [patBond_symm_of p h v u b h2] at h1; exact absurd h1 (by simp)

theorem bond?_symm_of (m : Mol) (h : m.WF = true) (x y : Nat) (b : Bond) (hb : m.bond? x y = some b) : m.bond? y x = some b := by
  unfold Mol.WF at h
  simp only [Bool.and_eq_true, List.all_eq_true] at h
  obtain ⟨_, hall⟩ := h
  unfold Mol.bond? Mol.nbrs at hb
  cases hr : m.adj.lookup x with
  | none => simp [hr] at hb
  | some row =>
    simp only [hr, Option.getD_some] at hb
    have h1 := mem_of_lookup_eq_some _ _ _ hr
    have h2 := mem_of_lookup_eq_some _ _ _ hb
    have := (hall (x, row) h1).2 (y, b) h2
    simp only [Bool.and_eq_true, beq_iff_eq] at this
    exact this.2

theorem bond?_symm (m : Mol) (h : m.WF = true) (x y : Nat) : m.bond? x y = m.bond? y x := by
  cases h1 : m.bond? x y with
  | some b => exact (bond?_symm_of m h x y b h1).symm
  | none =>
    cases h2 : m.bond? y x with
    | none => rfl
    | some b => rw [bond?_symm_of m h y x b h2] at h1; exact absurd h1 (by simp)

theorem ring_symm (L : Labels) (h : ringSymm L = true) (x y : Nat) : L.ringBonds.contains (x, y) = L.ringBonds.contains (y, x) := by
  have key : ∀ a b, L.ringBonds.contains (a, b) = true → L.ringBonds.contains (b, a) = true := by
    intro a b hab
    have hm : (a, b) ∈ L.ringBonds := by simpa using hab
    exact List.all_eq_true.mp h (a, b) hm
  cases h1 : L.ringBonds.contains (x, y) with
  | true => exact (key x y h1).symm
  | false =>
    cases h2 : L.ringBonds.contains (y, x) with
    | false => rfl
    | true => rw [key y x h2] at h1; exact absurd h1 (by simp)

/-- **the bond test of the matcher does not depend on the direction** for a well-formed molecule (`Mol.WF`: one shared bond per
    pair), symmetric cached ring flags and a symmetric pattern -/
theorem bondOk_symm (p : Pattern) (m : Mol) (L : Labels) (hp : patSymm p = true) (hm : m.WF = true) (hl : ringSymm L = true) :
    BondSymm (bondOk p m L) := by
  intro u v x y
  unfold bondOk
  rw [patBond_symm p hp u v, bond?_symm m hm x y, ring_symm L hl x y]

theorem baseStripped_patSymm : ∀ p ∈ baseStripped, patSymm p = true := by decide +kernel

end ChythonModel.Proofs.C14
