import ChythonModel.Proofs.C06PidDefs
/-!
# C06 — `_make_pid` stores only walks of the graph: `makePid_ok`
-/
namespace ChythonModel.Proofs.C06
open ChythonModel.Model.C06

/-! ## dict facts -/

theorem mem_aset {α β : Type} [BEq α] [LawfulBEq α] {d : List (α × β)} {k : α} {v : β} {x : α × β}
    (h : x ∈ aset d k v) : x = (k, v) ∨ x ∈ d := by
  induction d with
  | nil => simp [aset] at h; exact Or.inl h
  | cons hd tl ih =>
    obtain ⟨k', v'⟩ := hd
    unfold aset at h
    split at h
    · next hk =>
      have : k' = k := by simpa using hk
      subst this
      rcases List.mem_cons.1 h with h | h
      · exact Or.inl h
      · exact Or.inr (List.mem_cons_of_mem _ h)
    · rcases List.mem_cons.1 h with h | h
      · exact Or.inr (h ▸ List.mem_cons_self)
      · rcases ih h with h | h
        · exact Or.inl h
        · exact Or.inr (List.mem_cons_of_mem _ h)

theorem lookup_mem {α β : Type} [BEq α] [LawfulBEq α] {d : List (α × β)} {k : α} {v : β}
    (h : d.lookup k = some v) : (k, v) ∈ d := by
  induction d with
  | nil => simp at h
  | cons hd tl ih =>
    obtain ⟨k', v'⟩ := hd
    rw [List.lookup_cons] at h
    split at h
    · next hk =>
      have : k = k' := by simpa using hk
      subst this
      simp only [Option.some.injEq] at h
      subst h
      exact List.mem_cons_self
    · exact List.mem_cons_of_mem _ (ih h)

/-! ## walks -/

theorem walk_tail {g : Adj} {a : Nat} {p : List Nat} (h : Walk g (a :: p)) : Walk g p := by
  cases p with
  | nil => trivial
  | cons b tl => exact h.2

/-- gluing two walks that share the junction atom `k` -/
theorem walk_glue {g : Adj} {k : Nat} : ∀ (A : List Nat) (rest : List Nat),
    Walk g (A ++ [k]) → Walk g (k :: rest) → Walk g (A ++ k :: rest)
  | [], _, _, h2 => h2
  | [_], _, h1, h2 => ⟨h1.1, h2⟩
  | _ :: b :: tl, rest, h1, h2 => ⟨h1.1, walk_glue (b :: tl) rest h1.2 h2⟩

theorem walk_snoc {g : Adj} : ∀ (p : List Nat) (y x : Nat), Walk g (p ++ [y]) → x ∈ nbrsOf g y → Walk g (p ++ [y, x])
  | [], _, _, _, hx => ⟨hx, trivial⟩
  | [_], _, _, h, hx => ⟨h.1, hx, trivial⟩
  | _ :: b :: tl, y, x, h, hx => ⟨h.1, walk_snoc (b :: tl) y x h.2 hx⟩

theorem walk_reverse {g : Adj} (hs : Sym g) : ∀ p : List Nat, Walk g p → Walk g p.reverse
  | [], _ => trivial
  | [_], _ => trivial
  | a :: b :: tl, h => by
    have ih := walk_reverse hs (b :: tl) h.2
    have e : (a :: b :: tl).reverse = tl.reverse ++ [b, a] := by simp
    rw [e]
    have e2 : (b :: tl).reverse = tl.reverse ++ [b] := by simp
    rw [e2] at ih
    exact walk_snoc _ _ _ ih (hs _ _ h.1)

theorem pathFromTo_reverse {g : Adj} (hs : Sym g) {i j : Nat} {p : List Nat} (h : PathFromTo g i j p) :
    PathFromTo g j i p.reverse := by
  obtain ⟨hw, hl, hh, ht⟩ := h
  refine ⟨walk_reverse hs p hw, by simpa using hl, ?_, ?_⟩
  · rw [List.head?_reverse]; exact ht
  · rw [List.getLast?_reverse]; exact hh

theorem pathFromTo_compose {g : Adj} {i k j : Nat} {ip jp : List Nat} (h1 : PathFromTo g i k ip)
    (h2 : PathFromTo g k j jp) : PathFromTo g i j (ip.dropLast ++ jp) := by
  obtain ⟨hw1, hl1, hh1, ht1⟩ := h1
  obtain ⟨hw2, hl2, hh2, ht2⟩ := h2
  have e1 : ip = ip.dropLast ++ [k] := by
    obtain ⟨ys, hy⟩ := List.getLast?_eq_some_iff.1 ht1
    rw [hy, List.dropLast_concat]
  cases jp with
  | nil => simp at hl2
  | cons k' rest =>
    have : k' = k := by simpa using hh2
    subst this
    refine ⟨walk_glue _ _ (e1 ▸ hw1) hw2, ?_, ?_, ?_⟩
    · have : ip.length = ip.dropLast.length + 1 := by
        have := congrArg List.length e1
        simpa using this
      simp only [List.length_append, List.length_cons] at hl2 ⊢; omega
    · cases hd : ip.dropLast with
      | nil =>
        rw [hd] at e1
        rw [e1] at hl1
        simp at hl1
      | cons a tl =>
        rw [e1, hd] at hh1
        simpa using hh1
    · rw [List.getLast?_append]
      simp only [ht2, Option.some_or]

/-! ## the invariant, component by component -/

def InnerOK (g : Adj) (i j : Nat) (inner : Inner) : Prop := ∀ kp ∈ inner, PathFromTo g i j kp.2
def RowOK (g : Adj) (i : Nat) (row : List (Nat × Inner)) : Prop := ∀ jin ∈ row, InnerOK g i jin.1 jin.2
def P1OK (g : Adj) (p1 : Pid1) : Prop := ∀ irow ∈ p1, RowOK g irow.1 irow.2
def P2OK (g : Adj) (p2 : Pid2) : Prop := ∀ e ∈ p2, InnerOK g e.1.1 e.1.2 e.2

theorem pidOK_iff {g : Adj} {p1 : Pid1} {p2 : Pid2} : PidOK g p1 p2 ↔ P1OK g p1 ∧ P2OK g p2 := Iff.rfl

theorem innerOK_nil {g : Adj} {i j : Nat} : InnerOK g i j [] := fun _ h => by simp at h

theorem rowOK_lookup {g : Adj} {p1 : Pid1} (h : P1OK g p1) (i : Nat) : RowOK g i ((p1.lookup i).getD []) := by
  cases hl : p1.lookup i with
  | none => intro _ hj; simp at hj
  | some row => exact h (i, row) (lookup_mem hl)

theorem p1get_ok {g : Adj} {p1 : Pid1} (h : P1OK g p1) (i j : Nat) : InnerOK g i j (p1get p1 i j) := by
  unfold p1get
  cases hl : p1.lookup i with
  | none => exact innerOK_nil
  | some row =>
    simp only [Option.bind_some]
    cases hj : row.lookup j with
    | none => exact innerOK_nil
    | some inner => exact h (i, row) (lookup_mem hl) (j, inner) (lookup_mem hj)

theorem p2get_ok {g : Adj} {p2 : Pid2} (h : P2OK g p2) (i j : Nat) : InnerOK g i j (p2get p2 i j) := by
  unfold p2get
  cases hl : p2.lookup (i, j) with
  | none => exact innerOK_nil
  | some inner => exact h ((i, j), inner) (lookup_mem hl)

theorem p1set_ok {g : Adj} {p1 : Pid1} (h : P1OK g p1) {i j : Nat} {v : Inner} (hv : InnerOK g i j v) :
    P1OK g (p1set p1 i j v) := by
  intro irow hm
  rcases mem_aset hm with e | hm
  · subst e
    intro jin hj
    rcases mem_aset hj with e | hj
    · subst e; exact hv
    · exact rowOK_lookup h i jin hj
  · exact h irow hm

theorem p1touch_ok {g : Adj} {p1 : Pid1} (h : P1OK g p1) (i j : Nat) : P1OK g (p1touch p1 i j) := by
  unfold p1touch
  cases hl : p1.lookup i with
  | none =>
    intro irow hm
    rcases List.mem_append.1 hm with hm | hm
    · exact h irow hm
    · simp only [List.mem_singleton] at hm
      subst hm
      intro jin hj
      simp only [List.mem_singleton] at hj
      subst hj
      exact innerOK_nil
  | some row =>
    simp only
    split
    · exact h
    · intro irow hm
      rcases mem_aset hm with e | hm
      · subst e
        intro jin hj
        rcases List.mem_append.1 hj with hj | hj
        · exact h (i, row) (lookup_mem hl) jin hj
        · simp only [List.mem_singleton] at hj
          subst hj
          exact innerOK_nil
      · exact h irow hm

theorem p2set_ok {g : Adj} {p2 : Pid2} (h : P2OK g p2) {i j : Nat} {v : Inner} (hv : InnerOK g i j v) :
    P2OK g (aset p2 (i, j) v) := by
  intro e hm
  rcases mem_aset hm with e' | hm
  · subst e'; exact hv
  · exact h e hm

theorem inner_aset_ok {g : Adj} {i j : Nat} {inner : Inner} (h : InnerOK g i j inner) {key : Nat × Nat} {c : Path}
    (hc : PathFromTo g i j c) : InnerOK g i j (aset inner key c) := by
  intro kp hm
  rcases mem_aset hm with e | hm
  · subst e; exact hc
  · exact h kp hm

theorem innerUpdate_ok {g : Adj} {i j : Nat} : ∀ (new d : Inner), InnerOK g i j d → InnerOK g i j new →
    InnerOK g i j (innerUpdate d new)
  | [], d, hd, _ => hd
  | kv :: tl, d, hd, hn => by
    unfold innerUpdate
    rw [List.foldl_cons]
    exact innerUpdate_ok tl _ (inner_aset_ok hd (hn kv List.mem_cons_self))
      (fun kp h => hn kp (List.mem_cons_of_mem _ h))

theorem compose_fold_ok {g : Adj} {i k j : Nat} : ∀ (zs : List (((Nat × Nat) × Path) × ((Nat × Nat) × Path))) (d : Inner),
    InnerOK g i j d → (∀ xy ∈ zs, PathFromTo g i k xy.1.2 ∧ PathFromTo g k j xy.2.2) →
    InnerOK g i j (zs.foldl (fun d xy => aset d (xy.1.1.1, xy.2.1.2) (xy.1.2.dropLast ++ xy.2.2)) d)
  | [], d, hd, _ => hd
  | xy :: tl, d, hd, hz => by
    rw [List.foldl_cons]
    refine compose_fold_ok tl _ (inner_aset_ok hd ?_) (fun z h => hz z (List.mem_cons_of_mem _ h))
    exact pathFromTo_compose (hz xy List.mem_cons_self).1 (hz xy List.mem_cons_self).2

theorem compose_ok {g : Adj} {i k j : Nat} {a b : Inner} (ha : InnerOK g i k a) (hb : InnerOK g k j b) :
    InnerOK g i j (compose a b) := by
  unfold compose
  refine compose_fold_ok (k := k) _ _ innerOK_nil ?_
  intro xy hm
  obtain ⟨x, y⟩ := xy
  have := List.of_mem_zip hm
  exact ⟨ha x this.1, hb y this.2⟩

/-! ## the first loop -/

theorem pathFromTo_of_chain {g : Adj} {n nn : Nat} {tl : List Nat} (hw : Walk g (n :: nn :: tl)) :
    PathFromTo g n ((n :: nn :: tl).getLast?.getD n) (n :: nn :: tl) := by
  refine ⟨hw, by simp, rfl, ?_⟩
  cases h : (n :: nn :: tl).getLast? with
  | none => simp at h
  | some x => rfl

theorem pidInitStep_ok {g : Adj} (hs : Sym g) {st st' : Pid1 × Pid2 × Dist} {c : Path} (hc : Walk g c)
    (h : pidInitStep st c = some st') (h1 : P1OK g st.1) (h2 : P2OK g st.2.1) : P1OK g st'.1 ∧ P2OK g st'.2.1 := by
  obtain ⟨p1, p2, d⟩ := st
  unfold pidInitStep at h
  split at h
  · cases h
  · cases h
  · next n nn tl =>
    have hp := pathFromTo_of_chain hc
    have hr := pathFromTo_reverse hs hp
    simp only at h
    have A1 := p2set_ok h2 (inner_aset_ok (p2get_ok h2 n ((n :: nn :: tl).getLast?.getD n)) hp
      (key := (nn, (n :: nn :: tl).getD ((n :: nn :: tl).length - 2) n)))
    have A := p2set_ok A1 (inner_aset_ok (p2get_ok A1 ((n :: nn :: tl).getLast?.getD n) n) hr
      (key := ((n :: nn :: tl).getD ((n :: nn :: tl).length - 2) n, nn)))
    have B1 := p1set_ok h1 (inner_aset_ok (p1get_ok h1 n ((n :: nn :: tl).getLast?.getD n)) hp
      (key := (nn, (n :: nn :: tl).getD ((n :: nn :: tl).length - 2) n)))
    have B := p1set_ok B1 (inner_aset_ok (p1get_ok B1 ((n :: nn :: tl).getLast?.getD n) n) hr
      (key := ((n :: nn :: tl).getD ((n :: nn :: tl).length - 2) n, nn)))
    split at h
    · split at h
      · simp only [Option.some.injEq] at h
        subst h
        exact ⟨h1, A⟩
      · simp only [Option.some.injEq] at h
        subst h
        exact ⟨B, h2⟩
    · simp only [Bool.false_eq_true, if_false, Option.some.injEq] at h
      subst h
      exact ⟨B, h2⟩

theorem foldlM_pidInitStep_ok {g : Adj} (hs : Sym g) : ∀ (cs : List Path) (st st' : Pid1 × Pid2 × Dist),
    (∀ c ∈ cs, Walk g c) → cs.foldlM pidInitStep st = some st' → P1OK g st.1 → P2OK g st.2.1 →
    P1OK g st'.1 ∧ P2OK g st'.2.1
  | [], st, st', _, h, h1, h2 => by
    simp only [List.foldlM_nil] at h
    cases h
    exact ⟨h1, h2⟩
  | c :: cs, st, st', hc, h, h1, h2 => by
    rw [List.foldlM_cons] at h
    cases hstep : pidInitStep st c with
    | none => rw [hstep] at h; cases h
    | some st1 =>
      rw [hstep] at h
      obtain ⟨a1, a2⟩ := pidInitStep_ok hs (hc c List.mem_cons_self) hstep h1 h2
      exact foldlM_pidInitStep_ok hs cs st1 st' (fun x hx => hc x (List.mem_cons_of_mem _ hx)) h a1 a2

theorem pidInit_ok {g : Adj} (hs : Sym g) {paths : List Path} (hp : ∀ p ∈ paths, Walk g p)
    {st : Pid1 × Pid2 × Dist} (h : pidInit paths = some st) : P1OK g st.1 ∧ P2OK g st.2.1 := by
  unfold pidInit at h
  refine foldlM_pidInitStep_ok hs _ _ _ ?_ h (fun _ hm => by simp at hm) (fun _ hm => by simp at hm)
  intro c hc
  exact hp c ((isort_perm _ _).mem_iff.1 hc)

/-! ## the triple loop -/

theorem pidJ_ok {g : Adj} (k i : Nat) (dist : Dist) (st : Pid1 × Pid2 × List (Nat × Nat)) (j : Nat)
    (h1 : P1OK g st.1) (h2 : P2OK g st.2.1) :
    P1OK g (pidJ k i dist st j).1 ∧ P2OK g (pidJ k i dist st j).2.1 := by
  obtain ⟨p1, p2, ndi⟩ := st
  unfold pidJ
  split
  · exact ⟨h1, h2⟩
  · simp only
    split
    · -- new shortest path == previous - 1
      have t1 := p1touch_ok h1 i j
      have t3 := p1touch_ok (p1touch_ok t1 i k) k j
      exact ⟨p1set_ok t3 (compose_ok (p1get_ok t3 i k) (p1get_ok t3 k j)), p2set_ok h2 (p1get_ok t1 i j)⟩
    · split
      · have t3 := p1touch_ok (p1touch_ok h1 i k) k j
        exact ⟨p1set_ok t3 (compose_ok (p1get_ok t3 i k) (p1get_ok t3 k j)), p2set_ok h2 innerOK_nil⟩
      · split
        · have t3 := p1touch_ok (p1touch_ok (p1touch_ok h1 i j) i k) k j
          exact ⟨p1set_ok t3 (innerUpdate_ok _ _ (p1get_ok t3 i j) (compose_ok (p1get_ok t3 i k) (p1get_ok t3 k j))), h2⟩
        · split
          · have t3 := p1touch_ok (p1touch_ok h1 i k) k j
            exact ⟨t3, p2set_ok h2 (innerUpdate_ok _ _ (p2get_ok h2 i j) (compose_ok (p1get_ok t3 i k) (p1get_ok t3 k j)))⟩
          · exact ⟨h1, h2⟩

theorem foldl_pidJ_ok {g : Adj} (k i : Nat) (dist : Dist) : ∀ (js : List Nat) (st : Pid1 × Pid2 × List (Nat × Nat)),
    P1OK g st.1 → P2OK g st.2.1 →
    P1OK g (js.foldl (pidJ k i dist) st).1 ∧ P2OK g (js.foldl (pidJ k i dist) st).2.1
  | [], _, h1, h2 => ⟨h1, h2⟩
  | j :: js, st, h1, h2 => by
    rw [List.foldl_cons]
    obtain ⟨a1, a2⟩ := pidJ_ok k i dist st j h1 h2
    exact foldl_pidJ_ok k i dist js _ a1 a2

theorem pidI_ok {g : Adj} (ks : List Nat) (k : Nat) (dist : Dist) (st : Pid1 × Pid2 × Dist) (i : Nat)
    (h1 : P1OK g st.1) (h2 : P2OK g st.2.1) :
    P1OK g (pidI ks k dist st i).1 ∧ P2OK g (pidI ks k dist st i).2.1 := by
  obtain ⟨p1, p2, nd⟩ := st
  unfold pidI
  split
  · exact ⟨h1, h2⟩
  · simp only
    have := foldl_pidJ_ok (g := g) k i dist ks (p1, p2, [(k, dget dist i k)]) h1 h2
    generalize ks.foldl (pidJ k i dist) (p1, p2, [(k, dget dist i k)]) = r at this
    obtain ⟨q1, q2, q3⟩ := r
    exact this

theorem foldl_pidI_ok {g : Adj} (ks : List Nat) (k : Nat) (dist : Dist) : ∀ (is : List Nat) (st : Pid1 × Pid2 × Dist),
    P1OK g st.1 → P2OK g st.2.1 →
    P1OK g (is.foldl (pidI ks k dist) st).1 ∧ P2OK g (is.foldl (pidI ks k dist) st).2.1
  | [], _, h1, h2 => ⟨h1, h2⟩
  | i :: is, st, h1, h2 => by
    rw [List.foldl_cons]
    obtain ⟨a1, a2⟩ := pidI_ok ks k dist st i h1 h2
    exact foldl_pidI_ok ks k dist is _ a1 a2

theorem pidK_ok {g : Adj} (ks : List Nat) (st : Pid1 × Pid2 × Dist) (k : Nat)
    (h1 : P1OK g st.1) (h2 : P2OK g st.2.1) : P1OK g (pidK ks st k).1 ∧ P2OK g (pidK ks st k).2.1 := by
  obtain ⟨p1, p2, dist⟩ := st
  unfold pidK
  exact foldl_pidI_ok ks k dist ks (p1, p2, []) h1 h2

theorem foldl_pidK_ok {g : Adj} (ks : List Nat) : ∀ (ks' : List Nat) (st : Pid1 × Pid2 × Dist),
    P1OK g st.1 → P2OK g st.2.1 → P1OK g (ks'.foldl (pidK ks) st).1 ∧ P2OK g (ks'.foldl (pidK ks) st).2.1
  | [], _, h1, h2 => ⟨h1, h2⟩
  | k :: ks', st, h1, h2 => by
    rw [List.foldl_cons]
    obtain ⟨a1, a2⟩ := pidK_ok ks st k h1 h2
    exact foldl_pidK_ok ks ks' _ a1 a2

/-- every path stored in the PID matrices by `_make_pid` under `[i][j]` is a walk of the graph from `i` to `j` -/
theorem makePid_ok (g : Adj) (hs : Sym g) (paths : List Path) (hp : ∀ p ∈ paths, Walk g p ∧ 2 ≤ p.length)
    {p1 : Pid1} {p2 : Pid2} {d : Dist} (h : makePid paths = some (p1, p2, d)) : PidOK g p1 p2 := by
  unfold makePid at h
  cases hi : pidInit paths with
  | none => rw [hi] at h; cases h
  | some st =>
    rw [hi] at h
    simp only [Option.map_some, Option.some.injEq] at h
    obtain ⟨a1, a2⟩ := pidInit_ok hs (fun p hm => (hp p hm).1) hi
    have := foldl_pidK_ok (g := g) (st.1.map (·.1)) (st.1.map (·.1)) st a1 a2
    rw [h] at this
    exact this

end ChythonModel.Proofs.C06
