import ChythonModel.Model.SmartsParse
import ChythonModel.Spec.QuerySemantics
/-!
# C08 — helper lemmas (clause-by-clause equivalence of the model's early-return tests with the documented predicates)
-/
namespace ChythonModel.Proofs.C08
open ChythonModel.Model ChythonModel.Model.Query ChythonModel.Spec.Query ChythonModel.Gen.Query

theorem tupleRejects_false (c : List Nat) (v : Nat) : tupleRejects c v = false ↔ Allowed c v := by
  unfold tupleRejects Allowed
  cases c with
  | nil => simp
  | cons x xs => simp; exact Decidable.or_iff_not_imp_left.symm

theorem hRejects_false (c : List Nat) (v : Option Nat) : hRejects c v = false ↔ HAllowed c v := by
  unfold hRejects HAllowed
  cases c with
  | nil => simp
  | cons x xs =>
    cases v with
    | none => simp
    | some h => simp; exact Decidable.or_iff_not_imp_left.symm

theorem ringRejects_false (c rs : List Nat) (hq : c = [0] ∨ 0 ∉ c) :
    ringRejects c rs = false ↔ RingAllowed c rs := by
  unfold ringRejects RingAllowed
  cases c with
  | nil => simp
  | cons r0 t =>
    by_cases h0 : r0 = 0
    · subst h0
      rcases hq with hq | hq
      · simp at hq; subst hq; simp
      · simp at hq
    · have hne : (r0 != 0) = true := by simp [h0]
      simp only [hne, if_true]
      have h0' : 0 ∉ r0 :: t := by
        rcases hq with hq | hq
        · simp at hq; exact absurd hq.1 h0
        · exact hq
      constructor
      · intro h
        right; right
        refine ⟨h0', ?_⟩
        simp only [Bool.not_eq_false', List.any_eq_true] at h
        obtain ⟨s, hs, hc⟩ := h
        exact ⟨s, List.contains_iff_mem.mp hc, hs⟩
      · intro h
        rcases h with h | h | h
        · simp at h
        · simp at h; exact absurd h.1.1 h0
        · obtain ⟨_, s, hs, hr⟩ := h
          simp only [Bool.not_eq_false', List.any_eq_true]
          exact ⟨s, hr, List.contains_iff_mem.mpr hs⟩

theorem isoRejects_false (iso a : Option Nat) : isoRejects iso a = false ↔ IsoAllowed iso a := by
  unfold isoRejects IsoAllowed
  cases iso with
  | none => simp
  | some i =>
    by_cases hi : i = 0
    · subst hi; simp
    · simp [hi]

/-- the shared tail of the three `ExtendedQuery` comparisons, clause by clause -/
theorem extendedTail_true (q : QAtom) (iso : Option Nat) (a : MAtom) (hq : QWF q) :
    extendedTail q iso a = true ↔
      (q.charge = a.charge ∧ q.radical = a.radical ∧ IsoAllowed iso a.isotope ∧
       Allowed q.neighbors a.neighbors ∧ Allowed q.hybridization a.hybridization ∧
       RingAllowed q.ringSizes a.ringSizes ∧ HAllowed q.implH a.implH ∧ Allowed q.heteroatoms a.heteroatoms) := by
  unfold extendedTail
  rw [← tupleRejects_false q.neighbors, ← tupleRejects_false q.hybridization, ← tupleRejects_false q.heteroatoms,
      ← hRejects_false, ← ringRejects_false q.ringSizes a.ringSizes hq, ← isoRejects_false iso a.isotope]
  by_cases h1 : q.charge = a.charge
  · by_cases h2 : q.radical = a.radical
    · simp only [h1, h2, bne_self_eq_false, Bool.false_eq_true, if_false, true_and]
      cases hI : isoRejects iso a.isotope <;>
      cases hN : tupleRejects q.neighbors a.neighbors <;>
      cases hH : tupleRejects q.hybridization a.hybridization <;>
      cases hR : ringRejects q.ringSizes a.ringSizes <;>
      cases hI2 : hRejects q.implH a.implH <;>
      cases hX : tupleRejects q.heteroatoms a.heteroatoms <;> simp_all
    · have : (q.radical != a.radical) = true := by simp [h2]
      simp [h1, h2, this]
  · have : (q.charge != a.charge) = true := by simp [h1]
    simp [h1, this]

theorem mem_insertSorted (x : Nat) (l : List Nat) (o : Nat) : o ∈ insertSorted x l ↔ o = x ∨ o ∈ l := by
  induction l with
  | nil => simp [insertSorted]
  | cons y ys ih =>
    unfold insertSorted
    split
    · simp
    · split
      · rename_i hxy; simp at hxy; subst hxy; simp
      · simp [ih]; exact or_left_comm

theorem mem_sortDedup (l : List Nat) (o : Nat) : o ∈ sortDedup l ↔ o ∈ l := by
  unfold sortDedup
  induction l with
  | nil => simp
  | cons x xs ih => simp only [List.foldr_cons, mem_insertSorted, ih, List.mem_cons]

theorem mem_map_toNat_zero (l : List Int) (h : 0 ∈ l.map Int.toNat) : ∃ x ∈ l, x ≤ 0 := by
  simp only [List.mem_map] at h
  obtain ⟨x, hx, hz⟩ := h
  exact ⟨x, hx, by omega⟩

theorem mem_insertSortedI (x : Int) (l : List Int) (o : Int) : o ∈ insertSortedI x l ↔ o = x ∨ o ∈ l := by
  induction l with
  | nil => simp [insertSortedI]
  | cons y ys ih =>
    unfold insertSortedI
    split
    · simp
    · simp [ih]; exact or_left_comm

theorem mem_sortI (l : List Int) (o : Int) : o ∈ sortI l ↔ o ∈ l := by
  unfold sortI
  induction l with
  | nil => simp
  | cons x xs ih => simp [List.foldr, mem_insertSortedI, ih]

/-- the `ring_sizes` setter never stores the no-ring mark together with sizes -/
theorem ring_setter_wf (v : IntOrList) (rs : List Nat) (h : intOrListRing v = .ok rs) : rs = [0] ∨ 0 ∉ rs := by
  cases v with
  | int i =>
    simp only [intOrListRing, validateRingInt] at h
    split at h
    · cases h
    · cases h
      rename_i hc
      by_cases hi : i = 0
      · subst hi; left; rfl
      · right
        simp only [Bool.and_eq_true, decide_eq_true_eq, bne_iff_ne, ne_eq, not_and, Decidable.not_not] at hc
        simp only [List.mem_singleton]
        have : ¬ (i < (ringMin : Int)) := fun hlt => hi (hc hlt)
        have hr : (ringMin : Int) = 3 := by decide
        omega
  | lst l =>
    simp only [intOrListRing, validateRingList] at h
    split at h
    · cases h
    · split at h
      · cases h
      · cases h
        rename_i hc _
        right
        intro h0
        obtain ⟨x, hx, hle⟩ := mem_map_toNat_zero _ h0
        rw [mem_sortI] at hx
        simp only [List.any_eq_true, decide_eq_true_eq, not_exists, not_and, Int.not_lt] at hc
        have := hc x hx
        have hr : (ringMin : Int) = 3 := by decide
        omega

theorem buildExt_wf (p : Parsed) (rad : Bool) (k : QKind) (q : QAtom) (h : buildExt p rad k = .ok q) : QWF q := by
  unfold buildExt at h
  split at h
  · cases h
  · split at h
    · cases h
    · split at h
      · cases h
      · split at h
        · cases h
        · rename_i rs hrs
          split at h
          · cases h
          · cases h
            unfold QWF
            simp only
            unfold ringField at hrs
            cases hp : p.ringSizes with
            | none => simp [hp] at hrs; subst hrs; right; simp
            | some v => simp [hp] at hrs; exact ring_setter_wf v rs hrs

end ChythonModel.Proofs.C08
