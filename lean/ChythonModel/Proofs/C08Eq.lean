import ChythonModel.Model.SmartsParse
import ChythonModel.Spec.QuerySemantics
/-!
# C08 — helper lemmas (clause-by-clause equivalence of the model's early-return tests with the documented predicates)
-/
namespace ChythonModel.Proofs.C08
open ChythonModel.Model.Query ChythonModel.Spec.Query

theorem tupleRejects_false (c : List Nat) (v : Nat) : tupleRejects c v = false ↔ Allowed c v := by
  unfold tupleRejects Allowed
  cases c with
  | nil => simp
  | cons x xs => simp; exact Decidable.or_iff_not_imp_left.symm

theorem hRejects_false (c : List Nat) (v : Option Nat) : hRejects c v = false ↔ HAllowed c v := by
  unfold hRejects HAllowed
  cases c with
  | nil => simp
  | cons x xs =>
    cases v with
    | none => simp
    | some h => simp; exact Decidable.or_iff_not_imp_left.symm

theorem ringRejects_false (c rs : List Nat) (hq : c = [0] ∨ 0 ∉ c) :
    ringRejects c rs = false ↔ RingAllowed c rs := by
  unfold ringRejects RingAllowed
  cases c with
  | nil => simp
  | cons r0 t =>
    by_cases h0 : r0 = 0
    · subst h0
      rcases hq with hq | hq
      · simp at hq; subst hq; simp
      · simp at hq
    · have hne : (r0 != 0) = true := by simp [h0]
      simp only [hne, if_true]
      have h0' : 0 ∉ r0 :: t := by
        rcases hq with hq | hq
        · simp at hq; exact absurd hq.1 h0
        · exact hq
      constructor
      · intro h
        right; right
        refine ⟨h0', ?_⟩
        simp only [Bool.not_eq_false', List.any_eq_true] at h
        obtain ⟨s, hs, hc⟩ := h
        exact ⟨s, List.contains_iff_mem.mp hc, hs⟩
      · intro h
        rcases h with h | h | h
        · simp at h
        · simp at h; exact absurd h.1.1 h0
        · obtain ⟨_, s, hs, hr⟩ := h
          simp only [Bool.not_eq_false', List.any_eq_true]
          exact ⟨s, hr, List.contains_iff_mem.mpr hs⟩

theorem isoRejects_false (iso a : Option Nat) : isoRejects iso a = false ↔ IsoAllowed iso a := by
  unfold isoRejects IsoAllowed
  cases iso with
  | none => simp
  | some i =>
    by_cases hi : i = 0
    · subst hi; simp
    · simp [hi]

/-- the shared tail of the three `ExtendedQuery` comparisons, clause by clause -/
theorem extendedTail_true (q : QAtom) (iso : Option Nat) (a : MAtom) (hq : QWF q) :
    extendedTail q iso a = true ↔
      (q.charge = a.charge ∧ q.radical = a.radical ∧ IsoAllowed iso a.isotope ∧
       Allowed q.neighbors a.neighbors ∧ Allowed q.hybridization a.hybridization ∧
       RingAllowed q.ringSizes a.ringSizes ∧ HAllowed q.implH a.implH ∧ Allowed q.heteroatoms a.heteroatoms) := by
  unfold extendedTail
  rw [← tupleRejects_false q.neighbors, ← tupleRejects_false q.hybridization, ← tupleRejects_false q.heteroatoms,
      ← hRejects_false, ← ringRejects_false q.ringSizes a.ringSizes hq, ← isoRejects_false iso a.isotope]
  by_cases h1 : q.charge = a.charge
  · by_cases h2 : q.radical = a.radical
    · simp only [h1, h2, bne_self_eq_false, Bool.false_eq_true, if_false, true_and]
      cases hI : isoRejects iso a.isotope <;>
      cases hN : tupleRejects q.neighbors a.neighbors <;>
      cases hH : tupleRejects q.hybridization a.hybridization <;>
      cases hR : ringRejects q.ringSizes a.ringSizes <;>
      cases hI2 : hRejects q.implH a.implH <;>
      cases hX : tupleRejects q.heteroatoms a.heteroatoms <;> simp_all
    · have : (q.radical != a.radical) = true := by simp [h2]
      simp [h1, h2, this]
  · have : (q.charge != a.charge) = true := by simp [h1]
    simp [h1, this]

end ChythonModel.Proofs.C08
