import ChythonModel.Model.Fingerprint
/-! C17 proof device: `_chains` on a graph where no subscript fails — the same loop as `Model.Fingerprint.chains` with the
neighbour lookup totalised (`Mol.nbrs`). `C17Bridge.lean` proves that on a well-formed molecule the model's `chains`
(which raises `KeyError` like Python) equals this function; every property theorem is stated about the model's `chains`. -/
namespace ChythonModel.Proofs.C17
open ChythonModel.Model ChythonModel.Model.Fingerprint

/-- `[now + (x,) for x in bonds[now[-1]] if x not in now]` -/
def extendP (m : Mol) (now : Path) : List Path :=
  match now.getLast? with
  | none => []
  | some last => (((m.nbrs last).map (·.1)).filter fun x => !now.contains x).map fun x => now ++ [x]

/-- the `while queue:` loop of `_chains`; `fuel` bounds the number of `popleft`s. -/
def chainsLoopP (m : Mol) (lo hi : Int) : Nat → List Path → List Path → Except Err (List Path)
  | 0, _, _ => throw .fuel
  | _ + 1, [], arr => pure arr
  | f + 1, now :: queue, arr =>
    let var := extendP m now
    match var with
    | [] => chainsLoopP m lo hi f queue arr
    | v0 :: _ =>
      let queue' := if (v0.length : Int) < hi then queue ++ var else queue
      let arr' := if (v0.length : Int) ≥ lo then var.foldl (fun a frag => setAdd a (canon frag)) arr else arr
      chainsLoopP m lo hi f queue' arr'

def chainsP (m : Mol) (lo hi : Int) : Except Err (List Path) :=
  let singles := m.ids.map fun x => [x]
  if lo = 1 then
    if hi = 1 then pure singles
    else chainsLoopP m lo hi (chainsFuel m hi) singles singles
  else chainsLoopP m lo hi (chainsFuel m hi) singles []

end ChythonModel.Proofs.C17
