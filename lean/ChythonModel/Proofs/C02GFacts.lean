import ChythonModel.Proofs.C02DfsBase
import ChythonModel.Proofs.C02CycComb
/-!
# C02 — what the traversal of the whole molecule records, on plain lists

`V` visited atoms (all rounds), `T` tree bonds `(parent, child)`, `C` closure records `(atom, partner, cycle id)`.
-/
namespace ChythonModel.Proofs.C02
open ChythonModel.Model ChythonModel.Model.SmilesWriter ChythonModel.Model.C02RT

structure GFacts (m : Mol) (V : List Nat) (T : List (Nat × Nat)) (C : List (Nat × Nat × Nat)) : Prop where
  vNodup : V.Nodup
  tSnd : (T.map (·.2)).Nodup
  tMem : ∀ p c, (p, c) ∈ T → p ∈ V ∧ c ∈ V ∧ c ∈ nk m p
  tAsym : ∀ a b, (a, b) ∈ T → (b, a) ∉ T
  cNodup : C.Nodup
  cMem : ∀ a b k, (a, b, k) ∈ C → (b, a, k) ∈ C ∧ a ≠ b ∧ a ∈ V ∧ b ∈ V ∧ b ∈ nk m a ∧ (a, b) ∉ T
  cId : ∀ a b a' b' k, (a, b, k) ∈ C → (a', b', k) ∈ C → (a' = a ∧ b' = b) ∨ (a' = b ∧ b' = a)
  cPair : ∀ a b k k', (a, b, k) ∈ C → (a, b, k') ∈ C → k = k'
  cover : ∀ a ∈ V, ∀ b ∈ nk m a, (a, b) ∈ T ∨ (b, a) ∈ T ∨ ∃ k, (a, b, k) ∈ C

end ChythonModel.Proofs.C02
