import ChythonModel.Model.C09Arrays
import ChythonModel.Proofs.C09Scratch
import ChythonModel.Proofs.C09Closure
import Mathlib.Data.List.Basic
import Mathlib.Data.List.Nodup
/-!
# C09 — no access of the compiled matcher leaves an allocated array

`runLoopA` (the matcher with a bounds guard in front of every access to `path`, `stack_index`, `stack_depth`, `matched`,
`closures`) never stops with `Fault.oob` on a structure buffer whose bond rows name distinct atoms of the buffer (`BufWF`: what
`_cython_compiled_structure` produces, `Faithful.rows`), provided the arrays are at least as large as `AllocOK` says — which the
regenerated sizes are (`allocOf_ok`, by unfolding them). It then returns exactly what the unguarded matcher `runLoopCS` returns.

The stack bound: waiting entries are pairwise distinct `(atom, depth)` pairs with `atom < atoms_count` and `depth < query atoms`
(entries of one depth were pushed by one scan of one bond row, whose atoms are distinct; deeper entries lie on top), so there are
at most `query.atoms_count * molecule.atoms_count` of them — the element count of `stack_index` / `stack_depth`.
-/
namespace ChythonModel.Proofs.C09
open ChythonModel.Model.Bits ChythonModel.Model ChythonModel.Gen.C09Alloc

/-- bond rows of a structure buffer name distinct atoms of the buffer -/
def BufWF (m : CMol) : Prop :=
  ∀ (i : Nat) (ca : CAtom) (row : List CBond), m.atoms[i]? = some ca → slice? m.bonds ca.from_ ca.to_ = some row →
    (row.map (·.index)).Nodup ∧ ∀ ib ∈ row, ib.index < m.atoms.length

/-- the arrays are large enough for `qn` query atoms and `mn` molecule atoms -/
structure AllocOK (al : Alloc) (qn mn : Nat) : Prop where
  path : qn - 1 ≤ al.path
  stackIndex : qn * mn ≤ al.stackIndex
  stackDepth : qn * mn ≤ al.stackDepth
  matched : mn ≤ al.matched
  closures : mn ≤ al.closures
  setMatched : al.setMatched ≤ al.matched ∧ mn ≤ al.setMatched
  setClosures : al.setClosures ≤ al.closures ∧ mn ≤ al.setClosures

/-- the sizes `get_mapping` allocates (regenerated from the `.pyx`) are large enough -/
theorem allocOf_ok (qn mn : Nat) : AllocOK (allocOf qn mn) qn mn := by
  constructor <;>
    simp only [allocOf, allocPath, allocStackIndex, allocStackDepth, allocMatched, allocClosures, memsetMatched, memsetClosures,
      Nat.le_refl, and_self]

theorem oobIn_none (size : Nat) (a : Arr) (idxs : List Nat) (h : ∀ i ∈ idxs, i < size) : oobIn size a idxs = none := by
  unfold oobIn
  rw [Option.map_eq_none_iff, List.find?_eq_none]
  intro i hi
  have := h i hi
  simp only [decide_eq_true_eq]
  omega

/-- waiting entries: deeper ones on top, pairwise distinct, atoms inside the molecule, depths inside the query -/
def StackOK (mn qdec : Nat) (stack : List (Nat × Nat)) : Prop :=
  stack.Pairwise (fun a b => b.2 ≤ a.2 ∧ a ≠ b) ∧ ∀ e ∈ stack, e.1 < mn ∧ e.2 ≤ qdec

theorem nodup_lt_length (K : Nat) : ∀ (l : List Nat), l.Nodup → (∀ x ∈ l, x < K) → l.length ≤ K := by
  induction K with
  | zero =>
    intro l _ h
    cases l with
    | nil => simp
    | cons a t => exact absurd (h a (by simp)) (by omega)
  | succ K ih =>
    intro l hnd h
    have hnd' : (l.erase K).Nodup := hnd.erase K
    have hlt : ∀ x ∈ l.erase K, x < K := by
      intro x hx
      have hxl : x ∈ l := List.mem_of_mem_erase hx
      have hne : x ≠ K := by
        intro he; subst he
        exact (List.Nodup.not_mem_erase hnd) hx
      have := h x hxl
      omega
    have := ih (l.erase K) hnd' hlt
    have hle : l.length ≤ (l.erase K).length + 1 := by
      rw [List.length_erase]
      split <;> omega
    omega

/-- **the stack bound**: at most `(qdec + 1) * mn` entries wait -/
theorem stack_length_le (mn qdec : Nat) (stack : List (Nat × Nat)) (h : StackOK mn qdec stack) :
    stack.length ≤ (qdec + 1) * mn := by
  obtain ⟨hp, hb⟩ := h
  have hnd : stack.Nodup := hp.imp (fun h => h.2)
  have hinj : (stack.map fun e => e.2 * mn + e.1).Nodup := by
    refine List.Nodup.map_on ?_ hnd
    intro a ha b hb' hab
    have h1 := (hb a ha).1
    have h2 := (hb b hb').1
    have hmn : 0 < mn := by omega
    have hd : a.2 = b.2 := by
      have e1 : (a.2 * mn + a.1) / mn = a.2 := by
        rw [Nat.mul_comm, Nat.mul_add_div hmn, Nat.div_eq_of_lt h1]; rfl
      have e2 : (b.2 * mn + b.1) / mn = b.2 := by
        rw [Nat.mul_comm, Nat.mul_add_div hmn, Nat.div_eq_of_lt h2]; rfl
      rw [← e1, ← e2, hab]
    have hn : a.1 = b.1 := by rw [hd] at hab; omega
    exact Prod.ext hn hd
  have hlt : ∀ x ∈ stack.map (fun e => e.2 * mn + e.1), x < (qdec + 1) * mn := by
    intro x hx
    obtain ⟨e, he, rfl⟩ := List.mem_map.mp hx
    obtain ⟨h1, h2⟩ := hb e he
    calc e.2 * mn + e.1 < e.2 * mn + mn := by omega
      _ = (e.2 + 1) * mn := by rw [Nat.add_mul, Nat.one_mul]
      _ ≤ (qdec + 1) * mn := Nat.mul_le_mul_right mn (by omega)
  have := nodup_lt_length _ _ hinj hlt
  simpa using this

theorem StackOK.pop {mn qdec : Nat} {e : Nat × Nat} {stack : List (Nat × Nat)} (h : StackOK mn qdec (e :: stack)) :
    StackOK mn qdec stack :=
  ⟨(List.pairwise_cons.mp h.1).2, fun x hx => h.2 x (List.mem_cons_of_mem _ hx)⟩

theorem StackOK.push {mn qdec n d : Nat} {stack : List (Nat × Nat)} {cs : List Nat} (h : StackOK mn qdec ((n, d) :: stack))
    (hd : d < qdec) (hnd : cs.Nodup) (hlt : ∀ c ∈ cs, c < mn) :
    StackOK mn qdec (cs.reverse.map (·, d + 1) ++ stack) := by
  obtain ⟨hp, hb⟩ := h
  obtain ⟨hhead, htail⟩ := List.pairwise_cons.mp hp
  refine ⟨?_, ?_⟩
  · rw [List.pairwise_append]
    refine ⟨?_, htail, ?_⟩
    · rw [List.pairwise_map]
      have hr : cs.reverse.Nodup := List.nodup_reverse.mpr hnd
      refine List.Pairwise.imp ?_ hr
      intro a b hab
      exact ⟨Nat.le_refl _, fun he => hab (congrArg Prod.fst he)⟩
    · intro a ha b hb'
      obtain ⟨c, _, rfl⟩ := List.mem_map.mp ha
      have := (hhead b hb').1
      refine ⟨by simp only; omega, ?_⟩
      intro he
      have : b.2 = d + 1 := by rw [← he]
      omega
  · intro e he
    rcases List.mem_append.mp he with h1 | h1
    · obtain ⟨c, hc, rfl⟩ := List.mem_map.mp h1
      exact ⟨hlt c (List.mem_reverse.mp hc), by simp only; omega⟩
    · exact hb e (List.mem_cons_of_mem _ h1)

/-- the accepted candidates of one scan are a subsequence of the scanned row -/
theorem candidatesCS_sublist (m : CMol) (q : CQuery) (scope : List Bool) (qa : CQAtom) (n : Nat) (matched : List Bool)
    (path : List Nat) : ∀ (row : List CBond) (arr : List Nat) (cs : List Nat) (arr' : List Nat),
    candidatesCS m q scope qa n matched path row arr = some (cs, arr') → cs.Sublist (row.map (·.index)) := by
  intro row
  induction row with
  | nil =>
    intro arr cs arr' h
    simp only [candidatesCS, Option.some.injEq, Prod.mk.injEq] at h
    obtain ⟨rfl, _⟩ := h
    exact List.Sublist.slnil
  | cons ib rest ih =>
    intro arr cs arr' h
    simp only [candidatesCS] at h
    cases hm : m.atoms[ib.index]? with
    | none => simp [hm] at h
    | some mAtom =>
      cases hs : scope[ib.index]? with
      | none => simp [hm, hs] at h
      | some sc =>
        cases hmt : matched[ib.index]? with
        | none => simp [hm, hs, hmt] at h
        | some mt =>
          simp only [hm, hs, hmt] at h
          by_cases hc : (sc && !mt && nextOk qa ib.bond mAtom) = true
          · simp only [hc, if_true] at h
            cases hcl : closureCS m q qa mAtom n matched path arr with
            | none => simp [hcl] at h
            | some r =>
              obtain ⟨ok, arr1⟩ := r
              simp only [hcl] at h
              cases hr : candidatesCS m q scope qa n matched path rest arr1 with
              | none => simp [hr] at h
              | some r2 =>
                obtain ⟨tl, arr2⟩ := r2
                simp only [hr, Option.some.injEq, Prod.mk.injEq] at h
                obtain ⟨rfl, _⟩ := h
                have hsub := ih arr1 tl arr2 hr
                cases ok
                · simpa using hsub.cons ib.index
                · simpa using hsub.cons_cons ib.index
          · simp only [hc, Bool.false_eq_true, if_false] at h
            simpa using (ih arr cs arr' h).cons ib.index

theorem rowIdx_lt (m : CMol) (hwf : BufWF m) (i : Nat) : ∀ x ∈ rowIdx m i, x < m.atoms.length := by
  intro x hx
  unfold rowIdx at hx
  cases ha : m.atoms[i]? with
  | none => simp [ha] at hx
  | some a =>
    cases hs : slice? m.bonds a.from_ a.to_ with
    | none => simp [ha, hs] at hx
    | some nb =>
      simp only [ha, hs] at hx
      obtain ⟨b, hb, rfl⟩ := List.mem_map.mp hx
      exact (hwf i a nb ha hs).2 b hb

theorem touched_lt (m : CMol) (hwf : BufWF m) (row : List CBond) (hrow : ∀ ib ∈ row, ib.index < m.atoms.length) :
    ∀ x ∈ touched m row, x < m.atoms.length := by
  intro x hx
  unfold touched at hx
  rcases List.mem_append.mp hx with h | h
  · obtain ⟨b, hb, rfl⟩ := List.mem_map.mp h
    exact hrow b hb
  · obtain ⟨ib, _, hxi⟩ := List.mem_flatMap.mp h
    exact rowIdx_lt m hwf ib.index x hxi

def liftE {α} : Option α → Except Fault α
  | some r => .ok r
  | none => .error .range

/-- **one expansion**: every guard passes, the result is that of the unguarded expansion, and the accepted candidates are distinct
    atoms of the molecule -/
theorem expandCA_eq (al : Alloc) (m : CMol) (q : CQuery) (scope : List Bool) (d n : Nat) (path : List Nat) (matched : List Bool)
    (arr : List Nat) (hwf : BufWF m) (hm : m.atoms.length ≤ al.matched) (hc : m.atoms.length ≤ al.closures)
    (hp : ∀ x ∈ path, x < m.atoms.length) :
    expandCA al m q scope d n path matched arr = liftE (expandCS m q scope d n path matched arr) ∧
    ∀ cs arr', expandCS m q scope d n path matched arr = some (cs, arr') → cs.Nodup ∧ ∀ c ∈ cs, c < m.atoms.length := by
  unfold expandCA expandCS
  cases q.atoms[d + 1]? with
  | none => exact ⟨rfl, fun _ _ h => by simp at h⟩
  | some qa =>
    simp only
    cases (if qa.back != d then path[qa.back]? else some n) with
    | none => exact ⟨rfl, fun _ _ h => by simp at h⟩
    | some n' =>
      simp only
      cases hn' : m.atoms[n']? with
      | none => exact ⟨rfl, fun _ _ h => by simp at h⟩
      | some nAtom =>
        simp only
        cases hrow : slice? m.bonds nAtom.from_ nAtom.to_ with
        | none => exact ⟨rfl, fun _ _ h => by simp at h⟩
        | some row =>
          simp only
          obtain ⟨hnd, hlt⟩ := hwf n' nAtom row hn' hrow
          have ht := touched_lt m hwf row hlt
          have g1 : oobIn al.matched .matched (touched m row) = none :=
            oobIn_none _ _ _ (fun i hi => Nat.lt_of_lt_of_le (ht i hi) hm)
          have g2 : (if qa.closure != 0 then oobIn al.closures .closures (touched m row ++ path) else none) = none := by
            split
            · refine oobIn_none _ _ _ (fun i hi => ?_)
              rcases List.mem_append.mp hi with h | h
              · exact Nat.lt_of_lt_of_le (ht i h) hc
              · exact Nat.lt_of_lt_of_le (hp i h) hc
            · rfl
          rw [g1, g2]
          refine ⟨?_, ?_⟩
          · cases candidatesCS m q scope qa n' matched path row arr <;> rfl
          · intro cs arr' h
            have hsub := candidatesCS_sublist m q scope qa n' matched path row arr cs arr' h
            refine ⟨hnd.sublist hsub, fun c hc' => ?_⟩
            obtain ⟨b, hb, rfl⟩ := List.mem_map.mp (hsub.subset hc')
            exact hlt b hb

/-- what "the guarded matcher behaves like the unguarded one" means: same list of mappings, stack pointer never above `B`; it stops
    without result exactly when the unguarded one does, and then with `Fault.range` / `Fault.fuel` — never with `Fault.oob` /
    `Fault.uninit` -/
def Agrees (B : Nat) (x : Except Fault (List Iso.Dict × Stats)) (y : Option (List Iso.Dict)) : Prop :=
  match x, y with
  | .ok (r, s), some r' => r = r' ∧ s.maxStack ≤ B
  | .error .range, none => True
  | .error .fuel, none => True
  | _, _ => False

theorem agrees_none (B : Nat) : Agrees B (.error .range) none := trivial

/-- **the whole loop** -/
theorem runLoopA_agrees (al : Alloc) (m : CMol) (q : CQuery) (scope : List Bool) (qdec : Nat) (hwf : BufWF m)
    (hal : AllocOK al (qdec + 1) m.atoms.length) :
    ∀ (fuel : Nat) (stack : List (Nat × Nat)) (path : List Nat) (matched : List Bool) (arr : List Nat) (acc : List Iso.Dict)
      (st : Stats), StackOK m.atoms.length qdec stack → (∀ x ∈ path, x < m.atoms.length) → matched.length = m.atoms.length →
      st.maxStack ≤ (qdec + 1) * m.atoms.length →
      Agrees ((qdec + 1) * m.atoms.length) (runLoopA al m q scope qdec fuel stack path matched arr acc st)
        (runLoopCS m q scope qdec fuel stack path matched arr acc) := by
  intro fuel
  induction fuel with
  | zero => intros; trivial
  | succ fuel ih =>
    intro stack path matched arr acc st hst hp hml hmax
    cases stack with
    | nil => exact ⟨rfl, hmax⟩
    | cons e stack =>
      obtain ⟨n, d⟩ := e
      simp only [runLoopA, runLoopCS]
      have hnd := hst.2 (n, d) (by simp)
      by_cases hd : (d == qdec) = true
      · have hdq : d = qdec := by simpa using hd
        have g0 : ¬ al.path < d := by have := hal.path; omega
        simp only [hd, if_true, g0, if_false]
        cases buildMapping m q path d n with
        | none => exact agrees_none _
        | some mp => exact ih stack path matched arr _ st hst.pop hp hml hmax
      · simp only [hd, Bool.false_eq_true, if_false]
        have hdne : d ≠ qdec := by simpa using hd
        have hdlt : d < qdec := by have := hnd.2; omega
        have g1 : oobIn al.matched .matched (path.drop d ++ [n]) = none := by
          refine oobIn_none _ _ _ (fun i hi => ?_)
          rcases List.mem_append.mp hi with h | h
          · exact Nat.lt_of_lt_of_le (hp i (List.mem_of_mem_drop h)) hal.matched
          · simp only [List.mem_singleton] at h; subst h; exact Nat.lt_of_lt_of_le hnd.1 hal.matched
        have g2 : ¬ al.path ≤ d := by have := hal.path; omega
        simp only [g1, g2, if_false]
        have hml' : (if path.length != d then unmark (path.drop d) matched else matched).length = m.atoms.length := by
          split
          · rw [unmark_length']; exact hml
          · exact hml
        by_cases hn : n ≥ (if path.length != d then unmark (path.drop d) matched else matched).length
        · simp only [hn, if_true]; exact agrees_none _
        · simp only [hn, if_false]
          have hp' : ∀ x ∈ path.take d ++ [n], x < m.atoms.length := by
            intro x hx
            rcases List.mem_append.mp hx with h | h
            · exact hp x (List.mem_of_mem_take h)
            · simp only [List.mem_singleton] at h; subst h; exact hnd.1
          obtain ⟨he, hcs⟩ := expandCA_eq al m q scope d n (path.take d ++ [n])
            ((if path.length != d then unmark (path.drop d) matched else matched).set n true) arr hwf hal.matched hal.closures hp'
          rw [he]
          cases hex : expandCS m q scope d n (path.take d ++ [n])
              ((if path.length != d then unmark (path.drop d) matched else matched).set n true) arr with
          | none => exact agrees_none _
          | some r =>
            obtain ⟨cs, arr'⟩ := r
            obtain ⟨hcnd, hclt⟩ := hcs cs arr' hex
            have hst' := StackOK.push hst hdlt hcnd hclt
            have hlen := stack_length_le _ _ _ hst'
            have g3 : ¬ al.stackIndex < (cs.reverse.map (·, d + 1) ++ stack).length := by have := hal.stackIndex; omega
            have g4 : ¬ al.stackDepth < (cs.reverse.map (·, d + 1) ++ stack).length := by have := hal.stackDepth; omega
            simp only [liftE, g3, g4, if_false]
            exact ih _ _ _ arr' acc _ hst' hp' (by rw [List.length_set]; exact hml') (by simp only; omega)

theorem roots_ok (m : CMol) (q : CQuery) (scope : List Bool) (roots : List Nat) (h : rootsC m q scope = some roots) :
    roots.Nodup ∧ (∀ r ∈ roots, r < m.atoms.length) ∧ 1 ≤ q.atoms.length := by
  unfold rootsC at h
  simp only [bind, pure] at h
  cases hq : q.atoms[0]? with
  | none => simp [hq] at h
  | some qa =>
    simp only [hq, Option.bind_some] at h
    split at h
    · simp at h
    · simp only [Option.some.injEq] at h
      subst h
      have hsub : ((m.atoms.zipIdx.filter fun (a, i) => scope.getD i false && rootOk qa a).map (·.2)).Sublist
          (m.atoms.zipIdx.map (·.2)) := List.Sublist.map _ List.filter_sublist
      have hr : m.atoms.zipIdx.map (·.2) = List.range' 0 m.atoms.length := by
        simp
      rw [hr] at hsub
      refine ⟨(List.nodup_range' (s := 0) (n := m.atoms.length)).sublist hsub, fun r hrm => ?_, ?_⟩
      · have := hsub.subset hrm
        simp only [List.mem_range'_1] at this
        omega
      · have := List.getElem?_eq_some_iff.mp hq
        obtain ⟨hlt, _⟩ := this
        omega

/-- **`get_mapping` with arrays at sizes `al`** behaves like the unguarded matcher whenever the sizes are large enough -/
theorem getMappingA_agrees (al : Alloc) (m : CMol) (q : CQuery) (scope : List Bool) (hwf : BufWF m)
    (hal : AllocOK al q.atoms.length m.atoms.length) :
    Agrees (q.atoms.length * m.atoms.length) (getMappingA al m q scope) (getMappingCS m q scope) := by
  unfold getMappingA getMappingCS
  cases hr : rootsC m q scope with
  | none => exact agrees_none _
  | some roots =>
    simp only
    obtain ⟨hnd, hlt, hq1⟩ := roots_ok m q scope roots hr
    have hqn : q.atoms.length - 1 + 1 = q.atoms.length := by omega
    have hal' : AllocOK al (q.atoms.length - 1 + 1) m.atoms.length := by rw [hqn]; exact hal
    have hst : StackOK m.atoms.length (q.atoms.length - 1) (roots.reverse.map (·, 0)) := by
      refine ⟨?_, ?_⟩
      · rw [List.pairwise_map]
        refine List.Pairwise.imp ?_ (List.nodup_reverse.mpr hnd)
        intro a b hab
        exact ⟨Nat.le_refl _, fun he => hab (congrArg Prod.fst he)⟩
      · intro e he
        obtain ⟨c, hc, rfl⟩ := List.mem_map.mp he
        exact ⟨hlt c (List.mem_reverse.mp hc), Nat.zero_le _⟩
    have hlen := stack_length_le _ _ _ hst
    simp only [List.length_map, List.length_reverse, hqn] at hlen
    have g1 : ¬ al.matched < al.setMatched := by have := hal.setMatched.1; omega
    have g2 : ¬ al.closures < al.setClosures := by have := hal.setClosures.1; omega
    have g3 : ¬ al.setMatched < m.atoms.length := by have := hal.setMatched.2; omega
    have g4 : ¬ al.setClosures < m.atoms.length := by have := hal.setClosures.2; omega
    have g5 : ¬ al.stackIndex < roots.length := by have := hal.stackIndex; omega
    have g6 : ¬ al.stackDepth < roots.length := by have := hal.stackDepth; omega
    simp only [g1, g2, g3, g4, g5, g6, if_false]
    have := runLoopA_agrees al m q scope (q.atoms.length - 1) hwf hal' (fuelC m q) (roots.reverse.map (·, 0)) []
      (List.replicate m.atoms.length false) (List.replicate m.atoms.length 0) [] ⟨roots.length, roots.length⟩ hst
      (by intro x hx; simp at hx) (by simp) (by simp only; rw [hqn]; exact hlen)
    rw [hqn] at this
    exact this

/-- the mapper of the guarded path is the unguarded matcher -/
theorem mapperA_eq (m : CMol) (q : CQuery) (scope : List Bool) (hwf : BufWF m) : mapperA m q scope = getMappingCS m q scope := by
  have h := getMappingA_agrees (allocOf q.atoms.length m.atoms.length) m q scope hwf (allocOf_ok _ _)
  unfold mapperA
  unfold Agrees at h
  cases hA : getMappingA (allocOf q.atoms.length m.atoms.length) m q scope with
  | ok r =>
    obtain ⟨r, s⟩ := r
    cases hS : getMappingCS m q scope with
    | none => rw [hA, hS] at h; exact h.elim
    | some r' => rw [hA, hS] at h; simp only; rw [h.1]
  | error f =>
    cases hS : getMappingCS m q scope with
    | none => rfl
    | some r' => rw [hA, hS] at h; cases f <;> exact h.elim

/-! ### the counter and the scratch reads -/

/-- `closures_counter` counts entries of one bond row: it never exceeds the row length, which never exceeds the number of atoms -/
theorem counter_le (m : CMol) (hwf : BufWF m) (i : Nat) (ca : CAtom) (nb : List CBond) (flags : List Bool) (n : Nat)
    (ha : m.atoms[i]? = some ca) (hs : slice? m.bonds ca.from_ ca.to_ = some nb) :
    (hitsOf nb flags n).length ≤ nb.length ∧ nb.length ≤ m.atoms.length := by
  obtain ⟨hnd, hlt⟩ := hwf i ca nb ha hs
  refine ⟨?_, ?_⟩
  · unfold hitsOf
    rw [List.length_map]
    exact Nat.le_trans (List.length_filter_le _ _) (by rw [List.length_zip]; exact Nat.min_le_left _ _)
  · have := nodup_lt_length m.atoms.length (nb.map (·.index)) hnd (by
      intro x hx
      obtain ⟨b, hb, rfl⟩ := List.mem_map.mp hx
      exact hlt b hb)
    simpa using this

/-- **no stale read**: after the fill loop of a candidate on an all-zero array, every non-zero value found in the array is the bond
    word this candidate's fill loop wrote for exactly that atom -/
theorem fill_read_own (hits : List CBond) (N x c : Nat) (h : (fillScratch (List.replicate N 0) hits)[x]? = some c) (hc : c ≠ 0) :
    ∃ jb ∈ hits, jb.index = x ∧ jb.bond = c := by
  have hx : x < N := by
    have := (List.getElem?_eq_some_iff.mp h).1
    rwa [fillScratch_length, List.length_replicate] at this
  rw [fill_get hits N x hx] at h
  simp only [Option.some.injEq] at h
  unfold scratch at h
  cases hf : hits.reverse.find? (·.index == x) with
  | none => rw [hf] at h; exact absurd h.symm hc
  | some jb =>
    rw [hf] at h
    refine ⟨jb, List.mem_reverse.mp (List.mem_of_find?_eq_some hf), ?_, h⟩
    have := List.find?_some hf
    simpa using this

end ChythonModel.Proofs.C09
