import ChythonModel.Proofs.C19Scan
/-!
# C19 — the probe sequence never leaves the table; a lookup can only fail by running out of fuel
-/
namespace ChythonModel.Py.IntSet

/-- the linear run is only entered when it fits -/
def PS.Valid (mask : Nat) (s : PS) : Prop := s.i ≤ mask ∧ (s.j = 0 ∨ (s.i + 9 ≤ mask ∧ s.j ≤ 9))

theorem PS.start_valid (mask : Nat) (k : Int) : (PS.start mask k).Valid mask :=
  ⟨Nat.and_le_right, Or.inl rfl⟩

theorem PS.next_valid {mask : Nat} {s : PS} (h : s.Valid mask) : (s.next mask).Valid mask := by
  unfold PS.next
  split
  · rename_i hc
    exact ⟨h.1, Or.inr ⟨hc.1, by show s.j + 1 ≤ 9; omega⟩⟩
  · exact ⟨Nat.and_le_right, Or.inl rfl⟩

theorem PS.idx_le {mask : Nat} {s : PS} (h : s.Valid mask) : s.idx ≤ mask := by
  unfold PS.idx
  rcases h.2 with h0 | ⟨h1, h2⟩
  · rw [h0]; exact h.1
  · omega

/-- the `n`-th state of the probe sequence of `k` -/
def PS.nth (mask : Nat) (k : Int) : Nat → PS
  | 0 => PS.start mask k
  | n + 1 => (PS.nth mask k n).next mask

/-- every state of a key's probe sequence indexes a slot of the table -/
theorem PS.nth_valid (mask : Nat) (k : Int) : ∀ n : Nat, (PS.nth mask k n).Valid mask := by
  intro n
  induction n with
  | zero => exact PS.start_valid mask k
  | succ n ih => exact PS.next_valid ih

/-- In a table of `mask + 1` slots a lookup answers `none` only when it ran out of fuel: each of the `f` slots it
visited held a dummy or another key. -/
theorem look_none_only_by_fuel {t : Array Slot} {mask : Nat} {k : Int} (hs : t.size = mask + 1) :
    ∀ (f n : Nat), look t mask k f (PS.nth mask k n) = none →
      ∀ m, m < f → t[(PS.nth mask k (n + m)).idx]? = some Slot.dummy ∨
        ∃ k', k' ≠ k ∧ t[(PS.nth mask k (n + m)).idx]? = some (Slot.active k') := by
  intro f
  induction f with
  | zero => intro n _ m hm; omega
  | succ f ih =>
    intro n h m hm
    have hin : (PS.nth mask k n).idx < t.size := by
      have := PS.idx_le (PS.nth_valid mask k n); omega
    rcases slot_cases k t[(PS.nth mask k n).idx]? with he | he | he | ⟨k', hk, he⟩ | he
    · rw [Array.getElem?_eq_getElem hin] at he; simp at he
    · rw [look_empty _ _ _ _ _ he] at h; simp at h
    · rw [look_hit _ _ _ _ _ he] at h; simp at h
    · rw [look_miss _ _ _ _ _ he hk] at h
      cases m with
      | zero => exact Or.inr ⟨k', hk, he⟩
      | succ m =>
        have := ih (n + 1) h m (by omega)
        rwa [show n + 1 + m = n + (m + 1) by omega] at this
    · rw [look_dummy _ _ _ _ _ he] at h
      cases m with
      | zero => exact Or.inl he
      | succ m =>
        have := ih (n + 1) h m (by omega)
        rwa [show n + 1 + m = n + (m + 1) by omega] at this

end ChythonModel.Py.IntSet
