import ChythonModel.Py.IntSet
/-!
# C19 — the probe sequence never leaves the table
-/
namespace ChythonModel.Py.IntSet

/-- the linear run is only entered when it fits -/
def PS.Valid (mask : Nat) (s : PS) : Prop := s.i ≤ mask ∧ (s.j = 0 ∨ (s.i + 9 ≤ mask ∧ s.j ≤ 9))

theorem PS.start_valid (mask : Nat) (k : Int) : (PS.start mask k).Valid mask :=
  ⟨Nat.and_le_right, Or.inl rfl⟩

theorem PS.next_valid {mask : Nat} {s : PS} (h : s.Valid mask) : (s.next mask).Valid mask := by
  unfold PS.next
  split
  · rename_i hc
    exact ⟨h.1, Or.inr ⟨hc.1, by show s.j + 1 ≤ 9; omega⟩⟩
  · exact ⟨Nat.and_le_right, Or.inl rfl⟩

theorem PS.idx_le {mask : Nat} {s : PS} (h : s.Valid mask) : s.idx ≤ mask := by
  unfold PS.idx
  rcases h.2 with h0 | ⟨h1, h2⟩
  · rw [h0]; exact h.1
  · omega

/-- the `n`-th state of the probe sequence of `k` -/
def PS.nth (mask : Nat) (k : Int) : Nat → PS
  | 0 => PS.start mask k
  | n + 1 => (PS.nth mask k n).next mask

/-- every state of a key's probe sequence indexes a slot of the table -/
theorem PS.nth_valid (mask : Nat) (k : Int) : ∀ n : Nat, (PS.nth mask k n).Valid mask := by
  intro n
  induction n with
  | zero => exact PS.start_valid mask k
  | succ n ih => exact PS.next_valid ih

end ChythonModel.Py.IntSet
