import ChythonModel.Spec.Kekule
/-!
# C05 — helper lemmas: positional checkers ⇒ look-up based relations
-/
namespace ChythonModel.Proofs.C05
open ChythonModel.Model ChythonModel.Model.Valence ChythonModel.Spec.Kekule

theorem all2_nil_left {α β : Type} {f : α → β → Bool} {ys : List β} (h : all2 f [] ys = true) : ys = [] := by
  cases ys with
  | nil => rfl
  | cons y ys => simp [all2] at h

theorem all2_cons {α β : Type} {f : α → β → Bool} {x : α} {xs : List α} {ys : List β}
    (h : all2 f (x :: xs) ys = true) : ∃ y ys', ys = y :: ys' ∧ f x y = true ∧ all2 f xs ys' = true := by
  cases ys with
  | nil => simp [all2] at h
  | cons y ys' =>
    simp only [all2, Bool.and_eq_true] at h
    exact ⟨y, ys', rfl, h.1, h.2⟩

/-- positional agreement with equal keys: a look-up that succeeds on the left succeeds on the right, on a related value -/
theorem lookup_all2 {α β : Type} {f : Nat × α → Nat × β → Bool} (hk : ∀ p q, f p q = true → p.1 = q.1) :
    ∀ {xs : List (Nat × α)} {ys : List (Nat × β)}, all2 f xs ys = true →
      ∀ {n : Nat} {v : α}, xs.lookup n = some v → ∃ w, ys.lookup n = some w ∧ f (n, v) (n, w) = true := by
  intro xs
  induction xs with
  | nil => intro ys _ n v hl; simp at hl
  | cons x xs ih =>
    intro ys h n v hl
    obtain ⟨y, ys', rfl, hxy, hrest⟩ := all2_cons h
    have hkey := hk x y hxy
    obtain ⟨xk, xv⟩ := x
    obtain ⟨yk, yv⟩ := y
    simp only at hkey
    subst hkey
    by_cases hn : n = xk
    · subst hn
      simp only [List.lookup_cons_self, Option.some.injEq] at hl
      subst hl
      exact ⟨yv, by simp, hxy⟩
    · have hne : (n == xk) = false := by simpa using hn
      rw [List.lookup_cons, hne] at hl
      obtain ⟨w, hw, hf⟩ := ih hrest hl
      exact ⟨w, by rw [List.lookup_cons, hne]; exact hw, hf⟩

/-- … and conversely a look-up that succeeds on the right succeeds on the left -/
theorem lookup_all2_rev {α β : Type} {f : Nat × α → Nat × β → Bool} (hk : ∀ p q, f p q = true → p.1 = q.1) :
    ∀ {xs : List (Nat × α)} {ys : List (Nat × β)}, all2 f xs ys = true →
      ∀ {n : Nat} {w : β}, ys.lookup n = some w → ∃ v, xs.lookup n = some v ∧ f (n, v) (n, w) = true := by
  intro xs
  induction xs with
  | nil => intro ys h n w hl; rw [all2_nil_left h] at hl; simp at hl
  | cons x xs ih =>
    intro ys h n w hl
    obtain ⟨y, ys', rfl, hxy, hrest⟩ := all2_cons h
    have hkey := hk x y hxy
    obtain ⟨xk, xv⟩ := x
    obtain ⟨yk, yv⟩ := y
    simp only at hkey
    subst hkey
    by_cases hn : n = xk
    · subst hn
      simp only [List.lookup_cons_self, Option.some.injEq] at hl
      subst hl
      exact ⟨xv, by simp, hxy⟩
    · have hne : (n == xk) = false := by simpa using hn
      rw [List.lookup_cons, hne] at hl
      obtain ⟨v, hv, hf⟩ := ih hrest hl
      exact ⟨v, by rw [List.lookup_cons, hne]; exact hv, hf⟩

/-- a look-up fails on the left iff it fails on the right -/
theorem lookup_none_all2 {α β : Type} {f : Nat × α → Nat × β → Bool} (hk : ∀ p q, f p q = true → p.1 = q.1)
    {xs : List (Nat × α)} {ys : List (Nat × β)} (h : all2 f xs ys = true) (n : Nat) :
    (xs.lookup n).isSome = (ys.lookup n).isSome := by
  cases hx : xs.lookup n with
  | some v => obtain ⟨w, hw, _⟩ := lookup_all2 hk h hx; simp [hw]
  | none =>
    cases hy : ys.lookup n with
    | none => rfl
    | some w => obtain ⟨v, hv, _⟩ := lookup_all2_rev hk h hy; rw [hx] at hv; cases hv

/-- positional map equality from `all2` -/
theorem map_eq_of_all2 {α β γ : Type} {f : α → β → Bool} (g : α → γ) (g' : β → γ)
    (hg : ∀ x y, f x y = true → g x = g' y) :
    ∀ {xs : List α} {ys : List β}, all2 f xs ys = true → xs.map g = ys.map g' := by
  intro xs
  induction xs with
  | nil => intro ys h; rw [all2_nil_left h]; rfl
  | cons x xs ih =>
    intro ys h
    obtain ⟨y, ys', rfl, hxy, hrest⟩ := all2_cons h
    simp only [List.map_cons, hg x y hxy, ih hrest]

theorem all2_mem_right {α β : Type} {f : α → β → Bool} :
    ∀ {xs : List α} {ys : List β}, all2 f xs ys = true → ∀ y ∈ ys, ∃ x ∈ xs, f x y = true := by
  intro xs
  induction xs with
  | nil => intro ys h y hy; rw [all2_nil_left h] at hy; cases hy
  | cons x xs ih =>
    intro ys h y hy
    obtain ⟨y0, ys', rfl, hxy, hrest⟩ := all2_cons h
    rcases List.mem_cons.mp hy with rfl | hy'
    · exact ⟨x, List.mem_cons_self, hxy⟩
    · obtain ⟨x', hx', hf⟩ := ih hrest y hy'
      exact ⟨x', List.mem_cons_of_mem _ hx', hf⟩

theorem all2_mem_left {α β : Type} {f : α → β → Bool} :
    ∀ {xs : List α} {ys : List β}, all2 f xs ys = true → ∀ x ∈ xs, ∃ y ∈ ys, f x y = true := by
  intro xs
  induction xs with
  | nil => intro ys _ x hx; cases hx
  | cons x0 xs ih =>
    intro ys h x hx
    obtain ⟨y0, ys', rfl, hxy, hrest⟩ := all2_cons h
    rcases List.mem_cons.mp hx with rfl | hx'
    · exact ⟨y0, List.mem_cons_self, hxy⟩
    · obtain ⟨y', hy', hf⟩ := ih hrest x hx'
      exact ⟨y', List.mem_cons_of_mem _ hy', hf⟩

/-! ### Bool ↔ Prop for the order predicates -/

theorem kekOrderB_iff (o o' : Nat) : kekOrderB o o' = true ↔ KekOrder o o' := by
  unfold kekOrderB KekOrder
  by_cases h : o = 4 <;> simp [h]

theorem localisedB_iff (o : Nat) : localisedB o = true ↔ Localised o := by
  unfold localisedB Localised
  simp [Bool.or_eq_true, or_assoc]

theorem aromOrderB_iff (o o' : Nat) : aromOrderB o o' = true ↔ AromOrder o o' := by
  unfold aromOrderB AromOrder
  simp [Bool.or_eq_true, Bool.and_eq_true]

theorem touchedB_iff (a : Mol) (n : Nat) : touchedB a n = true ↔ Touched a n := by
  unfold touchedB Touched
  rw [List.any_eq_true]
  constructor
  · rintro ⟨p, hmem, hb⟩
    exact ⟨p, hmem, by simpa using hb⟩
  · rintro ⟨p, hmem, hb⟩
    exact ⟨p, hmem, by simpa using hb⟩

theorem mem_of_lookup {α : Type} {l : List (Nat × α)} {k : Nat} {v : α} (h : l.lookup k = some v) : (k, v) ∈ l := by
  induction l with
  | nil => simp at h
  | cons x xs ih =>
    obtain ⟨xk, xv⟩ := x
    by_cases hk : k = xk
    · subst hk
      simp only [List.lookup_cons_self, Option.some.injEq] at h
      subst h
      exact List.mem_cons_self
    · have hne : (k == xk) = false := by simpa using hk
      rw [List.lookup_cons, hne] at h
      exact List.mem_cons_of_mem _ (ih h)

end ChythonModel.Proofs.C05
