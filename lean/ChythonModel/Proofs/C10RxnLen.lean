import ChythonModel.Proofs.C10Rxn
/-!
# C10: the `ReactionContainer.pack_len` walk over concatenated packs
-/
namespace ChythonModel.Proofs.C10
open ChythonModel.Model.Pack

/-- shape of a pack: 4 header bytes, the atom block, then `3F + ⌈3F/8⌉ + 4·cc` bytes -/
theorem encode_shape (m : PMol) (h : WF m) :
    ∃ ab tl F, encode m = .ok ([2, u8 (m.atoms.length >>> 4), u8 (m.atoms.length <<< 4 ||| ctCount m.atoms >>> 8),
        u8 (ctCount m.atoms)] ++ ab ++ tl) ∧ atomBlock m.atoms = some ab ∧
      (m.atoms.map (·.nbrs.length)).sum = 2 * F ∧ tl.length = 3 * F + (3 * F + 7) / 8 + 4 * ctCount m.atoms := by
  obtain ⟨ct, hct, hctlen, _⟩ := ct_roundtrip m.terminals (firstSeen [] m.atoms) h.terminals
  obtain ⟨ab, hab, _, _⟩ := decodeAtoms_atomBlock m.atoms [] h.atomsOK
  obtain ⟨F, hF⟩ : ∃ F, (firstSeen [] m.atoms).length = F := ⟨_, rfl⟩
  have hT : (m.atoms.map (·.nbrs.length)).sum = 2 * F := by rw [← hF]; exact h.handshake.symm
  have hcount := h.count
  have hu2 : u16 m.atoms.length = m.atoms.length := u16_id (by omega)
  have hu3 : u16 (ctCount m.atoms) = ctCount m.atoms := u16_id (by have := h.ctLimit; omega)
  have hflat := flatNbrs_eq m.atoms h.nbrRange
  have hflen : (flatM m.atoms).length = 2 * F := by rw [flatM_length, hT]
  have hpairs_len : (pairEnc true 0 (flatM m.atoms)).length = 3 * F := by
    rw [pairEnc_length _ _ (by omega), hflen]; omega
  have hcodes_len : (orderCodes m.atoms).length = F := by simp [orderCodes, hF]
  have hords_len : (orderEnc 0 0 (orderCodes m.atoms)).length = (3 * F + 7) / 8 := by
    rw [orderEnc_length, hcodes_len]
  have hcc : ctCount m.atoms = (stereoBonds (firstSeen [] m.atoms)).length := rfl
  refine ⟨ab, pairEnc true 0 (flatM m.atoms) ++ orderEnc 0 0 (orderCodes m.atoms) ++ ct, F, ?_, hab, hT, ?_⟩
  · simp only [encode, checkLimits_ok h, encodeRaw, hab, hct, hflat, header, hu2, hu3]
    simp [List.append_assoc]; rfl
  · simp only [List.length_append, hpairs_len, hords_len, hctlen, hcc]


theorem atomRecord_shape (a : PAtom) (bs : List Nat) (h : atomRecord a = some bs) :
    ∃ b0 t, bs = b0 :: u8 (u16 a.num <<< 4 ||| u8 a.nbrs.length) :: t ∧ t.length = 7 := by
  simp only [atomRecord] at h
  cases hi : isoField a.z a.iso with
  | none => simp [hi] at h
  | some k =>
    simp only [hi, Option.map_some, Option.some.injEq] at h
    exact ⟨_, _, h.symm, rfl⟩

/-- the inner loop of `pack_len` over an atom block adds up the neighbour counts -/
theorem degSum_block : ∀ (atoms : List PAtom) (ab : List Nat), (∀ a ∈ atoms, AtomOK a) → atomBlock atoms = some ab →
    ∀ pre post : List Nat, degSum (pre ++ ab ++ post) (pre.length + 1) atoms.length =
      .ok (atoms.map (·.nbrs.length)).sum
  | [], ab, _, _, pre, post => by simp [degSum]
  | a :: rest, ab, hok, hab, pre, post => by
    simp only [atomBlock] at hab
    cases hr : atomRecord a with
    | none => simp [hr] at hab
    | some bs =>
      cases hb : atomBlock rest with
      | none => simp [hr, hb] at hab
      | some ab' =>
        simp only [hr, hb] at hab
        have hab' : ab = bs ++ ab' := by cases hab; rfl
        obtain ⟨b0, t, hbs, ht⟩ := atomRecord_shape a bs hr
        have hA := hok a (by simp)
        have hn : u16 a.num = a.num := u16_id (Nat.lt_trans hA.num (by decide))
        have hd : u8 a.nbrs.length = a.nbrs.length := u8_id (Nat.lt_trans hA.deg (by decide))
        obtain ⟨_, n2⟩ := num12_nibble' a.num a.nbrs.length hA.num hA.deg
        have ih := degSum_block rest ab' (fun x hx => hok x (by simp [hx])) hb (pre ++ bs) post
        have hbl : bs.length = 9 := by rw [hbs]; simp [ht]
        have e : pre ++ bs ++ ab' ++ post = pre ++ ab ++ post := by rw [hab']; simp
        rw [e, List.length_append, hbl] at ih
        have hget : (pre ++ ab ++ post)[pre.length + 1]? = some (u8 (a.num <<< 4 ||| a.nbrs.length)) := by
          rw [hab', hbs, hn, hd]; simp
        simp only [List.length_cons, degSum, hget, List.map_cons, List.sum_cons]
        rw [show pre.length + 1 + 9 = pre.length + 9 + 1 by omega, ih, n2]; rfl


theorem take_drop_mid {α} (A B C : List α) : ((A ++ B ++ C).take (A.length + B.length)).drop A.length = B := by
  rw [List.take_left' (by simp)]; exact List.drop_left' rfl

/-- one step of the `pack_len` walk over the pack of a well-formed molecule: it reports the atom count and lands
    one byte past the start of the next pack (the order block is skipped as `⌈3·bonds/8⌉` bytes). -/
theorem scanMol_pack (m : PMol) (h : WF m) (bytes : List Nat) (he : encode m = .ok bytes) (pre post : List Nat) :
    scanMol (pre ++ bytes ++ post) 2 (pre.length + 1) = .ok (m.atoms.length, pre.length + bytes.length + 1) := by
  obtain ⟨ab, tl, F, hsh, hab, hT, htl⟩ := encode_shape m h
  rw [he] at hsh
  have hbytes : bytes = [2, u8 (m.atoms.length >>> 4), u8 (m.atoms.length <<< 4 ||| ctCount m.atoms >>> 8),
        u8 (ctCount m.atoms)] ++ ab ++ tl := by injection hsh
  have hn := h.count
  have hcl := h.ctLimit
  have hablen : ab.length = 9 * m.atoms.length := by
    obtain ⟨ab', h1, h2, _⟩ := decodeAtoms_atomBlock m.atoms [] h.atomsOK
    rw [hab] at h1; cases h1; exact h2
  -- the three header bytes
  have hsl : pySlice (pre ++ bytes ++ post) (some ((pre.length + 1 : Nat) : Int)) (some (((pre.length + 1 : Nat) : Int) + 3))
      = [u8 (m.atoms.length >>> 4), u8 (m.atoms.length <<< 4 ||| ctCount m.atoms >>> 8), u8 (ctCount m.atoms)] := by
    have e : (((pre.length + 1 : Nat) : Int) + 3) = ((pre.length + 1 + 3 : Nat) : Int) := by omega
    rw [e, pySlice_nat, hbytes]
    have := take_drop_mid (pre ++ [2]) [u8 (m.atoms.length >>> 4), u8 (m.atoms.length <<< 4 ||| ctCount m.atoms >>> 8),
      u8 (ctCount m.atoms)] (ab ++ tl ++ post)
    simp only [List.length_append, List.length_cons, List.length_nil] at this
    simpa [List.append_assoc] using this
  have hbe := be24 m.atoms.length (ctCount m.atoms) (by omega) (by omega)
  have hac : (m.atoms.length * 4096 + ctCount m.atoms) >>> 12 = m.atoms.length := by
    rw [Nat.shiftRight_eq_div_pow]; omega
  have hcc : (m.atoms.length * 4096 + ctCount m.atoms) &&& 0x0fff = ctCount m.atoms := by
    rw [and_fff]; omega
  have hdeg := degSum_block m.atoms ab h.atomsOK hab
    (pre ++ [2, u8 (m.atoms.length >>> 4), u8 (m.atoms.length <<< 4 ||| ctCount m.atoms >>> 8), u8 (ctCount m.atoms)])
    (tl ++ post)
  have e2 : pre ++ [2, u8 (m.atoms.length >>> 4), u8 (m.atoms.length <<< 4 ||| ctCount m.atoms >>> 8),
      u8 (ctCount m.atoms)] ++ ab ++ (tl ++ post) = pre ++ bytes ++ post := by rw [hbytes]; simp
  rw [e2] at hdeg
  simp only [List.length_append, List.length_cons, List.length_nil] at hdeg
  have h22 : ((2 : Nat) == 2) = true := rfl
  simp only [scanMol, hsl, hbe, hac, hcc]
  rw [show pre.length + 1 + 4 = pre.length + (0 + 1 + 1 + 1 + 1) + 1 by omega, hdeg, hT]
  simp only [bind, Except.bind, if_pos h22]
  have hlen : bytes.length = 4 + 9 * m.atoms.length + (3 * F + (3 * F + 7) / 8 + 4 * ctCount m.atoms) := by
    rw [hbytes]; simp [hablen, htl]; omega
  rw [hlen]
  congr 2
  omega


theorem ac_slice (m : PMol) (h : WF m) (bytes : List Nat) (he : encode m = .ok bytes) (pre post : List Nat) :
    fromBytesBE (pySlice (pre ++ bytes ++ post) (some ((pre.length + 1 : Nat) : Int))
      (some (((pre.length + 1 : Nat) : Int) + 3))) >>> 12 = m.atoms.length := by
  obtain ⟨ab, tl, F, hsh, hab, hT, htl⟩ := encode_shape m h
  rw [he] at hsh
  have hbytes : bytes = [2, u8 (m.atoms.length >>> 4), u8 (m.atoms.length <<< 4 ||| ctCount m.atoms >>> 8),
        u8 (ctCount m.atoms)] ++ ab ++ tl := by injection hsh
  have hn := h.count
  have hcl := h.ctLimit
  have e : (((pre.length + 1 : Nat) : Int) + 3) = ((pre.length + 1 + 3 : Nat) : Int) := by omega
  rw [e, pySlice_nat, hbytes]
  have := take_drop_mid (pre ++ [2]) [u8 (m.atoms.length >>> 4), u8 (m.atoms.length <<< 4 ||| ctCount m.atoms >>> 8),
    u8 (ctCount m.atoms)] (ab ++ tl ++ post)
  simp only [List.length_append, List.length_cons, List.length_nil] at this
  have hs : List.drop (pre.length + 1) (List.take (pre.length + 1 + 3)
      (pre ++ ([2, u8 (m.atoms.length >>> 4), u8 (m.atoms.length <<< 4 ||| ctCount m.atoms >>> 8),
        u8 (ctCount m.atoms)] ++ ab ++ tl) ++ post)) =
      [u8 (m.atoms.length >>> 4), u8 (m.atoms.length <<< 4 ||| ctCount m.atoms >>> 8), u8 (ctCount m.atoms)] := by
    simpa [List.append_assoc] using this
  rw [hs, be24 _ _ (by omega) (by omega), Nat.shiftRight_eq_div_pow]; omega

theorem encode_head (m : PMol) (h : WF m) (bytes : List Nat) (he : encode m = .ok bytes) :
    ∃ t, bytes = 2 :: t := by
  obtain ⟨ab, tl, F, hsh, _⟩ := encode_shape m h
  rw [he] at hsh
  have hb : bytes = [2, u8 (m.atoms.length >>> 4), u8 (m.atoms.length <<< 4 ||| ctCount m.atoms >>> 8),
        u8 (ctCount m.atoms)] ++ ab ++ tl := by injection hsh
  exact ⟨_, by rw [hb]; rfl⟩

theorem scanMols_packs : ∀ (ms : List PMol), (∀ m ∈ ms, WF m) → ∀ bs : List Nat, encodeAll ms = .ok bs →
    ∀ pre post : List Nat,
      scanMols ms.length (pre ++ bs ++ post) 2 (pre.length + 1) =
        .ok (ms.map (·.atoms.length), pre.length + bs.length + 1)
  | [], _, bs, he, pre, post => by
    simp only [encodeAll] at he; cases he; simp [scanMols]
  | m :: ms, h, bs, he, pre, post => by
    simp only [encodeAll] at he
    cases ha : encode m with
    | error e => simp [ha, bind, Except.bind] at he
    | ok a =>
      cases hb : encodeAll ms with
      | error e => simp [ha, hb, bind, Except.bind] at he
      | ok b =>
        simp only [ha, hb, bind, Except.bind, pure, Except.pure] at he
        have hbs : bs = a ++ b := by injection he with he; exact he.symm
        have h1 := scanMol_pack m (h m (by simp)) a ha pre (b ++ post)
        have h2 := scanMols_packs ms (fun x hx => h x (by simp [hx])) b hb (pre ++ a) post
        have e1 : pre ++ a ++ (b ++ post) = pre ++ bs ++ post := by rw [hbs]; simp
        have e2 : pre ++ a ++ b ++ post = pre ++ bs ++ post := by rw [hbs]; simp
        rw [e1] at h1; rw [e2, List.length_append] at h2
        simp only [List.length_cons, scanMols, h1, bind, Except.bind, h2, List.map_cons, pure, Except.pure]
        rw [hbs, List.length_append]
        congr 2; omega


theorem encodeAll_append_ok : ∀ (xs ys : List PMol) (bs : List Nat), encodeAll (xs ++ ys) = .ok bs →
    ∃ a b, encodeAll xs = .ok a ∧ encodeAll ys = .ok b ∧ bs = a ++ b
  | [], ys, bs, h => ⟨[], bs, rfl, h, rfl⟩
  | x :: xs, ys, bs, h => by
    simp only [List.cons_append, encodeAll] at h
    cases ha : encode x with
    | error e => simp [ha, bind, Except.bind] at h
    | ok a =>
      cases hb : encodeAll (xs ++ ys) with
      | error e => simp [ha, hb, bind, Except.bind] at h
      | ok b =>
        simp only [ha, hb, bind, Except.bind, pure, Except.pure] at h
        obtain ⟨a', b', h1, h2, h3⟩ := encodeAll_append_ok xs ys b hb
        refine ⟨a ++ a', b', ?_, h2, ?_⟩
        · simp only [encodeAll, ha, h1, bind, Except.bind, pure, Except.pure]
        · injection h with h; rw [← h, h3, List.append_assoc]

theorem encodeAll_single (m : PMol) (b : List Nat) (h : encodeAll [m] = .ok b) : encode m = .ok b := by
  simp only [encodeAll] at h
  cases ha : encode m with
  | error e => simp [ha, bind, Except.bind] at h
  | ok a =>
    simp only [ha, bind, Except.bind, pure, Except.pure, List.append_nil] at h
    exact h

/-- **`ReactionContainer.pack_len`**: walking over the concatenated packs reports the atom count of every molecule
    in its own role, for all role sizes 0…255 with at least one molecule. -/
theorem rxn_packLen_aux (r : PRxn) (h : RxnWF r) :
    ∃ bytes, rxnEncode r = .ok bytes ∧
      rxnPackLen bytes = .ok ⟨r.reactants.map (·.atoms.length), r.reagents.map (·.atoms.length),
        r.products.map (·.atoms.length)⟩ := by
  obtain ⟨bs, e1, _⟩ := encodeAll_decodeMany r.molecules h.mols []
  have hc : ¬ (r.reactants.length > 255 ∨ r.reagents.length > 255 ∨ r.products.length > 255) := by
    have := h.reactants; have := h.reagents; have := h.products; omega
  refine ⟨[1, r.reactants.length, r.reagents.length, r.products.length] ++ bs,
    by simp only [rxnEncode, if_neg hc, e1]; rfl, ?_⟩
  have hsplit := List.dropLast_concat_getLast h.nonempty
  generalize hi : r.molecules.dropLast = init at hsplit
  generalize hl : r.molecules.getLast h.nonempty = last at hsplit
  have hmols : ∀ m ∈ init ++ [last], WF m := by rw [hsplit]; exact h.mols
  rw [← hsplit] at e1
  obtain ⟨bi, bl0, hbi, hbl0, hbs⟩ := encodeAll_append_ok init [last] bs e1
  have hbl := encodeAll_single last bl0 hbl0
  have hlast : WF last := hmols last (by simp)
  -- first byte of the body is the version byte 2
  have hv : ([1, r.reactants.length, r.reagents.length, r.products.length] ++ bs)[4]? = some 2 := by
    cases hinit : init with
    | nil =>
      rw [hinit] at hbi; simp only [encodeAll] at hbi; cases hbi
      obtain ⟨t, ht⟩ := encode_head last hlast bl0 hbl
      rw [hbs, ht]; rfl
    | cons m0 rest =>
      rw [hinit] at hbi
      obtain ⟨a, b, h1, _, h3⟩ := encodeAll_append_ok [m0] rest bi (by simpa using hbi)
      obtain ⟨t, ht⟩ := encode_head m0 (hmols m0 (by simp [hinit])) a (encodeAll_single m0 a h1)
      rw [hbs, h3, ht]; rfl
  have hlen : r.reactants.length + r.reagents.length + r.products.length - 1 = init.length := by
    have : r.molecules.length = init.length + 1 := by rw [← hsplit]; simp
    simp only [PRxn.molecules, List.length_append] at this; omega
  have hscan := scanMols_packs init (fun m hm => hmols m (by simp [hm])) bi hbi
    [1, r.reactants.length, r.reagents.length, r.products.length] bl0
  have hac := ac_slice last hlast bl0 hbl ([1, r.reactants.length, r.reagents.length, r.products.length] ++ bi) []
  have ed : [1, r.reactants.length, r.reagents.length, r.products.length] ++ bi ++ bl0 =
      [1, r.reactants.length, r.reagents.length, r.products.length] ++ bs := by rw [hbs]; simp
  have ed2 : [1, r.reactants.length, r.reagents.length, r.products.length] ++ bi ++ bl0 ++ [] =
      [1, r.reactants.length, r.reagents.length, r.products.length] ++ bs := by rw [hbs]; simp
  rw [ed] at hscan; rw [ed2] at hac
  simp only [List.length_append, List.length_cons, List.length_nil] at hscan hac
  have h11 : ((1 : Nat) != 1) = false := rfl
  simp only [List.cons_append, List.nil_append] at hv hscan hac ⊢
  simp only [rxnPackLen, h11, Bool.false_eq_true, ↓reduceIte, List.getElem?_cons_succ, List.getElem?_cons_zero, hlen]
  have hv' : bs[0]? = some 2 := by simpa using hv
  rw [hv']
  simp only [hscan, bind, Except.bind, pure, Except.pure]
  rw [show (0 + 1 + 1 + 1 + 1 + bi.length + 1 : Nat) = 0 + 1 + 1 + 1 + 1 + bi.length + 1 from rfl] at hac
  rw [hac]
  have hm : init.map (·.atoms.length) ++ [last.atoms.length] =
      r.reactants.map (·.atoms.length) ++ r.reagents.map (·.atoms.length) ++ r.products.map (·.atoms.length) := by
    have : (init ++ [last]).map (·.atoms.length) = r.molecules.map (·.atoms.length) := by rw [hsplit]
    simpa [PRxn.molecules] using this
  rw [hm]
  have := splitRoles_append (r.reactants.map (·.atoms.length)) (r.reagents.map (·.atoms.length))
    (r.products.map (·.atoms.length))
  simp only [List.length_map] at this
  rw [this]

end ChythonModel.Proofs.C10
