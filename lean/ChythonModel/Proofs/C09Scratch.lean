import ChythonModel.Model.BitLayout
import Mathlib.Data.List.Basic
namespace ChythonModel.Proofs.C09
open ChythonModel.Model.Bits ChythonModel.Model

theorem foldl_set_get (g : CBond → Nat) : ∀ (hits : List CBond) (arr : List Nat) (i : Nat),
    (hits.foldl (fun a jb => a.set jb.index (g jb)) arr)[i]? =
      if i < arr.length then
        (match hits.reverse.find? (·.index == i) with
         | some jb => some (g jb)
         | none => arr[i]?)
      else none := by
  intro hits
  induction hits with
  | nil =>
    intro arr i
    by_cases hi : i < arr.length
    · simp [hi]
    · simp [hi]
  | cons h t ih =>
    intro arr i
    simp only [List.foldl_cons]
    rw [ih (arr.set h.index (g h)) i, List.length_set, List.reverse_cons, List.find?_append]
    by_cases hi : i < arr.length
    · simp only [hi, if_true]
      cases hf : t.reverse.find? (·.index == i) with
      | some jb => simp
      | none =>
        simp only [Option.none_or, List.find?_cons, List.find?_nil]
        by_cases hx : h.index = i
        · subst hx; simp [List.getElem?_set, hi]
        · have hb : (h.index == i) = false := by simp [hx]
          simp [hb, List.getElem?_set, hx]
    · simp [hi]

theorem fill_get (hits : List CBond) (N x : Nat) (hx : x < N) :
    (fillScratch (List.replicate N 0) hits)[x]? = some (scratch hits x) := by
  unfold fillScratch scratch
  rw [foldl_set_get (fun jb => jb.bond) hits _ x]
  simp only [List.length_replicate, hx, if_true]
  cases hits.reverse.find? (·.index == x) with
  | some jb => rfl
  | none => simp [hx]

theorem fillScratch_length (arr : List Nat) (hits : List CBond) : (fillScratch arr hits).length = arr.length := by
  unfold fillScratch
  induction hits generalizing arr with
  | nil => rfl
  | cons h t ih => simp only [List.foldl_cons]; rw [ih]; simp

/-- zeroing every slot of the candidate's bond row undoes the fill, whatever subset of the row was recorded -/
theorem zero_fill (N : Nat) (hits nb : List CBond) (hsub : ∀ h ∈ hits, ∃ b ∈ nb, b.index = h.index) :
    zeroScratch (fillScratch (List.replicate N 0) hits) nb = List.replicate N 0 := by
  apply List.ext_getElem?
  intro i
  unfold zeroScratch
  rw [foldl_set_get (fun _ => 0) nb _ i, fillScratch_length]
  by_cases hi : i < N
  · simp only [List.length_replicate, hi, if_true]
    cases hf : nb.reverse.find? (·.index == i) with
    | some jb => simp [hi]
    | none =>
      simp only
      rw [fill_get hits N i hi]
      unfold scratch
      cases hh : hits.reverse.find? (·.index == i) with
      | none => simp [hi]
      | some h =>
        exfalso
        have hm : h ∈ hits := List.mem_reverse.mp (List.mem_of_find?_eq_some hh)
        have he : h.index = i := by have := List.find?_some hh; simpa using this
        obtain ⟨b, hb, hbe⟩ := hsub h hm
        rw [List.find?_eq_none] at hf
        have := hf b (List.mem_reverse.mpr hb)
        simp [hbe, he] at this
  · simp [hi]


theorem hits_sub_nb (nb : List CBond) (flags : List Bool) (n : Nat) :
    ∀ h ∈ ((nb.zip flags).filter fun (jb, f) => jb.index != n && f).map (·.1), ∃ b ∈ nb, b.index = h.index := by
  intro h hh
  obtain ⟨p, hp, rfl⟩ := List.mem_map.mp hh
  exact ⟨p.1, (List.of_mem_zip (List.mem_filter.mp hp).1).1, rfl⟩

theorem mapM_scratch (hits : List CBond) (N : Nat) (images : List Nat) (h : ∀ x ∈ images, x < N) :
    images.mapM (fun x => (fillScratch (List.replicate N 0) hits)[x]?) = some (images.map (scratch hits)) := by
  induction images with
  | nil => rfl
  | cons x xs ih =>
    rw [List.mapM_cons, fill_get hits N x (h x (by simp)), ih (fun y hy => h y (by simp [hy]))]
    rfl

theorem all_zip_map_right {α β γ} (l : List α) (r : List β) (f : β → γ) (p : α × γ → Bool) :
    (l.zip (r.map f)).all p = (l.zip r).all (fun x => p (x.1, f x.2)) := by
  induction l generalizing r with
  | nil => simp
  | cons a l ih =>
    cases r with
    | nil => simp
    | cons b r => simp only [List.map_cons, List.zip_cons_cons, List.all_cons, ih]

theorem mapM_mem_of_get (path : List Nat) (qb : List CBond) (images : List Nat)
    (h : qb.mapM (fun jb => path[jb.index]?) = some images) : ∀ x ∈ images, x ∈ path := by
  induction qb generalizing images with
  | nil => simp at h; subst h; intro x hx; simp at hx
  | cons jb qb ih =>
    rw [List.mapM_cons] at h
    cases hj : path[jb.index]? with
    | none => simp [hj] at h
    | some y =>
      cases hr : qb.mapM (fun jb => path[jb.index]?) with
      | none => simp [hj, hr] at h
      | some r =>
        simp [hj, hr] at h
        subst h
        intro x hx
        rcases List.mem_cons.mp hx with rfl | hx'
        · exact List.mem_of_getElem? hj
        · exact ih r hr x hx'

/-- **one candidate**: starting from an all-zero scratch array the literal closure block returns the verdict of `closureC` and
    leaves the array all-zero -/
theorem closureCS_clean (m : CMol) (q : CQuery) (qa : CQAtom) (mAtom : CAtom) (n : Nat) (matched : List Bool) (path : List Nat)
    (N : Nat) (hp : ∀ x ∈ path, x < N) :
    closureCS m q qa mAtom n matched path (List.replicate N 0) =
      (closureC m q qa mAtom n matched path).map (fun b => (b, List.replicate N 0)) := by
  unfold closureCS closureC
  simp only [Option.bind_eq_bind, bind, Option.pure_def, pure]
  cases h1 : slice? m.bonds mAtom.from_ mAtom.to_ with
  | none => rfl
  | some nb =>
    simp only [Option.bind_some]
    cases h2 : nb.mapM (fun jb => matched[jb.index]?) with
    | none => rfl
    | some flags =>
      simp only [Option.bind_some]
      have hz := zero_fill N (((nb.zip flags).filter fun (jb, f) => jb.index != n && f).map (·.1)) nb (hits_sub_nb nb flags n)
      by_cases hk : (qa.closure != 0) = true
      · simp only [hk, if_true]
        by_cases hl : ((((nb.zip flags).filter fun (jb, f) => jb.index != n && f).map (·.1)).length == qa.closure) = true
        · simp only [hl, if_true]
          cases h3 : slice? q.bonds qa.from_ qa.to_ with
          | none => rfl
          | some qb =>
            simp only [Option.bind_some]
            cases h4 : qb.mapM (fun jb => path[jb.index]?) with
            | none => rfl
            | some images =>
              simp only [Option.bind_some]
              have hil : ∀ x ∈ images, x < N := fun x hx => hp x (mapM_mem_of_get path qb images h4 x hx)
              rw [mapM_scratch _ N images hil]
              simp only [Option.map_some, hz, closureAll, all_zip_map_right]
        · simp only [hl, Bool.false_eq_true, if_false, Option.map_some, hz]
      · simp only [hk, Bool.false_eq_true, if_false, Option.map_some]

/-- **one bond row**: with a clean array on entry the stateful scan yields what `candidatesC` yields and a clean array -/
theorem candidatesCS_clean (m : CMol) (q : CQuery) (scope : List Bool) (qa : CQAtom) (n : Nat) (matched : List Bool) (path : List Nat)
    (N : Nat) (hp : ∀ x ∈ path, x < N) (row : List CBond) :
    candidatesCS m q scope qa n matched path row (List.replicate N 0) =
      (candidatesC m q scope qa n matched path row).map (fun cs => (cs, List.replicate N 0)) := by
  induction row with
  | nil => rfl
  | cons ib rest ih =>
    simp only [candidatesCS, candidatesC, Option.bind_eq_bind, bind, Option.pure_def, pure]
    cases hm : m.atoms[ib.index]? with
    | none => cases candidatesC m q scope qa n matched path rest <;> rfl
    | some mAtom =>
      cases hs : scope[ib.index]? with
      | none => cases candidatesC m q scope qa n matched path rest <;> rfl
      | some sc =>
        cases hmt : matched[ib.index]? with
        | none => cases candidatesC m q scope qa n matched path rest <;> rfl
        | some mt =>
          simp only [Option.bind_some]
          by_cases hc : (sc && !mt && nextOk qa ib.bond mAtom) = true
          · simp only [hc, if_true, closureCS_clean m q qa mAtom n matched path N hp]
            cases hcl : closureC m q qa mAtom n matched path with
            | none => cases candidatesC m q scope qa n matched path rest <;> rfl
            | some b =>
              simp only [Option.map_some, ih]
              cases candidatesC m q scope qa n matched path rest with
              | none => rfl
              | some tl => cases b <;> rfl
          · simp only [hc, Bool.false_eq_true, if_false, ih]
            cases candidatesC m q scope qa n matched path rest <;> rfl

theorem expandCS_clean (m : CMol) (q : CQuery) (scope : List Bool) (d n : Nat) (path : List Nat) (matched : List Bool) (N : Nat)
    (hp : ∀ x ∈ path, x < N) :
    expandCS m q scope d n path matched (List.replicate N 0) =
      (expandC m q scope d n path matched).map (fun cs => (cs, List.replicate N 0)) := by
  unfold expandCS expandC
  cases q.atoms[d + 1]? with
  | none => rfl
  | some qa =>
    simp only
    cases (if qa.back != d then path[qa.back]? else some n) with
    | none => rfl
    | some n' =>
      simp only
      cases m.atoms[n']? with
      | none => rfl
      | some nAtom =>
        simp only
        cases slice? m.bonds nAtom.from_ nAtom.to_ with
        | none => rfl
        | some row => exact candidatesCS_clean m q scope qa n' matched path N hp row

theorem unmark_length' (xs : List Nat) (l : List Bool) : (unmark xs l).length = l.length := by
  induction xs generalizing l with
  | nil => rfl
  | cons x xs ih => simp [unmark, ih]

/-- **the whole loop**: every candidate of the search finds the scratch array all-zero, so the matcher with the array as explicit
    state is the matcher with the array read as a local function -/
theorem runLoopCS_clean (m : CMol) (q : CQuery) (scope : List Bool) (qdec : Nat) (N : Nat) :
    ∀ (fuel : Nat) (stack : List (Nat × Nat)) (path : List Nat) (matched : List Bool) (acc : List Iso.Dict),
      matched.length = N → (∀ x ∈ path, x < N) →
      runLoopCS m q scope qdec fuel stack path matched (List.replicate N 0) acc = runLoopC m q scope qdec fuel stack path matched acc := by
  intro fuel
  induction fuel with
  | zero => intros; rfl
  | succ fuel ih =>
    intro stack path matched acc hml hp
    cases stack with
    | nil => rfl
    | cons e stack =>
      obtain ⟨n, d⟩ := e
      simp only [runLoopCS, runLoopC, Option.bind_eq_bind, bind]
      by_cases hd : (d == qdec) = true
      · simp only [hd, if_true]
        cases buildMapping m q path d n with
        | none => rfl
        | some mp => simp only [Option.bind_some]; exact ih stack path matched _ hml hp
      · simp only [hd, Bool.false_eq_true, if_false]
        have hml' : (if path.length != d then unmark (path.drop d) matched else matched).length = N := by
          split
          · rw [unmark_length']; exact hml
          · exact hml
        by_cases hn : n ≥ (if path.length != d then unmark (path.drop d) matched else matched).length
        · simp only [hn, if_true, Option.bind_none]
        · simp only [hn, if_false, Option.pure_def, Option.bind_some]
          have hp' : ∀ x ∈ path.take d ++ [n], x < N := by
            intro x hx
            rcases List.mem_append.mp hx with h | h
            · exact hp x (List.mem_of_mem_take h)
            · simp only [List.mem_singleton] at h; subst h; omega
          rw [expandCS_clean m q scope d n _ _ N hp']
          cases expandC m q scope d n (path.take d ++ [n]) ((if path.length != d then unmark (path.drop d) matched else matched).set n true) with
          | none => simp
          | some cs =>
            simp only [Option.map_some, Option.bind_some, Option.pure_def]
            exact ih _ _ _ acc (by rw [List.length_set]; exact hml') hp'

/-- `get_mapping` of the `.pyx`, scratch array explicit = scratch array as a local function -/
theorem getMappingCS_eq (m : CMol) (q : CQuery) (scope : List Bool) : getMappingCS m q scope = getMappingC m q scope := by
  unfold getMappingCS getMappingC
  simp only [Option.bind_eq_bind, bind]
  cases rootsC m q scope with
  | none => rfl
  | some roots =>
    simp only [Option.bind_some]
    exact runLoopCS_clean m q scope _ m.atoms.length _ _ [] _ [] (by simp) (by intro x hx; simp at hx)

end ChythonModel.Proofs.C09
