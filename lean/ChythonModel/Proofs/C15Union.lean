import ChythonModel.Proofs.C15Rxn
import ChythonModel.Proofs.C15Equivariant
/-!
`Graph.union(remap=True)` under a renumbering of both operands — also when the numberings collide and `union`
renumbers the second operand relative to `max` of the first: the result is the union renumbered by the *induced* map.
-/
namespace ChythonModel.Proofs.C15
open ChythonModel.Model ChythonModel.Model.C15

/-- keys of `_bonds` and all neighbour keys are atoms (part of `Mol.WF`) -/
def NbrClosed (m : Mol) : Prop := ∀ nl ∈ m.adj, nl.1 ∈ m.ids ∧ ∀ kb ∈ nl.2, kb.1 ∈ m.ids

theorem hasAtom_mem (g : Mol) (n : Nat) : g.hasAtom n = true ↔ n ∈ g.ids := by
  unfold Mol.hasAtom Mol.ids
  simp only [List.any_eq_true, beq_iff_eq, List.mem_map]

theorem nbrClosed_of_wfp (g : Mol) (w : WFp g) : NbrClosed g := by
  intro nl hnl
  obtain ⟨n, row⟩ := nl
  constructor
  · rw [← w.adjKeys]
    exact List.mem_map.mpr ⟨(n, row), hnl, rfl⟩
  · intro kb hkb
    obtain ⟨k, b⟩ := kb
    exact (hasAtom_mem g k).mp (w.rowOk n row hnl k b hkb).2.1

theorem rename_comp (f g : Nat → Nat) (m : Mol) : rename g (rename f m) = rename (g ∘ f) m := by
  unfold rename
  simp only [List.map_map, Mol.mk.injEq]
  constructor
  · apply List.map_congr_left; intro x _; rfl
  · apply List.map_congr_left
    intro x _
    simp only [Function.comp, List.map_map, Prod.mk.injEq, true_and]
    apply List.map_congr_left; intro y _; rfl

theorem rename_congr (f g : Nat → Nat) (m : Mol) (hc : NbrClosed m) (h : ∀ n ∈ m.ids, f n = g n) :
    rename f m = rename g m := by
  unfold rename
  simp only [Mol.mk.injEq]
  constructor
  · apply List.map_congr_left
    intro x hx
    rw [h x.1 (List.mem_map.mpr ⟨x, hx, rfl⟩)]
  · apply List.map_congr_left
    intro nl hnl
    obtain ⟨h1, h2⟩ := hc nl hnl
    rw [h nl.1 h1]
    simp only [Prod.mk.injEq, true_and]
    apply List.map_congr_left
    intro kb hkb
    rw [h kb.1 (h2 kb hkb)]

theorem le_maxId (m : Mol) (n : Nat) (h : n ∈ m.ids) : n ≤ maxId m := by
  unfold maxId
  have : ∀ (l : List Nat) (a : Nat), a ≤ l.foldl max a ∧ ∀ x ∈ l, x ≤ l.foldl max a := by
    intro l
    induction l with
    | nil => intro a; exact ⟨Nat.le_refl _, by intro x hx; cases hx⟩
    | cons y ys ih =>
      intro a
      obtain ⟨i1, i2⟩ := ih (max a y)
      refine ⟨by simp only [List.foldl_cons]; omega, ?_⟩
      intro x hx
      simp only [List.foldl_cons]
      rcases List.mem_cons.mp hx with rfl | hx
      · omega
      · exact i2 x hx
  exact (this m.ids 0).2 n h

theorem idxOf_map_inj (f : Nat → Nat) (hf : Function.Injective f) (l : List Nat) (n : Nat) :
    (l.map f).idxOf? (f n) = l.idxOf? n := by
  induction l with
  | nil => rfl
  | cons a tl ih =>
    simp only [List.map_cons, List.idxOf?_cons, ih]
    rw [beq_inj f hf a n]

theorem idxOf_mem (l : List Nat) (n : Nat) (h : n ∈ l) : ∃ i, l.idxOf? n = some i := by
  induction l with
  | nil => cases h
  | cons a tl ih =>
    rw [List.idxOf?_cons]
    by_cases e : (a == n) = true
    · exact ⟨0, by simp [e]⟩
    · have : n ∈ tl := by
        rcases List.mem_cons.mp h with rfl | h
        · simp at e
        · exact h
      obtain ⟨i, hi⟩ := ih this
      exact ⟨i + 1, by simp [e, hi]⟩

/-- the renumbering induced on `a | b` by renumbering both operands with `f`: `f` itself without a collision; with a
    collision `f` on the numbers of `a` and the new block `max(f a) + 1 …` on the block `max(a) + 1 …` -/
def inducedRen (f : Nat → Nat) (a b : Mol) (n : Nat) : Nat :=
  if a.ids.any (fun k => b.hasAtom k) then
    (if n ≤ maxId a then f n else maxId (rename f a) + 1 + (n - (maxId a + 1)))
  else f n

/-- **`Graph.union(remap=True)` is equivariant up to the induced renaming**, for every pair of graphs — disjoint or
    overlapping numberings. -/
theorem union_rename (f : Nat → Nat) (hf : Function.Injective f) (a b : Mol) (ca : NbrClosed a) (cb : NbrClosed b) :
    union (rename f a) (rename f b) = rename (inducedRen f a b) (union a b) := by
  have hcol : (rename f a).ids.any (fun n => (rename f b).hasAtom n) = a.ids.any (fun n => b.hasAtom n) := by
    rw [ids_rename f hf, List.any_map]
    congr 1
    funext n
    exact hasAtom_rename f hf b n
  unfold union
  rw [hcol]
  by_cases hc : a.ids.any (fun n => b.hasAtom n) = true
  · simp only [hc, if_true]
    have hg : inducedRen f a b = fun n => if n ≤ maxId a then f n else maxId (rename f a) + 1 + (n - (maxId a + 1)) := by
      funext n; unfold inducedRen; simp only [hc, if_true]
    -- the first operand keeps `f`
    have e1 : rename (inducedRen f a b) a = rename f a := by
      apply rename_congr _ _ a ca
      intro n hn
      rw [hg]
      simp only [le_maxId a n hn, if_true]
    -- the second operand: new block ↦ new block
    have e2 : rename (inducedRen f a b) (rename (remapFun (maxId a + 1) b.ids) b) =
        rename (remapFun (maxId (rename f a) + 1) (rename f b).ids) (rename f b) := by
      rw [rename_comp, rename_comp]
      apply rename_congr _ _ b cb
      intro n hn
      obtain ⟨i, hi⟩ := idxOf_mem b.ids n hn
      simp only [Function.comp, remapFun, ids_rename f hf, idxOf_map_inj f hf, hi, hg]
      have : ¬ (maxId a + 1 + i ≤ maxId a) := by omega
      simp only [this, if_false]
      omega
    have split : rename (inducedRen f a b)
        ⟨a.atoms ++ (rename (remapFun (maxId a + 1) b.ids) b).atoms, a.adj ++ (rename (remapFun (maxId a + 1) b.ids) b).adj⟩ =
        ⟨(rename (inducedRen f a b) a).atoms ++ (rename (inducedRen f a b) (rename (remapFun (maxId a + 1) b.ids) b)).atoms,
         (rename (inducedRen f a b) a).adj ++ (rename (inducedRen f a b) (rename (remapFun (maxId a + 1) b.ids) b)).adj⟩ := by
      simp only [rename, List.map_append]
    rw [split, e1, e2]
  · simp only [hc, Bool.false_eq_true, if_false]
    have hg : inducedRen f a b = f := by
      funext n; unfold inducedRen; simp only [hc, Bool.false_eq_true, if_false]
    rw [hg]
    simp only [rename, List.map_append]

/-- the induced renaming agrees with `f` on the first operand … -/
theorem inducedRen_left (f : Nat → Nat) (a b : Mol) (n : Nat) (h : n ∈ a.ids) : inducedRen f a b n = f n := by
  unfold inducedRen
  split
  · simp only [le_maxId a n h, if_true]
  · rfl

theorem ids_rename' (g : Nat → Nat) (m : Mol) : (rename g m).ids = m.ids.map g := by
  simp [rename, Mol.ids, List.map_map, Function.comp_def]

/-- … and is injective on the atoms of the union -/
theorem inducedRen_injOn (f : Nat → Nat) (hf : Function.Injective f) (a b : Mol) :
    ∀ x ∈ (union a b).ids, ∀ y ∈ (union a b).ids, inducedRen f a b x = inducedRen f a b y → x = y := by
  by_cases hc : a.ids.any (fun n => b.hasAtom n) = true
  · have hids : (union a b).ids = a.ids ++ b.ids.map (remapFun (maxId a + 1) b.ids) := by
      unfold union
      simp only [hc, if_true]
      simp [Mol.ids, rename, List.map_map, Function.comp_def]
    have hfresh : ∀ z ∈ b.ids.map (remapFun (maxId a + 1) b.ids), maxId a < z := by
      intro z hz
      obtain ⟨n, hn, rfl⟩ := List.mem_map.mp hz
      obtain ⟨i, hi⟩ := idxOf_mem b.ids n hn
      simp only [remapFun, hi]; omega
    have hmaxf : ∀ z ∈ a.ids, f z ≤ maxId (rename f a) := by
      intro z hz
      apply le_maxId
      rw [ids_rename']
      exact List.mem_map.mpr ⟨z, hz, rfl⟩
    intro x hx y hy
    rw [hids] at hx hy
    unfold inducedRen
    simp only [hc, if_true]
    rcases List.mem_append.mp hx with hx | hx <;> rcases List.mem_append.mp hy with hy | hy
    · simp only [le_maxId a x hx, le_maxId a y hy, if_true]; exact fun e => hf e
    · have h1 := hfresh y hy
      have h2 := hmaxf x hx
      have : ¬ (y ≤ maxId a) := by omega
      simp only [le_maxId a x hx, this, if_true, if_false]; omega
    · have h1 := hfresh x hx
      have h2 := hmaxf y hy
      have : ¬ (x ≤ maxId a) := by omega
      simp only [le_maxId a y hy, this, if_true, if_false]; omega
    · have h1 := hfresh x hx
      have h2 := hfresh y hy
      have n1 : ¬ (x ≤ maxId a) := by omega
      have n2 : ¬ (y ≤ maxId a) := by omega
      simp only [n1, n2, if_false]; omega
  · intro x _ y _
    unfold inducedRen
    simp only [hc, Bool.false_eq_true, if_false]
    exact fun e => hf e

/-! ## reaction level: no collisions inside a side -/

theorem concat_rename (f : Nat → Nat) (ms : List Mol) : concat (ms.map (rename f)) = rename f (concat ms) := by
  unfold concat rename
  simp only [List.map_map, List.map_flatten, Mol.mk.injEq]
  constructor <;> rfl

theorem disjointIds_rename (f : Nat → Nat) (hf : Function.Injective f) (ms : List Mol) (h : DisjointIds ms) :
    DisjointIds (ms.map (rename f)) := by
  unfold DisjointIds at h ⊢
  rw [List.pairwise_map]
  apply h.imp
  intro a b hab n hn hc
  rw [ids_rename'] at hn hc
  obtain ⟨x, hx, rfl⟩ := List.mem_map.mp hn
  obtain ⟨y, hy, e⟩ := List.mem_map.mp hc
  have := hf e
  subst this
  exact hab y hx hy

/-- `~reaction` of role lists without collisions inside a side is equivariant under every injective renumbering -/
theorem rxnCompose_rename (f : Nat → Nat) (hf : Function.Injective f) (R A P : List Mol)
    (hdr : DisjointIds (A ++ R)) (hdp : DisjointIds P) :
    rxnCompose (R.map (rename f)) (A.map (rename f)) (P.map (rename f)) =
      mapExcept (renameCGR f) (rxnCompose R A P) := by
  unfold rxnCompose
  rw [← List.map_append, unionAll_disjoint _ (disjointIds_rename f hf _ hdr),
    unionAll_disjoint _ (disjointIds_rename f hf _ hdp), unionAll_disjoint _ hdr, unionAll_disjoint _ hdp,
    concat_rename, concat_rename]
  exact compose_rename f hf _ _

end ChythonModel.Proofs.C15
