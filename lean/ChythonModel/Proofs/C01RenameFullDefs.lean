import ChythonModel.Proofs.C01Rename
import ChythonModel.Model.C01Chiral
/-!
Renaming of the tables of the full `_chiral_morgan` model (`Model/C01Chiral.lean`) and the statements of its exact
naturality under a pure renaming of the atoms (insertion orders and stored signs kept). Proofs: `C01RenameCum.lean`
(`cumulenes` … `tablesOf`) and `C01RenameDiff.lean` (the blocks of `__differentiation`, `diffFull`, `chiralFull`).
-/
namespace ChythonModel.Proofs.C01
open ChythonModel.Model ChythonModel.Model.Morgan ChythonModel.Model.Stereo ChythonModel.Model.ChiralMorgan
open ChythonModel.Model.ChiralFull ChythonModel.Spec.Renumbering
open List

def renEnds (π : Nat → Nat) (e : Ends) : Ends := ⟨π e.n0, π e.n1, e.n2.map π, e.n3.map π⟩

def renPair (π : Nat → Nat) (p : Nat × Nat) : Nat × Nat := (π p.1, π p.2)

/-- `_stereo_cis_trans_centers` / `_stereo_cis_trans_terminals` renamed (keys and values) -/
def renCenters (π : Nat → Nat) (c : List (Nat × (Nat × Nat))) : List (Nat × (Nat × Nat)) :=
  c.map fun r => (π r.1, renPair π r.2)

def renSct (π : Nat → Nat) (s : List ((Nat × Nat) × Ends)) : List ((Nat × Nat) × Ends) :=
  s.map fun r => (renPair π r.1, renEnds π r.2)

def renSal (π : Nat → Nat) (s : List (Nat × Ends)) : List (Nat × Ends) := s.map fun r => (π r.1, renEnds π r.2)

def renSc (π : Nat → Nat) (s : List (List Nat × Ends)) : List (List Nat × Ends) := s.map fun r => (r.1.map π, renEnds π r.2)

def renTables (π : Nat → Nat) (T : Tables) : Tables :=
  ⟨renTetra π T.tetra, mapKeys π T.labels, renSct π T.sct, renSal π T.sal, renCenters π T.centers, renMol π T.mol⟩

/-- goal of `C01RenameCum.lean` -/
def TablesOfRename : Prop :=
  ∀ (single dbl : Nat → Bool) {π : Nat → Nat}, Function.Injective π → ∀ (m : MolView) (labels : List (Nat × Bool)),
    tablesOf single dbl (renMol π m) (mapKeys π labels) =
      (tablesOf single dbl m labels).map fun Tt => (renTables π Tt.1, renCenters π Tt.2)

/-- goal of `C01RenameDiff.lean` (given `TablesOfRename`) -/
def ChiralFullRename : Prop :=
  ∀ (h : TupleHash) (single dbl : Nat → Bool) {π : Nat → Nat}, Function.Injective π →
    ∀ (m : MolView) (labels : List (Nat × Bool)),
      chiralFull h single dbl (renMol π m) (mapKeys π labels) = renOutcome π (chiralFull h single dbl m labels)

end ChythonModel.Proofs.C01
