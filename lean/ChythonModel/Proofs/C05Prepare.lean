import ChythonModel.Model.C05Kekule
/-!
# C05 — invariants of the `__prepare_rings` model
-/
namespace ChythonModel.Proofs.C05
open ChythonModel.Model ChythonModel.Model.C05

theorem setOrder_atoms (m : Mol) (a b o : Nat) : (setOrder m a b o).atoms = m.atoms := rfl

theorem foldl_setOrder_atoms (o : Nat) : ∀ (es : List (Nat × Nat)) (m : Mol),
    (es.foldl (fun m ab => setOrder m ab.1 ab.2 o) m).atoms = m.atoms := by
  intro es
  induction es with
  | nil => intro m; rfl
  | cons e es ih => intro m; simp only [List.foldl_cons]; rw [ih, setOrder_atoms]

/-- the normalised aromatic form has exactly the atoms of the input (element, charge, radical, hydrogens untouched) -/
theorem normalise_atoms (m : Mol) (p : Prep) : (normalise m p).atoms = m.atoms := by
  unfold normalise
  simp only
  exact foldl_setOrder_atoms 1 p.singles m

/-- the classification loop only ever adds atoms of the list it iterates over -/
theorem classLoop_subset (m : Mol) (exo : List Nat) : ∀ (ns pyr db pyr' db' : List Nat),
    classLoop m exo ns pyr db = some (pyr', db') →
    (∀ x ∈ pyr', x ∈ pyr ∨ x ∈ ns) ∧ (∀ x ∈ db', x ∈ db ∨ x ∈ ns) := by
  intro ns
  induction ns with
  | nil =>
    intro pyr db pyr' db' h
    simp only [classLoop, Option.some.injEq, Prod.mk.injEq] at h
    obtain ⟨h1, h2⟩ := h
    subst h1; subst h2
    exact ⟨fun x hx => Or.inl hx, fun x hx => Or.inl hx⟩
  | cons n ns ih =>
    intro pyr db pyr' db' h
    simp only [classLoop] at h
    split at h
    · cases h
    · split at h
      · cases h
      · rename_i a _ c _
        obtain ⟨h1, h2⟩ := ih _ _ _ _ h
        refine ⟨?_, ?_⟩
        · intro x hx
          rcases h1 x hx with hp | hn
          · split at hp
            · rcases List.mem_append.mp hp with hp' | hp'
              · exact Or.inl hp'
              · simp only [List.mem_singleton] at hp'
                subst hp'
                exact Or.inr List.mem_cons_self
            · exact Or.inl hp
          · exact Or.inr (List.mem_cons_of_mem _ hn)
        · intro x hx
          rcases h2 x hx with hp | hn
          · split at hp
            · rcases List.mem_append.mp hp with hp' | hp'
              · exact Or.inl hp'
              · simp only [List.mem_singleton] at hp'
                subst hp'
                exact Or.inr List.mem_cons_self
            · exact Or.inl hp
          · exact Or.inr (List.mem_cons_of_mem _ hn)

/-- `pyrroles` and `double_bonded` are sets of skeleton atoms -/
theorem prepareRings_sets (m : Mol) (sssr : List (List Nat)) (p : Prep) (h : prepareRings m sssr = some p) :
    (∀ x ∈ p.pyrroles, x ∈ p.rings.keys) ∧ (∀ x ∈ p.dbl, x ∈ p.rings.keys) := by
  unfold prepareRings at h
  simp only at h
  split at h
  · simp only [Option.some.injEq] at h
    subst h
    refine ⟨?_, ?_⟩
    · intro x hx; simp [Prep.empty] at hx
    · intro x hx; simp [Prep.empty] at hx
  · split at h
    · cases h
    · split at h
      · cases h
      · split at h
        · cases h
        · split at h
          · cases h
          · split at h
            · cases h
            · split at h
              · cases h
              · rename_i s _ _ _ _ _ pyr db hcl
                simp only [Option.some.injEq] at h
                subst h
                obtain ⟨h1, h2⟩ := classLoop_subset m _ _ _ _ _ _ hcl
                refine ⟨?_, ?_⟩
                · intro x hx
                  rcases h1 x hx with hp | hn
                  · cases hp
                  · exact hn
                · intro x hx
                  rcases h2 x hx with hp | hn
                  · simp only [List.mem_map, List.mem_filter, Bool.and_eq_true] at hp
                    obtain ⟨q, ⟨_, _, hk⟩, rfl⟩ := hp
                    unfold Adj.hasKey at hk
                    rw [List.any_eq_true] at hk
                    obtain ⟨r, hr, hrq⟩ := hk
                    simp only [beq_iff_eq] at hrq
                    unfold Adj.keys
                    exact List.mem_map.mpr ⟨r, hr, hrq⟩
                  · exact hn

end ChythonModel.Proofs.C05
