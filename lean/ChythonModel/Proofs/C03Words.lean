import ChythonModel.Spec.SmilesGrammar
/-!
# C03 — `Spec.words` contains every short string over its alphabet (helper lemma)
-/
namespace ChythonModel.Proofs.C03
open ChythonModel.Spec.Smiles

/-- every non-empty string of length ≤ n over an alphabet is in `words` -/
theorem mem_words (alpha : List Nat) : ∀ (n : Nat) (w : List Nat), w ≠ [] → w.length ≤ n → (∀ c ∈ w, c ∈ alpha) →
    w ∈ words alpha n
  | 0, w, hne, hl, _ => by
    cases w with
    | nil => exact absurd rfl hne
    | cons _ _ => simp at hl
  | n + 1, w, hne, hl, hall => by
    cases w with
    | nil => exact absurd rfl hne
    | cons c w' =>
      unfold words
      simp only [List.mem_append, List.mem_map, List.mem_flatMap]
      have hc : c ∈ alpha := hall c (by simp)
      cases w' with
      | nil => exact Or.inl ⟨c, hc, rfl⟩
      | cons d w'' =>
        right
        refine ⟨d :: w'', mem_words alpha n (d :: w'') (by simp) (by simpa using hl) (fun x hx => hall x (by simp [hx])), c, hc, rfl⟩

end ChythonModel.Proofs.C03
