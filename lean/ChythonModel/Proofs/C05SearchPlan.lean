import ChythonModel.Proofs.C05Search
namespace ChythonModel.Proofs.C05S
open ChythonModel.Model ChythonModel.Model.C05 ChythonModel.Model.C05S

/-- bond order of the closing entries `(start, atom, ·)`: double iff `double_bonded` is empty -/
def loopBond (c : Ctx) : Nat := if c.db.isEmpty then 2 else 1

def twos (l : List Entry) : Nat := l.countP fun e => e.bond == 2

theorem partition_nbrs (c : Ctx) (p : Nat) (hashed : Nat → Bool) (nbrs : List Nat) :
    (forStackOf c p hashed nbrs).length + (closuresOf c p hashed nbrs).length + nbrs.countP (· == p) +
      nbrs.countP (fun x => x != p && x == c.start) = nbrs.length := by
  induction nbrs with
  | nil => simp [forStackOf, closuresOf]
  | cons x xs ih =>
    simp only [forStackOf, closuresOf, List.filter_cons, List.countP_cons, List.length_cons] at ih ⊢
    by_cases h1 : x = p
    · subst h1; simp; omega
    · by_cases h2 : x = c.start
      · subst h2; simp [h1]; omega
      · cases h3 : hashed x <;> simp [h1, h2, h3] <;> omega

theorem loopStage_facts {c : Ctx} {atom bond : Nat} {loop : Bool} {fs : List Nat} {ins0 : Option Entry} {bond' : Nat}
    (h : loopStage c atom bond loop fs = some (ins0, bond')) (hb : bond = 1 ∨ bond = 2) :
    (loop = true → ∃ e0, ins0 = some e0) ∧ (loop = false → ins0 = none ∧ bond' = bond) ∧
    (∀ e0, ins0 = some e0 → e0.bond = loopBond c) ∧
    (bond' = 1 ∨ bond' = 2) ∧
    -- the arrival bond, the closing entry and what `bond` says afterwards
    ((if bond = 2 then 1 else 0) + twos ins0.toList = (if bond' = 2 then 1 else 0)) := by
  unfold loopStage at h
  cases loop
  · simp only [Bool.false_eq_true, if_false, Option.some.injEq, Prod.mk.injEq] at h
    obtain ⟨rfl, rfl⟩ := h
    simp [twos, hb]
  · simp only [if_true] at h
    rcases hb with rfl | rfl
    · simp only [Nat.reduceBEq, Bool.false_eq_true, if_false] at h
      by_cases hd : c.db.isEmpty = true
      · simp only [hd, Bool.not_true, Bool.false_eq_true, if_false, Option.some.injEq, Prod.mk.injEq] at h
        obtain ⟨rfl, rfl⟩ := h
        simp [twos, mk, loopBond, hd]
      · simp only [hd, Bool.not_false, if_true] at h
        split at h
        · simp only [Option.some.injEq, Prod.mk.injEq] at h
          obtain ⟨rfl, rfl⟩ := h
          simp [twos, mk, loopBond, hd]
        · simp at h
    · simp only [Nat.reduceBEq, if_true] at h
      by_cases hd : c.db.isEmpty = true
      · simp [hd] at h
      · simp only [hd, Bool.not_false, if_true, Option.some.injEq, Prod.mk.injEq] at h
        obtain ⟨rfl, rfl⟩ := h
        simp [twos, mk, loopBond, hd]

theorem loopStage_more {c : Ctx} {atom bond : Nat} {loop : Bool} {fs : List Nat} {ins0 : Option Entry} {bond' : Nat}
    (h : loopStage c atom bond loop fs = some (ins0, bond')) (hb : bond = 1 ∨ bond = 2) :
    (bond' = 2 → bond = 2 ∨ c.db.isEmpty = true) ∧
    (loop = true → fs = [] → c.pyr.contains atom = false → bond' = 2 ∨ c.db.contains atom = true) := by
  unfold loopStage at h
  cases loop
  · simp only [Bool.false_eq_true, if_false, Option.some.injEq, Prod.mk.injEq] at h
    obtain ⟨rfl, rfl⟩ := h
    exact ⟨fun h => Or.inl h, fun h => Bool.noConfusion h⟩
  · simp only [if_true] at h
    rcases hb with rfl | rfl
    · simp only [Nat.reduceBEq, Bool.false_eq_true, if_false] at h
      by_cases hd : c.db.isEmpty = true
      · simp only [hd, Bool.not_true, Bool.false_eq_true, if_false, Option.some.injEq, Prod.mk.injEq] at h
        obtain ⟨rfl, rfl⟩ := h
        exact ⟨fun _ => Or.inr hd, fun _ _ _ => Or.inl rfl⟩
      · simp only [hd, Bool.not_false, if_true] at h
        split at h
        · rename_i hc
          simp only [Option.some.injEq, Prod.mk.injEq] at h
          obtain ⟨rfl, rfl⟩ := h
          refine ⟨fun h => by omega, fun _ hfs hp => ?_⟩
          subst hfs
          simp only [List.isEmpty_nil, Bool.not_true, Bool.false_or, hp, Bool.or_false] at hc
          exact Or.inr hc
        · simp at h
    · simp only [Nat.reduceBEq, if_true] at h
      by_cases hd : c.db.isEmpty = true
      · simp [hd] at h
      · simp only [hd, Bool.not_false, if_true, Option.some.injEq, Prod.mk.injEq] at h
        obtain ⟨rfl, rfl⟩ := h
        exact ⟨fun _ => Or.inl rfl, fun _ _ _ => Or.inl rfl⟩

theorem growStage_facts {c : Ctx} {atom bond len : Nat} {ins0 i0 : Option Entry} {closures fs clos : List Nat}
    {brs : List (List Entry)} (h : growStage c atom bond len ins0 closures fs = .go i0 clos brs)
    (hpyr : c.pyr = []) (hdeg : fs.length + closures.length + 1 ≤ 3) (hb : bond = 1 ∨ bond = 2)
    (hdb : bond = 2 → c.db.contains atom = false)
    (hne : fs = [] → closures = [] → bond = 2 ∨ c.db.contains atom = true) :
    clos = closures ∧
    (∀ br ∈ brs, (br.map (·.atom)).Perm fs) ∧
    (∀ br ∈ brs, ∀ e ∈ br, e.bond = 2 → c.db.contains e.atom = false) ∧
    (∀ br ∈ brs, (if bond = 2 then 1 else 0) + twos br = if c.db.contains atom = true then 0 else 1) := by
  unfold growStage at h
  have hp : c.pyr.contains atom = false := by simp [hpyr]
  simp only [hp, Bool.false_eq_true, if_false, Bool.not_false, Bool.and_true] at h
  split at h
  · rename_i h1
    injection h with h1' h2 h3
    subst h1' h2 h3
    refine ⟨rfl, ?_, ?_, ?_⟩
    · intro br hbr; simp only [List.mem_singleton] at hbr; subst hbr; simp [mk, Function.comp_def]
    · intro br hbr e he hb2
      simp only [List.mem_singleton] at hbr; subst hbr
      obtain ⟨x, _, rfl⟩ := List.mem_map.1 he
      simp [mk] at hb2
    · intro br hbr
      simp only [List.mem_singleton] at hbr; subst hbr
      have : twos (fs.map fun x => mk x atom 1) = 0 := by
        simp [twos, mk, List.countP_eq_zero]
      rw [this]
      rcases hb with rfl | rfl
      · simp only [Nat.reduceBEq, Bool.false_or] at h1
        simp_all
      · have := hdb rfl
        simp_all
  · rename_i h1
    simp only [Bool.or_eq_true, beq_iff_eq, not_or, Bool.not_eq_true] at h1
    obtain ⟨hb2, hnd⟩ := h1
    have hb1 : bond = 1 := by omega
    subst hb1
    split at h
    · -- [x]
      rename_i x
      have hc : closures.length ≤ 1 := by simp at hdeg; omega
      have htake : closures.take 1 = closures := List.take_of_length_le hc
      split at h
      · exact Plan.noConfusion h
      · rename_i hx
        injection h with h1' h2 h3
        subst h1' h2 h3
        refine ⟨htake, ?_, ?_, ?_⟩
        · intro br hbr; simp only [List.mem_singleton] at hbr; subst hbr; simp [mk]
        · intro br hbr e he _
          simp only [List.mem_singleton] at hbr; subst hbr
          simp only [List.mem_singleton] at he; subst he
          simpa [mk] using hx
        · intro br hbr
          simp only [List.mem_singleton] at hbr; subst hbr
          simp_all [twos, mk]
    · -- []
      split at h
      · exact Plan.noConfusion h
      · rename_i hcl
        have hcl' : closures = [] := by cases closures <;> simp_all
        rcases hne rfl hcl' with h | h
        · omega
        · rw [hnd] at h; exact Bool.noConfusion h
    · -- [x1, x2]
      rename_i x1 x2
      have hc : closures = [] := by
        simp only [List.length_cons, List.length_nil] at hdeg
        exact List.eq_nil_of_length_eq_zero (by omega)
      repeat' split at h
      all_goals first
        | exact Plan.noConfusion h
        | (injection h with h1' h2 h3
           subst h1' h2 h3
           refine ⟨hc.symm, ?_, ?_, ?_⟩
           · intro br hbr
             simp only [List.mem_cons, List.not_mem_nil, or_false] at hbr
             rcases hbr with rfl | rfl <;> simp [mk, mkT, List.Perm.swap]
           · intro br hbr e he hb2
             simp only [List.mem_cons, List.not_mem_nil, or_false] at hbr
             rcases hbr with rfl | rfl <;> simp only [List.mem_cons, List.not_mem_nil, or_false] at he <;>
               rcases he with rfl | rfl <;> simp_all [mk, mkT]
           · intro br hbr
             simp only [List.mem_cons, List.not_mem_nil, or_false] at hbr
             rcases hbr with rfl | rfl <;> simp_all [twos, mk, mkT])
    · exact Plan.noConfusion h

/-- what a plan guarantees on a prepared component without ambiguous ("pyrrole") atoms -/
theorem plan_facts {c : Ctx} {a p b len : Nat} {hashed : Nat → Bool} {ins0 : Option Entry} {clos : List Nat}
    {brs : List (List Entry)} (h : plan c a p b hashed len = .go ins0 clos brs)
    {nbrs : List Nat} (hn : c.rings.lookup a = some nbrs) (hN : nbrs.Nodup) (hL : nbrs.length ≤ 3)
    (h2 : 2 ≤ nbrs.length) (hP : p ∈ nbrs) (hpyr : c.pyr = []) (hb : b = 1 ∨ b = 2)
    (hdb : b = 2 → c.db.contains a = false) (hz : c.start ≠ 0) :
    (c.start ∈ nbrs → c.start ≠ p → ∃ e0, ins0 = some e0) ∧
    (∀ e0, ins0 = some e0 → e0.bond = loopBond c) ∧
    clos = closuresOf c p hashed nbrs ∧
    (∀ br ∈ brs, (br.map (·.atom)).Perm (forStackOf c p hashed nbrs)) ∧
    (∀ br ∈ brs, ∀ e ∈ br, e.bond = 2 → c.db.contains e.atom = false) ∧
    (∀ br ∈ brs, (if b = 2 then 1 else 0) + twos ins0.toList + twos br = if c.db.contains a = true then 0 else 1) := by
  unfold plan at h
  rw [hn] at h
  simp only at h
  split at h
  · exact Plan.noConfusion h
  · rename_i i0 bond' hls
    obtain ⟨hi, -, -⟩ := growStage_spec h
    subst hi
    have hpart := partition_nbrs c p hashed nbrs
    have hcp : nbrs.countP (· == p) = 1 := by
      have h1 : nbrs.count p ≤ 1 := List.nodup_iff_count_le_one.1 hN p
      have h2 : 0 < nbrs.count p := List.count_pos_iff.2 hP
      have : nbrs.count p = nbrs.countP (· == p) := rfl
      omega
    obtain ⟨l1, l2, l3, l4, l5⟩ := loopStage_facts hls hb
    obtain ⟨m1, m2⟩ := loopStage_more hls hb
    have hdb' : bond' = 2 → c.db.contains a = false := by
      intro hb'
      rcases m1 hb' with h | h
      · exact hdb h
      · have : c.db = [] := List.isEmpty_iff.1 h
        simp [this]
    have hloop : hasLoop c p nbrs = true ↔ (c.start ∈ nbrs ∧ c.start ≠ p) := by
      simp only [hasLoop, Bool.and_eq_true, bne_iff_ne, ne_eq, List.contains_iff_mem, hz, not_false_eq_true, and_true]
      exact ⟨fun h => ⟨h.2, h.1⟩, fun h => ⟨h.2, h.1⟩⟩
    have hne : forStackOf c p hashed nbrs = [] → closuresOf c p hashed nbrs = [] →
        bond' = 2 ∨ c.db.contains a = true := by
      intro hf hc
      rw [hf, hc] at hpart
      simp only [List.length_nil, hcp] at hpart
      have hpos : 0 < nbrs.countP (fun x => x != p && x == c.start) := by omega
      obtain ⟨x, hx, hxp⟩ := List.countP_pos_iff.1 hpos
      simp only [Bool.and_eq_true, bne_iff_ne, ne_eq, beq_iff_eq] at hxp
      have hl : hasLoop c p nbrs = true := hloop.2 ⟨hxp.2 ▸ hx, hxp.2 ▸ hxp.1⟩
      exact m2 hl hf (by simp [hpyr])
    obtain ⟨g1, g2, g3, g4⟩ := growStage_facts h hpyr (by omega) l4 hdb' hne
    refine ⟨?_, l3, g1, g2, g3, ?_⟩
    · intro hs hsp
      exact l1 (hloop.2 ⟨hs, hsp⟩)
    · intro br hbr
      have := g4 br hbr
      omega

end ChythonModel.Proofs.C05S
