import ChythonModel.Proofs.C09Arrays
import ChythonModel.Proofs.C09Search
/-!
# C09 — every buffer read of the compiled matcher is in range

Beyond the five allocated arrays the matcher reads the two packed buffers (`query.atoms[…]`, `query.bonds[…]`, `molecule.atoms[…]`,
`molecule.bonds[…]`), the `scope` memoryview and the *filled part* of `path` (`path[q_atom.back]`, `path[j_bond.index]`, `path[i]` for
the yielded mapping). The list models report a read outside these as `none`; the guarded machine as `Fault.range`.
On a structure buffer whose atoms all have a bond row inside the buffer naming atoms of the buffer (`BufWF`, `RowsOK`) and a query
buffer whose parent / closure-partner indices point to earlier steps and whose closure rows lie inside the buffer (`QBufWF`) — what the
two encoders produce — no such read happens: the machine never stops with `Fault.range` (nor, by `runLoopA_agrees`, with `Fault.oob`);
the only way it ends without a result is the recursion budget of the model (`Fault.fuel`).
-/
namespace ChythonModel.Proofs.C09
open ChythonModel.Model.Bits ChythonModel.Model

/-- every atom of the structure buffer has a bond row inside the buffer -/
def RowsOK (m : CMol) : Prop :=
  ∀ (i : Nat) (ca : CAtom), m.atoms[i]? = some ca → ∃ row, slice? m.bonds ca.from_ ca.to_ = some row

/-- query buffer: the parent and the closure partners of step `j + 1` are steps `≤ j`; its closure row lies inside the buffer -/
def QBufWF (q : CQuery) : Prop :=
  ∀ (j : Nat) (qa : CQAtom), q.atoms[j + 1]? = some qa →
    qa.back ≤ j ∧ ∃ qb, slice? q.bonds qa.from_ qa.to_ = some qb ∧ ∀ jb ∈ qb, jb.index ≤ j

theorem mapM_some_of_forall {α β} (f : α → Option β) : ∀ (l : List α), (∀ x ∈ l, ∃ y, f x = some y) → ∃ r, l.mapM f = some r := by
  intro l
  induction l with
  | nil => intro _; exact ⟨[], rfl⟩
  | cons a t ih =>
    intro h
    obtain ⟨y, hy⟩ := h a (by simp)
    obtain ⟨r, hr⟩ := ih (fun x hx => h x (by simp [hx]))
    exact ⟨y :: r, by rw [List.mapM_cons, hy, hr]; rfl⟩

theorem getElem?_some_of_lt {α} (l : List α) (i : Nat) (h : i < l.length) : ∃ y, l[i]? = some y :=
  ⟨l[i], List.getElem?_eq_getElem h⟩

theorem closureC_some (m : CMol) (q : CQuery) (qa : CQAtom) (mAtom : CAtom) (n : Nat) (matched : List Bool) (path : List Nat)
    (nb qb : List CBond) (h1 : slice? m.bonds mAtom.from_ mAtom.to_ = some nb) (hnb : ∀ jb ∈ nb, jb.index < matched.length)
    (h3 : slice? q.bonds qa.from_ qa.to_ = some qb) (hqb : ∀ jb ∈ qb, jb.index < path.length) :
    ∃ b, closureC m q qa mAtom n matched path = some b := by
  obtain ⟨flags, h2⟩ := mapM_some_of_forall (fun jb : CBond => matched[jb.index]?) nb
    (fun jb hjb => getElem?_some_of_lt _ _ (hnb jb hjb))
  obtain ⟨images, h4⟩ := mapM_some_of_forall (fun jb : CBond => path[jb.index]?) qb
    (fun jb hjb => getElem?_some_of_lt _ _ (hqb jb hjb))
  unfold closureC
  simp only [bind, pure, h1, h2, h3, h4, Option.bind_some]
  split
  · split
    · exact ⟨_, rfl⟩
    · exact ⟨_, rfl⟩
  · exact ⟨_, rfl⟩

theorem candidatesC_some (m : CMol) (q : CQuery) (scope : List Bool) (qa : CQAtom) (n : Nat) (matched : List Bool) (path : List Nat)
    (hwf : BufWF m) (hrows : RowsOK m) (hml : matched.length = m.atoms.length) (hsc : m.atoms.length ≤ scope.length)
    (qb : List CBond) (h3 : slice? q.bonds qa.from_ qa.to_ = some qb) (hqb : ∀ jb ∈ qb, jb.index < path.length) :
    ∀ (row : List CBond), (∀ ib ∈ row, ib.index < m.atoms.length) → ∃ cs, candidatesC m q scope qa n matched path row = some cs := by
  intro row
  induction row with
  | nil => intro _; exact ⟨[], rfl⟩
  | cons ib rest ih =>
    intro hrow
    obtain ⟨tl, htl⟩ := ih (fun x hx => hrow x (by simp [hx]))
    have hi := hrow ib (by simp)
    obtain ⟨mAtom, hm⟩ := getElem?_some_of_lt m.atoms ib.index hi
    obtain ⟨sc, hs⟩ := getElem?_some_of_lt scope ib.index (by omega)
    obtain ⟨mt, hmt⟩ := getElem?_some_of_lt matched ib.index (by omega)
    obtain ⟨nb, h1⟩ := hrows ib.index mAtom hm
    have hnb : ∀ jb ∈ nb, jb.index < matched.length := fun jb hjb => by
      rw [hml]; exact (hwf ib.index mAtom nb hm h1).2 jb hjb
    obtain ⟨b, hb⟩ := closureC_some m q qa mAtom n matched path nb qb h1 hnb h3 hqb
    simp only [candidatesC, bind, pure, htl, hm, hs, hmt, Option.bind_some, hb]
    split
    · split
      · exact ⟨_, rfl⟩
      · exact ⟨_, rfl⟩
    · exact ⟨_, rfl⟩

/-- one expansion reads nothing outside the buffers -/
theorem expandC_some (m : CMol) (q : CQuery) (scope : List Bool) (d n : Nat) (path : List Nat) (matched : List Bool)
    (hwf : BufWF m) (hrows : RowsOK m) (hq : QBufWF q) (hml : matched.length = m.atoms.length) (hsc : m.atoms.length ≤ scope.length)
    (hd : d + 1 < q.atoms.length) (hpl : path.length = d + 1) (hp : ∀ x ∈ path, x < m.atoms.length) (hn : n < m.atoms.length) :
    ∃ cs, expandC m q scope d n path matched = some cs := by
  obtain ⟨qa, hqa⟩ := getElem?_some_of_lt q.atoms (d + 1) hd
  obtain ⟨hback, qb, h3, hqb⟩ := hq d qa hqa
  have hsel : ∃ n', (if qa.back != d then path[qa.back]? else some n) = some n' ∧ n' < m.atoms.length := by
    split
    · obtain ⟨y, hy⟩ := getElem?_some_of_lt path qa.back (by omega)
      exact ⟨y, hy, hp y (List.mem_of_getElem? hy)⟩
    · exact ⟨n, rfl, hn⟩
  obtain ⟨n', hn', hn'lt⟩ := hsel
  obtain ⟨nAtom, hna⟩ := getElem?_some_of_lt m.atoms n' hn'lt
  obtain ⟨row, hrow⟩ := hrows n' nAtom hna
  have hrl := (hwf n' nAtom row hna hrow).2
  obtain ⟨cs, hcs⟩ := candidatesC_some m q scope qa n' matched path hwf hrows hml hsc qb h3
    (fun jb hjb => by have := hqb jb hjb; omega) row hrl
  unfold expandC
  simp only [hqa, hn', hna, hrow]
  exact ⟨cs, hcs⟩

theorem buildMapping_some (m : CMol) (q : CQuery) (path : List Nat) (d n : Nat) (hd : d ≤ path.length) (hq : d < q.atoms.length)
    (hp : ∀ x ∈ path, x < m.atoms.length) (hn : n < m.atoms.length) : ∃ mp, buildMapping m q path d n = some mp := by
  have hlen : (path.take d ++ [n]).length = d + 1 := by simp [List.length_take]; omega
  have key : ∀ F : Nat × Nat → Option (Nat × Nat), (∀ p ∈ (path.take d ++ [n]).zipIdx, ∃ y, F p = some y) →
      ∀ G : List (Nat × Nat) → Iso.Dict, ∃ mp, ((path.take d ++ [n]).zipIdx.mapM F).bind (fun pairs => some (G pairs)) = some mp := by
    intro F hF G
    obtain ⟨pairs, hpairs⟩ := mapM_some_of_forall F _ hF
    exact ⟨G pairs, by rw [hpairs]; rfl⟩
  unfold buildMapping
  simp only [hlen, bne_self_eq_false, Bool.false_eq_true, if_false, bind, pure]
  refine key _ ?_ _
  intro p hp'
  obtain ⟨x, i⟩ := p
  have hmem := List.mem_zipIdx hp'
  simp only [Nat.zero_add] at hmem
  obtain ⟨_, hi, hx⟩ := hmem
  rw [hlen] at hi
  have hxlt : x < m.atoms.length := by
    have hxm : x ∈ path.take d ++ [n] := by rw [hx]; exact List.getElem_mem _
    rcases List.mem_append.mp hxm with h | h
    · exact hp x (List.mem_of_mem_take h)
    · simp only [List.mem_singleton] at h; subst h; exact hn
  obtain ⟨qa, hqa⟩ := getElem?_some_of_lt q.atoms i (by omega)
  obtain ⟨a, ha⟩ := getElem?_some_of_lt m.atoms x hxlt
  exact ⟨(qa.mapping, a.mapping), by simp only [hqa, ha, Option.bind_some]⟩

/-- potential of the waiting entries: an entry at depth `d` weighs `B ^ (qdec + 1 - d)` -/
def pot (B qdec : Nat) : List (Nat × Nat) → Nat
  | [] => 0
  | e :: s => B ^ (qdec + 1 - e.2) + pot B qdec s

theorem pot_append (B qdec : Nat) (a b : List (Nat × Nat)) : pot B qdec (a ++ b) = pot B qdec a + pot B qdec b := by
  induction a with
  | nil => simp [pot]
  | cons e t ih => simp only [List.cons_append, pot, ih]; omega

theorem pot_batch (B qdec k : Nat) (cs : List Nat) : pot B qdec (cs.map (·, k)) = cs.length * B ^ (qdec + 1 - k) := by
  induction cs with
  | nil => simp [pot]
  | cons c t ih => simp only [List.map_cons, pot, ih, List.length_cons, Nat.succ_mul]; omega

/-- **the whole loop**: with the arrays at least as large as `AllocOK` says and more fuel than the potential of the waiting entries
    (each step lowers it: an entry is replaced by at most `mn` entries one level deeper), the guarded matcher returns normally — no
    read outside a buffer, no access outside an allocation, no exhausted budget -/
theorem runLoopA_ok (al : Alloc) (m : CMol) (q : CQuery) (scope : List Bool) (qdec : Nat) (hwf : BufWF m) (hrows : RowsOK m)
    (hq : QBufWF q) (hqn : q.atoms.length = qdec + 1) (hsc : m.atoms.length ≤ scope.length)
    (hal : AllocOK al (qdec + 1) m.atoms.length) :
    ∀ (fuel : Nat) (stack : List (Nat × Nat)) (path : List Nat) (acc : List Iso.Dict) (st : Stats),
      InvS stack path → StackOK m.atoms.length qdec stack → (∀ x ∈ path, x < m.atoms.length) →
      pot (m.atoms.length + 1) qdec stack < fuel →
      ∃ r, runLoopA al m q scope qdec fuel stack path (ind m.atoms.length path) (List.replicate m.atoms.length 0) acc st = .ok r := by
  intro fuel
  induction fuel with
  | zero => intro stack path acc st _ _ _ h; omega
  | succ fuel ih =>
    intro stack path acc st hinv hst hp hpot
    cases stack with
    | nil => exact ⟨_, rfl⟩
    | cons e stack =>
      obtain ⟨n, d⟩ := e
      have hent := hinv.entries (n, d) (by simp)
      have hdl : d ≤ path.length := hent.1
      have hnd := hst.2 (n, d) (by simp)
      have hB : 0 < m.atoms.length + 1 := by omega
      simp only [pot] at hpot
      simp only [runLoopA]
      by_cases hd : (d == qdec) = true
      · have hdq : d = qdec := by simpa using hd
        have g0 : ¬ al.path < d := by have := hal.path; omega
        simp only [hd, if_true, g0, if_false]
        obtain ⟨mp, hmp⟩ := buildMapping_some m q path d n hdl (by omega) hp hnd.1
        simp only [hmp]
        have hw : 0 < (m.atoms.length + 1) ^ (qdec + 1 - d) := Nat.pow_pos hB
        exact ih stack path _ st hinv.pop hst.pop hp (by omega)
      · simp only [hd, Bool.false_eq_true, if_false]
        have hdne : d ≠ qdec := by simpa using hd
        have hdlt : d < qdec := by have := hnd.2; omega
        have g1 : oobIn al.matched .matched (path.drop d ++ [n]) = none := by
          refine oobIn_none _ _ _ (fun i hi => ?_)
          rcases List.mem_append.mp hi with h' | h'
          · exact Nat.lt_of_lt_of_le (hp i (List.mem_of_mem_drop h')) hal.matched
          · simp only [List.mem_singleton] at h'; subst h'; exact Nat.lt_of_lt_of_le hnd.1 hal.matched
        have g2 : ¬ al.path ≤ d := by have := hal.path; omega
        have hm1 : (if path.length != d then unmark (path.drop d) (ind m.atoms.length path) else ind m.atoms.length path) =
            ind m.atoms.length (path.take d) := by
          have : unmark (path.drop d) (ind m.atoms.length path) = ind m.atoms.length (path.take d) := by
            have h' := unmark_ind m.atoms.length (path.drop d) (path.take d) (by rw [List.take_append_drop]; exact hinv.nodup)
            rwa [List.take_append_drop] at h'
          by_cases hl : path.length = d
          · have h2 : path.take d = path := List.take_of_length_le (by omega)
            have h3 : (path.length != d) = false := by simp [hl]
            rw [h3, h2]; rfl
          · have : (path.length != d) = true := by simp [hl]
            simp only [this, if_true]; assumption
        have g3 : ¬ n ≥ (ind m.atoms.length (path.take d)).length := by rw [ind_length]; have := hnd.1; omega
        simp only [g1, g2, if_false, hm1, g3, set_ind]
        have hp' : ∀ x ∈ path.take d ++ [n], x < m.atoms.length := by
          intro x hx
          rcases List.mem_append.mp hx with h' | h'
          · exact hp x (List.mem_of_mem_take h')
          · simp only [List.mem_singleton] at h'; subst h'; exact hnd.1
        have hpl : (path.take d ++ [n]).length = d + 1 := by simp [List.length_take]; omega
        obtain ⟨he, hcs⟩ := expandCA_eq al m q scope d n (path.take d ++ [n]) (ind m.atoms.length (path.take d ++ [n]))
          (List.replicate m.atoms.length 0) hwf hal.matched hal.closures hp'
        obtain ⟨cs, hex⟩ := expandC_some m q scope d n (path.take d ++ [n]) (ind m.atoms.length (path.take d ++ [n])) hwf hrows hq
          (ind_length _ _) hsc (by omega) hpl hp' hnd.1
        have hexS : expandCS m q scope d n (path.take d ++ [n]) (ind m.atoms.length (path.take d ++ [n]))
            (List.replicate m.atoms.length 0) = some (cs, List.replicate m.atoms.length 0) := by
          rw [expandCS_clean m q scope d n _ _ m.atoms.length hp', hex]; rfl
        rw [he, hexS]
        obtain ⟨hcnd, hclt⟩ := hcs cs _ hexS
        have hst' := StackOK.push hst hdlt hcnd hclt
        have hlen := stack_length_le _ _ _ hst'
        have g4 : ¬ al.stackIndex < (cs.reverse.map (·, d + 1) ++ stack).length := by have := hal.stackIndex; omega
        have g5 : ¬ al.stackDepth < (cs.reverse.map (·, d + 1) ++ stack).length := by have := hal.stackDepth; omega
        simp only [liftE, g4, g5, if_false]
        have hfresh : ∀ c ∈ cs, c ∉ path.take d ++ [n] := fun c hc' =>
          mem_of_ind_false _ _ _ (expandC_fresh _ _ _ _ _ _ _ _ hex c hc')
        -- the potential drops
        have hcl : cs.length ≤ m.atoms.length := nodup_lt_length _ cs hcnd hclt
        have hexp : qdec + 1 - d = (qdec + 1 - (d + 1)) + 1 := by omega
        have hX : 0 < (m.atoms.length + 1) ^ (qdec + 1 - (d + 1)) := Nat.pow_pos hB
        have hpot' : pot (m.atoms.length + 1) qdec (cs.reverse.map (·, d + 1) ++ stack) < fuel := by
          rw [pot_append, pot_batch, List.length_reverse]
          rw [hexp, Nat.pow_succ] at hpot
          have h1 : cs.length * (m.atoms.length + 1) ^ (qdec + 1 - (d + 1)) ≤
              m.atoms.length * (m.atoms.length + 1) ^ (qdec + 1 - (d + 1)) := Nat.mul_le_mul_right _ hcl
          have h2 : (m.atoms.length + 1) ^ (qdec + 1 - (d + 1)) * (m.atoms.length + 1) =
              m.atoms.length * (m.atoms.length + 1) ^ (qdec + 1 - (d + 1)) + (m.atoms.length + 1) ^ (qdec + 1 - (d + 1)) := by
            rw [Nat.mul_comm, Nat.succ_mul]
          rw [h2] at hpot
          generalize (m.atoms.length + 1) ^ (qdec + 1 - (d + 1)) = X at *
          generalize cs.length * X = A at *
          generalize m.atoms.length * X = C at *
          omega
        exact ih _ _ acc _ (hinv.step hfresh) hst' hp' hpot'

theorem ind_nil (N : Nat) : ind N [] = List.replicate N false := by
  apply List.ext_getElem?
  intro i
  by_cases hi : i < N
  · rw [ind_get N [] i hi]; simp [hi]
  · rw [List.getElem?_eq_none (by rw [ind_length]; omega), List.getElem?_eq_none (by simp; omega)]

/-- **`get_mapping` returns normally** on well-formed buffers, a non-empty query and a scope array covering the atoms -/
theorem getMappingA_ok (m : CMol) (q : CQuery) (scope : List Bool) (hwf : BufWF m) (hrows : RowsOK m) (hq : QBufWF q)
    (hq1 : q.atoms ≠ []) (hsc : m.atoms.length ≤ scope.length) :
    ∃ r, getMappingA (allocOf q.atoms.length m.atoms.length) m q scope = .ok r := by
  have hal := allocOf_ok q.atoms.length m.atoms.length
  have hqpos : 0 < q.atoms.length := List.length_pos_iff.mpr hq1
  obtain ⟨qa, hqa⟩ := getElem?_some_of_lt q.atoms 0 hqpos
  have hroots : ∃ roots, rootsC m q scope = some roots := by
    unfold rootsC
    simp only [bind, pure, hqa, Option.bind_some, show ¬ scope.length < m.atoms.length by omega, if_false]
    exact ⟨_, rfl⟩
  obtain ⟨roots, hr⟩ := hroots
  obtain ⟨hnd, hlt, _⟩ := roots_ok m q scope roots hr
  have hqn : q.atoms.length = (q.atoms.length - 1) + 1 := by omega
  have hal' : AllocOK (allocOf q.atoms.length m.atoms.length) (q.atoms.length - 1 + 1) m.atoms.length := by rw [← hqn]; exact hal
  have hst : StackOK m.atoms.length (q.atoms.length - 1) (roots.reverse.map (·, 0)) := by
    refine ⟨?_, ?_⟩
    · rw [List.pairwise_map]
      refine List.Pairwise.imp ?_ (List.nodup_reverse.mpr hnd)
      intro a b hab
      exact ⟨Nat.le_refl _, fun he => hab (congrArg Prod.fst he)⟩
    · intro e he
      obtain ⟨c, hc, rfl⟩ := List.mem_map.mp he
      exact ⟨hlt c (List.mem_reverse.mp hc), Nat.zero_le _⟩
  have hinv : InvS (roots.reverse.map (·, 0)) [] := by
    refine ⟨List.nodup_nil, ?_, ?_⟩
    · intro e he
      obtain ⟨c, _, rfl⟩ := List.mem_map.mp he
      exact ⟨Nat.le_refl _, by simp⟩
    · rw [List.pairwise_map]
      exact List.Pairwise.imp (fun _ => Nat.le_refl _) (List.pairwise_of_forall (by intros; trivial) : List.Pairwise (fun _ _ => True) _)
  have hlen := stack_length_le _ _ _ hst
  simp only [List.length_map, List.length_reverse, ← hqn] at hlen
  have hrl : roots.length ≤ m.atoms.length := nodup_lt_length _ roots hnd hlt
  have hpot : pot (m.atoms.length + 1) (q.atoms.length - 1) (roots.reverse.map (·, 0)) < fuelC m q := by
    rw [pot_batch, List.length_reverse]
    unfold fuelC
    have h1 : roots.length * (m.atoms.length + 1) ^ (q.atoms.length - 1 + 1 - 0) ≤
        m.atoms.length * (m.atoms.length + 1) ^ (q.atoms.length - 1 + 1 - 0) := Nat.mul_le_mul_right _ hrl
    have h2 : (m.atoms.length + 1) ^ (q.atoms.length - 1 + 1 - 0) ≤ (m.atoms.length + 1) ^ (q.atoms.length + 1) :=
      Nat.pow_le_pow_right (by omega) (by omega)
    have h3 := Nat.mul_le_mul_left m.atoms.length h2
    omega
  unfold getMappingA
  have g1 : ¬ (allocOf q.atoms.length m.atoms.length).matched < (allocOf q.atoms.length m.atoms.length).setMatched := by
    have := hal.setMatched.1; omega
  have g2 : ¬ (allocOf q.atoms.length m.atoms.length).closures < (allocOf q.atoms.length m.atoms.length).setClosures := by
    have := hal.setClosures.1; omega
  have g3 : ¬ (allocOf q.atoms.length m.atoms.length).setMatched < m.atoms.length := by have := hal.setMatched.2; omega
  have g4 : ¬ (allocOf q.atoms.length m.atoms.length).setClosures < m.atoms.length := by have := hal.setClosures.2; omega
  have g5 : ¬ (allocOf q.atoms.length m.atoms.length).stackIndex < roots.length := by have := hal.stackIndex; omega
  have g6 : ¬ (allocOf q.atoms.length m.atoms.length).stackDepth < roots.length := by have := hal.stackDepth; omega
  simp only [hr, g1, g2, g3, g4, g5, g6, if_false]
  rw [← ind_nil]
  exact runLoopA_ok _ m q scope (q.atoms.length - 1) hwf hrows hq hqn hsc hal' (fuelC m q) _ [] [] _ hinv hst
    (by intro x hx; simp at hx) hpot

end ChythonModel.Proofs.C09
