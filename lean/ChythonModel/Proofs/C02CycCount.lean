import ChythonModel.Proofs.C02DfsBase
import Mathlib.Data.List.Perm.Basic
import Mathlib.Data.List.Nodup
/-!
# C02 — counting cycle ids in the ring-closure token table

`tokens : List (Nat × List (Nat × Nat))` maps an atom to its `(partner, cycle id)` records; `cycT tokens` is the flat
list of `(atom, partner, id)`.  Under `CycFacts` (keys distinct, records distinct, records symmetric with different
ends, an id names one unordered pair) every id occurs exactly twice, no atom carries an id twice, and reading the
table atom by atom in any order yields the same multiset of ids.
-/
namespace ChythonModel.Proofs.C02
open ChythonModel.Model ChythonModel.Model.SmilesWriter

structure CycFacts (tokens : List (Nat × List (Nat × Nat))) : Prop where
  keys : (tokens.map (·.1)).Nodup
  nodup : (cycT tokens).Nodup
  symm : ∀ a b k, (a, b, k) ∈ cycT tokens → (b, a, k) ∈ cycT tokens ∧ a ≠ b
  ident : ∀ a b a' b' k, (a, b, k) ∈ cycT tokens → (a', b', k) ∈ cycT tokens →
    (a' = a ∧ b' = b) ∨ (a' = b ∧ b' = a)

theorem mem_cycT (tokens : List (Nat × List (Nat × Nat))) (a b k : Nat) :
    (a, b, k) ∈ cycT tokens ↔ ∃ l, (a, l) ∈ tokens ∧ (b, k) ∈ l := by
  simp only [cycT, List.mem_flatMap, List.mem_map, Prod.mk.injEq, Prod.exists]
  constructor
  · rintro ⟨a', l, hm, b', k', hbk, rfl, rfl, rfl⟩
    exact ⟨l, hm, hbk⟩
  · rintro ⟨l, hm, hbk⟩
    exact ⟨a, l, hm, b, k, hbk, rfl, rfl, rfl⟩

theorem alGet_of_mem {tokens : List (Nat × List (Nat × Nat))} (hk : (tokens.map (·.1)).Nodup)
    {a : Nat} {l : List (Nat × Nat)} (hm : (a, l) ∈ tokens) : alGet tokens a = l := by
  simp [alGet, lookup_of_mem_nodup tokens a l hk hm]

theorem alGet_mem_or_nil (tokens : List (Nat × List (Nat × Nat))) (a : Nat) :
    (a, alGet tokens a) ∈ tokens ∨ alGet tokens a = [] := by
  unfold alGet
  cases hl : tokens.lookup a with
  | none => right; rfl
  | some l => left; simpa using lookup_mem' tokens a l hl

theorem mem_alGet_iff {tokens : List (Nat × List (Nat × Nat))} (h : CycFacts tokens) :
    ∀ a b k, (b, k) ∈ alGet tokens a ↔ (a, b, k) ∈ cycT tokens := by
  intro a b k
  rw [mem_cycT]
  constructor
  · intro hm
    rcases alGet_mem_or_nil tokens a with h1 | h1
    · exact ⟨_, h1, hm⟩
    · rw [h1] at hm; simp at hm
  · rintro ⟨l, hm, hbk⟩
    rw [alGet_of_mem h.keys hm]; exact hbk

theorem alGet_nodup {tokens : List (Nat × List (Nat × Nat))} (h : CycFacts tokens) (a : Nat) :
    (alGet tokens a).Nodup := by
  rcases alGet_mem_or_nil tokens a with h1 | h1
  · have hn := h.nodup
    unfold cycT at hn
    rw [List.nodup_flatMap] at hn
    exact (hn.1 _ h1).of_map _
  · rw [h1]; exact List.nodup_nil

theorem alGet_ids_nodup {tokens : List (Nat × List (Nat × Nat))} (h : CycFacts tokens) :
    ∀ a, ((alGet tokens a).map (·.2)).Nodup := by
  intro a
  refine (alGet_nodup h a).map_on ?_
  rintro ⟨b, k⟩ hx ⟨b', k'⟩ hy hk
  simp only at hk
  subst hk
  have h1 := (mem_alGet_iff h a b k).1 hx
  have h2 := (mem_alGet_iff h a b' k).1 hy
  rcases h.ident a b a b' k h1 h2 with ⟨_, hb⟩ | ⟨hab, _⟩
  · rw [hb]
  · exact absurd hab (h.symm a b k h1).2

theorem cycT_ids_count {tokens : List (Nat × List (Nat × Nat))} (h : CycFacts tokens) :
    ∀ k, ((cycT tokens).map (·.2.2)).count k = 0 ∨ ((cycT tokens).map (·.2.2)).count k = 2 := by
  intro k
  by_cases hk : k ∈ (cycT tokens).map (·.2.2)
  · right
    obtain ⟨⟨a, b, k'⟩, hm, rfl⟩ := List.mem_map.1 hk
    have hs := h.symm a b k' hm
    have hnd : ((cycT tokens).filter fun t => t.2.2 == k').Nodup := h.nodup.filter _
    have h2 : [(a, b, k'), (b, a, k')].Nodup := by
      simp only [List.nodup_cons, List.mem_singleton, Prod.mk.injEq, List.not_mem_nil, not_false_eq_true,
        List.nodup_nil, and_true]
      intro hh; exact hs.2 hh.1
    have hp : ((cycT tokens).filter fun t => t.2.2 == k').Perm [(a, b, k'), (b, a, k')] := by
      rw [List.perm_ext_iff_of_nodup hnd h2]
      rintro ⟨a', b', k''⟩
      simp only [List.mem_filter, beq_iff_eq, List.mem_cons, Prod.mk.injEq, List.not_mem_nil, or_false]
      constructor
      · rintro ⟨hm', rfl⟩
        rcases h.ident a b a' b' k'' hm hm' with ⟨h1, h2⟩ | ⟨h1, h2⟩
        · left; exact ⟨h1, h2, rfl⟩
        · right; exact ⟨h1, h2, rfl⟩
      · rintro (⟨rfl, rfl, rfl⟩ | ⟨rfl, rfl, rfl⟩)
        · exact ⟨hm, rfl⟩
        · exact ⟨hs.1, rfl⟩
    have hc : ((cycT tokens).map (·.2.2)).count k' =
        ((cycT tokens).filter fun t => t.2.2 == k').length := by
      rw [List.count_eq_countP, List.countP_map, List.countP_eq_length_filter]
      rfl
    rw [hc, hp.length_eq]; rfl
  · left; exact List.count_eq_zero.2 hk

theorem cycT_ids_eq_flatMap_keys {tokens : List (Nat × List (Nat × Nat))} (hk : (tokens.map (·.1)).Nodup) :
    (cycT tokens).map (·.2.2) = (tokens.map (·.1)).flatMap fun a => (alGet tokens a).map (·.2) := by
  unfold cycT
  rw [List.map_flatMap, List.flatMap_map]
  apply List.flatMap_congr
  rintro ⟨a, l⟩ hm
  simp only [List.map_map]
  rw [alGet_of_mem hk hm]
  rfl

theorem flatMap_alGet_perm {tokens : List (Nat × List (Nat × Nat))} (h : CycFacts tokens) (atoms : List Nat)
    (hn : atoms.Nodup) (hm : ∀ a, a ∈ atoms ↔ a ∈ tokens.map (·.1)) :
    (atoms.flatMap fun a => (alGet tokens a).map (·.2)).Perm ((cycT tokens).map (·.2.2)) := by
  rw [cycT_ids_eq_flatMap_keys h.keys]
  exact ((List.perm_ext_iff_of_nodup hn h.keys).2 hm).flatMap_right _

end ChythonModel.Proofs.C02
