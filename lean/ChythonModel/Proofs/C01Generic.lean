import ChythonModel.Model.Morgan
import ChythonModel.Spec.Renumbering
/-!
Generic helper lemmas for C01: comprehensions with exceptions (`optMapM`) under permutation and element-wise
relations, dict lookup under renaming and permutation, `len(set(·))` under permutation, sorting permutations.
-/
namespace ChythonModel.Proofs.C01
open ChythonModel.Model.Morgan ChythonModel.Spec.Renumbering
open List

/-! ## `OptRel` -/

theorem OptRel.trans' {α β γ : Type} {R : α → β → Prop} {S : β → γ → Prop} {T : α → γ → Prop}
    (hT : ∀ a b c, R a b → S b c → T a c) {x : Option α} {y : Option β} {z : Option γ}
    (h₁ : OptRel R x y) (h₂ : OptRel S y z) : OptRel T x z := by
  cases h₁ with
  | none => cases h₂; exact .none
  | some hab => cases h₂ with | some hbc => exact .some (hT _ _ _ hab hbc)

theorem OptRel.mono {α β : Type} {R S : α → β → Prop} (hRS : ∀ a b, R a b → S a b)
    {x : Option α} {y : Option β} (h : OptRel R x y) : OptRel S x y := by
  cases h with
  | none => exact .none
  | some hab => exact .some (hRS _ _ hab)

theorem OptRel.of_eq {α : Type} {R : α → α → Prop} (hR : ∀ a, R a a) {x y : Option α} (h : x = y) : OptRel R x y := by
  subst h
  cases x with
  | none => exact .none
  | some a => exact .some (hR a)

/-! ## `optMapM` under permutation and under element-wise relation -/

def consOpt {α : Type} (x : Option α) (xs : Option (List α)) : Option (List α) :=
  match x with
  | none => none
  | some b => match xs with
    | none => none
    | some r => some (b :: r)

theorem optMapM_cons {α β : Type} (f : α → Option β) (a : α) (l : List α) :
    optMapM f (a :: l) = consOpt (f a) (optMapM f l) := by
  cases h1 : f a <;> cases h2 : optMapM f l <;> simp [optMapM, consOpt, h1, h2]

theorem optRel_cons {α β : Type} {R : α → β → Prop} {L L' : List α → List β → Prop}
    (hL : ∀ a b r r', R a b → L r r' → L' (a :: r) (b :: r'))
    {x : Option α} {y : Option β} {xs : Option (List α)} {ys : Option (List β)}
    (h₁ : OptRel R x y) (h₂ : OptRel L xs ys) : OptRel L' (consOpt x xs) (consOpt y ys) := by
  cases h₁ with
  | none => exact .none
  | some hab =>
    cases h₂ with
    | none => exact .none
    | some hrs => exact .some (hL _ _ _ _ hab hrs)

theorem optMapM_perm {α β : Type} (f : α → Option β) {l l' : List α} (hp : l ~ l') :
    OptRel Perm (optMapM f l) (optMapM f l') := by
  induction hp with
  | nil => exact .some (Perm.refl _)
  | cons a _ ih =>
    rw [optMapM_cons, optMapM_cons]
    exact optRel_cons (R := Eq) (L := Perm) (L' := Perm) (fun a b r r' hab hr => by subst hab; exact hr.cons a)
      (OptRel.of_eq (fun _ => rfl) rfl) ih
  | swap a b l =>
    simp only [optMapM]
    cases f a <;> cases f b <;> cases optMapM f l <;> first | exact .none | exact .some (Perm.swap _ _ _)
  | trans _ _ ih₁ ih₂ => exact OptRel.trans' (R := Perm) (S := Perm) (T := Perm) (fun _ _ _ h1 h2 => h1.trans h2) ih₁ ih₂

theorem optMapM_pointwise {α α' β β' : Type} {S : α → α' → Prop} {R : β → β' → Prop}
    (f : α → Option β) (f' : α' → Option β')
    {l : List α} {l' : List α'} (hl : Pointwise S l l')
    (hf : ∀ a a', a ∈ l → S a a' → OptRel R (f a) (f' a')) :
    OptRel (Pointwise R) (optMapM f l) (optMapM f' l') := by
  induction hl with
  | nil => exact .some .nil
  | @cons a b l l' hab _ ih =>
    rw [optMapM_cons, optMapM_cons]
    exact optRel_cons (L := Pointwise R) (L' := Pointwise R) (fun _ _ _ _ h1 h2 => Pointwise.cons h1 h2) (hf a b mem_cons_self hab)
      (ih (fun x y hx hs => hf x y (mem_cons_of_mem _ hx) hs))

theorem pointwise_map {α β : Type} (g : α → β) (l : List α) : Pointwise (fun a b => b = g a) l (l.map g) := by
  induction l with
  | nil => exact .nil
  | cons a l ih => exact .cons rfl ih

theorem pointwise_eq_map {α β : Type} {g : α → β} {l : List α} {l' : List β}
    (h : Pointwise (fun a b => b = g a) l l') : l' = l.map g := by
  induction h with
  | nil => rfl
  | cons hab _ ih => simp [hab, ih]

theorem pointwise_length {α β : Type} {S : α → β → Prop} {l : List α} {l' : List β} (h : Pointwise S l l') :
    l.length = l'.length := by
  induction h with
  | nil => rfl
  | cons _ _ ih => simp [ih]

theorem optMapM_length {α β : Type} (f : α → Option β) {l : List α} {r : List β} (h : optMapM f l = some r) :
    r.length = l.length := by
  induction l generalizing r with
  | nil => simp [optMapM] at h; subst h; rfl
  | cons a l ih =>
    simp only [optMapM] at h
    cases hfa : f a with
    | none => simp [hfa] at h
    | some b =>
      cases hr : optMapM f l with
      | none => simp [hfa, hr] at h
      | some r' =>
        simp [hfa, hr] at h
        subst h
        simp [ih hr]

/-- a comprehension `{k: e for k, … in d.items()}` keeps the keys of `d`, in order -/
theorem optMapM_keys {α β : Type} (key : α → Nat) (g : α → Option β) {l : List α} {r : List (Nat × β)}
    (h : optMapM (fun a => (g a).map fun x => (key a, x)) l = some r) : keys r = l.map key := by
  induction l generalizing r with
  | nil => simp [optMapM] at h; subst h; rfl
  | cons a l ih =>
    simp only [optMapM] at h
    cases hga : g a with
    | none => simp [hga] at h
    | some b =>
      cases hr : optMapM (fun a => (g a).map fun x => (key a, x)) l with
      | none => simp [hga, hr] at h
      | some r' =>
        simp [hga, hr] at h
        subst h
        simp [keys, ← ih hr]

/-! ## dict lookup -/

theorem lookup_mapKeys {β : Type} {π : Nat → Nat} (hπ : Function.Injective π) (d : List (Nat × β)) (n : Nat) :
    (mapKeys π d).lookup (π n) = d.lookup n := by
  induction d with
  | nil => rfl
  | cons kv d ih =>
    obtain ⟨k, v⟩ := kv
    simp only [mapKeys, map_cons, lookup_cons] at ih ⊢
    by_cases hk : n = k
    · subst hk; simp
    · have h1 : (π n == π k) = false := by simp; exact fun h => hk (hπ h)
      have h2 : (n == k) = false := by simp [hk]
      simp only [h1, h2]; exact ih

theorem lookup_eq_some_iff {β : Type} {d : List (Nat × β)} (hd : (keys d).Nodup) (n : Nat) (v : β) :
    d.lookup n = some v ↔ (n, v) ∈ d := by
  induction d with
  | nil => simp
  | cons kv d ih =>
    obtain ⟨k, x⟩ := kv
    simp only [keys, map_cons, nodup_cons] at hd
    simp only [lookup_cons, mem_cons, Prod.mk.injEq]
    by_cases hk : n = k
    · subst hk
      simp only [beq_self_eq_true, Option.some.injEq, true_and]
      constructor
      · intro h; exact Or.inl h.symm
      · rintro (h | h)
        · exact h.symm
        · exact absurd (mem_map.mpr ⟨(n, v), h, rfl⟩) hd.1
    · have h2 : (n == k) = false := by simp [hk]
      simp only [h2, hk, false_and, false_or]
      exact ih hd.2

theorem lookup_perm {β : Type} {d d' : List (Nat × β)} (hd : (keys d).Nodup) (hp : d' ~ d) (n : Nat) :
    d'.lookup n = d.lookup n := by
  have hd' : (keys d').Nodup := by
    unfold keys at hd ⊢
    exact (hp.map _).nodup_iff.mpr hd
  cases h : d.lookup n with
  | some v => exact (lookup_eq_some_iff hd' n v).mpr (hp.mem_iff.mpr ((lookup_eq_some_iff hd n v).mp h))
  | none =>
    cases h' : d'.lookup n with
    | none => rfl
    | some v =>
      have := (lookup_eq_some_iff hd n v).mpr (hp.mem_iff.mp ((lookup_eq_some_iff hd' n v).mp h'))
      simp [h] at this

theorem keys_mapKeys {β : Type} (π : Nat → Nat) (d : List (Nat × β)) : keys (mapKeys π d) = (keys d).map π := by
  simp [keys, mapKeys]

theorem nodup_keys_mapKeys {β : Type} {π : Nat → Nat} (hπ : Function.Injective π) {d : List (Nat × β)}
    (hd : (keys d).Nodup) : (keys (mapKeys π d)).Nodup := by
  rw [keys_mapKeys]
  generalize keys d = l at hd
  induction l with
  | nil => simp
  | cons a l ih =>
    simp only [nodup_cons, map_cons, mem_map] at hd ⊢
    refine ⟨?_, ih hd.2⟩
    rintro ⟨b, hb, hab⟩
    exact hd.1 (hπ hab ▸ hb)

/-- lookup in the renamed, reordered dict at the renamed key = lookup in the original -/
theorem lookup_dictEq {β : Type} {π : Nat → Nat} (hπ : Function.Injective π) {d d' : List (Nat × β)}
    (hd : (keys d).Nodup) (h : DictEq π d d') (n : Nat) : d'.lookup (π n) = d.lookup n := by
  rw [lookup_perm (nodup_keys_mapKeys hπ hd) h, lookup_mapKeys hπ]

theorem DictEq.nodup_keys {β : Type} {π : Nat → Nat} (hπ : Function.Injective π) {d d' : List (Nat × β)}
    (hd : (keys d).Nodup) (h : DictEq π d d') : (keys d').Nodup := by
  have h2 := nodup_keys_mapKeys hπ hd
  unfold keys at h2 ⊢
  exact (Perm.map _ h).nodup_iff.mpr h2

theorem DictEq.length {β : Type} {π : Nat → Nat} {d d' : List (Nat × β)} (h : DictEq π d d') : d'.length = d.length := by
  have := Perm.length_eq h
  simpa [mapKeys] using this

theorem DictEq.values {π : Nat → Nat} {d d' : Weights} (h : DictEq π d d') : values d' ~ values d := by
  have := Perm.map (·.2) h
  unfold Model.Morgan.values
  simpa [mapKeys, Function.comp_def] using this

/-! ## `len(set(·))` -/

theorem numDistinct_cons (a : Int) (l : List Int) :
    numDistinct (a :: l) = if a ∈ l then numDistinct l else numDistinct l + 1 := by
  simp [numDistinct]

theorem numDistinct_perm {l l' : List Int} (hp : l ~ l') : numDistinct l = numDistinct l' := by
  induction hp with
  | nil => rfl
  | cons a hp ih =>
    have := hp.mem_iff (a := a)
    simp only [numDistinct_cons, this, ih]
  | swap a b l =>
    simp only [numDistinct_cons, mem_cons]
    by_cases hab : a = b
    · subst hab; simp
    · have hba : ¬ b = a := fun h => hab h.symm
      simp only [hab, hba, false_or]
      by_cases ha : a ∈ l <;> by_cases hb : b ∈ l <;> simp [ha, hb]
  | trans _ _ ih₁ ih₂ => exact ih₁.trans ih₂

/-! ## sorting -/

theorem insertBy_perm {α : Type} (le : α → α → Bool) (a : α) (l : List α) : insertBy le a l ~ a :: l := by
  induction l with
  | nil => exact Perm.refl _
  | cons b tl ih =>
    simp only [insertBy]
    split
    · exact Perm.refl _
    · exact (ih.cons b).trans (Perm.swap a b tl)

theorem sortBy_perm {α : Type} (l : List α) (le : α → α → Bool) : sortBy le l ~ l := by
  induction l with
  | nil => exact Perm.refl _
  | cons a tl ih =>
    show insertBy le a (sortBy le tl) ~ a :: tl
    exact (insertBy_perm le a _).trans (ih.cons a)

theorem insertBy_pairwise {α : Type} {le : α → α → Bool} (trans : ∀ a b c, le a b → le b c → le a c)
    (total : ∀ a b, (le a b || le b a) = true) (a : α) (l : List α)
    (hl : l.Pairwise (fun x y => le x y = true)) : (insertBy le a l).Pairwise (fun x y => le x y = true) := by
  induction l with
  | nil => simp [insertBy]
  | cons b tl ih =>
    simp only [insertBy]
    have hb := (pairwise_cons.mp hl)
    split
    · rename_i hab
      refine pairwise_cons.mpr ⟨?_, hl⟩
      intro x hx
      rcases mem_cons.mp hx with rfl | hx
      · exact hab
      · exact trans _ _ _ hab (hb.1 x hx)
    · rename_i hab
      have hba : le b a = true := by
        have := total a b
        simp only [Bool.or_eq_true] at this
        rcases this with h | h
        · exact absurd h hab
        · exact h
      refine pairwise_cons.mpr ⟨?_, ih hb.2⟩
      intro x hx
      rcases mem_cons.mp ((insertBy_perm le a tl).mem_iff.mp hx) with rfl | hx
      · exact hba
      · exact hb.1 x hx

theorem sortBy_pairwise {α : Type} {le : α → α → Bool} (trans : ∀ a b c, le a b → le b c → le a c)
    (total : ∀ a b, (le a b || le b a) = true) (l : List α) : (sortBy le l).Pairwise (fun x y => le x y = true) := by
  induction l with
  | nil => exact Pairwise.nil
  | cons a tl ih => exact insertBy_pairwise trans total a _ ih

theorem pairLe_trans (a b c : Int × Int) : pairLe a b → pairLe b c → pairLe a c := by
  simp only [pairLe, Bool.or_eq_true, Bool.and_eq_true, decide_eq_true_eq, beq_iff_eq]
  omega

theorem pairLe_total (a b : Int × Int) : (pairLe a b || pairLe b a) = true := by
  simp only [pairLe, Bool.or_eq_true, Bool.and_eq_true, decide_eq_true_eq, beq_iff_eq]
  omega

theorem pairLe_antisymm (a b : Int × Int) : pairLe a b → pairLe b a → a = b := by
  obtain ⟨a1, a2⟩ := a
  obtain ⟨b1, b2⟩ := b
  simp only [pairLe, Bool.or_eq_true, Bool.and_eq_true, decide_eq_true_eq, beq_iff_eq, Prod.mk.injEq]
  omega

/-- `sorted` of a collection of `(int, int)` tuples does not depend on the order in which they were produced -/
theorem sortBy_pairLe_perm {l l' : List (Int × Int)} (hp : l ~ l') : sortBy pairLe l = sortBy pairLe l' := by
  apply Perm.eq_of_pairwise (le := fun a b => pairLe a b = true)
  · intro a b _ _ h1 h2; exact pairLe_antisymm a b h1 h2
  · exact sortBy_pairwise pairLe_trans pairLe_total l
  · exact sortBy_pairwise pairLe_trans pairLe_total l'
  · exact (sortBy_perm l pairLe).trans (hp.trans (sortBy_perm l' pairLe).symm)

theorem byValue_trans (a b c : Nat × Int) : byValue a b → byValue b c → byValue a c := by
  simp only [byValue, decide_eq_true_eq]; omega

theorem byValue_total (a b : Nat × Int) : (byValue a b || byValue b a) = true := by
  simp only [byValue, Bool.or_eq_true, decide_eq_true_eq]; omega

end ChythonModel.Proofs.C01
