import ChythonModel.Model.C16Worklist
/-!
# C16 — lemmas about the worklist of `Reactor.__call__` (exhaustive mode)

* `scan_*`   : what one pass over reactions does to `seen`, the yielded list and the appended items
* `loop_eq_bfs` : the literal FIFO loop equals the level-by-level `bfs` whenever it does not run out of fuel, and
                  `work` fuel is enough (fuel independence + termination)
* `bfs_sound`, `bfs_keys_nodup`, `bfs_complete` : reported reactions are reachable, reported once per key, and every
  reachable key is reported (under the congruence hypotheses `Congr`)
-/
namespace ChythonModel.Proofs.C16W
open ChythonModel.Model.C16W

set_option linter.unusedSectionVars false
variable {σ ρ κ : Type} [DecidableEq κ]

/-! ## `scan` -/

theorem scan_cons_old (S : Sys σ ρ κ) (rq : Bool) (it : σ) (r : ρ) (ps : List (σ × ρ)) (seen : List κ) (acc : List σ)
    (h : S.key r ∈ seen) : scan S rq ((it, r) :: ps) seen acc = scan S rq ps seen acc := by
  simp only [scan, List.contains_iff_mem.2 h, if_true]

theorem scan_cons_new (S : Sys σ ρ κ) (rq : Bool) (it : σ) (r : ρ) (ps : List (σ × ρ)) (seen : List κ) (acc : List σ)
    (h : S.key r ∉ seen) :
    scan S rq ((it, r) :: ps) seen acc =
      ⟨r :: (scan S rq ps (S.key r :: seen) (if !S.stop r && rq then acc ++ S.succ it r else acc)).out,
       (scan S rq ps (S.key r :: seen) (if !S.stop r && rq then acc ++ S.succ it r else acc)).seen,
       (scan S rq ps (S.key r :: seen) (if !S.stop r && rq then acc ++ S.succ it r else acc)).acc⟩ := by
  have : seen.contains (S.key r) = false := by
    cases hc : seen.contains (S.key r)
    · rfl
    · exact absurd (List.contains_iff_mem.1 hc) h
  simp only [scan, this, Bool.false_eq_true, if_false]

theorem scan_seen_iff (S : Sys σ ρ κ) (rq : Bool) : ∀ (ps : List (σ × ρ)) (seen : List κ) (acc : List σ) (k : κ),
    k ∈ (scan S rq ps seen acc).seen ↔ k ∈ seen ∨ k ∈ (scan S rq ps seen acc).out.map S.key := by
  intro ps
  induction ps with
  | nil => intro seen acc k; simp [scan]
  | cons p ps ih =>
    obtain ⟨it, r⟩ := p
    intro seen acc k
    by_cases h : S.key r ∈ seen
    · rw [scan_cons_old S rq it r ps seen acc h]; exact ih seen acc k
    · rw [scan_cons_new S rq it r ps seen acc h]
      simp only [List.map_cons, List.mem_cons]
      rw [ih]
      simp only [List.mem_cons]
      constructor
      · rintro ((h1 | h1) | h1)
        · exact Or.inr (Or.inl h1)
        · exact Or.inl h1
        · exact Or.inr (Or.inr h1)
      · rintro (h1 | h1 | h1)
        · exact Or.inl (Or.inr h1)
        · exact Or.inl (Or.inl h1)
        · exact Or.inr h1

theorem scan_seen_mono (S : Sys σ ρ κ) (rq : Bool) (ps : List (σ × ρ)) (seen : List κ) (acc : List σ) (k : κ)
    (h : k ∈ seen) : k ∈ (scan S rq ps seen acc).seen := (scan_seen_iff S rq ps seen acc k).2 (Or.inl h)

/-- after the pass the key of every reaction that was looked at is in `seen` -/
theorem scan_pairs_seen (S : Sys σ ρ κ) (rq : Bool) : ∀ (ps : List (σ × ρ)) (seen : List κ) (acc : List σ),
    ∀ p ∈ ps, S.key p.2 ∈ (scan S rq ps seen acc).seen := by
  intro ps
  induction ps with
  | nil => intro seen acc p hp; simp at hp
  | cons p0 ps ih =>
    obtain ⟨it, r⟩ := p0
    intro seen acc p hp
    by_cases h : S.key r ∈ seen
    · rw [scan_cons_old S rq it r ps seen acc h]
      rcases List.mem_cons.1 hp with rfl | hp
      · exact scan_seen_mono S rq ps seen acc _ h
      · exact ih seen acc p hp
    · rw [scan_cons_new S rq it r ps seen acc h]
      rcases List.mem_cons.1 hp with rfl | hp
      · exact scan_seen_mono S rq ps _ _ _ (by simp)
      · exact ih _ _ p hp

/-- yielded reactions have pairwise distinct keys, none of which was in `seen` before -/
theorem scan_out_fresh (S : Sys σ ρ κ) (rq : Bool) : ∀ (ps : List (σ × ρ)) (seen : List κ) (acc : List σ),
    ((scan S rq ps seen acc).out.map S.key).Nodup ∧ ∀ r ∈ (scan S rq ps seen acc).out, S.key r ∉ seen := by
  intro ps
  induction ps with
  | nil => intro seen acc; simp [scan]
  | cons p0 ps ih =>
    obtain ⟨it, r⟩ := p0
    intro seen acc
    by_cases h : S.key r ∈ seen
    · rw [scan_cons_old S rq it r ps seen acc h]; exact ih seen acc
    · rw [scan_cons_new S rq it r ps seen acc h]
      obtain ⟨hnd, hfr⟩ := ih (S.key r :: seen) (if !S.stop r && rq then acc ++ S.succ it r else acc)
      refine ⟨?_, ?_⟩
      · simp only [List.map_cons, List.nodup_cons]
        refine ⟨?_, hnd⟩
        intro hmem
        obtain ⟨r', hr', he⟩ := List.mem_map.1 hmem
        exact hfr r' hr' (by simp [he])
      · intro r' hr'
        rcases List.mem_cons.1 hr' with rfl | hr'
        · exact h
        · intro hin
          exact hfr r' hr' (List.mem_cons_of_mem _ hin)

/-- the appended items: `acc` is extended at the end, only by successors of yielded, non-`stop` reactions, only when re-queueing -/
theorem scan_acc_ext (S : Sys σ ρ κ) (rq : Bool) : ∀ (ps : List (σ × ρ)) (seen : List κ) (acc : List σ),
    ∃ ext, (scan S rq ps seen acc).acc = acc ++ ext ∧
      ∀ s ∈ ext, ∃ it r, (it, r) ∈ ps ∧ r ∈ (scan S rq ps seen acc).out ∧ S.stop r = false ∧ rq = true ∧ s ∈ S.succ it r := by
  intro ps
  induction ps with
  | nil => intro seen acc; exact ⟨[], by simp [scan], by simp⟩
  | cons p0 ps ih =>
    obtain ⟨it, r⟩ := p0
    intro seen acc
    by_cases h : S.key r ∈ seen
    · rw [scan_cons_old S rq it r ps seen acc h]
      obtain ⟨ext, he, hs⟩ := ih seen acc
      refine ⟨ext, he, ?_⟩
      intro s hs'
      obtain ⟨it', r', hm, ho, h1, h2, h3⟩ := hs s hs'
      exact ⟨it', r', List.mem_cons_of_mem _ hm, ho, h1, h2, h3⟩
    · rw [scan_cons_new S rq it r ps seen acc h]
      by_cases hc : (!S.stop r && rq) = true
      · obtain ⟨ext, he, hs⟩ := ih (S.key r :: seen) (acc ++ S.succ it r)
        simp only [hc, if_true]
        refine ⟨S.succ it r ++ ext, by rw [he, List.append_assoc], ?_⟩
        intro s hs'
        rcases List.mem_append.1 hs' with h0 | h0
        · simp only [Bool.and_eq_true, Bool.not_eq_true'] at hc
          exact ⟨it, r, by simp, by simp, hc.1, hc.2, h0⟩
        · obtain ⟨it', r', hm, ho, h1, h2, h3⟩ := hs s h0
          exact ⟨it', r', List.mem_cons_of_mem _ hm, List.mem_cons_of_mem _ ho, h1, h2, h3⟩
      · obtain ⟨ext, he, hs⟩ := ih (S.key r :: seen) acc
        simp only [hc, Bool.false_eq_true, if_false]
        refine ⟨ext, he, ?_⟩
        intro s hs'
        obtain ⟨it', r', hm, ho, h1, h2, h3⟩ := hs s hs'
        exact ⟨it', r', List.mem_cons_of_mem _ hm, List.mem_cons_of_mem _ ho, h1, h2, h3⟩

theorem scan_acc_mono (S : Sys σ ρ κ) (rq : Bool) (ps : List (σ × ρ)) (seen : List κ) (acc : List σ) (s : σ)
    (h : s ∈ acc) : s ∈ (scan S rq ps seen acc).acc := by
  obtain ⟨ext, he, _⟩ := scan_acc_ext S rq ps seen acc
  rw [he]; exact List.mem_append.2 (Or.inl h)

/-- every yielded reaction comes from a pair of the pass, and when re-queueing all its successors are appended -/
theorem scan_out_succ (S : Sys σ ρ κ) (rq : Bool) : ∀ (ps : List (σ × ρ)) (seen : List κ) (acc : List σ),
    ∀ r ∈ (scan S rq ps seen acc).out, ∃ it, (it, r) ∈ ps ∧
      (rq = true → S.stop r = false → ∀ s ∈ S.succ it r, s ∈ (scan S rq ps seen acc).acc) := by
  intro ps
  induction ps with
  | nil => intro seen acc r hr; simp [scan] at hr
  | cons p0 ps ih =>
    obtain ⟨it, r0⟩ := p0
    intro seen acc r hr
    by_cases h : S.key r0 ∈ seen
    · rw [scan_cons_old S rq it r0 ps seen acc h] at hr ⊢
      obtain ⟨it', hm, hs⟩ := ih seen acc r hr
      exact ⟨it', List.mem_cons_of_mem _ hm, hs⟩
    · rw [scan_cons_new S rq it r0 ps seen acc h] at hr ⊢
      rcases List.mem_cons.1 hr with rfl | hr
      · refine ⟨it, by simp, ?_⟩
        intro hrq hst s hs
        apply scan_acc_mono
        simp only [hrq, hst, Bool.not_false, Bool.and_self, if_true]
        exact List.mem_append.2 (Or.inr hs)
      · obtain ⟨it', hm, hs⟩ := ih _ _ r hr
        exact ⟨it', List.mem_cons_of_mem _ hm, hs⟩

theorem mem_pairs (S : Sys σ ρ κ) (items : List σ) (it : σ) (r : ρ) :
    (it, r) ∈ pairs S items ↔ it ∈ items ∧ r ∈ S.step it := by
  induction items with
  | nil => simp [pairs]
  | cons x xs ih =>
    simp only [pairs, List.mem_append, List.mem_map, Prod.mk.injEq, ih, List.mem_cons]
    constructor
    · rintro (⟨r', hr', rfl, rfl⟩ | ⟨h1, h2⟩)
      · exact ⟨Or.inl rfl, hr'⟩
      · exact ⟨Or.inr h1, h2⟩
    · rintro ⟨rfl | h1, h2⟩
      · exact Or.inl ⟨r, h2, rfl, rfl⟩
      · exact Or.inr ⟨h1, h2⟩

/-- scanning a concatenation = scanning the first part, then the second with the state left by the first -/
theorem scan_append (S : Sys σ ρ κ) (rq : Bool) : ∀ (ps qs : List (σ × ρ)) (seen : List κ) (acc : List σ),
    scan S rq (ps ++ qs) seen acc =
      ⟨(scan S rq ps seen acc).out ++ (scan S rq qs (scan S rq ps seen acc).seen (scan S rq ps seen acc).acc).out,
       (scan S rq qs (scan S rq ps seen acc).seen (scan S rq ps seen acc).acc).seen,
       (scan S rq qs (scan S rq ps seen acc).seen (scan S rq ps seen acc).acc).acc⟩ := by
  intro ps
  induction ps with
  | nil => intro qs seen acc; simp [scan]
  | cons p0 ps ih =>
    obtain ⟨it, r⟩ := p0
    intro qs seen acc
    by_cases h : S.key r ∈ seen
    · rw [List.cons_append, scan_cons_old S rq it r _ seen acc h, scan_cons_old S rq it r _ seen acc h]
      exact ih qs seen acc
    · rw [List.cons_append, scan_cons_new S rq it r _ seen acc h, scan_cons_new S rq it r _ seen acc h]
      rw [ih]
      simp

/-- the appended items do not depend on what was in `acc` before: `acc` is only a prefix -/
theorem scan_acc_prefix (S : Sys σ ρ κ) (rq : Bool) : ∀ (ps : List (σ × ρ)) (seen : List κ) (acc : List σ),
    scan S rq ps seen acc =
      ⟨(scan S rq ps seen []).out, (scan S rq ps seen []).seen, acc ++ (scan S rq ps seen []).acc⟩ := by
  intro ps
  induction ps with
  | nil => intro seen acc; simp [scan]
  | cons p0 ps ih =>
    obtain ⟨it, r⟩ := p0
    intro seen acc
    by_cases h : S.key r ∈ seen
    · rw [scan_cons_old S rq it r _ seen acc h, scan_cons_old S rq it r _ seen [] h]
      exact ih seen acc
    · rw [scan_cons_new S rq it r _ seen acc h, scan_cons_new S rq it r _ seen [] h]
      by_cases hc : (!S.stop r && rq) = true
      · simp only [hc, if_true, List.nil_append]
        rw [ih (S.key r :: seen) (acc ++ S.succ it r), ih (S.key r :: seen) (S.succ it r)]
        simp [List.append_assoc]
      · simp only [hc, Bool.false_eq_true, if_false]
        rw [ih (S.key r :: seen) acc]

/-! ## the FIFO loop equals the level-by-level computation -/

/-- the queue holds the rest `cur` of the current level (depth `d`) followed by the items `nxt` already appended for the
next level: the loop finishes the level exactly like one `scan` over `pairs cur`, then continues with the next level -/
theorem loop_level (S : Sys σ ρ κ) (limit d : Nat) : ∀ (cur : List σ) (fuel : Nat) (nxt : List σ) (seen : List κ),
    loop S limit (fuel + cur.length) (cur.map (fun s => (s, d)) ++ nxt.map (fun s => (s, d + 1))) seen =
      (loop S limit fuel ((scan S (decide (d + 1 < limit)) (pairs S cur) seen nxt).acc.map fun s => (s, d + 1))
          (scan S (decide (d + 1 < limit)) (pairs S cur) seen nxt).seen).map
        ((scan S (decide (d + 1 < limit)) (pairs S cur) seen nxt).out ++ ·) := by
  intro cur
  induction cur with
  | nil =>
    intro fuel nxt seen
    simp only [List.length_nil, Nat.add_zero, List.map_nil, List.nil_append, pairs, scan]
    cases loop S limit fuel (nxt.map fun s => (s, d + 1)) seen <;> simp
  | cons it cur ih =>
    intro fuel nxt seen
    have hf : fuel + (it :: cur).length = (fuel + cur.length) + 1 := by simp; omega
    rw [hf]
    simp only [List.map_cons, List.cons_append, loop, pairs]
    rw [scan_append]
    rw [scan_acc_prefix S _ ((S.step it).map fun r => (it, r)) seen nxt]
    simp only []
    have hq : (cur.map (fun s => (s, d)) ++ nxt.map (fun s => (s, d + 1))) ++
        (scan S (decide (d + 1 < limit)) ((S.step it).map fun r => (it, r)) seen []).acc.map (fun s => (s, d + 1)) =
        cur.map (fun s => (s, d)) ++
          (nxt ++ (scan S (decide (d + 1 < limit)) ((S.step it).map fun r => (it, r)) seen []).acc).map (fun s => (s, d + 1)) := by
      simp [List.append_assoc]
    rw [hq, ih]
    cases loop S limit fuel _ _ <;> simp

theorem scan_no_requeue (S : Sys σ ρ κ) (ps : List (σ × ρ)) (seen : List κ) (acc : List σ) :
    (scan S false ps seen acc).acc = acc := by
  obtain ⟨ext, he, hs⟩ := scan_acc_ext S false ps seen acc
  have : ext = [] := by
    cases ext with
    | nil => rfl
    | cons s tl =>
      obtain ⟨_, _, _, _, _, h, _⟩ := hs s (by simp)
      cases h
  rw [he, this, List.append_nil]

/-- **termination**: with at least `work` fuel (the number of queue items `bfs` processes) the literal loop returns `bfs`.
`limit ≤ d + n`: the `n` levels reach the depth limit, after which nothing is re-queued. -/
theorem loop_eq_bfs (S : Sys σ ρ κ) (limit : Nat) : ∀ (n d : Nat) (items : List σ) (seen : List κ) (fuel : Nat),
    limit ≤ d + n → (n = 0 → items = []) → work S limit n d items seen ≤ fuel →
    loop S limit fuel (items.map fun s => (s, d)) seen = some (bfs S limit n d items seen) := by
  intro n
  induction n with
  | zero =>
    intro d items seen fuel _ h0 _
    rw [h0 rfl]
    cases fuel <;> simp [loop, bfs]
  | succ n ih =>
    intro d items seen fuel hl _ hw
    simp only [work] at hw
    obtain ⟨fuel', rfl⟩ : ∃ f', fuel = f' + items.length := ⟨fuel - items.length, by omega⟩
    have := loop_level S limit d items fuel' [] seen
    simp only [List.map_nil, List.append_nil] at this
    rw [this]
    rw [ih (d + 1) _ _ fuel' (by omega) _ (by omega)]
    · simp [bfs]
    · intro hn
      subst hn
      have hf : decide (d + 1 < limit) = false := by simp; omega
      rw [hf, scan_no_requeue]

theorem loop_mono (S : Sys σ ρ κ) (limit : Nat) : ∀ (fuel : Nat) (q : List (σ × Nat)) (seen : List κ) (out : List ρ),
    loop S limit fuel q seen = some out → ∀ k, loop S limit (fuel + k) q seen = some out := by
  intro fuel
  induction fuel with
  | zero =>
    intro q seen out h k
    cases q with
    | nil => cases k <;> simpa [loop] using h
    | cons x xs => simp [loop] at h
  | succ fuel ih =>
    intro q seen out h k
    cases q with
    | nil => have : fuel + 1 + k = (fuel + k) + 1 := by omega
             rw [this]; simpa [loop] using h
    | cons x xs =>
      obtain ⟨it, depth⟩ := x
      have hk : fuel + 1 + k = (fuel + k) + 1 := by omega
      rw [hk]
      simp only [loop, Option.map_eq_some_iff] at h ⊢
      obtain ⟨o, ho, rfl⟩ := h
      exact ⟨o, ih _ _ _ ho k, rfl⟩

/-- **fuel independence**: whatever fuel the loop finishes with, the result is `bfs` -/
theorem loop_some_eq_bfs (S : Sys σ ρ κ) (limit : Nat) (n d : Nat) (items : List σ) (seen : List κ) (fuel : Nat)
    (out : List ρ) (hl : limit ≤ d + n) (h0 : n = 0 → items = [])
    (h : loop S limit fuel (items.map fun s => (s, d)) seen = some out) : out = bfs S limit n d items seen := by
  have h1 := loop_mono S limit fuel _ seen out h (work S limit n d items seen)
  have h2 := loop_eq_bfs S limit n d items seen (fuel + work S limit n d items seen) hl h0 (by omega)
  rw [h1] at h2
  exact Option.some.inj h2

/-! ## what is reported: reachability -/

/-- `k` is the key of a reaction reachable from queue item `s` through `q` re-queueing hops (none through a `stop` reaction) -/
inductive Tail (S : Sys σ ρ κ) : Nat → σ → κ → Prop
  | here {s : σ} {r : ρ} : r ∈ S.step s → Tail S 0 s (S.key r)
  | hop {q : Nat} {s : σ} {r : ρ} {s2 : σ} {k : κ} : r ∈ S.step s → S.stop r = false → s2 ∈ S.succ s r → Tail S q s2 k →
      Tail S (q + 1) s k

/-- queue item `it` is put on the queue with depth `d` by the un-deduplicated process: initial items have depth 0; an item of
depth `d` yields `r`, not `stop`, `d + 1 < limit`, and `s` is one of the items appended for `r` -/
inductive ReachItem (S : Sys σ ρ κ) (limit : Nat) (init : List σ) : Nat → σ → Prop
  | base {it : σ} : it ∈ init → ReachItem S limit init 0 it
  | hop {d : Nat} {it : σ} {r : ρ} {s : σ} : ReachItem S limit init d it → r ∈ S.step it → S.stop r = false →
      d + 1 < limit → s ∈ S.succ it r → ReachItem S limit init (d + 1) s

/-- the de-duplication key is a congruence for the step system (up to a relation `E` on queue items):
`E`-related items produce the same keys, and two reactions with the same key have the same `stop` flag and `E`-related
successor items — whichever queue item they came from -/
structure Congr (S : Sys σ ρ κ) (E : σ → σ → Prop) : Prop where
  step_keys : ∀ s s', E s s' → ∀ r ∈ S.step s, ∃ r' ∈ S.step s', S.key r' = S.key r
  key_cont : ∀ s s' r r', r ∈ S.step s → r' ∈ S.step s' → S.key r = S.key r' →
    S.stop r = S.stop r' ∧ ∀ s2 ∈ S.succ s r, ∃ s2' ∈ S.succ s' r', E s2 s2'

theorem tail_congr {S : Sys σ ρ κ} {E : σ → σ → Prop} (hC : Congr S E) {q : Nat} {s : σ} {k : κ} (ht : Tail S q s k) :
    ∀ s', E s s' → Tail S q s' k := by
  induction ht with
  | here hr =>
    intro s' he
    obtain ⟨r', hr', hk⟩ := hC.step_keys _ _ he _ hr
    rw [← hk]; exact Tail.here hr'
  | hop hr hst hs2 _ ih =>
    intro s' he
    obtain ⟨r', hr', hk⟩ := hC.step_keys _ _ he _ hr
    obtain ⟨hstop, hsucc⟩ := hC.key_cont _ _ _ _ hr hr' hk.symm
    obtain ⟨s2', hs2', he2⟩ := hsucc _ hs2
    exact Tail.hop hr' (by rw [← hstop]; exact hst) hs2' (ih s2' he2)

/-- loop invariant at the start of a level: the successors of every reaction whose key is in `seen` are either represented
in the current level or already completely looked at -/
def Inv (S : Sys σ ρ κ) (E : σ → σ → Prop) (items : List σ) (seen : List κ) : Prop :=
  ∀ it r, r ∈ S.step it → S.key r ∈ seen → S.stop r = false → ∀ s ∈ S.succ it r,
    (∃ s' ∈ items, E s s') ∨ (∀ r' ∈ S.step s, S.key r' ∈ seen)

theorem walk {S : Sys σ ρ κ} {E : σ → σ → Prop} (hC : Congr S E) {items : List σ} {seen : List κ}
    (hinv : Inv S E items seen) {q : Nat} {s : σ} {k : κ} (ht : Tail S q s k) :
    (∀ r' ∈ S.step s, S.key r' ∈ seen) → k ∈ seen ∨ ∃ q' s', q' < q ∧ s' ∈ items ∧ Tail S q' s' k := by
  induction ht with
  | here hr => intro hall; exact Or.inl (hall _ hr)
  | hop hr hst hs2 ht' ih =>
    intro hall
    rcases hinv _ _ hr (hall _ hr) hst _ hs2 with ⟨s', hs', he⟩ | hall2
    · exact Or.inr ⟨_, s', Nat.lt_succ_self _, hs', tail_congr hC ht' s' he⟩
    · rcases ih hall2 with h | ⟨q', s', hq, hs', ht''⟩
      · exact Or.inl h
      · exact Or.inr ⟨q', s', Nat.lt_succ_of_lt hq, hs', ht''⟩

/-- **completeness of the level computation** (generalised for the induction over levels) -/
theorem bfs_complete_aux {S : Sys σ ρ κ} {E : σ → σ → Prop} (hC : Congr S E) (limit : Nat) :
    ∀ (n d : Nat) (items : List σ) (seen : List κ), Inv S E items seen →
    ∀ q, q < n → (q = 0 ∨ d + q < limit) → ∀ it ∈ items, ∀ k, Tail S q it k →
      k ∈ seen ∨ k ∈ (bfs S limit n d items seen).map S.key := by
  intro n
  induction n with
  | zero => intro d items seen _ q hq; omega
  | succ n ihn =>
    intro d items seen hinv
    have hbfs : bfs S limit (n + 1) d items seen =
        (scan S (decide (d + 1 < limit)) (pairs S items) seen []).out ++
          bfs S limit n (d + 1) (scan S (decide (d + 1 < limit)) (pairs S items) seen []).acc
            (scan S (decide (d + 1 < limit)) (pairs S items) seen []).seen := rfl
    generalize hres : scan S (decide (d + 1 < limit)) (pairs S items) seen [] = res at hbfs
    have hL2 : ∀ it ∈ items, ∀ r ∈ S.step it, S.key r ∈ res.seen := by
      intro it hit r hr
      have := scan_pairs_seen S (decide (d + 1 < limit)) (pairs S items) seen [] (it, r) ((mem_pairs S items it r).2 ⟨hit, hr⟩)
      rw [hres] at this; exact this
    have hiff : ∀ k, k ∈ res.seen ↔ k ∈ seen ∨ k ∈ res.out.map S.key := by
      intro k; have := scan_seen_iff S (decide (d + 1 < limit)) (pairs S items) seen [] k
      rw [hres] at this; exact this
    have hnew : d + 1 < limit → ∀ it r, r ∈ S.step it → S.key r ∈ res.out.map S.key → S.stop r = false →
        ∀ s ∈ S.succ it r, ∃ s' ∈ res.acc, E s s' := by
      intro hflag it r hr hk hst s hs
      obtain ⟨rk, hrk, hkk⟩ := List.mem_map.1 hk
      have hso := scan_out_succ S (decide (d + 1 < limit)) (pairs S items) seen [] rk (by rw [hres]; exact hrk)
      obtain ⟨itk, hpair, hsucc⟩ := hso
      obtain ⟨_, hrk'⟩ := (mem_pairs S items itk rk).1 hpair
      obtain ⟨hstop, hcont⟩ := hC.key_cont it itk r rk hr hrk' hkk.symm
      obtain ⟨s', hs', he⟩ := hcont s hs
      refine ⟨s', ?_, he⟩
      have := hsucc (by simpa using hflag) (by rw [← hstop]; exact hst) s' hs'
      rw [hres] at this; exact this
    have hinv' : d + 1 < limit → Inv S E res.acc res.seen := by
      intro hflag it r hr hk hst s hs
      rcases (hiff _).1 hk with hk | hk
      · rcases hinv it r hr hk hst s hs with ⟨s', hs', he⟩ | hall
        · right
          intro r' hr'
          obtain ⟨r'', hr'', hkk⟩ := hC.step_keys s s' he r' hr'
          rw [← hkk]; exact hL2 s' hs' r'' hr''
        · right
          intro r' hr'
          exact (hiff _).2 (Or.inl (hall r' hr'))
      · exact Or.inl (hnew hflag it r hr hk hst s hs)
    intro q
    induction q using Nat.strongRecOn with
    | ind q ihq =>
      intro hq hlim it hit k ht
      rw [hbfs, List.map_append, List.mem_append]
      cases ht with
      | here hr =>
        rcases (hiff _).1 (hL2 it hit _ hr) with h | h
        · exact Or.inl h
        · exact Or.inr (Or.inl h)
      | @hop q' _ r s2 _ hr hst hs2 ht' =>
        have hflag : d + 1 < limit := by omega
        rcases (hiff _).1 (hL2 it hit r hr) with hk | hk
        · rcases hinv it r hr hk hst s2 hs2 with ⟨s', hs', he⟩ | hall
          · have := ihq q' (Nat.lt_succ_self _) (by omega) (by omega) s' hs' k (tail_congr hC ht' s' he)
            rw [hbfs, List.map_append, List.mem_append] at this
            exact this
          · rcases walk hC hinv ht' hall with h | ⟨q'', s', hq'', hs', ht''⟩
            · exact Or.inl h
            · have := ihq q'' (by omega) (by omega) (by omega) s' hs' k ht''
              rw [hbfs, List.map_append, List.mem_append] at this
              exact this
        · obtain ⟨s', hs', he⟩ := hnew hflag it r hr hk hst s2 hs2
          rcases ihn (d + 1) res.acc res.seen (hinv' hflag) q' (by omega) (by omega) s' hs' k (tail_congr hC ht' s' he) with h | h
          · rcases (hiff _).1 h with h | h
            · exact Or.inl h
            · exact Or.inr (Or.inl h)
          · exact Or.inr (Or.inr h)

/-- reported reactions are reachable: each is produced by a queue item the un-deduplicated process reaches -/
theorem bfs_sound_aux (S : Sys σ ρ κ) (limit : Nat) (init : List σ) : ∀ (n d : Nat) (items : List σ) (seen : List κ),
    (∀ it ∈ items, ReachItem S limit init d it) →
    ∀ r ∈ bfs S limit n d items seen, ∃ d' it, ReachItem S limit init d' it ∧ r ∈ S.step it := by
  intro n
  induction n with
  | zero => intro d items seen _ r hr; simp [bfs] at hr
  | succ n ih =>
    intro d items seen hreach r hr
    simp only [bfs, List.mem_append] at hr
    rcases hr with hr | hr
    · obtain ⟨it, hpair, _⟩ := scan_out_succ S _ _ _ _ r hr
      obtain ⟨hit, hstep⟩ := (mem_pairs S items it r).1 hpair
      exact ⟨d, it, hreach it hit, hstep⟩
    · apply ih (d + 1) _ _ _ r hr
      intro s hs
      obtain ⟨ext, he, hext⟩ := scan_acc_ext S (decide (d + 1 < limit)) (pairs S items) seen []
      rw [he, List.nil_append] at hs
      obtain ⟨it, r0, hpair, _, hst, hflag, hsucc⟩ := hext s hs
      obtain ⟨hit, hstep⟩ := (mem_pairs S items it r0).1 hpair
      exact ReachItem.hop (hreach it hit) hstep hst (by simpa using hflag) hsucc

/-- each key is reported once -/
theorem bfs_keys_nodup_aux (S : Sys σ ρ κ) (limit : Nat) : ∀ (n d : Nat) (items : List σ) (seen : List κ),
    ((bfs S limit n d items seen).map S.key).Nodup ∧ ∀ r ∈ bfs S limit n d items seen, S.key r ∉ seen := by
  intro n
  induction n with
  | zero => intro d items seen; simp [bfs]
  | succ n ih =>
    intro d items seen
    simp only [bfs]
    obtain ⟨hnd1, hfr1⟩ := scan_out_fresh S (decide (d + 1 < limit)) (pairs S items) seen []
    obtain ⟨hnd2, hfr2⟩ := ih (d + 1) (scan S (decide (d + 1 < limit)) (pairs S items) seen []).acc
      (scan S (decide (d + 1 < limit)) (pairs S items) seen []).seen
    refine ⟨?_, ?_⟩
    · rw [List.map_append, List.nodup_append]
      refine ⟨hnd1, hnd2, ?_⟩
      intro a ha b hb hab
      subst hab
      obtain ⟨r2, hr2, hk2⟩ := List.mem_map.1 hb
      apply hfr2 r2 hr2
      rw [hk2]
      exact (scan_seen_iff S _ _ _ _ _).2 (Or.inr ha)
    · intro r hr
      rcases List.mem_append.1 hr with hr | hr
      · exact hfr1 r hr
      · intro hin
        exact hfr2 r hr (scan_seen_mono S _ _ _ _ _ hin)

theorem reach_tail {S : Sys σ ρ κ} {limit : Nat} {init : List σ} {d : Nat} {it : σ} (h : ReachItem S limit init d it) :
    (d = 0 ∨ d < limit) ∧ ∀ q k, Tail S q it k → ∃ it0 ∈ init, Tail S (d + q) it0 k := by
  induction h with
  | base hit => exact ⟨Or.inl rfl, fun q k ht => ⟨_, hit, by simpa using ht⟩⟩
  | @hop d it r s _ hr hst hlim hs ih =>
    refine ⟨Or.inr (by omega), ?_⟩
    intro q k ht
    obtain ⟨it0, h0, ht0⟩ := ih.2 (q + 1) k (Tail.hop hr hst hs ht)
    have : d + 1 + q = d + (q + 1) := by omega
    exact ⟨it0, h0, by rw [this]; exact ht0⟩

end ChythonModel.Proofs.C16W
