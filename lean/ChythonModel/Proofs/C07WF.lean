import Mathlib.Data.List.Nodup
import Mathlib.Data.List.Basic
import ChythonModel.Model.Iso
/-!
Consequences of `Graph.WF` (what chython's `add_bond` maintains: symmetric adjacency, no loops, neighbours are atoms),
and the `seen` filter facts.
-/
namespace ChythonModel.Proofs.C07
open ChythonModel.Model.Iso

theorem lookup_mem {α β} [BEq α] [LawfulBEq α] : ∀ (l : List (α × β)) (k : α) (v : β), l.lookup k = some v → (k, v) ∈ l := by
  intro l
  induction l with
  | nil => intro k v h; simp at h
  | cons a l ih =>
    intro k v h
    obtain ⟨a1, a2⟩ := a
    rw [List.lookup_cons] at h
    by_cases hk : k == a1
    · simp [hk] at h
      have : k = a1 := by simpa using hk
      simp [this, h]
    · simp [hk] at h
      exact List.mem_cons_of_mem _ (ih k v h)

structure GraphOK (g : Graph) : Prop where
  atoms_nodup : g.atoms.Nodup
  nbrs_nodup : ∀ x, (g.nbrs x).Nodup
  symm : ∀ x y, y ∈ g.nbrs x → x ∈ g.nbrs y
  loop : ∀ x, x ∉ g.nbrs x
  closed : ∀ x y, y ∈ g.nbrs x → y ∈ g.atoms

theorem wf_ok (g : Graph) (h : g.WF = true) : GraphOK g := by
  simp only [Graph.WF, Bool.and_eq_true, decide_eq_true_eq, List.all_eq_true] at h
  obtain ⟨⟨h1, _⟩, h3⟩ := h
  have key : ∀ x y, y ∈ g.nbrs x → (g.nbrs x).Nodup ∧ y ≠ x ∧ y ∈ g.atoms ∧ x ∈ g.nbrs y := by
    intro x y hy
    unfold Graph.nbrs at hy
    cases hl : g.adj.lookup x with
    | none => simp [hl] at hy
    | some ms =>
      simp only [hl, Option.getD_some] at hy
      have hmem := lookup_mem g.adj x ms hl
      have := h3 (x, ms) hmem
      simp only [Bool.and_eq_true, decide_eq_true_eq, List.all_eq_true, bne_iff_ne, ne_eq,
        List.contains_iff_mem, Graph.hasBond] at this
      obtain ⟨hnd, hall⟩ := this
      obtain ⟨⟨ha, hb⟩, hc⟩ := hall y hy
      refine ⟨?_, ha, hb, hc⟩
      unfold Graph.nbrs
      simpa [hl] using hnd
  refine ⟨h1, ?_, fun x y hy => (key x y hy).2.2.2, fun x hx => (key x x hx).2.1 rfl, fun x y hy => (key x y hy).2.2.1⟩
  intro x
  cases hn : g.nbrs x with
  | nil => simp
  | cons y l =>
    have := (key x y (by simp [hn])).1
    rwa [hn] at this

/-! ### the `seen` filter -/

def vals (m : Dict) : List Nat := m.map (·.2)

theorem setEq_iff' (a b : List Nat) : setEq a b = true ↔ ∀ m, m ∈ a ↔ m ∈ b := by
  simp only [setEq, Bool.and_eq_true, List.all_eq_true, List.contains_iff_mem]
  constructor
  · rintro ⟨h1, h2⟩ m; exact ⟨h1 m, h2 m⟩
  · intro h; exact ⟨fun m hm => (h m).1 hm, fun m hm => (h m).2 hm⟩

theorem setEq_refl (a : List Nat) : setEq a a = true := (setEq_iff' a a).2 (fun _ => Iff.rfl)
theorem setEq_symm {a b : List Nat} (h : setEq a b = true) : setEq b a = true :=
  (setEq_iff' b a).2 (fun m => ((setEq_iff' a b).1 h m).symm)
theorem setEq_trans {a b c : List Nat} (h1 : setEq a b = true) (h2 : setEq b c = true) : setEq a c = true :=
  (setEq_iff' a c).2 (fun m => ((setEq_iff' a b).1 h1 m).trans ((setEq_iff' b c).1 h2 m))

theorem autoFilterGo_spec : ∀ (ms : List Dict) (seen : List (List Nat)),
    (autoFilterGo seen ms).Sublist ms ∧
    (∀ m' ∈ autoFilterGo seen ms, ∀ k ∈ seen, setEq (vals m') k = false) ∧
    (autoFilterGo seen ms).Pairwise (fun a b => setEq (vals a) (vals b) = false) ∧
    (∀ m ∈ ms, (∃ k ∈ seen, setEq (vals m) k = true) ∨ ∃ m' ∈ autoFilterGo seen ms, setEq (vals m) (vals m') = true) := by
  intro ms
  induction ms with
  | nil => intro seen; simp [autoFilterGo]
  | cons m ms ih =>
    intro seen
    unfold autoFilterGo
    by_cases hs : seen.any (setEq (m.map (·.2))) = true
    · simp only [hs, if_true]
      obtain ⟨h1, h2, h3, h4⟩ := ih seen
      refine ⟨List.Sublist.cons _ h1, h2, h3, ?_⟩
      intro x hx
      rcases List.mem_cons.1 hx with rfl | hx
      · left
        obtain ⟨k, hk, hkk⟩ := List.any_eq_true.1 hs
        exact ⟨k, hk, hkk⟩
      · exact h4 x hx
    · simp only [hs, Bool.false_eq_true, if_false]
      obtain ⟨h1, h2, h3, h4⟩ := ih (m.map (·.2) :: seen)
      refine ⟨List.Sublist.cons_cons _ h1, ?_, ?_, ?_⟩
      · intro m' hm' k hk
        rcases List.mem_cons.1 hm' with rfl | hm'
        · cases hh : setEq (vals m') k with
          | false => rfl
          | true => exact absurd (List.any_eq_true.2 ⟨k, hk, hh⟩) hs
        · exact h2 m' hm' k (List.mem_cons_of_mem _ hk)
      · rw [List.pairwise_cons]
        refine ⟨?_, h3⟩
        intro b hb
        have := h2 b hb (m.map (·.2)) (by simp)
        cases hh : setEq (vals m) (vals b) with
        | false => rfl
        | true =>
          have := setEq_symm hh
          simp [vals] at this ⊢
          simp_all [vals]
      · intro x hx
        rcases List.mem_cons.1 hx with rfl | hx
        · right; exact ⟨x, by simp, setEq_refl _⟩
        · rcases h4 x hx with ⟨k, hk, hkk⟩ | ⟨m', hm', hmm⟩
          · rcases List.mem_cons.1 hk with rfl | hk
            · right; exact ⟨m, by simp, hkk⟩
            · left; exact ⟨k, hk, hkk⟩
          · right; exact ⟨m', List.mem_cons_of_mem _ hm', hmm⟩

end ChythonModel.Proofs.C07
