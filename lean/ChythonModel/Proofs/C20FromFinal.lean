import ChythonModel.Model.C20FromFinal
import ChythonModel.Proofs.C12Fix
/-!
# C20 — lemmas about `Model/C20FromFinal.lean`: writing the restored labels back touches labels only; where an atom label of the
result comes from; when it is certainly there.
-/
namespace ChythonModel.Proofs.C20
open ChythonModel.Model ChythonModel.Model.Stereo ChythonModel.Model.C20 ChythonModel.Model.StereoFix ChythonModel.Proofs.C12Fix

theorem clearLabels_idem (m : Mol) : clearLabels (clearLabels m) = clearLabels m := by
  simp [clearLabels, Function.comp_def]

theorem clearLabels_setAtomStereo (m : Mol) (n : Nat) (s : Bool) : clearLabels (setAtomStereo m n s) = clearLabels m := by
  unfold clearLabels setAtomStereo
  simp only [List.map_map]
  congr 1
  apply List.map_congr_left
  intro ⟨k, a⟩ _
  simp only [Function.comp_apply]
  split <;> rfl

theorem clearLabels_setBondLabel (m : Mol) (n k : Nat) (s : Bool) : clearLabels (setBondLabel m n k s) = clearLabels m := by
  unfold clearLabels setBondLabel
  simp only [List.map_map]
  congr 1
  apply List.map_congr_left
  intro ⟨x, nb⟩ _
  simp only [Function.comp_apply]
  have inner : ∀ t : Nat, (nb.map fun (yb : Nat × Bond) => if yb.1 == t then (yb.1, { yb.2 with stereo := some s }) else (yb.1, yb.2)).map
      (fun (yb : Nat × Bond) => (yb.1, ({ yb.2 with stereo := none } : Bond))) =
      nb.map (fun (yb : Nat × Bond) => (yb.1, ({ yb.2 with stereo := none } : Bond))) := by
    intro t
    simp only [List.map_map]
    apply List.map_congr_left
    intro ⟨y, b⟩ _
    simp only [Function.comp_apply]
    split <;> rfl
  split
  · simp only [Prod.mk.injEq, true_and]; exact inner k
  · split
    · simp only [Prod.mk.injEq, true_and]; exact inner n
    · rfl

theorem clearLabels_applyLabel (m : Mol) (l : Label) : clearLabels (applyLabel m l) = clearLabels m := by
  obtain ⟨⟨k, a, b⟩, s⟩ := l
  cases k <;> simp [applyLabel, clearLabels_setAtomStereo, clearLabels_setBondLabel]

theorem clearLabels_foldl (ls : List Label) : ∀ m : Mol, clearLabels (ls.foldl applyLabel m) = clearLabels m := by
  induction ls with
  | nil => intro m; rfl
  | cons l rest ih => intro m; simp [List.foldl, ih, clearLabels_applyLabel]

/-- an atom label after writing the labels `ls` onto `m` comes from `ls` or stood on `m` -/
theorem foldl_atom_label (ls : List Label) : ∀ (m : Mol) (n : Nat) (a : Atom) (s : Bool),
    (n, a) ∈ (ls.foldl applyLabel m).atoms → a.stereo = some s →
    (∃ l ∈ ls, l.1.kind ≠ .cisTrans ∧ l.1.a = n ∧ l.2 = s) ∨ (∃ a0, (n, a0) ∈ m.atoms ∧ a0.stereo = some s) := by
  induction ls with
  | nil => intro m n a s h hs; exact .inr ⟨a, h, hs⟩
  | cons l rest ih =>
    intro m n a s h hs
    rcases ih (applyLabel m l) n a s h hs with ⟨l', hl', h'⟩ | ⟨a0, ha0, hs0⟩
    · exact .inl ⟨l', List.mem_cons_of_mem _ hl', h'⟩
    · obtain ⟨⟨k, x, y⟩, sg⟩ := l
      have atomCase : (n, a0) ∈ (setAtomStereo m x sg).atoms → k ≠ .cisTrans →
          (∃ l ∈ (⟨k, x, y⟩, sg) :: rest, l.1.kind ≠ .cisTrans ∧ l.1.a = n ∧ l.2 = s) ∨
            (∃ a0, (n, a0) ∈ m.atoms ∧ a0.stereo = some s) := by
        intro hm hk
        simp only [setAtomStereo, List.mem_map] at hm
        obtain ⟨⟨k', a'⟩, hmem, heq⟩ := hm
        by_cases hx : (k' == x) = true
        · simp only [hx, if_true, Prod.mk.injEq] at heq
          obtain ⟨e1, e2⟩ := heq
          subst e2
          simp only [Option.some.injEq] at hs0
          have : k' = x := by simpa using hx
          exact .inl ⟨(⟨k, x, y⟩, sg), List.mem_cons_self, hk, by rw [← e1, this], hs0⟩
        · simp only [hx, Bool.false_eq_true, if_false, Prod.mk.injEq] at heq
          obtain ⟨e1, e2⟩ := heq
          subst e1; subst e2
          exact .inr ⟨a', hmem, hs0⟩
      cases k with
      | tetra => exact atomCase (by simpa [applyLabel] using ha0) (by decide)
      | allene => exact atomCase (by simpa [applyLabel] using ha0) (by decide)
      | cisTrans =>
        have : (n, a0) ∈ m.atoms := by simpa [applyLabel, setBondLabel] using ha0
        exact .inr ⟨a0, this, hs0⟩

theorem clearLabels_no_atom_label (m : Mol) (n : Nat) (a : Atom) (s : Bool) (h : (n, a) ∈ (clearLabels m).atoms) :
    a.stereo ≠ some s := by
  simp only [clearLabels, List.mem_map] at h
  obtain ⟨⟨k, a'⟩, _, heq⟩ := h
  simp only [Prod.mk.injEq] at heq
  rw [← heq.2]; simp


/-- all labels of `ls` for atom `n` carry the sign `s` and there is one: afterwards every entry of atom `n` carries `s` -/
theorem foldl_atom_label_present (s : Bool) (n : Nat) (ls : List Label) : ∀ (m : Mol),
    (∀ l ∈ ls, l.1.kind ≠ .cisTrans → l.1.a = n → l.2 = s) →
    ((∃ l ∈ ls, l.1.kind ≠ .cisTrans ∧ l.1.a = n) ∨ (∀ a, (n, a) ∈ m.atoms → a.stereo = some s)) →
    ∀ a, (n, a) ∈ (ls.foldl applyLabel m).atoms → a.stereo = some s := by
  induction ls with
  | nil =>
    intro m _ h a ha
    rcases h with ⟨l, hl, _⟩ | h
    · cases hl
    · exact h a ha
  | cons l rest ih =>
    intro m hall h
    apply ih (applyLabel m l) (fun l' hl' => hall l' (List.mem_cons_of_mem _ hl'))
    obtain ⟨⟨k, x, y⟩, sg⟩ := l
    -- after this step: either a later label for `n` exists, or every entry of `n` already carries `s`
    have setCase : k ≠ .cisTrans → ((∃ l ∈ rest, l.1.kind ≠ .cisTrans ∧ l.1.a = n) ∨
        (∀ a, (n, a) ∈ (setAtomStereo m x sg).atoms → a.stereo = some s)) := by
      intro hk
      by_cases hx : x = n
      · right
        intro a ha
        have hsg : sg = s := hall _ List.mem_cons_self hk hx
        simp only [setAtomStereo, List.mem_map] at ha
        obtain ⟨⟨k', a'⟩, _, heq⟩ := ha
        by_cases hk' : (k' == x) = true
        · simp only [hk', if_true, Prod.mk.injEq] at heq
          rw [← heq.2, hsg]
        · simp only [hk', Bool.false_eq_true, if_false, Prod.mk.injEq] at heq
          have : k' = x := by rw [heq.1, hx]
          exact absurd (by simpa using this) hk'
      · rcases h with ⟨l, hl, hk', ha'⟩ | h
        · rcases List.mem_cons.mp hl with rfl | hl'
          · exact absurd ha' hx
          · exact .inl ⟨l, hl', hk', ha'⟩
        · right
          intro a ha
          simp only [setAtomStereo, List.mem_map] at ha
          obtain ⟨⟨k', a'⟩, hmem, heq⟩ := ha
          by_cases hk' : (k' == x) = true
          · simp only [hk', if_true, Prod.mk.injEq] at heq
            have : k' = x := by simpa using hk'
            exact absurd (by rw [← this, heq.1]) hx
          · simp only [hk', Bool.false_eq_true, if_false, Prod.mk.injEq] at heq
            obtain ⟨e1, e2⟩ := heq
            subst e1; subst e2
            exact h a' hmem
    cases k with
    | tetra => simpa [applyLabel] using setCase (by decide)
    | allene => simpa [applyLabel] using setCase (by decide)
    | cisTrans =>
      rcases h with ⟨l, hl, hk', ha'⟩ | h
      · rcases List.mem_cons.mp hl with rfl | hl'
        · exact absurd rfl hk'
        · exact .inl ⟨l, hl', hk', ha'⟩
      · right
        intro a ha
        exact h a (by simpa [applyLabel, setBondLabel] using ha)

theorem assoc_unique {α : Type} : ∀ (l : List (Nat × α)), (l.map (·.1)).Nodup → ∀ (n : Nat) (a b : α),
    (n, a) ∈ l → (n, b) ∈ l → a = b := by
  intro l
  induction l with
  | nil => intro _ n a b h; cases h
  | cons p rest ih =>
    intro hnd n a b h1 h2
    rw [List.map_cons, List.nodup_cons] at hnd
    obtain ⟨hp, hr⟩ := hnd
    have notin : ∀ c, (p.1, c) ∉ rest := fun c hc => hp (List.mem_map.mpr ⟨(p.1, c), hc, rfl⟩)
    rcases List.mem_cons.mp h1 with e1 | h1'
    · rcases List.mem_cons.mp h2 with e2 | h2'
      · have := e1.trans e2.symm
        exact (Prod.mk.inj this).2
      · subst e1; exact absurd h2' (notin b)
    · rcases List.mem_cons.mp h2 with e2 | h2'
      · subst e2; exact absurd h1' (notin a)
      · exact ih hr n a b h1' h2'

/-- the items `fix_stereo` sees for a molecule with distinct atom numbers: one per atom -/
theorem fixAtomsIn_unique (m : Mol) (env : StereoEnv) (al : List Nat) (hnd : m.ids.Nodup) (x y : AtomIn)
    (hx : x ∈ fixAtomsIn m env al) (hy : y ∈ fixAtomsIn m env al) (h : x.n = y.n) : x = y := by
  simp only [fixAtomsIn, List.mem_map] at hx hy
  obtain ⟨⟨n1, a1⟩, h1, rfl⟩ := hx
  obtain ⟨⟨n2, a2⟩, h2, rfl⟩ := hy
  simp only at h
  subst h
  have : a1 = a2 := assoc_unique m.atoms hnd n1 a1 a2 h1 h2
  subst this; rfl

theorem setAtomStereo_ids (m : Mol) (n : Nat) (s : Bool) : (setAtomStereo m n s).ids = m.ids := by
  simp only [Mol.ids, setAtomStereo, List.map_map]
  apply List.map_congr_left
  intro ⟨k, a⟩ _
  simp only [Function.comp_apply]
  split <;> rfl

theorem setBondLabel_ids (m : Mol) (n k : Nat) (s : Bool) : (setBondLabel m n k s).ids = m.ids := rfl

theorem moveTetra_ids (env : StereoEnv) (isH : Nat → Bool) : ∀ (tet : List (Nat × List Nat × Bool)) (m m' : Mol),
    moveTetra env isH tet m = .ok m' → m'.ids = m.ids := by
  intro tet
  induction tet with
  | nil => intro m m' h; simp only [moveTetra, Except.ok.injEq] at h; rw [h]
  | cons t rest ih =>
    intro m m' h
    obtain ⟨n, nb, s⟩ := t
    simp only [moveTetra] at h
    split at h
    · exact ih m m' h
    · split at h
      · rw [ih _ m' h, setAtomStereo_ids]
      · exact ih m m' h
      · cases h

theorem moveCisTrans_ids (env : StereoEnv) (isH : Nat → Bool) : ∀ (ct : List (Nat × Nat × Nat × Nat × Bool)) (m m' : Mol),
    moveCisTrans env isH ct m = .ok m' → m'.ids = m.ids := by
  intro ct
  induction ct with
  | nil => intro m m' h; simp only [moveCisTrans, Except.ok.injEq] at h; rw [h]
  | cons t rest ih =>
    intro m m' h
    obtain ⟨n, k, nn, nk, s⟩ := t
    simp only [moveCisTrans] at h
    split at h
    · rw [ih _ m' h, setBondLabel_ids]
    · exact ih m m' h
    · cases h

/-- a labelled adjacency entry after `setBondLabel m n k sg`: it is the bond `n–k` with `sg`, or it was labelled before -/
theorem setBondLabel_entry (m : Mol) (n k : Nat) (sg : Bool) (x : Nat) (nb : List (Nat × Bond)) (y : Nat) (b : Bond) (s : Bool)
    (hx : (x, nb) ∈ (setBondLabel m n k sg).adj) (hy : (y, b) ∈ nb) (hs : b.stereo = some s) :
    (((n = x ∧ k = y) ∨ (n = y ∧ k = x)) ∧ sg = s) ∨ (∃ nb0 b0, (x, nb0) ∈ m.adj ∧ (y, b0) ∈ nb0 ∧ b0.stereo = some s) := by
  simp only [setBondLabel, List.mem_map] at hx
  obtain ⟨⟨x0, nb0⟩, hmem, heq⟩ := hx
  have inner : ∀ t : Nat, (y, b) ∈ (nb0.map fun (yb : Nat × Bond) => if yb.1 == t then (yb.1, { yb.2 with stereo := some sg }) else (yb.1, yb.2)) →
      (t = y ∧ sg = s) ∨ (∃ b0, (y, b0) ∈ nb0 ∧ b0.stereo = some s) := by
    intro t hin
    obtain ⟨⟨y0, b0⟩, hm0, he0⟩ := List.mem_map.mp hin
    by_cases hyt : (y0 == t) = true
    · simp only [hyt, if_true, Prod.mk.injEq] at he0
      obtain ⟨e1, e2⟩ := he0
      subst e2
      simp only [Option.some.injEq] at hs
      have : y0 = t := by simpa using hyt
      exact .inl ⟨by rw [← this, e1], hs⟩
    · simp only [hyt, Bool.false_eq_true, if_false, Prod.mk.injEq] at he0
      obtain ⟨e1, e2⟩ := he0
      subst e1; subst e2
      exact .inr ⟨b0, hm0, hs⟩
  by_cases h1 : (x0 == n) = true
  · simp only [h1, if_true, Prod.mk.injEq] at heq
    obtain ⟨e1, e2⟩ := heq
    subst e1; subst e2
    have hxn : x0 = n := by simpa using h1
    rcases inner k hy with ⟨hk, hsg⟩ | ⟨b0, hb0, hs0⟩
    · exact .inl ⟨.inl ⟨hxn.symm, hk⟩, hsg⟩
    · exact .inr ⟨nb0, b0, hmem, hb0, hs0⟩
  · by_cases h2 : (x0 == k) = true
    · simp only [h1, h2, Bool.false_eq_true, if_false, if_true, Prod.mk.injEq] at heq
      obtain ⟨e1, e2⟩ := heq
      subst e1; subst e2
      have hxk : x0 = k := by simpa using h2
      rcases inner n hy with ⟨hn, hsg⟩ | ⟨b0, hb0, hs0⟩
      · exact .inl ⟨.inr ⟨hn, hxk.symm⟩, hsg⟩
      · exact .inr ⟨nb0, b0, hmem, hb0, hs0⟩
    · simp only [h1, h2, Bool.false_eq_true, if_false, Prod.mk.injEq] at heq
      obtain ⟨e1, e2⟩ := heq
      subst e1; subst e2
      exact .inr ⟨nb0, b, hmem, hy, hs⟩

/-- a bond label after writing the labels `ls` onto `m` comes from a cis-trans label of `ls` for that pair of atoms, or stood on `m` -/
theorem foldl_bond_label (ls : List Label) : ∀ (m : Mol) (x : Nat) (nb : List (Nat × Bond)) (y : Nat) (b : Bond) (s : Bool),
    (x, nb) ∈ (ls.foldl applyLabel m).adj → (y, b) ∈ nb → b.stereo = some s →
    (∃ l ∈ ls, l.1.kind = .cisTrans ∧ ((l.1.a = x ∧ l.1.b = y) ∨ (l.1.a = y ∧ l.1.b = x)) ∧ l.2 = s) ∨
    (∃ nb0 b0, (x, nb0) ∈ m.adj ∧ (y, b0) ∈ nb0 ∧ b0.stereo = some s) := by
  induction ls with
  | nil => intro m x nb y b s hx hy hs; exact .inr ⟨nb, b, hx, hy, hs⟩
  | cons l rest ih =>
    intro m x nb y b s hx hy hs
    rcases ih (applyLabel m l) x nb y b s hx hy hs with ⟨l', hl', h'⟩ | ⟨nb0, b0, hx0, hy0, hs0⟩
    · exact .inl ⟨l', List.mem_cons_of_mem _ hl', h'⟩
    · obtain ⟨⟨k, p, q⟩, sg⟩ := l
      cases k with
      | tetra => exact .inr ⟨nb0, b0, by simpa [applyLabel, setAtomStereo] using hx0, hy0, hs0⟩
      | allene => exact .inr ⟨nb0, b0, by simpa [applyLabel, setAtomStereo] using hx0, hy0, hs0⟩
      | cisTrans =>
        rcases setBondLabel_entry m p q sg x nb0 y b0 s (by simpa [applyLabel] using hx0) hy0 hs0 with ⟨hpq, hsg⟩ | h
        · exact .inl ⟨_, List.mem_cons_self, rfl, hpq, hsg⟩
        · exact .inr h

theorem clearLabels_no_bond_label (m : Mol) (x : Nat) (nb : List (Nat × Bond)) (y : Nat) (b : Bond) (s : Bool)
    (hx : (x, nb) ∈ (clearLabels m).adj) (hy : (y, b) ∈ nb) : b.stereo ≠ some s := by
  simp only [clearLabels, List.mem_map] at hx
  obtain ⟨⟨x0, nb0⟩, _, heq⟩ := hx
  simp only [Prod.mk.injEq] at heq
  obtain ⟨_, e2⟩ := heq
  subst e2
  obtain ⟨⟨y0, b0⟩, _, he⟩ := List.mem_map.mp hy
  simp only [Prod.mk.injEq] at he
  rw [← he.2]; simp

end ChythonModel.Proofs.C20
