import ChythonModel.Proofs.C03RingIff
import ChythonModel.Proofs.C03PrintShape
/-!
# C03 — the lenient grammar `atom (ringbond | branch)*` (`Spec.L`): what `parser` builds on the printing of a tree is
its denotation (`denoteChainL`)

Payload `B = A × List RingBond` as in the strict development so that its lemmas apply verbatim; the ring-list component
of a payload plays no role here (`symTokB` ignores it, `L.ring` carries the ring bonds).
-/
set_option linter.unusedSimpArgs false
namespace ChythonModel.Proofs.C03
open ChythonModel.Model.C03 ChythonModel.Spec.Smiles

theorem toToksB_printRing (rb : RingBond) : toToksB (printRing rb) = toToks (printRing rb) := by
  obtain ⟨sym, n⟩ := rb
  cases sym <;> rfl

theorem After.refl' (st : PState) (tbl : List (OpenRing B)) (hp : st.previous = none) (ho : st.opened = false)
    (hC : CycRel st.cycles tbl) (hI : PInv st) (hT : TypesOK st tbl) : After st st [] [] tbl :=
  ⟨by simp, by simp, by simp, by simp, rfl, hp, ho, hC, hI, hT⟩

/-- `link atom` (no ring bonds of its own), with all invariants of the new state -/
theorem link_atom_plain_run (st : PState) (pa a : B) (l : Link) (tbl : List (OpenRing B))
    (hR : Ready st pa.1) (hI : PInv st) (hC : CycRel st.cycles tbl) (hT : TypesOK st tbl) :
    ∃ st1, prun false st (toToksB (printLink l ++ [Sym.atom a])) = .ok st1 ∧
      After st st1 [a] (linkBonds aromB l st.atomNum st.lastNum a pa) tbl ∧ st1.lastNum = st.atomNum ∧
      Ready st1 a.1 := by
  obtain ⟨stA, eA, xA, hlA, hoA⟩ := link_atom_run st pa.1 a.1 l hR
  have hIA : PInv stA := pinv_of_run hI (by
    intro t ht
    simp only [List.mem_append, List.mem_singleton] at ht
    rcases ht with ht | rfl
    · exact toToks_noOther _ t ht
    · rfl) eA
  have hRA : Ready stA a.1 := by
    refine ⟨xA.prev, ?_, ?_, ?_, ?_⟩
    · rw [xA.atoms, xA.num]; simp [hR.alen]
    · rw [xA.types, xA.num]; simp [hR.tlen]
    · rw [hlA, xA.num]; simp
    · rw [hlA, xA.types]
      have : st.atomNum = st.types.length := hR.tlen.symm
      rw [this]; simp
  have hCA : CycRel stA.cycles tbl := by rw [xA.cycles]; exact hC
  have hTA : TypesOK stA tbl := typesOK_append st stA tbl _ xA.types hT
  refine ⟨stA, ?_, ⟨by rw [xA.atoms]; simp, by rw [xA.types]; simp, by rw [xA.bonds, linkBonds_B],
    by rw [xA.num]; simp, xA.stack, xA.prev, hoA, hCA, hIA, hTA⟩, hlA, hRA⟩
  have : toToksB (printLink l ++ [Sym.atom a]) = toToks (printLink l) ++ [symTok (.atom a.1)] := by
    have h1 := toToksB_printLink l
    simp only [toToksB, toToks] at h1
    simp [toToksB, toToks, symTokB, symTok, h1]
  rw [this]
  exact eA

/-- **simulation for the lenient grammar** -/
theorem prun_printL : ∀ (k : L B) (st : PState) (pa : B) (tbl : List (OpenRing B))
    (as : List B) (bs : List (Nat × Nat × Nat)) (tbl' : List (OpenRing B)),
    Ready st pa.1 → PInv st → st.opened = false → CycRel st.cycles tbl → TypesOK st tbl →
    denoteL aromB st.lastNum pa st.atomNum tbl k = some (as, bs, tbl') →
    ∃ st', prun false st (toToksB (printL k)) = .ok st' ∧ After st st' as bs tbl' ∧ st'.lastNum < st'.atomNum
  | .done, st, pa, tbl, as, bs, tbl', hR, hI, hop, hC, hT, hd => by
    simp only [denoteL, Option.some.injEq, Prod.mk.injEq] at hd
    obtain ⟨rfl, rfl, rfl⟩ := hd
    exact ⟨st, rfl, After.refl' st tbl hR.prev hop hC hI hT, hR.last⟩
  | .ring rb k, st, pa, tbl, as, bs, tbl', hR, hI, hop, hC, hT, hd => by
    unfold denoteL at hd
    cases h1 : ringOne aromB tbl st.lastNum pa rb with
    | none => rw [h1] at hd; cases hd
    | some p1 =>
      obtain ⟨tbl1, b1⟩ := p1
      rw [h1] at hd
      dsimp only at hd
      cases h2 : denoteL aromB st.lastNum pa st.atomNum tbl1 k with
      | none => rw [h2] at hd; cases hd
      | some p2 =>
        obtain ⟨as1, bs1, tbl2⟩ := p2
        rw [h2] at hd
        dsimp only at hd
        simp only [Option.some.injEq, Prod.mk.injEq] at hd
        obtain ⟨rfl, rfl, rfl⟩ := hd
        obtain ⟨stA, eA, fb, fa, ft, fn, fl, fs, fp, fo, fc⟩ := ring_one_run st pa rb tbl tbl1 b1 hR hI hop hC hT h1
        have hIA : PInv stA := pinv_of_run hI (toToks_noOther _) eA
        have hRA : Ready stA pa.1 := ⟨fp, by rw [fa, fn]; exact hR.alen, by rw [ft, fn]; exact hR.tlen,
          by rw [fl, fn]; exact hR.last, by rw [fl, ft]; exact hR.lty⟩
        have hTA : TypesOK stA tbl1 := by
          intro o ho
          rw [ft]
          exact ringOne_typesOK st pa rb tbl tbl1 b1 hR.lty hT h1 o ho
        have h2' : denoteL aromB stA.lastNum pa stA.atomNum tbl1 k = some (as1, bs1, tbl2) := by
          rw [fl, fn]; exact h2
        obtain ⟨st2, e2, a2, hl2⟩ := prun_printL k stA pa tbl1 as1 bs1 tbl2 hRA hIA fo fc hTA h2'
        have a1 : After st stA [] b1 tbl1 :=
          ⟨by rw [fa]; simp, by rw [ft]; simp, fb, by rw [fn]; simp, fs, fp, fo, fc, hIA, hTA⟩
        refine ⟨st2, ?_, by simpa using a1.trans a2, hl2⟩
        have : toToksB (printL (.ring rb k)) = toToks (printRing rb) ++ toToksB (printL k) := by
          have := toToksB_printRing rb
          simp only [toToksB, toToks] at this
          simp [printL, toToksB, toToks, this]
        rw [this, prun_append, eA]
        exact e2
  | .next l a k, st, pa, tbl, as, bs, tbl', hR, hI, hop, hC, hT, hd => by
    unfold denoteL at hd
    cases h2 : denoteL aromB st.atomNum a (st.atomNum + 1) tbl k with
    | none => rw [h2] at hd; cases hd
    | some p2 =>
      obtain ⟨as1, bs1, tbl2⟩ := p2
      rw [h2] at hd
      dsimp only at hd
      simp only [Option.some.injEq, Prod.mk.injEq] at hd
      obtain ⟨rfl, rfl, rfl⟩ := hd
      obtain ⟨st1, e1, a1, hl1, hR1⟩ := link_atom_plain_run st pa a l tbl hR hI hC hT
      have hn1 : st1.atomNum = st.atomNum + 1 := by rw [a1.num]; rfl
      have h2' : denoteL aromB st1.lastNum a st1.atomNum tbl k = some (as1, bs1, tbl2) := by
        rw [hl1, hn1]; exact h2
      obtain ⟨st2, e2, a2, hl2⟩ := prun_printL k st1 a tbl as1 bs1 tbl2 hR1 a1.inv a1.opened a1.cyc a1.tys h2'
      refine ⟨st2, ?_, by simpa using a1.trans a2, hl2⟩
      have : toToksB (printL (.next l a k)) = toToksB (printLink l ++ [Sym.atom a]) ++ toToksB (printL k) := by
        simp [printL, toToksB]
      rw [this, prun_append, e1]
      exact e2
  | .side l a inner k, st, pa, tbl, as, bs, tbl', hR, hI, hop, hC, hT, hd => by
    unfold denoteL at hd
    cases h2 : denoteL aromB st.atomNum a (st.atomNum + 1) tbl inner with
    | none => rw [h2] at hd; cases hd
    | some p2 =>
      obtain ⟨as1, bs1, tbl2⟩ := p2
      rw [h2] at hd
      dsimp only at hd
      cases h3 : denoteL aromB st.lastNum pa (st.atomNum + 1 + as1.length) tbl2 k with
      | none => rw [h3] at hd; cases hd
      | some p3 =>
        obtain ⟨as2, bs2, tbl3⟩ := p3
        rw [h3] at hd
        dsimp only at hd
        simp only [Option.some.injEq, Prod.mk.injEq] at hd
        obtain ⟨rfl, rfl, rfl⟩ := hd
        -- '('
        obtain ⟨st0, hst0⟩ : ∃ st0 : PState, st0 = { st with stack := st.lastNum :: st.stack, opened := true } := ⟨_, rfl⟩
        have e0 : prun false st [Tok.lpar] = .ok st0 := by
          rw [hst0]; simp [prun, pstep, hR.prev]
        have hI0 : PInv st0 := pinv_of_run hI (by intro t ht; simp at ht; subst ht; rfl) e0
        have n0 : st0.atomNum = st.atomNum := by rw [hst0]
        have l0 : st0.lastNum = st.lastNum := by rw [hst0]
        have a0 : st0.atoms = st.atoms := by rw [hst0]
        have t0 : st0.types = st.types := by rw [hst0]
        have b0 : st0.bonds = st.bonds := by rw [hst0]
        have s0 : st0.stack = st.lastNum :: st.stack := by rw [hst0]
        have c0 : st0.cycles = st.cycles := by rw [hst0]
        have hR0 : Ready st0 pa.1 := by rw [hst0]; exact ⟨hR.prev, hR.alen, hR.tlen, hR.last, hR.lty⟩
        clear hst0
        have hC0 : CycRel st0.cycles tbl := by rw [c0]; exact hC
        have hT0 : TypesOK st0 tbl := by intro o ho; rw [t0]; exact hT o ho
        obtain ⟨st1, e1, a1, hl1, hR1⟩ := link_atom_plain_run st0 pa a l tbl hR0 hI0 hC0 hT0
        have hn1 : st1.atomNum = st.atomNum + 1 := by rw [a1.num, n0]; rfl
        rw [n0] at hl1
        have h2' : denoteL aromB st1.lastNum a st1.atomNum tbl inner = some (as1, bs1, tbl2) := by
          rw [hl1, hn1]; exact h2
        obtain ⟨st2, e2, a2, _⟩ := prun_printL inner st1 a tbl as1 bs1 tbl2 hR1 a1.inv a1.opened a1.cyc a1.tys h2'
        -- ')'
        have hstack : st2.stack = st.lastNum :: st.stack := by rw [a2.stack, a1.stack, s0]
        obtain ⟨st3, hst3⟩ : ∃ st3 : PState, st3 = { st2 with lastNum := st.lastNum, stack := st.stack } := ⟨_, rfl⟩
        have e3 : prun false st2 [Tok.rpar] = .ok st3 := by
          rw [hst3]; simp [prun, pstep, a2.prev, hstack]
        have hI3 : PInv st3 := pinv_of_run a2.inv (by intro t ht; simp at ht; subst ht; rfl) e3
        have n3 : st3.atomNum = st2.atomNum := by rw [hst3]
        have l3 : st3.lastNum = st.lastNum := by rw [hst3]
        have a3 : st3.atoms = st2.atoms := by rw [hst3]
        have t3 : st3.types = st2.types := by rw [hst3]
        have b3 : st3.bonds = st2.bonds := by rw [hst3]
        have s3 : st3.stack = st.stack := by rw [hst3]
        have c3 : st3.cycles = st2.cycles := by rw [hst3]
        have p3 : st3.previous = st2.previous := by rw [hst3]
        have o3 : st3.opened = st2.opened := by rw [hst3]
        clear hst3
        have a12 := a1.trans a2
        have hnum2 : st2.atomNum = st.atomNum + 1 + as1.length := by rw [a12.num, n0]; simp; omega
        have hty2 : st2.types = st.types ++ (tyOf a.1 :: as1.map (fun b => tyOf b.1)) := by rw [a12.types, t0]; simp
        have hat2 : st2.atoms = st.atoms ++ (strip a.1 :: as1.map (fun b => strip b.1)) := by rw [a12.atoms, a0]; simp
        have hR3 : Ready st3 pa.1 := by
          refine ⟨by rw [p3]; exact a2.prev, ?_, ?_, ?_, ?_⟩
          · rw [a3, n3, hat2, hnum2]; simp [hR.alen]; omega
          · rw [t3, n3, hty2, hnum2]; simp [hR.tlen]; omega
          · rw [l3, n3, hnum2]; have := hR.last; omega
          · rw [l3, t3, hty2]; exact getElem?_append_left' _ _ _ _ hR.lty
        have hC3 : CycRel st3.cycles tbl2 := by rw [c3]; exact a2.cyc
        have hT3 : TypesOK st3 tbl2 := by intro o ho; rw [t3]; exact a2.tys o ho
        have h3' : denoteL aromB st3.lastNum pa st3.atomNum tbl2 k = some (as2, bs2, tbl3) := by
          rw [l3, n3, hnum2]; exact h3
        obtain ⟨st4, e4, a4, hl4⟩ := prun_printL k st3 pa tbl2 as2 bs2 tbl3 hR3 hI3 (by rw [o3]; exact a2.opened) hC3 hT3 h3'
        refine ⟨st4, ?_, ?_, hl4⟩
        · have : toToksB (printL (.side l a inner k)) =
              [Tok.lpar] ++ (toToksB (printLink l ++ [Sym.atom a]) ++ (toToksB (printL inner) ++
                ([Tok.rpar] ++ toToksB (printL k)))) := by
            simp [printL, toToksB, symTokB]
          rw [this, prun_append, e0]
          dsimp only
          rw [prun_append, e1]
          dsimp only
          rw [prun_append, e2]
          dsimp only
          rw [prun_append, e3]
          exact e4
        · exact ⟨by rw [a4.atoms, a3, hat2]; simp, by rw [a4.types, t3, hty2]; simp,
            by rw [a4.bonds, b3, a12.bonds, b0]; simp [l0, n0],
            by rw [a4.num, n3, hnum2]; simp; omega, by rw [a4.stack, s3], a4.prev, a4.opened, a4.cyc, a4.inv, a4.tys⟩

/-- **the parser builds exactly the denoted graph on every tree of the lenient grammar** -/
theorem parse_printL (c : ChainL B) (g : Graph B) (hd : denoteChainL aromB c = some g) :
    ∃ st, parse false (toToksB (printChainL c)) = .ok st ∧
      st.atoms = g.atoms.map (fun b => strip b.1) ∧ st.types = g.atoms.map (fun b => tyOf b.1) ∧ st.bonds = g.bonds := by
  obtain ⟨a0, k⟩ := c
  unfold denoteChainL at hd
  dsimp only at hd
  cases h1 : denoteL aromB 0 a0 1 [] k with
  | none => rw [h1] at hd; cases hd
  | some p1 =>
    obtain ⟨as, bs, tbl⟩ := p1
    rw [h1] at hd
    dsimp only at hd
    by_cases hemp : tbl.isEmpty = true
    case neg => rw [if_neg hemp] at hd; cases hd
    rw [if_pos hemp] at hd
    cases hd
    have htbl : tbl = [] := by cases tbl with
      | nil => rfl
      | cons _ _ => simp at hemp
    obtain ⟨st1, hst1⟩ : ∃ st1 : PState, pstep false {} (Tok.atom (tyOf a0.1) a0.1.2) = .ok st1 ∧
        st1.atoms = [strip a0.1] ∧ st1.types = [tyOf a0.1] ∧ st1.bonds = [] ∧ st1.atomNum = 1 ∧ st1.lastNum = 0 ∧
        st1.stack = [] ∧ st1.cycles = [] ∧ st1.previous = none ∧ st1.opened = false :=
      ⟨_, rfl, rfl, rfl, rfl, rfl, rfl, rfl, rfl, rfl, rfl⟩
    obtain ⟨e1, a1, t1, b1, n1, l1, s1, c1, p1, o1⟩ := hst1
    have hI1 : PInv st1 := by
      obtain ⟨st1', h1', hinv⟩ := first_atom_inv false (tyOf a0.1) a0.1.2 [] false (by simp)
      have : st1' = st1 := by
        have e1' : pstep false { stack := [], opened := false } (Tok.atom (tyOf a0.1) a0.1.2) = .ok st1 := e1
        rw [h1'] at e1'; cases e1'; rfl
      rw [← this]; exact hinv
    have hR1 : Ready st1 a0.1 := ⟨p1, by rw [a1, n1]; rfl, by rw [t1, n1]; rfl, by rw [l1, n1]; exact Nat.one_pos,
      by rw [l1, t1]; rfl⟩
    have hC1 : CycRel st1.cycles ([] : List (OpenRing B)) := by rw [c1]; trivial
    have hT1 : TypesOK st1 [] := by intro o ho; cases ho
    have h1' : denoteL aromB st1.lastNum a0 st1.atomNum [] k = some (as, bs, tbl) := by
      rw [l1, n1]; exact h1
    obtain ⟨st2, e2, a2, _⟩ := prun_printL k st1 a0 [] as bs tbl hR1 hI1 o1 hC1 hT1 h1'
    have hcyc : st2.cycles = [] := by
      have := a2.cyc
      rw [htbl] at this
      exact cycRel_nil_right _ this
    refine ⟨st2, ?_, ?_, ?_, ?_⟩
    · have hrun : prun false {} (toToksB (printChainL ⟨a0, k⟩)) = .ok st2 := by
        have : toToksB (printChainL ⟨a0, k⟩) = [Tok.atom (tyOf a0.1) a0.1.2] ++ toToksB (printL k) := by
          simp [printChainL, toToksB, symTokB]
        rw [this, prun_append]
        have : prun false {} [Tok.atom (tyOf a0.1) a0.1.2] = .ok st1 := by simp only [prun, e1]
        rw [this]
        exact e2
      unfold parse
      have hstart : startCheck (toToksB (printChainL ⟨a0, k⟩)) = .ok () := by
        simp [printChainL, toToksB, symTokB, startCheck, Tok.isAtom]
      rw [hstart]
      dsimp only
      rw [hrun]
      simp [endCheck, a2.stack, s1, hcyc, a2.prev]
    · rw [a2.atoms, a1]; simp
    · rw [a2.types, t1]; simp
    · rw [a2.bonds, b1]; simp

end ChythonModel.Proofs.C03
