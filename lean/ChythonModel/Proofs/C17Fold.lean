import ChythonModel.Model.Fingerprint
/-! Helper lemmas for C17: Python sets as lists, the folding loop. -/
namespace ChythonModel.Proofs.C17
open ChythonModel.Model ChythonModel.Model.Fingerprint

theorem mem_toSet {α : Type} [DecidableEq α] {a : α} {l : List α} : a ∈ toSet l ↔ a ∈ l := by
  induction l with
  | nil => simp [toSet]
  | cons b l ih =>
    simp only [toSet]
    split
    · rename_i h
      constructor
      · intro h'; exact List.mem_cons_of_mem _ (ih.mp h')
      · intro h'
        rcases List.mem_cons.mp h' with rfl | h''
        · exact h
        · exact ih.mpr h''
    · simp [ih]

theorem nodup_toSet {α : Type} [DecidableEq α] (l : List α) : (toSet l).Nodup := by
  induction l with
  | nil => simp [toSet]
  | cons b l ih =>
    simp only [toSet]
    split
    · exact ih
    · rename_i h; exact List.nodup_cons.mpr ⟨h, ih⟩

theorem mem_setAdd {α : Type} [DecidableEq α] {s : List α} {a b : α} : b ∈ setAdd s a ↔ b ∈ s ∨ b = a := by
  unfold setAdd
  split
  · rename_i h
    constructor
    · exact Or.inl
    · rintro (h' | rfl)
      · exact h'
      · exact h
  · simp

theorem nodup_setAdd {α : Type} [DecidableEq α] {s : List α} {a : α} (h : s.Nodup) : (setAdd s a).Nodup := by
  unfold setAdd
  split
  · exact h
  · rename_i hn
    rw [List.nodup_append]
    refine ⟨h, by simp, ?_⟩
    intro x hx y hy
    simp at hy
    subst hy
    intro e; subst e; exact hn hx

theorem pyAndMask_le (h : Int) (mask : Nat) : pyAndMask h mask ≤ mask := Nat.and_le_right

theorem width_ge (k : Nat) : k ≤ (2 ^ k - 1).log2 + 1 := by
  cases k with
  | zero => omega
  | succ k =>
    have hp : 0 < 2 ^ k := Nat.two_pow_pos k
    have h2 : 2 ^ (k + 1) = 2 * 2 ^ k := by rw [Nat.pow_succ]; omega
    have hne : 2 ^ (k + 1) - 1 ≠ 0 := by omega
    have hiff := Nat.log2_lt (n := 2 ^ (k+1) - 1) (k := k) hne
    have h3 : ¬ (2 ^ (k + 1) - 1 < 2 ^ k) := by omega
    have : ¬ ((2 ^ (k + 1) - 1).log2 < k) := fun h => h3 (hiff.mp h)
    omega

/-- for `mask = 2^k − 1` the index is the residue of `h` modulo `2^k` (the low `k` bits in two's complement) -/
theorem pyAndMask_pow (h : Int) (k : Nat) : (pyAndMask h (2 ^ k - 1) : Int) = h % (2 ^ k : Int) := by
  unfold pyAndMask
  rw [Nat.and_two_pow_sub_one_eq_mod]
  generalize hw : (2 ^ k - 1).log2 + 1 = w
  have hkw : k ≤ w := by rw [← hw]; exact width_ge k
  have hpos : (0 : Int) < 2 ^ w := Int.pow_pos (by omega)
  have hnn : 0 ≤ h % (2 ^ w : Int) := Int.emod_nonneg _ (by omega)
  rw [Int.natCast_emod, Int.toNat_of_nonneg hnn]
  have : ((2 ^ k : Nat) : Int) = (2 : Int) ^ k := by simp
  rw [this]
  apply Int.emod_emod_of_dvd
  exact ⟨2 ^ (w - k), by rw [← Int.pow_add]; congr 1; omega⟩

theorem mem_shiftLoop (log mask : Nat) (k : Nat) (tpl : Int) (b : Nat) :
    b ∈ shiftLoop log mask k tpl ↔ ∃ j, 1 ≤ j ∧ j ≤ k ∧ b = pyAndMask (tpl >>> (j * log)) mask := by
  induction k generalizing tpl with
  | zero => simp [shiftLoop]; intro j h1 h2; omega
  | succ k ih =>
    simp only [shiftLoop, List.mem_cons, ih]
    constructor
    · rintro (rfl | ⟨j, h1, h2, rfl⟩)
      · exact ⟨1, by omega, by omega, by simp⟩
      · refine ⟨j + 1, by omega, by omega, ?_⟩
        rw [← Int.shiftRight_add, Nat.add_mul, Nat.one_mul, Nat.add_comm]
    · rintro ⟨j, h1, h2, rfl⟩
      by_cases hj : j = 1
      · subst hj; left; simp
      · right
        refine ⟨j - 1, by omega, by omega, ?_⟩
        rw [← Int.shiftRight_add]
        congr 2
        have : j = (j - 1) + 1 := by omega
        conv => lhs; rw [this, Nat.add_mul, Nat.one_mul, Nat.add_comm]

theorem mem_bitsOfHash (length : Nat) (nab : Int) (tpl : Int) (b : Nat) :
    b ∈ bitsOfHash length nab tpl ↔
      ∃ j : Nat, (j = 0 ∨ (j : Int) < nab) ∧ b = pyAndMask (tpl >>> (j * pyLog2Trunc length)) (length - 1) := by
  unfold bitsOfHash
  simp only [List.mem_cons]
  constructor
  · rintro (rfl | h)
    · exact ⟨0, Or.inl rfl, by simp⟩
    · split at h
      · rename_i h2
        simp at h
        exact ⟨1, Or.inr (by omega), by simpa using h⟩
      · split at h
        · rename_i h2 h3
          rw [mem_shiftLoop] at h
          obtain ⟨j, h1, hk, rfl⟩ := h
          exact ⟨j, Or.inr (by omega), rfl⟩
        · simp at h
  · rintro ⟨j, hj, rfl⟩
    by_cases h0 : j = 0
    · subst h0; left; simp
    · right
      have hj' : (j : Int) < nab := by rcases hj with h | h; exact absurd h h0; exact h
      split
      · rename_i h2
        have : j = 1 := by omega
        subst this; simp
      · split
        · rw [mem_shiftLoop]; exact ⟨j, by omega, by omega, rfl⟩
        · omega

/-! ## `int(log2(length))` -/

theorem pyLog2Trunc_of_none (n : Nat)
    (h : ∀ kt ∈ Gen.C17.log2RoundsUpFrom, ¬ (kt.2 ≤ n ∧ n < 2 ^ kt.1)) : pyLog2Trunc n = n.log2 := by
  unfold pyLog2Trunc
  have : Gen.C17.log2RoundsUpFrom.find? (fun kt => decide (kt.2 ≤ n) && decide (n < 2 ^ kt.1)) = none := by
    rw [List.find?_eq_none]
    intro kt hk
    have := h kt hk
    simpa using this
  rw [this]

theorem pyLog2Trunc_pow_of (k : Nat) (htab : ∀ kt ∈ Gen.C17.log2RoundsUpFrom, 2 ^ (kt.1 - 1) < kt.2) :
    pyLog2Trunc (2 ^ k) = k := by
  rw [pyLog2Trunc_of_none, Nat.log2_two_pow]
  rintro kt hk ⟨h1, h2⟩
  have hlt : k < kt.1 := (Nat.pow_lt_pow_iff_right (by omega)).mp h2
  have : 2 ^ k ≤ 2 ^ (kt.1 - 1) := Nat.pow_le_pow_right (by omega) (by omega)
  have := htab kt hk
  omega

/-! ## cardinalities -/

theorem length_toSet_le {α : Type} [DecidableEq α] : ∀ (l : List α), (toSet l).length ≤ l.length
  | [] => Nat.le_refl _
  | a :: l => by
    have ih := length_toSet_le l
    simp only [toSet]
    split
    · simp only [List.length_cons]; omega
    · simp only [List.length_cons]; omega

theorem length_flatMap_le {α β : Type} (f : α → List β) (c : Nat) :
    ∀ (l : List α), (∀ a ∈ l, (f a).length ≤ c) → (l.flatMap f).length ≤ l.length * c
  | [], _ => by simp
  | a :: l, h => by
    have ih := length_flatMap_le f c l (fun b hb => h b (List.mem_cons_of_mem _ hb))
    have h0 := h a (List.mem_cons_self ..)
    simp only [List.flatMap_cons, List.length_append, List.length_cons, Nat.add_mul, Nat.one_mul]
    omega

theorem length_shiftLoop (log mask : Nat) : ∀ (k : Nat) (tpl : Int), (shiftLoop log mask k tpl).length = k
  | 0, _ => rfl
  | k + 1, tpl => by simp [shiftLoop, length_shiftLoop log mask k]

theorem length_bitsOfHash_le (length : Nat) (nab : Int) (tpl : Int) :
    (bitsOfHash length nab tpl).length ≤ max 1 nab.toNat := by
  unfold bitsOfHash
  simp only [List.length_cons]
  split
  · rename_i h; subst h; simp
  · split
    · rw [length_shiftLoop]; omega
    · simp; omega

end ChythonModel.Proofs.C17
