import ChythonModel.Model.C06Rings
import Mathlib.Data.List.GetD
import Mathlib.Data.List.Nodup
/-!
# `_canonic_ring` (model: `Model.C06.canonicRing`) puts a simple ring into a canonical form

* `canonic_ring_spec_proof` — on a duplicate-free ring of length ≥ 3 the result exists, is a rotation or a
  reversed rotation of the input, starts at the minimum and its second element is smaller than its last;
* `canonic_ring_invariant_proof` — the result does not depend on the start position / direction in which the
  ring is written;
* `canonic_ring_raises` — the two error branches.

Route: write the ring as `A ++ m :: B` with `m` the minimum. All six return statements of the Python collapse to
`m :: L` or `m :: L.reverse` with `L = B ++ A` (`canonicRing_split`), chosen by comparing the two ends of `L`.
A rotation of the ring keeps `L`, the reversal of the ring reverses `L` (`Core`), and on a duplicate-free `L` of
length ≥ 2 the choice made for `L.reverse` is the opposite one (`pick_reverse`).
-/
namespace ChythonModel.Proofs.C06
open ChythonModel.Model.C06

/-- `c` is `r` read from some start position in one of the two directions -/
def IsDihedral (r c : List Nat) : Prop :=
  ∃ k, k < r.length ∧ (c = r.drop k ++ r.take k ∨ c = (r.drop k ++ r.take k).reverse)

/-! ## `minOf` -/

theorem foldl_min_le (xs : List Nat) (a : Nat) :
    xs.foldl min a ≤ a ∧ (∀ x ∈ xs, xs.foldl min a ≤ x) ∧ (xs.foldl min a = a ∨ xs.foldl min a ∈ xs) := by
  induction xs generalizing a with
  | nil => simp
  | cons y ys ih =>
    obtain ⟨h1, h2, h3⟩ := ih (min a y)
    simp only [List.foldl_cons, List.mem_cons, forall_eq_or_imp]
    refine ⟨by omega, ⟨by omega, h2⟩, ?_⟩
    rcases h3 with h3 | h3
    · rw [h3]
      rcases Nat.le_total a y with h | h
      · left; omega
      · right; left; omega
    · right; right; exact h3

theorem minOf_eq_some_iff (r : List Nat) (m : Nat) :
    minOf r = some m ↔ m ∈ r ∧ ∀ x ∈ r, m ≤ x := by
  cases r with
  | nil => simp [minOf]
  | cons a xs =>
    obtain ⟨h1, h2, h3⟩ := foldl_min_le xs a
    simp only [minOf, Option.some.injEq, List.mem_cons, forall_eq_or_imp]
    constructor
    · rintro rfl
      exact ⟨h3, h1, h2⟩
    · rintro ⟨hm, hle, hall⟩
      rcases h3 with h3 | h3
      · rcases hm with hm | hm
        · omega
        · have := h2 m hm; omega
      · have := hall _ h3
        rcases hm with hm | hm
        · omega
        · have := h2 m hm; omega

theorem minOf_isSome (r : List Nat) (h : r ≠ []) : ∃ m, minOf r = some m := by
  cases r with
  | nil => exact absurd rfl h
  | cons a xs => exact ⟨_, rfl⟩

theorem minOf_perm {r r' : List Nat} (h : r'.Perm r) (m : Nat) (hm : minOf r = some m) : minOf r' = some m := by
  rw [minOf_eq_some_iff] at hm ⊢
  exact ⟨h.mem_iff.mpr hm.1, fun x hx => hm.2 x (h.mem_iff.mp hx)⟩

/-! ## the six return statements are two -/

/-- the element of `{m :: L, m :: L.reverse}` whose second element is the smaller end of `L` -/
def pick (m : Nat) (L : List Nat) : List Nat :=
  if L.getD 0 0 ≤ L.getD (L.length - 1) 0 then m :: L else m :: L.reverse

theorem idxOf_split (A B : List Nat) (m : Nat) (h : m ∉ A) : (A ++ m :: B).idxOf m = A.length := by
  simp [List.idxOf_append, h]

theorem take_split (A B : List Nat) (m : Nat) : (A ++ m :: B).take (A.length + 1) = A ++ [m] := by
  have : A ++ m :: B = (A ++ [m]) ++ B := by simp
  rw [this, List.take_left' (by simp)]

theorem drop_split (A B : List Nat) (m : Nat) : (A ++ m :: B).drop (A.length + 1) = B := by
  have : A ++ m :: B = (A ++ [m]) ++ B := by simp
  rw [this, List.drop_left' (by simp)]

theorem canonicRing_split (A B : List Nat) (m : Nat) (hA : m ∉ A) (hmin : minOf (A ++ m :: B) = some m)
    (hlen : 1 ≤ A.length + B.length) : canonicRing (A ++ m :: B) = some (pick m (B ++ A)) := by
  unfold canonicRing
  rw [hmin]
  simp only [idxOf_split A B m hA, List.length_append, List.length_cons, beq_iff_eq]
  rw [if_neg (by omega)]
  by_cases hA0 : A.length = 0
  · -- ndx = 0
    have hA' : A = [] := List.eq_nil_of_length_eq_zero hA0
    subst hA'
    have hB : 1 ≤ B.length := by simpa using hlen
    simp only [pick, List.nil_append, List.append_nil, List.length_nil, if_true, List.drop_succ_cons,
      List.drop_zero, Nat.zero_add, Nat.add_sub_cancel, List.getD_cons_succ]
    have e : (m :: B).getD B.length 0 = B.getD (B.length - 1) 0 := by
      obtain ⟨n, hn⟩ : ∃ n, B.length = n + 1 := ⟨B.length - 1, by omega⟩
      rw [hn, List.getD_cons_succ, Nat.add_sub_cancel]
    rw [e]
    by_cases h : B.getD (B.length - 1) 0 < B.getD 0 0
    · rw [if_pos h, if_neg (by omega)]
    · rw [if_neg h, if_pos (by omega)]
  · rw [if_neg hA0]
    have e0 : (A ++ m :: B).getD (A.length - 1) 0 = A.getD (A.length - 1) 0 :=
      List.getD_append _ _ _ _ (by omega)
    by_cases hB0 : B.length = 0
    · -- ndx = len - 1
      have hB' : B = [] := List.eq_nil_of_length_eq_zero hB0
      subst hB'
      simp only [pick, List.nil_append, List.length_nil, Nat.zero_add, Nat.add_sub_cancel, if_true,
        List.reverse_append, List.reverse_cons, List.reverse_nil, List.singleton_append,
        List.dropLast_concat] at e0 ⊢
      have e1 : (A ++ [m]).getD 0 0 = A.getD 0 0 := List.getD_append _ _ _ _ (by omega)
      have e2 : A.length + 1 - 2 = A.length - 1 := by omega
      rw [e1, e2, e0]
      by_cases h : A.getD 0 0 > A.getD (A.length - 1) 0
      · rw [if_pos h, if_neg (by omega)]
      · rw [if_neg h, if_pos (by omega)]
    · rw [if_neg (by omega)]
      have e1 : (A ++ m :: B).getD (A.length + 1) 0 = B.getD 0 0 := by
        rw [List.getD_append_right _ _ _ _ (by omega)]
        simp
      have e3 : (B ++ A).getD 0 0 = B.getD 0 0 := List.getD_append _ _ _ _ (by omega)
      have e4 : (B ++ A).getD (B.length + A.length - 1) 0 = A.getD (A.length - 1) 0 := by
        rw [List.getD_append_right _ _ _ _ (by omega)]
        congr 1; omega
      simp only [pick, List.length_append, e0, e1, e3, e4, take_split, drop_split, List.drop_left,
        List.take_left, List.reverse_append, List.reverse_cons, List.reverse_nil, List.nil_append,
        List.cons_append]
      by_cases h : B.getD 0 0 > A.getD (A.length - 1) 0
      · rw [if_pos h, if_neg (by omega)]
      · rw [if_neg h, if_pos (by omega)]

/-! ## `pick` -/

theorem pick_head (m : Nat) (L : List Nat) : (pick m L).head? = some m := by
  unfold pick; split <;> rfl

theorem ends_ne (L : List Nat) (hnd : L.Nodup) (h2 : 2 ≤ L.length) : L.getD 0 0 ≠ L.getD (L.length - 1) 0 := by
  rw [List.getD_eq_getElem _ _ (by omega), List.getD_eq_getElem _ _ (by omega)]
  intro h
  have := (hnd.getElem_inj_iff).mp h
  omega

theorem pick_lt (m : Nat) (L : List Nat) (hnd : L.Nodup) (h2 : 2 ≤ L.length) :
    (pick m L).getD 1 0 < (pick m L).getD ((pick m L).length - 1) 0 := by
  have hne := ends_ne L hnd h2
  obtain ⟨n, hn⟩ : ∃ n, L.length = n + 1 := ⟨L.length - 1, by omega⟩
  unfold pick
  split
  · rename_i h
    simp only [List.length_cons, Nat.add_sub_cancel, List.getD_cons_succ, hn] at h hne ⊢
    omega
  · rename_i h
    have e1 : L.reverse.getD 0 0 = L.getD (L.length - 1) 0 := by
      rw [List.getD_reverse 0 (by omega)]; rfl
    have e2 : L.reverse.getD n 0 = L.getD 0 0 := by
      rw [List.getD_reverse n (by omega)]; congr 1; omega
    simp only [List.length_cons, List.length_reverse, Nat.add_sub_cancel, List.getD_cons_succ, hn, e1, e2]
      at h hne ⊢
    omega

theorem pick_reverse (m : Nat) (L : List Nat) (hnd : L.Nodup) (h2 : 2 ≤ L.length) :
    pick m L.reverse = pick m L := by
  have hne := ends_ne L hnd h2
  have e1 : L.reverse.getD 0 0 = L.getD (L.length - 1) 0 := by
    rw [List.getD_reverse 0 (by omega)]; rfl
  have e2 : L.reverse.getD (L.length - 1) 0 = L.getD 0 0 := by
    rw [List.getD_reverse _ (by omega)]; congr 1; omega
  unfold pick
  rw [List.length_reverse, e1, e2, List.reverse_reverse]
  by_cases h : L.getD 0 0 ≤ L.getD (L.length - 1) 0
  · rw [if_pos h, if_neg (by omega)]
  · rw [if_neg h, if_pos (by omega)]

/-! ## `IsDihedral` through splittings `r = X ++ Y` -/

theorem isDihedral_split (X Y : List Nat) (h : X ++ Y ≠ []) :
    IsDihedral (X ++ Y) (Y ++ X) ∧ IsDihedral (X ++ Y) (Y ++ X).reverse := by
  by_cases hY : Y = []
  · subst hY
    have hX : 0 < X.length := by
      rcases X with _ | ⟨x, X⟩
      · simp at h
      · simp
    constructor
    · exact ⟨0, by simpa using hX, Or.inl (by simp)⟩
    · exact ⟨0, by simpa using hX, Or.inr (by simp)⟩
  · have hlt : X.length < (X ++ Y).length := by
      have : 0 < Y.length := List.length_pos_iff.mpr hY
      simp only [List.length_append]; omega
    constructor
    · exact ⟨X.length, hlt, Or.inl (by rw [List.drop_left, List.take_left])⟩
    · exact ⟨X.length, hlt, Or.inr (by rw [List.drop_left, List.take_left])⟩

theorem IsDihedral.split {r c : List Nat} (h : IsDihedral r c) :
    ∃ X Y, r = X ++ Y ∧ (c = Y ++ X ∨ c = (Y ++ X).reverse) := by
  obtain ⟨k, _, hk⟩ := h
  exact ⟨r.take k, r.drop k, (List.take_append_drop k r).symm, hk⟩

theorem IsDihedral.perm {r c : List Nat} (h : IsDihedral r c) : c.Perm r := by
  obtain ⟨X, Y, rfl, hc | hc⟩ := h.split
  · subst hc; exact List.perm_append_comm
  · subst hc; exact (List.reverse_perm _).trans List.perm_append_comm

/-! ## the ring as `A ++ m :: B`; `L = B ++ A` is what is left after cutting the ring open at `m` -/

def Core (r : List Nat) (m : Nat) (L : List Nat) : Prop := ∃ A B, r = A ++ m :: B ∧ B ++ A = L

theorem core_nodup {r : List Nat} {m : Nat} {L : List Nat} (hc : Core r m L) (hnd : r.Nodup) :
    m ∉ L ∧ L.Nodup ∧ r.length = L.length + 1 := by
  obtain ⟨A, B, rfl, rfl⟩ := hc
  have hp : (A ++ m :: B).Perm (m :: (B ++ A)) :=
    List.perm_middle.trans (List.Perm.cons m List.perm_append_comm)
  have := (hp.nodup_iff).mp hnd
  rw [List.nodup_cons] at this
  refine ⟨this.1, this.2, ?_⟩
  simp only [List.length_append, List.length_cons]; omega

theorem canonicRing_core {r : List Nat} {m : Nat} {L : List Nat} (hc : Core r m L) (hnd : r.Nodup)
    (hmin : minOf r = some m) (h2 : 2 ≤ r.length) : canonicRing r = some (pick m L) := by
  obtain ⟨hm, _, hl⟩ := core_nodup hc hnd
  obtain ⟨A, B, rfl, rfl⟩ := hc
  refine canonicRing_split A B m (fun h => hm (List.mem_append_right _ h)) hmin ?_
  simp only [List.length_append, List.length_cons] at h2; omega

theorem core_exists (r : List Nat) (m : Nat) (hmin : minOf r = some m) : ∃ L, Core r m L := by
  obtain ⟨A, B, h⟩ := List.append_of_mem ((minOf_eq_some_iff r m).mp hmin).1
  exact ⟨B ++ A, A, B, h, rfl⟩

theorem core_rot (X Y : List Nat) (m : Nat) (L : List Nat) (h : Core (X ++ Y) m L) : Core (Y ++ X) m L := by
  obtain ⟨A, B, hr, rfl⟩ := h
  rcases List.append_eq_append_iff.mp hr with ⟨as, rfl, rfl⟩ | ⟨bs, rfl, hY⟩
  · -- the cut is inside `Y`
    exact ⟨as, B ++ X, by simp, by simp⟩
  · rcases bs with _ | ⟨b, bs⟩
    · rw [List.nil_append] at hY
      subst hY
      exact ⟨[], B ++ A, by simp, by simp⟩
    · rw [List.cons_append, List.cons.injEq] at hY
      obtain ⟨rfl, rfl⟩ := hY
      exact ⟨Y ++ A, bs, by simp, by simp⟩

theorem core_rev (r : List Nat) (m : Nat) (L : List Nat) (h : Core r m L) : Core r.reverse m L.reverse := by
  obtain ⟨A, B, rfl, rfl⟩ := h
  exact ⟨B.reverse, A.reverse, by simp, by simp⟩

theorem core_dihedral {r c : List Nat} {m : Nat} {L : List Nat} (h : IsDihedral r c) (hc : Core r m L) :
    Core c m L ∨ Core c m L.reverse := by
  obtain ⟨X, Y, rfl, rfl | rfl⟩ := h.split
  · exact Or.inl (core_rot X Y m L hc)
  · exact Or.inr (core_rev _ m L (core_rot X Y m L hc))

theorem pick_dihedral {r : List Nat} {m : Nat} {L : List Nat} (hc : Core r m L) : IsDihedral r (pick m L) := by
  obtain ⟨A, B, rfl, rfl⟩ := hc
  unfold pick
  split
  · exact (isDihedral_split A (m :: B) (by simp)).1
  · have h := (isDihedral_split (A ++ [m]) B (by simp)).2
    simpa using h

/-! ## the theorems -/

/-- on a simple ring the result exists, is the same cyclic sequence up to rotation/reflection, starts at the
minimum and its second element is smaller than its last -/
theorem canonic_ring_spec_proof (r : List Nat) (h3 : 3 ≤ r.length) (hnd : r.Nodup) :
    ∃ c, canonicRing r = some c ∧ IsDihedral r c ∧ c.head? = minOf r ∧
      c.getD 1 0 < c.getD (c.length - 1) 0 := by
  obtain ⟨m, hmin⟩ := minOf_isSome r (by rintro rfl; simp at h3)
  obtain ⟨L, hc⟩ := core_exists r m hmin
  obtain ⟨_, hL, hl⟩ := core_nodup hc hnd
  exact ⟨pick m L, canonicRing_core hc hnd hmin (by omega), pick_dihedral hc, by rw [hmin, pick_head],
    pick_lt m L hL (by omega)⟩

/-- the canonical form does not depend on where and in which direction the ring is written -/
theorem canonic_ring_invariant_proof (r r' : List Nat) (h3 : 3 ≤ r.length) (hnd : r.Nodup)
    (h : IsDihedral r r') : canonicRing r' = canonicRing r := by
  obtain ⟨m, hmin⟩ := minOf_isSome r (by rintro rfl; simp at h3)
  obtain ⟨L, hc⟩ := core_exists r m hmin
  obtain ⟨_, hL, hl⟩ := core_nodup hc hnd
  have hp := h.perm
  have hnd' : r'.Nodup := hp.nodup_iff.mpr hnd
  have hmin' := minOf_perm hp m hmin
  have hlen' : 2 ≤ r'.length := by rw [hp.length_eq]; omega
  rw [canonicRing_core hc hnd hmin (by omega)]
  rcases core_dihedral h hc with hc' | hc'
  · exact canonicRing_core hc' hnd' hmin' hlen'
  · rw [canonicRing_core hc' hnd' hmin' hlen', pick_reverse m L hL (by omega)]

/-- error branches: Python raises on the empty tuple (min of empty) and on a 1-tuple (ring[1]) -/
theorem canonic_ring_raises : canonicRing [] = none ∧ ∀ x, canonicRing [x] = none :=
  ⟨rfl, fun _ => rfl⟩

/-- the hypotheses and conclusions on a concrete ring -/
example : canonicRing [5, 3, 9, 1, 7] = some [1, 7, 5, 3, 9] ∧ 3 ≤ [5, 3, 9, 1, 7].length ∧
    [5, 3, 9, 1, 7].Nodup ∧ minOf [5, 3, 9, 1, 7] = some 1 ∧
    canonicRing [3, 5, 7, 1, 9] = some [1, 7, 5, 3, 9] := by decide

/-- `[3, 5, 7, 1, 9]` is `[5, 3, 9, 1, 7]` read backwards from position 2: the invariance theorem applies -/
example : canonicRing [3, 5, 7, 1, 9] = canonicRing [5, 3, 9, 1, 7] :=
  canonic_ring_invariant_proof _ _ (by decide) (by decide) ⟨2, by decide, Or.inr (by decide)⟩

end ChythonModel.Proofs.C06
