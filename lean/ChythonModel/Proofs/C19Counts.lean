import ChythonModel.Proofs.C19Ops
/-!
# C19 — the counters `used` / `fill` of the int-set model are the numbers of stored keys / of non-virgin slots
-/
namespace ChythonModel.Py.IntSet

def isActive : Slot → Bool
  | .active _ => true
  | _ => false

def isFilled : Slot → Bool
  | .empty => false
  | _ => true

def nActive (t : Array Slot) : Nat := t.toList.countP isActive
def nFill (t : Array Slot) : Nat := t.toList.countP isFilled

/-- `used` and `fill` count what CPython says they count -/
def Counts (s : IntSet) : Prop := s.used = nActive s.table ∧ s.fill = nFill s.table

theorem toList_get {t : Array Slot} {j : Nat} {a : Slot} (h : t[j]? = some a) :
    ∃ hj : j < t.toList.length, t.toList[j] = a := by
  have hsz := lt_size_of_get h
  refine ⟨by simpa using hsz, ?_⟩
  rw [Array.getElem?_eq_getElem hsz] at h
  simpa using h

theorem count_set! (p : Slot → Bool) {t : Array Slot} {j : Nat} {a : Slot} (v : Slot) (h : t[j]? = some a) :
    (t.set! j v).toList.countP p = (t.toList.countP p - if p a then 1 else 0) + if p v then 1 else 0 := by
  obtain ⟨hj, e⟩ := toList_get h
  simp only [Array.set!_eq_setIfInBounds, Array.toList_setIfInBounds]
  rw [List.countP_set hj, e]

theorem count_pos (p : Slot → Bool) {t : Array Slot} {j : Nat} {a : Slot} (h : t[j]? = some a) (hp : p a = true) :
    0 < t.toList.countP p := by
  obtain ⟨hj, e⟩ := toList_get h
  exact List.countP_pos_iff.2 ⟨a, e ▸ List.getElem_mem hj, hp⟩

theorem counts_fill_empty {t : Array Slot} {j : Nat} (k : Int) (h : t[j]? = some Slot.empty) :
    nActive (t.set! j (.active k)) = nActive t + 1 ∧ nFill (t.set! j (.active k)) = nFill t + 1 := by
  unfold nActive nFill
  rw [count_set! _ _ h, count_set! _ _ h]
  simp [isActive, isFilled]

theorem counts_fill_dummy {t : Array Slot} {j : Nat} (k : Int) (h : t[j]? = some Slot.dummy) :
    nActive (t.set! j (.active k)) = nActive t + 1 ∧ nFill (t.set! j (.active k)) = nFill t := by
  have p := count_pos isFilled h rfl
  unfold nActive nFill
  rw [count_set! _ _ h, count_set! _ _ h]
  simp only [isActive, isFilled, if_true, Bool.false_eq_true, if_false]
  omega

theorem counts_set_dummy {t : Array Slot} {j : Nat} {k : Int} (h : t[j]? = some (Slot.active k)) :
    nActive (t.set! j .dummy) + 1 = nActive t ∧ nFill (t.set! j .dummy) = nFill t := by
  have p1 := count_pos isActive h rfl
  have p2 := count_pos isFilled h rfl
  unfold nActive nFill
  rw [count_set! _ _ h, count_set! _ _ h]
  simp only [isActive, isFilled, if_true, Bool.false_eq_true, if_false]
  omega

theorem activeKeys_length (t : Array Slot) : (activeKeys t).length = nActive t := by
  unfold activeKeys nActive
  rw [List.length_filterMap_eq_countP]
  congr 1
  funext a
  cases a <;> rfl

theorem not_mem_of_nActive_zero {t : Array Slot} (h : nActive t = 0) (x : Int) : ¬ Mem t x := by
  rintro ⟨j, hj⟩
  have := count_pos isActive hj rfl
  unfold nActive at h
  omega

theorem all_empty_of_nFill_zero {t : Array Slot} (h : nFill t = 0) {j : Nat} {a : Slot} (hj : t[j]? = some a) :
    a = Slot.empty := by
  cases a
  · rfl
  · have := count_pos isFilled hj rfl; unfold nFill at h; omega
  · have := count_pos isFilled hj rfl; unfold nFill at h; omega

theorem nActive_emptyTable (n : Nat) : nActive (emptyTable n) = 0 := by
  unfold nActive emptyTable
  simp [List.countP_replicate, isActive]

theorem nFill_emptyTable (n : Nat) : nFill (emptyTable n) = 0 := by
  unfold nFill emptyTable
  simp [List.countP_replicate, isFilled]

theorem insertClean_counts {t t' : Array Slot} {k : Int} (hi : insertClean t k = some t') :
    nActive t' = nActive t + 1 ∧ nFill t' = nFill t + 1 := by
  unfold insertClean at hi
  split at hi
  · simp at hi
  · rename_i j hl
    simp only [Option.some.injEq] at hi
    subst hi
    have he : t[j]? = some Slot.empty := by
      generalize fuelFor (t.size - 1) = f at hl
      generalize PS.start (t.size - 1) k = s at hl
      induction f generalizing s with
      | zero => simp [lookEmpty] at hl
      | succ f ih =>
        rcases slot_cases k t[s.idx]? with he | he | he | ⟨k', _, he⟩ | he
        · rw [lookEmpty_none _ _ _ _ he] at hl; simp at hl
        · rw [lookEmpty_empty _ _ _ _ he] at hl; simp at hl; subst hl; exact he
        · rw [lookEmpty_active _ _ _ _ he] at hl; exact ih _ hl
        · rw [lookEmpty_active _ _ _ _ he] at hl; exact ih _ hl
        · rw [lookEmpty_dummy _ _ _ _ he] at hl; exact ih _ hl
    exact counts_fill_empty k he

theorem insertCleanAll_counts : ∀ (ks : List Int) {t t' : Array Slot}, insertCleanAll t ks = some t' →
    nActive t' = nActive t + ks.length ∧ nFill t' = nFill t + ks.length := by
  intro ks
  induction ks with
  | nil => intro t t' h; simp [insertCleanAll] at h; subst h; simp
  | cons k ks ih =>
    intro t t' h
    unfold insertCleanAll at h
    split at h
    · simp at h
    · rename_i t1 h1
      obtain ⟨a1, a2⟩ := insertClean_counts h1
      obtain ⟨b1, b2⟩ := ih h
      simp only [List.length_cons]
      omega

theorem resize_counts {s s' : IntSet} {m : Nat} (h : Counts s) (hr : s.resize m = some s') : Counts s' := by
  unfold IntSet.resize at hr
  simp only at hr
  split at hr
  · simp at hr; subst hr; exact h
  · split at hr
    · simp at hr
    · rename_i t ht
      simp at hr
      subst hr
      obtain ⟨a1, a2⟩ := insertCleanAll_counts _ ht
      rw [nActive_emptyTable, activeKeys_length] at a1
      rw [nFill_emptyTable, activeKeys_length] at a2
      have := h.1
      exact ⟨(by omega : s.used = nActive t), (by omega : s.used = nFill t)⟩

theorem add_counts {s s' : IntSet} {k : Int} (h : Counts s) (ha : s.add k = some s') : Counts s' := by
  unfold IntSet.add at ha
  split at ha
  · simp at ha
  · simp at ha; subst ha; exact h
  · rename_i f0 j hs
    simp at ha; subst ha
    obtain ⟨_, _, h3⟩ := addScan_slot hs
    rcases h3 with h3 | ⟨f1, h3, h4, _⟩
    · simp at h3
    · simp at h3; subst h3
      obtain ⟨a1, a2⟩ := counts_fill_dummy k h4
      obtain ⟨c1, c2⟩ := h
      exact ⟨(congrArg (· + 1) c1).trans a1.symm, c2.trans a2.symm⟩
  · rename_i j hs
    obtain ⟨_, h2, _⟩ := addScan_slot hs
    have hc : Counts { s with table := s.table.set! j (.active k), fill := s.fill + 1, used := s.used + 1 } := by
      obtain ⟨a1, a2⟩ := counts_fill_empty k h2
      obtain ⟨c1, c2⟩ := h
      exact ⟨(congrArg (· + 1) c1).trans a1.symm, (congrArg (· + 1) c2).trans a2.symm⟩
    simp only at ha
    split at ha
    · simp at ha; subst ha; exact hc
    · exact resize_counts hc ha

theorem set_dummy_counts {s : IntSet} {j : Nat} {k : Int} (h : Counts s) (hj : s.table[j]? = some (Slot.active k)) :
    Counts { s with table := s.table.set! j .dummy, used := s.used - 1 } := by
  obtain ⟨a1, a2⟩ := counts_set_dummy hj
  obtain ⟨c1, c2⟩ := h
  exact ⟨(by omega : s.used - 1 = nActive (s.table.set! j .dummy)), c2.trans a2.symm⟩

theorem discard_counts {s s' : IntSet} {k : Int} {b : Bool} (h : Counts s) (hd : s.discard k = some (s', b)) : Counts s' := by
  unfold IntSet.discard at hd
  split at hd
  · simp at hd
  · rename_i j hl
    split at hd
    · rename_i hj
      simp at hd
      obtain ⟨e1, _⟩ := hd
      subst e1
      exact set_dummy_counts h (by simpa using hj)
    · simp at hd
      obtain ⟨e1, _⟩ := hd
      subst e1
      exact h

theorem pop_counts {s s' : IntSet} {k : Int} (h : Counts s) (hp : s.pop = some (.popped k s')) : Counts s' := by
  unfold IntSet.pop at hp
  split at hp
  · simp at hp
  · split at hp
    · simp at hp
    · rename_i j k' hs
      simp at hp
      obtain ⟨_, e2⟩ := hp
      subst e2
      obtain ⟨c1, c2⟩ := set_dummy_counts (j := j) h (popScan_spec hs)
      exact ⟨c1, c2⟩

/-- `pop` raises KeyError exactly on the empty set -/
theorem pop_keyError {s : IntSet} (h : Counts s) (hp : s.pop = some .keyError) : ∀ x, ¬ Mem s.table x := by
  unfold IntSet.pop at hp
  split at hp
  · rename_i hu
    exact not_mem_of_nActive_zero (h.1 ▸ hu)
  · split at hp <;> simp at hp

theorem clear_counts (s : IntSet) : Counts s.clear :=
  ⟨(nActive_emptyTable 8).symm, (nFill_emptyTable 8).symm⟩

theorem empty_counts : Counts empty := ⟨(nActive_emptyTable 8).symm, (nFill_emptyTable 8).symm⟩

theorem addAll_counts : ∀ (ks : List Int) {s s' : IntSet}, Counts s → s.addAll ks = some s' → Counts s' := by
  intro ks
  induction ks with
  | nil => intro s s' h ha; simp [IntSet.addAll] at ha; subst ha; exact h
  | cons k ks ih =>
    intro s s' h ha
    unfold IntSet.addAll at ha
    split at ha
    · simp at ha
    · rename_i s1 h1
      exact ih (add_counts h h1) ha

theorem discardAll_counts : ∀ (ks : List Int) {s s' : IntSet}, Counts s → s.discardAll ks = some s' → Counts s' := by
  intro ks
  induction ks with
  | nil => intro s s' h ha; simp [IntSet.discardAll] at ha; subst ha; exact h
  | cons k ks ih =>
    intro s s' h ha
    unfold IntSet.discardAll at ha
    split at ha
    · simp at ha
    · rename_i s1 b h1
      exact ih (discard_counts h h1) ha

theorem presize_counts {s s' : IntSet} {n : Nat} (h : Counts s) (hp : s.presize n = some s') : Counts s' := by
  unfold IntSet.presize at hp
  split at hp
  · exact resize_counts h hp
  · simp at hp; subst hp; exact h

theorem updateDict_counts {s s' : IntSet} {ks : List Int} (h : Counts s) (hu : s.updateDict ks = some s') : Counts s' := by
  unfold IntSet.updateDict at hu
  split at hu
  · simp at hu
  · rename_i s1 h1
    exact addAll_counts ks (presize_counts h h1) hu

theorem differenceUpdate_counts {s s' : IntSet} {ks : List Int} (h : Counts s) (hu : s.differenceUpdate ks = some s') :
    Counts s' := by
  unfold IntSet.differenceUpdate at hu
  split at hu
  · simp at hu
  · rename_i s1 h1
    have a := discardAll_counts ks h h1
    split at hu
    · simp at hu; subst hu; exact a
    · exact resize_counts a hu

end ChythonModel.Py.IntSet
