import ChythonModel.Proofs.C13WFStep
/-!
# C13 — stored labels: renumbering and disjoint union carry a fresh label snapshot to a fresh label snapshot
-/
namespace ChythonModel.Proofs.C13
open ChythonModel.Model ChythonModel.Model.C13 ChythonModel.Gen.CacheEffects ChythonModel.Spec.Deps

/-- what `calc_labels` would look at now -/
def snapOf (m : Mol) : LSnap := ⟨labelView m, skelView m, false⟩

theorem labelsFresh_iff (c : Core) : labelsFresh c = true ↔ c.labels = some (snapOf c.mol) := by
  simp [labelsFresh, snapOf]

def zOf (m : Mol) (k : Nat) : Nat := ((m.atom? k).map (·.z)).getD 0

theorem labelView_eq (m : Mol) : labelView m = m.adj.map fun p => (p.1, p.2.map fun kb => (kb.1, kb.2.order, zOf m kb.1)) := rfl

theorem lookup_map_inj {α} (f : Nat → Nat) (l : List (Nat × α)) (k : Nat)
    (hf : ∀ x ∈ l.map (·.1), ∀ y ∈ l.map (·.1), f x = f y → x = y) (hk : k ∈ l.map (·.1)) :
    (l.map fun p => (f p.1, p.2)).lookup (f k) = l.lookup k := by
  induction l with
  | nil => cases hk
  | cons p rest ih =>
    obtain ⟨a, v⟩ := p
    simp only [List.map_cons, List.lookup_cons]
    by_cases hka : k = a
    · subst hka; simp
    · have h1 : (k == a) = false := beq_false_of_ne hka
      have h2 : (f k == f a) = false := by
        apply beq_false_of_ne
        intro hfe
        exact hka (hf k hk a (by simp) hfe)
      simp only [h1, h2]
      have hk' : k ∈ rest.map (·.1) := by
        simp only [List.map_cons, List.mem_cons] at hk
        rcases hk with hk | hk
        · exact absurd hk hka
        · exact hk
      exact ih (fun x hx y hy => hf x (by simp only [List.map_cons]; exact List.mem_cons_of_mem _ hx) y
        (by simp only [List.map_cons]; exact List.mem_cons_of_mem _ hy)) hk'

theorem zOf_mapMol {m : Mol} {f : Nat → Nat} (hf : ∀ x ∈ m.ids, ∀ y ∈ m.ids, f x = f y → x = y) {k : Nat} (hk : k ∈ m.ids) :
    zOf (mapMol f m) (f k) = zOf m k := by
  simp only [zOf, Mol.atom?, mapMol]
  rw [lookup_map_inj f m.atoms k hf hk]

theorem skel_map (f : Nat → Nat) (la : List (Nat × Bond)) :
    ((la.filter fun q => q.2.order != 8).map (·.1)).map f =
      ((la.map fun kb => (f kb.1, kb.2)).filter fun q => q.2.order != 8).map (·.1) := by
  induction la with
  | nil => rfl
  | cons q rest ih =>
    simp only [List.filter_cons, List.map_cons]
    split <;> simp [ih]

/-- **renumbering**: the remapped snapshot of a well-formed molecule is the snapshot of the remapped molecule -/
theorem remap_snap {m : Mol} {mp : List (Nat × Nat)} (h : MolWF m)
    (hf : ∀ x ∈ m.ids, ∀ y ∈ m.ids, mapId mp x = mapId mp y → x = y) :
    LSnap.remap mp (snapOf m) = snapOf (mapMol (mapId mp) m) := by
  simp only [LSnap.remap, snapOf, LSnap.mk.injEq, and_true]
  refine ⟨?_, ?_⟩
  · rw [labelView_eq, labelView_eq]
    simp only [mapMol, List.map_map]
    apply List.map_congr_left
    rintro ⟨a, la⟩ ha
    simp only [Function.comp, Prod.mk.injEq, true_and, List.map_map]
    apply List.map_congr_left
    rintro ⟨b, bd⟩ hb
    simp only [Function.comp, Prod.mk.injEq, true_and]
    exact (zOf_mapMol hf (h.nbr_mem ha hb)).symm
  · simp only [skelView, mapMol, List.map_map]
    apply List.map_congr_left
    rintro ⟨a, la⟩ _
    simp only [Function.comp, Prod.mk.injEq, true_and]
    exact skel_map _ la

theorem zOf_merge_left {m om : Mol} {k : Nat} (hk : k ∈ m.ids) :
    zOf ⟨m.atoms ++ om.atoms, m.adj ++ om.adj⟩ k = zOf m k := by
  simp only [zOf, Mol.atom?, List.lookup_append]
  cases hl : m.atoms.lookup k with
  | none => exact absurd hk (lookup_none_iff.mp hl)
  | some a => simp

theorem zOf_merge_right {m om : Mol} {k : Nat} (hk : k ∉ m.ids) :
    zOf ⟨m.atoms ++ om.atoms, m.adj ++ om.adj⟩ k = zOf om k := by
  simp only [zOf, Mol.atom?, List.lookup_append]
  rw [lookup_none_iff.mpr hk]
  simp

/-- **disjoint union**: the concatenation of the two snapshots is the snapshot of the merged molecule -/
theorem merge_snap {m om : Mol} (h : MolWF m) (ho : MolWF om) (hd : ∀ x ∈ m.ids, x ∉ om.ids) :
    LSnap.merge (snapOf m) (snapOf om) = snapOf ⟨m.atoms ++ om.atoms, m.adj ++ om.adj⟩ := by
  simp only [LSnap.merge, snapOf, Bool.or_self, LSnap.mk.injEq, and_true]
  refine ⟨?_, by simp [skelView]⟩
  rw [labelView_eq, labelView_eq, labelView_eq]
  simp only [List.map_append]
  congr 1
  · apply List.map_congr_left
    rintro ⟨a, la⟩ ha
    simp only [Prod.mk.injEq, true_and]
    apply List.map_congr_left
    rintro ⟨b, bd⟩ hb
    simp only [Prod.mk.injEq, true_and]
    exact (zOf_merge_left (h.nbr_mem ha hb)).symm
  · apply List.map_congr_left
    rintro ⟨a, la⟩ ha
    simp only [Prod.mk.injEq, true_and]
    apply List.map_congr_left
    rintro ⟨b, bd⟩ hb
    simp only [Prod.mk.injEq, true_and]
    refine (zOf_merge_right ?_).symm
    intro hmem
    exact hd b hmem (ho.nbr_mem ha hb)

end ChythonModel.Proofs.C13
