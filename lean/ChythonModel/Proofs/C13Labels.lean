import ChythonModel.Proofs.C13WFStep
/-!
# C13 — stored labels: renumbering and disjoint union carry a fresh label snapshot to a fresh label snapshot
-/
namespace ChythonModel.Proofs.C13
open ChythonModel.Model ChythonModel.Model.C13 ChythonModel.Gen.CacheEffects ChythonModel.Spec.Deps

/-- what `calc_labels` would look at now -/
def snapOf (m : Mol) : LSnap := ⟨labelView m, skelView m, false⟩

theorem labelsFresh_iff (c : Core) : labelsFresh c = true ↔ c.labels = some (snapOf c.mol) := by
  simp [labelsFresh, snapOf]

def zOf (m : Mol) (k : Nat) : Nat := ((m.atom? k).map (·.z)).getD 0

theorem labelView_eq (m : Mol) : labelView m = m.adj.map fun p => (p.1, p.2.map fun kb => (kb.1, kb.2.order, zOf m kb.1)) := rfl

theorem lookup_map_inj {α} (f : Nat → Nat) (l : List (Nat × α)) (k : Nat)
    (hf : ∀ x ∈ l.map (·.1), ∀ y ∈ l.map (·.1), f x = f y → x = y) (hk : k ∈ l.map (·.1)) :
    (l.map fun p => (f p.1, p.2)).lookup (f k) = l.lookup k := by
  induction l with
  | nil => cases hk
  | cons p rest ih =>
    obtain ⟨a, v⟩ := p
    simp only [List.map_cons, List.lookup_cons]
    by_cases hka : k = a
    · subst hka; simp
    · have h1 : (k == a) = false := beq_false_of_ne hka
      have h2 : (f k == f a) = false := by
        apply beq_false_of_ne
        intro hfe
        exact hka (hf k hk a (by simp) hfe)
      simp only [h1, h2]
      have hk' : k ∈ rest.map (·.1) := by
        simp only [List.map_cons, List.mem_cons] at hk
        rcases hk with hk | hk
        · exact absurd hk hka
        · exact hk
      exact ih (fun x hx y hy => hf x (by simp only [List.map_cons]; exact List.mem_cons_of_mem _ hx) y
        (by simp only [List.map_cons]; exact List.mem_cons_of_mem _ hy)) hk'

theorem zOf_mapMol {m : Mol} {f : Nat → Nat} (hf : ∀ x ∈ m.ids, ∀ y ∈ m.ids, f x = f y → x = y) {k : Nat} (hk : k ∈ m.ids) :
    zOf (mapMol f m) (f k) = zOf m k := by
  simp only [zOf, Mol.atom?, mapMol]
  rw [lookup_map_inj f m.atoms k hf hk]

theorem skel_map (f : Nat → Nat) (la : List (Nat × Bond)) :
    ((la.filter fun q => q.2.order != 8).map (·.1)).map f =
      ((la.map fun kb => (f kb.1, kb.2)).filter fun q => q.2.order != 8).map (·.1) := by
  induction la with
  | nil => rfl
  | cons q rest ih =>
    simp only [List.filter_cons, List.map_cons]
    split <;> simp [ih]

/-- **renumbering**: the remapped snapshot of a well-formed molecule is the snapshot of the remapped molecule -/
theorem remap_snap {m : Mol} {mp : List (Nat × Nat)} (h : MolWF m)
    (hf : ∀ x ∈ m.ids, ∀ y ∈ m.ids, mapId mp x = mapId mp y → x = y) :
    LSnap.remap mp (snapOf m) = snapOf (mapMol (mapId mp) m) := by
  simp only [LSnap.remap, snapOf, LSnap.mk.injEq, and_true]
  refine ⟨?_, ?_⟩
  · rw [labelView_eq, labelView_eq]
    simp only [mapMol, List.map_map]
    apply List.map_congr_left
    rintro ⟨a, la⟩ ha
    simp only [Function.comp, Prod.mk.injEq, true_and, List.map_map]
    apply List.map_congr_left
    rintro ⟨b, bd⟩ hb
    simp only [Function.comp, Prod.mk.injEq, true_and]
    exact (zOf_mapMol hf (h.nbr_mem ha hb)).symm
  · simp only [skelView, mapMol, List.map_map]
    apply List.map_congr_left
    rintro ⟨a, la⟩ _
    simp only [Function.comp, Prod.mk.injEq, true_and]
    exact skel_map _ la

theorem zOf_merge_left {m om : Mol} {k : Nat} (hk : k ∈ m.ids) :
    zOf ⟨m.atoms ++ om.atoms, m.adj ++ om.adj⟩ k = zOf m k := by
  simp only [zOf, Mol.atom?, List.lookup_append]
  cases hl : m.atoms.lookup k with
  | none => exact absurd hk (lookup_none_iff.mp hl)
  | some a => simp

theorem zOf_merge_right {m om : Mol} {k : Nat} (hk : k ∉ m.ids) :
    zOf ⟨m.atoms ++ om.atoms, m.adj ++ om.adj⟩ k = zOf om k := by
  simp only [zOf, Mol.atom?, List.lookup_append]
  rw [lookup_none_iff.mpr hk]
  simp

/-- **disjoint union**: the concatenation of the two snapshots is the snapshot of the merged molecule -/
theorem merge_snap {m om : Mol} (h : MolWF m) (ho : MolWF om) (hd : ∀ x ∈ m.ids, x ∉ om.ids) :
    LSnap.merge (snapOf m) (snapOf om) = snapOf ⟨m.atoms ++ om.atoms, m.adj ++ om.adj⟩ := by
  simp only [LSnap.merge, snapOf, Bool.or_self, LSnap.mk.injEq, and_true]
  refine ⟨?_, by simp [skelView]⟩
  rw [labelView_eq, labelView_eq, labelView_eq]
  simp only [List.map_append]
  congr 1
  · apply List.map_congr_left
    rintro ⟨a, la⟩ ha
    simp only [Prod.mk.injEq, true_and]
    apply List.map_congr_left
    rintro ⟨b, bd⟩ hb
    simp only [Prod.mk.injEq, true_and]
    exact (zOf_merge_left (h.nbr_mem ha hb)).symm
  · apply List.map_congr_left
    rintro ⟨a, la⟩ ha
    simp only [Prod.mk.injEq, true_and]
    apply List.map_congr_left
    rintro ⟨b, bd⟩ hb
    simp only [Prod.mk.injEq, true_and]
    refine (zOf_merge_right ?_).symm
    intro hmem
    exact hd b hmem (ho.nbr_mem ha hb)

/-! ## events that neither relabel nor restore: labels travel with the edit -/

def labTouch : Ev → Bool
  | .labelsWrite | .restore _ => true
  | _ => false

def isEdit : Ev → Bool
  | .edit => true
  | _ => false

def noLabTouch (es : List GEv) : Bool := es.all fun ge => !labTouch ge.e
def quietList (es : List GEv) : Bool := es.all fun ge => !labTouch ge.e && !isEdit ge.e

/-- what the raw edit does to the stored label snapshot: renumbered with the atoms (`remap`), concatenated with the
snapshot of the atoms coming from the other graph (`union`) -/
def editLabels (cx : Ctx) (l : Option LSnap) : Option LSnap :=
  let l1 := match cx.editMap with
    | some mp => l.map (LSnap.remap mp)
    | none => l
  match cx.editExtra with
  | some ex => mergeLabels l1 ex.labels
  | none => l1

theorem applyEdit_ml (cx : Ctx) (c : Cfg) :
    ((applyEdit cx c).o.mol = c.o.mol ∧ (applyEdit cx c).o.labels = c.o.labels ∧ ((applyEdit cx c).edited = true ∨ (applyEdit cx c) = c)) ∨
    (c.edited = false ∧ (applyEdit cx c).edited = true ∧ cx.editMol = some (applyEdit cx c).o.mol ∧
      (applyEdit cx c).o.labels = editLabels cx c.o.labels) := by
  unfold applyEdit
  split
  · exact Or.inl ⟨rfl, rfl, Or.inr rfl⟩
  · rename_i hed
    split
    · exact Or.inl ⟨rfl, rfl, Or.inl rfl⟩
    · rename_i m' hm
      refine Or.inr ⟨by simpa using hed, rfl, hm, ?_⟩
      simp only [editLabels]
      cases cx.editMap <;> cases cx.editExtra <;> rfl

/-- events other than the raw edit, `calc_labels`' write and `restore` leave graph, labels and the edit flag alone; the
snapshot slot is unchanged, dropped, or a copy of the present state -/
theorem stepEv_quiet {T : Tables} {cx : Ctx} {opt : Bool} {c : Cfg} {e : Ev} (h1 : labTouch e = false) (h2 : isEdit e = false) :
    (stepEv T cx opt c e).cfg.o.mol = c.o.mol ∧ (stepEv T cx opt c e).cfg.o.labels = c.o.labels ∧
    (stepEv T cx opt c e).cfg.edited = c.edited ∧
    ((stepEv T cx opt c e).cfg.o.backup = c.o.backup ∨ (stepEv T cx opt c e).cfg.o.backup = some none ∨
      ∃ kS kC, (stepEv T cx opt c e).cfg.o.backup = some (some (copyCore T c.o.toCore c.vecs kS kC).1)) := by
  cases e with
  | edit => simp [isEdit] at h2
  | call f a => exact ⟨rfl, rfl, rfl, Or.inl rfl⟩
  | flushAll => exact ⟨rfl, rfl, rfl, Or.inl rfl⟩
  | flush a b =>
    simp only [stepEv]
    cases flagBool a <;> cases flagBool b <;> cases opt <;> exact ⟨rfl, rfl, rfl, Or.inl rfl⟩
  | pop k => simp only [stepEv]; split <;> exact ⟨rfl, rfl, rfl, Or.inl rfl⟩
  | dictSet k =>
    refine ⟨readKey_mol _ _ _ _ _, ?_, rfl, Or.inl (readKey_backup _ _ _ _ _)⟩
    simp only [stepEv, Res.cfg]; unfold readKey; split <;> rfl
  | readC k =>
    refine ⟨readKey_mol _ _ _ _ _, ?_, rfl, Or.inl (readKey_backup _ _ _ _ _)⟩
    simp only [stepEv, Res.cfg]; unfold readKey; split <;> rfl
  | changedAdd =>
    simp only [stepEv]
    split
    · exact ⟨rfl, rfl, rfl, Or.inl rfl⟩
    · split <;> exact ⟨rfl, rfl, rfl, Or.inl rfl⟩
  | changedDiscard => simp only [stepEv]; split <;> exact ⟨rfl, rfl, rfl, Or.inl rfl⟩
  | changedAttr =>
    simp only [stepEv]
    split
    · exact ⟨rfl, rfl, rfl, Or.inl rfl⟩
    · exact ⟨rfl, rfl, rfl, Or.inl rfl⟩
    · split <;> exact ⟨rfl, rfl, rfl, Or.inl rfl⟩
  | changedNone => exact ⟨rfl, rfl, rfl, Or.inl rfl⟩
  | changedRead => simp only [stepEv]; split <;> exact ⟨rfl, rfl, rfl, Or.inl rfl⟩
  | backupRead => simp only [stepEv]; split <;> exact ⟨rfl, rfl, rfl, Or.inl rfl⟩
  | backupCopy a b =>
    simp only [stepEv]
    cases ha : flagBool a <;> cases hb : flagBool b <;> try exact ⟨rfl, rfl, rfl, Or.inl rfl⟩
    rename_i kS kC
    exact ⟨rfl, rfl, rfl, Or.inr (Or.inr ⟨kS, kC, rfl⟩)⟩
  | backupNone => exact ⟨rfl, rfl, rfl, Or.inr (Or.inl rfl)⟩
  | restore slots => simp [labTouch] at h1
  | hcalc =>
    simp only [stepEv]
    split
    · exact ⟨rfl, rfl, rfl, Or.inl rfl⟩
    · split <;> (split <;> exact ⟨rfl, rfl, rfl, Or.inl rfl⟩)
  | labelsWrite => simp [labTouch] at h1
  | stereoWrite => exact ⟨rfl, rfl, rfl, Or.inl rfl⟩

/-- frame state along an event list without relabelling: still the entry graph and labels, or the edit's graph with the
labels the edit carries over -/
def Fr (cx : Ctx) (m0 : Mol) (l0 : Option LSnap) (c : Cfg) : Prop :=
  (c.o.mol = m0 ∧ c.o.labels = l0) ∨ (c.edited = true ∧ cx.editMol = some c.o.mol ∧ c.o.labels = editLabels cx l0)

theorem stepEv_fr {T : Tables} {cx : Ctx} {opt : Bool} {c : Cfg} {e : Ev} {m0 : Mol} {l0 : Option LSnap}
    (h1 : labTouch e = false) (h : Fr cx m0 l0 c) : Fr cx m0 l0 (stepEv T cx opt c e).cfg := by
  by_cases h2 : isEdit e = true
  · cases e <;> simp [isEdit] at h2
    simp only [stepEv, Res.cfg]
    rcases h with ⟨hm, hl⟩ | ⟨hed, hm, hl⟩
    · rcases applyEdit_ml cx c with ⟨am, al, _⟩ | ⟨_, aed, am, al⟩
      · exact Or.inl ⟨by rw [am]; exact hm, by rw [al]; exact hl⟩
      · exact Or.inr ⟨aed, am, by rw [al, hl]⟩
    · have : applyEdit cx c = c := by unfold applyEdit; simp [hed]
      rw [this]
      exact Or.inr ⟨hed, hm, hl⟩
  · obtain ⟨qm, ql, qe, _⟩ := stepEv_quiet (T := T) (cx := cx) (opt := opt) (c := c) h1 (by simpa using h2)
    rcases h with ⟨hm, hl⟩ | ⟨hed, hm, hl⟩
    · exact Or.inl ⟨by rw [qm]; exact hm, by rw [ql]; exact hl⟩
    · exact Or.inr ⟨by rw [qe]; exact hed, by rw [qm]; exact hm, by rw [ql]; exact hl⟩

theorem interp_fr {T : Tables} {cx : Ctx} {m0 : Mol} {l0 : Option LSnap} :
    ∀ (es : List GEv) (c : Cfg), noLabTouch es = true → Fr cx m0 l0 c → Fr cx m0 l0 (interp T cx es c).cfg := by
  intro es
  induction es with
  | nil => intro c _ h; exact h
  | cons ge rest ih =>
    intro c hg h
    simp only [noLabTouch, List.all_cons, Bool.and_eq_true, Bool.not_eq_true'] at hg
    simp only [interp]
    split
    · exact h
    · exact ih c (by simpa [noLabTouch] using hg.2) h
    · rename_i opt _
      have hs := stepEv_fr (T := T) (opt := opt) hg.1 h
      split
      · rename_i c' heq
        rw [heq] at hs
        exact ih c' (by simpa [noLabTouch] using hg.2) hs
      · rename_i c' e' heq
        rw [heq] at hs
        exact hs

/-- labels fresh now and in the snapshot -/
def KInv (o : Obj) : Prop := labelsFresh o.toCore = true ∧ ∀ bk, o.backup = some (some bk) → labelsFresh bk = true

theorem stepEv_K {T : Tables} {cx : Ctx} {opt : Bool} {c : Cfg} {e : Ev} (h1 : labTouch e = false) (h2 : isEdit e = false)
    (h : KInv c.o) : KInv (stepEv T cx opt c e).cfg.o := by
  obtain ⟨qm, ql, _, qb⟩ := stepEv_quiet (T := T) (cx := cx) (opt := opt) (c := c) h1 h2
  have hf : labelsFresh (stepEv T cx opt c e).cfg.o.toCore = true := by
    rw [labelsFresh_congr (c2 := c.o.toCore) qm ql]; exact h.1
  refine ⟨hf, fun bk hbk => ?_⟩
  rcases qb with qb | qb | ⟨kS, kC, qb⟩
  · exact h.2 bk (by rw [← qb]; exact hbk)
  · rw [qb] at hbk; cases hbk
  · rw [qb] at hbk
    simp only [Option.some.injEq] at hbk
    subst hbk
    obtain ⟨hm, _, hl, _⟩ := copyCore_fields T c.o.toCore c.vecs kS kC
    rw [labelsFresh_congr (c2 := c.o.toCore) hm hl]; exact h.1

theorem interp_K {T : Tables} {cx : Ctx} :
    ∀ (es : List GEv) (c : Cfg), quietList es = true → KInv c.o → KInv (interp T cx es c).cfg.o := by
  intro es
  induction es with
  | nil => intro c _ h; exact h
  | cons ge rest ih =>
    intro c hg h
    simp only [quietList, List.all_cons, Bool.and_eq_true, Bool.not_eq_true'] at hg
    simp only [interp]
    split
    · exact h
    · exact ih c (by simpa [quietList] using hg.2) h
    · rename_i opt _
      have hs := stepEv_K (T := T) (cx := cx) (opt := opt) hg.1.1 hg.1.2 h
      split
      · rename_i c' heq
        rw [heq] at hs
        exact ih c' (by simpa [quietList] using hg.2) hs
      · rename_i c' e' heq
        rw [heq] at hs
        exact hs

end ChythonModel.Proofs.C13
