import ChythonModel.Proofs.C15Read
/-!
The CXSMILES block written by `render` is parsed back by `splitWs` / `contractOf` to the written fragment groups.
-/
namespace ChythonModel.Proofs.C15
open ChythonModel.Model.C15

/-! ## decimal digits -/

theorem digits_ne_nil (n : Nat) : digits n ≠ [] := by
  unfold digits
  split
  · simp
  · simp

theorem digits_all (n : Nat) : ∀ c ∈ digits n, isDigit c = true := by
  induction n using Nat.strongRecOn with
  | _ n ih =>
    intro c hc
    unfold digits at hc
    split at hc
    · rename_i h
      simp only [List.mem_singleton] at hc
      subst hc; simp [isDigit]; omega
    · rename_i h
      rcases List.mem_append.mp hc with h1 | h1
      · exact ih (n / 10) (by omega) c h1
      · simp only [List.mem_singleton] at h1
        subst h1; simp [isDigit]; omega

theorem toNat_append_digit (a : Str) (c : Nat) : toNat (a ++ [c]) = toNat a * 10 + (c - 48) := by
  simp [toNat, List.foldl_append]

theorem toNat_digits (n : Nat) : toNat (digits n) = n := by
  induction n using Nat.strongRecOn with
  | _ n ih =>
    unfold digits
    split
    · rename_i h; simp [toNat]
    · rename_i h
      rw [toNat_append_digit, ih (n / 10) (by omega)]
      omega

/-- a digit run followed by a non-digit (or the end) is split off exactly -/
theorem spanDigits_append (ds rest : Str) (hd : ∀ c ∈ ds, isDigit c = true)
    (hr : ∀ c, rest.head? = some c → isDigit c = false) : spanDigits (ds ++ rest) = (ds, rest) := by
  induction ds with
  | nil =>
    cases rest with
    | nil => rfl
    | cons c cs =>
      have := hr c rfl
      simp [spanDigits, this]
  | cons d ds ih =>
    have h1 := hd d List.mem_cons_self
    simp only [List.cons_append, spanDigits, h1, if_true]
    rw [ih (fun c hc => hd c (List.mem_cons_of_mem _ hc))]

/-! ## groups -/

/-- `'.'.join(str(x) for x in g)` behind the first number: `.n.n…` -/
def dotStr : List Nat → Str
  | [] => []
  | n :: ns => chDot :: digits n ++ dotStr ns

theorem join_digits_cons (n : Nat) (ns : List Nat) :
    join chDot ((n :: ns).map digits) = digits n ++ dotStr ns := by
  induction ns generalizing n with
  | nil => simp [join, dotStr]
  | cons m ms ih =>
    simp only [List.map_cons, join, dotStr] at ih ⊢
    rw [ih m]
    rfl

theorem head_dotStr_append (ns : List Nat) (rest : Str) (hr : ∀ c, rest.head? = some c → isDigit c = false) :
    ∀ c, (dotStr ns ++ rest).head? = some c → isDigit c = false := by
  cases ns with
  | nil => simpa [dotStr] using hr
  | cons n ns => intro c hc; simp [dotStr] at hc; subst hc; decide

theorem dotTail_render (ns : List Nat) (rest : Str)
    (hr : ∀ c, rest.head? = some c → isDigit c = false ∧ c ≠ chDot) :
    ∀ fuel, (dotStr ns ++ rest).length ≤ fuel → dotTail fuel (dotStr ns ++ rest) = (ns, rest) := by
  induction ns with
  | nil =>
    intro fuel _
    simp only [dotStr, List.nil_append]
    cases fuel with
    | zero => rfl
    | succ f =>
      cases rest with
      | nil => rfl
      | cons c cs =>
        have := (hr c rfl).2
        simp only [dotTail]
        rw [if_neg (by simpa using this)]
  | cons n ns ih =>
    intro fuel hf
    simp only [dotStr, List.cons_append, List.append_assoc, List.length_cons, List.length_append] at hf ⊢
    cases fuel with
    | zero => omega
    | succ f =>
      have hspan := spanDigits_append (digits n) (dotStr ns ++ rest) (digits_all n)
        (head_dotStr_append ns rest (fun c hc => (hr c hc).1))
      simp only [dotTail, beq_self_eq_true, if_true, hspan]
      have hne := digits_ne_nil n
      have ihf := ih f (by simp only [List.length_append] ; omega)
      cases hd : digits n with
      | nil => exact absurd hd hne
      | cons d ds =>
        simp only [ihf]
        rw [← hd, toNat_digits]

/-- a written group is parsed back -/
theorem matchGroup_render (g : List Nat) (hg : 2 ≤ g.length) (rest : Str)
    (hr : ∀ c, rest.head? = some c → isDigit c = false ∧ c ≠ chDot) :
    matchGroup (join chDot (g.map digits) ++ rest) = some (g, rest) := by
  match g, hg with
  | n :: m :: ns, _ =>
    rw [join_digits_cons, List.append_assoc]
    unfold matchGroup
    rw [spanDigits_append (digits n) (dotStr (m :: ns) ++ rest) (digits_all n)
      (head_dotStr_append (m :: ns) rest (fun c hc => (hr c hc).1))]
    have hne := digits_ne_nil n
    cases hd : digits n with
    | nil => exact absurd hd hne
    | cons d ds =>
      simp only
      rw [dotTail_render (m :: ns) rest hr _ (Nat.le_refl _)]
      simp only
      rw [← hd, toNat_digits]

/-- one written group -/
def renderG (g : List Nat) : Str := join chDot (g.map digits)

/-- `,g,g…` -/
def commaStr : List (List Nat) → Str
  | [] => []
  | g :: gs => chComma :: renderG g ++ commaStr gs

theorem join_groups_cons (g : List Nat) (gs : List (List Nat)) :
    join chComma ((g :: gs).map renderG) = renderG g ++ commaStr gs := by
  induction gs generalizing g with
  | nil => simp [join, commaStr]
  | cons g' gs' ih =>
    simp only [List.map_cons, join, commaStr] at ih ⊢
    rw [ih g']
    rfl

theorem head_commaStr_append (gs : List (List Nat)) (rest : Str)
    (hr : ∀ c, rest.head? = some c → isDigit c = false ∧ c ≠ chDot) :
    ∀ c, (commaStr gs ++ rest).head? = some c → isDigit c = false ∧ c ≠ chDot := by
  cases gs with
  | nil => simpa [commaStr] using hr
  | cons g gs => intro c hc; simp [commaStr] at hc; subst hc; decide

theorem commaTail_render (gs : List (List Nat)) (hall : ∀ g ∈ gs, 2 ≤ g.length) (rest : Str)
    (hr : ∀ c, rest.head? = some c → isDigit c = false ∧ c ≠ chDot ∧ c ≠ chComma) :
    ∀ fuel, (commaStr gs ++ rest).length ≤ fuel → commaTail fuel (commaStr gs ++ rest) = (gs, rest) := by
  induction gs with
  | nil =>
    intro fuel _
    simp only [commaStr, List.nil_append]
    cases fuel with
    | zero => rfl
    | succ f =>
      cases rest with
      | nil => rfl
      | cons c cs =>
        have := (hr c rfl).2.2
        simp only [commaTail]
        rw [if_neg (by simpa using this)]
  | cons g gs ih =>
    intro fuel hf
    simp only [commaStr, List.cons_append, List.append_assoc, List.length_cons, List.length_append] at hf ⊢
    cases fuel with
    | zero => omega
    | succ f =>
      have hm := matchGroup_render g (hall g List.mem_cons_self) (commaStr gs ++ rest)
        (head_commaStr_append gs rest (fun c hc => ⟨(hr c hc).1, (hr c hc).2.1⟩))
      unfold renderG
      simp only [commaTail, beq_self_eq_true, if_true, hm]
      rw [ih (fun g' hg' => hall g' (List.mem_cons_of_mem _ hg')) f (by simp only [List.length_append]; omega)]

theorem searchFragments_skip (pre s : Str) (h : ∀ c ∈ pre, c ≠ chF) :
    searchFragments (pre ++ s) = searchFragments s := by
  induction pre with
  | nil => rfl
  | cons c cs ih =>
    have hc := h c List.mem_cons_self
    simp only [List.cons_append, searchFragments]
    rw [if_neg (by simpa using hc)]
    simp only [HOrElse.hOrElse, OrElse.orElse, Option.orElse]
    exact ih (fun c' hc' => h c' (List.mem_cons_of_mem _ hc'))

theorem searchFragments_none (s : Str) (h : ∀ c ∈ s, c ≠ chF) : searchFragments s = none := by
  have := searchFragments_skip s [] h
  simpa [searchFragments] using this

/-- the `f:` block the writer emits is found and parsed back to the groups -/
theorem searchFragments_render (g : List Nat) (gs : List (List Nat)) (hall : ∀ g' ∈ g :: gs, 2 ≤ g'.length) :
    searchFragments (chF :: chColon :: join chComma ((g :: gs).map renderG) ++ [chBar]) = some (g :: gs) := by
  rw [join_groups_cons]
  simp only [List.cons_append, List.append_assoc]
  have hbar : ∀ c, [chBar].head? = some c → isDigit c = false ∧ c ≠ chDot ∧ c ≠ chComma := by
    intro c hc; simp at hc; subst hc; decide
  have hm := matchGroup_render g (hall g List.mem_cons_self) (commaStr gs ++ [chBar])
    (head_commaStr_append gs [chBar] (fun c hc => ⟨(hbar c hc).1, (hbar c hc).2.1⟩))
  unfold renderG at hm ⊢
  simp only [searchFragments, beq_self_eq_true, if_true, hm]
  rw [commaTail_render gs (fun g' hg' => hall g' (List.mem_cons_of_mem _ hg')) [chBar] hbar _ (Nat.le_refl _)]
  rfl

/-! ## sorted groups, no collisions -/

theorem insertSorted_le (x : Nat) (l : List Nat) (h : ∀ y ∈ l, x ≤ y) : insertSorted x l = x :: l := by
  cases l with
  | nil => rfl
  | cons y ys => simp [insertSorted, h y List.mem_cons_self]

theorem sortNats_sorted (l : List Nat) (h : l.Pairwise (· ≤ ·)) : sortNats l = l := by
  induction l with
  | nil => rfl
  | cons x xs ih =>
    have hp := List.pairwise_cons.mp h
    have : sortNats (x :: xs) = insertSorted x (sortNats xs) := rfl
    rw [this, ih hp.2, insertSorted_le x xs hp.1]

theorem groupsFrom_shape (ms : List (List Str)) :
    ∀ s, ∀ g ∈ groupsFrom s ms, ∃ k s', 2 ≤ k ∧ g = (List.range k).map (· + s') := by
  induction ms with
  | nil => intro s g hg; simp [groupsFrom] at hg
  | cons m rest ih =>
    intro s g hg
    unfold groupsFrom at hg
    rcases List.mem_append.mp hg with h | h
    · by_cases hk : m.length > 1
      · simp only [hk, if_true, List.mem_singleton] at h
        exact ⟨m.length, s, hk, h⟩
      · simp [hk] at h
    · exact ih _ g h

theorem range_shift_sorted (k s : Nat) : ((List.range k).map (· + s)).Pairwise (· ≤ ·) := by
  rw [List.pairwise_map]
  have : (List.range k).Pairwise (· < ·) := List.pairwise_lt_range
  exact this.imp (by intro a b h; omega)

theorem range_shift_nodup (k s : Nat) : ((List.range k).map (· + s)).Nodup := by
  unfold List.Nodup
  rw [List.pairwise_map]
  have : (List.range k).Pairwise (· < ·) := List.pairwise_lt_range
  exact this.imp (by intro a b h; omega)

theorem eraseDups_of_nodup : ∀ (l : List Nat), l.Nodup → l.eraseDups = l
  | [], _ => by simp
  | a :: as, h => by
    have hp := List.nodup_cons.mp h
    rw [List.eraseDups_cons]
    have : as.filter (fun b => !b == a) = as := by
      apply List.filter_eq_self.mpr
      intro b hb
      have : b ≠ a := fun e => hp.1 (e ▸ hb)
      simp [this]
    rw [this, eraseDups_of_nodup as hp.2]

theorem groupsFrom_flatten_nodup (ms : List (List Str)) (hne : ∀ m ∈ ms, m ≠ []) (s : Nat) :
    (groupsFrom s ms).flatten.Nodup := by
  unfold List.Nodup
  rw [List.pairwise_flatten]
  refine ⟨?_, ?_⟩
  · intro g hg
    obtain ⟨k, s', _, e⟩ := groupsFrom_shape ms s g hg
    rw [e]; exact range_shift_nodup k s'
  · exact (groupsFrom_pairwise ms hne s).imp (by
      intro a b h x hx y hy e
      exact h x hx (e ▸ hy))

/-- the writer's groups pass the reader's normalisation (`sorted`, collision test) unchanged -/
theorem groups_normalised (ms : List (List Str)) (hne : ∀ m ∈ ms, m ≠ []) (s : Nat) :
    (groupsFrom s ms).map sortNats = groupsFrom s ms ∧
    ¬ ((groupsFrom s ms).flatten.eraseDups.length < (groupsFrom s ms).flatten.length) := by
  constructor
  · have : (groupsFrom s ms).map sortNats = (groupsFrom s ms).map id := by
      apply List.map_congr_left
      intro g hg
      obtain ⟨k, s', _, e⟩ := groupsFrom_shape ms s g hg
      rw [e]; exact sortNats_sorted _ (range_shift_sorted k s')
    rw [this, List.map_id]
  · rw [eraseDups_of_nodup _ (groupsFrom_flatten_nodup ms hne s)]
    omega

/-! ## whitespace splitting -/

theorem go_nospace (w : Str) (h : ∀ c ∈ w, isSpace c = false) :
    ∀ (rest cur : Str), splitWs.go (w ++ rest) cur = splitWs.go rest (w.reverse ++ cur) := by
  induction w with
  | nil => intro rest cur; rfl
  | cons c cs ih =>
    intro rest cur
    have hc := h c List.mem_cons_self
    simp only [List.cons_append, splitWs.go, hc, Bool.false_eq_true, if_false]
    rw [ih (fun c' hc' => h c' (List.mem_cons_of_mem _ hc'))]
    simp

theorem splitWs_single (w : Str) (hne : w ≠ []) (h : ∀ c ∈ w, isSpace c = false) : splitWs w = [w] := by
  unfold splitWs
  have := go_nospace w h [] []
  rw [List.append_nil] at this
  rw [this]
  simp only [splitWs.go, List.append_nil, List.isEmpty_reverse, List.reverse_reverse]
  cases w with
  | nil => exact absurd rfl hne
  | cons _ _ => rfl

theorem splitWs_pair (w t : Str) (hw : w ≠ []) (ht : t ≠ []) (h1 : ∀ c ∈ w, isSpace c = false)
    (h2 : ∀ c ∈ t, isSpace c = false) : splitWs (w ++ chSpace :: t) = [w, t] := by
  unfold splitWs
  rw [go_nospace w h1]
  have hs : isSpace chSpace = true := by decide
  simp only [splitWs.go, hs, if_true, List.append_nil, List.isEmpty_reverse, List.reverse_reverse]
  have := go_nospace t h2 [] []
  rw [List.append_nil] at this
  rw [this]
  simp only [splitWs.go, List.append_nil, List.isEmpty_reverse, List.reverse_reverse]
  cases w with
  | nil => exact absurd rfl hw
  | cons _ _ =>
    cases t with
    | nil => exact absurd rfl ht
    | cons _ _ => rfl

/-! ## the written text -/

theorem digit_not_space (c : Nat) (h : isDigit c = true) : isSpace c = false ∧ c ≠ chF := by
  simp only [isDigit, Bool.and_eq_true, decide_eq_true_eq] at h
  refine ⟨?_, by simp [chF]; omega⟩
  simp only [isSpace, Bool.or_eq_false_iff, Bool.and_eq_false_iff, beq_eq_false_iff_ne, decide_eq_false_iff_not]
  omega

theorem numbers_chars (sep : Nat) (ns : List Nat) (c : Nat) (h : c ∈ join sep (ns.map digits)) :
    c = sep ∨ isDigit c = true := by
  rcases mem_join sep _ c h with h | ⟨p, hp, hc⟩
  · exact Or.inl h
  · obtain ⟨n, _, e⟩ := List.mem_map.mp hp
    subst e; exact Or.inr (digits_all n c hc)

/-- characters of the radical block `^1:n,n…` -/
theorem radStr_chars (idx : List Nat) (c : Nat)
    (h : c ∈ chCaret :: 49 :: chColon :: join chComma (idx.map digits)) : isSpace c = false ∧ c ≠ chF := by
  simp only [List.mem_cons] at h
  rcases h with h | h | h | h
  · subst h; decide
  · subst h; decide
  · subst h; decide
  · rcases numbers_chars chComma idx c h with h | h
    · subst h; decide
    · exact digit_not_space c h

/-- characters of the fragment block `f:g,g…` -/
theorem fStr_chars (gs : List (List Nat)) (c : Nat)
    (h : c ∈ chF :: chColon :: join chComma (gs.map renderG)) : isSpace c = false := by
  simp only [List.mem_cons] at h
  rcases h with h | h | h
  · subst h; decide
  · subst h; decide
  · rcases mem_join chComma _ c h with h | ⟨p, hp, hc⟩
    · subst h; decide
    · obtain ⟨g, _, e⟩ := List.mem_map.mp hp
      subst e
      rcases numbers_chars chDot g c hc with h | h
      · subst h; decide
      · exact (digit_not_space c h).1

theorem contractOf_single (w : Str) : contractOf [w] = none := rfl

/-- token `|body|` : the test for a CXSMILES token succeeds -/
theorem contractOf_token (w body : Str) :
    contractOf [w, chBar :: body ++ [chBar]] =
      match searchFragments (chBar :: body ++ [chBar]) with
      | some gs =>
        let c := gs.map sortNats
        if c.flatten.eraseDups.length < c.flatten.length then none else some c
      | none => none := by
  unfold contractOf
  have h1 : (chBar :: body ++ [chBar]).head? = some chBar := rfl
  have h2 : (chBar :: body ++ [chBar]).getLast? = some chBar := by
    rw [show chBar :: body ++ [chBar] = (chBar :: body) ++ [chBar] from rfl, List.getLast?_append]
    simp
  simp only [h1, h2, beq_self_eq_true, Bool.and_self, if_true]
  rfl

/-- `contract` as the reader sees it: `None` when no `f:` block was written -/
def groupsOpt : List (List Nat) → Option (List (List Nat))
  | [] => none
  | g :: gs => some (g :: gs)

/-- **the written text is read as its signature and its fragment groups** -/
theorem readRxn_render (roles : List (List Str)) (idx : List Nat) (gs : List (List Nat))
    (hsp : ∀ c ∈ join chGt (roles.map (join chDot)), isSpace c = false)
    (hne : join chGt (roles.map (join chDot)) ≠ [])
    (hgs : ∀ g ∈ gs, 2 ≤ g.length)
    (hnorm : gs.map sortNats = gs ∧ ¬ (gs.flatten.eraseDups.length < gs.flatten.length)) :
    readRxn (render false ⟨roles, idx, gs⟩) =
      readSmi (join chGt (roles.map (join chDot))) (groupsOpt gs) := by
  unfold render readRxn
  simp only [Bool.false_eq_true, if_false]
  cases gs with
  | nil =>
    cases idx with
    | nil =>
      simp only [List.isEmpty_nil, if_true, List.append_nil]
      rw [splitWs_single _ hne hsp]
      rfl
    | cons i is =>
      simp only [List.isEmpty_nil, List.isEmpty_cons, Bool.false_eq_true, if_false, if_true, List.append_nil,
        join]
      have htok : ∀ c ∈ chBar :: (chCaret :: 49 :: chColon :: join chComma ((i :: is).map digits)) ++ [chBar],
          isSpace c = false ∧ c ≠ chF := by
        intro c hc
        simp only [List.cons_append, List.mem_cons, List.mem_append, List.mem_nil_iff, or_false] at hc
        rcases hc with h | h | h | h | h | h
        · subst h; decide
        · subst h; decide
        · subst h; decide
        · subst h; decide
        · exact radStr_chars (i :: is) c (by simp only [List.mem_cons]; exact Or.inr (Or.inr (Or.inr h)))
        · subst h; decide
      rw [show (join chGt (roles.map (join chDot)) ++ chSpace :: chBar ::
            (chCaret :: 49 :: chColon :: join chComma ((i :: is).map digits)) ++ [chBar]) =
          join chGt (roles.map (join chDot)) ++ chSpace ::
            (chBar :: (chCaret :: 49 :: chColon :: join chComma ((i :: is).map digits)) ++ [chBar]) by simp]
      rw [splitWs_pair _ _ hne (by simp) hsp (fun c hc => (htok c hc).1)]
      simp only
      rw [contractOf_token, searchFragments_none _ (fun c hc => (htok c hc).2)]
      rfl
  | cons g gs' =>
    have hf := searchFragments_render g gs' hgs
    have hfchars := fStr_chars (g :: gs')
    cases idx with
    | nil =>
      simp only [List.isEmpty_nil, List.isEmpty_cons, Bool.false_eq_true, if_false, if_true, List.nil_append, join]
      have htok : ∀ c ∈ chBar :: (chF :: chColon :: join chComma ((g :: gs').map renderG)) ++ [chBar],
          isSpace c = false := by
        intro c hc
        simp only [List.cons_append, List.mem_cons, List.mem_append, List.mem_nil_iff, or_false] at hc
        rcases hc with h | h | h | h | h
        · subst h; decide
        · subst h; decide
        · subst h; decide
        · exact hfchars c (by simp only [List.mem_cons]; exact Or.inr (Or.inr h))
        · subst h; decide
      rw [show (join chGt (roles.map (join chDot)) ++ chSpace :: chBar ::
            (chF :: chColon :: join chComma ((g :: gs').map fun g => join chDot (g.map digits))) ++ [chBar]) =
          join chGt (roles.map (join chDot)) ++ chSpace ::
            (chBar :: (chF :: chColon :: join chComma ((g :: gs').map renderG)) ++ [chBar]) by rw [show renderG = (fun g : List Nat => join chDot (List.map digits g)) from rfl]; simp]
      rw [splitWs_pair _ _ hne (by simp) hsp htok]
      simp only
      rw [contractOf_token]
      have hs : searchFragments (chBar :: (chF :: chColon :: join chComma ((g :: gs').map renderG)) ++ [chBar])
          = some (g :: gs') := by
        have := searchFragments_skip [chBar] (chF :: chColon :: join chComma ((g :: gs').map renderG) ++ [chBar])
          (by intro c hc; simp at hc; subst hc; decide)
        simp only [List.cons_append, List.nil_append] at this hf ⊢
        rw [this]; exact hf
      rw [hs]
      simp only [hnorm.1, hnorm.2, if_false]
      rfl
    | cons i is =>
      simp only [List.isEmpty_cons, Bool.false_eq_true, if_false, join, List.singleton_append]
      have htok : ∀ c ∈ chBar :: ((chCaret :: 49 :: chColon :: join chComma ((i :: is).map digits)) ++ chComma ::
          (chF :: chColon :: join chComma ((g :: gs').map renderG))) ++ [chBar], isSpace c = false := by
        intro c hc
        simp only [List.cons_append, List.mem_cons, List.mem_append, List.mem_nil_iff, or_false] at hc
        rcases hc with h | h | h | h | (h | h | h | h) | h
        · subst h; decide
        · subst h; decide
        · subst h; decide
        · subst h; decide
        · exact (radStr_chars (i :: is) c (by simp only [List.mem_cons]; exact Or.inr (Or.inr (Or.inr h)))).1
        · subst h; decide
        · subst h; decide
        · rcases h with h | h
          · subst h; decide
          · exact hfchars c (by simp only [List.mem_cons]; exact Or.inr (Or.inr h))
        · subst h; decide
      rw [show (join chGt (roles.map (join chDot)) ++ chSpace :: chBar ::
            ((chCaret :: 49 :: chColon :: join chComma ((i :: is).map digits)) ++ chComma ::
              (chF :: chColon :: join chComma ((g :: gs').map fun g => join chDot (g.map digits)))) ++ [chBar]) =
          join chGt (roles.map (join chDot)) ++ chSpace ::
            (chBar :: ((chCaret :: 49 :: chColon :: join chComma ((i :: is).map digits)) ++ chComma ::
              (chF :: chColon :: join chComma ((g :: gs').map renderG))) ++ [chBar]) by rw [show renderG = (fun g : List Nat => join chDot (List.map digits g)) from rfl]; simp]
      rw [splitWs_pair _ _ hne (by simp) hsp htok]
      simp only
      rw [contractOf_token]
      have hs : searchFragments (chBar :: ((chCaret :: 49 :: chColon :: join chComma ((i :: is).map digits)) ++ chComma ::
          (chF :: chColon :: join chComma ((g :: gs').map renderG))) ++ [chBar]) = some (g :: gs') := by
        have := searchFragments_skip (chBar :: (chCaret :: 49 :: chColon :: join chComma ((i :: is).map digits)) ++ [chComma])
          (chF :: chColon :: join chComma ((g :: gs').map renderG) ++ [chBar])
          (by
            intro c hc
            simp only [List.cons_append, List.mem_cons, List.mem_append, List.mem_nil_iff, or_false] at hc
            rcases hc with h | h | h | h | h | h
            · subst h; decide
            · subst h; decide
            · subst h; decide
            · subst h; decide
            · exact (radStr_chars (i :: is) c (by simp only [List.mem_cons]; exact Or.inr (Or.inr (Or.inr h)))).2
            · subst h; decide)
        simp only [List.cons_append, List.nil_append, List.append_assoc] at this hf ⊢
        rw [this]; exact hf
      rw [hs]
      simp only [hnorm.1, hnorm.2, if_false]
      rfl

theorem readSmi_none (smi : Str) : readSmi smi none = readSmi smi (some []) := by
  unfold readSmi
  split
  · rfl
  · split <;> rfl

/-- the whole round trip at text level -/
theorem read_format (rad : List Str → List Bool) (R A P : List (List Str))
    (hR : WrittenOK R) (hA : WrittenOK A) (hP : WrittenOK P) (hne : R ++ A ++ P ≠ [])
    (hsp : ∀ m ∈ R ++ A ++ P, ∀ f ∈ m, ∀ c ∈ f, isSpace c = false) :
    readRxn (formatRxn true false (R.map (sigOf rad)) (A.map (sigOf rad)) (P.map (sigOf rad))) =
      .roles (R.map (join chDot)) (A.map (join chDot)) (P.map (join chDot)) := by
  have hc := formatCore_contract rad R A P
  have hr := formatCore_roles rad R A P
  have neAll : ∀ m ∈ R ++ A ++ P, m ≠ [] := by
    intro m hm
    simp only [List.mem_append] at hm
    rcases hm with (h | h) | h
    · exact (hR m h).1
    · exact (hA m h).1
    · exact (hP m h).1
  unfold formatRxn
  have eta : formatCore true (R.map (sigOf rad)) (A.map (sigOf rad)) (P.map (sigOf rad)) =
      ⟨[R.map (join chDot), A.map (join chDot), P.map (join chDot)],
       (formatCore true (R.map (sigOf rad)) (A.map (sigOf rad)) (P.map (sigOf rad))).radicalIdx,
       groupsFrom 0 (R ++ A ++ P)⟩ := by
    rw [← hc, ← hr]
  rw [eta]
  -- the signature string
  have roleChars : ∀ X : List (List Str), (∀ m ∈ X, m ∈ R ++ A ++ P) →
      ∀ c ∈ join chDot (X.map (join chDot)), isSpace c = false := by
    intro X hX c hc'
    rcases mem_join chDot _ c hc' with h | ⟨p, hp, hcp⟩
    · subst h; decide
    · obtain ⟨m, hm, e⟩ := List.mem_map.mp hp
      subst e
      rcases mem_join chDot m c hcp with h | ⟨f, hf, hcf⟩
      · subst h; decide
      · exact hsp m (hX m hm) f hf c hcf
  have hsig : ∀ c ∈ join chGt ([R.map (join chDot), A.map (join chDot), P.map (join chDot)].map (join chDot)),
      isSpace c = false := by
    intro c hc'
    rcases mem_join chGt _ c hc' with h | ⟨p, hp, hcp⟩
    · subst h; decide
    · simp only [List.map_cons, List.map_nil, List.mem_cons, List.mem_nil_iff, or_false] at hp
      rcases hp with h | h | h
      · subst h; exact roleChars R (fun m hm => by simp [hm]) c hcp
      · subst h; exact roleChars A (fun m hm => by simp [hm]) c hcp
      · subst h; exact roleChars P (fun m hm => by simp [hm]) c hcp
  have hsne : join chGt ([R.map (join chDot), A.map (join chDot), P.map (join chDot)].map (join chDot)) ≠ [] := by
    simp [join]
  have hgs : ∀ g ∈ groupsFrom 0 (R ++ A ++ P), 2 ≤ g.length := by
    intro g hg
    obtain ⟨k, s', hk, e⟩ := groupsFrom_shape _ 0 g hg
    rw [e]; simpa using hk
  rw [readRxn_render _ _ _ hsig hsne hgs (groups_normalised (R ++ A ++ P) neAll 0)]
  have main := read_written R A P hR hA hP hne (groupsFrom 0 (R ++ A ++ P)) rfl
  simp only [List.map_cons, List.map_nil] at main ⊢
  cases hcl : groupsFrom 0 (R ++ A ++ P) with
  | nil => rw [hcl] at main; simp only [groupsOpt]; rw [readSmi_none]; exact main
  | cons g gs => rw [hcl] at main; exact main

/-- a permutation of a mapped list is the map of a permutation -/
theorem perm_map_inv {α β : Type} [DecidableEq α] (f : α → β) :
    ∀ (l' : List β) (l : List α), l'.Perm (l.map f) → ∃ l₀ : List α, l₀.Perm l ∧ l₀.map f = l' := by
  intro l'
  induction l' with
  | nil =>
    intro l h
    have : l.map f = [] := List.Perm.eq_nil h.symm
    have hl : l = [] := List.map_eq_nil_iff.mp this
    exact ⟨[], by rw [hl], rfl⟩
  | cons b t ih =>
    intro l h
    have hb : b ∈ l.map f := h.subset List.mem_cons_self
    obtain ⟨a, ha, e⟩ := List.mem_map.mp hb
    have hp : l.Perm (a :: l.erase a) := List.perm_cons_erase ha
    have h2 : (b :: t).Perm (b :: (l.erase a).map f) := by
      have := h.trans (hp.map f)
      simpa [e] using this
    obtain ⟨t₀, ht₀, et⟩ := ih (l.erase a) (List.Perm.cons_inv h2)
    exact ⟨a :: t₀, (ht₀.cons a).trans hp.symm, by simp [e, et]⟩

/-- the default (sorted) signature reads back to the same molecules per role, in the sorted order -/
theorem read_format_sorted (rad : List Str → List Bool) (R A P : List (List Str))
    (hR : WrittenOK R) (hA : WrittenOK A) (hP : WrittenOK P) (hne : R ++ A ++ P ≠ [])
    (hsp : ∀ m ∈ R ++ A ++ P, ∀ f ∈ m, ∀ c ∈ f, isSpace c = false) :
    ∃ R' A' P' : List (List Str), R'.Perm R ∧ A'.Perm A ∧ P'.Perm P ∧
      readRxn (formatRxn false false (R.map (sigOf rad)) (A.map (sigOf rad)) (P.map (sigOf rad))) =
        .roles (R'.map (join chDot)) (A'.map (join chDot)) (P'.map (join chDot)) := by
  obtain ⟨R', pR, eR⟩ := perm_map_inv (sigOf rad) (sortRole false (R.map (sigOf rad))) R
    (by unfold sortRole; simp only [Bool.false_eq_true, if_false]; exact List.mergeSort_perm _ _)
  obtain ⟨A', pA, eA⟩ := perm_map_inv (sigOf rad) (sortRole false (A.map (sigOf rad))) A
    (by unfold sortRole; simp only [Bool.false_eq_true, if_false]; exact List.mergeSort_perm _ _)
  obtain ⟨P', pP, eP⟩ := perm_map_inv (sigOf rad) (sortRole false (P.map (sigOf rad))) P
    (by unfold sortRole; simp only [Bool.false_eq_true, if_false]; exact List.mergeSort_perm _ _)
  refine ⟨R', A', P', pR, pA, pP, ?_⟩
  have hsort : formatRxn false false (R.map (sigOf rad)) (A.map (sigOf rad)) (P.map (sigOf rad)) =
      formatRxn true false (R'.map (sigOf rad)) (A'.map (sigOf rad)) (P'.map (sigOf rad)) := by
    rw [eR, eA, eP]; rfl
  rw [hsort]
  have wok : ∀ X X' : List (List Str), X'.Perm X → WrittenOK X → WrittenOK X' :=
    fun X X' p h m hm => h m (p.subset hm)
  apply read_format rad R' A' P' (wok R R' pR hR) (wok A A' pA hA) (wok P P' pP hP)
  · intro h
    apply hne
    have h1 := List.append_eq_nil_iff.mp h
    have h2 := List.append_eq_nil_iff.mp h1.1
    have r0 : R = [] := List.Perm.eq_nil (by have := pR.symm; rwa [h2.1] at this)
    have a0 : A = [] := List.Perm.eq_nil (by have := pA.symm; rwa [h2.2] at this)
    have p0 : P = [] := List.Perm.eq_nil (by have := pP.symm; rwa [h1.2] at this)
    rw [r0, a0, p0]
    rfl
  · intro m hm
    apply hsp m
    simp only [List.mem_append] at hm ⊢
    rcases hm with (h | h) | h
    · exact Or.inl (Or.inl (pR.subset h))
    · exact Or.inl (Or.inr (pA.subset h))
    · exact Or.inr (pP.subset h)

end ChythonModel.Proofs.C15
