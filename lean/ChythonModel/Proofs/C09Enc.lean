import ChythonModel.Proofs.C09Domain
namespace ChythonModel.Proofs.C09
open ChythonModel.Model.Bits ChythonModel.Gen.Bits ChythonModel.Model.Query

theorem lt_of_within {x hi : Nat} (h : Within x 0 hi) : x < 2 ^ hi := by
  apply Nat.lt_pow_two_of_testBit
  intro i hi'
  exact h.out (Or.inr hi')

theorem within_orShifts0 (P : List Nat) (hi : Nat) (h : ∀ p ∈ P, p < hi) : Within (orShifts 0 P) 0 hi := by
  intro p hp
  simp only [testBit_orShifts, List.any_eq_true, Nat.add_zero, beq_iff_eq] at hp
  obtain ⟨s, hs, rfl⟩ := hp
  exact ⟨Nat.zero_le _, h s hs⟩

/-- inside the domain the atom encoder neither raises nor overflows a 64-bit field -/
theorem atom_ok (mdl : Nat) (a : MAtom) (ha : ADom mdl a) :
    atomShiftsOk mdl a = true ∧ (atomWords mdl a).fit = true := by
  have c1 := capS_le a.z ha.z_hi
  have hlo := ha.hyb_lo; have hhi := ha.hyb_hi; have z1 := ha.z_lo; have z2 := ha.z_hi
  have g1 := ha.chg_lo; have g2 := ha.chg_hi; have hh := ha.h; have hn := ha.nb; have he := ha.het
  constructor
  · have k1 : sHybSub = 1 := rfl
    have k2 : sTransferZ = 56 := rfl
    have k3 : sHiBase = 120 := rfl
    have k4 : sLoBase = 57 := rfl
    have k5 : sIsoOff = 54 := rfl
    have k6 : sChargeOff = 39 := rfl
    have k7 : sRingBase = 65 := rfl
    have s1 : decide (sHybSub ≤ a.hybridization) = true := decide_eq_true (by omega)
    have s2 : (if a.z > sTransferZ then decide (capS a.z ≤ sHiBase) else decide (a.z ≤ sLoBase)) = true := by
      by_cases hz : a.z > sTransferZ
      · rw [if_pos hz]; exact decide_eq_true (by omega)
      · rw [if_neg hz]; exact decide_eq_true (by omega)
    have s4 : decide (0 ≤ a.charge + sChargeOff) = true := decide_eq_true (by omega)
    have s5 : a.ringSizes.all (fun r => r > sRingMax || decide (r ≤ sRingBase)) = true := by
      rw [List.all_eq_true]; intro r hr; have := ha.rings r hr
      have : decide (r ≤ sRingBase) = true := decide_eq_true (by omega)
      rw [this, Bool.or_true]
    unfold atomShiftsOk
    rw [s1, s2, s4, s5]
    cases hi : isoTruthy a.isotope with
    | none => rfl
    | some i =>
      have := ha.iso i hi
      have : decide (mdl ≤ i + sIsoOff) = true := decide_eq_true (by omega)
      simp only [this]; rfl
  · have w1 : Within (atomV1 a) 0 64 := by
      rw [atomV1_eq]; apply within_orShifts0; intro p hp
      simp only [List.mem_singleton] at hp; subst hp
      unfold pos1; by_cases hz : a.z > 56 <;> simp [hz]; omega
    have w2 : Within (atomV2 a) 0 64 := by
      rw [atomV2_eq]; apply within_orShifts0; intro p hp
      unfold pos2 at hp
      by_cases hz : a.z > 56
      · simp only [hz, if_true, List.mem_cons, List.mem_nil_iff, or_false] at hp
        have := capS_ge a.z (by omega)
        rcases hp with rfl | rfl <;> omega
      · simp only [hz, if_false, List.mem_cons, List.mem_nil_iff, or_false] at hp
        subst hp; omega
    have w3 : Within (atomV3 mdl a) 0 64 := by
      rw [atomV3_eq]; apply within_orShifts0; intro p hp
      have r := isoPos_range mdl a ha.iso
      simp only [pos3, List.mem_cons, List.mem_nil_iff, or_false] at hp
      rcases hp with rfl | rfl | rfl | rfl | rfl | rfl
      · omega
      · split <;> omega
      · omega
      · omega
      · omega
      · omega
    have w4 : Within (atomV4 a) 0 64 := by
      rw [atomV4_eq a ha.rings]; apply within_orShifts0; intro p hp
      unfold pos4 at hp
      cases har : a.ringSizes with
      | nil => rw [har] at hp; simp at hp; omega
      | cons r rs =>
        rw [har] at hp
        simp only [List.isEmpty_cons, Bool.false_eq_true, if_false, List.mem_map] at hp
        obtain ⟨x, hx, rfl⟩ := hp
        have := ha.rings x (by rw [har]; exact hx); omega
    have f1 : decide (atomV1 a < two64) = true := decide_eq_true (lt_of_within w1)
    have f2 : decide (atomV2 a < two64) = true := decide_eq_true (lt_of_within w2)
    have f3 : decide (atomV3 mdl a < two64) = true := decide_eq_true (lt_of_within w3)
    have f4 : decide (atomV4 a < two64) = true := decide_eq_true (lt_of_within w4)
    show (decide (atomV1 a < two64) && decide (atomV2 a < two64) && decide (atomV3 mdl a < two64) && decide (atomV4 a < two64)) = true
    rw [f1, f2, f3, f4]; rfl

theorem encAtom_ok (mdl : Nat) (a : MAtom) (ha : ADom mdl a) : encAtom mdl a = .ok (atomWords mdl a) := by
  have := atom_ok mdl a ha
  simp [encAtom, this.1, this.2]


theorem within_qBondBits (b : QBond) : Within (qBondBits b) 57 64 := by
  unfold qBondBits
  exact within_or (within_mono (within_qOrderBits qOrd1 qOrd2 qOrd3 qOrd4 qOrdElse qOrderBit_eq b.orders) (by omega) (by omega))
    (within_mono (within_qRingBit qRingAny qRingYes qRingNo (by decide) (by decide) (by decide) b.inRing) (by omega) (by omega))

theorem within_qV4ext (q : QAtom) (hq : QDom q) : Within (qV4ext q) 0 64 := by
  unfold qV4ext
  cases hqr : q.ringSizes with
  | nil => simp only; rw [qAnyRing_eq]; exact within_run 64 0
  | cons r0 qs =>
    simp only
    by_cases h0 : r0 = 0
    · subst h0
      simp only [bne_self_eq_false, Bool.false_eq_true, if_false]
      have e : qNoRing = 1 <<< 63 := by decide
      rw [e]; exact within_mono (within_shl1 63) (by omega) (by omega)
    · have hq' : ∀ r ∈ r0 :: qs, 3 ≤ r ∧ r ≤ 65 := by
        rcases hq.rings with h | h
        · rw [hqr] at h; simp at h; exact absurd h h0
        · intro r hr; exact h r (by rw [hqr]; exact hr)
      have hne : (r0 != 0) = true := by simp [h0]
      simp only [hne, if_true]
      rw [ringWord_eq qRingMax qRingBase qOnlyBig rfl rfl r0 qs (fun x hx => (hq' x hx).2)]
      apply within_orShifts0
      intro p hp
      simp only [List.mem_map] at hp
      obtain ⟨x, hx, rfl⟩ := hp
      have := hq' x hx; omega

/-- inside the domain the query-atom encoder neither raises nor overflows a 64-bit field -/
theorem qatom_ok (qmdl : Nat) (q : QAtom) (b : Option QBond) (hq : QDom q) :
    qShiftsOk qmdl q = true ∧ (qWords qmdl q b).fit = true := by
  have g1 := hq.chg_lo; have g2 := hq.chg_hi
  have k1 : qIsoLo = 8 := rfl
  have k2 : qIsoHi = 8 := rfl
  have k3 : qIsoOff = 54 := rfl
  have k4 : qChargeOff = 39 := rfl
  have k5 : qRingBase = 65 := rfl
  have k6 : qHybSub = 1 := rfl
  constructor
  · have s1 : q.hybridization.all (fun n => decide (qHybSub ≤ n)) = true := by
      rw [List.all_eq_true]; intro n hn; have := hq.hyb n hn; exact decide_eq_true (by omega)
    have s2 : decide (0 ≤ q.charge + qChargeOff) = true := decide_eq_true (by omega)
    unfold qShiftsOk
    rw [s1, s2, Bool.and_true]
    cases hm : isMetalKind q.kind
    · simp only [Bool.false_or, Bool.and_true]
      rw [Bool.and_eq_true]
      constructor
      · cases hi : qIso q.kind with
        | none => rfl
        | some i =>
          simp only
          by_cases hw : qmdl ≤ i + qIsoLo
          · have : decide (qmdl ≤ i + qIsoOff) = true := decide_eq_true (by omega)
            rw [this, Bool.or_true]
          · have : decide (qmdl ≤ i + qIsoLo) = false := decide_eq_false hw
            rw [this]; rfl
      · cases hqr : q.ringSizes with
        | nil => rfl
        | cons r0 qs =>
          simp only
          by_cases h0 : r0 = 0
          · simp [h0]
          · have : ((r0 :: qs).all fun r => r > qRingMax || decide (r ≤ qRingBase)) = true := by
              rw [List.all_eq_true]; intro r hr
              rcases hq.rings with h | h
              · rw [hqr] at h; simp at h; exact absurd h h0
              · have := h r (by rw [hqr]; exact hr)
                have : decide (r ≤ qRingBase) = true := decide_eq_true (by omega)
                rw [this, Bool.or_true]
            rw [this, Bool.or_true]
    · rfl
  · have he := elemIn_kind q hq
    have w1 : Within (qWords qmdl q b).v1 0 64 := by
      cases b with
      | none => rw [qWords_root]; exact within_mono he.1 (by omega) (by omega)
      | some b =>
        rw [qWords_next]
        exact within_or (within_mono he.1 (by omega) (by omega)) (within_mono (within_qBondBits b) (by omega) (by omega))
    have e2 : (qWords qmdl q b).v2 = (qElemPart q.kind).2 ||| hybPart q := by cases b <;> rfl
    have e3 : (qWords qmdl q b).v3 = (if isMetalKind q.kind then qMetalV3 else qV3ext qmdl q) ||| nbPart q := by cases b <;> rfl
    have e4 : (qWords qmdl q b).v4 = if isMetalKind q.kind then qMetalV4 else qV4ext q := by cases b <;> rfl
    have w2 : Within (qWords qmdl q b).v2 0 64 := by
      rw [e2]; exact within_or (within_mono he.2 (by omega) (by omega)) (within_mono (within_hybPart q hq) (by omega) (by omega))
    have w3 : Within (qWords qmdl q b).v3 0 64 := by
      rw [e3]
      apply within_or _ (within_mono (within_nbPart q hq) (by omega) (by omega))
      cases isMetalKind q.kind
      · simp only [Bool.false_eq_true, if_false, qV3ext_eq]
        exact within_or (within_or (within_or (within_mono (within_isoBase qmdl q) (by omega) (by omega))
          (within_mono (within_chgPart q hq) (by omega) (by omega))) (within_mono (within_hPart q hq) (by omega) (by omega)))
          (within_mono (within_hetPart q hq) (by omega) (by omega))
      · simp only [if_true]
        rw [qMetalV3_eq]
        exact within_or (within_mono (within_run 15 0) (by omega) (by omega)) (within_mono (within_run 34 30) (by omega) (by omega))
    have w4 : Within (qWords qmdl q b).v4 0 64 := by
      rw [e4]
      cases isMetalKind q.kind
      · simp only [Bool.false_eq_true, if_false]; exact within_qV4ext q hq
      · simp only [if_true]; rw [qMetalV4_eq]; exact within_run 64 0
    have f1 : decide ((qWords qmdl q b).v1 < two64) = true := decide_eq_true (lt_of_within w1)
    have f2 : decide ((qWords qmdl q b).v2 < two64) = true := decide_eq_true (lt_of_within w2)
    have f3 : decide ((qWords qmdl q b).v3 < two64) = true := decide_eq_true (lt_of_within w3)
    have f4 : decide ((qWords qmdl q b).v4 < two64) = true := decide_eq_true (lt_of_within w4)
    show (decide ((qWords qmdl q b).v1 < two64) && decide ((qWords qmdl q b).v2 < two64) &&
      decide ((qWords qmdl q b).v3 < two64) && decide ((qWords qmdl q b).v4 < two64)) = true
    rw [f1, f2, f3, f4]; rfl

theorem encQAtom_ok (qmdl : Nat) (q : QAtom) (b : Option QBond) (hq : QDom q) :
    encQAtom qmdl q b = .ok (qWords qmdl q b) := by
  have := qatom_ok qmdl q b hq
  simp [encQAtom, this.1, this.2]

end ChythonModel.Proofs.C09
