import ChythonModel.Model.C15Read
/-!
Lemmas about the reader model: `split`/`join` are inverse on separator-free pieces, the three result slices partition
the contracted array, and (main part) contraction of the writer's fragment groups restores the molecules.
-/
namespace ChythonModel.Proofs.C15
open ChythonModel.Model.C15

/-! ## split / join -/

theorem splitOn_ne_nil (sep : Nat) : ∀ s, splitOn sep s ≠ []
  | [] => by simp [splitOn]
  | c :: cs => by
    unfold splitOn
    split
    · simp
    · split <;> simp

theorem splitOn_nosep (sep : Nat) : ∀ p : Str, sep ∉ p → splitOn sep p = [p]
  | [], _ => rfl
  | c :: cs, h => by
    have hc : c ≠ sep := fun e => h (e ▸ List.mem_cons_self)
    have ht : sep ∉ cs := fun m => h (List.mem_cons_of_mem _ m)
    unfold splitOn
    rw [if_neg (by simpa using hc), splitOn_nosep sep cs ht]

theorem splitOn_append_sep (sep : Nat) : ∀ (p rest : Str), sep ∉ p →
    splitOn sep (p ++ sep :: rest) = p :: splitOn sep rest
  | [], rest, _ => by simp [splitOn]
  | c :: cs, rest, h => by
    have hc : c ≠ sep := fun e => h (e ▸ List.mem_cons_self)
    have ht : sep ∉ cs := fun m => h (List.mem_cons_of_mem _ m)
    rw [List.cons_append]
    conv => lhs; unfold splitOn
    rw [if_neg (by simpa using hc), splitOn_append_sep sep cs rest ht]

/-- `sep.join(pieces).split(sep) == pieces` for a non-empty list of separator-free pieces -/
theorem splitOn_join (sep : Nat) : ∀ (pieces : List Str), pieces ≠ [] → (∀ p ∈ pieces, sep ∉ p) →
    splitOn sep (join sep pieces) = pieces
  | [], h, _ => absurd rfl h
  | [x], _, h => by simp [join, splitOn_nosep sep x (h x List.mem_cons_self)]
  | x :: y :: rest, _, h => by
    simp only [join]
    rw [splitOn_append_sep sep x _ (h x List.mem_cons_self),
      splitOn_join sep (y :: rest) (by simp) (fun p hp => h p (List.mem_cons_of_mem _ hp))]

theorem join_flatten (sep : Nat) : ∀ (ms : List (List Str)), (∀ m ∈ ms, m ≠ []) →
    join sep (ms.map (join sep)) = join sep ms.flatten
  | [], _ => rfl
  | [m], _ => by simp [join]
  | m :: m' :: rest, h => by
    have ih := join_flatten sep (m' :: rest) (fun x hx => h x (List.mem_cons_of_mem _ hx))
    have hm : m ≠ [] := h m List.mem_cons_self
    have hm' : m' ≠ [] := h m' (List.mem_cons_of_mem _ List.mem_cons_self)
    simp only [List.map_cons, join, List.flatten_cons] at ih ⊢
    rw [ih]
    -- join sep m ++ sep :: join sep (m' ++ rest.flatten) = join sep (m ++ (m' ++ rest.flatten))
    have key : ∀ (a b : List Str), a ≠ [] → b ≠ [] → join sep a ++ sep :: join sep b = join sep (a ++ b) := by
      intro a
      induction a with
      | nil => intro b h; exact absurd rfl h
      | cons x xs ih =>
        intro b _ hb
        cases xs with
        | nil =>
          cases b with
          | nil => exact absurd rfl hb
          | cons y ys => simp [join]
        | cons x' xs' =>
          have := ih b (by simp) hb
          simp only [join, List.cons_append, List.append_assoc] at this ⊢
          rw [this]
    exact key m (m' ++ rest.flatten) hm (by simp [hm'])

/-- pieces of a written role string: exactly the fragments -/
theorem rolePieces_join (frs : List Str) (h1 : ∀ f ∈ frs, f ≠ []) (h2 : ∀ f ∈ frs, chDot ∉ f) :
    rolePieces (join chDot frs) = frs := by
  unfold rolePieces
  cases frs with
  | nil => simp [join, splitOn]
  | cons x xs =>
    rw [splitOn_join chDot (x :: xs) (by simp) h2]
    apply List.filter_eq_self.mpr
    intro f hf
    have := h1 f hf
    cases f with
    | nil => exact absurd rfl this
    | cons _ _ => rfl

/-! ## the three result slices partition the contracted array (the repaired defect) -/

/-- `new[:lr] + new[lr:mc-lp] + new[mc-lp:] == new` for every `lr + lp ≤ mc`, in particular for `lp = 0` -/
theorem slices_partition {α : Type} (n3 : List α) (lr lp : Nat) (h : lr + lp ≤ n3.length) :
    n3.take lr ++ ((n3.take (n3.length - lp)).drop lr) ++ n3.drop (n3.length - lp) = n3 := by
  have e1 : (n3.take (n3.length - lp)).drop lr = (n3.drop lr).take (n3.length - lp - lr) := by
    rw [List.drop_take]
  rw [e1, List.append_assoc]
  have e2 : n3.drop (n3.length - lp) = (n3.drop lr).drop (n3.length - lp - lr) := by
    rw [List.drop_drop]; congr 1; omega
  rw [e2, List.take_append_drop, List.take_append_drop]

/-! ## contraction: index lemmas -/

/-- the fragment with global index `x` (numbering runs over reactants, reagents, products) -/
def glob (recR recA recP : List Str) (x : Nat) : Str := (recR ++ recA ++ recP).getD x []

theorem pyGet_nonneg {α : Type} (l : List α) (j : Nat) (h : j < l.length) : pyGet l (j : Int) = .ok l[j] := by
  unfold pyGet
  have h1 : ¬ ((j : Int) < 0) := by omega
  simp only [h1, if_false, Int.toNat_natCast, List.getElem?_eq_getElem h]

theorem pyGet_neg {α : Type} (l : List α) (i : Int) (j : Nat) (hneg : i < 0) (e : i + (l.length : Int) = (j : Int))
    (h : j < l.length) : pyGet l i = .ok l[j] := by
  unfold pyGet
  have h1 : ¬ ((j : Int) < 0) := by omega
  simp only [hneg, if_true, e, h1, if_false, Int.toNat_natCast, List.getElem?_eq_getElem h]

theorem pyGet_R (recR recA recP : List Str) (x : Nat) (h : x < recR.length) :
    pyGet recR ((x : Int) + 0) = .ok (glob recR recA recP x) := by
  rw [Int.add_zero, pyGet_nonneg recR x h]
  unfold glob
  rw [List.getD_eq_getElem?_getD, List.append_assoc, List.getElem?_append_left h, List.getElem?_eq_getElem h]
  rfl

theorem pyGet_A (recR recA recP : List Str) (x : Nat) (h1 : recR.length ≤ x) (h2 : x < recR.length + recA.length) :
    pyGet recA ((x : Int) + -(recR.length : Int)) = .ok (glob recR recA recP x) := by
  have e : (x : Int) + -(recR.length : Int) = ((x - recR.length : Nat) : Int) := by omega
  have hl : x - recR.length < recA.length := by omega
  rw [e, pyGet_nonneg recA _ hl]
  unfold glob
  rw [List.getD_eq_getElem?_getD, List.append_assoc, List.getElem?_append_right h1, List.getElem?_append_left hl,
    List.getElem?_eq_getElem hl]
  rfl

theorem pyGet_P (recR recA recP : List Str) (x : Nat) (h1 : recR.length + recA.length ≤ x)
    (h2 : x < recR.length + recA.length + recP.length) :
    pyGet recP ((x : Int) + -((recR.length + recA.length + recP.length : Nat) : Int)) = .ok (glob recR recA recP x) := by
  have hl : x - (recR.length + recA.length) < recP.length := by omega
  rw [pyGet_neg recP _ (x - (recR.length + recA.length)) (by omega) (by omega) hl]
  unfold glob
  rw [List.getD_eq_getElem?_getD, List.getElem?_append_right (by simp only [List.length_append]; exact h1)]
  simp only [List.length_append]
  rw [List.getElem?_eq_getElem hl]
  rfl

theorem pyGets_ok (rec : List Str) (off : Int) (g : Nat → Str) :
    ∀ c : List Nat, (∀ x ∈ c, pyGet rec ((x : Int) + off) = .ok (g x)) → pyGets rec off c = .ok (c.map g)
  | [], _ => rfl
  | x :: xs, h => by
    simp only [pyGets, h x List.mem_cons_self,
      pyGets_ok rec off g xs (fun y hy => h y (List.mem_cons_of_mem _ hy)), List.map_cons]

theorem subset_iff (c s : List Nat) : subset c s = true ↔ ∀ x ∈ c, x ∈ s := by
  simp [subset, List.all_eq_true]

theorem mem_diff (s c : List Nat) (x : Nat) : x ∈ diff s c ↔ x ∈ s ∧ x ∉ c := by
  simp [diff, List.mem_filter]

/-! ## contraction: the loop over the groups -/

structure Inv (recR recA recP : List Str) (st : CState) : Prop where
  len : st.new.length = recR.length + recA.length + recP.length
  hR : ∀ x ∈ st.reactants, x < recR.length
  hA : ∀ x ∈ st.reagents, recR.length ≤ x ∧ x < recR.length + recA.length
  hP : ∀ x ∈ st.products, recR.length + recA.length ≤ x ∧ x < recR.length + recA.length + recP.length

/-- a group that lies inside one of the current role sets -/
def InRole (st : CState) (c : List Nat) : Prop :=
  (∀ x ∈ c, x ∈ st.reactants) ∨ (∀ x ∈ c, x ∈ st.products) ∨ (∀ x ∈ c, x ∈ st.reagents)

/-- value written for a group -/
def groupVal (recR recA recP : List Str) (c : List Nat) : Option Str :=
  some (join chDot (c.map (glob recR recA recP)))

theorem contractStep_ok (recR recA recP : List Str) (st : CState) (s : Nat) (tl : List Nat)
    (inv : Inv recR recA recP st) (hin : InRole st (s :: tl)) :
    ∃ st', contractStep recR recA recP (recR.length + recA.length + recP.length) recR.length st (s :: tl) = .ok st' ∧
      st'.new = st.new.set s (groupVal recR recA recP (s :: tl)) ∧ Inv recR recA recP st' ∧
      (∀ x, x ∈ st'.reactants ↔ x ∈ st.reactants ∧ x ∉ s :: tl) ∧
      (∀ x, x ∈ st'.reagents ↔ x ∈ st.reagents ∧ x ∉ s :: tl) ∧
      (∀ x, x ∈ st'.products ↔ x ∈ st.products ∧ x ∉ s :: tl) := by
  have hs := List.mem_cons_self (a := s) (l := tl)
  unfold contractStep
  by_cases h1 : subset (s :: tl) st.reactants = true
  · have hc := (subset_iff _ _).mp h1
    have hg := pyGets_ok recR 0 (glob recR recA recP) (s :: tl) (fun x hx => pyGet_R recR recA recP x (inv.hR x (hc x hx)))
    have hlt : s < st.new.length := by have := inv.hR s (hc s hs); rw [inv.len]; omega
    simp only [h1, if_true, hg, hlt]
    refine ⟨_, rfl, rfl, ⟨by simp [inv.len], ?_, inv.hA, inv.hP⟩, ?_, ?_, ?_⟩
    · intro x hx; exact inv.hR x ((mem_diff _ _ _).mp hx).1
    · intro x; exact mem_diff _ _ _
    · intro x; constructor
      · intro hx; refine ⟨hx, fun hm => ?_⟩
        have := inv.hR x (hc x hm); have := (inv.hA x hx).1; omega
      · intro hx; exact hx.1
    · intro x; constructor
      · intro hx; refine ⟨hx, fun hm => ?_⟩
        have := inv.hR x (hc x hm); have := (inv.hP x hx).1; omega
      · intro hx; exact hx.1
  · by_cases h2 : subset (s :: tl) st.products = true
    · have hc := (subset_iff _ _).mp h2
      have hg := pyGets_ok recP (-((recR.length + recA.length + recP.length : Nat) : Int)) (glob recR recA recP) (s :: tl)
        (fun x hx => pyGet_P recR recA recP x (inv.hP x (hc x hx)).1 (inv.hP x (hc x hx)).2)
      have hlt : s < st.new.length := by have := (inv.hP s (hc s hs)).2; rw [inv.len]; omega
      simp only [h1, h2, if_true, hg, hlt]
      refine ⟨_, rfl, rfl, ⟨by simp [inv.len], inv.hR, inv.hA, ?_⟩, ?_, ?_, ?_⟩
      · intro x hx; exact inv.hP x ((mem_diff _ _ _).mp hx).1
      · intro x; constructor
        · intro hx; refine ⟨hx, fun hm => ?_⟩
          have := (inv.hP x (hc x hm)).1; have := inv.hR x hx; omega
        · intro hx; exact hx.1
      · intro x; constructor
        · intro hx; refine ⟨hx, fun hm => ?_⟩
          have := (inv.hP x (hc x hm)).1; have := (inv.hA x hx).2; omega
        · intro hx; exact hx.1
      · intro x; exact mem_diff _ _ _
    · have h3 : subset (s :: tl) st.reagents = true := by
        rcases hin with h | h | h
        · exact absurd ((subset_iff _ _).mpr h) h1
        · exact absurd ((subset_iff _ _).mpr h) h2
        · exact (subset_iff _ _).mpr h
      have hc := (subset_iff _ _).mp h3
      have hg := pyGets_ok recA (-(recR.length : Int)) (glob recR recA recP) (s :: tl)
        (fun x hx => pyGet_A recR recA recP x (inv.hA x (hc x hx)).1 (inv.hA x (hc x hx)).2)
      have hlt : s < st.new.length := by have := (inv.hA s (hc s hs)).2; rw [inv.len]; omega
      simp only [h1, h2, h3, if_true, hg, hlt]
      refine ⟨_, rfl, rfl, ⟨by simp [inv.len], inv.hR, ?_, inv.hP⟩, ?_, ?_, ?_⟩
      · intro x hx; exact inv.hA x ((mem_diff _ _ _).mp hx).1
      · intro x; constructor
        · intro hx; refine ⟨hx, fun hm => ?_⟩
          have := (inv.hA x (hc x hm)).1; have := inv.hR x hx; omega
        · intro hx; exact hx.1
      · intro x; exact mem_diff _ _ _
      · intro x; constructor
        · intro hx; refine ⟨hx, fun hm => ?_⟩
          have := (inv.hA x (hc x hm)).2; have := (inv.hP x hx).1; omega
        · intro hx; exact hx.1

/-- writes as (index, value) pairs, applied left to right -/
def applyW (W : List (Nat × Option Str)) (new : List (Option Str)) : List (Option Str) :=
  W.foldl (fun l w => l.set w.1 w.2) new

def groupWrites (recR recA recP : List Str) (gs : List (List Nat)) : List (Nat × Option Str) :=
  gs.map fun g => (g.headD 0, groupVal recR recA recP g)

theorem contractLoop_ok (recR recA recP : List Str) (gs : List (List Nat)) :
    ∀ st, Inv recR recA recP st → (∀ g ∈ gs, g ≠ [] ∧ InRole st g) →
    gs.Pairwise (fun a b => ∀ x ∈ a, x ∉ b) →
    ∃ st', contractLoop recR recA recP (recR.length + recA.length + recP.length) recR.length st gs = .ok st' ∧
      st'.new = applyW (groupWrites recR recA recP gs) st.new ∧ Inv recR recA recP st' ∧
      (∀ x, x ∈ st'.reactants ↔ x ∈ st.reactants ∧ ∀ g ∈ gs, x ∉ g) ∧
      (∀ x, x ∈ st'.reagents ↔ x ∈ st.reagents ∧ ∀ g ∈ gs, x ∉ g) ∧
      (∀ x, x ∈ st'.products ↔ x ∈ st.products ∧ ∀ g ∈ gs, x ∉ g) := by
  induction gs with
  | nil =>
    intro st inv _ _
    exact ⟨st, rfl, rfl, inv, by simp, by simp, by simp⟩
  | cons c rest ih =>
    intro st inv hg hpw
    obtain ⟨hne, hin⟩ := hg c List.mem_cons_self
    cases c with
    | nil => exact absurd rfl hne
    | cons s tl =>
      obtain ⟨st1, e1, n1, inv1, mR, mA, mP⟩ := contractStep_ok recR recA recP st s tl inv hin
      have hpw' := List.pairwise_cons.mp hpw
      have hdis : ∀ g ∈ rest, ∀ x ∈ g, x ∉ s :: tl := fun g hg x hx hc => hpw'.1 g hg x hc hx
      have hg1 : ∀ g ∈ rest, g ≠ [] ∧ InRole st1 g := by
        intro g hgm
        obtain ⟨gne, gin⟩ := hg g (List.mem_cons_of_mem _ hgm)
        refine ⟨gne, ?_⟩
        rcases gin with h | h | h
        · exact Or.inl fun x hx => (mR x).mpr ⟨h x hx, hdis g hgm x hx⟩
        · exact Or.inr (Or.inl fun x hx => (mP x).mpr ⟨h x hx, hdis g hgm x hx⟩)
        · exact Or.inr (Or.inr fun x hx => (mA x).mpr ⟨h x hx, hdis g hgm x hx⟩)
      obtain ⟨st2, e2, n2, inv2, mR2, mA2, mP2⟩ := ih st1 inv1 hg1 hpw'.2
      refine ⟨st2, ?_, ?_, inv2, ?_, ?_, ?_⟩
      · simp only [contractLoop, e1, e2]
      · rw [n2, n1]; rfl
      · intro x; rw [mR2, mR]; simp only [List.forall_mem_cons]; grind
      · intro x; rw [mA2, mA]; simp only [List.forall_mem_cons]; grind
      · intro x; rw [mP2, mP]; simp only [List.forall_mem_cons]; grind

theorem fillRest_ok (rec : List Str) (off : Int) (g : Nat → Str) :
    ∀ (xs : List Nat) (new : List (Option Str)),
      (∀ x ∈ xs, pyGet rec ((x : Int) + off) = .ok (g x) ∧ x < new.length) →
      fillRest rec off xs new = .ok (applyW (xs.map fun x => (x, some (g x))) new)
  | [], new, _ => rfl
  | x :: xs, new, h => by
    obtain ⟨h1, h2⟩ := h x List.mem_cons_self
    simp only [fillRest, h1, h2, if_true]
    rw [fillRest_ok rec off g xs (new.set x (some (g x)))
      (fun y hy => ⟨(h y (List.mem_cons_of_mem _ hy)).1, by simp [(h y (List.mem_cons_of_mem _ hy)).2]⟩)]
    rfl

theorem applyW_append (W1 W2 : List (Nat × Option Str)) (new : List (Option Str)) :
    applyW (W1 ++ W2) new = applyW W2 (applyW W1 new) := by
  simp [applyW, List.foldl_append]

theorem applyW_length (W : List (Nat × Option Str)) : ∀ new, (applyW W new).length = new.length := by
  induction W with
  | nil => intro new; rfl
  | cons w tl ih => intro new; simp only [applyW, List.foldl_cons] at ih ⊢; rw [ih]; simp

/-- no write to position `i`: the cell keeps its content -/
theorem applyW_untouched (W : List (Nat × Option Str)) :
    ∀ new i, (∀ w ∈ W, w.1 ≠ i) → (applyW W new)[i]? = new[i]? := by
  induction W with
  | nil => intro new i _; rfl
  | cons w tl ih =>
    intro new i h
    have := ih (new.set w.1 w.2) i (fun w' hw' => h w' (List.mem_cons_of_mem _ hw'))
    simp only [applyW, List.foldl_cons] at this ⊢
    rw [this, List.getElem?_set_ne (h w List.mem_cons_self)]

/-- all writes to position `i` carry the value `v` and there is one: the cell holds `v` -/
theorem applyW_written (W : List (Nat × Option Str)) :
    ∀ new i v, i < new.length → (∀ w ∈ W, w.1 = i → w.2 = v) → (∃ w ∈ W, w.1 = i) →
      (applyW W new)[i]? = some v := by
  induction W with
  | nil => intro new i v _ _ h; obtain ⟨w, hw, _⟩ := h; cases hw
  | cons w tl ih =>
    intro new i v hi hall hex
    by_cases htl : ∃ w' ∈ tl, w'.1 = i
    · have := ih (new.set w.1 w.2) i v (by simpa using hi)
        (fun w' hw' => hall w' (List.mem_cons_of_mem _ hw')) htl
      simpa only [applyW, List.foldl_cons] using this
    · have hno : ∀ w' ∈ tl, w'.1 ≠ i := fun w' hw' e => htl ⟨w', hw', e⟩
      have hw : w.1 = i := by
        obtain ⟨w', hw', e⟩ := hex
        rcases List.mem_cons.mp hw' with h | h
        · subst h; exact e
        · exact absurd e (hno w' h)
      have hv := hall w List.mem_cons_self hw
      have := applyW_untouched tl (new.set w.1 w.2) i hno
      simp only [applyW, List.foldl_cons] at this ⊢
      rw [this, hw, hv, List.getElem?_set_self hi]

theorem pairwise_disjoint_eq (gs : List (List Nat)) (hpw : gs.Pairwise (fun a b => ∀ x ∈ a, x ∉ b)) :
    ∀ g ∈ gs, ∀ g' ∈ gs, ∀ x, x ∈ g → x ∈ g' → g = g' := by
  induction gs with
  | nil => intro g hg; cases hg
  | cons c rest ih =>
    have hp := List.pairwise_cons.mp hpw
    intro g hg g' hg' x hx hx'
    rcases List.mem_cons.mp hg with e | e <;> rcases List.mem_cons.mp hg' with e' | e'
    · rw [e, e']
    · subst e; exact absurd hx' (hp.1 g' e' x hx)
    · subst e'; exact absurd hx (hp.1 g e x hx')
    · exact ih hp.2 g e g' e' x hx hx'

/-- the initial state of the contraction -/
def st0 (recR recA recP : List Str) : CState :=
  ⟨List.range recR.length, (List.range (recR.length + recA.length)).drop recR.length,
   (List.range (recR.length + recA.length + recP.length)).drop (recR.length + recA.length),
   List.replicate (recR.length + recA.length + recP.length) none⟩

theorem mem_range_drop (n k x : Nat) : x ∈ (List.range n).drop k ↔ k ≤ x ∧ x < n := by
  rw [List.range_eq_range', List.drop_range', List.mem_range'_1]
  omega

theorem inv_st0 (recR recA recP : List Str) : Inv recR recA recP (st0 recR recA recP) := by
  refine ⟨by simp [st0], ?_, ?_, ?_⟩
  · intro x hx; simpa [st0] using hx
  · intro x hx; exact (mem_range_drop _ _ _).mp hx
  · intro x hx; exact (mem_range_drop _ _ _).mp hx

/-- the array after contraction and filling, position by position, for any admissible list of groups -/
theorem contractRoles_array (recR recA recP : List Str) (gs : List (List Nat))
    (hg : ∀ g ∈ gs, g ≠ [] ∧ InRole (st0 recR recA recP) g)
    (hpw : gs.Pairwise (fun a b => ∀ x ∈ a, x ∉ b)) :
    ∃ n3 : List (Option Str),
      contractRoles recR recA recP gs = .ok (somes (n3.take recR.length),
        somes ((n3.take (recR.length + recA.length)).drop recR.length), somes (n3.drop (recR.length + recA.length))) ∧
      n3.length = recR.length + recA.length + recP.length ∧
      ∀ i, i < recR.length + recA.length + recP.length →
        (∀ g ∈ gs, g.headD 0 = i → n3[i]? = some (groupVal recR recA recP g)) ∧
        ((∃ g ∈ gs, i ∈ g) → (∀ g ∈ gs, g.headD 0 ≠ i) → n3[i]? = some none) ∧
        ((∀ g ∈ gs, i ∉ g) → n3[i]? = some (some (glob recR recA recP i))) := by
  obtain ⟨st, eL, nL, inv, mR, mA, mP⟩ :=
    contractLoop_ok recR recA recP gs (st0 recR recA recP) (inv_st0 recR recA recP) hg hpw
  have len0 : (applyW (groupWrites recR recA recP gs) (st0 recR recA recP).new).length
      = recR.length + recA.length + recP.length := by rw [applyW_length]; simp [st0]
  have f1 := fillRest_ok recR 0 (glob recR recA recP) st.reactants st.new
    (fun x hx => ⟨pyGet_R recR recA recP x (inv.hR x hx), by rw [inv.len]; have := inv.hR x hx; omega⟩)
  have f2 := fillRest_ok recP (-((recR.length + recA.length + recP.length : Nat) : Int)) (glob recR recA recP) st.products
    (applyW (st.reactants.map fun x => (x, some (glob recR recA recP x))) st.new)
    (fun x hx => ⟨pyGet_P recR recA recP x (inv.hP x hx).1 (inv.hP x hx).2,
      by rw [applyW_length, inv.len]; exact (inv.hP x hx).2⟩)
  have f3 := fillRest_ok recA (-(recR.length : Int)) (glob recR recA recP) st.reagents
    (applyW (st.products.map fun x => (x, some (glob recR recA recP x)))
      (applyW (st.reactants.map fun x => (x, some (glob recR recA recP x))) st.new))
    (fun x hx => ⟨pyGet_A recR recA recP x (inv.hA x hx).1 (inv.hA x hx).2,
      by rw [applyW_length, applyW_length, inv.len]; have := (inv.hA x hx).2; omega⟩)
  let W := groupWrites recR recA recP gs ++ (st.reactants.map fun x => (x, some (glob recR recA recP x)))
    ++ (st.products.map fun x => (x, some (glob recR recA recP x)))
    ++ (st.reagents.map fun x => (x, some (glob recR recA recP x)))
  refine ⟨applyW W (st0 recR recA recP).new, ?_, ?_, ?_⟩
  · unfold contractRoles
    have e0 : (⟨List.range recR.length,
        (List.range (recR.length + recA.length + recP.length - recP.length)).drop recR.length,
        (List.range (recR.length + recA.length + recP.length)).drop (recR.length + recA.length + recP.length - recP.length),
        List.replicate (recR.length + recA.length + recP.length) none⟩ : CState) = st0 recR recA recP := by
      simp [st0]
    simp only [e0, eL, f1, f2, f3]
    have hW : applyW W (st0 recR recA recP).new =
        applyW (st.reagents.map fun x => (x, some (glob recR recA recP x)))
          (applyW (st.products.map fun x => (x, some (glob recR recA recP x)))
            (applyW (st.reactants.map fun x => (x, some (glob recR recA recP x))) st.new)) := by
      simp only [W, applyW_append, nL]
    rw [hW, Nat.add_sub_cancel]
  · rw [applyW_length]; simp [st0]
  · intro i hi
    have hi0 : i < (st0 recR recA recP).new.length := by simp [st0]; exact hi
    have new0 : (st0 recR recA recP).new[i]? = some none := by
      simp [st0, List.getElem?_replicate, hi]
    -- membership in W
    have memW : ∀ w, w ∈ W ↔ (∃ g ∈ gs, w = (g.headD 0, groupVal recR recA recP g)) ∨
        ((w.1 ∈ st.reactants ∨ w.1 ∈ st.products ∨ w.1 ∈ st.reagents) ∧ w.2 = some (glob recR recA recP w.1)) := by
      intro w
      simp only [W, groupWrites, List.mem_append, List.mem_map]
      constructor
      · rintro (((⟨g, hg, e⟩ | ⟨x, hx, e⟩) | ⟨x, hx, e⟩) | ⟨x, hx, e⟩)
        · exact Or.inl ⟨g, hg, e.symm⟩
        · subst e; exact Or.inr ⟨Or.inl hx, rfl⟩
        · subst e; exact Or.inr ⟨Or.inr (Or.inl hx), rfl⟩
        · subst e; exact Or.inr ⟨Or.inr (Or.inr hx), rfl⟩
      · rintro (⟨g, hg, e⟩ | ⟨h | h | h, e⟩)
        · exact Or.inl (Or.inl (Or.inl ⟨g, hg, e.symm⟩))
        · exact Or.inl (Or.inl (Or.inr ⟨w.1, h, by rw [← e]⟩))
        · exact Or.inl (Or.inr ⟨w.1, h, by rw [← e]⟩)
        · exact Or.inr ⟨w.1, h, by rw [← e]⟩
    have notIn : ∀ x, (x ∈ st.reactants ∨ x ∈ st.products ∨ x ∈ st.reagents) → ∀ g ∈ gs, x ∉ g := by
      rintro x (h | h | h)
      · exact ((mR x).mp h).2
      · exact ((mP x).mp h).2
      · exact ((mA x).mp h).2
    have headMem : ∀ g ∈ gs, g.headD 0 ∈ g := by
      intro g hgm
      have := (hg g hgm).1
      cases g with
      | nil => exact absurd rfl this
      | cons a t => simp
    refine ⟨?_, ?_, ?_⟩
    · intro g hgm hhead
      apply applyW_written W _ i _ hi0
      · intro w hw hk
        rcases (memW w).mp hw with ⟨g', hg', e⟩ | ⟨hin, _⟩
        · subst e
          simp only at hk
          have := pairwise_disjoint_eq gs hpw g' hg' g hgm i (hk ▸ headMem g' hg') (hhead ▸ headMem g hgm)
          rw [this]
        · exact absurd (hhead ▸ headMem g hgm) (notIn w.1 hin g hgm |> fun h => by rw [hk] at h; exact h)
      · exact ⟨(g.headD 0, groupVal recR recA recP g), (memW _).mpr (Or.inl ⟨g, hgm, rfl⟩), hhead⟩
    · rintro ⟨g, hgm, hig⟩ hnh
      rw [applyW_untouched W _ i, new0]
      intro w hw hk
      rcases (memW w).mp hw with ⟨g', hg', e⟩ | ⟨hin, _⟩
      · subst e; exact hnh g' hg' hk
      · exact notIn w.1 hin g hgm (hk ▸ hig)
    · intro hnot
      apply applyW_written W _ i _ hi0
      · intro w hw hk
        rcases (memW w).mp hw with ⟨g', hg', e⟩ | ⟨_, e⟩
        · subst e; exact absurd (hk ▸ headMem g' hg') (hnot g' hg')
        · rw [e, hk]
      · have : i ∈ st.reactants ∨ i ∈ st.products ∨ i ∈ st.reagents := by
          by_cases h1 : i < recR.length
          · exact Or.inl ((mR i).mpr ⟨by simp [st0, h1], hnot⟩)
          · by_cases h2 : i < recR.length + recA.length
            · exact Or.inr (Or.inr ((mA i).mpr ⟨(mem_range_drop _ _ _).mpr ⟨by omega, h2⟩, hnot⟩))
            · exact Or.inr (Or.inl ((mP i).mpr ⟨(mem_range_drop _ _ _).mpr ⟨by omega, hi⟩, hnot⟩))
        exact ⟨(i, some (glob recR recA recP i)), (memW _).mpr (Or.inr ⟨this, rfl⟩), rfl⟩

/-! ## the writer's groups -/

/-- fragment groups `ReactionContainer.__format__` emits for molecules given as lists of component strings, the
    running fragment counter starting at `s` (same arithmetic as `molStep`) -/
def groupsFrom : Nat → List (List Str) → List (List Nat)
  | _, [] => []
  | s, m :: rest =>
    (if m.length > 1 then [(List.range m.length).map (· + s)] else [])
      ++ groupsFrom (if m.length > 1 then s + m.length else s + 1) rest

theorem groupsFrom_cons (s : Nat) (m : List Str) (rest : List (List Str)) (hm : m ≠ []) :
    groupsFrom s (m :: rest) =
      (if m.length > 1 then [(List.range m.length).map (· + s)] else []) ++ groupsFrom (s + m.length) rest := by
  have : 0 < m.length := List.length_pos_iff.mpr hm
  conv => lhs; unfold groupsFrom
  by_cases h : m.length > 1
  · simp only [h, if_true]
  · have h1 : m.length = 1 := by omega
    simp only [h, if_false]
    rw [h1]

theorem groupsFrom_bounds (ms : List (List Str)) (hne : ∀ m ∈ ms, m ≠ []) :
    ∀ s, ∀ g ∈ groupsFrom s ms, g ≠ [] ∧ ∀ x ∈ g, s ≤ x ∧ x < s + ms.flatten.length := by
  induction ms with
  | nil => intro s g hg; simp [groupsFrom] at hg
  | cons m rest ih =>
    intro s g hg
    have hm := hne m List.mem_cons_self
    rw [groupsFrom_cons s m rest hm] at hg
    rcases List.mem_append.mp hg with h | h
    · by_cases hk : m.length > 1
      · simp only [hk, if_true, List.mem_singleton] at h
        subst h
        refine ⟨List.ne_nil_of_length_pos (by simp only [List.length_map, List.length_range]; omega), ?_⟩
        intro x hx
        simp only [List.mem_map, List.mem_range] at hx
        obtain ⟨j, hj, e⟩ := hx
        simp only [List.flatten_cons, List.length_append]; omega
      · simp [hk] at h
    · have := ih (fun m' hm' => hne m' (List.mem_cons_of_mem _ hm')) (s + m.length) g h
      refine ⟨this.1, fun x hx => ?_⟩
      have := this.2 x hx
      simp only [List.flatten_cons, List.length_append]; omega

theorem groupsFrom_pairwise (ms : List (List Str)) (hne : ∀ m ∈ ms, m ≠ []) :
    ∀ s, (groupsFrom s ms).Pairwise (fun a b => ∀ x ∈ a, x ∉ b) := by
  induction ms with
  | nil => intro s; simp [groupsFrom]
  | cons m rest ih =>
    intro s
    have hm := hne m List.mem_cons_self
    have hne' : ∀ m' ∈ rest, m' ≠ [] := fun m' hm' => hne m' (List.mem_cons_of_mem _ hm')
    rw [groupsFrom_cons s m rest hm, List.pairwise_append]
    refine ⟨?_, ih hne' _, ?_⟩
    · by_cases hk : m.length > 1 <;> simp [hk]
    · intro a ha b hb x hxa hxb
      by_cases hk : m.length > 1
      · simp only [hk, if_true, List.mem_singleton] at ha
        subst ha
        simp only [List.mem_map, List.mem_range] at hxa
        obtain ⟨j, hj, e⟩ := hxa
        have := ((groupsFrom_bounds rest hne' (s + m.length) b hb).2 x hxb).1
        omega
      · simp [hk] at ha

theorem groupsFrom_append (X Y : List (List Str)) (hne : ∀ m ∈ X, m ≠ []) :
    ∀ s, groupsFrom s (X ++ Y) = groupsFrom s X ++ groupsFrom (s + X.flatten.length) Y := by
  induction X with
  | nil => intro s; simp [groupsFrom]
  | cons m rest ih =>
    intro s
    have hm := hne m List.mem_cons_self
    rw [List.cons_append, groupsFrom_cons s m _ hm, groupsFrom_cons s m rest hm,
      ih (fun m' hm' => hne m' (List.mem_cons_of_mem _ hm')) (s + m.length)]
    simp only [List.flatten_cons, List.length_append, List.append_assoc, Nat.add_assoc]

/-! ## the expected array -/

/-- cells occupied by one molecule: its joined string at the first fragment position, `None` at the others -/
def block (m : List Str) : List (Option Str) :=
  if m.length > 1 then some (join chDot m) :: List.replicate (m.length - 1) none else m.map some

def cell : List (List Str) → Nat → Option Str
  | [], _ => none
  | m :: rest, i => if i < m.length then (if i = 0 then some (join chDot m) else none) else cell rest (i - m.length)

theorem block_length (m : List Str) (hm : m ≠ []) : (block m).length = m.length := by
  have : 0 < m.length := List.length_pos_iff.mpr hm
  unfold block; split <;> simp <;> omega

theorem block_get (m : List Str) (hm : m ≠ []) (i : Nat) (hi : i < m.length) :
    (block m)[i]? = some (if i = 0 then some (join chDot m) else none) := by
  unfold block
  by_cases hk : m.length > 1
  · simp only [hk, if_true]
    cases i with
    | zero => simp
    | succ j => simp [List.getElem?_replicate]; omega
  · have h1 : m.length = 1 := by have : 0 < m.length := List.length_pos_iff.mpr hm; omega
    have hi0 : i = 0 := by omega
    subst hi0
    match m, h1 with
    | [x], _ => simp [join]

theorem flatMap_block_length (ms : List (List Str)) (hne : ∀ m ∈ ms, m ≠ []) :
    (ms.flatMap block).length = ms.flatten.length := by
  induction ms with
  | nil => rfl
  | cons m rest ih =>
    simp only [List.flatMap_cons, List.length_append, List.flatten_cons,
      block_length m (hne m List.mem_cons_self), ih (fun m' hm' => hne m' (List.mem_cons_of_mem _ hm'))]

theorem flatMap_block_get (ms : List (List Str)) (hne : ∀ m ∈ ms, m ≠ []) :
    ∀ i, i < ms.flatten.length → (ms.flatMap block)[i]? = some (cell ms i) := by
  induction ms with
  | nil => intro i hi; simp at hi
  | cons m rest ih =>
    intro i hi
    have hm := hne m List.mem_cons_self
    simp only [List.flatMap_cons, cell]
    by_cases hlt : i < m.length
    · rw [List.getElem?_append_left (by rw [block_length m hm]; exact hlt), block_get m hm i hlt]
      simp [hlt]
    · rw [List.getElem?_append_right (by rw [block_length m hm]; omega), block_length m hm]
      simp only [hlt, if_false]
      apply ih (fun m' hm' => hne m' (List.mem_cons_of_mem _ hm'))
      simp only [List.flatten_cons, List.length_append] at hi; omega

theorem somes_block (m : List Str) (hm : m ≠ []) : somes (block m) = [join chDot m] := by
  unfold block somes
  by_cases hk : m.length > 1
  · simp only [hk, if_true, List.filterMap_cons, id]
    have : ∀ n, (List.replicate n (none : Option Str)).filterMap id = [] := by
      intro n; induction n with
      | zero => rfl
      | succ k ih => simp [List.replicate_succ, ih]
    rw [this]
  · have h1 : m.length = 1 := by have : 0 < m.length := List.length_pos_iff.mpr hm; omega
    match m, h1 with
    | [x], _ => simp [join]

theorem somes_flatMap_block (ms : List (List Str)) (hne : ∀ m ∈ ms, m ≠ []) :
    somes (ms.flatMap block) = ms.map (join chDot) := by
  induction ms with
  | nil => rfl
  | cons m rest ih =>
    have := ih (fun m' hm' => hne m' (List.mem_cons_of_mem _ hm'))
    simp only [somes] at this ⊢
    simp only [List.flatMap_cons, List.filterMap_append, List.map_cons, this]
    have h := somes_block m (hne m List.mem_cons_self)
    simp only [somes] at h
    rw [h]; rfl

theorem getD_append_right' (a b : List Str) (j : Nat) : (a ++ b).getD (a.length + j) [] = b.getD j [] := by
  simp only [List.getD_eq_getElem?_getD]
  rw [List.getElem?_append_right (by omega)]
  congr 2; omega

/-- the three cases of the contracted array agree with the expected array, for the writer's groups -/
theorem cell_spec (gl : Nat → Str) (ms : List (List Str)) (hne : ∀ m ∈ ms, m ≠ []) :
    ∀ s, (∀ j, j < ms.flatten.length → gl (s + j) = ms.flatten.getD j []) →
    ∀ i, s ≤ i → i < s + ms.flatten.length →
      (∀ g ∈ groupsFrom s ms, g.headD 0 = i → cell ms (i - s) = some (join chDot (g.map gl))) ∧
      ((∃ g ∈ groupsFrom s ms, i ∈ g) → (∀ g ∈ groupsFrom s ms, g.headD 0 ≠ i) → cell ms (i - s) = none) ∧
      ((∀ g ∈ groupsFrom s ms, i ∉ g) → cell ms (i - s) = some (gl i)) := by
  induction ms with
  | nil => intro s _ i h1 h2; simp at h2; omega
  | cons m rest ih =>
    intro s loc i h1 h2
    have hm := hne m List.mem_cons_self
    have hne' : ∀ m' ∈ rest, m' ≠ [] := fun m' hm' => hne m' (List.mem_cons_of_mem _ hm')
    have hk0 : 0 < m.length := List.length_pos_iff.mpr hm
    have hflat : (m :: rest).flatten = m ++ rest.flatten := rfl
    rw [groupsFrom_cons s m rest hm]
    have locm : ∀ j, j < m.length → gl (s + j) = m.getD j [] := by
      intro j hj
      rw [loc j (by rw [hflat, List.length_append]; omega), hflat]
      simp only [List.getD_eq_getElem?_getD]
      rw [List.getElem?_append_left hj]
    have loc' : ∀ j, j < rest.flatten.length → gl (s + m.length + j) = rest.flatten.getD j [] := by
      intro j hj
      rw [Nat.add_assoc, loc (m.length + j) (by rw [hflat, List.length_append]; omega), hflat]
      exact getD_append_right' m rest.flatten j
    have g0map : ((List.range m.length).map (· + s)).map gl = m := by
      apply List.ext_getElem
      · simp
      · intro j h1 h2
        simp only [List.getElem_map, List.getElem_range]
        have hj : j < m.length := by simpa using h1
        rw [Nat.add_comm, locm j hj, List.getD_eq_getElem?_getD, List.getElem?_eq_getElem hj]; rfl
    have restBounds := groupsFrom_bounds rest hne' (s + m.length)
    by_cases hlt : i < s + m.length
    · -- position inside the block of `m`
      have hrest : ∀ g ∈ groupsFrom (s + m.length) rest, i ∉ g ∧ g.headD 0 ≠ i := by
        intro g hg
        have hb := restBounds g hg
        refine ⟨fun hi => by have := (hb.2 i hi).1; omega, fun hh => ?_⟩
        cases g with
        | nil => exact hb.1 rfl
        | cons a t => simp only [List.headD_cons] at hh; have := (hb.2 a List.mem_cons_self).1; omega
      have hcell : cell (m :: rest) (i - s) = if i - s = 0 then some (join chDot m) else none := by
        simp only [cell]; rw [if_pos (by omega)]
      rw [hcell]
      refine ⟨?_, ?_, ?_⟩
      · intro g hg hh
        rcases List.mem_append.mp hg with h | h
        · by_cases hk : m.length > 1
          · simp only [hk, if_true, List.mem_singleton] at h
            subst h
            have : i = s := by
              have : ((List.range m.length).map (· + s)).headD 0 = s := by
                cases hm' : m.length with
                | zero => omega
                | succ k => simp [List.range_succ_eq_map]
              omega
            rw [g0map]; simp [this]
          · simp [hk] at h
        · exact absurd hh (hrest g h).2
      · rintro ⟨g, hg, hig⟩ hnh
        rcases List.mem_append.mp hg with h | h
        · by_cases hk : m.length > 1
          · simp only [hk, if_true, List.mem_singleton] at h
            have hs : i ≠ s := by
              intro e
              apply hnh ((List.range m.length).map (· + s)) (List.mem_append.mpr (Or.inl (by simp [hk])))
              cases hm' : m.length with
              | zero => omega
              | succ k => simp [List.range_succ_eq_map, e]
            rw [if_neg (by omega)]
          · simp [hk] at h
        · exact absurd hig (hrest g h).1
      · intro hnot
        by_cases hk : m.length > 1
        · exfalso
          apply hnot ((List.range m.length).map (· + s)) (List.mem_append.mpr (Or.inl (by simp [hk])))
          simp only [List.mem_map, List.mem_range]
          exact ⟨i - s, by omega, by omega⟩
        · have h1' : m.length = 1 := by omega
          have his : i = s := by omega
          rw [if_pos (by omega), his]
          have := locm 0 (by omega)
          rw [Nat.add_zero] at this
          rw [this]
          match m, h1' with
          | [x], _ => simp [join]
    · -- position behind the block of `m`
      have hcell : cell (m :: rest) (i - s) = cell rest (i - (s + m.length)) := by
        simp only [cell]; rw [if_neg (by omega)]; congr 1; omega
      have hg0 : ∀ g ∈ (if m.length > 1 then [(List.range m.length).map (· + s)] else []), i ∉ g ∧ g.headD 0 ≠ i := by
        intro g hg
        by_cases hk : m.length > 1
        · simp only [hk, if_true, List.mem_singleton] at hg
          subst hg
          refine ⟨fun hi => ?_, fun hh => ?_⟩
          · simp only [List.mem_map, List.mem_range] at hi
            obtain ⟨j, hj, e⟩ := hi; omega
          · cases hm' : m.length with
            | zero => omega
            | succ k => rw [hm'] at hh; simp [List.range_succ_eq_map] at hh; omega
        · simp [hk] at hg
      have IH := ih hne' (s + m.length) loc' i (by omega)
        (by rw [hflat, List.length_append] at h2; omega)
      rw [hcell]
      refine ⟨?_, ?_, ?_⟩
      · intro g hg hh
        rcases List.mem_append.mp hg with h | h
        · exact absurd hh (hg0 g h).2
        · exact IH.1 g h hh
      · rintro ⟨g, hg, hig⟩ hnh
        rcases List.mem_append.mp hg with h | h
        · exact absurd hig (hg0 g h).1
        · exact IH.2.1 ⟨g, h, hig⟩ (fun g' hg' => hnh g' (List.mem_append.mpr (Or.inr hg')))
      · intro hnot
        exact IH.2.2 (fun g hg => hnot g (List.mem_append.mpr (Or.inr hg)))

/-- **contraction restores the molecules**: for the groups the writer emits -/
theorem contractRoles_writer (R A P : List (List Str)) (hne : ∀ m ∈ R ++ A ++ P, m ≠ []) :
    contractRoles R.flatten A.flatten P.flatten (groupsFrom 0 (R ++ A ++ P)) =
      .ok (R.map (join chDot), A.map (join chDot), P.map (join chDot)) := by
  have hR : ∀ m ∈ R, m ≠ [] := fun m hm => hne m (by simp [hm])
  have hA : ∀ m ∈ A, m ≠ [] := fun m hm => hne m (by simp [hm])
  have hP : ∀ m ∈ P, m ≠ [] := fun m hm => hne m (by simp [hm])
  have hRA : ∀ m ∈ R ++ A, m ≠ [] := fun m hm => hne m (by
    rcases List.mem_append.mp hm with h | h <;> simp [h])
  have hgs : groupsFrom 0 (R ++ A ++ P) = groupsFrom 0 R ++ groupsFrom R.flatten.length A
      ++ groupsFrom (R.flatten.length + A.flatten.length) P := by
    rw [groupsFrom_append (R ++ A) P hRA 0, groupsFrom_append R A hR 0]
    simp [List.flatten_append]
  have hflat : (R ++ A ++ P).flatten = R.flatten ++ A.flatten ++ P.flatten := by simp [List.flatten_append]
  have hg : ∀ g ∈ groupsFrom 0 (R ++ A ++ P), g ≠ [] ∧ InRole (st0 R.flatten A.flatten P.flatten) g := by
    intro g hgm
    rw [hgs] at hgm
    rcases List.mem_append.mp hgm with h | h
    · rcases List.mem_append.mp h with h | h
      · have hb := groupsFrom_bounds R hR 0 g h
        exact ⟨hb.1, Or.inl fun x hx => by
          have := (hb.2 x hx).2
          show x ∈ List.range R.flatten.length
          exact List.mem_range.mpr (by omega)⟩
      · have hb := groupsFrom_bounds A hA _ g h
        exact ⟨hb.1, Or.inr (Or.inr fun x hx => (mem_range_drop _ _ _).mpr (hb.2 x hx))⟩
    · have hb := groupsFrom_bounds P hP _ g h
      exact ⟨hb.1, Or.inr (Or.inl fun x hx => (mem_range_drop _ _ _).mpr (hb.2 x hx))⟩
  obtain ⟨n3, eq, len, spec⟩ := contractRoles_array R.flatten A.flatten P.flatten (groupsFrom 0 (R ++ A ++ P)) hg
    (groupsFrom_pairwise (R ++ A ++ P) hne 0)
  have hn3 : n3 = (R ++ A ++ P).flatMap block := by
    apply List.ext_getElem?
    intro i
    by_cases hi : i < R.flatten.length + A.flatten.length + P.flatten.length
    · have hi' : i < (R ++ A ++ P).flatten.length := by rw [hflat]; simp only [List.length_append]; exact hi
      rw [flatMap_block_get (R ++ A ++ P) hne i hi']
      have cs := cell_spec (glob R.flatten A.flatten P.flatten) (R ++ A ++ P) hne 0
        (by intro j _; rw [Nat.zero_add, hflat]; rfl) i (Nat.zero_le _) (by omega)
      rw [Nat.sub_zero] at cs
      obtain ⟨s1, s2, s3⟩ := spec i hi
      by_cases h1 : ∃ g ∈ groupsFrom 0 (R ++ A ++ P), g.headD 0 = i
      · obtain ⟨g, hgm, hh⟩ := h1
        rw [s1 g hgm hh, cs.1 g hgm hh]; rfl
      · have h1' : ∀ g ∈ groupsFrom 0 (R ++ A ++ P), g.headD 0 ≠ i := fun g hgm hh => h1 ⟨g, hgm, hh⟩
        by_cases h2 : ∃ g ∈ groupsFrom 0 (R ++ A ++ P), i ∈ g
        · rw [s2 h2 h1', cs.2.1 h2 h1']
        · have h2' : ∀ g ∈ groupsFrom 0 (R ++ A ++ P), i ∉ g := fun g hgm hh => h2 ⟨g, hgm, hh⟩
          rw [s3 h2', cs.2.2 h2']
    · rw [List.getElem?_eq_none (by omega), List.getElem?_eq_none (by
        rw [flatMap_block_length _ hne, hflat]; simp only [List.length_append]; omega)]
  rw [eq, hn3]
  have lR := flatMap_block_length R hR
  have lA := flatMap_block_length A hA
  have e1 : ((R ++ A ++ P).flatMap block).take R.flatten.length = R.flatMap block := by
    simp only [List.flatMap_append, List.append_assoc]
    rw [List.take_append_of_le_length (by omega), ← lR, List.take_length]
  have e2 : (((R ++ A ++ P).flatMap block).take (R.flatten.length + A.flatten.length)).drop R.flatten.length
      = A.flatMap block := by
    simp only [List.flatMap_append]
    rw [← lR, ← lA, ← List.length_append, List.take_left', List.drop_left']
    · rfl
    · rfl
  have e3 : ((R ++ A ++ P).flatMap block).drop (R.flatten.length + A.flatten.length) = P.flatMap block := by
    simp only [List.flatMap_append]
    rw [← lR, ← lA, ← List.length_append, List.drop_left']
    rfl
  rw [e1, e2, e3, somes_flatMap_block R hR, somes_flatMap_block A hA, somes_flatMap_block P hP]

/-! ## the writer's output read by the reader -/

/-- what the writer knows about a molecule given as its component strings -/
def sigOf (rad : List Str → List Bool) (m : List Str) : MolSig := ⟨join chDot m, m.length, rad m⟩

theorem foldl_molStep_contract (rad : List Str → List Bool) (ms : List (List Str)) :
    ∀ acc : FmtAcc, ((ms.map (sigOf rad)).foldl molStep acc).contract = acc.contract ++ groupsFrom acc.count ms := by
  induction ms with
  | nil => intro acc; simp [groupsFrom]
  | cons m rest ih =>
    intro acc
    simp only [List.map_cons, List.foldl_cons]
    rw [ih]
    have e : groupsFrom acc.count (m :: rest) =
        (if m.length > 1 then [(List.range m.length).map (· + acc.count)] else [])
          ++ groupsFrom (if m.length > 1 then acc.count + m.length else acc.count + 1) rest := by
      rw [groupsFrom]
    rw [e]
    unfold molStep sigOf
    by_cases hk : m.length > 1
    · simp only [hk, if_true, List.append_assoc, List.singleton_append]
    · simp only [hk, if_false, List.nil_append]

theorem formatCore_contract (rad : List Str → List Bool) (R A P : List (List Str)) :
    (formatCore true (R.map (sigOf rad)) (A.map (sigOf rad)) (P.map (sigOf rad))).contract
      = groupsFrom 0 (R ++ A ++ P) := by
  unfold formatCore sortRole
  simp only [if_true, ← List.map_append]
  rw [foldl_molStep_contract]; rfl

theorem formatCore_roles (rad : List Str → List Bool) (R A P : List (List Str)) :
    (formatCore true (R.map (sigOf rad)) (A.map (sigOf rad)) (P.map (sigOf rad))).roles
      = [R.map (join chDot), A.map (join chDot), P.map (join chDot)] := by
  unfold formatCore sortRole
  simp [sigOf, List.map_map, Function.comp_def]

theorem mem_join (sep : Nat) : ∀ (l : List Str) (c : Nat), c ∈ join sep l → c = sep ∨ ∃ p ∈ l, c ∈ p
  | [], c, h => by simp [join] at h
  | [x], c, h => by simp only [join] at h; exact Or.inr ⟨x, List.mem_cons_self, h⟩
  | x :: y :: rest, c, h => by
    simp only [join, List.mem_append, List.mem_cons] at h
    rcases h with h | h | h
    · exact Or.inr ⟨x, List.mem_cons_self, h⟩
    · exact Or.inl h
    · rcases mem_join sep (y :: rest) c h with h' | ⟨p, hp, hc⟩
      · exact Or.inl h'
      · exact Or.inr ⟨p, List.mem_cons_of_mem _ hp, hc⟩

theorem groupsFrom_nil_singletons (ms : List (List Str)) (hne : ∀ m ∈ ms, m ≠ []) :
    ∀ s, groupsFrom s ms = [] → ms.flatten = ms.map (join chDot) := by
  induction ms with
  | nil => intro _ _; rfl
  | cons m rest ih =>
    intro s h
    have hm := hne m List.mem_cons_self
    rw [groupsFrom_cons s m rest hm] at h
    have h' := List.append_eq_nil_iff.mp h
    have hk : ¬ m.length > 1 := by
      intro hk; simp [hk] at h'
    have h1 : m.length = 1 := by have : 0 < m.length := List.length_pos_iff.mpr hm; omega
    rw [List.flatten_cons, List.map_cons, ih (fun m' hm' => hne m' (List.mem_cons_of_mem _ hm')) _ h'.2]
    match m, h1 with
    | [x], _ => simp [join]

/-- well-formed written molecules: at least one component, components are non-empty and contain neither `.` nor `>` -/
def WrittenOK (ms : List (List Str)) : Prop :=
  ∀ m ∈ ms, m ≠ [] ∧ ∀ f ∈ m, f ≠ [] ∧ chDot ∉ f ∧ chGt ∉ f

theorem read_written (R A P : List (List Str)) (hR : WrittenOK R) (hA : WrittenOK A) (hP : WrittenOK P)
    (hne : R ++ A ++ P ≠ []) (contract : List (List Nat)) (hc : contract = groupsFrom 0 (R ++ A ++ P)) :
    readSmi (join chGt [join chDot (R.map (join chDot)), join chDot (A.map (join chDot)), join chDot (P.map (join chDot))])
        (some contract) =
      .roles (R.map (join chDot)) (A.map (join chDot)) (P.map (join chDot)) := by
  have neR : ∀ m ∈ R, m ≠ [] := fun m hm => (hR m hm).1
  have neA : ∀ m ∈ A, m ≠ [] := fun m hm => (hA m hm).1
  have neP : ∀ m ∈ P, m ≠ [] := fun m hm => (hP m hm).1
  have neAll : ∀ m ∈ R ++ A ++ P, m ≠ [] := by
    intro m hm
    simp only [List.mem_append] at hm
    rcases hm with (h | h) | h
    · exact neR m h
    · exact neA m h
    · exact neP m h
  -- the role strings
  have roleStr : ∀ X : List (List Str), WrittenOK X →
      chGt ∉ join chDot (X.map (join chDot)) ∧ rolePieces (join chDot (X.map (join chDot))) = X.flatten := by
    intro X hX
    have neX : ∀ m ∈ X, m ≠ [] := fun m hm => (hX m hm).1
    rw [join_flatten chDot X neX]
    have frs : ∀ f ∈ X.flatten, f ≠ [] ∧ chDot ∉ f ∧ chGt ∉ f := by
      intro f hf
      obtain ⟨m, hm, hfm⟩ := List.mem_flatten.mp hf
      exact (hX m hm).2 f hfm
    refine ⟨?_, rolePieces_join X.flatten (fun f hf => (frs f hf).1) (fun f hf => (frs f hf).2.1)⟩
    intro hmem
    rcases mem_join chDot X.flatten chGt hmem with h | ⟨f, hf, hc⟩
    · simp [chGt, chDot] at h
    · exact (frs f hf).2.2 hc
  obtain ⟨gR, pR⟩ := roleStr R hR
  obtain ⟨gA, pA⟩ := roleStr A hA
  obtain ⟨gP, pP⟩ := roleStr P hP
  have hsplit := splitOn_join chGt [join chDot (R.map (join chDot)), join chDot (A.map (join chDot)),
    join chDot (P.map (join chDot))] (by simp) (by
      intro p hp
      simp only [List.mem_cons, List.mem_nil_iff, or_false] at hp
      rcases hp with rfl | rfl | rfl <;> assumption)
  have hcont : (join chGt [join chDot (R.map (join chDot)), join chDot (A.map (join chDot)),
      join chDot (P.map (join chDot))]).contains chGt = true := by
    simp [join]
  have hnotempty : ¬ ((R.map (join chDot)).isEmpty && (A.map (join chDot)).isEmpty && (P.map (join chDot)).isEmpty) = true := by
    intro h
    simp only [Bool.and_eq_true, List.isEmpty_iff, List.map_eq_nil_iff] at h
    apply hne; rw [h.1.1, h.1.2, h.2]; rfl
  unfold readSmi
  simp only [hcont, Bool.not_true, Bool.false_eq_true, if_false, hsplit, pR, pA, pP]
  cases hcl : contract with
  | nil =>
    simp only
    have hnil : groupsFrom 0 (R ++ A ++ P) = [] := by rw [← hc, hcl]
    have hfl := groupsFrom_nil_singletons (R ++ A ++ P) neAll 0 hnil
    simp only [List.flatten_append, List.map_append] at hfl
    have lenR : R.flatten.length = (R.map (join chDot)).length := by
      have := groupsFrom_nil_singletons R neR 0 (by
        have := hnil; rw [groupsFrom_append (R ++ A) P (by
          intro m hm; exact neAll m (List.mem_append.mpr (Or.inl hm))) 0,
          groupsFrom_append R A neR 0] at this
        exact (List.append_eq_nil_iff.mp (List.append_eq_nil_iff.mp this).1).1)
      rw [this]
    have eR : R.flatten = R.map (join chDot) := by
      have := congrArg (List.take R.flatten.length) hfl
      rw [List.append_assoc, List.take_left', lenR, List.append_assoc, List.take_left'] at this
      · exact this
      · rfl
      · rfl
    rw [eR, List.append_assoc, List.append_assoc] at hfl
    have hfl2 := List.append_cancel_left hfl
    have lenA : A.flatten.length = (A.map (join chDot)).length := by
      have := groupsFrom_nil_singletons A neA R.flatten.length (by
        have := hnil; rw [groupsFrom_append (R ++ A) P (by
          intro m hm; exact neAll m (List.mem_append.mpr (Or.inl hm))) 0,
          groupsFrom_append R A neR 0] at this
        have h2 := (List.append_eq_nil_iff.mp (List.append_eq_nil_iff.mp this).1).2
        simpa using h2)
      rw [this]
    have eA : A.flatten = A.map (join chDot) := by
      have := congrArg (List.take A.flatten.length) hfl2
      rw [List.take_left', lenA, List.take_left'] at this
      · exact this
      · rfl
      · rfl
    rw [eA] at hfl2
    have eP := List.append_cancel_left hfl2
    rw [eR, eA, eP]
    unfold mkRxn
    rw [if_neg hnotempty]
  | cons g gs =>
    simp only
    rw [← hcl, hc, contractRoles_writer R A P neAll]
    simp only
    unfold mkRxn
    rw [if_neg hnotempty]

end ChythonModel.Proofs.C15
