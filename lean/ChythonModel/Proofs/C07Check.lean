import Mathlib.Data.List.Nodup
import Mathlib.Data.List.Basic
import ChythonModel.Model.IsoCheck
/-!
Soundness of the executable checker `checkCompiled`: what an accepted linearisation guarantees (`CompOK`).
-/
namespace ChythonModel.Proofs.C07
open ChythonModel.Model.Iso

theorem setEq_iff (a b : List Nat) : setEq a b = true ↔ ∀ m, m ∈ a ↔ m ∈ b := by
  simp only [setEq, Bool.and_eq_true, List.all_eq_true, List.contains_iff_mem]
  constructor
  · rintro ⟨h1, h2⟩ m; exact ⟨h1 m, h2 m⟩
  · intro h; exact ⟨fun m hm => (h m).1 hm, fun m hm => (h m).2 hm⟩

/-- what the checker guarantees about one step whose earlier-visited atoms (same component) are `earlier` -/
structure StepOK (q : Graph) (cl : Closures) (CF earlier : List Nat) (s : Step) : Prop where
  closed : ∀ v ∈ q.nbrs s.front, v ∈ CF
  back_none : s.back = none → earlier = []
  back_some : ∀ b, s.back = some b → b ∈ earlier ∧ b ∈ q.nbrs s.front ∧ b ∉ cl.get s.front
  nodup : (cl.get s.front).Nodup
  cls : ∀ m, m ∈ s.back.toList ++ cl.get s.front ↔ (m ∈ q.nbrs s.front ∧ m ∈ earlier)

theorem checkSteps_sound (q : Graph) (cl : Closures) (CF : List Nat) :
    ∀ (rest pre : List Step), checkSteps q cl CF (pre.map (·.front)) rest = true →
      ∀ i s, rest[i]? = some s → StepOK q cl CF ((pre ++ rest.take i).map (·.front)) s := by
  intro rest
  induction rest with
  | nil => intro pre _ i s h; simp at h
  | cons s0 rest ih =>
    intro pre h i s hi
    simp only [checkSteps, Bool.and_eq_true] at h
    obtain ⟨⟨⟨⟨hA, hB⟩, hC⟩, hD⟩, hrec⟩ := h
    cases i with
    | zero =>
      simp at hi
      subst hi
      simp only [List.take_zero, List.append_nil]
      refine ⟨?_, ?_, ?_, ?_, ?_⟩
      · intro v hv
        simp only [List.all_eq_true, List.contains_iff_mem] at hA
        exact hA v hv
      · intro hb
        rw [hb] at hB
        simpa using hB
      · intro b hb
        rw [hb] at hB
        simp only [Bool.and_eq_true, List.contains_iff_mem, Graph.hasBond, Bool.not_eq_true'] at hB
        refine ⟨hB.1.1, hB.1.2, ?_⟩
        intro hm
        have := List.contains_iff_mem.2 hm
        rw [hB.2] at this
        exact Bool.noConfusion this
      · simpa using hC
      · intro m
        have := (setEq_iff _ _).1 hD m
        simpa [List.mem_filter, List.contains_iff_mem] using this
    | succ i =>
      simp at hi
      have := ih (pre ++ [s0]) (by simpa using hrec) i s hi
      simpa using this

structure CompOK (q : Graph) (cl : Closures) (lq : List Step) : Prop where
  ne : lq ≠ []
  step : ∀ i s, lq[i]? = some s → StepOK q cl (lq.map (·.front)) ((lq.take i).map (·.front)) s

theorem checkComp_sound (q : Graph) (cl : Closures) (lq : List Step) (h : checkComp q cl lq = true) :
    CompOK q cl lq := by
  simp only [checkComp, Bool.and_eq_true, Bool.not_eq_true', List.isEmpty_eq_false_iff] at h
  refine ⟨h.1, ?_⟩
  intro i s hi
  have := checkSteps_sound q cl (lq.map (·.front)) lq [] (by simpa using h.2) i s hi
  simpa using this

/-- everything `checkCompiled` guarantees -/
structure CompiledOK (q : Graph) (comps : List (List Step)) (cl : Closures) : Prop where
  nodup : (comps.flatten.map (·.front)).Nodup
  sub : ∀ u ∈ comps.flatten.map (·.front), u ∈ q.atoms
  cover : ∀ u ∈ q.atoms, u ∈ comps.flatten.map (·.front)
  comp : ∀ lq ∈ comps, CompOK q cl lq

theorem checkCompiled_sound (q : Graph) (comps : List (List Step)) (cl : Closures)
    (h : checkCompiled q comps cl = true) : CompiledOK q comps cl := by
  simp only [checkCompiled, Bool.and_eq_true, List.all_eq_true, List.contains_iff_mem, decide_eq_true_eq] at h
  obtain ⟨⟨⟨h1, h2⟩, h3⟩, h4⟩ := h
  exact ⟨h1, h2, h3, fun lq hlq => checkComp_sound q cl lq (h4 lq hlq)⟩

/-- the fronts of one accepted component are pairwise distinct -/
theorem CompiledOK.comp_nodup {q comps cl} (h : CompiledOK q comps cl) {lq} (hlq : lq ∈ comps) :
    (lq.map (·.front)).Nodup := by
  have hsub : List.Sublist lq comps.flatten := List.sublist_flatten_of_mem hlq
  exact List.Nodup.sublist (List.Sublist.map _ hsub) h.nodup

end ChythonModel.Proofs.C07
