import ChythonModel.Model.C16Ions
/-!
# C16 — `_sift_ions` / `_contract_ions` / one side of `contract_ions()`: what the pairing loop does

The pairing loop `go` consumes every anion; cations that are left when the anions run out are DROPPED (`while anions:`),
so `go` keeps all its input only under the charge balance that `_sift_ions` guarantees.
-/
namespace ChythonModel.Proofs.C16I
open ChythonModel.Model.C16I

def chg (l : List Ion) : Int := (l.map (·.charge)).sum

def curIons (cur : Option (List Ion × Int)) : List Ion :=
  match cur with
  | none => []
  | some (s, _) => s

/-! ### charge of a list -/

@[simp] theorem chg_nil : chg [] = 0 := rfl
@[simp] theorem chg_cons (a : Ion) (l : List Ion) : chg (a :: l) = a.charge + chg l := by simp [chg]
@[simp] theorem chg_append (l1 l2 : List Ion) : chg (l1 ++ l2) = chg l1 + chg l2 := by
  induction l1 with
  | nil => simp
  | cons a tl ih => simp [ih]; omega

theorem chg_perm {l1 l2 : List Ion} (h : l1.Perm l2) : chg l1 = chg l2 := by
  induction h with
  | nil => rfl
  | cons x _ ih => simp [ih]
  | swap x y l => simp; omega
  | trans _ _ ih1 ih2 => exact ih1.trans ih2

@[simp] theorem chg_reverse (l : List Ion) : chg l.reverse = chg l := chg_perm (List.reverse_perm l)

theorem chg_flatten_zero (l : List (List Ion)) (h : ∀ s ∈ l, chg s = 0) : chg l.flatten = 0 := by
  induction l with
  | nil => rfl
  | cons s tl ih =>
    simp only [List.flatten_cons, chg_append]
    rw [h s (by simp), ih (fun x hx => h x (List.mem_cons_of_mem _ hx))]
    rfl

theorem chg_nonneg {l : List Ion} (h : ∀ c ∈ l, c.charge > 0) : 0 ≤ chg l := by
  induction l with
  | nil => simp
  | cons a tl ih =>
    have := h a (by simp)
    have := ih (fun x hx => h x (List.mem_cons_of_mem _ hx))
    simp; omega

theorem chg_nonpos {l : List Ion} (h : ∀ c ∈ l, c.charge < 0) : chg l ≤ 0 := by
  induction l with
  | nil => simp
  | cons a tl ih =>
    have := h a (by simp)
    have := ih (fun x hx => h x (List.mem_cons_of_mem _ hx))
    simp; omega

theorem eq_nil_of_pos_chg_zero {l : List Ion} (h : ∀ c ∈ l, c.charge > 0) (h0 : chg l = 0) : l = [] := by
  cases l with
  | nil => rfl
  | cons a tl =>
    have := h a (by simp)
    have := chg_nonneg (l := tl) (fun x hx => h x (List.mem_cons_of_mem _ hx))
    simp at h0; omega

/-- `cur` carries the charge of its salt, and a salt under construction is never empty -/
def CurOK (cur : Option (List Ion × Int)) : Prop := ∀ s c, cur = some (s, c) → c = chg s ∧ s ≠ []

/-! ### A. the pairing loop -/

/-- everything about one run of the loop at once: the salts already made stay in front (`new` is what the run adds), every
anion is used, the cations not used (`rest`) are the ones at the bottom of the stack, every new salt is neutral and non-empty -/
theorem go_spec (cur : Option (List Ion × Int)) (an ct : List Ion) (salts : List (List Ion)) :
    ∀ res, go cur an ct salts = .ok res →
    ∃ new rest, res = salts ++ new ∧ rest <:+ ct ∧ (new.flatten ++ rest).Perm (curIons cur ++ an ++ ct) ∧
      (CurOK cur → ∀ s ∈ new, chg s = 0 ∧ s ≠ []) := by
  fun_induction go cur an ct salts with
  | case1 ct salts =>
    intro res h
    simp only [Except.ok.injEq] at h
    subst h
    exact ⟨[], ct, by simp, List.suffix_refl _, by simp [curIons], by simp⟩
  | case2 => intro res h; cases h
  | case3 salts a an' c ct' ih =>
    intro res h
    obtain ⟨new, rest, h1, h2, h3, h4⟩ := ih res h
    refine ⟨new, rest, h1, h2.trans (List.suffix_cons c ct'), ?_, ?_⟩
    · refine h3.trans ?_
      simp only [curIons, List.cons_append, List.nil_append]
      exact (List.Perm.swap a c _).trans (List.Perm.cons a List.perm_middle.symm)
    · intro _
      apply h4
      intro s c' e
      simp only [Option.some.injEq, Prod.mk.injEq] at e
      obtain ⟨rfl, rfl⟩ := e
      simp
  | case4 => intro res h; cases h
  | case5 ct salts salt c hc a an' ih =>
    intro res h
    obtain ⟨new, rest, h1, h2, h3, h4⟩ := ih res h
    refine ⟨new, rest, h1, h2, by simpa [curIons] using h3, ?_⟩
    intro hok
    apply h4
    intro s c' e
    simp only [Option.some.injEq, Prod.mk.injEq] at e
    obtain ⟨rfl, rfl⟩ := e
    obtain ⟨e1, _⟩ := hok salt c rfl
    simp [e1]
  | case6 => intro res h; cases h
  | case7 an salts salt c hc1 hc2 k ct' ih =>
    intro res h
    obtain ⟨new, rest, h1, h2, h3, h4⟩ := ih res h
    refine ⟨new, rest, h1, h2.trans (List.suffix_cons k ct'), ?_, ?_⟩
    · refine h3.trans ?_
      simp only [curIons, List.append_assoc, List.cons_append, List.nil_append]
      exact List.Perm.append_left _ List.perm_middle.symm
    · intro hok
      apply h4
      intro s c' e
      simp only [Option.some.injEq, Prod.mk.injEq] at e
      obtain ⟨rfl, rfl⟩ := e
      obtain ⟨e1, _⟩ := hok salt c rfl
      simp [e1]
  | case8 an ct salts salt c hc1 hc2 ih =>
    intro res h
    obtain ⟨new, rest, h1, h2, h3, h4⟩ := ih res h
    refine ⟨salt :: new, rest, by simp [h1], h2, ?_, ?_⟩
    · simp only [curIons, List.flatten_cons, List.append_assoc, List.nil_append] at h3 ⊢
      exact List.Perm.append_left _ h3
    · intro hok
      obtain ⟨e1, e2⟩ := hok salt c rfl
      have hnew := h4 (by intro s c' e; cases e)
      intro s hs
      rcases List.mem_cons.1 hs with rfl | hs
      · exact ⟨by omega, e2⟩
      · exact hnew s hs

/-- A2: the salts already made stay where they are -/
theorem go_prefix {cur an ct salts res} (h : go cur an ct salts = .ok res) : ∃ new, res = salts ++ new := by
  obtain ⟨new, _, h1, _⟩ := go_spec cur an ct salts res h
  exact ⟨new, h1⟩

/-- A3: every salt the loop appends is neutral and non-empty -/
theorem go_neutral {cur an ct salts new} (hok : ∀ s c, cur = some (s, c) → c = chg s ∧ s ≠ [])
    (h : go cur an ct salts = .ok (salts ++ new)) : ∀ s ∈ new, chg s = 0 ∧ s ≠ [] := by
  obtain ⟨new', _, h1, _, _, h4⟩ := go_spec cur an ct salts _ h
  have : new = new' := List.append_cancel_left h1
  subst this
  exact h4 hok

/-- A1 without any assumption on charges: nothing is invented, every anion is used, and what is lost is a bottom part
`rest` of the cation stack (the cations still there when `while anions:` ends) -/
theorem go_perm_rest {cur an ct salts res} (h : go cur an ct salts = .ok res) :
    ∃ rest, rest <:+ ct ∧ (res.flatten ++ rest).Perm (salts.flatten ++ curIons cur ++ an ++ ct) := by
  obtain ⟨new, rest, h1, h2, h3, _⟩ := go_spec cur an ct salts res h
  refine ⟨rest, h2, ?_⟩
  subst h1
  simp only [List.flatten_append, List.append_assoc] at h3 ⊢
  exact List.Perm.append_left _ h3

/-- the cations dropped by a run: none when the stack holds positive ions only and the charges balance -/
theorem go_rest_nil {cur an ct salts res} (hcur : CurOK cur) (hct : ∀ c ∈ ct, c.charge > 0)
    (hbal : chg (curIons cur) + chg an + chg ct = 0) (h : go cur an ct salts = .ok res) :
    ∃ new, res = salts ++ new ∧ new.flatten.Perm (curIons cur ++ an ++ ct) ∧ ∀ s ∈ new, chg s = 0 ∧ s ≠ [] := by
  obtain ⟨new, rest, h1, h2, h3, h4⟩ := go_spec cur an ct salts res h
  have hz := chg_flatten_zero new (fun s hs => (h4 hcur s hs).1)
  have hc := chg_perm h3
  simp only [chg_append] at hc
  have hrest : rest = [] := eq_nil_of_pos_chg_zero (fun c hc' => hct c (h2.subset hc')) (by omega)
  subst hrest
  exact ⟨new, h1, by simpa using h3, h4 hcur⟩

/-- A1 (needs the balance; see `go_drops_cations` for why): the run only regroups its input -/
theorem go_perm {cur an ct salts res} (hcur : CurOK cur) (hct : ∀ c ∈ ct, c.charge > 0)
    (hbal : chg (curIons cur) + chg an + chg ct = 0) (h : go cur an ct salts = .ok res) :
    res.flatten.Perm (salts.flatten ++ curIons cur ++ an ++ ct) := by
  obtain ⟨new, h1, h3, _⟩ := go_rest_nil hcur hct hbal h
  subst h1
  simp only [List.flatten_append, List.append_assoc] at h3 ⊢
  exact List.Perm.append_left _ h3

/-- the unconditional A1 is false: cations left when the anions run out disappear -/
theorem go_drops_cations : go none [] [⟨1, 1, 1⟩] [] = .ok [] ∧
    ¬ ([] : List (List Ion)).flatten.Perm (([] : List (List Ion)).flatten ++ curIons none ++ [] ++ [⟨1, 1, 1⟩]) := by
  refine ⟨by rw [go], ?_⟩
  simp [curIons]

/-- A4: with negative anions, positive cations and balanced charges the loop never pops an empty list -/
theorem go_total (cur : Option (List Ion × Int)) (an ct : List Ion) (salts : List (List Ion))
    (han : ∀ a ∈ an, a.charge < 0) (hct : ∀ c ∈ ct, c.charge > 0)
    (hcur : ∀ s c, cur = some (s, c) → c = chg s)
    (hbal : chg (curIons cur) + chg an + chg ct = 0) : ∃ res, go cur an ct salts = .ok res := by
  fun_induction go cur an ct salts with
  | case1 ct salts => exact ⟨_, rfl⟩
  | case2 salts a an' =>
    have := han a (by simp)
    have := chg_nonpos (l := an') (fun x hx => han x (List.mem_cons_of_mem _ hx))
    simp [curIons] at hbal
    omega
  | case3 salts a an' c ct' ih =>
    apply ih (fun x hx => han x (List.mem_cons_of_mem _ hx)) (fun x hx => hct x (List.mem_cons_of_mem _ hx))
    · intro s c' e
      simp only [Option.some.injEq, Prod.mk.injEq] at e
      obtain ⟨rfl, rfl⟩ := e
      simp
    · simp [curIons] at hbal ⊢
      omega
  | case4 ct salts salt c hc =>
    have := hcur salt c rfl
    have := chg_nonneg hct
    simp [curIons] at hbal
    omega
  | case5 ct salts salt c hc a an' ih =>
    have e1 := hcur salt c rfl
    apply ih (fun x hx => han x (List.mem_cons_of_mem _ hx)) hct
    · intro s c' e
      simp only [Option.some.injEq, Prod.mk.injEq] at e
      obtain ⟨rfl, rfl⟩ := e
      simp [e1]
    · simp [curIons] at hbal ⊢
      omega
  | case6 an salts salt c hc1 hc2 =>
    have := hcur salt c rfl
    have := chg_nonpos han
    simp [curIons] at hbal
    omega
  | case7 an salts salt c hc1 hc2 k ct' ih =>
    have e1 := hcur salt c rfl
    apply ih han (fun x hx => hct x (List.mem_cons_of_mem _ hx))
    · intro s c' e
      simp only [Option.some.injEq, Prod.mk.injEq] at e
      obtain ⟨rfl, rfl⟩ := e
      simp [e1]
    · simp [curIons] at hbal ⊢
      omega
  | case8 an ct salts salt c hc1 hc2 ih =>
    have e1 := hcur salt c rfl
    apply ih han hct (by intro s c' e; cases e)
    simp [curIons] at hbal ⊢
    omega

/-- A5: `pop from empty list` is reachable: an anion with no cation to pair it with -/
example : go none [⟨1, 1, -1⟩] [] [] = .error .indexError := by rw [go]

/-- A5: a salt that stays negative after the last cation -/
example : go none [⟨1, 1, -2⟩] [⟨2, 2, 1⟩] [] = .error .indexError := by
  simp [go]

/-! ### B. `_contract_ions` -/

theorem isEmpty_false_iff {α} (l : List α) : l.isEmpty = false ↔ l ≠ [] := by
  cases l <;> simp

/-- B1: when `_contract_ions` returns `None` -/
theorem contractIons_none_iff (anions cations : List Ion) (total : Int) :
    contractIons anions cations total = .ok none ↔
      anions = [] ∨ cations = [] ∨ (total > 0 ∧ cations.length > 1) ∨ (total < 0 ∧ anions.length > 1) ∨
      (total = 0 ∧ distinct anions > 1 ∧ distinct cations > 1) := by
  unfold contractIons
  by_cases ha : anions = []
  · simp [ha]
  by_cases hc : cations = []
  · simp [hc]
  have e1 : (anions.isEmpty || cations.isEmpty) = false := by
    simp [(isEmpty_false_iff anions).2 ha, (isEmpty_false_iff cations).2 hc]
  simp only [e1, Bool.false_eq_true, if_false, ha, hc, false_or]
  by_cases hp : total > 0
  · have : ¬ total < 0 := by omega
    have : ¬ total = 0 := by omega
    by_cases hl : cations.length > 1 <;> simp [*]
  by_cases hn : total < 0
  · have : ¬ total = 0 := by omega
    by_cases hl : anions.length > 1 <;> simp [*]
  have h0 : total = 0 := by omega
  by_cases hd : distinct anions > 1 ∧ distinct cations > 1
  · simp [h0, hd.1, hd.2]
  · have hd' : (decide (distinct anions > 1) && decide (distinct cations > 1)) = false := by
      cases h : (decide (distinct anions > 1) && decide (distinct cations > 1)) with
      | false => rfl
      | true => simp at h; exact absurd h hd
    simp only [if_false, hd', Bool.false_eq_true, h0]
    cases go none anions.reverse cations.reverse [] <;> simp [hd]

/-- what `_contract_ions` returns when it returns salts -/
theorem contractIons_some_cases {anions cations : List Ion} {total : Int} {salts : List (List Ion)}
    (h : contractIons anions cations total = .ok (some salts)) :
    anions ≠ [] ∧ cations ≠ [] ∧
    ((total > 0 ∧ salts = [cations ++ anions]) ∨ (total < 0 ∧ salts = [anions ++ cations]) ∨
     (total = 0 ∧ go none anions.reverse cations.reverse [] = .ok salts)) := by
  unfold contractIons at h
  by_cases ha : anions = []
  · simp [ha] at h
  by_cases hc : cations = []
  · simp [hc] at h
  have e1 : (anions.isEmpty || cations.isEmpty) = false := by
    simp [(isEmpty_false_iff anions).2 ha, (isEmpty_false_iff cations).2 hc]
  simp only [e1, Bool.false_eq_true, if_false] at h
  refine ⟨ha, hc, ?_⟩
  by_cases hp : total > 0
  · simp only [hp, if_true] at h
    split at h
    · cases h
    · simp only [Except.ok.injEq, Option.some.injEq] at h
      exact Or.inl ⟨hp, h.symm⟩
  by_cases hn : total < 0
  · simp only [hp, hn, if_true, if_false] at h
    split at h
    · cases h
    · simp only [Except.ok.injEq, Option.some.injEq] at h
      exact Or.inr (Or.inl ⟨hn, h.symm⟩)
  simp only [hp, hn, if_false] at h
  split at h
  · cases h
  · split at h
    · cases h
    · next r hr =>
      simp only [Except.ok.injEq, Option.some.injEq] at h
      subst h
      exact Or.inr (Or.inr ⟨by omega, hr⟩)

/-- the salts `_contract_ions` returns are never empty molecules -/
theorem contractIons_nonempty {anions cations : List Ion} {total : Int} {salts : List (List Ion)}
    (h : contractIons anions cations total = .ok (some salts)) : ∀ s ∈ salts, s ≠ [] := by
  obtain ⟨ha, hc, h | h | h⟩ := contractIons_some_cases h
  · obtain ⟨_, rfl⟩ := h
    simp [hc]
  · obtain ⟨_, rfl⟩ := h
    simp [ha]
  · obtain ⟨_, hgo⟩ := h
    obtain ⟨new, _, h1, _, _, h4⟩ := go_spec _ _ _ _ _ hgo
    simp only [List.nil_append] at h1
    subst h1
    exact fun s hs => (h4 (by intro s c e; cases e) s hs).2

/-- B2 (needs positive cations and the true total): the salts are the ions, regrouped -/
theorem contractIons_perm {anions cations : List Ion} {total : Int} {salts : List (List Ion)}
    (hct : ∀ c ∈ cations, c.charge > 0) (htot : total = chg anions + chg cations)
    (h : contractIons anions cations total = .ok (some salts)) : salts.flatten.Perm (anions ++ cations) := by
  obtain ⟨_, _, h | h | h⟩ := contractIons_some_cases h
  · obtain ⟨_, rfl⟩ := h
    simpa using List.perm_append_comm
  · obtain ⟨_, rfl⟩ := h
    simp
  · obtain ⟨h0, hgo⟩ := h
    have := go_perm (cur := none) (by intro s c e; cases e) (by simpa using hct)
      (by simp [curIons]; omega) hgo
    simp only [curIons, List.flatten_nil, List.nil_append, List.append_nil] at this
    exact this.trans (List.Perm.append (List.reverse_perm _) (List.reverse_perm _))

/-- the unconditional B2 is false: called with a `total` that is not the sum, a cation is lost -/
theorem contractIons_drops_cations :
    contractIons [⟨1, 1, -1⟩] [⟨2, 2, 1⟩, ⟨3, 2, 1⟩] 0 = .ok (some [[⟨3, 2, 1⟩, ⟨1, 1, -1⟩]]) := by
  have hg : go none [⟨1, 1, -1⟩] [⟨3, 2, 1⟩, ⟨2, 2, 1⟩] [] = .ok [[⟨3, 2, 1⟩, ⟨1, 1, -1⟩]] := by
    simp [go]
  simp [contractIons, distinct, List.eraseDups_cons, hg]

/-- B3: on what `_sift_ions` produces `_contract_ions` never raises -/
theorem contractIons_total {anions cations : List Ion} {total : Int}
    (han : ∀ a ∈ anions, a.charge < 0) (hct : ∀ c ∈ cations, c.charge > 0)
    (htot : total = chg anions + chg cations) : ∃ r, contractIons anions cations total = .ok r := by
  unfold contractIons
  split
  · exact ⟨_, rfl⟩
  split
  · split <;> exact ⟨_, rfl⟩
  split
  · split <;> exact ⟨_, rfl⟩
  split
  · exact ⟨_, rfl⟩
  obtain ⟨res, hres⟩ := go_total none anions.reverse cations.reverse [] (by simpa using han) (by simpa using hct)
    (by intro s c e; cases e) (by simp [curIons]; omega)
  rw [hres]
  exact ⟨_, rfl⟩

/-- B4: balanced → every salt neutral; unbalanced → one salt carrying the whole charge -/
theorem contractIons_charges {anions cations : List Ion} {total : Int} {salts : List (List Ion)}
    (htot : total = chg anions + chg cations)
    (h : contractIons anions cations total = .ok (some salts)) :
    (total = 0 → ∀ s ∈ salts, chg s = 0) ∧ (total ≠ 0 → ∃ s, salts = [s] ∧ chg s = total) := by
  obtain ⟨_, _, h | h | h⟩ := contractIons_some_cases h
  · obtain ⟨hp, rfl⟩ := h
    exact ⟨fun h0 => by omega, fun _ => ⟨_, rfl, by simp; omega⟩⟩
  · obtain ⟨hp, rfl⟩ := h
    exact ⟨fun h0 => by omega, fun _ => ⟨_, rfl, by simp; omega⟩⟩
  · obtain ⟨h0, hgo⟩ := h
    refine ⟨fun _ => ?_, fun hne => absurd h0 hne⟩
    obtain ⟨new, _, h1, _, _, h4⟩ := go_spec _ _ _ _ _ hgo
    simp only [List.nil_append] at h1
    subst h1
    exact fun s hs => (h4 (by intro s c e; cases e) s hs).1

/-! ### C. `_sift_ions` and one side of `contract_ions()` -/

theorem sift_perm (mols : List Ion) :
    (mols.filter (fun m => m.charge == 0) ++ mols.filter (fun m => m.charge > 0) ++
      mols.filter (fun m => m.charge < 0)).Perm mols := by
  induction mols with
  | nil => simp
  | cons m tl ih =>
    rcases Int.lt_trichotomy m.charge 0 with h | h | h
    · have e1 : ¬ m.charge = 0 := by omega
      have e2 : ¬ 0 < m.charge := by omega
      simp only [List.filter_cons, beq_iff_eq, e1, if_false, gt_iff_lt, decide_eq_true_eq, e2, h, if_true]
      exact List.perm_middle.trans (List.Perm.cons m ih)
    · have e2 : ¬ 0 < m.charge := by omega
      have e3 : ¬ m.charge < 0 := by omega
      simp only [List.filter_cons, beq_iff_eq, h, if_true, gt_iff_lt, decide_eq_true_eq, List.cons_append]
      exact List.Perm.cons m ih
    · have e1 : ¬ m.charge = 0 := by omega
      have e3 : ¬ m.charge < 0 := by omega
      have ih' : (tl.filter (fun m => m.charge == 0) ++ (tl.filter (fun m => m.charge > 0) ++
          tl.filter (fun m => m.charge < 0))).Perm tl := by simpa [List.append_assoc] using ih
      simp only [List.filter_cons, beq_iff_eq, e1, if_false, gt_iff_lt, decide_eq_true_eq, h, if_true, e3,
        List.append_assoc, List.cons_append]
      exact List.perm_middle.trans (List.Perm.cons m ih')

theorem flatten_singletons (l : List Ion) : (l.map fun m => [m]).flatten = l := by
  induction l with
  | nil => rfl
  | cons a tl ih => simp [ih]

/-- C1: `_sift_ions` splits the molecules by the sign of their charge, order kept, and sums the charges -/
theorem siftIons_spec (mols : List Ion) :
    let r := siftIons mols
    (∀ m ∈ r.1, m.charge = 0) ∧ (∀ m ∈ r.2.1, m.charge > 0) ∧ (∀ m ∈ r.2.2.1, m.charge < 0) ∧
    r.2.2.2 = chg mols ∧ r.2.2.2 = chg r.2.1 + chg r.2.2.1 ∧
    (r.1 ++ r.2.1 ++ r.2.2.1).Perm mols ∧
    r.1.Sublist mols ∧ r.2.1.Sublist mols ∧ r.2.2.1.Sublist mols := by
  have hp := sift_perm mols
  have hn : ∀ m ∈ mols.filter (fun m => m.charge == 0), m.charge = 0 := by
    intro m hm; simpa using (List.mem_filter.1 hm).2
  refine ⟨hn, ?_, ?_, rfl, ?_, hp, List.filter_sublist, List.filter_sublist, List.filter_sublist⟩
  · intro m hm; simpa using (List.mem_filter.1 hm).2
  · intro m hm; simpa using (List.mem_filter.1 hm).2
  · have := chg_perm hp
    have hz : chg (mols.filter (fun m => m.charge == 0)) = 0 := by
      have := chg_flatten_zero ((mols.filter (fun m => m.charge == 0)).map fun m => [m]) (by
        intro s hs
        obtain ⟨m, hm, rfl⟩ := List.mem_map.1 hs
        simp [hn m hm])
      rwa [flatten_singletons] at this
    simp only [chg_append] at this
    show chg mols = _
    simp only [siftIons]
    omega

/-- the three outcomes of one side, with the lists `_sift_ions` made -/
theorem contractSide_eq (mols : List Ion) :
    contractSide mols =
      match contractIons (mols.filter (fun m => m.charge < 0)) (mols.filter (fun m => m.charge > 0)) (chg mols) with
      | .error e => .error e
      | .ok none => .ok (mols.map fun m => [m])
      | .ok (some salts) => .ok ((mols.filter (fun m => m.charge == 0)).map (fun m => [m]) ++ salts) := rfl

/-- the facts `_sift_ions` hands to `_contract_ions` -/
theorem sift_hyps (mols : List Ion) :
    (∀ a ∈ mols.filter (fun m => m.charge < 0), a.charge < 0) ∧
    (∀ c ∈ mols.filter (fun m => m.charge > 0), c.charge > 0) ∧
    chg mols = chg (mols.filter (fun m => m.charge < 0)) + chg (mols.filter (fun m => m.charge > 0)) := by
  obtain ⟨_, h2, h3, _, h5, _⟩ := siftIons_spec mols
  refine ⟨h3, h2, ?_⟩
  have : chg mols = chg (mols.filter (fun m => m.charge > 0)) + chg (mols.filter (fun m => m.charge < 0)) := h5
  omega

/-- the shared tail of `contractSide` / `contractProducts`: the ions handed to `_contract_ions` are the sifted ones up to
order -/
theorem side_core {mols anions' cations' : List Ion} {r : List (List Ion)}
    (hpa : anions'.Perm (mols.filter (fun m => m.charge < 0)))
    (hpc : cations'.Perm (mols.filter (fun m => m.charge > 0)))
    (h : (match contractIons anions' cations' (chg mols) with
      | .error e => .error e
      | .ok none => .ok (mols.map fun m => [m])
      | .ok (some salts) => .ok ((mols.filter (fun m => m.charge == 0)).map (fun m => [m]) ++ salts)) = Except.ok r) :
    r = mols.map (fun m => [m]) ∨
    ∃ salts, contractIons anions' cations' (chg mols) = .ok (some salts) ∧
      r = (mols.filter (fun m => m.charge == 0)).map (fun m => [m]) ++ salts ∧
      salts.flatten.Perm (mols.filter (fun m => m.charge < 0) ++ mols.filter (fun m => m.charge > 0)) ∧
      (∀ s ∈ salts, s ≠ []) ∧ (chg mols = 0 → ∀ s ∈ salts, chg s = 0) := by
  obtain ⟨han, hct, htot⟩ := sift_hyps mols
  have hct' : ∀ c ∈ cations', c.charge > 0 := fun c hc => hct c (hpc.subset hc)
  have htot' : chg mols = chg anions' + chg cations' := by rw [chg_perm hpa, chg_perm hpc]; exact htot
  split at h
  · cases h
  · simp only [Except.ok.injEq] at h
    exact Or.inl h.symm
  · next salts hs =>
    simp only [Except.ok.injEq] at h
    exact Or.inr ⟨salts, hs, h.symm, (contractIons_perm hct' htot' hs).trans (List.Perm.append hpa hpc),
      contractIons_nonempty hs, (contractIons_charges htot' hs).1⟩

theorem side_total {mols anions' cations' : List Ion}
    (hpa : anions'.Perm (mols.filter (fun m => m.charge < 0)))
    (hpc : cations'.Perm (mols.filter (fun m => m.charge > 0))) :
    ∃ r, (match contractIons anions' cations' (chg mols) with
      | .error e => .error e
      | .ok none => .ok (mols.map fun m => [m])
      | .ok (some salts) => .ok ((mols.filter (fun m => m.charge == 0)).map (fun m => [m]) ++ salts)) = Except.ok r := by
  obtain ⟨han, hct, htot⟩ := sift_hyps mols
  obtain ⟨r, hr⟩ := contractIons_total (anions := anions') (cations := cations') (total := chg mols)
    (fun a ha => han a (hpa.subset ha)) (fun c hc => hct c (hpc.subset hc))
    (by rw [chg_perm hpa, chg_perm hpc]; exact htot)
  rw [hr]
  cases r <;> exact ⟨_, rfl⟩

/-- regrouping: from the core facts to "same molecules, no empty group" -/
theorem side_perm {mols : List Ion} {r : List (List Ion)}
    (h : r = mols.map (fun m => [m]) ∨
      ∃ salts, r = (mols.filter (fun m => m.charge == 0)).map (fun m => [m]) ++ salts ∧
        salts.flatten.Perm (mols.filter (fun m => m.charge < 0) ++ mols.filter (fun m => m.charge > 0)) ∧
        (∀ s ∈ salts, s ≠ [])) : r.flatten.Perm mols ∧ ∀ g ∈ r, g ≠ [] := by
  rcases h with rfl | ⟨salts, rfl, hp, hne⟩
  · rw [flatten_singletons]
    refine ⟨List.Perm.refl _, ?_⟩
    intro g hg
    obtain ⟨m, _, rfl⟩ := List.mem_map.1 hg
    simp
  · rw [List.flatten_append, flatten_singletons]
    refine ⟨?_, ?_⟩
    · refine (List.Perm.append_left _ (hp.trans List.perm_append_comm)).trans ?_
      rw [← List.append_assoc]
      exact sift_perm mols
    · intro g hg
      rcases List.mem_append.1 hg with hg | hg
      · obtain ⟨m, _, rfl⟩ := List.mem_map.1 hg
        simp
      · exact hne g hg

/-- C2: one side of `contract_ions()` never raises -/
theorem contractSide_total (mols : List Ion) : ∃ r, contractSide mols = .ok r := by
  rw [contractSide_eq]
  exact side_total (List.Perm.refl _) (List.Perm.refl _)

theorem contractSide_cases {mols : List Ion} {r : List (List Ion)} (h : contractSide mols = .ok r) :
    r = mols.map (fun m => [m]) ∨
    ∃ salts, contractIons (mols.filter (fun m => m.charge < 0)) (mols.filter (fun m => m.charge > 0)) (chg mols) =
        .ok (some salts) ∧
      r = (mols.filter (fun m => m.charge == 0)).map (fun m => [m]) ++ salts ∧
      salts.flatten.Perm (mols.filter (fun m => m.charge < 0) ++ mols.filter (fun m => m.charge > 0)) ∧
      (∀ s ∈ salts, s ≠ []) ∧ (chg mols = 0 → ∀ s ∈ salts, chg s = 0) := by
  rw [contractSide_eq] at h
  exact side_core (List.Perm.refl _) (List.Perm.refl _) h

/-- C3: the new molecule list holds exactly the old molecules, regrouped; no group is empty -/
theorem contractSide_perm {mols : List Ion} {r : List (List Ion)} (h : contractSide mols = .ok r) :
    r.flatten.Perm mols ∧ ∀ g ∈ r, g ≠ [] := by
  apply side_perm
  rcases contractSide_cases h with h | ⟨salts, _, h1, h2, h3, _⟩
  · exact Or.inl h
  · exact Or.inr ⟨salts, h1, h2, h3⟩

/-- C4: neutral molecules stay as they are; when something is contracted they come first, in order, followed by salts made
of charged molecules only -/
theorem contractSide_neutral_kept {mols : List Ion} {r : List (List Ion)} (h : contractSide mols = .ok r) :
    (∀ m ∈ mols, m.charge = 0 → [m] ∈ r) ∧
    (r = mols.map (fun m => [m]) ∨
     ∃ salts, r = (mols.filter (fun m => m.charge == 0)).map (fun m => [m]) ++ salts ∧
       ∀ s ∈ salts, ∀ m ∈ s, m.charge ≠ 0) := by
  rcases contractSide_cases h with rfl | ⟨salts, _, rfl, hp, _, _⟩
  · exact ⟨fun m hm _ => List.mem_map.2 ⟨m, hm, rfl⟩, Or.inl rfl⟩
  · refine ⟨?_, Or.inr ⟨salts, rfl, ?_⟩⟩
    · intro m hm h0
      exact List.mem_append.2 (Or.inl (List.mem_map.2 ⟨m, List.mem_filter.2 ⟨hm, by simpa using h0⟩, rfl⟩))
    · intro s hs m hm
      have : m ∈ salts.flatten := List.mem_flatten.2 ⟨s, hs, hm⟩
      rcases List.mem_append.1 (hp.subset this) with hx | hx
      · have : m.charge < 0 := by simpa using (List.mem_filter.1 hx).2
        omega
      · have : m.charge > 0 := by simpa using (List.mem_filter.1 hx).2
        omega

/-- C5: a balanced side that was contracted consists of neutral groups only. "Contracted" is `r ≠ mols.map …`: the shape
`neutral ++ salts` alone does not say it (an ambiguous all-ion side has that shape with singleton salts). -/
theorem contractSide_charges {mols : List Ion} {r : List (List Ion)} (h : contractSide mols = .ok r)
    (h0 : chg mols = 0) (hc : r ≠ mols.map (fun m => [m])) : ∀ g ∈ r, chg g = 0 := by
  rcases contractSide_cases h with rfl | ⟨salts, _, rfl, _, _, hz⟩
  · exact absurd rfl hc
  · intro g hg
    rcases List.mem_append.1 hg with hg | hg
    · obtain ⟨m, hm, rfl⟩ := List.mem_map.1 hg
      have : m.charge = 0 := by simpa using (List.mem_filter.1 hm).2
      simp [this]
    · exact hz h0 g hg

/-- the same, phrased on the answer of `_contract_ions` -/
theorem contractSide_charges' {mols : List Ion} {salts : List (List Ion)}
    (hs : contractIons (mols.filter (fun m => m.charge < 0)) (mols.filter (fun m => m.charge > 0)) (chg mols) =
      .ok (some salts)) (h0 : chg mols = 0) :
    contractSide mols = .ok ((mols.filter (fun m => m.charge == 0)).map (fun m => [m]) ++ salts) ∧
    ∀ s ∈ salts, chg s = 0 := by
  obtain ⟨_, _, htot⟩ := sift_hyps mols
  refine ⟨by rw [contractSide_eq, hs], (contractIons_charges htot hs).1 h0⟩

/-! ### C6. the products side -/

theorem sortByKey_perm (key : Ion → Int) (l : List Ion) : (sortByKey key l).Perm l := List.mergeSort_perm _ _

theorem contractProducts_eq (ankey ctkey : Ion → Int) (mols : List Ion) :
    ∃ anions' cations', anions'.Perm (mols.filter (fun m => m.charge < 0)) ∧
      cations'.Perm (mols.filter (fun m => m.charge > 0)) ∧
      contractProducts ankey ctkey mols =
        match contractIons anions' cations' (chg mols) with
        | .error e => .error e
        | .ok none => .ok (mols.map fun m => [m])
        | .ok (some salts) => .ok ((mols.filter (fun m => m.charge == 0)).map (fun m => [m]) ++ salts) := by
  by_cases hc : (!(mols.filter (fun m => m.charge > 0)).isEmpty && !(mols.filter (fun m => m.charge < 0)).isEmpty) = true
  · refine ⟨sortByKey ankey (mols.filter (fun m => m.charge < 0)), sortByKey ctkey (mols.filter (fun m => m.charge > 0)),
      sortByKey_perm _ _, sortByKey_perm _ _, ?_⟩
    simp only [contractProducts, siftIons, hc, if_true]
    rfl
  · refine ⟨_, _, List.Perm.refl _, List.Perm.refl _, ?_⟩
    simp only [contractProducts, siftIons, hc]
    rfl

theorem contractProducts_total (ankey ctkey : Ion → Int) (mols : List Ion) :
    ∃ r, contractProducts ankey ctkey mols = .ok r := by
  obtain ⟨an', ct', hpa, hpc, e⟩ := contractProducts_eq ankey ctkey mols
  rw [e]
  exact side_total hpa hpc

theorem contractProducts_perm {ankey ctkey : Ion → Int} {mols : List Ion} {r : List (List Ion)}
    (h : contractProducts ankey ctkey mols = .ok r) : r.flatten.Perm mols ∧ ∀ g ∈ r, g ≠ [] := by
  obtain ⟨an', ct', hpa, hpc, e⟩ := contractProducts_eq ankey ctkey mols
  rw [e] at h
  apply side_perm
  rcases side_core hpa hpc h with h | ⟨salts, _, h1, h2, h3, _⟩
  · exact Or.inl h
  · exact Or.inr ⟨salts, h1, h2, h3⟩

/-! ### D. concrete runs -/

example : contractSide [⟨1, 1, 1⟩, ⟨2, 2, -1⟩, ⟨3, 3, 0⟩] = .ok [[⟨3, 3, 0⟩], [⟨1, 1, 1⟩, ⟨2, 2, -1⟩]] := by
  simp [contractSide, siftIons, contractIons, distinct, List.eraseDups_cons, go]

/-- Ca²⁺ + 2 Cl⁻ -/
example : contractSide [⟨1, 1, 2⟩, ⟨2, 2, -1⟩, ⟨3, 2, -1⟩] = .ok [[⟨1, 1, 2⟩, ⟨3, 2, -1⟩, ⟨2, 2, -1⟩]] := by
  simp [contractSide, siftIons, contractIons, distinct, List.eraseDups_cons, go]

/-- two different cations and two different anions: ambiguous, left alone -/
example : contractSide [⟨1, 1, 1⟩, ⟨2, 2, 1⟩, ⟨3, 3, -1⟩, ⟨4, 4, -1⟩] =
    .ok [[⟨1, 1, 1⟩], [⟨2, 2, 1⟩], [⟨3, 3, -1⟩], [⟨4, 4, -1⟩]] := by
  simp [contractSide, siftIons, contractIons, distinct, List.eraseDups_cons]

/-- `contractSide_charges` needs "contracted": this result has the shape `neutral ++ salts` with charged salts -/
example : contractSide [⟨1, 1, 1⟩, ⟨2, 2, 1⟩, ⟨3, 3, -1⟩, ⟨4, 4, -1⟩] =
    .ok (([⟨1, 1, 1⟩, ⟨2, 2, 1⟩, ⟨3, 3, -1⟩, ⟨4, 4, -1⟩].filter (fun m : Ion => m.charge == 0)).map (fun m => [m]) ++
      [[⟨1, 1, 1⟩], [⟨2, 2, 1⟩], [⟨3, 3, -1⟩], [⟨4, 4, -1⟩]]) := by
  simp [contractSide, siftIons, contractIons, distinct, List.eraseDups_cons]

end ChythonModel.Proofs.C16I
