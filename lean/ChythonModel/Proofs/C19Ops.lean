import ChythonModel.Proofs.C19Table
/-!
# C19 — every operation of the int-set model preserves the table invariant and refines the finite-set semantics
-/
namespace ChythonModel.Py.IntSet

theorem popScan_spec {t : Array Slot} : ∀ {f j j' : Nat} {k : Int}, popScan t f j = some (j', k) → t[j']? = some (Slot.active k) := by
  intro f
  induction f with
  | zero => intro j j' k h; simp [popScan] at h
  | succ f ih =>
    intro j j' k h
    unfold popScan at h
    split at h
    · simp at h
    · rename_i k' he
      simp at h
      obtain ⟨h1, h2⟩ := h
      subst h1 h2
      exact he
    · exact ih h

theorem resize_spec {s s' : IntSet} {m : Nat} (h : TWF s.table) (hr : s.resize m = some s') :
    TWF s'.table ∧ ∀ x, Mem s'.table x ↔ Mem s.table x := by
  unfold IntSet.resize at hr
  simp only at hr
  split at hr
  · simp at hr; subst hr; exact ⟨h, fun _ => Iff.rfl⟩
  · split at hr
    · simp at hr
    · rename_i t ht
      simp at hr
      subst hr
      obtain ⟨a1, _, _, a4⟩ := insertCleanAll_spec _ (twf_emptyTable _) (noDummy_emptyTable _) (nodup_activeKeys h)
        (fun k _ => not_mem_emptyTable _ k) ht
      refine ⟨a1, fun x => ?_⟩
      rw [a4 x, mem_activeKeys]
      constructor
      · rintro (h | h)
        · exact h
        · exact absurd h (not_mem_emptyTable _ x)
      · exact Or.inl

theorem add_spec {s s' : IntSet} {k : Int} (h : TWF s.table) (ha : s.add k = some s') :
    TWF s'.table ∧ ∀ x, Mem s'.table x ↔ (x = k ∨ Mem s.table x) := by
  unfold IntSet.add at ha
  split at ha
  · simp at ha
  · rename_i hs
    simp at ha; subst ha
    obtain ⟨j, _, hj⟩ := addScan_present hs
    refine ⟨h, fun x => ⟨Or.inr, ?_⟩⟩
    rintro (e | hm)
    · subst e; exact ⟨j, hj⟩
    · exact hm
  · rename_i f0 j hs
    simp at ha; subst ha
    obtain ⟨h1, h2, h3⟩ := addScan_slot hs
    rcases h3 with h3 | ⟨f1, h3, h4, h5⟩
    · simp at h3
    · simp at h3; subst h3
      have hl : lookup s.table k = some j := h1
      exact twf_fill_dummy h (not_mem_of_lookup_empty h hl h2) h4 (by rw [lookup_set!]; exact h5)
  · rename_i j hs
    obtain ⟨h1, h2, _⟩ := addScan_slot hs
    have hl : lookup s.table k = some j := h1
    obtain ⟨w1, w2⟩ := twf_fill_empty h hl h2
    simp only at ha
    split at ha
    · simp at ha; subst ha; exact ⟨w1, w2⟩
    · obtain ⟨r1, r2⟩ := resize_spec (s := { s with table := s.table.set! j (.active k), fill := s.fill + 1, used := s.used + 1 }) w1 ha
      exact ⟨r1, fun x => (r2 x).trans (w2 x)⟩

theorem discard_spec {s s' : IntSet} {k : Int} {b : Bool} (h : TWF s.table) (hd : s.discard k = some (s', b)) :
    TWF s'.table ∧ (b = true ↔ Mem s.table k) ∧ ∀ x, Mem s'.table x ↔ (Mem s.table x ∧ x ≠ k) := by
  unfold IntSet.discard at hd
  split at hd
  · simp at hd
  · rename_i j hl
    split at hd
    · rename_i hj
      simp at hd
      obtain ⟨e1, e2⟩ := hd
      subst e1 e2
      have hj' : s.table[j]? = some (Slot.active k) := by simpa using hj
      obtain ⟨w1, w2⟩ := twf_set_dummy h hj'
      exact ⟨w1, ⟨fun _ => ⟨j, hj'⟩, fun _ => rfl⟩, w2⟩
    · rename_i hj
      simp at hd
      obtain ⟨e1, e2⟩ := hd
      subst e1 e2
      have hj' : ¬ s.table[j]? = some (Slot.active k) := by simpa using hj
      have he : s.table[j]? = some Slot.empty := by
        rcases look_spec hl with h' | h'
        · exact h'
        · exact absurd h' hj'
      have hn := not_mem_of_lookup_empty h hl he
      refine ⟨h, ⟨fun e => by simp at e, fun hm => absurd hm hn⟩, fun x => ⟨fun hm => ⟨hm, ?_⟩, fun hm => hm.1⟩⟩
      intro e; subst e; exact hn hm

theorem pop_spec {s s' : IntSet} {k : Int} (h : TWF s.table) (hp : s.pop = some (.popped k s')) :
    Mem s.table k ∧ TWF s'.table ∧ ∀ x, Mem s'.table x ↔ (Mem s.table x ∧ x ≠ k) := by
  unfold IntSet.pop at hp
  split at hp
  · simp at hp
  · split at hp
    · simp at hp
    · rename_i j k' hs
      simp at hp
      obtain ⟨e1, e2⟩ := hp
      subst e1 e2
      have hj := popScan_spec hs
      obtain ⟨w1, w2⟩ := twf_set_dummy h hj
      exact ⟨⟨j, hj⟩, w1, w2⟩

theorem contains_spec {s : IntSet} {k : Int} {b : Bool} (h : TWF s.table) (hc : s.contains k = some b) :
    (b = true ↔ Mem s.table k) := by
  unfold IntSet.contains at hc
  split at hc
  · simp at hc
  · rename_i j hl
    simp at hc
    subst hc
    constructor
    · intro hb
      exact ⟨j, by simpa using hb⟩
    · rintro ⟨j', hj'⟩
      have := (h j' k hj').symm.trans hl
      simp at this
      subst this
      simpa using hj'

theorem clear_spec (s : IntSet) : TWF s.clear.table ∧ ∀ x, ¬ Mem s.clear.table x :=
  ⟨twf_emptyTable 8, not_mem_emptyTable 8⟩

theorem empty_spec : TWF empty.table ∧ ∀ x, ¬ Mem empty.table x :=
  ⟨twf_emptyTable 8, not_mem_emptyTable 8⟩

theorem addAll_spec : ∀ (ks : List Int) {s s' : IntSet}, TWF s.table → s.addAll ks = some s' →
    TWF s'.table ∧ ∀ x, Mem s'.table x ↔ (x ∈ ks ∨ Mem s.table x) := by
  intro ks
  induction ks with
  | nil => intro s s' h ha; simp [IntSet.addAll] at ha; subst ha; exact ⟨h, by simp⟩
  | cons k ks ih =>
    intro s s' h ha
    unfold IntSet.addAll at ha
    split at ha
    · simp at ha
    · rename_i s1 h1
      obtain ⟨a1, a2⟩ := add_spec h h1
      obtain ⟨b1, b2⟩ := ih a1 ha
      refine ⟨b1, fun x => ?_⟩
      rw [b2 x, a2 x]
      simp only [List.mem_cons]
      constructor
      · rintro (h | h | h)
        · exact Or.inl (Or.inr h)
        · exact Or.inl (Or.inl h)
        · exact Or.inr h
      · rintro ((h | h) | h)
        · exact Or.inr (Or.inl h)
        · exact Or.inl h
        · exact Or.inr (Or.inr h)

theorem discardAll_spec : ∀ (ks : List Int) {s s' : IntSet}, TWF s.table → s.discardAll ks = some s' →
    TWF s'.table ∧ ∀ x, Mem s'.table x ↔ (Mem s.table x ∧ x ∉ ks) := by
  intro ks
  induction ks with
  | nil => intro s s' h ha; simp [IntSet.discardAll] at ha; subst ha; exact ⟨h, by simp⟩
  | cons k ks ih =>
    intro s s' h ha
    unfold IntSet.discardAll at ha
    split at ha
    · simp at ha
    · rename_i s1 b h1
      obtain ⟨a1, _, a2⟩ := discard_spec h h1
      obtain ⟨b1, b2⟩ := ih a1 ha
      refine ⟨b1, fun x => ?_⟩
      rw [b2 x, a2 x]
      simp only [List.mem_cons, not_or]
      constructor
      · rintro ⟨⟨h1, h2⟩, h3⟩; exact ⟨h1, h2, h3⟩
      · rintro ⟨h1, h2, h3⟩; exact ⟨⟨h1, h2⟩, h3⟩

theorem presize_spec {s s' : IntSet} {n : Nat} (h : TWF s.table) (hp : s.presize n = some s') :
    TWF s'.table ∧ ∀ x, Mem s'.table x ↔ Mem s.table x := by
  unfold IntSet.presize at hp
  split at hp
  · exact resize_spec h hp
  · simp at hp; subst hp; exact ⟨h, fun _ => Iff.rfl⟩

theorem updateIter_spec {s s' : IntSet} {ks : List Int} (h : TWF s.table) (hu : s.updateIter ks = some s') :
    TWF s'.table ∧ ∀ x, Mem s'.table x ↔ (x ∈ ks ∨ Mem s.table x) := addAll_spec ks h hu

theorem updateDict_spec {s s' : IntSet} {ks : List Int} (h : TWF s.table) (hu : s.updateDict ks = some s') :
    TWF s'.table ∧ ∀ x, Mem s'.table x ↔ (x ∈ ks ∨ Mem s.table x) := by
  unfold IntSet.updateDict at hu
  split at hu
  · simp at hu
  · rename_i s1 h1
    obtain ⟨a1, a2⟩ := presize_spec h h1
    obtain ⟨b1, b2⟩ := addAll_spec ks a1 hu
    exact ⟨b1, fun x => by rw [b2 x, a2 x]⟩

theorem differenceUpdate_spec {s s' : IntSet} {ks : List Int} (h : TWF s.table) (hu : s.differenceUpdate ks = some s') :
    TWF s'.table ∧ ∀ x, Mem s'.table x ↔ (Mem s.table x ∧ x ∉ ks) := by
  unfold IntSet.differenceUpdate at hu
  split at hu
  · simp at hu
  · rename_i s1 h1
    obtain ⟨a1, a2⟩ := discardAll_spec ks h h1
    split at hu
    · simp at hu; subst hu; exact ⟨a1, a2⟩
    · obtain ⟨b1, b2⟩ := resize_spec a1 hu
      exact ⟨b1, fun x => by rw [b2 x, a2 x]⟩

/-- iteration lists exactly the stored keys, each once -/
theorem toList_spec {s : IntSet} (h : TWF s.table) : s.toList.Nodup ∧ ∀ x, x ∈ s.toList ↔ Mem s.table x :=
  ⟨nodup_activeKeys h, fun _ => mem_activeKeys⟩

end ChythonModel.Py.IntSet
