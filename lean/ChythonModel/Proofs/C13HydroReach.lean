import ChythonModel.Proofs.C13HydroTxn
/-!
# C13 — stored hydrogens fresh in every state reachable through the covered operations (today's table)

`HObj`: outside a transaction nothing is pending and every stored hydrogen count is fresh; inside, `TxH` holds and the
snapshot's hydrogens are fresh.  Preserved by `hStep`: ordinary bond edits (in and outside a block), `fix_structure`
outside a block, attribute writes inside, `__enter__`, both `__exit__` paths, `copy` outside a block, reads, label / stereo
re-validation, flushes, coordinate / metadata writes.
-/
namespace ChythonModel.Proofs.C13
open ChythonModel.Model ChythonModel.Model.C13 ChythonModel.Gen.CacheEffects ChythonModel.Spec.Deps

structure HObj (o : Obj) : Prop where
  out : o.backup = some none → o.changed = some none ∧ AllFresh o.mol o.hs
  txn : ∀ bk, o.backup = some (some bk) → TxH o bk ∧ AllFresh bk.mol bk.hs
  slot : o.backup = some none ∨ ∃ bk, o.backup = some (some bk)

def HWorld (w : World) : Prop := ∀ o ∈ w.objs, HObj o

/-- the operations covered, depending on the state of the target object -/
def hOpS (o : Obj) (op : Op) : Bool :=
  match o.backup with
  | some (some _) =>
      (match op with
       | .exitOk _ | .exitExc _ | .addAtom .. => true
       | _ => blockOpS o op)
  | _ =>
      (match op with
       | .addAtom _ _ _ skip => !skip
       | .addBond _ _ _ order skip => order != 8 && !skip
       | .delBond _ a b skip => ((o.mol.bond? a b).map (·.order)) != some 8 && !skip
       | .fixStructure .. | .calcLabels _ | .fixStereo _ | .cleanStereo _ | .read .. | .flush .. | .setXY .. | .setMeta ..
       | .enter _ | .copy .. => true
       | _ => false)

theorem hworld_set {w : World} {i : Nat} {o : Obj} (v : List (Int × Int)) (hw : HWorld w) (ho : HObj o) :
    HWorld (setObj { w with vecs := v } i o) := by
  intro x hx
  simp only [setObj] at hx
  rcases List.mem_or_eq_of_mem_set hx with h | h
  · exact hw x h
  · rw [h]; exact ho

theorem hworld_of_get {w w' : World} {i : Nat} {o' : Obj} (hw : HWorld w) (hlen : w'.objs.length = w.objs.length)
    (hfr : ∀ j, j ≠ i → w'.objs[j]? = w.objs[j]?) (hg : w'.objs[i]? = some o') (ho : HObj o') : HWorld w' := by
  intro x hx
  obtain ⟨j, hj, hxj⟩ := List.getElem_of_mem hx
  by_cases hji : j = i
  · subst hji
    have : w'.objs[j]? = some x := by rw [List.getElem?_eq_getElem hj, hxj]
    rw [hg] at this
    cases this; exact ho
  · have h1 : w.objs[j]? = some x := by rw [← hfr j hji, List.getElem?_eq_getElem hj, hxj]
    exact hw x (List.mem_of_getElem? h1)

/-- fields the hydrogen invariant reads -/
theorem hobj_congr {o o' : Obj} (hm : o'.mol = o.mol) (hh : o'.hs = o.hs) (hc : o'.changed = o.changed)
    (hb : o'.backup = o.backup) (h : HObj o) : HObj o' := by
  refine ⟨fun hn => ?_, fun bk hbk => ?_, by rw [hb]; exact h.slot⟩
  · have := h.out (by rw [← hb]; exact hn)
    rw [hc, hm, hh]; exact this
  · have := h.txn bk (by rw [← hb]; exact hbk)
    exact ⟨txh_congr hm hh hc hb this.1, this.2⟩

theorem out_hrel :
    (expand current.fns expandFuel "MoleculeContainer.fix_structure" [("recalculate_hydrogens", true)]).filter (fun ge => hrel ge.e) =
      [⟨[], .hcalc⟩, ⟨[], .changedNone⟩] ∧
    (expand current.fns expandFuel "MoleculeContainer.fix_structure" [("recalculate_hydrogens", false)]).filter (fun ge => hrel ge.e) =
      [⟨[], .changedNone⟩] := by decide +kernel

theorem allFresh_hcalc_all (m : Mol) (hs : HEnv) :
    AllFresh m ((m.ids.filter m.hasAtom).foldl (fun hs n => setHs hs n (envOf m n)) hs) := by
  intro n hn
  rw [lookup_foldl_setHs]
  have : n ∈ m.ids.filter m.hasAtom := List.mem_filter.mpr ⟨hn, hasAtom_iff.mpr hn⟩
  simp [this]

/-- a method of an object outside a transaction, given the closed form of its effect on the projection -/
theorem runFn_hout {w : World} {i : Nat} {o : Obj} {cx : Ctx} {f : String} {env : List (String × Bool)}
    (hget : w.objs[i]? = some o) (hout : o.backup = some none)
    (hno : noBkWrites (expand current.fns expandFuel f env) = true)
    (hfin : ∀ c, proj c = interpH cx ((expand current.fns expandFuel f env).filter fun ge => hrel ge.e) (proj { o := o, vecs := w.vecs }) →
      c.o.changed = some none ∧ AllFresh c.o.mol c.o.hs)
    (herr : (runFn current w i o cx f env).err = none) :
    ∃ o', (runFn current w i o cx f env).w.objs[i]? = some o' ∧ HObj o' := by
  obtain ⟨c, hi⟩ := runFn_ok herr
  have hp := interp_proj _ _ _ hi
  rw [interpH_filter] at hp
  have hb := interp_backup (T := current) (cx := cx) _ { o := o, vecs := w.vecs } hno
  rw [hi] at hb
  have hb' : c.o.backup = some none := by rw [← hout]; exact hb
  rw [runFn_world, hi]
  refine ⟨c.o, getElem?_setObj_self _ hget, ⟨fun _ => hfin c hp, fun bk hbk => ?_, Or.inl hb'⟩⟩
  rw [hb'] at hbk; cases hbk

theorem nbrPart_congr {m m' : Mol} {k : Nat} (ha : m'.atoms = m.atoms) (hn : m'.adj.lookup k = m.adj.lookup k) :
    envOf m' k = envOf m k := envOf_congr ha hn

/-- an ordinary bond added / deleted outside a transaction: the two end atoms are recomputed, nothing stays pending -/
theorem runFn_hout_bond {w : World} {i : Nat} {o : Obj} {skip : Bool} {m' : Mol} {a b : Nat} {obs : List String} {f : String}
    (hget : w.objs[i]? = some o) (ho : HObj o) (hout : o.backup = some none) (hskip : skip = false)
    (hlist : (expand current.fns expandFuel f []).filter (fun ge => hrel ge.e) =
        [⟨[], .edit⟩, ⟨[.notSpecial], .changedAdd⟩, ⟨[.notSpecial, .ifCalc], .hcalc⟩, ⟨[.notSpecial, .ifCalc], .changedNone⟩] ∨
      (expand current.fns expandFuel f []).filter (fun ge => hrel ge.e) =
        [⟨[], .edit⟩, ⟨[.notSpecial], .changedAdd⟩, ⟨[.ifCalc], .hcalc⟩, ⟨[.ifCalc], .changedNone⟩])
    (hno : noBkWrites (expand current.fns expandFuel f []) = true)
    (hfr : m'.atoms = o.mol.atoms ∧ ∀ k, k ≠ a → k ≠ b → m'.adj.lookup k = o.mol.adj.lookup k)
    (herr : (runFn current w i o { skip := skip, special := false, touched := [a, b], editMol := some m', obs := obs } f []).err = none) :
    ∃ o', (runFn current w i o { skip := skip, special := false, touched := [a, b], editMol := some m', obs := obs } f []).w.objs[i]? =
      some o' ∧ HObj o' := by
  subst hskip
  obtain ⟨hch, hfresh⟩ := ho.out hout
  refine runFn_hout hget hout hno ?_ herr
  intro c hp
  have hbk : bkH o.backup = some none := by rw [hout]; rfl
  have hmemT : ∀ k, k ∈ unionNat [] [a, b] ↔ k = a ∨ k = b := by intro k; simp [mem_unionNat]
  cases hT : unionNat [] [a, b] with
  | nil =>
    have := (hmemT a).mpr (Or.inl rfl)
    rw [hT] at this; cases this
  | cons x xs =>
    have hfinal : c.o.mol = m' ∧ c.o.changed = some none ∧
        c.o.hs = (((x :: xs).filter m'.hasAtom).foldl (fun hs n => setHs hs n (envOf m' n)) (o.hs.filter fun p => m'.ids.contains p.1)) := by
      rcases hlist with hl | hl <;> rw [hl] at hp <;>
        simp only [interpH, guardsH, proj, hbk, stepH, editHs, hch, if_false, Bool.false_eq_true, Bool.and_false,
          List.isEmpty_cons, HS.mk.injEq, hT, hcalcHs, hcalcTargets] at hp <;>
        exact ⟨hp.1, hp.2.2.1, hp.2.1⟩
    obtain ⟨hm, hc, hh⟩ := hfinal
    refine ⟨hc, ?_⟩
    intro k hk
    rw [hm] at hk ⊢
    have hids : m'.ids = o.mol.ids := by simp [Mol.ids, hfr.1]
    rw [hh, lookup_foldl_setHs]
    by_cases hin : k ∈ (x :: xs).filter m'.hasAtom
    · simp [hin]
    · simp only [hin, if_false]
      have hk' : k ∈ o.mol.ids := by rw [← hids]; exact hk
      have hne : k ≠ a ∧ k ≠ b := by
        constructor <;>
          (intro he; apply hin; refine List.mem_filter.mpr ⟨?_, hasAtom_iff.mpr hk⟩; rw [← hT, hmemT]; simp [he])
      rw [lookup_filter_key _ (fun x => m'.ids.contains x) k (by simpa using hk), hfresh k hk',
        envOf_congr hfr.1 (hfr.2 k hne.1 hne.2)]

theorem flatMap_congr' {α β} {l : List α} {f g : α → List β} (h : ∀ x ∈ l, f x = g x) : l.flatMap f = l.flatMap g := by
  induction l with
  | nil => rfl
  | cons a rest ih =>
    simp only [List.flatMap_cons]
    rw [h a List.mem_cons_self, ih (fun x hx => h x (List.mem_cons_of_mem _ hx))]

/-! ## add_atom -/

theorem atom_hrel :
    (expand current.fns expandFuel "MoleculeContainer.add_atom" []).filter (fun ge => hrel ge.e) =
      [⟨[], .edit⟩, ⟨[], .changedAdd⟩, ⟨[.ifCalc], .hcalc⟩, ⟨[.ifCalc], .changedNone⟩] := by decide +kernel

theorem gAddAtom_frame {m m' : Mol} {z : Nat} {n? : Option Nat} {k : Nat} (h : gAddAtom m z n? = .ok (m', k)) (hw : MolWF m) :
    k ∉ m.ids ∧ m'.ids = m.ids ++ [k] ∧ (∀ n ∈ m.ids, ∀ bm, envRef bm m' n = envRef bm m n) ∧
    (∀ n ∈ m.ids, envOf m' n = envOf m n) := by
  unfold gAddAtom at h
  simp only at h
  split at h; · cases h
  rename_i hna
  cases h
  have hnot : (n?.getD (listMax m.ids + 1)) ∉ m.ids := fun hmem => hna (hasAtom_iff.mpr hmem)
  have hatom : ∀ j ∈ m.ids, Mol.atom? ⟨m.atoms ++ [(n?.getD (listMax m.ids + 1), { z := z })], m.adj ++ [(n?.getD (listMax m.ids + 1), [])]⟩ j
      = m.atom? j := by
    intro j hj
    simp only [Mol.atom?, List.lookup_append]
    cases hl : m.atoms.lookup j with
    | none => exact absurd hj (lookup_none_iff.mp hl)
    | some a => simp
  have hnbrs : ∀ n ∈ m.ids, Mol.nbrs ⟨m.atoms ++ [(n?.getD (listMax m.ids + 1), { z := z })], m.adj ++ [(n?.getD (listMax m.ids + 1), [])]⟩ n
      = m.nbrs n := by
    intro n hn
    simp only [Mol.nbrs, List.lookup_append]
    have hne : (n == n?.getD (listMax m.ids + 1)) = false := by
      apply beq_false_of_ne; rintro rfl; exact hnot hn
    cases hl : m.adj.lookup n with
    | none => simp [List.lookup_cons, hne]
    | some l => simp
  have hpart : ∀ n ∈ m.ids, nbrPart ⟨m.atoms ++ [(n?.getD (listMax m.ids + 1), { z := z })], m.adj ++ [(n?.getD (listMax m.ids + 1), [])]⟩ n
      = nbrPart m n := by
    intro n hn
    simp only [nbrPart, hnbrs n hn]
    apply flatMap_congr'
    intro kb hkb
    have hkb' := (List.mem_filter.mp hkb).1
    have hj : kb.1 ∈ m.ids := by
      have hrow : (n, m.nbrs n) ∈ m.adj := by
        have : n ∈ m.adj.map (·.1) := by rw [hw.keys]; exact hn
        cases hl : m.adj.lookup n with
        | none => exact absurd this (lookup_none_iff.mp hl)
        | some l =>
          have := mem_of_lookup hl
          simp only [Mol.nbrs, hl, Option.getD_some]; exact this
      exact hw.nbr_mem hrow (show (kb.1, kb.2) ∈ m.nbrs n from hkb')
    rw [hatom kb.1 hj]
  refine ⟨hnot, by simp [Mol.ids], ?_, ?_⟩
  · intro n hn bm
    simp only [envRef, hatom n hn, hpart n hn]
  · intro n hn
    simp only [envOf_eq, hatom n hn, hpart n hn]

theorem runFn_txh_addAtom {w : World} {i : Nat} {o : Obj} {bk : Core} {skip : Bool} {m' : Mol} {k : Nat} {obs : List String}
    (hget : w.objs[i]? = some o) (h : TxH o bk)
    (hfr : k ∉ o.mol.ids ∧ m'.ids = o.mol.ids ++ [k] ∧ (∀ n ∈ o.mol.ids, ∀ bm, envRef bm m' n = envRef bm o.mol n) ∧
      (∀ n ∈ o.mol.ids, envOf m' n = envOf o.mol n))
    (herr : (runFn current w i o { skip := skip, touched := [k], editMol := some m', obs := obs } "MoleculeContainer.add_atom" []).err = none) :
    ∃ o', (runFn current w i o { skip := skip, touched := [k], editMol := some m', obs := obs } "MoleculeContainer.add_atom" []).w.objs[i]? =
      some o' ∧ TxH o' bk := by
  obtain ⟨c, hi⟩ := runFn_ok herr
  have hp := interp_proj _ _ _ hi
  have hb := interp_backup (T := current) (cx := { skip := skip, touched := [k], editMol := some m', obs := obs })
    _ { o := o, vecs := w.vecs } (show noBkWrites (expand current.fns expandFuel "MoleculeContainer.add_atom" []) = true by decide +kernel)
  rw [hi] at hb
  have hb' : c.o.backup = o.backup := hb
  rw [runFn_world, hi]
  refine ⟨c.o, getElem?_setObj_self _ hget, ?_⟩
  have hbk : bkH o.backup = some (some (bk.mol, bk.hs)) := by rw [h.hbk]; rfl
  obtain ⟨l?, hch⟩ : ∃ l?, o.changed = some l? := by
    cases hc : o.changed with
    | none => exact absurd hc h.chg
    | some l? => exact ⟨l?, rfl⟩
  have hfinal : c.o.mol = m' ∧ c.o.hs = o.hs.filter (fun p => m'.ids.contains p.1) ∧
      c.o.changed = some (some (unionNat (l?.getD []) [k])) := by
    rw [interpH_filter, atom_hrel] at hp
    simp only [interpH, guardsH, proj, hbk, stepH, editHs, hch, if_false, Bool.false_eq_true, Bool.and_false,
      List.isEmpty_cons, HS.mk.injEq] at hp
    cases l? <;> cases skip <;> simp only [if_true, if_false, Bool.false_eq_true, HS.mk.injEq, Option.getD] at hp ⊢ <;>
      exact ⟨hp.1, hp.2.1, hp.2.2.1⟩
  obtain ⟨hm, hh, hc⟩ := hfinal
  have hpend : ∀ n, n ∈ pend c.o ↔ (n ∈ pend o ∨ n = k) := by
    intro n
    simp only [pend, hc, hch, mem_unionNat, List.mem_cons, List.not_mem_nil, or_false]
    cases l? <;> simp
  refine ⟨by rw [hb']; exact h.hbk, by rw [hc]; simp, ?_, ?_⟩
  · intro n hn hnp
    rw [hm] at hn ⊢
    rw [hpend] at hnp
    simp only [not_or] at hnp
    have hn' : n ∈ o.mol.ids := by
      rw [hfr.2.1] at hn
      rcases List.mem_append.mp hn with h1 | h1
      · exact h1
      · simp only [List.mem_singleton] at h1; exact absurd h1 hnp.2
    rw [hh, lookup_filter_key _ (fun x => m'.ids.contains x) n (by simpa using hn), h.ref n hn' hnp.1, hfr.2.2.1 n hn' bk.mol]
  · intro n hn hnone
    rw [hm, hfr.2.1] at hn
    rw [hpend]
    rcases List.mem_append.mp hn with h1 | h1
    · exact Or.inl (h.new n h1 hnone)
    · simp only [List.mem_singleton] at h1; exact Or.inr h1

theorem runFn_hout_addAtom {w : World} {i : Nat} {o : Obj} {m' : Mol} {k : Nat} {obs : List String}
    (hget : w.objs[i]? = some o) (ho : HObj o) (hout : o.backup = some none)
    (hfr : k ∉ o.mol.ids ∧ m'.ids = o.mol.ids ++ [k] ∧ (∀ n ∈ o.mol.ids, ∀ bm, envRef bm m' n = envRef bm o.mol n) ∧
      (∀ n ∈ o.mol.ids, envOf m' n = envOf o.mol n))
    (herr : (runFn current w i o { skip := false, touched := [k], editMol := some m', obs := obs } "MoleculeContainer.add_atom" []).err = none) :
    ∃ o', (runFn current w i o { skip := false, touched := [k], editMol := some m', obs := obs } "MoleculeContainer.add_atom" []).w.objs[i]? =
      some o' ∧ HObj o' := by
  obtain ⟨hch, hfresh⟩ := ho.out hout
  refine runFn_hout hget hout (by decide +kernel) ?_ herr
  intro c hp
  have hbk : bkH o.backup = some none := by rw [hout]; rfl
  rw [atom_hrel] at hp
  simp only [interpH, guardsH, proj, hbk, stepH, editHs, hch, if_false, Bool.false_eq_true, Bool.and_false,
    List.isEmpty_cons, HS.mk.injEq, unionNat, List.foldl_cons, List.foldl_nil, List.contains_nil, List.nil_append,
    hcalcHs, hcalcTargets] at hp
  obtain ⟨hm, hh, hc, _⟩ := hp
  refine ⟨hc, ?_⟩
  intro n hn
  rw [hm] at hn ⊢
  rw [hh, lookup_foldl_setHs]
  by_cases hin : n ∈ [k].filter m'.hasAtom
  · simp [hin]
  · simp only [hin, if_false]
    have hnk : n ≠ k := by
      intro he; apply hin; subst he
      exact List.mem_filter.mpr ⟨by simp, hasAtom_iff.mpr hn⟩
    have hn' : n ∈ o.mol.ids := by
      rw [hfr.2.1] at hn
      rcases List.mem_append.mp hn with h1 | h1
      · exact h1
      · simp only [List.mem_singleton] at h1; exact absurd h1 hnk
    rw [lookup_filter_key _ (fun x => m'.ids.contains x) n (by simpa using hn), hfresh n hn', hfr.2.2.2 n hn']


theorem runFn_hobj_neutral {w : World} {i : Nat} {o : Obj} {cx : Ctx} {f : String} {env : List (String × Bool)}
    (hget : w.objs[i]? = some o) (hrel0 : (expand current.fns expandFuel f env).filter (fun ge => hrel ge.e) = [])
    (hno : noBkWrites (expand current.fns expandFuel f env) = true) (h : HObj o)
    (herr : (runFn current w i o cx f env).err = none) :
    ∃ o', (runFn current w i o cx f env).w.objs[i]? = some o' ∧ HObj o' := by
  obtain ⟨c, hi⟩ := runFn_ok herr
  have hp := interp_proj _ _ _ hi
  rw [interpH_filter, hrel0] at hp
  have hb := interp_backup (T := current) (cx := cx) _ { o := o, vecs := w.vecs } hno
  rw [hi] at hb
  rw [runFn_world, hi]
  simp only [interpH, proj, HS.mk.injEq] at hp
  exact ⟨c.o, getElem?_setObj_self _ hget, hobj_congr hp.1 hp.2.1 hp.2.2.1 hb h⟩

/-- **one step**: the hydrogen invariant of object `i` survives every covered operation on it and every operation on
other objects -/
theorem step_hobj (hT : TablesOK current = true) {w : World} {i : Nat} {o : Obj} {op : Op} {obs : List String}
    (hget : w.objs[i]? = some o) (h : HObj o) (hwf : MolWF o.mol) (hop : op.target = i → hOpS o op = true)
    (herr : (step current w op obs).err = none) :
    ∃ o', (step current w op obs).w.objs[i]? = some o' ∧ HObj o' := by
  have hlt : i < w.objs.length := by
    rcases Nat.lt_or_ge i w.objs.length with hl | hl
    · exact hl
    · rw [List.getElem?_eq_none hl] at hget; cases hget
  by_cases hti : i = op.target
  · have hb := hop hti.symm
    rcases h.slot with hout | ⟨bk, hbk⟩
    · -- outside a transaction
      subst hti
      simp only [hOpS, hout, Bool.and_eq_true] at hb
      obtain ⟨hch, hfresh⟩ := h.out hout
      unfold step at herr ⊢
      simp only [hget] at herr ⊢
      cases op with
      | addBond oi a b order skip =>
        simp only [Bool.and_eq_true, Bool.not_eq_true'] at hb
        have hsp : (order == 8) = false := by simpa using hb.1
        have hsk : skip = false := hb.2
        subst hsk
        simp only at herr ⊢
        cases hg : gAddBond o.mol a b order with
        | error e => simp [hg] at herr
        | ok m' =>
          simp only [hg, hsp, if_false, Bool.false_eq_true] at herr ⊢
          exact runFn_hout_bond hget h hout rfl (Or.inl bond_hrel.1) (by decide +kernel) (gAddBond_frame hg) herr
      | delBond oi a b skip =>
        simp only [Bool.and_eq_true, Bool.not_eq_true'] at hb
        have hsp : (Option.map (fun x => x.order) (o.mol.bond? a b) == some 8) = false := by simpa [bne] using hb.1
        have hsk : skip = false := hb.2
        subst hsk
        simp only at herr ⊢
        cases hg : gDelBond o.mol a b with
        | error e => simp [hg] at herr
        | ok m' =>
          simp only [hg, hsp, if_false, Bool.false_eq_true] at herr ⊢
          exact runFn_hout_bond hget h hout rfl (Or.inr bond_hrel.2) (by decide +kernel) (gDelBond_frame hg) herr
      | fixStructure oi r =>
        have hbk0 : bkH o.backup = some none := by rw [hout]; rfl
        cases r with
        | true =>
          refine runFn_hout hget hout (by decide +kernel) ?_ herr
          intro c hp
          rw [out_hrel.1] at hp
          simp only [interpH, guardsH, proj, stepH, hch, hcalcHs, hcalcTargets, HS.mk.injEq] at hp
          refine ⟨hp.2.2.1, ?_⟩
          rw [hp.1, hp.2.1]
          exact allFresh_hcalc_all o.mol o.hs
        | false =>
          refine runFn_hout hget hout (by decide +kernel) ?_ herr
          intro c hp
          rw [out_hrel.2] at hp
          simp only [interpH, guardsH, proj, stepH, HS.mk.injEq] at hp
          refine ⟨hp.2.2.1, ?_⟩
          rw [hp.1, hp.2.1]
          exact hfresh
      | calcLabels oi => exact runFn_hobj_neutral hget neutral_hrel.2.2 (by decide +kernel) h herr
      | fixStereo oi => exact runFn_hobj_neutral hget neutral_hrel.1 (by decide +kernel) h herr
      | cleanStereo oi => exact runFn_hobj_neutral hget neutral_hrel.2.1 (by decide +kernel) h herr
      | read oi k =>
        exact ⟨_, getElem?_setObj_self' hget, hobj_congr (readKey_proj _ _ _ _ _).1 (readKey_proj _ _ _ _ _).2.1
          (readKey_proj _ _ _ _ _).2.2.1 (readKey_proj _ _ _ _ _).2.2.2 h⟩
      | flush oi kS kC => exact ⟨_, getElem?_setObj_self' hget, hobj_congr (o := o) rfl rfl rfl rfl h⟩
      | setMeta oi k v => exact ⟨_, getElem?_setObj_self' hget, hobj_congr (o := o) rfl rfl rfl rfl h⟩
      | setXY oi n x y =>
        simp only at herr ⊢
        split
        · exact ⟨o, hget, h⟩
        · exact ⟨o, hget, h⟩
      | enter oi =>
        have herr' : (step current w (.enter oi) obs).err = none := by
          unfold step; simp only [Op.target]; rw [show w.objs[oi]? = some o from hget]; exact herr
        obtain ⟨o', bk, hg', ht', _, hbm, hbh⟩ := enter_txh (show w.objs[oi]? = some o from hget) hch hfresh herr'
        unfold step at hg'
        simp only [Op.target] at hg'
        rw [show w.objs[oi]? = some o from hget] at hg'
        refine ⟨o', hg', ⟨fun hn => ?_, fun bk' hbk' => ?_, Or.inr ⟨bk, ht'.hbk⟩⟩⟩
        · rw [ht'.hbk] at hn; cases hn
        · rw [ht'.hbk] at hbk'
          simp only [Option.some.injEq] at hbk'
          subst hbk'
          refine ⟨ht', ?_⟩
          rw [hbm, hbh]; exact hfresh
      | copy oi kS kC =>
        simp only at herr ⊢
        split
        · exact ⟨o, hget, h⟩
        · refine ⟨o, ?_, h⟩
          simp only
          rw [getElem?_append_lt _ _ _ hlt]; exact hget
      | addAtom oi z n skip =>
        have hsk : skip = false := by simpa using hb
        subst hsk
        simp only at herr ⊢
        cases hg : gAddAtom o.mol z n with
        | error e => simp [hg] at herr
        | ok r =>
          obtain ⟨m', k⟩ := r
          simp only [hg] at herr ⊢
          exact runFn_hout_addAtom hget h hout (gAddAtom_frame hg hwf) herr
      | delAtom _ _ _ => simp at hb
      | remap _ _ => simp at hb
      | substructure _ _ _ => simp at hb
      | union _ _ _ _ => simp at hb
      | exitOk _ => simp at hb
      | exitExc _ => simp at hb
      | setCharge _ _ _ => simp at hb
      | setRadical _ _ _ => simp at hb
    · -- inside a transaction
      obtain ⟨htx, hbkf⟩ := h.txn bk hbk
      simp only [hOpS, hbk] at hb
      by_cases hadd : ∃ oi z n skip, op = .addAtom oi z n skip
      · obtain ⟨oi, z, n, skip, rfl⟩ := hadd
        have hi' : i = oi := hti
        subst hi'
        unfold step at herr ⊢
        simp only [Op.target, hget] at herr ⊢
        cases hg : gAddAtom o.mol z n with
        | error e => simp [hg] at herr
        | ok r =>
          obtain ⟨m', k⟩ := r
          simp only [hg] at herr ⊢
          obtain ⟨o', hg', ht'⟩ := runFn_txh_addAtom hget htx (gAddAtom_frame hg hwf) herr
          refine ⟨o', hg', ⟨fun hn => ?_, fun b hb'' => ?_, Or.inr ⟨bk, ht'.hbk⟩⟩⟩
          · rw [ht'.hbk] at hn; cases hn
          · rw [ht'.hbk] at hb''
            simp only [Option.some.injEq] at hb''
            subst hb''
            exact ⟨ht', hbkf⟩
      by_cases hex : (∃ oi, op = .exitOk oi) ∨ (∃ oi, op = .exitExc oi)
      · rcases hex with ⟨oi, rfl⟩ | ⟨oi, rfl⟩
        · have hi' : i = oi := hti
          subst hi'
          obtain ⟨o', hg', _, hb', hc', hf'⟩ := exitOk_fresh hget htx herr
          exact ⟨o', hg', ⟨fun _ => ⟨hc', hf'⟩, fun b hb'' => (by rw [hb'] at hb''; cases hb''), Or.inl hb'⟩⟩
        · have hi' : i = oi := hti
          subst hi'
          obtain ⟨o', hg', hcore, hc', hb'⟩ := exitExc_restores hT hget hbk herr
          refine ⟨o', hg', ⟨fun _ => ⟨hc', ?_⟩, fun b hb'' => (by rw [hb'] at hb''; cases hb''), Or.inl hb'⟩⟩
          have h1 : o'.mol = bk.mol := by rw [show o'.mol = o'.toCore.mol from rfl, hcore]
          have h2 : o'.hs = bk.hs := by rw [show o'.hs = o'.toCore.hs from rfl, hcore]
          rw [h1, h2]; exact hbkf
      · have hb2 : blockOpS o op = true := by
          cases op <;> first | exact hb | (exfalso; exact hex (Or.inl ⟨_, rfl⟩)) | (exfalso; exact hex (Or.inr ⟨_, rfl⟩)) |
            (exfalso; exact hadd ⟨_, _, _, _, rfl⟩)
        obtain ⟨o', hg', ht'⟩ := step_txh hget htx (fun _ => hb2) herr
        refine ⟨o', hg', ⟨fun hn => ?_, fun b hb'' => ?_, Or.inr ⟨bk, ht'.hbk⟩⟩⟩
        · rw [ht'.hbk] at hn; cases hn
        · rw [ht'.hbk] at hb''
          simp only [Option.some.injEq] at hb''
          subst hb''
          exact ⟨ht', hbkf⟩
  · refine ⟨o, ?_, h⟩
    rw [step_frame current w op obs i hti hlt]
    exact hget

theorem lookup_map_self {β} (l : List Nat) (f : Nat → β) (k : Nat) (hk : k ∈ l) :
    (l.map fun n => (n, f n)).lookup k = some (f k) := by
  induction l with
  | nil => cases hk
  | cons a rest ih =>
    simp only [List.map_cons, List.lookup_cons]
    by_cases hka : k = a
    · subst hka; simp
    · have : (k == a) = false := beq_false_of_ne hka
      simp only [this]
      rcases List.mem_cons.mp hk with h | h
      · exact absurd h hka
      · exact ih h

/-- a freshly built molecule satisfies the hydrogen invariant -/
theorem freshObj_hobj (m : Mol) (a : Nat) : HObj (freshObj m a) :=
  ⟨fun _ => ⟨rfl, fun n hn => lookup_map_self m.ids (envOf m) n hn⟩, fun bk hbk => by simp [freshObj] at hbk, Or.inl rfl⟩

end ChythonModel.Proofs.C13
