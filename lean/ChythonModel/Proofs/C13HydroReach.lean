import ChythonModel.Proofs.C13HydroTxn
/-!
# C13 — stored hydrogens fresh in every state reachable through the covered operations (today's table)

`HObj`: outside a transaction nothing is pending and every stored hydrogen count is fresh; inside, `TxH` holds and the
snapshot's hydrogens are fresh.  Preserved by `hStep`: ordinary bond edits (in and outside a block), `fix_structure`
outside a block, attribute writes inside, `__enter__`, both `__exit__` paths, `copy` outside a block, reads, label / stereo
re-validation, flushes, coordinate / metadata writes.
-/
namespace ChythonModel.Proofs.C13
open ChythonModel.Model ChythonModel.Model.C13 ChythonModel.Gen.CacheEffects ChythonModel.Spec.Deps

structure HObj (o : Obj) : Prop where
  out : o.backup = some none → o.changed = some none ∧ AllFresh o.mol o.hs
  txn : ∀ bk, o.backup = some (some bk) → TxH o bk ∧ AllFresh bk.mol bk.hs
  slot : o.backup = some none ∨ ∃ bk, o.backup = some (some bk)

def HWorld (w : World) : Prop := ∀ o ∈ w.objs, HObj o

/-- the operations covered, depending on the state of the target object -/
def hOpS (o : Obj) (op : Op) : Bool :=
  match o.backup with
  | some (some _) =>
      (match op with
       | .exitOk _ | .exitExc _ => true
       | _ => blockOpS o op)
  | _ =>
      (match op with
       | .addBond _ _ _ order skip => order != 8 && !skip
       | .delBond _ a b skip => ((o.mol.bond? a b).map (·.order)) != some 8 && !skip
       | .fixStructure .. | .calcLabels _ | .fixStereo _ | .cleanStereo _ | .read .. | .flush .. | .setXY .. | .setMeta ..
       | .enter _ | .copy .. => true
       | _ => false)

theorem hworld_set {w : World} {i : Nat} {o : Obj} (v : List (Int × Int)) (hw : HWorld w) (ho : HObj o) :
    HWorld (setObj { w with vecs := v } i o) := by
  intro x hx
  simp only [setObj] at hx
  rcases List.mem_or_eq_of_mem_set hx with h | h
  · exact hw x h
  · rw [h]; exact ho

theorem hworld_of_get {w w' : World} {i : Nat} {o' : Obj} (hw : HWorld w) (hlen : w'.objs.length = w.objs.length)
    (hfr : ∀ j, j ≠ i → w'.objs[j]? = w.objs[j]?) (hg : w'.objs[i]? = some o') (ho : HObj o') : HWorld w' := by
  intro x hx
  obtain ⟨j, hj, hxj⟩ := List.getElem_of_mem hx
  by_cases hji : j = i
  · subst hji
    have : w'.objs[j]? = some x := by rw [List.getElem?_eq_getElem hj, hxj]
    rw [hg] at this
    cases this; exact ho
  · have h1 : w.objs[j]? = some x := by rw [← hfr j hji, List.getElem?_eq_getElem hj, hxj]
    exact hw x (List.mem_of_getElem? h1)

/-- fields the hydrogen invariant reads -/
theorem hobj_congr {o o' : Obj} (hm : o'.mol = o.mol) (hh : o'.hs = o.hs) (hc : o'.changed = o.changed)
    (hb : o'.backup = o.backup) (h : HObj o) : HObj o' := by
  refine ⟨fun hn => ?_, fun bk hbk => ?_, by rw [hb]; exact h.slot⟩
  · have := h.out (by rw [← hb]; exact hn)
    rw [hc, hm, hh]; exact this
  · have := h.txn bk (by rw [← hb]; exact hbk)
    exact ⟨txh_congr hm hh hc hb this.1, this.2⟩

theorem out_hrel :
    (expand current.fns expandFuel "MoleculeContainer.fix_structure" [("recalculate_hydrogens", true)]).filter (fun ge => hrel ge.e) =
      [⟨[], .hcalc⟩, ⟨[], .changedNone⟩] ∧
    (expand current.fns expandFuel "MoleculeContainer.fix_structure" [("recalculate_hydrogens", false)]).filter (fun ge => hrel ge.e) =
      [⟨[], .changedNone⟩] := by decide +kernel

theorem allFresh_hcalc_all (m : Mol) (hs : HEnv) :
    AllFresh m ((m.ids.filter m.hasAtom).foldl (fun hs n => setHs hs n (envOf m n)) hs) := by
  intro n hn
  rw [lookup_foldl_setHs]
  have : n ∈ m.ids.filter m.hasAtom := List.mem_filter.mpr ⟨hn, hasAtom_iff.mpr hn⟩
  simp [this]

/-- a method of an object outside a transaction, given the closed form of its effect on the projection -/
theorem runFn_hout {w : World} {i : Nat} {o : Obj} {cx : Ctx} {f : String} {env : List (String × Bool)}
    (hget : w.objs[i]? = some o) (hout : o.backup = some none)
    (hno : noBkWrites (expand current.fns expandFuel f env) = true)
    (hfin : ∀ c, proj c = interpH cx ((expand current.fns expandFuel f env).filter fun ge => hrel ge.e) (proj { o := o, vecs := w.vecs }) →
      c.o.changed = some none ∧ AllFresh c.o.mol c.o.hs)
    (herr : (runFn current w i o cx f env).err = none) :
    ∃ o', (runFn current w i o cx f env).w.objs[i]? = some o' ∧ HObj o' := by
  obtain ⟨c, hi⟩ := runFn_ok herr
  have hp := interp_proj _ _ _ hi
  rw [interpH_filter] at hp
  have hb := interp_backup (T := current) (cx := cx) _ { o := o, vecs := w.vecs } hno
  rw [hi] at hb
  have hb' : c.o.backup = some none := by rw [← hout]; exact hb
  rw [runFn_world, hi]
  refine ⟨c.o, getElem?_setObj_self _ hget, ⟨fun _ => hfin c hp, fun bk hbk => ?_, Or.inl hb'⟩⟩
  rw [hb'] at hbk; cases hbk

theorem nbrPart_congr {m m' : Mol} {k : Nat} (ha : m'.atoms = m.atoms) (hn : m'.adj.lookup k = m.adj.lookup k) :
    envOf m' k = envOf m k := envOf_congr ha hn

/-- an ordinary bond added / deleted outside a transaction: the two end atoms are recomputed, nothing stays pending -/
theorem runFn_hout_bond {w : World} {i : Nat} {o : Obj} {skip : Bool} {m' : Mol} {a b : Nat} {obs : List String} {f : String}
    (hget : w.objs[i]? = some o) (ho : HObj o) (hout : o.backup = some none) (hskip : skip = false)
    (hlist : (expand current.fns expandFuel f []).filter (fun ge => hrel ge.e) =
        [⟨[], .edit⟩, ⟨[.notSpecial], .changedAdd⟩, ⟨[.notSpecial, .ifCalc], .hcalc⟩, ⟨[.notSpecial, .ifCalc], .changedNone⟩] ∨
      (expand current.fns expandFuel f []).filter (fun ge => hrel ge.e) =
        [⟨[], .edit⟩, ⟨[.notSpecial], .changedAdd⟩, ⟨[.ifCalc], .hcalc⟩, ⟨[.ifCalc], .changedNone⟩])
    (hno : noBkWrites (expand current.fns expandFuel f []) = true)
    (hfr : m'.atoms = o.mol.atoms ∧ ∀ k, k ≠ a → k ≠ b → m'.adj.lookup k = o.mol.adj.lookup k)
    (herr : (runFn current w i o { skip := skip, special := false, touched := [a, b], editMol := some m', obs := obs } f []).err = none) :
    ∃ o', (runFn current w i o { skip := skip, special := false, touched := [a, b], editMol := some m', obs := obs } f []).w.objs[i]? =
      some o' ∧ HObj o' := by
  subst hskip
  obtain ⟨hch, hfresh⟩ := ho.out hout
  refine runFn_hout hget hout hno ?_ herr
  intro c hp
  have hbk : bkH o.backup = some none := by rw [hout]; rfl
  have hmemT : ∀ k, k ∈ unionNat [] [a, b] ↔ k = a ∨ k = b := by intro k; simp [mem_unionNat]
  cases hT : unionNat [] [a, b] with
  | nil =>
    have := (hmemT a).mpr (Or.inl rfl)
    rw [hT] at this; cases this
  | cons x xs =>
    have hfinal : c.o.mol = m' ∧ c.o.changed = some none ∧
        c.o.hs = (((x :: xs).filter m'.hasAtom).foldl (fun hs n => setHs hs n (envOf m' n)) (o.hs.filter fun p => m'.ids.contains p.1)) := by
      rcases hlist with hl | hl <;> rw [hl] at hp <;>
        simp only [interpH, guardsH, proj, hbk, stepH, editHs, hch, if_false, Bool.false_eq_true, Bool.and_false,
          List.isEmpty_cons, HS.mk.injEq, hT, hcalcHs, hcalcTargets] at hp <;>
        exact ⟨hp.1, hp.2.2.1, hp.2.1⟩
    obtain ⟨hm, hc, hh⟩ := hfinal
    refine ⟨hc, ?_⟩
    intro k hk
    rw [hm] at hk ⊢
    have hids : m'.ids = o.mol.ids := by simp [Mol.ids, hfr.1]
    rw [hh, lookup_foldl_setHs]
    by_cases hin : k ∈ (x :: xs).filter m'.hasAtom
    · simp [hin]
    · simp only [hin, if_false]
      have hk' : k ∈ o.mol.ids := by rw [← hids]; exact hk
      have hne : k ≠ a ∧ k ≠ b := by
        constructor <;>
          (intro he; apply hin; refine List.mem_filter.mpr ⟨?_, hasAtom_iff.mpr hk⟩; rw [← hT, hmemT]; simp [he])
      rw [lookup_filter_key _ (fun x => m'.ids.contains x) k (by simpa using hk), hfresh k hk',
        envOf_congr hfr.1 (hfr.2 k hne.1 hne.2)]

theorem runFn_hobj_neutral {w : World} {i : Nat} {o : Obj} {cx : Ctx} {f : String} {env : List (String × Bool)}
    (hget : w.objs[i]? = some o) (hrel0 : (expand current.fns expandFuel f env).filter (fun ge => hrel ge.e) = [])
    (hno : noBkWrites (expand current.fns expandFuel f env) = true) (h : HObj o)
    (herr : (runFn current w i o cx f env).err = none) :
    ∃ o', (runFn current w i o cx f env).w.objs[i]? = some o' ∧ HObj o' := by
  obtain ⟨c, hi⟩ := runFn_ok herr
  have hp := interp_proj _ _ _ hi
  rw [interpH_filter, hrel0] at hp
  have hb := interp_backup (T := current) (cx := cx) _ { o := o, vecs := w.vecs } hno
  rw [hi] at hb
  rw [runFn_world, hi]
  simp only [interpH, proj, HS.mk.injEq] at hp
  exact ⟨c.o, getElem?_setObj_self _ hget, hobj_congr hp.1 hp.2.1 hp.2.2.1 hb h⟩

/-- **one step**: the hydrogen invariant of object `i` survives every covered operation on it and every operation on
other objects -/
theorem step_hobj (hT : TablesOK current = true) {w : World} {i : Nat} {o : Obj} {op : Op} {obs : List String}
    (hget : w.objs[i]? = some o) (h : HObj o) (hop : op.target = i → hOpS o op = true)
    (herr : (step current w op obs).err = none) :
    ∃ o', (step current w op obs).w.objs[i]? = some o' ∧ HObj o' := by
  have hlt : i < w.objs.length := by
    rcases Nat.lt_or_ge i w.objs.length with hl | hl
    · exact hl
    · rw [List.getElem?_eq_none hl] at hget; cases hget
  by_cases hti : i = op.target
  · have hb := hop hti.symm
    rcases h.slot with hout | ⟨bk, hbk⟩
    · -- outside a transaction
      subst hti
      simp only [hOpS, hout, Bool.and_eq_true] at hb
      obtain ⟨hch, hfresh⟩ := h.out hout
      unfold step at herr ⊢
      simp only [hget] at herr ⊢
      cases op with
      | addBond oi a b order skip =>
        simp only [Bool.and_eq_true, Bool.not_eq_true'] at hb
        have hsp : (order == 8) = false := by simpa using hb.1
        have hsk : skip = false := hb.2
        subst hsk
        simp only at herr ⊢
        cases hg : gAddBond o.mol a b order with
        | error e => simp [hg] at herr
        | ok m' =>
          simp only [hg, hsp, if_false, Bool.false_eq_true] at herr ⊢
          exact runFn_hout_bond hget h hout rfl (Or.inl bond_hrel.1) (by decide +kernel) (gAddBond_frame hg) herr
      | delBond oi a b skip =>
        simp only [Bool.and_eq_true, Bool.not_eq_true'] at hb
        have hsp : (Option.map (fun x => x.order) (o.mol.bond? a b) == some 8) = false := by simpa [bne] using hb.1
        have hsk : skip = false := hb.2
        subst hsk
        simp only at herr ⊢
        cases hg : gDelBond o.mol a b with
        | error e => simp [hg] at herr
        | ok m' =>
          simp only [hg, hsp, if_false, Bool.false_eq_true] at herr ⊢
          exact runFn_hout_bond hget h hout rfl (Or.inr bond_hrel.2) (by decide +kernel) (gDelBond_frame hg) herr
      | fixStructure oi r =>
        have hbk0 : bkH o.backup = some none := by rw [hout]; rfl
        cases r with
        | true =>
          refine runFn_hout hget hout (by decide +kernel) ?_ herr
          intro c hp
          rw [out_hrel.1] at hp
          simp only [interpH, guardsH, proj, stepH, hch, hcalcHs, hcalcTargets, HS.mk.injEq] at hp
          refine ⟨hp.2.2.1, ?_⟩
          rw [hp.1, hp.2.1]
          exact allFresh_hcalc_all o.mol o.hs
        | false =>
          refine runFn_hout hget hout (by decide +kernel) ?_ herr
          intro c hp
          rw [out_hrel.2] at hp
          simp only [interpH, guardsH, proj, stepH, HS.mk.injEq] at hp
          refine ⟨hp.2.2.1, ?_⟩
          rw [hp.1, hp.2.1]
          exact hfresh
      | calcLabels oi => exact runFn_hobj_neutral hget neutral_hrel.2.2 (by decide +kernel) h herr
      | fixStereo oi => exact runFn_hobj_neutral hget neutral_hrel.1 (by decide +kernel) h herr
      | cleanStereo oi => exact runFn_hobj_neutral hget neutral_hrel.2.1 (by decide +kernel) h herr
      | read oi k =>
        exact ⟨_, getElem?_setObj_self' hget, hobj_congr (readKey_proj _ _ _ _ _).1 (readKey_proj _ _ _ _ _).2.1
          (readKey_proj _ _ _ _ _).2.2.1 (readKey_proj _ _ _ _ _).2.2.2 h⟩
      | flush oi kS kC => exact ⟨_, getElem?_setObj_self' hget, hobj_congr (o := o) rfl rfl rfl rfl h⟩
      | setMeta oi k v => exact ⟨_, getElem?_setObj_self' hget, hobj_congr (o := o) rfl rfl rfl rfl h⟩
      | setXY oi n x y =>
        simp only at herr ⊢
        split
        · exact ⟨o, hget, h⟩
        · exact ⟨o, hget, h⟩
      | enter oi =>
        have herr' : (step current w (.enter oi) obs).err = none := by
          unfold step; simp only [Op.target]; rw [show w.objs[oi]? = some o from hget]; exact herr
        obtain ⟨o', bk, hg', ht', _, hbm, hbh⟩ := enter_txh (show w.objs[oi]? = some o from hget) hch hfresh herr'
        unfold step at hg'
        simp only [Op.target] at hg'
        rw [show w.objs[oi]? = some o from hget] at hg'
        refine ⟨o', hg', ⟨fun hn => ?_, fun bk' hbk' => ?_, Or.inr ⟨bk, ht'.hbk⟩⟩⟩
        · rw [ht'.hbk] at hn; cases hn
        · rw [ht'.hbk] at hbk'
          simp only [Option.some.injEq] at hbk'
          subst hbk'
          refine ⟨ht', ?_⟩
          rw [hbm, hbh]; exact hfresh
      | copy oi kS kC =>
        simp only at herr ⊢
        split
        · exact ⟨o, hget, h⟩
        · refine ⟨o, ?_, h⟩
          simp only
          rw [getElem?_append_lt _ _ _ hlt]; exact hget
      | addAtom _ _ _ _ => simp at hb
      | delAtom _ _ _ => simp at hb
      | remap _ _ => simp at hb
      | substructure _ _ _ => simp at hb
      | union _ _ _ _ => simp at hb
      | exitOk _ => simp at hb
      | exitExc _ => simp at hb
      | setCharge _ _ _ => simp at hb
      | setRadical _ _ _ => simp at hb
    · -- inside a transaction
      obtain ⟨htx, hbkf⟩ := h.txn bk hbk
      simp only [hOpS, hbk] at hb
      by_cases hex : (∃ oi, op = .exitOk oi) ∨ (∃ oi, op = .exitExc oi)
      · rcases hex with ⟨oi, rfl⟩ | ⟨oi, rfl⟩
        · have hi' : i = oi := hti
          subst hi'
          obtain ⟨o', hg', _, hb', hc', hf'⟩ := exitOk_fresh hget htx herr
          exact ⟨o', hg', ⟨fun _ => ⟨hc', hf'⟩, fun b hb'' => (by rw [hb'] at hb''; cases hb''), Or.inl hb'⟩⟩
        · have hi' : i = oi := hti
          subst hi'
          obtain ⟨o', hg', hcore, hc', hb'⟩ := exitExc_restores hT hget hbk herr
          refine ⟨o', hg', ⟨fun _ => ⟨hc', ?_⟩, fun b hb'' => (by rw [hb'] at hb''; cases hb''), Or.inl hb'⟩⟩
          have h1 : o'.mol = bk.mol := by rw [show o'.mol = o'.toCore.mol from rfl, hcore]
          have h2 : o'.hs = bk.hs := by rw [show o'.hs = o'.toCore.hs from rfl, hcore]
          rw [h1, h2]; exact hbkf
      · have hb2 : blockOpS o op = true := by
          cases op <;> first | exact hb | (exfalso; exact hex (Or.inl ⟨_, rfl⟩)) | (exfalso; exact hex (Or.inr ⟨_, rfl⟩))
        obtain ⟨o', hg', ht'⟩ := step_txh hget htx (fun _ => hb2) herr
        refine ⟨o', hg', ⟨fun hn => ?_, fun b hb'' => ?_, Or.inr ⟨bk, ht'.hbk⟩⟩⟩
        · rw [ht'.hbk] at hn; cases hn
        · rw [ht'.hbk] at hb''
          simp only [Option.some.injEq] at hb''
          subst hb''
          exact ⟨ht', hbkf⟩
  · refine ⟨o, ?_, h⟩
    rw [step_frame current w op obs i hti hlt]
    exact hget

theorem lookup_map_self {β} (l : List Nat) (f : Nat → β) (k : Nat) (hk : k ∈ l) :
    (l.map fun n => (n, f n)).lookup k = some (f k) := by
  induction l with
  | nil => cases hk
  | cons a rest ih =>
    simp only [List.map_cons, List.lookup_cons]
    by_cases hka : k = a
    · subst hka; simp
    · have : (k == a) = false := beq_false_of_ne hka
      simp only [this]
      rcases List.mem_cons.mp hk with h | h
      · exact absurd h hka
      · exact ih h

/-- a freshly built molecule satisfies the hydrogen invariant -/
theorem freshObj_hobj (m : Mol) (a : Nat) : HObj (freshObj m a) :=
  ⟨fun _ => ⟨rfl, fun n hn => lookup_map_self m.ids (envOf m) n hn⟩, fun bk hbk => by simp [freshObj] at hbk, Or.inl rfl⟩

end ChythonModel.Proofs.C13
