import ChythonModel.Model.C15Compose
/-!
Helper lemmas for `Props/C15.lean`: facts extracted from `Mol.WF`, association-list lookups,
the generic bond-collecting loop `pairLoop`, `adjRow`, `adjOf`, `mapE`.
-/
namespace ChythonModel.Proofs.C15
open ChythonModel.Model ChythonModel.Model.C15

/-! ## association lists -/

theorem lookup_some_mem {α : Type} (l : List (Nat × α)) (k : Nat) (v : α) :
    l.lookup k = some v → (k, v) ∈ l := by
  induction l with
  | nil => simp [List.lookup]
  | cons hd tl ih =>
    obtain ⟨k', v'⟩ := hd
    simp only [List.lookup]
    split
    · rename_i h; intro hv; simp at h; simp at hv; subst h; subst hv; simp
    · intro h; exact List.mem_cons_of_mem _ (ih h)

theorem mem_lookup_of_nodup {α : Type} (l : List (Nat × α)) (k : Nat) (v : α)
    (nd : (l.map (·.1)).Nodup) : (k, v) ∈ l → l.lookup k = some v := by
  induction l with
  | nil => simp
  | cons hd tl ih =>
    obtain ⟨k', v'⟩ := hd
    simp only [List.map_cons, List.nodup_cons] at nd
    intro hm
    simp only [List.lookup]
    rcases List.mem_cons.mp hm with h | h
    · injection h with h1 h2; subst h1; subst h2; simp
    · have : k ≠ k' := by
        intro e; subst e; exact nd.1 (List.mem_map.mpr ⟨(k, v), h, rfl⟩)
      have hb : (k == k') = false := by simpa using this
      rw [hb]; exact ih nd.2 h

theorem lookup_none_iff {α : Type} (l : List (Nat × α)) (k : Nat) :
    l.lookup k = none ↔ ∀ v, (k, v) ∉ l := by
  induction l with
  | nil => simp [List.lookup]
  | cons hd tl ih =>
    obtain ⟨k', v'⟩ := hd
    simp only [List.lookup]
    by_cases h : k = k'
    · subst h
      simp only [beq_self_eq_true]
      constructor
      · intro h; cases h
      · intro h; exact absurd List.mem_cons_self (h v')
    · have hb : (k == k') = false := by simpa using h
      rw [hb]; simp only [ih, List.mem_cons, Prod.mk.injEq, not_or]
      constructor
      · intro a v; exact ⟨fun e => h e.1, a v⟩
      · intro a v; exact (a v).2

/-- a lookup is determined by membership when the values of a key are unique -/
theorem lookup_eq_some_iff_of_unique {α : Type} (l : List (Nat × α)) (k : Nat) (v : α)
    (u : ∀ v', (k, v') ∈ l → v' = v) : (k, v) ∈ l → l.lookup k = some v := by
  intro hm
  cases h : l.lookup k with
  | none => exact absurd hm ((lookup_none_iff l k).mp h v)
  | some w => rw [u w (lookup_some_mem l k w h)]

theorem lookup_map_key {α : Type} (keys : List Nat) (f : Nat → α) (n : Nat) :
    (keys.map fun k => (k, f k)).lookup n = if n ∈ keys then some (f n) else none := by
  induction keys with
  | nil => simp [List.lookup]
  | cons k tl ih =>
    simp only [List.map_cons, List.lookup]
    by_cases h : n = k
    · subst h; simp
    · have hb : (n == k) = false := by simpa using h
      rw [hb, ih]; simp [h]

/-! ## facts from `Mol.WF` -/

structure WFp (g : Mol) : Prop where
  idsNodup : g.ids.Nodup
  adjKeys : g.adj.map (·.1) = g.ids
  rowNodup : ∀ n row, (n, row) ∈ g.adj → (row.map (·.1)).Nodup
  rowOk : ∀ n row, (n, row) ∈ g.adj → ∀ k b, (k, b) ∈ row → k ≠ n ∧ g.hasAtom k = true ∧ g.bond? k n = some b

theorem wfp_of_WF (g : Mol) (h : g.WF = true) : WFp g := by
  simp only [Mol.WF, Bool.and_eq_true, List.all_eq_true, decide_eq_true_eq, beq_iff_eq, bne_iff_ne, ne_eq] at h
  obtain ⟨⟨h1, h2⟩, h3⟩ := h
  refine ⟨h1, h2, ?_, ?_⟩
  · intro n row hm; exact (h3 (n, row) hm).1
  · intro n row hm k b hk
    have := (h3 (n, row) hm).2 (k, b) hk
    exact ⟨this.1.1, this.1.2, this.2⟩

theorem hasAtom_iff (g : Mol) (n : Nat) : g.hasAtom n = true ↔ n ∈ g.ids := by
  simp [Mol.hasAtom, Mol.ids, List.any_eq_true]

theorem hasAtom_false_iff (g : Mol) (n : Nat) : g.hasAtom n = false ↔ n ∉ g.ids := by
  rw [← hasAtom_iff]; simp

/-- the row of `n` in `_bonds` -/
theorem nbrs_mem_adj (g : Mol) (w : WFp g) (n m : Nat) (b : Bond) (h : (m, b) ∈ g.nbrs n) :
    (n, g.nbrs n) ∈ g.adj := by
  unfold Mol.nbrs at h ⊢
  cases hl : g.adj.lookup n with
  | none => rw [hl] at h; simp at h
  | some row => simp only [Option.getD]; exact lookup_some_mem _ _ _ hl

theorem nbrs_facts (g : Mol) (w : WFp g) (n m : Nat) (b : Bond) (h : (m, b) ∈ g.nbrs n) :
    m ≠ n ∧ n ∈ g.ids ∧ m ∈ g.ids ∧ g.bond? n m = some b ∧ g.bond? m n = some b := by
  have hadj := nbrs_mem_adj g w n m b h
  have ok := w.rowOk n _ hadj m b h
  have nd := w.rowNodup n _ hadj
  refine ⟨ok.1, ?_, (hasAtom_iff g m).mp ok.2.1, ?_, ok.2.2⟩
  · rw [← w.adjKeys]; exact List.mem_map.mpr ⟨_, hadj, rfl⟩
  · exact mem_lookup_of_nodup _ _ _ nd h

theorem bond_mem_nbrs (g : Mol) (n m : Nat) (b : Bond) (h : g.bond? n m = some b) : (m, b) ∈ g.nbrs n :=
  lookup_some_mem _ _ _ h

theorem bond_symm (g : Mol) (w : WFp g) (n m : Nat) : g.bond? n m = g.bond? m n := by
  cases h1 : g.bond? n m with
  | some b => exact ((nbrs_facts g w n m b (bond_mem_nbrs g n m b h1)).2.2.2.2).symm
  | none =>
    cases h2 : g.bond? m n with
    | none => rfl
    | some b =>
      have := (nbrs_facts g w m n b (bond_mem_nbrs g m n b h2)).2.2.2.2
      rw [h1] at this; exact this

theorem nbrs_nodup (g : Mol) (w : WFp g) (n : Nat) : ((g.nbrs n).map (·.1)).Nodup := by
  unfold Mol.nbrs
  cases hl : g.adj.lookup n with
  | none => simp
  | some row => simp only [Option.getD]; exact w.rowNodup n row (lookup_some_mem _ _ _ hl)

/-- bond order on a side -/
def ord? (g : Mol) (n m : Nat) : Option Nat := (g.bond? n m).map (·.order)

theorem ord_symm (g : Mol) (w : WFp g) (n m : Nat) : ord? g n m = ord? g m n := by
  unfold ord?; rw [bond_symm g w]

theorem ord_some_facts (g : Mol) (w : WFp g) (n m o : Nat) (h : ord? g n m = some o) :
    m ≠ n ∧ n ∈ g.ids ∧ m ∈ g.ids := by
  unfold ord? at h
  cases hb : g.bond? n m with
  | none => rw [hb] at h; simp at h
  | some b =>
    have := nbrs_facts g w n m b (bond_mem_nbrs g n m b hb)
    exact ⟨this.1, this.2.1, this.2.2.1⟩

theorem mem_nbrs_iff_ord (g : Mol) (w : WFp g) (n m o : Nat) :
    (∃ b, (m, b) ∈ g.nbrs n ∧ b.order = o) ↔ ord? g n m = some o := by
  unfold ord?
  constructor
  · rintro ⟨b, hm, ho⟩
    rw [(nbrs_facts g w n m b hm).2.2.2.1]; simp [ho]
  · intro h
    cases hb : g.bond? n m with
    | none => rw [hb] at h; simp at h
    | some b => rw [hb] at h; simp at h; exact ⟨b, bond_mem_nbrs g n m b hb, h⟩

/-! ## `Has`: a triple list contains the unordered pair `{n, m}` with value `x` -/

def Has {β : Type} (B : List (Nat × Nat × β)) (n m : Nat) (x : β) : Prop := (n, m, x) ∈ B ∨ (m, n, x) ∈ B

theorem has_append {β : Type} (B C : List (Nat × Nat × β)) (n m : Nat) (x : β) :
    Has (B ++ C) n m x ↔ Has B n m x ∨ Has C n m x := by
  simp only [Has, List.mem_append]; grind

theorem has_symm {β : Type} (B : List (Nat × Nat × β)) (n m : Nat) (x : β) : Has B n m x ↔ Has B m n x := by
  simp only [Has]; grind

/-- the generic loop emits each admissible unordered pair, with the value of the row it was found in -/
theorem pairLoop_has {β : Type} (row : Nat → List (Nat × β)) (ns : List Nat) :
    ∀ (ha : List Nat), ns.Nodup → (∀ x ∈ ns, x ∉ ha) →
    (∀ n ∈ ns, ∀ x, (n, x) ∉ row n) →
    (∀ n ∈ ns, ∀ m ∈ ns, ∀ x, (m, x) ∈ row n ↔ (n, x) ∈ row m) →
    ∀ n m x, Has (pairLoop row ha ns) n m x ↔
      (n ∈ ns ∧ (m, x) ∈ row n ∧ m ∉ ha) ∨ (m ∈ ns ∧ (n, x) ∈ row m ∧ n ∉ ha) := by
  induction ns with
  | nil => intro ha _ _ _ _ n m x; simp [pairLoop, Has]
  | cons a rest ih =>
    intro ha nd dis nl sym n m x
    have nd' := (List.nodup_cons.mp nd)
    have ih' := ih (a :: ha) nd'.2
      (by intro y hy; simp only [List.mem_cons, not_or]
          exact ⟨fun e => nd'.1 (e ▸ hy), dis y (List.mem_cons_of_mem _ hy)⟩)
      (fun k hk => nl k (List.mem_cons_of_mem _ hk))
      (fun k hk l hl => sym k (List.mem_cons_of_mem _ hk) l (List.mem_cons_of_mem _ hl)) n m x
    have hF : ∀ u v y, (u, v, y) ∈ ((row a).filterMap fun e => if (a :: ha).contains e.1 then none else some (a, e.1, e.2))
        ↔ u = a ∧ (v, y) ∈ row a ∧ v ≠ a ∧ v ∉ ha := by
      intro u v y
      simp only [List.mem_filterMap, List.contains_eq_mem, List.mem_cons, decide_eq_true_eq]
      constructor
      · rintro ⟨⟨k, z⟩, hk, he⟩
        split at he
        · simp at he
        · rename_i hc
          simp only [Option.some.injEq, Prod.mk.injEq] at he
          obtain ⟨e1, e2, e3⟩ := he
          subst e1; subst e2; subst e3
          simp only [not_or] at hc
          exact ⟨rfl, hk, hc.1, hc.2⟩
      · rintro ⟨e, hk, h1, h2⟩
        refine ⟨(v, y), hk, ?_⟩
        subst e
        simp [h1, h2]
    simp only [pairLoop, has_append, ih']
    simp only [Has, hF, List.mem_cons]
    have da := dis a (List.mem_cons_self)
    have nla := nl a (List.mem_cons_self)
    have symA : ∀ k ∈ rest, ∀ y, (k, y) ∈ row a ↔ (a, y) ∈ row k :=
      fun k hk y => sym a List.mem_cons_self k (List.mem_cons_of_mem _ hk) y
    have disR : ∀ k ∈ rest, k ∉ ha ∧ k ≠ a :=
      fun k hk => ⟨dis k (List.mem_cons_of_mem _ hk), fun e => nd'.1 (e ▸ hk)⟩
    grind

/-! ## rows -/

theorem sideRow_mem (g : Mol) (w : WFp g) (cs : List Nat) (formed : Bool) (n m : Nat) (x : DynBond) :
    (m, x) ∈ sideRow g cs formed n ↔
      ∃ o, ord? g n m = some o ∧ x = (if cs.contains m then oneSided formed o else unchanged o) := by
  simp only [sideRow, List.mem_map, Prod.mk.injEq]
  constructor
  · rintro ⟨⟨k, b⟩, hk, e1, e2⟩
    simp only at e1 e2; subst e1
    exact ⟨b.order, (mem_nbrs_iff_ord g w n k b.order).mp ⟨b, hk, rfl⟩, e2.symm⟩
  · rintro ⟨o, ho, hx⟩
    obtain ⟨b, hb, hbo⟩ := (mem_nbrs_iff_ord g w n m o).mpr ho
    exact ⟨(m, b), hb, rfl, by simp only [hbo]; exact hx.symm⟩

theorem lookup_filter_key {α : Type} (l : List (Nat × α)) (P : Nat → Bool) (k : Nat) :
    (l.filter fun e => P e.1).lookup k = if P k then l.lookup k else none := by
  induction l with
  | nil => simp [List.lookup]
  | cons hd tl ih =>
    obtain ⟨k', v'⟩ := hd
    by_cases hp : P k' = true
    · simp only [List.filter, hp, List.lookup]
      by_cases hk : k = k'
      · subst hk; simp [hp]
      · have hb : (k == k') = false := by simpa using hk
        rw [hb]; exact ih
    · have hp' : P k' = false := by simpa using hp
      simp only [List.filter, hp', List.lookup]
      by_cases hk : k = k'
      · subst hk; simp [hp', ih]
      · have hb : (k == k') = false := by simpa using hk
        rw [hb]; exact ih

theorem adjRow_mem (r p : Mol) (wr : WFp r) (wp : WFp p) (cs : List Nat) (n m : Nat) (o1 o2 : Option Nat) :
    (m, o1, o2) ∈ adjRow r p cs n ↔
      cs.contains m = true ∧ o1 = ord? r n m ∧ o2 = ord? p n m ∧ (o1 ≠ none ∨ o2 ≠ none) := by
  have hpl : ((p.nbrs n).filter fun mb => cs.contains mb.1).lookup m
      = if cs.contains m then p.bond? n m else none := lookup_filter_key (p.nbrs n) (fun k => cs.contains k) m
  simp only [adjRow, List.mem_append, List.mem_map, List.mem_filter, Prod.mk.injEq, List.any_eq_true,
    Bool.not_eq_true', Bool.eq_false_iff, ne_eq]
  constructor
  · rintro (⟨⟨k, b⟩, ⟨hk, hc⟩, e1, e2, e3⟩ | ⟨⟨k, b⟩, ⟨⟨hk, hc⟩, hnot⟩, e1, e2, e3⟩)
    · simp only at e1 e2 e3 hc; subst e1
      have hr := (nbrs_facts r wr n k b hk).2.2.2.1
      refine ⟨hc, ?_, ?_, Or.inl (by rw [← e2]; simp)⟩
      · rw [← e2]; simp [ord?, hr]
      · rw [← e3, hpl, hc]; simp [ord?]
    · simp only at e1 e2 e3 hc; subst e1
      have hp := (nbrs_facts p wp n k b hk).2.2.2.1
      refine ⟨hc, ?_, ?_, Or.inr (by rw [← e3]; simp)⟩
      · rw [← e2]
        cases hr : r.bond? n k with
        | none => simp [ord?, hr]
        | some b' =>
          exfalso; apply hnot
          exact ⟨(k, b'), ⟨bond_mem_nbrs r n k b' hr, hc⟩, by simp⟩
      · rw [← e3]; simp [ord?, hp]
  · rintro ⟨hc, e1, e2, hne⟩
    cases hr : r.bond? n m with
    | some b =>
      left
      refine ⟨(m, b), ⟨bond_mem_nbrs r n m b hr, hc⟩, rfl, ?_, ?_⟩
      · simp [e1, ord?, hr]
      · simp only [hpl, hc, if_true, e2, ord?]
    | none =>
      have h1 : o1 = none := by simp [e1, ord?, hr]
      cases hp : p.bond? n m with
      | none => exfalso; rcases hne with h | h
                · exact h h1
                · exact h (by simp [e2, ord?, hp])
      | some b =>
        right
        refine ⟨(m, b), ⟨⟨bond_mem_nbrs p n m b hp, hc⟩, ?_⟩, rfl, h1.symm, by simp [e2, ord?, hp]⟩
        rintro ⟨⟨k, b'⟩, ⟨hk, _⟩, hkm⟩
        simp only [beq_iff_eq] at hkm; subst hkm
        have := (nbrs_facts r wr n k b' hk).2.2.2.1
        rw [hr] at this; cases this

/-! ## `mapE` -/

theorem mapE_lookup {β : Type} (f : Nat → Except String (Nat × β)) (val : Nat → Option β)
    (hf : ∀ n y, f n = .ok y → y.1 = n ∧ val n = some y.2) :
    ∀ (ns : List Nat) (l : List (Nat × β)), mapE f ns = .ok l →
      l.map (·.1) = ns ∧ ∀ n, l.lookup n = if n ∈ ns then val n else none := by
  intro ns
  induction ns with
  | nil => intro l h; simp only [mapE, Except.ok.injEq] at h; subst h; simp [List.lookup]
  | cons a tl ih =>
    intro l h
    simp only [mapE] at h
    split at h
    · cases h
    · rename_i b hb
      split at h
      · cases h
      · rename_i bs hbs
        simp only [Except.ok.injEq] at h; subst h
        obtain ⟨k, v⟩ := b
        have := hf a (k, v) hb
        simp only at this
        obtain ⟨e, hv⟩ := this
        subst e
        have ih' := ih bs hbs
        refine ⟨by simp [ih'.1], ?_⟩
        intro n
        simp only [List.lookup]
        by_cases hn : n = k
        · subst hn; simp [hv]
        · have hb' : (n == k) = false := by simpa using hn
          rw [hb', ih'.2 n]; simp [hn]

theorem mapE_mem {α β : Type} (f : α → Except String β) :
    ∀ (l : List α) (l' : List β), mapE f l = .ok l' → ∀ y, y ∈ l' ↔ ∃ a ∈ l, f a = .ok y := by
  intro l
  induction l with
  | nil => intro l' h; simp only [mapE, Except.ok.injEq] at h; subst h; simp
  | cons a tl ih =>
    intro l' h y
    simp only [mapE] at h
    split at h
    · cases h
    · rename_i b hb
      split at h
      · cases h
      · rename_i bs hbs
        simp only [Except.ok.injEq] at h; subst h
        simp only [List.mem_cons, ih bs hbs y]
        constructor
        · rintro (e | ⟨a', ha', hy⟩)
          · exact ⟨a, Or.inl rfl, e ▸ hb⟩
          · exact ⟨a', Or.inr ha', hy⟩
        · rintro ⟨a', (e | ha'), hy⟩
          · subst e; rw [hb] at hy; cases hy; exact Or.inl rfl
          · exact Or.inr ⟨a', ha', hy⟩

theorem mapE_ok_of_all {α β : Type} (f : α → Except String β) :
    ∀ (l : List α), (∀ a ∈ l, ∃ y, f a = .ok y) → ∃ l', mapE f l = .ok l' := by
  intro l
  induction l with
  | nil => intro _; exact ⟨[], rfl⟩
  | cons a tl ih =>
    intro h
    obtain ⟨y, hy⟩ := h a List.mem_cons_self
    obtain ⟨l', hl'⟩ := ih (fun a' ha' => h a' (List.mem_cons_of_mem _ ha'))
    exact ⟨y :: l', by simp [mapE, hy, hl']⟩

theorem mapE_error_of_mem {α β : Type} (f : α → Except String β) (e : String) :
    ∀ (l : List α), (∀ a ∈ l, ∀ e', f a = .error e' → e' = e) → (∃ a ∈ l, ∃ e', f a = .error e') →
      mapE f l = .error e := by
  intro l
  induction l with
  | nil => intro _ h; obtain ⟨a, ha, _⟩ := h; cases ha
  | cons a tl ih =>
    intro hall hex
    simp only [mapE]
    cases hfa : f a with
    | error e' => simp [hall a List.mem_cons_self e' hfa]
    | ok b =>
      simp only
      have : mapE f tl = .error e := by
        apply ih (fun a' ha' => hall a' (List.mem_cons_of_mem _ ha'))
        obtain ⟨a', ha', e', he'⟩ := hex
        rcases List.mem_cons.mp ha' with h | h
        · subst h; rw [hfa] at he'; cases he'
        · exact ⟨a', h, e', he'⟩
      rw [this]

/-! ## admissible iteration orders, the specification, the core lemma -/

/-- `ls fs cs` enumerate `self - common`, `other - common`, `common` without repetition (any order). -/
structure Admissible (r p : Mol) (ls fs cs : List Nat) : Prop where
  lsNodup : ls.Nodup
  fsNodup : fs.Nodup
  csNodup : cs.Nodup
  ls_iff : ∀ n, n ∈ ls ↔ n ∈ r.ids ∧ n ∉ p.ids
  fs_iff : ∀ n, n ∈ fs ↔ n ∈ p.ids ∧ n ∉ r.ids
  cs_iff : ∀ n, n ∈ cs ↔ n ∈ r.ids ∧ n ∈ p.ids

/-- What the condensed graph must contain for the pair `n, m` (written from the documentation of CGRs):
    both orders where the bond exists on both sides; a one-sided bond is *broken/formed* when an endpoint exists on
    the other side, and carried over unchanged when both endpoints exist on one side only (leaving / incoming group). -/
def specBond (r p : Mol) (n m : Nat) : Option DynBond :=
  match ord? r n m, ord? p n m with
  | none, none => none
  | some a, some b => some ⟨some a, some b⟩
  | some a, none => some (if p.hasAtom n || p.hasAtom m then ⟨some a, none⟩ else ⟨some a, some a⟩)
  | none, some b => some (if r.hasAtom n || r.hasAtom m then ⟨none, some b⟩ else ⟨some b, some b⟩)

theorem mkDynBond_ok (o1 o2 : Option Nat) (d : DynBond) (h : mkDynBond o1 o2 = .ok d) : d = ⟨o1, o2⟩ := by
  unfold mkDynBond at h
  split at h
  · cases h
  · split at h
    · cases h
    · cases h; rfl

theorem has_b1 (r p : Mol) (wr : WFp r) (ls fs cs : List Nat) (ad : Admissible r p ls fs cs) (n m : Nat) (d : DynBond) :
    Has (pairLoop (sideRow r cs false) [] ls) n m d ↔
      ∃ o, ord? r n m = some o ∧ ((n ∈ ls ∧ d = if m ∈ cs then ⟨some o, none⟩ else ⟨some o, some o⟩) ∨
                                   (m ∈ ls ∧ d = if n ∈ cs then ⟨some o, none⟩ else ⟨some o, some o⟩)) := by
  have hls : ∀ x ∈ ls, x ∉ cs := fun x hx hc => ((ad.ls_iff x).mp hx).2 ((ad.cs_iff x).mp hc).2
  rw [pairLoop_has (sideRow r cs false) ls [] ad.lsNodup (by simp)
    (by intro k _ x hx
        obtain ⟨o, ho, _⟩ := (sideRow_mem r wr cs false k k x).mp hx
        exact (ord_some_facts r wr k k o ho).1 rfl)
    (by intro k hk l hl x
        simp only [sideRow_mem r wr, ord_symm r wr k l, List.contains_eq_mem, decide_eq_true_eq, hls k hk, hls l hl])]
  simp only [sideRow_mem r wr, List.contains_eq_mem, decide_eq_true_eq, oneSided, unchanged, List.not_mem_nil,
    not_false_eq_true, and_true, ord_symm r wr m n, Bool.false_eq_true, if_false]
  grind

theorem has_b2 (r p : Mol) (wp : WFp p) (ls fs cs : List Nat) (ad : Admissible r p ls fs cs) (n m : Nat) (d : DynBond) :
    Has (pairLoop (sideRow p cs true) ls.reverse fs) n m d ↔
      ∃ o, ord? p n m = some o ∧ ((n ∈ fs ∧ d = if m ∈ cs then ⟨none, some o⟩ else ⟨some o, some o⟩) ∨
                                   (m ∈ fs ∧ d = if n ∈ cs then ⟨none, some o⟩ else ⟨some o, some o⟩)) := by
  have hfs : ∀ x ∈ fs, x ∉ cs := fun x hx hc => ((ad.fs_iff x).mp hx).2 ((ad.cs_iff x).mp hc).1
  have hfl : ∀ x ∈ fs, x ∉ ls.reverse := fun x hx hl =>
    ((ad.fs_iff x).mp hx).2 ((ad.ls_iff x).mp (List.mem_reverse.mp hl)).1
  have hpl : ∀ x, x ∈ p.ids → x ∉ ls.reverse := fun x hx hl => ((ad.ls_iff x).mp (List.mem_reverse.mp hl)).2 hx
  rw [pairLoop_has (sideRow p cs true) fs ls.reverse ad.fsNodup hfl
    (by intro k _ x hx
        obtain ⟨o, ho, _⟩ := (sideRow_mem p wp cs true k k x).mp hx
        exact (ord_some_facts p wp k k o ho).1 rfl)
    (by intro k hk l hl x
        simp only [sideRow_mem p wp, ord_symm p wp k l, List.contains_eq_mem, decide_eq_true_eq, hfs k hk, hfs l hl])]
  simp only [sideRow_mem p wp, List.contains_eq_mem, decide_eq_true_eq, oneSided, unchanged, ord_symm p wp m n,
    if_true]
  have key : ∀ o, ord? p n m = some o → n ∉ ls.reverse ∧ m ∉ ls.reverse := fun o ho =>
    ⟨hpl n (ord_some_facts p wp n m o ho).2.1, hpl m (ord_some_facts p wp n m o ho).2.2⟩
  grind

theorem has_b3 (r p : Mol) (wr : WFp r) (wp : WFp p) (ls fs cs : List Nat) (ad : Admissible r p ls fs cs)
    (n m : Nat) (o1 o2 : Option Nat) :
    Has (pairLoop (adjRow r p cs) (fs.reverse ++ ls.reverse) cs) n m (o1, o2) ↔
      n ∈ cs ∧ m ∈ cs ∧ o1 = ord? r n m ∧ o2 = ord? p n m ∧ (o1 ≠ none ∨ o2 ≠ none) := by
  have hdis : ∀ x ∈ cs, x ∉ fs.reverse ++ ls.reverse := by
    intro x hx hm
    have hc := (ad.cs_iff x).mp hx
    rcases List.mem_append.mp hm with h | h
    · exact ((ad.fs_iff x).mp (List.mem_reverse.mp h)).2 hc.1
    · exact ((ad.ls_iff x).mp (List.mem_reverse.mp h)).2 hc.2
  have noloop : ∀ k o, ord? r k k = some o → False := fun k o ho => (ord_some_facts r wr k k o ho).1 rfl
  have noloop' : ∀ k o, ord? p k k = some o → False := fun k o ho => (ord_some_facts p wp k k o ho).1 rfl
  rw [pairLoop_has (adjRow r p cs) cs _ ad.csNodup hdis
    (by intro k _ x hx
        obtain ⟨x1, x2⟩ := x
        obtain ⟨_, e1, e2, hne⟩ := (adjRow_mem r p wr wp cs k k x1 x2).mp hx
        rcases hne with h | h
        · cases hx1 : x1 with
          | none => exact h hx1
          | some o => exact noloop k o (by rw [← e1, hx1])
        · cases hx2 : x2 with
          | none => exact h hx2
          | some o => exact noloop' k o (by rw [← e2, hx2]))
    (by intro k hk l hl x
        obtain ⟨x1, x2⟩ := x
        simp only [adjRow_mem r p wr wp, ord_symm r wr k l, ord_symm p wp k l, List.contains_eq_mem,
          decide_eq_true_eq, hk, hl])]
  simp only [adjRow_mem r p wr wp, List.contains_eq_mem, decide_eq_true_eq, ord_symm r wr m n, ord_symm p wp m n]
  constructor
  · rintro (⟨h1, ⟨h2, h3, h4, h5⟩, _⟩ | ⟨h1, ⟨h2, h3, h4, h5⟩, _⟩)
    · exact ⟨h1, h2, h3, h4, h5⟩
    · exact ⟨h2, h1, h3, h4, h5⟩
  · rintro ⟨h1, h2, h3, h4, h5⟩
    exact Or.inl ⟨h1, ⟨h2, h3, h4, h5⟩, hdis m h2⟩

theorem mem_keys (r p : Mol) (ls fs cs : List Nat) (ad : Admissible r p ls fs cs) (n : Nat) :
    n ∈ ls ++ fs ++ cs ↔ n ∈ r.ids ∨ n ∈ p.ids := by
  simp only [List.mem_append, ad.ls_iff, ad.fs_iff, ad.cs_iff]
  by_cases h1 : n ∈ r.ids <;> by_cases h2 : n ∈ p.ids <;> simp [h1, h2]

theorem mapE_ok_all {α β : Type} (f : α → Except String β) :
    ∀ (l : List α) (l' : List β), mapE f l = .ok l' → ∀ a ∈ l, ∃ y, f a = .ok y := by
  intro l
  induction l with
  | nil => intro _ _ a ha; cases ha
  | cons a tl ih =>
    intro l' h a' ha'
    simp only [mapE] at h
    split at h
    · cases h
    · rename_i b hb
      split at h
      · cases h
      · rename_i bs hbs
        rcases List.mem_cons.mp ha' with e | e
        · subst e; exact ⟨b, hb⟩
        · exact ih bs hbs a' e

/-- all bonds collected by the three loops, as unordered pairs, are exactly the specified ones -/
theorem has_all (r p : Mol) (wr : WFp r) (wp : WFp p) (ls fs cs : List Nat) (ad : Admissible r p ls fs cs)
    (b3 : List (Nat × Nat × DynBond))
    (hb3 : mapE commonBond (pairLoop (adjRow r p cs) (fs.reverse ++ ls.reverse) cs) = .ok b3)
    (n m : Nat) (d : DynBond) :
    Has (pairLoop (sideRow r cs false) [] ls ++ pairLoop (sideRow p cs true) ls.reverse fs ++ b3) n m d ↔
      specBond r p n m = some d := by
  have h3 : Has b3 n m d ↔ n ∈ cs ∧ m ∈ cs ∧ d = ⟨ord? r n m, ord? p n m⟩ ∧ (ord? r n m ≠ none ∨ ord? p n m ≠ none) := by
    have hm := mapE_mem commonBond _ b3 hb3
    have step : ∀ u v, (u, v, d) ∈ b3 ↔ ∃ o1 o2, (u, v, o1, o2) ∈ pairLoop (adjRow r p cs) (fs.reverse ++ ls.reverse) cs
        ∧ mkDynBond o1 o2 = .ok d := by
      intro u v
      rw [hm]
      constructor
      · rintro ⟨⟨a, b, o1, o2⟩, hmem, hy⟩
        simp only [commonBond] at hy
        split at hy
        · rename_i d' hd'
          simp only [Except.ok.injEq, Prod.mk.injEq] at hy
          obtain ⟨e1, e2, e3⟩ := hy
          subst e1; subst e2; subst e3
          exact ⟨o1, o2, hmem, hd'⟩
        · cases hy
      · rintro ⟨o1, o2, hmem, hd⟩
        exact ⟨(u, v, o1, o2), hmem, by simp [commonBond, hd]⟩
    have allok : ∀ u v o1 o2, (u, v, o1, o2) ∈ pairLoop (adjRow r p cs) (fs.reverse ++ ls.reverse) cs →
        mkDynBond o1 o2 = .ok ⟨o1, o2⟩ := by
      intro u v o1 o2 hmem
      obtain ⟨y, hy⟩ := mapE_ok_all commonBond _ b3 hb3 _ hmem
      simp only [commonBond] at hy
      split at hy
      · rename_i d' hd'; rw [hd', mkDynBond_ok _ _ _ hd']
      · cases hy
    have hb := has_b3 r p wr wp ls fs cs ad
    constructor
    · intro hh
      have : ∃ o1 o2, Has (pairLoop (adjRow r p cs) (fs.reverse ++ ls.reverse) cs) n m (o1, o2) ∧ mkDynBond o1 o2 = .ok d := by
        rcases hh with hh | hh
        · obtain ⟨o1, o2, h1, h2⟩ := (step n m).mp hh; exact ⟨o1, o2, Or.inl h1, h2⟩
        · obtain ⟨o1, o2, h1, h2⟩ := (step m n).mp hh; exact ⟨o1, o2, Or.inr h1, h2⟩
      obtain ⟨o1, o2, h1, h2⟩ := this
      obtain ⟨c1, c2, e1, e2, hne⟩ := (hb n m o1 o2).mp h1
      have := mkDynBond_ok _ _ _ h2
      subst e1; subst e2
      exact ⟨c1, c2, this, hne⟩
    · rintro ⟨c1, c2, e, hne⟩
      have := (hb n m (ord? r n m) (ord? p n m)).mpr ⟨c1, c2, rfl, rfl, hne⟩
      rcases this with hh | hh
      · exact Or.inl ((step n m).mpr ⟨_, _, hh, by rw [allok _ _ _ _ hh, e]⟩)
      · exact Or.inr ((step m n).mpr ⟨_, _, hh, by rw [allok _ _ _ _ hh, e]⟩)
  rw [has_append, has_append, has_b1 r p wr ls fs cs ad, has_b2 r p wp ls fs cs ad, h3]
  have fr : ∀ o, ord? r n m = some o → n ∈ r.ids ∧ m ∈ r.ids := fun o ho =>
    ⟨(ord_some_facts r wr n m o ho).2.1, (ord_some_facts r wr n m o ho).2.2⟩
  have fp : ∀ o, ord? p n m = some o → n ∈ p.ids ∧ m ∈ p.ids := fun o ho =>
    ⟨(ord_some_facts p wp n m o ho).2.1, (ord_some_facts p wp n m o ho).2.2⟩
  have l1 := ad.ls_iff; have l2 := ad.fs_iff; have l3 := ad.cs_iff
  have hr := hasAtom_iff r; have hp := hasAtom_iff p
  unfold specBond
  cases h1 : ord? r n m <;> cases h2 : ord? p n m
  · simp
  · have := fp _ h2
    by_cases a1 : n ∈ r.ids <;> by_cases a2 : m ∈ r.ids <;>
      simp [l1, l2, l3, a1, a2, this, (hr n), (hr m), DynBond.mk.injEq] <;> grind
  · have := fr _ h1
    by_cases a1 : n ∈ p.ids <;> by_cases a2 : m ∈ p.ids <;>
      simp [l1, l2, l3, a1, a2, this, (hp n), (hp m), DynBond.mk.injEq] <;> grind
  · have := fr _ h1; have := fp _ h2
    simp [l1, l2, l3, *]; grind

/-! ## `adjOf` and the final statements about `composeWith` -/

theorem adjOf_row_mem (B : List (Nat × Nat × DynBond)) (n m : Nat) (d : DynBond) :
    (m, d) ∈ (B.filterMap fun t =>
      if t.1 == n then some (t.2.1, t.2.2) else if t.2.1 == n then some (t.1, t.2.2) else none) ↔ Has B n m d := by
  simp only [List.mem_filterMap, Has]
  constructor
  · rintro ⟨⟨a, b, x⟩, hmem, he⟩
    simp only at he
    split at he
    · rename_i h1; simp only [beq_iff_eq] at h1
      simp only [Option.some.injEq, Prod.mk.injEq] at he
      obtain ⟨e1, e2⟩ := he; subst h1; subst e1; subst e2; exact Or.inl hmem
    · split at he
      · rename_i h2; simp only [beq_iff_eq] at h2
        simp only [Option.some.injEq, Prod.mk.injEq] at he
        obtain ⟨e1, e2⟩ := he; subst h2; subst e1; subst e2; exact Or.inr hmem
      · cases he
  · rintro (h | h)
    · exact ⟨(n, m, d), h, by simp⟩
    · by_cases e : m = n
      · subst e; exact ⟨(m, m, d), h, by simp⟩
      · exact ⟨(m, n, d), h, by simp [e]⟩

theorem adjOf_bond (keys : List Nat) (B : List (Nat × Nat × DynBond)) (spec : Nat → Nat → Option DynBond)
    (hs : ∀ n m d, Has B n m d ↔ spec n m = some d) (hk : ∀ n m d, spec n m = some d → n ∈ keys) (n m : Nat) :
    ((adjOf keys B).lookup n).bind (·.lookup m) = spec n m := by
  unfold adjOf
  rw [lookup_map_key keys _ n]
  apply Option.ext
  intro d
  by_cases hn : n ∈ keys
  · simp only [hn, if_true, Option.bind_some]
    constructor
    · intro h; exact (hs n m d).mp ((adjOf_row_mem B n m d).mp (lookup_some_mem _ _ _ h))
    · intro h
      apply lookup_eq_some_iff_of_unique
      · intro d' hd'
        have := (hs n m d').mp ((adjOf_row_mem B n m d').mp hd')
        rw [h] at this; cases this; rfl
      · exact (adjOf_row_mem B n m d).mpr ((hs n m d).mpr h)
  · simp only [hn, if_false, Option.bind_none]
    constructor
    · intro h; cases h
    · intro h; exact absurd (hk n m d h) hn

theorem specBond_some_keys (r p : Mol) (wr : WFp r) (wp : WFp p) (n m : Nat) (d : DynBond)
    (h : specBond r p n m = some d) : n ∈ r.ids ∨ n ∈ p.ids := by
  unfold specBond at h
  cases h1 : ord? r n m with
  | some o => exact Or.inl (ord_some_facts r wr n m o h1).2.1
  | none =>
    cases h2 : ord? p n m with
    | some o => exact Or.inr (ord_some_facts p wp n m o h2).2.1
    | none => rw [h1, h2] at h; cases h

/-- the pieces of a successful `composeWith` -/
theorem composeWith_ok (ls fs cs : List Nat) (r p : Mol) (h : CGR) (hc : composeWith ls fs cs r p = .ok h) :
    ∃ la fa ca b3, mapE (sideAtom r) ls = .ok la ∧ mapE (sideAtom p) fs = .ok fa ∧
      mapE (commonAtom r p) cs = .ok ca ∧
      mapE commonBond (pairLoop (adjRow r p cs) (fs.reverse ++ ls.reverse) cs) = .ok b3 ∧
      h = ⟨la ++ fa ++ ca, adjOf (ls ++ fs ++ cs)
        (pairLoop (sideRow r cs false) [] ls ++ pairLoop (sideRow p cs true) ls.reverse fs ++ b3)⟩ := by
  unfold composeWith at hc
  split at hc
  · cases hc
  · rename_i la hla
    split at hc
    · cases hc
    · rename_i fa hfa
      split at hc
      · cases hc
      · rename_i ca hca
        split at hc
        · cases hc
        · rename_i b3 hb3
          simp only [Except.ok.injEq] at hc
          exact ⟨la, fa, ca, b3, hla, hfa, hca, hb3, hc.symm⟩

theorem composeWith_bond (r p : Mol) (wr : WFp r) (wp : WFp p) (ls fs cs : List Nat)
    (ad : Admissible r p ls fs cs) (h : CGR) (hc : composeWith ls fs cs r p = .ok h) (n m : Nat) :
    h.bond? n m = specBond r p n m := by
  obtain ⟨la, fa, ca, b3, _, _, _, hb3, e⟩ := composeWith_ok ls fs cs r p h hc
  subst e
  unfold CGR.bond?
  exact adjOf_bond _ _ (specBond r p) (fun n m d => has_all r p wr wp ls fs cs ad b3 hb3 n m d)
    (fun n m d hd => (mem_keys r p ls fs cs ad n).mpr (specBond_some_keys r p wr wp n m d hd)) n m

/-- What the condensed graph must contain for atom `n`. -/
def specAtom (r p : Mol) (n : Nat) : Option DynAtom :=
  match r.atom? n, p.atom? n with
  | some a, some b => some ⟨a.z, a.isotope, a.charge, b.charge, a.radical, b.radical⟩
  | some a, none => some ⟨a.z, a.isotope, a.charge, a.charge, a.radical, a.radical⟩
  | none, some b => some ⟨b.z, b.isotope, b.charge, b.charge, b.radical, b.radical⟩
  | none, none => none

theorem atom_none_iff (g : Mol) (n : Nat) : g.atom? n = none ↔ n ∉ g.ids := by
  unfold Mol.atom? Mol.ids
  rw [lookup_none_iff]
  simp

theorem fromAtoms_ok (a b : Atom) (d : DynAtom) (h : fromAtoms a b = .ok d) :
    a.z = b.z ∧ a.isotope = b.isotope ∧ d = ⟨a.z, a.isotope, a.charge, b.charge, a.radical, b.radical⟩ := by
  unfold fromAtoms at h
  split at h
  · cases h
  · split at h
    · cases h
    · rename_i h1 h2
      simp only [bne_iff_ne, ne_eq, Decidable.not_not] at h1 h2
      cases h; exact ⟨h1, h2, rfl⟩

theorem composeWith_atom (r p : Mol) (ls fs cs : List Nat)
    (ad : Admissible r p ls fs cs) (h : CGR) (hc : composeWith ls fs cs r p = .ok h) (n : Nat) :
    h.atom? n = specAtom r p n := by
  obtain ⟨la, fa, ca, b3, hla, hfa, hca, _, e⟩ := composeWith_ok ls fs cs r p h hc
  subst e
  have h1 := (mapE_lookup (sideAtom r) (fun n => (r.atom? n).map fromAtom) (by
    intro k y hy; unfold sideAtom at hy; split at hy
    · rename_i a ha; cases hy; simp [ha]
    · cases hy) ls la hla).2 n
  have h2 := (mapE_lookup (sideAtom p) (fun n => (p.atom? n).map fromAtom) (by
    intro k y hy; unfold sideAtom at hy; split at hy
    · rename_i a ha; cases hy; simp [ha]
    · cases hy) fs fa hfa).2 n
  have h3 := (mapE_lookup (commonAtom r p)
    (fun n => match r.atom? n, p.atom? n with
      | some a, some b => some ⟨a.z, a.isotope, a.charge, b.charge, a.radical, b.radical⟩
      | _, _ => none) (by
    intro k y hy; unfold commonAtom at hy; split at hy
    · rename_i a b ha hb
      split at hy
      · rename_i d hd; cases hy; simp [ha, hb, (fromAtoms_ok a b d hd).2.2]
      · cases hy
    · cases hy) cs ca hca).2 n
  unfold CGR.atom?
  simp only [List.lookup_append, h1, h2, h3]
  have l1 := ad.ls_iff n; have l2 := ad.fs_iff n; have l3 := ad.cs_iff n
  have ar := atom_none_iff r n; have ap := atom_none_iff p n
  unfold specAtom
  cases hr : r.atom? n <;> cases hp : p.atom? n <;> simp [hr, hp] at ar ap ⊢ <;>
    simp [l1, l2, l3, ar, ap, fromAtom]

/-! ## reaction centre -/

theorem keys_nodup (r p : Mol) (ls fs cs : List Nat) (ad : Admissible r p ls fs cs) : (ls ++ fs ++ cs).Nodup := by
  rw [List.nodup_append, List.nodup_append]
  refine ⟨⟨ad.lsNodup, ad.fsNodup, ?_⟩, ad.csNodup, ?_⟩
  · intro a ha b hb e; subst e
    exact ((ad.fs_iff a).mp hb).2 ((ad.ls_iff a).mp ha).1
  · intro a ha b hb e; subst e
    have hc := (ad.cs_iff a).mp hb
    rcases List.mem_append.mp ha with h | h
    · exact ((ad.ls_iff a).mp h).2 hc.2
    · exact ((ad.fs_iff a).mp h).2 hc.1

theorem mapE_keys {β : Type} (f : Nat → Except String (Nat × β)) (hf : ∀ n y, f n = .ok y → y.1 = n) :
    ∀ (ns : List Nat) (l : List (Nat × β)), mapE f ns = .ok l → l.map (·.1) = ns := by
  intro ns
  induction ns with
  | nil => intro l h; simp only [mapE, Except.ok.injEq] at h; subst h; rfl
  | cons a tl ih =>
    intro l h
    simp only [mapE] at h
    split at h
    · cases h
    · rename_i b hb
      split at h
      · cases h
      · rename_i bs hbs
        simp only [Except.ok.injEq] at h; subst h
        simp [hf a b hb, ih bs hbs]

theorem sideAtom_key (g : Mol) (n : Nat) (y : Nat × DynAtom) (h : sideAtom g n = .ok y) : y.1 = n := by
  unfold sideAtom at h; split at h
  · cases h; rfl
  · cases h

theorem commonAtom_key (r p : Mol) (n : Nat) (y : Nat × DynAtom) (h : commonAtom r p n = .ok y) : y.1 = n := by
  unfold commonAtom at h; split at h
  · split at h
    · cases h; rfl
    · cases h
  · cases h

theorem composeWith_keys (r p : Mol) (ls fs cs : List Nat) (h : CGR)
    (hc : composeWith ls fs cs r p = .ok h) :
    h.atoms.map (·.1) = ls ++ fs ++ cs ∧ h.adj.map (·.1) = ls ++ fs ++ cs := by
  obtain ⟨la, fa, ca, b3, hla, hfa, hca, _, e⟩ := composeWith_ok ls fs cs r p h hc
  subst e
  have k1 := mapE_keys (sideAtom r) (sideAtom_key r) ls la hla
  have k2 := mapE_keys (sideAtom p) (sideAtom_key p) fs fa hfa
  have k3 := mapE_keys (commonAtom r p) (commonAtom_key r p) cs ca hca
  constructor
  · simp [k1, k2, k3]
  · simp [adjOf, List.map_map, Function.comp_def]

/-- `center_atoms` of a composed graph in terms of the specification -/
theorem composeWith_center (r p : Mol) (wr : WFp r) (wp : WFp p) (ls fs cs : List Nat)
    (ad : Admissible r p ls fs cs) (h : CGR) (hc : composeWith ls fs cs r p = .ok h) (n : Nat) :
    n ∈ h.centerAtoms ↔
      (∃ a, specAtom r p n = some a ∧ a.isDynamic = true) ∨
      (∃ m d, specBond r p n m = some d ∧ d.isDynamic = true) := by
  have hk := composeWith_keys r p ls fs cs h hc
  have hat := composeWith_atom r p ls fs cs ad h hc
  have nd := keys_nodup r p ls fs cs ad
  obtain ⟨la, fa, ca, b3, _, _, _, hb3, e⟩ := composeWith_ok ls fs cs r p h hc
  have hall := has_all r p wr wp ls fs cs ad b3 hb3
  unfold CGR.centerAtoms
  simp only [List.mem_eraseDups, List.mem_append, List.mem_filterMap]
  have e1 : (∃ a : Nat × DynAtom, a ∈ h.atoms ∧ (if a.2.isDynamic = true then some a.1 else none) = some n) ↔
      (∃ a, specAtom r p n = some a ∧ a.isDynamic = true) := by
    constructor
    · rintro ⟨⟨k, a⟩, hm, he⟩
      simp only at he; split at he
      · rename_i hd; cases he
        refine ⟨a, ?_, hd⟩
        rw [← hat n]; exact mem_lookup_of_nodup _ _ _ (hk.1 ▸ nd) hm
      · cases he
    · rintro ⟨a, ha, hd⟩
      rw [← hat n] at ha
      exact ⟨(n, a), lookup_some_mem _ _ _ ha, by simp [hd]⟩
  have e2 : (∃ a : Nat × List (Nat × DynBond), a ∈ h.adj ∧
        (if (a.2.any fun x => x.2.isDynamic) = true then some a.1 else none) = some n) ↔
      (∃ m d, specBond r p n m = some d ∧ d.isDynamic = true) := by
    subst e
    simp only [adjOf, List.mem_map]
    constructor
    · rintro ⟨⟨k, row⟩, ⟨k', _, hkr⟩, he⟩
      simp only at he; split at he
      · rename_i hd; cases he
        simp only [Prod.mk.injEq] at hkr
        obtain ⟨e1, e2⟩ := hkr; subst e1; subst e2
        simp only [List.any_eq_true] at hd
        obtain ⟨⟨m, d⟩, hmd, hdyn⟩ := hd
        exact ⟨m, d, (hall k' m d).mp ((adjOf_row_mem _ k' m d).mp hmd), hdyn⟩
      · cases he
    · rintro ⟨m, d, hs, hd⟩
      have hn : n ∈ ls ++ fs ++ cs :=
        (mem_keys r p ls fs cs ad n).mpr (specBond_some_keys r p wr wp n m d hs)
      refine ⟨(n, _), ⟨n, hn, rfl⟩, ?_⟩
      have : (List.filterMap (fun t : Nat × Nat × DynBond =>
          if t.1 == n then some (t.2.1, t.2.2) else if t.2.1 == n then some (t.1, t.2.2) else none)
          (pairLoop (sideRow r cs false) [] ls ++ pairLoop (sideRow p cs true) ls.reverse fs ++ b3)).any
          (fun x => x.2.isDynamic) = true := by
        simp only [List.any_eq_true]
        exact ⟨(m, d), (adjOf_row_mem _ n m d).mpr ((hall n m d).mpr hs), hd⟩
      exact if_pos this
  rw [e1, e2]

end ChythonModel.Proofs.C15
