import ChythonModel.Proofs.C10V0
/-!
# C10: decoding a pack of either format version, given its bond-order block
-/
namespace ChythonModel.Proofs.C10
open ChythonModel.Model.Pack ChythonModel.Spec.PackLayout

/-- decoding a pack of either version whose bond-order block `ords` has the size the decoder computes and decodes
    (with that version's reader) to the order codes of the molecule -/
theorem decode_blocks (m : PMol) (h : WF m) (v : Nat) (hv : v = 0 ∨ v = 2) (ords pad : List Nat)
    (hlen : ords.length = orderCountOf v (firstSeen [] m.atoms).length)
    (hdec : (if v == 2 then orderDec 0 0 ords else orderDecV0 ords) = orderCodes m.atoms ++ pad) (rest : List Nat) :
    ∃ ab ct, atomBlock m.atoms = some ab ∧ ctBlock m.terminals (firstSeen [] m.atoms) = .ok ct ∧
      decode ([v, u8 (m.atoms.length >>> 4), u8 (m.atoms.length <<< 4 ||| ctCount m.atoms >>> 8), u8 (ctCount m.atoms)] ++
          ab ++ pairEnc true 0 (flatM m.atoms) ++ ords ++ ct ++ rest) =
        .ok ⟨m.atoms.map eraseSt, ctListOf m.terminals (firstSeen [] m.atoms),
          ([v, u8 (m.atoms.length >>> 4), u8 (m.atoms.length <<< 4 ||| ctCount m.atoms >>> 8), u8 (ctCount m.atoms)] ++
            ab ++ pairEnc true 0 (flatM m.atoms) ++ ords ++ ct).length⟩ := by
  obtain ⟨ct, hct, hctlen, hctdec⟩ := ct_roundtrip m.terminals (firstSeen [] m.atoms) h.terminals
  obtain ⟨ab, hab, hablen, habdec⟩ := decodeAtoms_atomBlock m.atoms
    (pairEnc true 0 (flatM m.atoms) ++ (ords ++ (ct ++ rest))) h.atomsOK
  refine ⟨ab, ct, hab, hct, ?_⟩
  obtain ⟨F, hF⟩ : ∃ F, (firstSeen [] m.atoms).length = F := ⟨_, rfl⟩
  rw [hF] at hlen
  have hT : (m.atoms.map (·.nbrs.length)).sum = 2 * F := by rw [← hF]; exact h.handshake.symm
  have hTle : 2 * F ≤ 15 * m.atoms.length := by
    rw [← hT]; exact sum_map_le _ _ 15 (fun a ha => by have := (h.atomsOK a ha).deg; omega)
  have hcount := h.count
  have hu1 : u16 (2 * F) = 2 * F := u16_id (by omega)
  have hu2 : u16 m.atoms.length = m.atoms.length := u16_id (by omega)
  have hu3 : u16 (ctCount m.atoms) = ctCount m.atoms := u16_id (by have := h.ctLimit; omega)
  have hF2 : 2 * F / 2 = F := by omega
  have hflen : (flatM m.atoms).length = 2 * F := by rw [flatM_length, hT]
  have hpairs_len : (pairEnc true 0 (flatM m.atoms)).length = 3 * F := by
    rw [pairEnc_length _ _ (by omega), hflen]; omega
  have hpairs_dec : pairDec (pairEnc true 0 (flatM m.atoms)) = flatM m.atoms :=
    pairDec_pairEnc _ _ (flatM_lt _ h.nbrRange) (by omega)
  have hcc : ctCount m.atoms = (stereoBonds (firstSeen [] m.atoms)).length := rfl
  obtain ⟨p1, p2⟩ := pair12' m.atoms.length (ctCount m.atoms) (by omega) (by have := h.ctLimit; omega)
  have hdata : [v, u8 (m.atoms.length >>> 4), u8 (m.atoms.length <<< 4 ||| ctCount m.atoms >>> 8), u8 (ctCount m.atoms)] ++
        ab ++ pairEnc true 0 (flatM m.atoms) ++ ords ++ ct ++ rest
      = v :: u8 (m.atoms.length >>> 4) :: u8 (m.atoms.length <<< 4 ||| ctCount m.atoms >>> 8) :: u8 (ctCount m.atoms) ::
        (ab ++ (pairEnc true 0 (flatM m.atoms) ++ (ords ++ (ct ++ rest)))) := by simp
  rw [hdata]
  simp only [decode, decodeRaw]
  have hvv : (v == 0) = true ∨ (v == 2) = true := by rcases hv with rfl | rfl <;> simp
  rw [p1, p2, hu2, hu3, habdec, if_pos hvv]
  show (do
    let __x ← (Except.ok (List.map stripNbrs m.atoms,
              pairEnc true 0 (flatM m.atoms) ++ (ords ++ (ct ++ rest))) : Except PErr _)
    _) = _
  simp only [Bind.bind, Except.bind]
  have hsum : (List.map (fun x : PAtom × Nat => x.snd) (List.map stripNbrs m.atoms)).sum = 2 * F := by
    rw [List.map_map, ← hT]; rfl
  rw [hsum, hu1, hF2, ← hlen]
  have hsplit : (v :: u8 (m.atoms.length >>> 4) :: u8 (m.atoms.length <<< 4 ||| ctCount m.atoms >>> 8) ::
        u8 (ctCount m.atoms) :: (ab ++ (pairEnc true 0 (flatM m.atoms) ++ (ords ++ (ct ++ rest)))))
      = ([v, u8 (m.atoms.length >>> 4), u8 (m.atoms.length <<< 4 ||| ctCount m.atoms >>> 8), u8 (ctCount m.atoms)] ++ ab ++
          pairEnc true 0 (flatM m.atoms)) ++ ords ++ (ct ++ rest) := by simp
  have hprelen : ([v, u8 (m.atoms.length >>> 4), u8 (m.atoms.length <<< 4 ||| ctCount m.atoms >>> 8), u8 (ctCount m.atoms)] ++ ab ++
          pairEnc true 0 (flatM m.atoms)).length = 4 + 9 * m.atoms.length + 3 * F := by
    simp [hablen, hpairs_len]; omega
  have hdrop : List.drop (ords.length + (4 + 9 * m.atoms.length + 3 * F))
      (v :: u8 (m.atoms.length >>> 4) :: u8 (m.atoms.length <<< 4 ||| ctCount m.atoms >>> 8) ::
        u8 (ctCount m.atoms) :: (ab ++ (pairEnc true 0 (flatM m.atoms) ++ (ords ++ (ct ++ rest)))))
      = ct ++ rest := by
    rw [hsplit]
    exact List.drop_left' (by rw [List.length_append, hprelen]; omega)
  have hread : readRange (v :: u8 (m.atoms.length >>> 4) :: u8 (m.atoms.length <<< 4 ||| ctCount m.atoms >>> 8) ::
        u8 (ctCount m.atoms) :: (ab ++ (pairEnc true 0 (flatM m.atoms) ++ (ords ++ (ct ++ rest)))))
      (4 + 9 * m.atoms.length + 3 * F) ords.length = .ok ords := by
    rw [hsplit, ← hprelen]
    exact readRange_mid _ _ _
  have hreb := rebuild_spec h.graph m.atoms [] pad rfl
  have hbonds : decodeBonds (v :: u8 (m.atoms.length >>> 4) :: u8 (m.atoms.length <<< 4 ||| ctCount m.atoms >>> 8) ::
        u8 (ctCount m.atoms) :: (ab ++ (pairEnc true 0 (flatM m.atoms) ++ (ords ++ (ct ++ rest)))))
      v F (4 + 9 * m.atoms.length + 3 * F) ords.length (List.map stripNbrs m.atoms)
      (pairEnc true 0 (flatM m.atoms) ++ (ords ++ (ct ++ rest))) = .ok (m.atoms.map eraseSt) := by
    have hl : ¬ ((pairEnc true 0 (flatM m.atoms) ++ (ords ++ (ct ++ rest))).length < 3 * F) := by
      rw [List.length_append, hpairs_len]; omega
    have htake : (pairEnc true 0 (flatM m.atoms) ++ (ords ++ (ct ++ rest))).take (3 * F)
        = pairEnc true 0 (flatM m.atoms) := List.take_left' hpairs_len
    have hro := readOrderBytes_eq (v :: u8 (m.atoms.length >>> 4) :: u8 (m.atoms.length <<< 4 ||| ctCount m.atoms >>> 8) ::
        u8 (ctCount m.atoms) :: (ab ++ (pairEnc true 0 (flatM m.atoms) ++ (ords ++ (ct ++ rest))))) v F
        (4 + 9 * m.atoms.length + 3 * F)
    rw [← hlen] at hro
    simp only [decodeBonds, if_neg hl, hro, hread, htake, hpairs_dec]
    show rebuild [] [] (List.map stripNbrs m.atoms) (flatM m.atoms)
      (if (v == 2) = true then orderDec 0 0 ords else orderDecV0 ords) = _
    rw [hdec]
    exact hreb
  rw [hbonds, hdrop, hcc, hctdec rest]
  have hbl : ∀ x y z : Nat, ([v, x, y, z] ++ ab ++ pairEnc true 0 (flatM m.atoms) ++ ords ++ ct).length
      = ords.length + (4 + 9 * m.atoms.length + 3 * F) + 4 * (stereoBonds (firstSeen [] m.atoms)).length := by
    intro x y z
    simp only [List.length_append, hablen, hpairs_len, hctlen, List.length_cons, List.length_nil]
    omega
  rw [hbl]
  by_cases hz : F = 0
  · have hne : (F != 0) = false := by simp [hz]
    rw [hne]
    have hempty : ∀ a ∈ m.atoms, a.nbrs = [] := by
      intro a ha
      have := all_zero_of_sum_zero _ (by rw [hT, hz]) a.nbrs.length (List.mem_map_of_mem (f := fun x : PAtom => x.nbrs.length) ha)
      exact List.eq_nil_of_length_eq_zero this
    have : List.map (fun x : PAtom × Nat => x.fst) (List.map stripNbrs m.atoms) = m.atoms.map eraseSt := by
      rw [List.map_map]
      apply List.map_congr_left
      intro a ha
      simp [stripNbrs, eraseSt, hempty a ha]
    rw [this]; rfl
  · have hne : (F != 0) = true := by simp [hz]
    rw [hne]; rfl

end ChythonModel.Proofs.C10
