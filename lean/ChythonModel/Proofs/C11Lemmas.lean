import ChythonModel.Model.C11Rdf
/-!
# C11 — helper lemmas about the text primitives (digits, padding, strip, int(), float())
-/
namespace ChythonModel.Proofs.C11
open ChythonModel.Model.C11 ChythonModel.Gen.Mdl

/-! ## digits -/

theorem digit_facts : ∀ d : Fin 10, digitVal (digitChar d) = d ∧ isDigit (digitChar d) = true ∧
    isSpace (digitChar d) = false ∧ digitChar d ≠ '-' ∧ digitChar d ≠ '+' ∧ digitChar d ≠ '.' := by decide

theorem digitVal_digitChar {d : Nat} (h : d < 10) : digitVal (digitChar d) = d := (digit_facts ⟨d, h⟩).1
theorem isDigit_digitChar {d : Nat} (h : d < 10) : isDigit (digitChar d) = true := (digit_facts ⟨d, h⟩).2.1

theorem digitsNat_append_single (s : Str) (c : Char) : digitsNat (s ++ [c]) = digitsNat s * 10 + digitVal c := by
  simp [digitsNat, List.foldl_append]

theorem natDigitsF_spec : ∀ (f n : Nat), n < 10 ^ f → 0 < f →
    digitsNat (natDigitsF f n) = n ∧ (natDigitsF f n).all isDigit = true ∧ natDigitsF f n ≠ [] ∧
    (natDigitsF f n).length ≤ f := by
  intro f
  induction f with
  | zero => intro n _ h; omega
  | succ f ih =>
    intro n hn _
    unfold natDigitsF
    by_cases h10 : n < 10
    · simp only [h10, if_true]
      refine ⟨?_, ?_, by simp, by simp⟩
      · simp [digitsNat, digitVal_digitChar h10]
      · simp [isDigit_digitChar h10]
    · simp only [h10, if_false]
      have hf : 0 < f := by
        rcases f with _ | f
        · simp at hn; omega
        · omega
      have hq : n / 10 < 10 ^ f := by
        rw [Nat.pow_succ] at hn
        exact Nat.div_lt_of_lt_mul (by omega)
      obtain ⟨h1, h2, h3, h4⟩ := ih (n / 10) hq hf
      have hm : n % 10 < 10 := Nat.mod_lt _ (by omega)
      refine ⟨?_, ?_, by simp, by simp; omega⟩
      · rw [digitsNat_append_single, h1, digitVal_digitChar hm]; omega
      · simp [h2, isDigit_digitChar hm]

theorem lt_ten_pow_succ (n : Nat) : n < 10 ^ (n + 1) := by
  induction n with
  | zero => simp
  | succ n ih => rw [Nat.pow_succ]; omega

theorem natDigits_spec (n : Nat) :
    digitsNat (natDigits n) = n ∧ (natDigits n).all isDigit = true ∧ natDigits n ≠ [] :=
  let ⟨a, b, c, _⟩ := natDigitsF_spec (n + 1) n (lt_ten_pow_succ n) (by omega)
  ⟨a, b, c⟩

/-! ## `int()` of digit strings -/

theorem isDigit_ne_underscore {c : Char} (h : isDigit c = true) : (c == '_') = false := by
  simp only [isDigit, Bool.and_eq_true, decide_eq_true_eq] at h
  simp only [beq_eq_false_iff_ne, ne_eq]
  intro hc; subst hc; revert h; decide

theorem digitsVal_digits : ∀ (ds : Str) (acc : Nat) (prev : Bool), ds.all isDigit = true → (prev = true ∨ ds ≠ []) →
    digitsVal? acc prev ds = some (ds.foldl (fun a c => a * 10 + digitVal c) acc) := by
  intro ds
  induction ds with
  | nil => intro acc prev _ h; rcases h with h | h <;> simp_all [digitsVal?]
  | cons c cs ih =>
    intro acc prev hall _
    simp only [List.all_cons, Bool.and_eq_true] at hall
    simp only [digitsVal?, hall.1, if_true, List.foldl_cons]
    exact ih _ true hall.2 (Or.inl rfl)

theorem digitsVal_natDigits (n : Nat) : digitsVal? 0 false (natDigits n) = some n := by
  obtain ⟨h1, h2, h3⟩ := natDigits_spec n
  rw [digitsVal_digits _ 0 false h2 (Or.inr h3)]
  exact congrArg some h1

/-! ## strip / padding -/

theorem dropWhile_replicate_append (p : Char → Bool) (c : Char) (hc : p c = true) (k : Nat) (s : Str) :
    (List.replicate k c ++ s).dropWhile p = s.dropWhile p := by
  induction k with
  | zero => simp
  | succ k ih => simp [List.replicate_succ, hc, ih]

theorem dropWhile_none {p : Char → Bool} : ∀ {s : Str}, (s.all fun c => !p c) = true → s.dropWhile p = s
  | [], _ => rfl
  | c :: cs, h => by
    simp only [List.all_cons, Bool.and_eq_true, Bool.not_eq_true'] at h
    simp [h.1]

/-- a string without any whitespace character -/
def NoSpace (s : Str) : Prop := (s.all fun c => !isSpace c) = true

instance (s : Str) : Decidable (NoSpace s) := by unfold NoSpace; infer_instance

theorem strip_padLeft {s : Str} (w : Nat) (h : NoSpace s) : strip (padLeft w s) = s := by
  unfold strip lstrip rstrip padLeft
  rw [dropWhile_replicate_append isSpace ' ' (by decide), dropWhile_none h]
  have : (s.reverse.all fun c => !isSpace c) = true := by
    unfold NoSpace at h; simpa [List.all_reverse] using h
  rw [dropWhile_none this, List.reverse_reverse]

theorem noSpace_of_digits {s : Str} (h : s.all isDigit = true) : NoSpace s := by
  unfold NoSpace
  rw [List.all_eq_true] at h ⊢
  intro c hc
  have := h c hc
  simp only [isDigit, Bool.and_eq_true, decide_eq_true_eq] at this
  simp only [isSpace, Bool.not_eq_true', Bool.or_eq_false_iff, beq_eq_false_iff_ne, ne_eq, Bool.and_eq_false_iff,
    decide_eq_false_iff_not]
  refine ⟨⟨⟨⟨⟨⟨?_, ?_⟩, ?_⟩, ?_⟩, ?_⟩, ?_⟩, ?_⟩ <;> first | (intro hc'; subst hc'; revert this; decide) | omega

theorem noSpace_cons {c : Char} {s : Str} (hc : isSpace c = false) (h : NoSpace s) : NoSpace (c :: s) := by
  unfold NoSpace at *; simp [hc, h]

theorem noSpace_append {s t : Str} (hs : NoSpace s) (ht : NoSpace t) : NoSpace (s ++ t) := by
  unfold NoSpace at *; simp [List.all_append, hs, ht]

theorem noSpace_intDigits (n : Int) : NoSpace (intDigits n) := by
  unfold intDigits
  split
  · exact noSpace_cons (by decide) (noSpace_of_digits (natDigits_spec _).2.1)
  · exact noSpace_of_digits (natDigits_spec _).2.1

/-- first character of a digit string is a digit, hence neither sign -/
theorem pyInt_digits {ds : Str} (h : ds.all isDigit = true) (hne : ds ≠ []) (hs : strip s = ds) :
    pyInt? s = (digitsVal? 0 false ds).map (fun n => (n : Int)) := by
  unfold pyInt?
  rw [hs]
  match ds, h, hne with
  | c :: cs, h, _ =>
    simp only [List.all_cons, Bool.and_eq_true] at h
    have h1 : c ≠ '-' := by intro hc; subst hc; exact absurd h.1 (by decide)
    have h2 : c ≠ '+' := by intro hc; subst hc; exact absurd h.1 (by decide)
    split
    · next ds' heq => simp only [List.cons.injEq] at heq; exact absurd heq.1 h1
    · next ds' heq => simp only [List.cons.injEq] at heq; exact absurd heq.1 h2
    · rfl

/-- `int(f'{n:{w}d}') == n` for every integer and every width -/
theorem pyInt_fmtD (w : Nat) (n : Int) : pyInt? (fmtD w n) = some n := by
  have hstrip : strip (fmtD w n) = intDigits n := strip_padLeft w (noSpace_intDigits n)
  by_cases hn : n < 0
  · unfold pyInt?
    rw [hstrip]
    simp only [intDigits, hn, if_true]
    rw [digitsVal_natDigits]
    show some (-((n.natAbs : Nat) : Int)) = some n
    congr 1; omega
  · have hd : intDigits n = natDigits n.natAbs := by simp [intDigits, hn]
    rw [pyInt_digits (natDigits_spec _).2.1 (natDigits_spec _).2.2 (hd ▸ hstrip), digitsVal_natDigits]
    show some ((n.natAbs : Nat) : Int) = some n
    congr 1; omega

/-! ## `float()` of `{:.4f}` text -/

theorem natDigitsF_length_le : ∀ (f n g : Nat), n < 10 ^ g → 0 < g → (natDigitsF f n).length ≤ g := by
  intro f
  induction f with
  | zero => intro n g _ _; simp [natDigitsF]
  | succ f ih =>
    intro n g hn hg
    unfold natDigitsF
    by_cases h10 : n < 10
    · simp [h10]; omega
    · simp only [h10, if_false, List.length_append, List.length_singleton]
      have hg2 : 1 < g := by
        rcases g with _ | _ | g
        · omega
        · simp at hn; omega
        · omega
      have hq : n / 10 < 10 ^ (g - 1) := by
        have : g = (g - 1) + 1 := by omega
        rw [this, Nat.pow_succ] at hn
        exact Nat.div_lt_of_lt_mul (by omega)
      have := ih (n / 10) (g - 1) hq (by omega)
      omega

theorem foldl_digits (s : Str) (acc : Nat) :
    s.foldl (fun a c => a * 10 + digitVal c) acc = acc * 10 ^ s.length + digitsNat s := by
  induction s generalizing acc with
  | nil => simp [digitsNat]
  | cons c cs ih =>
    simp only [List.foldl_cons, List.length_cons, digitsNat]
    rw [ih, ih (0 * 10 + digitVal c)]
    rw [Nat.pow_succ]
    simp only [Nat.zero_mul, Nat.zero_add]
    rw [Nat.add_mul, Nat.add_assoc]
    congr 1
    rw [Nat.mul_assoc, Nat.mul_comm 10]

theorem digitsNat_append (a b : Str) : digitsNat (a ++ b) = digitsNat a * 10 ^ b.length + digitsNat b := by
  unfold digitsNat
  rw [List.foldl_append, foldl_digits]
  rfl

theorem digitsNat_zeros (j : Nat) : digitsNat (List.replicate j '0') = 0 := by
  induction j with
  | zero => rfl
  | succ j ih =>
    rw [List.replicate_succ', digitsNat_append_single, ih]; decide

theorem zeroPad4_spec (r : Nat) (hr : r < 10000) :
    (zeroPad 4 r).length = 4 ∧ (zeroPad 4 r).all isDigit = true ∧ digitsNat (zeroPad 4 r) = r := by
  obtain ⟨h1, h2, _⟩ := natDigits_spec r
  have hl : (natDigits r).length ≤ 4 := natDigitsF_length_le _ _ 4 (by omega) (by omega)
  unfold zeroPad
  refine ⟨by simp; omega, ?_, ?_⟩
  · simp only [List.all_append, h2, Bool.and_true]
    rw [List.all_eq_true]; intro c hc
    rw [List.mem_replicate] at hc; rw [hc.2]; decide
  · show digitsNat (List.replicate (4 - (natDigits r).length) '0' ++ natDigits r) = r
    rw [digitsNat_append, digitsNat_zeros, h1]; simp

theorem takeWhile_digits_dot {a : Str} (b : Str) (ha : a.all isDigit = true) :
    (a ++ '.' :: b).takeWhile (· != '.') = a ∧ (a ++ '.' :: b).dropWhile (· != '.') = '.' :: b := by
  induction a with
  | nil => simp
  | cons c cs ih =>
    simp only [List.all_cons, Bool.and_eq_true] at ha
    have hc : (c != '.') = true := by
      simp only [bne_iff_ne, ne_eq]; intro h; subst h; exact absurd ha.1 (by decide)
    simp [hc, ih ha.2]

theorem noLetters_of_digits_dot {s : Str} (h : s.all (fun c => isDigit c || c == '.') = true) :
    s.any (fun c => c == 'e' || c == 'E' || c == '_' || c == 'n' || c == 'N' || c == 'i' || c == 'I') = false := by
  rw [List.any_eq_false]
  intro c hc
  rw [List.all_eq_true] at h
  have := h c hc
  intro hbad
  simp only [Bool.or_eq_true, beq_iff_eq] at hbad this
  rcases hbad with (((((h' | h') | h') | h') | h') | h') | h' <;> subst h' <;> revert this <;> decide

/-- the unsigned body `digits '.' dddd` parses to the expected decimal -/
theorem floatBody_f4 (neg : Bool) (q r : Nat) (hr : r < 10000) :
    floatBody neg (natDigits q ++ ['.'] ++ zeroPad 4 r) =
      .ok (Dec.norm (if neg then -((q * 10000 + r : Nat) : Int) else ((q * 10000 + r : Nat) : Int)) 4) := by
  obtain ⟨q1, q2, q3⟩ := natDigits_spec q
  obtain ⟨z1, z2, z3⟩ := zeroPad4_spec r hr
  have hbody : natDigits q ++ ['.'] ++ zeroPad 4 r = natDigits q ++ '.' :: zeroPad 4 r := by simp
  rw [hbody]
  obtain ⟨t1, t2⟩ := takeWhile_digits_dot (zeroPad 4 r) q2
  unfold floatBody
  have hnl : (natDigits q ++ '.' :: zeroPad 4 r).any
      (fun c => c == 'e' || c == 'E' || c == '_' || c == 'n' || c == 'N' || c == 'i' || c == 'I') = false := by
    apply noLetters_of_digits_dot
    simp only [List.all_append, List.all_cons, Bool.and_eq_true]
    refine ⟨?_, by decide, ?_⟩
    · rw [List.all_eq_true] at q2 ⊢; intro c hc; simp [q2 c hc]
    · rw [List.all_eq_true] at z2 ⊢; intro c hc; simp [z2 c hc]
  simp only [hnl, t1, t2, List.drop_succ_cons, List.drop_zero, allDigits, q2, z2, Bool.and_self, Bool.not_true,
    Bool.false_eq_true, if_false, z1]
  have hne : (natDigits q).isEmpty = false := by
    cases hq : natDigits q with
    | nil => exact absurd hq q3
    | cons _ _ => rfl
  simp only [hne, Bool.false_and, Bool.false_eq_true, if_false]
  rw [digitsNat_append, q1, z3, z1]

theorem noSpace_f4 (k : Int) : NoSpace (f4 k) := by
  unfold f4
  have hz : NoSpace (zeroPad 4 (k.natAbs % 10000)) :=
    noSpace_of_digits (zeroPad4_spec _ (Nat.mod_lt _ (by omega))).2.1
  have hq : NoSpace (natDigits (k.natAbs / 10000)) := noSpace_of_digits (natDigits_spec _).2.1
  have hdot : NoSpace ['.'] := by unfold NoSpace; decide
  have hs : NoSpace (if k < 0 then ['-'] else []) := by split <;> (unfold NoSpace; decide)
  exact noSpace_append (noSpace_append (noSpace_append hs hq) hdot) hz

/-- `float(f'{x:{w}.4f}')` for `x = k/10000` is exactly the decimal `k/10000` -/
theorem pyFloat_fmtF4 (w : Nat) (k : Int) : pyFloat? (fmtF4 w k) = .ok (Dec.ofTenThousandths k) := by
  have hstrip : strip (fmtF4 w k) = f4 k := strip_padLeft w (noSpace_f4 k)
  have hr : k.natAbs % 10000 < 10000 := Nat.mod_lt _ (by omega)
  have hsum : k.natAbs / 10000 * 10000 + k.natAbs % 10000 = k.natAbs := by omega
  unfold pyFloat?
  rw [hstrip]
  by_cases hn : k < 0
  · have : f4 k = '-' :: (natDigits (k.natAbs / 10000) ++ ['.'] ++ zeroPad 4 (k.natAbs % 10000)) := by
      simp [f4, hn]
    rw [this]
    simp only []
    rw [floatBody_f4 true _ _ hr, hsum]
    simp only [if_true, Dec.ofTenThousandths]
    congr 2; omega
  · have hf : f4 k = natDigits (k.natAbs / 10000) ++ ['.'] ++ zeroPad 4 (k.natAbs % 10000) := by
      simp [f4, hn]
    rw [hf]
    obtain ⟨_, q2, q3⟩ := natDigits_spec (k.natAbs / 10000)
    match hq : natDigits (k.natAbs / 10000), q2, q3 with
    | c :: cs, q2, _ =>
      simp only [List.all_cons, Bool.and_eq_true] at q2
      have h1 : c ≠ '-' := by intro hc; subst hc; exact absurd q2.1 (by decide)
      have h2 : c ≠ '+' := by intro hc; subst hc; exact absurd q2.1 (by decide)
      have hb := floatBody_f4 false (k.natAbs / 10000) (k.natAbs % 10000) hr
      rw [hq, hsum] at hb
      simp only [List.cons_append] at hb ⊢
      split
      · next r heq => simp only [List.cons.injEq] at heq; exact absurd heq.1 h1
      · next r heq => simp only [List.cons.injEq] at heq; exact absurd heq.1 h2
      · rw [hb]
        simp only [Bool.false_eq_true, if_false, Dec.ofTenThousandths]
        congr 2; omega

/-! ## V2000 atom line -/

theorem slice_at {α} (pre f post : List α) (o w : Nat) (hp : pre.length = o) (hf : f.length = w) :
    slice (pre ++ (f ++ post)) o (o + w) = f := by
  subst hp hf
  unfold slice
  have h1 : List.drop pre.length (pre ++ (f ++ post)) = f ++ post := by simp
  rw [h1]; simp

theorem strip_padRight {s : Str} (w : Nat) (h : NoSpace s) : strip (padRight w s) = s := by
  unfold strip lstrip rstrip padRight
  cases s with
  | nil =>
    have : ([] ++ List.replicate (w - ([] : Str).length) ' ').dropWhile isSpace = [] := by
      have := dropWhile_replicate_append isSpace ' ' (by decide) (w - 0) []
      simpa using this
    rw [this]; rfl
  | cons c cs =>
    have hc : isSpace c = false := by unfold NoSpace at h; simp at h; simpa using h.1
    have h1 : ((c :: cs) ++ List.replicate (w - (c :: cs).length) ' ').dropWhile isSpace =
        (c :: cs) ++ List.replicate (w - (c :: cs).length) ' ' := by
      simp [hc]
    rw [h1, List.reverse_append, List.reverse_replicate, dropWhile_replicate_append isSpace ' ' (by decide)]
    have : ((c :: cs).reverse.all fun c => !isSpace c) = true := by
      unfold NoSpace at h; rw [List.all_reverse]; exact h
    rw [dropWhile_none this, List.reverse_reverse]

/-- the charge the atom line alone carries: ±4 are written as code 0 (and repaired by `M  CHG`) -/
def lineCharge (c : Int) : Int := if c == -4 || c == 4 then 0 else c

theorem charge_table : ∀ c ∈ [(-4 : Int), -3, -2, -1, 0, 1, 2, 3, 4],
    ((writeCharge c).map (·.length) = .ok 3 ∧ (writeCharge c >>= readCharge) = .ok (lineCharge c)) := by
  decide +kernel

/-- well-formed atom for the V2000 writer: everything fits its column -/
structure WFAtom (a : WAtom) : Prop where
  xfit : (f4 a.x).length ≤ 10
  yfit : (f4 a.y).length ≤ 10
  symLen : a.sym.length ≤ 3
  symNe : a.sym ≠ []
  symNoSpace : NoSpace a.sym
  symOk : inAL a.sym = false ∧ a.sym ≠ ['D']
  chargeLo : -4 ≤ a.charge
  chargeHi : a.charge ≤ 4
  numHi : a.num ≤ 999

theorem atomOfFields_written (a : WAtom) (h : WFAtom a) (code : Str) (m : Int)
    (hc : readCharge code = .ok (lineCharge a.charge)) :
    atomOfFields code (padRight 3 a.sym) [' ', '0'] (fmtD 3 m) (fmtF4 10 a.x) (fmtF4 10 a.y) (fmtF4 10 0) =
      .ok { element := a.sym, charge := lineCharge a.charge, isotope := none, delta := none, map := m,
            x := Dec.ofTenThousandths a.x, y := Dec.ofTenThousandths a.y, z := Dec.ofTenThousandths 0 } := by
  have hs : strip (padRight 3 a.sym) = a.sym := strip_padRight 3 h.symNoSpace
  have hD : (a.sym == ['D']) = false := by simpa using h.symOk.2
  have hm : (fmtD 3 m).isEmpty = false := by
    have := pyInt_fmtD 3 m
    cases hf : fmtD 3 m with
    | nil => rw [hf] at this; simp [pyInt?, strip, lstrip, rstrip, digitsVal?] at this
    | cons _ _ => rfl
  simp [atomOfFields, hc, hs, h.symOk.1, hD, hm, intE, floatE, pyInt_fmtD, pyFloat_fmtF4, bind, Except.bind, pure, Except.pure]

theorem padLeft_length {w : Nat} {s : Str} (h : s.length ≤ w) : (padLeft w s).length = w := by
  simp [padLeft]; omega
theorem padRight_length {w : Nat} {s : Str} (h : s.length ≤ w) : (padRight w s).length = w := by
  simp [padRight]; omega

theorem fmtD3_length {m : Int} (h0 : 0 ≤ m) (h : m ≤ 999) : (fmtD 3 m).length = 3 := by
  apply padLeft_length
  have : intDigits m = natDigits m.natAbs := by simp [intDigits]; omega
  rw [this]
  exact natDigitsF_length_le _ _ 3 (by omega) (by omega)

/-- what the reader sees in one written atom line -/
def expectedAtom (mapping : Bool) (a : WAtom) : PAtom :=
  { element := a.sym, charge := lineCharge a.charge, isotope := none, delta := none,
    map := if mapping then (a.num : Int) else 0,
    x := Dec.ofTenThousandths a.x, y := Dec.ofTenThousandths a.y, z := Dec.ofTenThousandths 0 }

theorem atomline_roundtrip (mapping : Bool) (a : WAtom) (h : WFAtom a) :
    (writeAtomLine mapping a >>= parseAtomLine) = .ok (expectedAtom mapping a) := by
  have hmem : a.charge ∈ [(-4 : Int), -3, -2, -1, 0, 1, 2, 3, 4] := by
    have := h.chargeLo; have := h.chargeHi; simp; omega
  obtain ⟨hlen, hrt⟩ := charge_table a.charge hmem
  cases hw : writeCharge a.charge with
  | error e => rw [hw] at hlen; simp [Except.map] at hlen
  | ok code =>
    rw [hw] at hlen hrt
    have hcl : code.length = 3 := by simpa [Except.map] using hlen
    have hrc : readCharge code = .ok (lineCharge a.charge) := by simpa [bind, Except.bind] using hrt
    let m : Int := if mapping then (a.num : Int) else 0
    have hm0 : 0 ≤ m := by simp only [m]; split <;> omega
    have hm9 : m ≤ 999 := by have := h.numHi; simp only [m]; split <;> omega
    have hX : (fmtF4 10 a.x).length = 10 := padLeft_length h.xfit
    have hY : (fmtF4 10 a.y).length = 10 := padLeft_length h.yfit
    have hZ : (fmtF4 10 0).length = 10 := by decide
    have hS := padRight_length h.symLen
    have hM := fmtD3_length hm0 hm9
    show (writeAtomLine mapping a >>= parseAtomLine) = _
    simp only [writeAtomLine, hw, bind, Except.bind, pure, Except.pure]
    show parseAtomLine (fmtF4 10 a.x ++ fmtF4 10 a.y ++ fmtF4 10 0 ++ sL " " ++ padRight 3 a.sym ++ sL " 0" ++ code ++
        sL "  0  0  0  0  0  0  0" ++ fmtD 3 m ++ sL "  0  0\n") = _
    generalize hline : (fmtF4 10 a.x ++ fmtF4 10 a.y ++ fmtF4 10 0 ++ sL " " ++ padRight 3 a.sym ++ sL " 0" ++ code ++
        sL "  0  0  0  0  0  0  0" ++ fmtD 3 m ++ sL "  0  0\n") = line
    have s1 : slice line 0 10 = fmtF4 10 a.x := by
      rw [← hline]
      have := slice_at [] (fmtF4 10 a.x) (fmtF4 10 a.y ++ fmtF4 10 0 ++ sL " " ++ padRight 3 a.sym ++ sL " 0" ++ code ++
        sL "  0  0  0  0  0  0  0" ++ fmtD 3 m ++ sL "  0  0\n") 0 10 rfl hX
      simpa [List.append_assoc] using this
    have s2 : slice line 10 20 = fmtF4 10 a.y := by
      rw [← hline]
      have := slice_at (fmtF4 10 a.x) (fmtF4 10 a.y) (fmtF4 10 0 ++ sL " " ++ padRight 3 a.sym ++ sL " 0" ++ code ++
        sL "  0  0  0  0  0  0  0" ++ fmtD 3 m ++ sL "  0  0\n") 10 10 hX hY
      simpa [List.append_assoc] using this
    have s3 : slice line 20 30 = fmtF4 10 0 := by
      rw [← hline]
      have := slice_at (fmtF4 10 a.x ++ fmtF4 10 a.y) (fmtF4 10 0) (sL " " ++ padRight 3 a.sym ++ sL " 0" ++ code ++
        sL "  0  0  0  0  0  0  0" ++ fmtD 3 m ++ sL "  0  0\n") 20 10 (by simp [hX, hY]) hZ
      simpa [List.append_assoc] using this
    have s4 : slice line 31 34 = padRight 3 a.sym := by
      rw [← hline]
      have := slice_at (fmtF4 10 a.x ++ fmtF4 10 a.y ++ fmtF4 10 0 ++ sL " ") (padRight 3 a.sym) (sL " 0" ++ code ++
        sL "  0  0  0  0  0  0  0" ++ fmtD 3 m ++ sL "  0  0\n") 31 3 (by simp [hX, hY, hZ, sL]) hS
      simpa [List.append_assoc] using this
    have s5 : slice line 34 36 = sL " 0" := by
      rw [← hline]
      have := slice_at (fmtF4 10 a.x ++ fmtF4 10 a.y ++ fmtF4 10 0 ++ sL " " ++ padRight 3 a.sym) (sL " 0") (code ++
        sL "  0  0  0  0  0  0  0" ++ fmtD 3 m ++ sL "  0  0\n") 34 2 (by simp [hX, hY, hZ, hS, sL]) rfl
      simpa [List.append_assoc] using this
    have s6 : slice line 36 39 = code := by
      rw [← hline]
      have := slice_at (fmtF4 10 a.x ++ fmtF4 10 a.y ++ fmtF4 10 0 ++ sL " " ++ padRight 3 a.sym ++ sL " 0") code
        (sL "  0  0  0  0  0  0  0" ++ fmtD 3 m ++ sL "  0  0\n") 36 3 (by simp [hX, hY, hZ, hS, sL]) hcl
      simpa [List.append_assoc] using this
    have s7 : slice line 60 63 = fmtD 3 m := by
      rw [← hline]
      have := slice_at (fmtF4 10 a.x ++ fmtF4 10 a.y ++ fmtF4 10 0 ++ sL " " ++ padRight 3 a.sym ++ sL " 0" ++ code ++
        sL "  0  0  0  0  0  0  0") (fmtD 3 m) (sL "  0  0\n") 60 3 (by simp [hX, hY, hZ, hS, hcl, sL]) hM
      simpa [List.append_assoc] using this
    unfold parseAtomLine
    rw [s1, s2, s3, s4, s5, s6, s7]
    show atomOfFields code (padRight 3 a.sym) [' ', '0'] _ _ _ _ = _
    exact atomOfFields_written a h code m hrc

/-! ## V2000 bond lines and property lines -/

theorem order_field : ∀ o : Fin 10, sL "  " ++ natDigits o = fmtD 3 ((o : Nat) : Int) := by decide

theorem bondline_roundtrip (i j o : Nat) (hi : i ≤ 999) (hj : j ≤ 999) (ho : o ≤ 8) :
    parseBondLine (bondText i j o) = .ok (((i : Int) - 1, (j : Int) - 1, (o : Int)), none) := by
  have hI := fmtD3_length (m := (i : Int)) (by omega) (by omega)
  have hJ := fmtD3_length (m := (j : Int)) (by omega) (by omega)
  have hO : sL "  " ++ natDigits o = fmtD 3 (o : Int) := order_field ⟨o, by omega⟩
  have hOl : (fmtD 3 (o : Int)).length = 3 := fmtD3_length (by omega) (by omega)
  have hline : bondText i j o = fmtD 3 (i : Int) ++ (fmtD 3 (j : Int) ++ (fmtD 3 (o : Int) ++ sL "  0  0  0  0\n")) := by
    unfold bondText; rw [← hO]; simp [List.append_assoc]
  rw [hline]
  have s1 : slice (fmtD 3 (i : Int) ++ (fmtD 3 (j : Int) ++ (fmtD 3 (o : Int) ++ sL "  0  0  0  0\n"))) 0 3 = fmtD 3 (i : Int) := by
    simpa using slice_at [] (fmtD 3 (i : Int)) (fmtD 3 (j : Int) ++ (fmtD 3 (o : Int) ++ sL "  0  0  0  0\n")) 0 3 rfl hI
  have s2 : slice (fmtD 3 (i : Int) ++ (fmtD 3 (j : Int) ++ (fmtD 3 (o : Int) ++ sL "  0  0  0  0\n"))) 3 6 = fmtD 3 (j : Int) := by
    simpa using slice_at (fmtD 3 (i : Int)) (fmtD 3 (j : Int)) (fmtD 3 (o : Int) ++ sL "  0  0  0  0\n") 3 3 hI hJ
  have s3 : slice (fmtD 3 (i : Int) ++ (fmtD 3 (j : Int) ++ (fmtD 3 (o : Int) ++ sL "  0  0  0  0\n"))) 6 9 = fmtD 3 (o : Int) := by
    have := slice_at (fmtD 3 (i : Int) ++ fmtD 3 (j : Int)) (fmtD 3 (o : Int)) (sL "  0  0  0  0\n") 6 3 (by simp [hI, hJ]) hOl
    simpa [List.append_assoc] using this
  have s4 : slice (fmtD 3 (i : Int) ++ (fmtD 3 (j : Int) ++ (fmtD 3 (o : Int) ++ sL "  0  0  0  0\n"))) 9 12 = sL "  0" := by
    have := slice_at (fmtD 3 (i : Int) ++ fmtD 3 (j : Int) ++ fmtD 3 (o : Int)) (sL "  0") (sL "  0  0  0\n") 9 3 (by simp [hI, hJ, hOl]) rfl
    simpa [List.append_assoc, sL] using this
  have ho9 : ((o : Int) == 9) = false := by simp; omega
  have e1 : (sL "  0" == "  1".toList) = false := by decide
  have e2 : (sL "  0" == "  6".toList) = false := by decide
  unfold parseBondLine
  simp only [s1, s2, s3, s4, e1, e2]
  simp [intE, pyInt_fmtD, bind, Except.bind, pure, Except.pure, ho9]

theorem wedgeline_roundtrip (i j o : Nat) (s : Int) (hi : i ≤ 999) (hj : j ≤ 999) (ho : o ≤ 8) (hs : s = 1 ∨ s = -1) :
    parseBondLine (wedgeText i j o s) = .ok (((i : Int) - 1, (j : Int) - 1, (o : Int)), some ((i : Int) - 1, (j : Int) - 1, s)) := by
  have hI := fmtD3_length (m := (i : Int)) (by omega) (by omega)
  have hJ := fmtD3_length (m := (j : Int)) (by omega) (by omega)
  have hO : sL "  " ++ natDigits o = fmtD 3 (o : Int) := order_field ⟨o, by omega⟩
  have hOl : (fmtD 3 (o : Int)).length = 3 := fmtD3_length (by omega) (by omega)
  let w : Str := sL "  " ++ (if s == 1 then sL "1" else sL "6")
  have hw : w = if s = 1 then sL "  1" else sL "  6" := by
    simp only [w]; rcases hs with h | h <;> subst h <;> decide
  have hwl : w.length = 3 := by rw [hw]; split <;> rfl
  have hline : wedgeText i j o s = fmtD 3 (i : Int) ++ (fmtD 3 (j : Int) ++ (fmtD 3 (o : Int) ++ (w ++ sL "  0  0  0\n"))) := by
    unfold wedgeText; rw [← hO]; simp [List.append_assoc, w]
  rw [hline]
  generalize hL : fmtD 3 (i : Int) ++ (fmtD 3 (j : Int) ++ (fmtD 3 (o : Int) ++ (w ++ sL "  0  0  0\n"))) = line
  have s1 : slice line 0 3 = fmtD 3 (i : Int) := by
    rw [← hL]; simpa using slice_at [] (fmtD 3 (i : Int)) (fmtD 3 (j : Int) ++ (fmtD 3 (o : Int) ++ (w ++ sL "  0  0  0\n"))) 0 3 rfl hI
  have s2 : slice line 3 6 = fmtD 3 (j : Int) := by
    rw [← hL]; simpa using slice_at (fmtD 3 (i : Int)) (fmtD 3 (j : Int)) (fmtD 3 (o : Int) ++ (w ++ sL "  0  0  0\n")) 3 3 hI hJ
  have s3 : slice line 6 9 = fmtD 3 (o : Int) := by
    rw [← hL]
    have := slice_at (fmtD 3 (i : Int) ++ fmtD 3 (j : Int)) (fmtD 3 (o : Int)) (w ++ sL "  0  0  0\n") 6 3 (by simp [hI, hJ]) hOl
    simpa [List.append_assoc] using this
  have s4 : slice line 9 12 = w := by
    rw [← hL]
    have := slice_at (fmtD 3 (i : Int) ++ fmtD 3 (j : Int) ++ fmtD 3 (o : Int)) w (sL "  0  0  0\n") 9 3 (by simp [hI, hJ, hOl]) hwl
    simpa [List.append_assoc] using this
  have ho9 : ((o : Int) == 9) = false := by simp; omega
  unfold parseBondLine
  simp only [s1, s2, s3, s4, hw]
  rcases hs with h | h <;> subst h <;>
    simp [intE, pyInt_fmtD, bind, Except.bind, pure, Except.pure, ho9, sL]

/-! property lines -/

/-- the final state of an atom after the `M  ISO/RAD/CHG` lines written for it are applied -/
def withProps (a : WAtom) (p : PAtom) : PAtom :=
  let p := if a.iso != 0 then { p with isotope := some (a.iso : Int) } else p
  let p := if a.rad then { p with rad := true } else p
  if a.charge == -4 || a.charge == 4 then { p with charge := a.charge } else p

theorem ctfLine_apply (kind : Char) (tag : Str) (n : Nat) (v : Int) (atoms : List PAtom)
    (htag : tag.length = 6) (hn1 : 1 ≤ n) (hn : n ≤ atoms.length) (hn9 : n ≤ 999) (vtxt : Str) (hv : vtxt.length = 3)
    (hvi : pyInt? vtxt = some v) (f : PAtom → PAtom)
    (hf : f = fun a => if kind == 'C' then { a with charge := v } else if kind == 'I' then { a with isotope := some v } else { a with rad := true }) :
    applyCtf kind (tag ++ sL "  1 " ++ fmtD 3 (n : Int) ++ sL " " ++ vtxt ++ sL "\n") 1 0 atoms = .ok (setAt atoms (n - 1) f) := by
  have hN := fmtD3_length (m := (n : Int)) (by omega) (by omega)
  generalize hL : tag ++ sL "  1 " ++ fmtD 3 (n : Int) ++ sL " " ++ vtxt ++ sL "\n" = line
  have s1 : slice line 10 13 = fmtD 3 (n : Int) := by
    rw [← hL]
    have := slice_at (tag ++ sL "  1 ") (fmtD 3 (n : Int)) (sL " " ++ vtxt ++ sL "\n") 10 3 (by simp [htag, sL]) hN
    simpa [List.append_assoc] using this
  have s2 : slice line 14 17 = vtxt := by
    rw [← hL]
    have := slice_at (tag ++ sL "  1 " ++ fmtD 3 (n : Int) ++ sL " ") vtxt (sL "\n") 14 3 (by simp [htag, hN, sL]) hv
    simpa [List.append_assoc] using this
  have hidx : pyIndexNat atoms.length ((n : Int) - 1) = some (n - 1) := by
    unfold pyIndexNat
    have h1 : ¬ ((n : Int) - 1 < 0) := by omega
    have h2 : (n : Int) - 1 < (atoms.length : Int) := by omega
    simp only [h1, if_false, h2, if_true]
    congr 1; omega
  have hz : ((n : Int) == 0) = false := by simp; omega
  have hgt : decide ((n : Int) > (atoms.length : Int)) = false := by simp; omega
  simp only [applyCtf, Nat.zero_mul, Nat.add_zero, s1, s2, intE, pyInt_fmtD, hvi, bind, Except.bind, pure, Except.pure,
    hz, hgt, Bool.or_self, Bool.false_eq_true, if_false, hidx, hf]

end ChythonModel.Proofs.C11
