import ChythonModel.Model.BitLayout
import Mathlib.Data.List.Perm.Subperm
namespace ChythonModel.Proofs.C09
open ChythonModel.Model.Bits ChythonModel.Model

/-- the reference formulation of the closure test on the same data (what `_get_mapping` does):
    `o_closures == {mapping[m] …}` (set equality of the matched neighbours other than the parent with the images of the query
    closure partners) and `all(bond == obon[mapping[m]] …)` -/
def closureSetTest (hits qb : List CBond) (images : List Nat) : Bool :=
  Iso.setEq (hits.map (·.index)) images &&
  (qb.zip images).all fun (jb, x) =>
    match hits.find? (·.index == x) with
    | some h => jb.bond &&& h.bond == h.bond
    | none => false

/-- the counter formulation of `_isomorphism.pyx` -/
def closureCountTest (hits qb : List CBond) (images : List Nat) (k : Nat) : Bool :=
  if k != 0 then (if hits.length == k then closureAll hits qb images else false) else hits.isEmpty

theorem find_reverse_nodup (hits : List CBond) (hn : (hits.map (·.index)).Nodup) (x : Nat) :
    hits.reverse.find? (·.index == x) = hits.find? (·.index == x) := by
  induction hits with
  | nil => rfl
  | cons h t ih =>
    have hn' : h.index ∉ t.map (·.index) ∧ (t.map (·.index)).Nodup := by
      rw [List.map_cons] at hn; exact List.nodup_cons.mp hn
    rw [List.reverse_cons, List.find?_append, ih hn'.2]
    by_cases hx : h.index = x
    · have : t.find? (·.index == x) = none := by
        rw [List.find?_eq_none]; intro y hy hyx
        simp only [beq_iff_eq] at hyx
        exact hn'.1 (List.mem_map.mpr ⟨y, hy, by rw [hyx, hx]⟩)
      simp [this, hx]
    · have hx' : (h.index == x) = false := by simp [hx]
      have e : (h :: t).find? (·.index == x) = t.find? (·.index == x) := by
        rw [List.find?_cons]; simp only [hx']
      rw [e]
      cases hf : t.find? (·.index == x) with
      | some y => simp
      | none => simp [List.find?_cons, hx']

theorem scratch_eq (hits : List CBond) (hn : (hits.map (·.index)).Nodup) (x : Nat) :
    scratch hits x = match hits.find? (·.index == x) with | some h => h.bond | none => 0 := by
  unfold scratch; rw [find_reverse_nodup hits hn]; cases hits.find? (·.index == x) <;> rfl

theorem find_some_iff_mem (hits : List CBond) (x : Nat) :
    (hits.find? (·.index == x)).isSome = true ↔ x ∈ hits.map (·.index) := by
  rw [List.find?_isSome]
  simp only [beq_iff_eq, List.mem_map]

/-- one query closure bond: counter-side acceptance = "the image is a matched neighbour and its bond is accepted" -/
theorem closure_item (hits : List CBond) (hn : (hits.map (·.index)).Nodup) (hz : ∀ h ∈ hits, h.bond ≠ 0) (jb : CBond) (x : Nat) :
    (let c := scratch hits x; !(c == 0 || (jb.bond &&& c != c))) =
      (match hits.find? (·.index == x) with | some h => jb.bond &&& h.bond == h.bond | none => false) := by
  simp only [scratch_eq hits hn]
  cases hf : hits.find? (·.index == x) with
  | none => simp
  | some h =>
    have hm := List.mem_of_find?_eq_some hf
    have := hz h hm
    simp only
    have e : (h.bond == 0) = false := by simp [this]
    rw [e, Bool.false_or]
    cases hb : (jb.bond &&& h.bond == h.bond) <;> simp [bne, hb]

/-- **closure_tests_agree**: with distinct neighbour indices, distinct images of the query closure partners and non-zero bond
    words, the counter test of the compiled matcher (equal counts + every query closure hits a recorded neighbour with an accepted
    bond) is the set-equality test of the reference matcher — pigeonhole on the distinct images. -/
theorem closure_tests_agree (hits qb : List CBond) (images : List Nat) (k : Nat)
    (hn : (hits.map (·.index)).Nodup) (hi : images.Nodup) (hz : ∀ h ∈ hits, h.bond ≠ 0)
    (hq : qb.length = k) (him : images.length = k) :
    closureCountTest hits qb images k = closureSetTest hits qb images := by
  unfold closureCountTest closureSetTest closureAll
  have hall : ((qb.zip images).all fun (jb, x) => (let c := scratch hits x; !(c == 0 || (jb.bond &&& c != c)))) =
      ((qb.zip images).all fun (jb, x) =>
        match hits.find? (·.index == x) with | some h => jb.bond &&& h.bond == h.bond | none => false) := by
    apply List.all_congr rfl
    intro p; exact closure_item hits hn hz p.1 p.2
  by_cases hk : k = 0
  · subst hk
    have : images = [] := List.length_eq_zero_iff.mp him
    subst this
    simp only [bne_self_eq_false, Bool.false_eq_true, if_false, List.zip_nil_right, List.all_nil, Bool.and_true]
    cases hits with
    | nil => rfl
    | cons h t => simp [Iso.setEq]
  · have hk' : (k != 0) = true := by simp [hk]
    simp only [hk', if_true]
    rw [hall]
    -- all images are covered by the zip
    have hcover : ∀ x ∈ images, ∃ jb, (jb, x) ∈ qb.zip images := by
      intro x hx
      obtain ⟨i, hi', rfl⟩ := List.mem_iff_getElem.mp hx
      have : i < qb.length := by omega
      exact ⟨qb[i], by
        rw [List.mem_iff_getElem]; exact ⟨i, by simp [List.length_zip]; omega, by simp⟩⟩
    cases hallv : ((qb.zip images).all fun (jb, x) =>
        match hits.find? (·.index == x) with | some h => jb.bond &&& h.bond == h.bond | none => false)
    · simp
    · -- every image is a recorded neighbour
      have hsub : images ⊆ hits.map (·.index) := by
        intro x hx
        obtain ⟨jb, hjb⟩ := hcover x hx
        have := (List.all_eq_true.mp hallv) (jb, x) hjb
        simp only at this
        rw [← find_some_iff_mem]
        cases hf : hits.find? (·.index == x) with
        | none => rw [hf] at this; simp at this
        | some h => rfl
      simp only [Bool.and_true, if_true]
      by_cases hlen : hits.length = k
      · have : (hits.length == k) = true := by simp [hlen]
        rw [this]; simp only [if_true]
        have hperm := (List.subperm_of_subset hi hsub).perm_of_length_le (by simp [List.length_map]; omega)
        symm
        rw [Iso.setEq, Bool.and_eq_true, List.all_eq_true, List.all_eq_true]
        constructor
        · intro x hx; exact List.contains_iff_mem.mpr (hperm.symm.subset hx)
        · intro x hx; exact List.contains_iff_mem.mpr (hsub hx)
      · have : (hits.length == k) = false := by simp [hlen]
        rw [this]; simp only [Bool.false_eq_true, if_false]
        symm
        rw [Bool.eq_false_iff]
        intro hse
        rw [Iso.setEq, Bool.and_eq_true, List.all_eq_true, List.all_eq_true] at hse
        have h1 : hits.map (·.index) ⊆ images := fun x hx => List.contains_iff_mem.mp (hse.1 x hx)
        have hp := (List.subperm_of_subset hn h1).length_le
        have hp2 := (List.subperm_of_subset hi hsub).length_le
        simp only [List.length_map] at hp hp2
        omega


/-- the matched neighbours other than the parent, as `closureC` computes them -/
def hitsOf (nb : List CBond) (flags : List Bool) (n : Nat) : List CBond :=
  ((nb.zip flags).filter fun (jb, f) => jb.index != n && f).map (·.1)

/-- `closureC` is the counter test applied to the data it reads (all reads in range) -/
theorem closureC_eq (m : CMol) (q : CQuery) (qa : CQAtom) (mAtom : CAtom) (n : Nat) (matched : List Bool) (path : List Nat)
    (nb qb : List CBond) (flags : List Bool) (images : List Nat)
    (h1 : slice? m.bonds mAtom.from_ mAtom.to_ = some nb)
    (h2 : nb.mapM (fun jb => matched[jb.index]?) = some flags)
    (h3 : slice? q.bonds qa.from_ qa.to_ = some qb)
    (h4 : qb.mapM (fun jb => path[jb.index]?) = some images) :
    closureC m q qa mAtom n matched path = some (closureCountTest (hitsOf nb flags n) qb images qa.closure) := by
  unfold closureC closureCountTest hitsOf
  simp only [h1, Option.bind_eq_bind, Option.bind_some, h2, Option.pure_def, bind, pure]
  by_cases hk : qa.closure = 0
  · simp [hk]
  · have : (qa.closure != 0) = true := by simp [hk]
    simp only [this, if_true]
    split
    · simp only [h3, Option.bind_some, h4]
    · rfl

end ChythonModel.Proofs.C09
