import ChythonModel.Py.IntSetRegs
import ChythonModel.Proofs.C19Binary
/-!
# C19 — programs over several sets (the register machine of the driver): every step keeps every register's invariant and
changes the denotation of its target register exactly as the documentation says
-/
namespace ChythonModel.Py.IntSet
open ChythonModel.Spec.PySet

theorem find_filter_ne (l : Regs) {r r' : Nat} (h : r' ≠ r) :
    (l.filter (fun p => p.1 != r)).find? (fun p => p.1 == r') = l.find? (fun p => p.1 == r') := by
  induction l with
  | nil => rfl
  | cons p ps ih =>
    by_cases hp : p.1 = r
    · have hq : ¬ p.1 = r' := fun e => h (e.symm.trans hp)
      simp only [List.filter_cons, hp, bne_self_eq_false, Bool.false_eq_true, if_false, List.find?_cons]
      have : (r == r') = false := by simpa using fun e : r = r' => h e.symm
      rw [this]
      exact ih
    · have hb : (p.1 != r) = true := by simpa using hp
      simp only [List.filter_cons, hb, if_true, List.find?_cons]
      cases p.1 == r' with
      | true => rfl
      | false => exact ih

theorem Regs.get_put (rs : Regs) (r : Nat) (s : IntSet) (r' : Nat) :
    (rs.put r s).get r' = if r' = r then some s else rs.get r' := by
  unfold Regs.put Regs.get
  by_cases h : r' = r
  · subst h; simp
  · have hb : (r == r') = false := by simpa using fun e : r = r' => h e.symm
    simp only [h, if_false, List.find?_cons, hb]
    rw [find_filter_ne rs h]

/-- every register holds a set satisfying the full invariant -/
def AllInv (rs : Regs) : Prop := ∀ r s, rs.get r = some s → Inv s

/-- the abstract set a register denotes (empty for an unused register) -/
def den (rs : Regs) (r : Nat) : ASet := fun x => ∃ s, rs.get r = some s ∧ Mem s.table x

theorem den_of_get {rs : Regs} {r : Nat} {s : IntSet} (h : rs.get r = some s) (x : Int) : den rs r x ↔ Mem s.table x := by
  unfold den
  constructor
  · rintro ⟨s', h', hm⟩
    rw [h] at h'
    simp at h'
    subst h'
    exact hm
  · exact fun hm => ⟨s, h, hm⟩

/-- the documented value of the target register after an op -/
def ROp.absValue (D : Nat → ASet) : ROp → Obs → ASet
  | .new _, _ => aEmpty
  | .step r op, o => absStep (D r) op o
  | .updateSet r q, _ => aUnion (D r) (D q)
  | .copy _ q, _ => D q
  | .diffUpdateSet r q, _ => aDiff (D r) (D q)
  | .inter _ a b, _ => aInter (D a) (D b)
  | .interTL _ a ks, _ => aInter (D a) (· ∈ ks)
  | .interLT _ b ks, _ => aInter (· ∈ ks) (D b)
  | .interIt _ a ks, _ => aInter (D a) (· ∈ ks)
  | .diff _ a b, _ => aDiff (D a) (D b)
  | .diffTL _ a ks, _ => aDiff (D a) (· ∈ ks)
  | .diffIt _ a ks, _ => aDiff (D a) (· ∈ ks)
  | .union _ a b, _ => aUnion (D a) (D b)

theorem stepOp_sound {s s' : IntSet} {op : SetOp} {o : Obs} (h : Inv s) (hs : s.stepOp op = some (s', o)) :
    Inv s' ∧ ∀ x, Mem s'.table x ↔ absStep (Mem s.table) op o x := by
  have hr : Represents s (Mem s.table) := ⟨h.1, fun _ => Iff.rfl⟩
  obtain ⟨⟨a1, a2⟩, _⟩ := stepOp_represents hr hs
  exact ⟨⟨a1, (stepOp_inv hr h.2 hs).1⟩, a2⟩

theorem absStep_congr {A B : ASet} (h : ∀ x, A x ↔ B x) (op : SetOp) (o : Obs) (x : Int) :
    absStep A op o x ↔ absStep B op o x := by
  cases op <;> cases o <;> simp [absStep, aAdd, aRemove, aEmpty, aUpdate, aDifferenceUpdate, h]

theorem eval_sound {rs : Regs} (h : AllInv rs) {op : ROp} {s' : IntSet} {o : Obs} (he : op.eval rs = some (s', o)) :
    Inv s' ∧ ∀ x, Mem s'.table x ↔ op.absValue (den rs) o x := by
  cases op with
  | new r =>
    simp [ROp.eval] at he
    obtain ⟨e1, _⟩ := he
    subst e1
    exact ⟨empty_inv, fun x => ⟨fun hm => absurd hm (empty_spec.2 x), fun hm => hm.elim⟩⟩
  | step r op =>
    simp only [ROp.eval, Option.bind_eq_some_iff] at he
    obtain ⟨s, hg, hs⟩ := he
    obtain ⟨a1, a2⟩ := stepOp_sound (h r s hg) hs
    exact ⟨a1, fun x => (a2 x).trans (absStep_congr (fun y => (den_of_get hg y).symm) op o x)⟩
  | updateSet r q =>
    simp only [ROp.eval, Option.bind_eq_some_iff] at he
    obtain ⟨s, hg, o', hq, hm⟩ := he
    split at hm
    · rename_i e
      subst e
      simp at hm
      obtain ⟨e1, _⟩ := hm
      subst e1
      exact ⟨h r s hg, fun x => by simp only [ROp.absValue, aUnion, den_of_get hg]; exact ⟨Or.inl, fun hx => hx.elim id id⟩⟩
    · simp only [Option.map_eq_some_iff, Prod.mk.injEq] at hm
      obtain ⟨r1, hm, e1, _⟩ := hm
      subst e1
      obtain ⟨a1, a2⟩ := merge_spec (h r s hg) (h q o' hq) hm
      exact ⟨a1, fun x => by simp only [ROp.absValue, aUnion, den_of_get hg, den_of_get hq]; exact a2 x⟩
  | copy r q =>
    simp only [ROp.eval, Option.bind_eq_some_iff, Option.map_eq_some_iff, Prod.mk.injEq] at he
    obtain ⟨o', hq, r1, hm, e1, _⟩ := he
    subst e1
    obtain ⟨a1, a2⟩ := copy_spec (h q o' hq) hm
    exact ⟨a1, fun x => by simp only [ROp.absValue, den_of_get hq]; exact a2 x⟩
  | diffUpdateSet r q =>
    simp only [ROp.eval, Option.bind_eq_some_iff] at he
    obtain ⟨s, hg, o', hq, hm⟩ := he
    split at hm
    · rename_i e
      subst e
      simp at hm
      obtain ⟨e1, _⟩ := hm
      subst e1
      refine ⟨⟨(clear_spec s).1, clear_counts s⟩, fun x => ?_⟩
      simp only [ROp.absValue, aDiff]
      exact ⟨fun hm => absurd hm ((clear_spec s).2 x), fun hm => absurd hm.1 hm.2⟩
    · simp only [Option.map_eq_some_iff, Prod.mk.injEq] at hm
      obtain ⟨r1, hm, e1, _⟩ := hm
      subst e1
      have hi := h r s hg
      refine ⟨differenceUpdate_inv hi hm, fun x => ?_⟩
      rw [(differenceUpdate_spec hi.1 hm).2 x]
      simp only [ROp.absValue, aDiff, den_of_get hg, den_of_get hq]
      rw [show (x ∉ o'.toList) ↔ ¬ Mem o'.table x from not_congr mem_activeKeys]
  | inter d a b =>
    simp only [ROp.eval, Option.bind_eq_some_iff] at he
    obtain ⟨x1, ha, y1, hb, hm⟩ := he
    split at hm
    · rename_i e
      subst e
      simp only [Option.map_eq_some_iff, Prod.mk.injEq] at hm
      obtain ⟨r1, hm, e1, _⟩ := hm
      subst e1
      obtain ⟨a1, a2⟩ := copy_spec (h a x1 ha) hm
      exact ⟨a1, fun x => by simp only [ROp.absValue, aInter, den_of_get ha]; rw [a2 x]; exact ⟨fun hx => ⟨hx, hx⟩, fun hx => hx.1⟩⟩
    · simp only [Option.map_eq_some_iff, Prod.mk.injEq] at hm
      obtain ⟨r1, hm, e1, _⟩ := hm
      subst e1
      obtain ⟨a1, a2⟩ := interSet_spec (view_denotes (h a x1 ha)) (view_denotes (h b y1 hb)) hm
      exact ⟨a1, fun x => by simp only [ROp.absValue, aInter, den_of_get ha, den_of_get hb]; exact a2 x⟩
  | interTL d a ks =>
    simp only [ROp.eval, Option.bind_eq_some_iff, Option.map_eq_some_iff, Prod.mk.injEq] at he
    obtain ⟨x1, ha, r1, hm, e1, _⟩ := he
    subst e1
    obtain ⟨a1, a2⟩ := interSet_spec (view_denotes (h a x1 ha)) (ofList_denotes ks) hm
    exact ⟨a1, fun x => by simp only [ROp.absValue, aInter, den_of_get ha]; exact a2 x⟩
  | interLT d b ks =>
    simp only [ROp.eval, Option.bind_eq_some_iff, Option.map_eq_some_iff, Prod.mk.injEq] at he
    obtain ⟨y1, hb, r1, hm, e1, _⟩ := he
    subst e1
    obtain ⟨a1, a2⟩ := interSet_spec (ofList_denotes ks) (view_denotes (h b y1 hb)) hm
    exact ⟨a1, fun x => by simp only [ROp.absValue, aInter, den_of_get hb]; exact a2 x⟩
  | interIt d a ks =>
    simp only [ROp.eval, Option.bind_eq_some_iff, Option.map_eq_some_iff, Prod.mk.injEq] at he
    obtain ⟨x1, ha, r1, hm, e1, _⟩ := he
    subst e1
    obtain ⟨a1, a2⟩ := interIter_spec (view_denotes (h a x1 ha)) ks hm
    exact ⟨a1, fun x => by simp only [ROp.absValue, aInter, den_of_get ha]; exact a2 x⟩
  | diff d a b =>
    simp only [ROp.eval, Option.bind_eq_some_iff, Option.map_eq_some_iff, Prod.mk.injEq] at he
    obtain ⟨x1, ha, y1, hb, r1, hm, e1, _⟩ := he
    subst e1
    obtain ⟨a1, a2⟩ := difference_spec (h a x1 ha) (view_denotes (h b y1 hb)) true hm
    exact ⟨a1, fun x => by simp only [ROp.absValue, aDiff, den_of_get ha, den_of_get hb]; exact a2 x⟩
  | diffTL d a ks =>
    simp only [ROp.eval, Option.bind_eq_some_iff, Option.map_eq_some_iff, Prod.mk.injEq] at he
    obtain ⟨x1, ha, r1, hm, e1, _⟩ := he
    subst e1
    obtain ⟨a1, a2⟩ := difference_spec (h a x1 ha) (ofList_denotes ks) true hm
    exact ⟨a1, fun x => by simp only [ROp.absValue, aDiff, den_of_get ha]; exact a2 x⟩
  | diffIt d a ks =>
    simp only [ROp.eval, Option.bind_eq_some_iff, Option.map_eq_some_iff, Prod.mk.injEq] at he
    obtain ⟨x1, ha, r1, hm, e1, _⟩ := he
    subst e1
    obtain ⟨a1, a2⟩ := difference_spec (h a x1 ha) (ofList_denotes ks) false hm
    exact ⟨a1, fun x => by simp only [ROp.absValue, aDiff, den_of_get ha]; exact a2 x⟩
  | union d a b =>
    simp only [ROp.eval, Option.bind_eq_some_iff] at he
    obtain ⟨x1, ha, y1, hb, hm⟩ := he
    split at hm
    · rename_i e
      subst e
      simp only [Option.map_eq_some_iff, Prod.mk.injEq] at hm
      obtain ⟨r1, hm, e1, _⟩ := hm
      subst e1
      obtain ⟨a1, a2⟩ := copy_spec (h a x1 ha) hm
      exact ⟨a1, fun x => by simp only [ROp.absValue, aUnion, den_of_get ha]; rw [a2 x]; exact ⟨Or.inl, fun hx => hx.elim id id⟩⟩
    · simp only [Option.map_eq_some_iff, Prod.mk.injEq] at hm
      obtain ⟨r1, hm, e1, _⟩ := hm
      subst e1
      obtain ⟨a1, a2⟩ := union_spec (h a x1 ha) (h b y1 hb) hm
      exact ⟨a1, fun x => by simp only [ROp.absValue, aUnion, den_of_get ha, den_of_get hb]; exact a2 x⟩

/-- one step of a program: invariants kept, the target denotes the documented value, the other registers are untouched -/
theorem run_sound {rs rs' : Regs} (h : AllInv rs) {op : ROp} {o : Obs} (hr : op.run rs = some (rs', o)) :
    AllInv rs' ∧ (∀ x, den rs' op.target x ↔ op.absValue (den rs) o x) ∧
    ∀ r, r ≠ op.target → rs'.get r = rs.get r := by
  unfold ROp.run at hr
  simp only [Option.map_eq_some_iff, Prod.mk.injEq] at hr
  obtain ⟨⟨s', o'⟩, he, e1, e2⟩ := hr
  simp only at e1 e2
  subst e1 e2
  obtain ⟨a1, a2⟩ := eval_sound h he
  refine ⟨?_, ?_, ?_⟩
  · intro r s hg
    rw [Regs.get_put] at hg
    split at hg
    · simp at hg; subst hg; exact a1
    · exact h r s hg
  · intro x
    have hg : (rs.put op.target s').get op.target = some s' := by rw [Regs.get_put]; simp
    rw [den_of_get hg x]
    exact a2 x
  · intro r hne
    rw [Regs.get_put]
    simp [hne]

theorem allInv_nil : AllInv [] := by
  intro r s h
  simp [Regs.get] at h

theorem runProg_inv : ∀ (ops : List ROp) {rs rs' : Regs} {os : List Obs}, AllInv rs → runProg rs ops = some (rs', os) →
    AllInv rs' := by
  intro ops
  induction ops with
  | nil => intro rs rs' os h hr; simp [runProg] at hr; rw [← hr.1]; exact h
  | cons op ops ih =>
    intro rs rs' os h hr
    unfold runProg at hr
    split at hr
    · simp at hr
    · rename_i rs1 o h1
      split at hr
      · simp at hr
      · rename_i rs2 os2 h2
        simp at hr
        rw [← hr.1]
        exact ih (run_sound h h1).1 h2

end ChythonModel.Py.IntSet
