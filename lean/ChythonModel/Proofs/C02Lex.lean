import ChythonModel.Model.C02RoundTrip
/-! # C02 — the writer's token shapes are uniquely decodable by the maximal-munch lexer -/
namespace ChythonModel.Proofs.C02
open ChythonModel.Model ChythonModel.Model.SmilesWriter ChythonModel.Model.C02RT


/-! ## lexical round trip -/

def plainSyms : List Str :=
  [[66], [66, 114], [67], [67, 108], [78], [79], [80], [83], [70], [73], [98], [99], [110], [111], [112], [115]]

/-- the shapes of tokens the writer can emit -/
def tokOk : WTok → Bool
  | .atom _ a =>
    if a.bracket then !(ATok.inner a).contains 93
    else plainSyms.contains a.symbol && a.isotope.isNone && a.stereo.isNone && a.hcount == 0 && a.charge.isEmpty && a.map.isNone
  | .bond s => s.isEmpty || (s.length == 1 && s.all bondChars.contains)
  | .closure c => c < 100
  | _ => true

theorem spanBracket_append (inner R : Str) (h : ¬ 93 ∈ inner) : spanBracket (inner ++ 93 :: R) = some (inner, R) := by
  induction inner with
  | nil => simp [spanBracket]
  | cons c cs ih =>
    have hc : c ≠ 93 := by intro e; exact h (by simp [e])
    have : ¬ 93 ∈ cs := by intro e; exact h (by simp [e])
    simp [spanBracket, hc, ih this]

theorem render_bracket (a : ATok) (h : a.bracket = true) : a.render = 91 :: (ATok.inner a ++ [93]) := by
  simp [ATok.render, ATok.inner, h]

theorem render_plain (a : ATok) (hb : a.bracket = false) (h1 : a.isotope = none) (h2 : a.stereo = none)
    (h3 : a.hcount = 0) (h4 : a.charge = []) (h5 : a.map = none) : a.render = a.symbol := by
  simp [ATok.render, hb, h1, h2, h3, h4, h5]

theorem natStr_small (c : Nat) (h : c < 10) : natStr c = [48 + c] := by
  simp [natStr, natDigits, h]

theorem natStr_two (c : Nat) (h1 : 10 ≤ c) (h2 : c < 100) : natStr c = [48 + c / 10, 48 + c % 10] := by
  have h3 : ¬ c < 10 := by omega
  have h4 : c / 10 < 10 := by omega
  obtain ⟨k, rfl⟩ : ∃ k, c = k + 1 := ⟨c - 1, by omega⟩
  simp only [natStr, natDigits, h3, if_false]
  simp [h4]

theorem lex_lpar (f : Nat) (R : Str) : lexFuel (f + 1) (40 :: R) = (lexFuel f R).map (LTok.lpar :: ·) := by simp [lexFuel]
theorem lex_rpar (f : Nat) (R : Str) : lexFuel (f + 1) (41 :: R) = (lexFuel f R).map (LTok.rpar :: ·) := by simp [lexFuel]
theorem lex_dot (f : Nat) (R : Str) : lexFuel (f + 1) (46 :: R) = (lexFuel f R).map (LTok.dot :: ·) := by simp [lexFuel]

theorem lex_bond (f : Nat) (c : Nat) (R : Str) (h : bondChars.contains c = true) :
    lexFuel (f + 1) (c :: R) = (lexFuel f R).map (LTok.bond c :: ·) := by
  have : c = 45 ∨ c = 61 ∨ c = 35 ∨ c = 58 ∨ c = 126 ∨ c = 47 ∨ c = 92 := by simpa [bondChars] using h
  rcases this with rfl | rfl | rfl | rfl | rfl | rfl | rfl <;> simp [lexFuel, bondChars]

theorem lex_digit (f : Nat) (c : Nat) (R : Str) (h : c < 10) :
    lexFuel (f + 1) ((48 + c) :: R) = (lexFuel f R).map (LTok.closure c :: ·) := by
  have e : ∀ k, k ∉ [48,49,50,51,52,53,54,55,56,57] → (48 + c == k) = false := by
    intro k hk; simp at hk ⊢; omega
  have hb : 48 + c ∉ bondChars := by simp [bondChars]; omega
  have hd : isDigit (48 + c) = true := by simp [isDigit]; omega
  simp [lexFuel, e, hb, hd]

theorem lex_percent (f : Nat) (c : Nat) (R : Str) (h1 : 10 ≤ c) (h2 : c < 100) :
    lexFuel (f + 1) (37 :: (48 + c / 10) :: (48 + c % 10) :: R) = (lexFuel f R).map (LTok.closure c :: ·) := by
  have e1 : 48 + c / 10 ≤ 57 := by omega
  have e2 : 48 + c % 10 ≤ 57 := by omega
  have e3 : c / 10 * 10 + c % 10 = c := by omega
  simp [lexFuel, bondChars, isDigit, e1, e2, e3]

theorem lex_bracket (f : Nat) (inner R : Str) (h : ¬ 93 ∈ inner) :
    lexFuel (f + 1) (91 :: (inner ++ 93 :: R)) = (lexFuel f R).map (LTok.bracket inner :: ·) := by
  simp [lexFuel, spanBracket_append inner R h]

/-- `l` / `r` never start a token, so `C`/`B` are never glued to the next token -/
def NoLR (R : Str) : Prop := ∀ x, R.head? = some x → x ≠ 108 ∧ x ≠ 114

theorem lex_plain (f : Nat) (sym R : Str) (hs : sym ∈ plainSyms) (hR : NoLR R) :
    lexFuel (f + 1) (sym ++ R) = (lexFuel f R).map (LTok.plain sym :: ·) := by
  simp only [plainSyms, List.mem_cons, List.not_mem_nil, or_false] at hs
  rcases hs with rfl | rfl | rfl | rfl | rfl | rfl | rfl | rfl | rfl | rfl | rfl | rfl | rfl | rfl | rfl | rfl
  case inr.inr.inl =>  -- C
    cases R with
    | nil => simp [lexFuel, bondChars, isDigit]
    | cons x xs =>
      have := hR x (by simp)
      simp only [List.cons_append, List.nil_append, lexFuel]
      simp [bondChars, isDigit]
      split
      · rename_i heq; simp at heq; exact absurd heq.1 this.1
      · rfl
  case inl =>  -- B
    cases R with
    | nil => simp [lexFuel, bondChars, isDigit]
    | cons x xs =>
      have := hR x (by simp)
      simp only [List.cons_append, List.nil_append, lexFuel]
      simp [bondChars, isDigit]
      split
      · rename_i heq; simp at heq; exact absurd heq.1 this.2
      · rfl
  all_goals simp [lexFuel, bondChars, isDigit, plainChars]

theorem noLR_of_head (x : Nat) (R : Str) (h1 : x ≠ 108) (h2 : x ≠ 114) : NoLR (x :: R) := by
  intro y hy; simp at hy; subst hy; exact ⟨h1, h2⟩

theorem renderAll_cons (t : WTok) (ts : List WTok) : renderAll (t :: ts) = t.render ++ renderAll ts := by
  simp [renderAll]

theorem renderAll_noLR : ∀ (ts : List WTok), (∀ t ∈ ts, tokOk t = true) → NoLR (renderAll ts) := by
  intro ts
  induction ts with
  | nil => intro _ x hx; simp [renderAll] at hx
  | cons t tl ih =>
    intro hok
    have hT := hok t (by simp)
    have ihT := ih (fun t' ht' => hok t' (by simp [ht']))
    rw [renderAll_cons]
    cases t with
    | atom n a =>
      simp only [tokOk] at hT
      by_cases hb : a.bracket = true
      · simp only [WTok.render, render_bracket a hb, List.cons_append]
        exact noLR_of_head _ _ (by decide) (by decide)
      · simp only [hb, Bool.false_eq_true, if_false, Bool.and_eq_true, Option.isNone_iff_eq_none, beq_iff_eq,
          List.isEmpty_iff] at hT
        obtain ⟨⟨⟨⟨⟨hs, h1⟩, h2⟩, h3⟩, h4⟩, h5⟩ := hT
        simp only [WTok.render, render_plain a (by simpa using hb) h1 h2 h3 h4 h5]
        simp only [plainSyms, List.contains_eq_mem, List.mem_cons, List.not_mem_nil, or_false, decide_eq_true_eq] at hs
        rcases hs with h | h | h | h | h | h | h | h | h | h | h | h | h | h | h | h <;> rw [h] <;>
          exact noLR_of_head _ _ (by decide) (by decide)
    | bond s =>
      simp only [tokOk, Bool.or_eq_true, List.isEmpty_iff, Bool.and_eq_true, beq_iff_eq, List.all_eq_true] at hT
      rcases hT with rfl | ⟨hl, hc⟩
      · simpa [WTok.render] using ihT
      · match s, hl with
        | [c], _ =>
          have hcb := hc c (by simp)
          have : c = 45 ∨ c = 61 ∨ c = 35 ∨ c = 58 ∨ c = 126 ∨ c = 47 ∨ c = 92 := by simpa [bondChars] using hcb
          simp only [WTok.render, List.cons_append, List.nil_append]
          rcases this with rfl | rfl | rfl | rfl | rfl | rfl | rfl <;> exact noLR_of_head _ _ (by decide) (by decide)
    | closure c =>
      simp only [tokOk, decide_eq_true_eq] at hT
      by_cases h10 : c < 10
      · have : formatClosure c = [48 + c] := by
          simp [formatClosure, ChythonModel.Gen.C02.closurePercentFrom, h10, natStr_small c h10]
        simp only [WTok.render, this, List.cons_append, List.nil_append]
        exact noLR_of_head _ _ (by omega) (by omega)
      · have : formatClosure c = 37 :: natStr c := by
          simp [formatClosure, ChythonModel.Gen.C02.closurePercentFrom, ChythonModel.Gen.C02.closurePrefix, h10]
        simp only [WTok.render, this, List.cons_append]
        exact noLR_of_head _ _ (by decide) (by decide)
    | lpar => simp only [WTok.render, List.cons_append, List.nil_append]; exact noLR_of_head _ _ (by decide) (by decide)
    | rpar => simp only [WTok.render, List.cons_append, List.nil_append]; exact noLR_of_head _ _ (by decide) (by decide)
    | dot => simp only [WTok.render, List.cons_append, List.nil_append]; exact noLR_of_head _ _ (by decide) (by decide)

theorem lexFuel_render : ∀ (ts : List WTok), (∀ t ∈ ts, tokOk t = true) →
    ∀ fuel, (renderAll ts).length ≤ fuel → lexFuel fuel (renderAll ts) = some (ts.filterMap toL) := by
  intro ts
  induction ts with
  | nil => intro _ fuel _; cases fuel <;> simp [renderAll, lexFuel]
  | cons t tl ih =>
    intro hok fuel hfuel
    have hT := hok t (by simp)
    have hokT : ∀ t' ∈ tl, tokOk t' = true := fun t' ht' => hok t' (by simp [ht'])
    have hLR := renderAll_noLR tl hokT
    rw [renderAll_cons] at hfuel ⊢
    cases t with
    | atom n a =>
      simp only [tokOk] at hT
      by_cases hb : a.bracket = true
      · simp only [hb, if_true, Bool.not_eq_true', List.contains_eq_mem, decide_eq_false_iff_not] at hT
        simp only [WTok.render, render_bracket a hb, List.cons_append, List.append_assoc, List.nil_append,
          List.length_cons, List.length_append] at hfuel ⊢
        obtain ⟨f, rfl⟩ : ∃ f, fuel = f + 1 := ⟨fuel - 1, by omega⟩
        rw [lex_bracket f _ _ hT, ih hokT f (by omega)]
        simp [toL, hb]
      · simp only [hb, Bool.false_eq_true, if_false, Bool.and_eq_true, Option.isNone_iff_eq_none, beq_iff_eq,
          List.isEmpty_iff] at hT
        obtain ⟨⟨⟨⟨⟨hs, h1⟩, h2⟩, h3⟩, h4⟩, h5⟩ := hT
        have hs' : a.symbol ∈ plainSyms := by simpa using hs
        have hne : a.symbol ≠ [] := by
          intro e; rw [e] at hs'; simp [plainSyms] at hs'
        simp only [WTok.render, render_plain a (by simpa using hb) h1 h2 h3 h4 h5, List.length_append] at hfuel ⊢
        have : 0 < a.symbol.length := List.length_pos_iff.mpr hne
        obtain ⟨f, rfl⟩ : ∃ f, fuel = f + 1 := ⟨fuel - 1, by omega⟩
        rw [lex_plain f _ _ hs' hLR, ih hokT f (by omega)]
        simp [toL, hb]
    | bond s =>
      simp only [tokOk, Bool.or_eq_true, List.isEmpty_iff, Bool.and_eq_true, beq_iff_eq, List.all_eq_true] at hT
      rcases hT with rfl | ⟨hl, hc⟩
      · simp only [WTok.render, List.nil_append] at hfuel ⊢
        rw [ih hokT fuel hfuel]; simp [List.filterMap_cons, toL]
      · match s, hl with
        | [c], _ =>
          simp only [WTok.render, List.cons_append, List.nil_append, List.length_cons] at hfuel ⊢
          obtain ⟨f, rfl⟩ : ∃ f, fuel = f + 1 := ⟨fuel - 1, by omega⟩
          rw [lex_bond f c _ (hc c (by simp)), ih hokT f (by omega)]
          simp [toL]
    | closure c =>
      simp only [tokOk, decide_eq_true_eq] at hT
      by_cases h10 : c < 10
      · have : formatClosure c = [48 + c] := by
          simp [formatClosure, ChythonModel.Gen.C02.closurePercentFrom, h10, natStr_small c h10]
        simp only [WTok.render, this, List.cons_append, List.nil_append, List.length_cons] at hfuel ⊢
        obtain ⟨f, rfl⟩ : ∃ f, fuel = f + 1 := ⟨fuel - 1, by omega⟩
        rw [lex_digit f c _ h10, ih hokT f (by omega)]
        simp [toL]
      · have : formatClosure c = [37, 48 + c / 10, 48 + c % 10] := by
          simp [formatClosure, ChythonModel.Gen.C02.closurePercentFrom, ChythonModel.Gen.C02.closurePrefix, h10,
            natStr_two c (by omega) hT]
        simp only [WTok.render, this, List.cons_append, List.nil_append, List.length_cons] at hfuel ⊢
        obtain ⟨f, rfl⟩ : ∃ f, fuel = f + 1 := ⟨fuel - 1, by omega⟩
        rw [lex_percent f c _ (by omega) hT, ih hokT f (by omega)]
        simp [toL]
    | lpar =>
      simp only [WTok.render, List.cons_append, List.nil_append, List.length_cons] at hfuel ⊢
      obtain ⟨f, rfl⟩ : ∃ f, fuel = f + 1 := ⟨fuel - 1, by omega⟩
      rw [lex_lpar, ih hokT f (by omega)]; simp [toL]
    | rpar =>
      simp only [WTok.render, List.cons_append, List.nil_append, List.length_cons] at hfuel ⊢
      obtain ⟨f, rfl⟩ : ∃ f, fuel = f + 1 := ⟨fuel - 1, by omega⟩
      rw [lex_rpar, ih hokT f (by omega)]; simp [toL]
    | dot =>
      simp only [WTok.render, List.cons_append, List.nil_append, List.length_cons] at hfuel ⊢
      obtain ⟨f, rfl⟩ : ∃ f, fuel = f + 1 := ⟨fuel - 1, by omega⟩
      rw [lex_dot, ih hokT f (by omega)]; simp [toL]

/-- lexing the concatenation of the writer's tokens gives back exactly the tokens -/
theorem lex_render (ts : List WTok) (hok : ∀ t ∈ ts, tokOk t = true) :
    lex (renderAll ts) = some (ts.filterMap toL) :=
  lexFuel_render ts hok _ (Nat.le_refl _)


end ChythonModel.Proofs.C02
