import ChythonModel.Model.C03Front
/-!
# C03 — atom numbering from atom maps (`_mapping.py:postprocess_parsed_molecule`) (helper lemmas)
-/
set_option linter.unusedSimpArgs false
namespace ChythonModel.Proofs.C03
open ChythonModel.Model.C03

theorem le_maxList_aux : ∀ (l : List Nat) (acc x : Nat), (x ≤ acc ∨ x ∈ l) → x ≤ l.foldl max acc
  | [], acc, x, h => by
    rcases h with h | h
    · exact h
    · cases h
  | y :: tl, acc, x, h => by
    simp only [List.foldl_cons]
    apply le_maxList_aux tl (max acc y) x
    rcases h with h | h
    · exact Or.inl (Nat.le_trans h (Nat.le_max_left _ _))
    · simp only [List.mem_cons] at h
      rcases h with rfl | h
      · exact Or.inl (Nat.le_max_right _ _)
      · exact Or.inr h

theorem le_maxList (l : List Nat) (x : Nat) (h : x ∈ l) : x ≤ maxList l := le_maxList_aux l 0 x (Or.inr h)

/-- the renumbering loop: numbers are pairwise distinct, never collide with already used ones, a fresh non-zero atom
    map is kept as the atom number, everything else gets a number above every atom map -/
theorem remapLoop_spec : ∀ (ms used : List Nat) (next : Nat), (∀ m ∈ ms, m < next) → (∀ u ∈ used, u < next) →
    (remapLoop ms used next).1.Nodup ∧
    (∀ x ∈ (remapLoop ms used next).1, x ∉ used ∧ (x ∈ ms ∨ next ≤ x)) ∧
    (∀ m tl, ms = m :: tl → m ≠ 0 → m ∉ used → (remapLoop ms used next).1.head? = some m)
  | [], used, next, _, _ => ⟨List.nodup_nil, by simp [remapLoop], by intro m tl h; cases h⟩
  | m :: tl, used, next, hms, hus => by
    unfold remapLoop
    by_cases hc : (m == 0 || used.contains m) = true
    · rw [if_pos hc]
      obtain ⟨ih1, ih2, _⟩ := remapLoop_spec tl used (next + 1)
        (fun x hx => Nat.lt_succ_of_lt (hms x (by simp [hx]))) (fun u hu => Nat.lt_succ_of_lt (hus u hu))
      refine ⟨?_, ?_, ?_⟩
      · simp only [List.nodup_cons]
        refine ⟨?_, ih1⟩
        intro hin
        rcases (ih2 next hin).2 with h | h
        · exact absurd (hms next (by simp [h])) (Nat.lt_irrefl _)
        · exact absurd h (Nat.not_succ_le_self _)
      · intro x hx
        simp only [List.mem_cons] at hx
        rcases hx with rfl | hx
        · exact ⟨fun hu => absurd (hus _ hu) (Nat.lt_irrefl _), Or.inr (Nat.le_refl _)⟩
        · obtain ⟨h1, h2⟩ := ih2 x hx
          refine ⟨h1, ?_⟩
          rcases h2 with h2 | h2
          · exact Or.inl (by simp [h2])
          · exact Or.inr (Nat.le_of_succ_le h2)
      · intro m' tl' heq hne hnu
        cases heq
        simp only [Bool.or_eq_true, beq_iff_eq, List.contains_iff_mem] at hc
        rcases hc with hc | hc
        · exact absurd hc hne
        · exact absurd hc hnu
    · rw [if_neg hc]
      simp only [Bool.or_eq_true, beq_iff_eq, List.contains_iff_mem, not_or] at hc
      obtain ⟨ih1, ih2, _⟩ := remapLoop_spec tl (m :: used) next
        (fun x hx => hms x (by simp [hx])) (fun u hu => by
          simp only [List.mem_cons] at hu
          rcases hu with rfl | hu
          · exact hms _ (by simp)
          · exact hus u hu)
      refine ⟨?_, ?_, ?_⟩
      · simp only [List.nodup_cons]
        refine ⟨?_, ih1⟩
        intro hin
        exact (ih2 m hin).1 (by simp)
      · intro x hx
        simp only [List.mem_cons] at hx
        rcases hx with rfl | hx
        · exact ⟨hc.2, Or.inl (by simp)⟩
        · obtain ⟨h1, h2⟩ := ih2 x hx
          refine ⟨fun hu => h1 (by simp [hu]), ?_⟩
          rcases h2 with h2 | h2
          · exact Or.inl (by simp [h2])
          · exact Or.inr h2
      · intro m' tl' heq _ _
        cases heq
        rfl

/-- an atom map that is non-zero and not used by an earlier atom is kept as the number of its atom -/
theorem remapLoop_keeps : ∀ (ms used : List Nat) (next i m : Nat), ms[i]? = some m → m ≠ 0 → m ∉ used →
    m ∉ ms.take i → (remapLoop ms used next).1[i]? = some m
  | [], _, _, _, _, h, _, _, _ => by simp at h
  | m0 :: tl, used, next, 0, m, h, hne, hnu, _ => by
    simp only [List.getElem?_cons_zero, Option.some.injEq] at h
    subst h
    unfold remapLoop
    have : ¬ ((m0 == 0 || used.contains m0) = true) := by
      simp [hne, hnu]
    rw [if_neg this]
    rfl
  | m0 :: tl, used, next, i+1, m, h, hne, hnu, hnt => by
    simp only [List.getElem?_cons_succ] at h
    simp only [List.take_succ_cons, List.mem_cons, not_or] at hnt
    unfold remapLoop
    split
    · simp only [List.getElem?_cons_succ]
      exact remapLoop_keeps tl used (next + 1) i m h hne hnu hnt.2
    · simp only [List.getElem?_cons_succ]
      exact remapLoop_keeps tl (m0 :: used) next i m h hne (by
        simp only [List.mem_cons, not_or]; exact ⟨hnt.1, hnu⟩) hnt.2

theorem remapLoop_length' : ∀ (ms used : List Nat) (next : Nat), (remapLoop ms used next).1.length = ms.length
  | [], _, _ => rfl
  | m :: tl, used, next => by
    unfold remapLoop
    split
    · simp [remapLoop_length' tl used (next + 1)]
    · simp [remapLoop_length' tl (m :: used) next]

/-- **numbering of a molecule**: one number per atom, pairwise distinct, all positive; an atom whose atom map is
    non-zero and not used by an earlier atom gets that map as its number -/
theorem mapMolecule_spec (r r' : MolRec) (h : mapMolecule r = .ok r') :
    r'.atoms = r.atoms ∧ r'.mapping.length = r.atoms.length ∧ r'.mapping.Nodup ∧ (∀ x ∈ r'.mapping, 0 < x) ∧
    (∀ i m, (r.atoms.map mapOr0)[i]? = some m → m ≠ 0 → m ∉ (r.atoms.map mapOr0).take i → r'.mapping[i]? = some m) := by
  unfold mapMolecule at h
  split at h
  · cases h
  · cases h
    have hlt : ∀ m ∈ r.atoms.map mapOr0, m < maxList (r.atoms.map mapOr0) + 1 :=
      fun m hm => Nat.lt_succ_of_le (le_maxList _ m hm)
    obtain ⟨h1, h2, _⟩ := remapLoop_spec (r.atoms.map mapOr0) [] (maxList (r.atoms.map mapOr0) + 1) hlt (by simp)
    refine ⟨rfl, by simp [remapLoop_length'], h1, ?_, ?_⟩
    · intro x hx
      rcases (h2 x hx).2 with hm | hm
      · -- a kept atom map: it is non-zero because zero maps are renumbered … or a fresh number above the maximum
        by_cases h0 : x = 0
        · subst h0
          -- 0 is never kept: every number in the result is an atom map that passed `m != 0`, or ≥ next ≥ 1
          exfalso
          have : ∀ (ms used : List Nat) (next : Nat), 0 < next → (0 : Nat) ∉ (remapLoop ms used next).1 := by
            intro ms
            induction ms with
            | nil => intro used next _; simp [remapLoop]
            | cons m tl ih =>
              intro used next hn
              unfold remapLoop
              split
              · simp only [List.mem_cons, not_or]
                exact ⟨by omega, ih used (next + 1) (by omega)⟩
              · rename_i hc
                simp only [Bool.or_eq_true, beq_iff_eq, not_or] at hc
                simp only [List.mem_cons, not_or]
                exact ⟨fun h => hc.1 h.symm, ih (m :: used) next hn⟩
          exact this _ _ _ (Nat.succ_pos _) hx
        · exact Nat.pos_of_ne_zero h0
      · exact Nat.lt_of_lt_of_le (Nat.succ_pos _) hm
    · intro i m hi hne hnt
      exact remapLoop_keeps _ [] _ i m hi hne (by simp) hnt

end ChythonModel.Proofs.C03
