import ChythonModel.Proofs.C19Counts
import ChythonModel.Proofs.C19Refine
/-!
# C19 — operations with a second operand: `set_merge` (copy / update / union), intersection, difference
-/
namespace ChythonModel.Py.IntSet
open ChythonModel.Spec.PySet

/-- the full invariant of a model set -/
def Inv (s : IntSet) : Prop := TWF s.table ∧ Counts s

theorem empty_inv : Inv empty := ⟨empty_spec.1, empty_counts⟩

/-- a set whose `fill` is 0 has a virgin table -/
theorem virgin_of_fill_zero {s : IntSet} (h : Counts s) (hf : s.fill = 0) :
    NoDummy s.table ∧ ∀ x, ¬ Mem s.table x := by
  have hz : nFill s.table = 0 := h.2 ▸ hf
  constructor
  · intro j hj
    have := all_empty_of_nFill_zero hz hj
    simp at this
  · rintro x ⟨j, hj⟩
    have := all_empty_of_nFill_zero hz hj
    simp at this

theorem add_inv {s s' : IntSet} {k : Int} (h : Inv s) (ha : s.add k = some s') : Inv s' :=
  ⟨(add_spec h.1 ha).1, add_counts h.2 ha⟩

theorem addAll_inv {s s' : IntSet} {ks : List Int} (h : Inv s) (ha : s.addAll ks = some s') : Inv s' :=
  ⟨(addAll_spec ks h.1 ha).1, addAll_counts ks h.2 ha⟩

theorem presize_inv {s s' : IntSet} {n : Nat} (h : Inv s) (ha : s.presize n = some s') : Inv s' :=
  ⟨(presize_spec h.1 ha).1, presize_counts h.2 ha⟩

theorem differenceUpdate_inv {s s' : IntSet} {ks : List Int} (h : Inv s) (ha : s.differenceUpdate ks = some s') : Inv s' :=
  ⟨(differenceUpdate_spec h.1 ha).1, differenceUpdate_counts h.2 ha⟩

theorem nActive_zero_of_no_mem {t : Array Slot} (hv : ∀ x, ¬ Mem t x) : nActive t = 0 := by
  rcases Nat.eq_zero_or_pos (nActive t) with h | hpos
  · exact h
  · exfalso
    unfold nActive at hpos
    obtain ⟨a, ha, hp⟩ := List.countP_pos_iff.1 hpos
    obtain ⟨j, hj, e⟩ := List.mem_iff_getElem.1 ha
    cases a <;> simp [isActive] at hp
    rename_i k
    refine hv k ⟨j, ?_⟩
    simp at hj
    rw [Array.getElem?_eq_getElem hj]
    simp at e
    simp [e]

/-- `set_merge`: all three paths give the union -/
theorem merge_spec {so other r : IntSet} (h : Inv so) (ho : Inv other) (hm : so.merge other = some r) :
    Inv r ∧ ∀ x, Mem r.table x ↔ (Mem so.table x ∨ Mem other.table x) := by
  unfold IntSet.merge at hm
  split at hm
  · rename_i hu
    simp at hm; subst hm
    have hn := not_mem_of_nActive_zero (ho.2.1 ▸ hu)
    exact ⟨h, fun x => ⟨Or.inl, fun hx => hx.elim id (fun hx => absurd hx (hn x))⟩⟩
  · split at hm
    · simp at hm
    · rename_i so1 h1
      have i1 := presize_inv h h1
      have m1 := (presize_spec h.1 h1).2
      split at hm
      · rename_i hc
        simp at hm; subst hm
        obtain ⟨_, hv⟩ := virgin_of_fill_zero i1.2 hc.1
        refine ⟨⟨ho.1, ho.2⟩, fun x => ⟨Or.inr, ?_⟩⟩
        rintro (hx | hx)
        · exact absurd ((m1 x).2 hx) (hv x)
        · exact hx
      · split at hm
        · rename_i hf
          split at hm
          · simp at hm
          · rename_i t ht
            simp at hm; subst hm
            obtain ⟨hd, hv⟩ := virgin_of_fill_zero i1.2 hf
            obtain ⟨a1, _, _, a4⟩ := insertCleanAll_spec _ i1.1 hd (nodup_activeKeys ho.1) (fun k _ => hv k) ht
            obtain ⟨c1, c2⟩ := insertCleanAll_counts _ ht
            have z1 : nActive so1.table = 0 := nActive_zero_of_no_mem hv
            have z2 : nFill so1.table = 0 := i1.2.2 ▸ hf
            rw [z1, activeKeys_length, ← ho.2.1] at c1
            rw [z2, activeKeys_length, ← ho.2.1] at c2
            refine ⟨⟨a1, ⟨(by omega : other.used = nActive t), (by omega : other.used = nFill t)⟩⟩, fun x => ?_⟩
            rw [a4 x, mem_activeKeys]
            constructor
            · rintro (hx | hx)
              · exact Or.inr hx
              · exact absurd hx (hv x)
            · rintro (hx | hx)
              · exact absurd ((m1 x).2 hx) (hv x)
              · exact Or.inl hx
        · obtain ⟨a1, a2⟩ := addAll_spec _ i1.1 hm
          refine ⟨⟨a1, addAll_counts _ i1.2 hm⟩, fun x => ?_⟩
          rw [a2 x, mem_activeKeys, m1 x]
          exact Or.comm

theorem copy_spec {s r : IntSet} (h : Inv s) (hc : s.copy = some r) : Inv r ∧ ∀ x, Mem r.table x ↔ Mem s.table x := by
  obtain ⟨a1, a2⟩ := merge_spec empty_inv h hc
  refine ⟨a1, fun x => ?_⟩
  rw [a2 x]
  exact ⟨fun hx => hx.elim (fun hx => absurd hx (empty_spec.2 x)) id, Or.inr⟩

theorem union_spec {a b r : IntSet} (ha : Inv a) (hb : Inv b) (hu : a.union b = some r) :
    Inv r ∧ ∀ x, Mem r.table x ↔ aUnion (Mem a.table) (Mem b.table) x := by
  unfold IntSet.union at hu
  split at hu
  · simp at hu
  · rename_i c hc
    obtain ⟨c1, c2⟩ := copy_spec ha hc
    obtain ⟨d1, d2⟩ := merge_spec c1 hb hu
    exact ⟨d1, fun x => by rw [d2 x, c2 x]; rfl⟩

/-- an operand seen through its iteration order and membership test denotes the abstract set `A` -/
def View.Denotes (v : View) (A : ASet) : Prop :=
  (∀ x, x ∈ v.order ↔ A x) ∧ ∀ x b, v.has x = some b → (b = true ↔ A x)

theorem view_denotes {s : IntSet} (h : Inv s) : s.view.Denotes (Mem s.table) :=
  ⟨fun _ => mem_activeKeys, fun _ _ hb => contains_spec h.1 hb⟩

theorem ofList_denotes (ks : List Int) : (View.ofList ks).Denotes (· ∈ ks) := by
  refine ⟨fun _ => Iff.rfl, fun x b hb => ?_⟩
  simp [View.ofList] at hb
  subst hb
  simp

theorem addFiltered_spec {has : Int → Option Bool} {P : ASet} (hP : ∀ x b, has x = some b → (b = true ↔ P x)) (keep : Bool) :
    ∀ (ks : List Int) {r r' : IntSet}, Inv r → addFiltered has keep r ks = some r' →
      Inv r' ∧ ∀ x, Mem r'.table x ↔ ((x ∈ ks ∧ (P x ↔ keep = true)) ∨ Mem r.table x) := by
  intro ks
  induction ks with
  | nil => intro r r' h ha; simp [addFiltered] at ha; subst ha; exact ⟨h, by simp⟩
  | cons k ks ih =>
    intro r r' h ha
    unfold addFiltered at ha
    split at ha
    · simp at ha
    · rename_i b hb
      have hb' := hP k b hb
      split at ha
      · rename_i hk
        have hk' : b = keep := by simpa using hk
        split at ha
        · simp at ha
        · rename_i r1 h1
          obtain ⟨a1, a2⟩ := ih (add_inv h h1) ha
          have a3 := (add_spec h.1 h1).2
          refine ⟨a1, fun x => ?_⟩
          rw [a2 x, a3 x]
          simp only [List.mem_cons]
          constructor
          · rintro (⟨h1, h2⟩ | h1 | h1)
            · exact Or.inl ⟨Or.inr h1, h2⟩
            · subst h1; exact Or.inl ⟨Or.inl rfl, by rw [← hb', hk']⟩
            · exact Or.inr h1
          · rintro (⟨h1 | h1, h2⟩ | h1)
            · exact Or.inr (Or.inl h1)
            · exact Or.inl ⟨h1, h2⟩
            · exact Or.inr (Or.inr h1)
      · rename_i hk
        have hk' : b ≠ keep := by simpa using hk
        obtain ⟨a1, a2⟩ := ih h ha
        refine ⟨a1, fun x => ?_⟩
        rw [a2 x]
        simp only [List.mem_cons]
        constructor
        · rintro (⟨h1, h2⟩ | h1)
          · exact Or.inl ⟨Or.inr h1, h2⟩
          · exact Or.inr h1
        · rintro (⟨h1 | h1, h2⟩ | h1)
          · subst h1
            exfalso
            apply hk'
            rw [← hb'] at h2
            cases b <;> cases keep <;> simp_all
          · exact Or.inl ⟨h1, h2⟩
          · exact Or.inr h1

theorem interSet_spec {so other : View} {A B : ASet} (ha : so.Denotes A) (hb : other.Denotes B) {r : IntSet}
    (hi : interSet so other = some r) : Inv r ∧ ∀ x, Mem r.table x ↔ aInter A B x := by
  unfold interSet at hi
  split at hi
  rename_i so' other' hsw
  split at hsw
  · simp at hsw
    obtain ⟨e1, e2⟩ := hsw
    subst e1 e2
    obtain ⟨a1, a2⟩ := addFiltered_spec hb.2 true _ empty_inv hi
    refine ⟨a1, fun x => ?_⟩
    rw [a2 x, ha.1 x]
    simp only [aInter]
    constructor
    · rintro (⟨h1, h2⟩ | h1)
      · exact ⟨h1, h2.2 (by simp)⟩
      · exact absurd h1 (empty_spec.2 x)
    · rintro ⟨h1, h2⟩; exact Or.inl ⟨h1, fun _ => (by simp), fun _ => h2⟩
  · simp at hsw
    obtain ⟨e1, e2⟩ := hsw
    subst e1 e2
    obtain ⟨a1, a2⟩ := addFiltered_spec ha.2 true _ empty_inv hi
    refine ⟨a1, fun x => ?_⟩
    rw [a2 x, hb.1 x]
    simp only [aInter]
    constructor
    · rintro (⟨h1, h2⟩ | h1)
      · exact ⟨h2.2 (by simp), h1⟩
      · exact absurd h1 (empty_spec.2 x)
    · rintro ⟨h1, h2⟩; exact Or.inl ⟨h2, fun _ => (by simp), fun _ => h1⟩

theorem interIter_spec {so : View} {A : ASet} (ha : so.Denotes A) (ks : List Int) {r : IntSet}
    (hi : interIter so ks = some r) : Inv r ∧ ∀ x, Mem r.table x ↔ aInter A (· ∈ ks) x := by
  unfold interIter at hi
  obtain ⟨a1, a2⟩ := addFiltered_spec ha.2 true _ empty_inv hi
  refine ⟨a1, fun x => ?_⟩
  rw [a2 x]
  simp only [aInter]
  constructor
  · rintro (⟨h1, h2⟩ | h1)
    · exact ⟨h2.2 (by simp), h1⟩
    · exact absurd h1 (empty_spec.2 x)
  · rintro ⟨h1, h2⟩; exact Or.inl ⟨h2, fun _ => (by simp), fun _ => h1⟩

theorem difference_spec {so : IntSet} {other : View} {B : ASet} (h : Inv so) (hb : other.Denotes B) (sized : Bool)
    {r : IntSet} (hd : so.difference other sized = some r) : Inv r ∧ ∀ x, Mem r.table x ↔ aDiff (Mem so.table) B x := by
  unfold IntSet.difference at hd
  split at hd
  · split at hd
    · simp at hd
    · rename_i c hc
      obtain ⟨c1, c2⟩ := copy_spec h hc
      refine ⟨differenceUpdate_inv c1 hd, fun x => ?_⟩
      rw [(differenceUpdate_spec c1.1 hd).2 x, c2 x, hb.1 x]
      rfl
  · obtain ⟨a1, a2⟩ := addFiltered_spec hb.2 false _ empty_inv hd
    refine ⟨a1, fun x => ?_⟩
    rw [a2 x]
    simp only [aDiff]
    constructor
    · rintro (⟨h1, h2⟩ | h1)
      · refine ⟨mem_activeKeys.1 h1, fun hB => ?_⟩
        have := h2.1 hB
        simp at this
      · exact absurd h1 (empty_spec.2 x)
    · rintro ⟨h1, h2⟩
      exact Or.inl ⟨mem_activeKeys.2 h1, fun hB => absurd hB h2, fun e => by simp at e⟩

/-! ### histories, with the counters: the observations are the legal ones -/

theorem stepOp_inv {s s' : IntSet} {A : ASet} {op : SetOp} {o : Obs} (h : Represents s A) (hc : Counts s)
    (hs : s.stepOp op = some (s', o)) : Counts s' ∧ obsLegal A op o := by
  obtain ⟨hw, hm⟩ := h
  cases op with
  | add k =>
    simp only [IntSet.stepOp, Option.map_eq_some_iff, Prod.mk.injEq] at hs
    obtain ⟨s1, h1, e1, e2⟩ := hs
    subst e1 e2
    exact ⟨add_counts hc h1, rfl⟩
  | discard k =>
    simp only [IntSet.stepOp, Option.map_eq_some_iff, Prod.mk.injEq] at hs
    obtain ⟨⟨s1, b⟩, h1, e1, e2⟩ := hs
    simp only at e1
    subst e1 e2
    exact ⟨discard_counts hc h1, rfl⟩
  | pop =>
    simp only [IntSet.stepOp] at hs
    split at hs
    · simp at hs
    · rename_i hp
      simp at hs
      obtain ⟨e1, e2⟩ := hs
      subst e1 e2
      exact ⟨hc, fun x hx => pop_keyError hc hp x ((hm x).2 hx)⟩
    · rename_i k s1 hp
      simp at hs
      obtain ⟨e1, e2⟩ := hs
      subst e1 e2
      exact ⟨pop_counts hc hp, (hm _).1 (pop_spec hw hp).1⟩
  | clear =>
    simp only [IntSet.stepOp, Option.some.injEq, Prod.mk.injEq] at hs
    obtain ⟨e1, e2⟩ := hs
    subst e1 e2
    exact ⟨clear_counts s, rfl⟩
  | updateIter ks =>
    simp only [IntSet.stepOp, Option.map_eq_some_iff, Prod.mk.injEq] at hs
    obtain ⟨s1, h1, e1, e2⟩ := hs
    subst e1 e2
    exact ⟨addAll_counts ks hc h1, rfl⟩
  | updateDict ks =>
    simp only [IntSet.stepOp, Option.map_eq_some_iff, Prod.mk.injEq] at hs
    obtain ⟨s1, h1, e1, e2⟩ := hs
    subst e1 e2
    exact ⟨updateDict_counts hc h1, rfl⟩
  | differenceUpdate ks =>
    simp only [IntSet.stepOp, Option.map_eq_some_iff, Prod.mk.injEq] at hs
    obtain ⟨s1, h1, e1, e2⟩ := hs
    subst e1 e2
    exact ⟨differenceUpdate_counts hc h1, rfl⟩

theorem runOps_full : ∀ (ops : List SetOp) {s s' : IntSet} {A : ASet} {os : List Obs}, Represents s A → Counts s →
    s.runOps ops = some (s', os) → Represents s' (absRun A ops os) ∧ Counts s' ∧ obsLegalRun A ops os := by
  intro ops
  induction ops with
  | nil =>
    intro s s' A os h hc hr
    simp [IntSet.runOps] at hr
    obtain ⟨e1, e2⟩ := hr
    subst e1 e2
    exact ⟨h, hc, trivial⟩
  | cons op ops ih =>
    intro s s' A os h hc hr
    unfold IntSet.runOps at hr
    split at hr
    · simp at hr
    · rename_i s1 o h1
      split at hr
      · simp at hr
      · rename_i s2 os2 h2
        simp at hr
        obtain ⟨e1, e2⟩ := hr
        subst e1 e2
        obtain ⟨c1, l1⟩ := stepOp_inv h hc h1
        obtain ⟨r1, r2, r3⟩ := ih (stepOp_represents h h1).1 c1 h2
        exact ⟨r1, r2, l1, r3⟩

/-- the final set of a history from the empty set satisfies the full invariant -/
theorem inv_of_history {ops : List SetOp} {s : IntSet} {os : List Obs} (h : empty.runOps ops = some (s, os)) : Inv s := by
  obtain ⟨r, c, _⟩ := runOps_full ops empty_represents empty_counts h
  exact ⟨r.1, c⟩

/-- the set a history builds, for examples (`empty` if the run were undefined) -/
def built (ops : List SetOp) : IntSet := ((empty.runOps ops).map (·.1)).getD empty

theorem built_inv (ops : List SetOp) : Inv (built ops) := by
  unfold built
  cases h : empty.runOps ops with
  | none => exact empty_inv
  | some r => exact inv_of_history (s := r.1) (os := r.2) h

/-- two concrete sets with history (a resize, a dummy, a pop; a dict presize, a key ≥ 2⁶¹, a negative key) -/
def exampleA : IntSet := built [.updateIter [1, 9, 17, 25, 33, 2], .discard 9, .pop]
def exampleB : IntSet := built [.updateDict [33, -4, 2 ^ 61, 7], .add 40]

end ChythonModel.Py.IntSet
