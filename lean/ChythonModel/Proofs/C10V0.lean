import ChythonModel.Proofs.C10Layout3
/-!
# C10: version-0 bond-order block
-/
namespace ChythonModel.Proofs.C10
open ChythonModel.Model.Pack ChythonModel.Spec.PackLayout

theorem v0_bytes {c0 c1 c2 c3 c4 : Nat} (h0 : c0 < 8) (h1 : c1 < 8) (h2 : c2 < 8) (h3 : c3 < 8) (h4 : c4 < 8) :
    v0Group c0 c1 c2 c3 c4 = [c0 * 16 + c1 * 2 + c2 / 4, (c2 % 4) * 64 + c3 * 8 + c4] := by
  simp only [v0Group]
  fields_eval
  rw [toBE2]
  congr 1
  · omega
  congr 1
  omega

theorem v0_dec_a : ∀ c0 < 8, ∀ c1 < 8, ∀ h < 2,
    (c0 * 16 + c1 * 2 + h) >>> 4 = c0 ∧ ((c0 * 16 + c1 * 2 + h) >>> 1) &&& 0x7 = c1 ∧ (c0 * 16 + c1 * 2 + h) &&& 0x1 = h := by
  decide +kernel

set_option synthInstance.maxSize 1024 in
theorem v0_dec_b : ∀ l < 4, ∀ c3 < 8, ∀ c4 < 8, ∀ h < 2,
    u8 (h <<< 2 ||| (l * 64 + c3 * 8 + c4) >>> 6) = h * 4 + l ∧ ((l * 64 + c3 * 8 + c4) >>> 3) &&& 0x7 = c3 ∧
      (l * 64 + c3 * 8 + c4) &&& 0x7 = c4 := by
  decide +kernel

theorem v0_group {c0 c1 c2 c3 c4 : Nat} (h0 : c0 < 8) (h1 : c1 < 8) (h2 : c2 < 8) (h3 : c3 < 8) (h4 : c4 < 8) :
    (v0Group c0 c1 c2 c3 c4).length = 2 ∧ orderDecV0 (v0Group c0 c1 c2 c3 c4) = [c0, c1, c2, c3, c4] := by
  rw [v0_bytes h0 h1 h2 h3 h4]
  refine ⟨rfl, ?_⟩
  obtain ⟨a1, a2, a3⟩ := v0_dec_a c0 h0 c1 h1 (c2 / 4) (by omega)
  obtain ⟨b1, b2, b3⟩ := v0_dec_b (c2 % 4) (by omega) c3 h3 c4 h4 (c2 / 4) (by omega)
  simp only [orderDecV0, a1, a2, a3, b1, b2, b3]
  congr 3
  omega

theorem orderDecV0_two (l rest : List Nat) (h : l.length = 2) :
    orderDecV0 (l ++ rest) = orderDecV0 l ++ orderDecV0 rest := by
  match l, h with
  | [a, b], _ => simp [orderDecV0]

/-- version-0 bond-order block: the decoder returns the codes the documented grouping stores (plus the zero fill) -/
theorem v0_orders : ∀ (codes : List Nat), (∀ c ∈ codes, c < 8) → ∃ pad, orderDecV0 (v0OrderBytes codes) = codes ++ pad
  | [], _ => ⟨[], by simp [v0OrderBytes, orderDecV0]⟩
  | [c0], h => ⟨[0, 0, 0, 0], by
      simpa [v0OrderBytes] using (v0_group (h c0 (by simp)) (c1 := 0) (by decide) (c2 := 0) (by decide) (c3 := 0) (by decide) (c4 := 0) (by decide)).2⟩
  | [c0, c1], h => ⟨[0, 0, 0], by
      simpa [v0OrderBytes] using (v0_group (h c0 (by simp)) (h c1 (by simp)) (c2 := 0) (by decide) (c3 := 0) (by decide) (c4 := 0) (by decide)).2⟩
  | [c0, c1, c2], h => ⟨[0, 0], by
      simpa [v0OrderBytes] using (v0_group (h c0 (by simp)) (h c1 (by simp)) (h c2 (by simp)) (c3 := 0) (by decide) (c4 := 0) (by decide)).2⟩
  | [c0, c1, c2, c3], h => ⟨[0], by
      simpa [v0OrderBytes] using
        (v0_group (h c0 (by simp)) (h c1 (by simp)) (h c2 (by simp)) (h c3 (by simp)) (c4 := 0) (by decide)).2⟩
  | c0 :: c1 :: c2 :: c3 :: c4 :: rest, h => by
    obtain ⟨pad, ih⟩ := v0_orders rest (fun c hc => h c (by simp [hc]))
    obtain ⟨g1, g2⟩ := v0_group (h c0 (by simp)) (h c1 (by simp)) (h c2 (by simp)) (h c3 (by simp)) (h c4 (by simp))
    exact ⟨pad, by simp only [v0OrderBytes]; rw [orderDecV0_two _ _ g1, g2, ih]; simp⟩

end ChythonModel.Proofs.C10
