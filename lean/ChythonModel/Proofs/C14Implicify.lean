import ChythonModel.Proofs.C14Explicify
/-!
# C14 — `implicify_hydrogens`: only plain hydrogens are removed; the `h ≥ i` scan finds the original count back
-/
namespace ChythonModel.Proofs.C14
open ChythonModel.Model ChythonModel.Model.Std ChythonModel.Gen.Rules

/-- every number stored in `explicit` is the number of a plain hydrogen atom of `m` -/
def ExOK (m : Mol) (ex : List (Nat × List Nat)) : Prop :=
  ∀ khs ∈ ex, ∀ x ∈ khs.2, ∃ a, (x, a) ∈ m.atoms ∧ isPlainH a = true

theorem dlAppend_ok (m : Mol) (n : Nat) (a : Atom) (hn : (n, a) ∈ m.atoms) (hp : isPlainH a = true) :
    ∀ (ex : List (Nat × List Nat)) (k : Nat), ExOK m ex → ExOK m (dlAppend ex k n) := by
  intro ex
  induction ex with
  | nil =>
    intro k _ khs hk x hx
    simp only [dlAppend, List.mem_singleton] at hk
    subst hk
    simp only [List.mem_singleton] at hx
    subst hx
    exact ⟨a, hn, hp⟩
  | cons e tl ih =>
    intro k hok khs hk x hx
    obtain ⟨k', vs⟩ := e
    rw [dlAppend] at hk
    split at hk
    · rcases List.mem_cons.mp hk with rfl | hk
      · rcases List.mem_append.mp hx with hx | hx
        · exact hok (k', vs) (List.mem_cons_self) x hx
        · simp only [List.mem_singleton] at hx; subst hx; exact ⟨a, hn, hp⟩
      · exact hok khs (List.mem_cons_of_mem _ hk) x hx
    · rcases List.mem_cons.mp hk with rfl | hk
      · exact hok (k', vs) (List.mem_cons_self) x hx
      · exact ih k (fun q hq => hok q (List.mem_cons_of_mem _ hq)) khs hk x hx

theorem collectRow_ok (m : Mol) (n : Nat) (a : Atom) (hn : (n, a) ∈ m.atoms) (hp : isPlainH a = true) :
    ∀ (row : List (Nat × Bond)) (ex ex' : List (Nat × List Nat)), collectRow m n row ex = .ok ex' → ExOK m ex → ExOK m ex' := by
  intro row
  induction row with
  | nil => intro ex ex' h hok; simp only [collectRow, Except.ok.injEq] at h; subst h; exact hok
  | cons kb rest ih =>
    obtain ⟨k, b⟩ := kb
    intro ex ex' h hok
    rw [collectRow] at h
    split at h
    · split at h
      · simp at h
      · split at h
        · exact ih _ _ h (dlAppend_ok m n a hn hp ex k hok)
        · exact ih _ _ h hok
    · split at h
      · simp at h
      · exact ih _ _ h hok

theorem collectExplicit_ok (m : Mol) : ∀ (as : List (Nat × Atom)) (ex ex' : List (Nat × List Nat)),
    (∀ p ∈ as, p ∈ m.atoms) → collectExplicit m as ex = .ok ex' → ExOK m ex → ExOK m ex' := by
  intro as
  induction as with
  | nil => intro ex ex' _ h hok; simp only [collectExplicit, Except.ok.injEq] at h; subst h; exact hok
  | cons p rest ih =>
    obtain ⟨n, a⟩ := p
    intro ex ex' hsub h hok
    have hrest : ∀ p ∈ rest, p ∈ m.atoms := fun p hp => hsub p (List.mem_cons_of_mem _ hp)
    rw [collectExplicit] at h
    split at h
    · rename_i hp
      split at h
      · simp at h
      · rename_i row _
        split at h
        · simp at h
        · split at h
          · simp at h
          · rename_i ex1 hrow
            exact ih _ _ hrest h (collectRow_ok m n a (hsub _ (List.mem_cons_self)) hp row ex ex1 hrow hok)
    · exact ih _ _ hrest h hok

theorem mem_setUnion (s xs : List Nat) (x : Nat) : x ∈ setUnion s xs → x ∈ s ∨ x ∈ xs := by
  unfold setUnion
  induction xs generalizing s with
  | nil => intro h; exact Or.inl h
  | cons y tl ih =>
    intro h
    simp only [List.foldl_cons] at h
    rcases ih (setAdd s y) h with h1 | h1
    · unfold setAdd at h1
      split at h1
      · exact Or.inl h1
      · rcases List.mem_append.mp h1 with h2 | h2
        · exact Or.inl h2
        · simp only [List.mem_singleton] at h2; subst h2; exact Or.inr (List.mem_cons_self)
    · exact Or.inr (List.mem_cons_of_mem _ h1)

/-- what `.remove hi h` means: `hi` is a prefix of the explicit hydrogens of the atom and `h ≥ |hi|` whenever `|hs| ≥ i` -/
theorem scan_remove (t : Valence.Rules) (a : Atom) (m : Mol) (row : List (Nat × Bond)) (hs : List Nat) :
    ∀ (i : Nat) (hi : List Nat) (h : Nat), scan t a m row hs i = .remove hi h → ∃ j, j ≤ i ∧ hi = hs.take j ∧ h ≥ j := by
  intro i
  induction i with
  | zero => intro hi h hsc; simp [scan] at hsc
  | succ i ih =>
    intro hi h hsc
    rw [scan] at hsc
    simp only at hsc
    split at hsc
    · simp at hsc
    · split at hsc
      · simp at hsc
      · split at hsc
        · rename_i rules _ h' hge
          simp only [Scan.remove.injEq] at hsc
          obtain ⟨rfl, rfl⟩ := hsc
          refine ⟨i + 1, Nat.le_refl _, rfl, ?_⟩
          -- `firstRuleGe` only returns counts ≥ i+1
          have : ∀ (rs : List Valence.Rule) (ed : List (Valence.BE × Nat)) (k v : Nat), firstRuleGe ed k rs = some v → v ≥ k := by
            intro rs
            induction rs with
            | nil => intro ed k v hv; simp [firstRuleGe] at hv
            | cons r rs ihr =>
              intro ed k v hv
              rw [firstRuleGe] at hv
              split at hv
              · rename_i hc
                simp only [Option.some.injEq] at hv; subst hv
                simp only [Bool.and_eq_true, decide_eq_true_eq] at hc
                exact hc.2
              · exact ihr ed k v hv
          exact this _ _ _ _ hge
        · obtain ⟨j, hj, e, g⟩ := ih hi h hsc
          exact ⟨j, Nat.le_succ_of_le hj, e, g⟩

theorem scanAll_sub (m : Mol) : ∀ (ex : List (Nat × List Nat)) (rm : List Nat) (fx : List (Nat × Nat))
    (rm' : List Nat) (fx' : List (Nat × Nat)), scanAll m ex rm fx = some (rm', fx') →
    ∀ x ∈ rm', x ∈ rm ∨ ∃ khs ∈ ex, x ∈ khs.2 := by
  intro ex
  induction ex with
  | nil => intro rm fx rm' fx' h x hx; simp only [scanAll, Option.some.injEq, Prod.mk.injEq] at h; exact Or.inl (h.1 ▸ hx)
  | cons e tl ih =>
    obtain ⟨n, hs⟩ := e
    intro rm fx rm' fx' h x hx
    rw [scanAll] at h
    cases ha : m.atom? n with
    | none => simp [ha, bind] at h
    | some a =>
      cases hr : m.adj.lookup n with
      | none => simp [ha, hr, bind] at h
      | some row =>
        cases ht : Valence.tableOf a.z with
        | none => simp [ha, hr, ht, bind] at h
        | some t =>
          simp only [ha, hr, ht, bind, Option.bind] at h
          split at h
          · simp at h
          · rcases ih _ _ _ _ h x hx with h1 | ⟨khs, hk, hxk⟩
            · exact Or.inl h1
            · exact Or.inr ⟨khs, List.mem_cons_of_mem _ hk, hxk⟩
          · rename_i hi hh hsc
            rcases ih _ _ _ _ h x hx with h1 | ⟨khs, hk, hxk⟩
            · rcases mem_setUnion _ _ _ h1 with h2 | h2
              · exact Or.inl h2
              · obtain ⟨j, _, e, _⟩ := scan_remove t a m row hs hs.length hi hh hsc
                refine Or.inr ⟨(n, hs), List.mem_cons_self, ?_⟩
                rw [e] at h2
                exact List.mem_of_mem_take h2
            · exact Or.inr ⟨khs, List.mem_cons_of_mem _ hk, hxk⟩

theorem applyFixed_skeleton : ∀ (fx : List (Nat × Nat)) (m : Mol), skeleton (applyFixed fx m) = skeleton m ∧
    netCharge (applyFixed fx m) = netCharge m := by
  intro fx
  induction fx with
  | nil => intro m; exact ⟨rfl, rfl⟩
  | cons e tl ih =>
    obtain ⟨n, h⟩ := e
    intro m
    rw [applyFixed]
    obtain ⟨h1, h2⟩ := ih (updAtom m n fun a => { a with implH := some h })
    refine ⟨h1.trans (skeleton_updAtom m n _ (fun _ => rfl) (fun _ => rfl)), h2.trans ?_⟩
    unfold netCharge updAtom
    simp only [List.map_map]
    congr 1
    apply List.map_congr_left
    intro p _
    simp only [Function.comp, setAtomEntry]
    split <;> rfl

/-- two entries of a duplicate-free association list with the same key are the same entry -/
theorem eq_of_mem_nodup : ∀ (l : List (Nat × Atom)), (l.map (·.1)).Nodup → ∀ (x : Nat) (a b : Atom),
    (x, a) ∈ l → (x, b) ∈ l → a = b := by
  intro l
  induction l with
  | nil => intro _ x a b ha; simp at ha
  | cons p tl ih =>
    intro hnd x a b ha hb
    simp only [List.map_cons, List.nodup_cons] at hnd
    have hkey : ∀ c, (x, c) ∈ tl → x ∈ tl.map (·.1) := fun c hc => List.mem_map.mpr ⟨(x, c), hc, rfl⟩
    rcases List.mem_cons.mp ha with ha1 | ha1
    · rcases List.mem_cons.mp hb with hb1 | hb1
      · rw [← ha1] at hb1; exact (Prod.mk.inj hb1).2.symm
      · rw [← ha1] at hnd; exact absurd (hkey b hb1) hnd.1
    · rcases List.mem_cons.mp hb with hb1 | hb1
      · rw [← hb1] at hnd; exact absurd (hkey a ha1) hnd.1
      · exact ih hnd.2 x a b ha1 hb1

/-- **`implicify_hydrogens` removes only plain hydrogen atoms**: the heavy atoms are the same atoms afterwards -/
theorem implicify_heavy (m m' : Mol) (cnt : Nat) (fx : List Nat) (h : implicify m = .ok (m', cnt, fx)) (hnd : m.ids.Nodup) :
    heavyAtoms m' = heavyAtoms m := by
  unfold implicify at h
  cases hc : collectExplicit m m.atoms [] with
  | error e => simp [hc] at h
  | ok ex =>
    simp only [hc] at h
    cases hs : scanAll m ex [] [] with
    | none => simp [hs] at h
    | some res =>
      obtain ⟨rm, fxs⟩ := res
      simp only [hs, Except.ok.injEq, Prod.mk.injEq] at h
      obtain ⟨rfl, -, -⟩ := h
      have hex : ExOK m ex := collectExplicit_ok m m.atoms [] ex (fun _ hp => hp) hc (by intro khs hk; simp at hk)
      have hrm : ∀ p ∈ m.atoms, rm.contains p.1 = true → p.2.z = 1 := by
        intro p hp hcont
        rcases scanAll_sub m ex [] [] rm fxs hs p.1 (List.contains_iff_mem.mp hcont) with h1 | ⟨khs, hk, hx⟩
        · simp at h1
        · obtain ⟨a, ha, hpl⟩ := hex khs hk p.1 hx
          have : p.2 = a := eq_of_mem_nodup m.atoms hnd p.1 p.2 a (by simpa using hp) ha
          rw [this]
          simp only [isPlainH, Bool.and_eq_true, beq_iff_eq] at hpl
          exact hpl.1
      apply heavyAtoms_eq_of_skeleton ?_ |>.trans ?_
      · exact removeAtoms m rm
      · exact (applyFixed_skeleton fxs (removeAtoms m rm)).1
      · unfold heavyAtoms removeAtoms
        simp only [List.filter_filter]
        congr 1
        apply List.filter_congr
        intro p hp
        by_cases hz : p.2.z = 1
        · simp [hz]
        · have : rm.contains p.1 = false := by
            apply Bool.eq_false_iff.mpr; intro hcc; exact hz (hrm p hp hcc)
          have hz' : (p.2.z != 1) = true := by simpa using hz
          rw [this, hz']; rfl

/-- the net charge after removing atoms that are all neutral -/
theorem sum_filter_neutral : ∀ (l : List (Nat × Atom)) (keep : Nat × Atom → Bool), (∀ p ∈ l, keep p = false → p.2.charge = 0) →
    ((l.filter keep).map (·.2.charge)).sum = (l.map (·.2.charge)).sum := by
  intro l
  induction l with
  | nil => intro _ _; rfl
  | cons p tl ih =>
    intro keep h
    have ht := ih keep (fun q hq => h q (List.mem_cons_of_mem _ hq))
    rw [List.filter_cons]
    cases hk : keep p with
    | true => simp only [if_true, List.map_cons, List.sum_cons, ht]
    | false =>
      have := h p (List.mem_cons_self) hk
      simp only [Bool.false_eq_true, if_false, List.map_cons, List.sum_cons, ht, this]
      omega

/-- **`implicify_hydrogens` conserves the net charge** when the explicit plain hydrogens are neutral (a charged explicit
    hydrogen would be removed together with its charge: the code does not look at it) -/
theorem implicify_charge (m m' : Mol) (cnt : Nat) (fx : List Nat) (h : implicify m = .ok (m', cnt, fx)) (hnd : m.ids.Nodup)
    (hneutral : ∀ p ∈ m.atoms, isPlainH p.2 = true → p.2.charge = 0) : netCharge m' = netCharge m := by
  unfold implicify at h
  cases hc : collectExplicit m m.atoms [] with
  | error e => simp [hc] at h
  | ok ex =>
    simp only [hc] at h
    cases hs : scanAll m ex [] [] with
    | none => simp [hs] at h
    | some res =>
      obtain ⟨rm, fxs⟩ := res
      simp only [hs, Except.ok.injEq, Prod.mk.injEq] at h
      obtain ⟨rfl, -, -⟩ := h
      have hex : ExOK m ex := collectExplicit_ok m m.atoms [] ex (fun _ hp => hp) hc (by intro khs hk; simp at hk)
      rw [(applyFixed_skeleton fxs (removeAtoms m rm)).2]
      unfold netCharge removeAtoms
      apply sum_filter_neutral
      intro p hp hkeep
      have hcont : rm.contains p.1 = true := by simpa using hkeep
      rcases scanAll_sub m ex [] [] rm fxs hs p.1 (List.contains_iff_mem.mp hcont) with h1 | ⟨khs, hk, hx⟩
      · simp at h1
      · obtain ⟨a, ha, hpl⟩ := hex khs hk p.1 hx
        have : p.2 = a := eq_of_mem_nodup m.atoms hnd p.1 p.2 a (by simpa using hp) ha
        exact hneutral p hp (this ▸ hpl)

/-! ## the `h ≥ i` scan finds the original count back -/

/-- if `calc_implicit`'s first-match scan gives `h`, then `implicify`'s scan for `i = h` removed hydrogens gives the same `h` -/
theorem firstRuleGe_of_firstRule (ed : List (Valence.BE × Nat)) : ∀ (rules : List Valence.Rule) (h : Nat),
    Valence.firstRule ed rules = some h → firstRuleGe ed h rules = some h := by
  intro rules
  induction rules with
  | nil => intro h hf; simp [Valence.firstRule] at hf
  | cons r rs ih =>
    intro h hf
    rw [Valence.firstRule] at hf
    rw [firstRuleGe]
    split at hf
    · rename_i hm
      simp only [Option.some.injEq] at hf
      subst hf
      simp [hm]
    · rename_i hm
      have : (Valence.ruleMatches ed r && decide (r.h ≥ h)) = false := by simp [hm]
      simp only [this, Bool.false_eq_true, if_false]
      exact ih h hf

theorem mapM_nbrEntry_orders (atoms : List (Nat × Atom)) : ∀ (row : List (Nat × Bond)) (bs : List Valence.BE),
    row.mapM (Valence.nbrEntry atoms) = some bs → bs.map (·.1) = row.map (·.2.order) := by
  intro row
  induction row with
  | nil => intro bs h; simp only [List.mapM_nil, Option.pure_def, Option.some.injEq] at h; subst h; rfl
  | cons kb rest ih =>
    intro bs h
    rw [List.mapM_cons] at h
    cases h1 : Valence.nbrEntry atoms kb with
    | none => simp [h1] at h
    | some e =>
      cases h2 : rest.mapM (Valence.nbrEntry atoms) with
      | none => simp [h1, h2] at h
      | some tl =>
        simp only [h1, h2, Option.pure_def, Option.bind_eq_bind, Option.bind_some, Option.some.injEq] at h
        subst h
        simp only [List.map_cons, ih tl h2, List.cons.injEq, and_true]
        unfold Valence.nbrEntry at h1
        cases h3 : atoms.lookup kb.1 with
        | none => simp [h3] at h1
        | some x => simp only [h3, Option.map_some, Option.some.injEq] at h1; rw [← h1]

/-- the bonds `implicify` keeps for the valence lookup never include order 8 -/
theorem keptBonds_no8 (m : Mol) (row : List (Nat × Bond)) (hi : List Nat) (bs : List Valence.BE)
    (h : keptBonds m row hi = some bs) : ∀ b ∈ bs, b.1 ≠ 8 := by
  unfold keptBonds at h
  have := mapM_nbrEntry_orders m.atoms _ bs h
  intro b hb
  have hb' : b.1 ∈ bs.map (·.1) := List.mem_map.mpr ⟨b, hb, rfl⟩
  rw [this] at hb'
  simp only [List.mem_map, List.mem_filter] at hb'
  obtain ⟨kb, ⟨_, hk⟩, e⟩ := hb'
  simp only [Bool.and_eq_true, bne_iff_ne] at hk
  rw [← e]; exact hk.2

theorem counted_eq_self (bs : List Valence.BE) (h4 : ∀ b ∈ bs, b.1 ≠ 4) (h8 : ∀ b ∈ bs, b.1 ≠ 8) : Valence.counted bs = bs := by
  unfold Valence.counted
  apply List.filter_eq_self.mpr
  intro b hb
  simp [h4 b hb, h8 b hb]

/-- **the scan inverts `calc_implicit`** for one atom: if the bonds the atom keeps (no aromatic ones) give `h > 0` hydrogens by
    `calc_implicit` (C04 model) and the atom carries exactly `h` explicit plain hydrogens `hs`, the scan removes all of them
    and restores the count `h`. -/
theorem scan_inverts_calc (t : Valence.Rules) (a : Atom) (m : Mol) (row : List (Nat × Bond)) (hs : List Nat)
    (bs : List Valence.BE) (h : Nat) (hk : keptBonds m row hs = some bs) (hna : ∀ b ∈ bs, b.1 ≠ 4) (hz : a.z ≠ 1)
    (hc : Valence.calcWith t ⟨a.z, a.charge, a.radical, bs⟩ = some h) (hlen : hs.length = h) (hpos : 0 < h) :
    scan t a m row hs hs.length = .remove hs h := by
  have h8 := keptBonds_no8 m row hs bs hk
  have hcnt := counted_eq_self bs hna h8
  have har : Valence.aromaCount bs = 0 := by
    unfold Valence.aromaCount
    rw [List.filter_eq_nil_iff.mpr]; rfl
    intro b hb; simp [hna b hb]
  unfold Valence.calcWith at hc
  have hz' : (a.z == 1) = false := by simpa using hz
  simp only [hz', Bool.false_eq_true, if_false, har] at hc
  simp only [bne_self_eq_false, Bool.false_and, Bool.false_eq_true, if_false, Nat.reduceBEq] at hc
  unfold Valence.explicitSum Valence.explicitDict at hc
  rw [hcnt] at hc
  cases hr : Valence.valenceRules t a.charge a.radical (bs.map (·.1)).sum with
  | none => simp [hr] at hc
  | some rules =>
    simp only [hr] at hc
    obtain ⟨i, hl⟩ : ∃ i, hs.length = i + 1 := ⟨hs.length - 1, by omega⟩
    rw [hl, scan]
    simp only
    have htake : hs.take (i + 1) = hs := by rw [← hl]; exact List.take_length
    rw [htake, hk]
    simp only [hr]
    have := firstRuleGe_of_firstRule _ rules h hc
    rw [← hlen, hl] at this
    rw [this, ← hlen, hl]

end ChythonModel.Proofs.C14
