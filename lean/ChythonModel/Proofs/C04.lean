import ChythonModel.Model.Valence
import ChythonModel.Spec.FirstMatch
/-!
# Helper lemmas for Props/C04.lean (core Lean only)

* `defaultdict(int)` / `Counter` as association lists: reading a key after `+= 1` (`cnt_dictIncr`, `counterGet_counterAdd`)
* `explicit_dict` read through `cnt`/`hasKey` is the multiset count / membership of the localised bonds
* permutation invariance of every quantity `calc_implicit` derives from the bond dict
* `firstRule` ⇔ declarative "first matching rule"
* `setH` does not change what `calc_implicit` reads; specification of the `fix_structure` loop
* `optSum` (a Python `sum` whose terms may raise) is permutation invariant and is the sum when every term exists
-/
namespace ChythonModel.Proofs.C04
open ChythonModel.Gen ChythonModel.Model ChythonModel.Model.Valence ChythonModel.Spec.FirstMatch

theorem cnt_dictIncr (d : List (BE × Nat)) (k' k : BE) :
    cnt (dictIncr d k') k = cnt d k + (if k' = k then 1 else 0) := by
  induction d with
  | nil =>
    by_cases h : k' = k
    · subst h; simp [dictIncr, cnt, List.lookup]
    · have h' : (k == k') = false := by simp; exact fun e => h e.symm
      simp [dictIncr, cnt, List.lookup, h, h']
  | cons p tl ih =>
    obtain ⟨k0, c⟩ := p
    by_cases h0 : k0 = k'
    · subst h0
      by_cases h : k0 = k
      · subst h; simp [dictIncr, cnt, List.lookup]
      · have h' : (k == k0) = false := by simp; exact fun e => h e.symm
        simp [dictIncr, cnt, List.lookup, h, h']
    · by_cases hk : k = k0
      · subst hk
        have : ¬ k' = k := fun e => h0 e.symm
        simp [dictIncr, cnt, List.lookup, h0, this]
      · have hk' : (k == k0) = false := by simp; exact hk
        simp only [cnt] at ih
        simp [dictIncr, cnt, List.lookup, h0, hk', ih]

theorem hasKey_dictIncr (d : List (BE × Nat)) (k' k : BE) :
    hasKey (dictIncr d k') k = (hasKey d k || decide (k' = k)) := by
  induction d with
  | nil => by_cases h : k' = k <;> simp [dictIncr, hasKey, h]
  | cons p tl ih =>
    obtain ⟨k0, c⟩ := p
    by_cases h0 : k0 = k'
    · subst h0
      by_cases h : k0 = k <;> simp [dictIncr, hasKey, h]
    · simp only [hasKey] at ih
      simp [dictIncr, hasKey, h0, ih, Bool.or_assoc]

theorem cnt_foldl (l : List BE) (d : List (BE × Nat)) (k : BE) :
    cnt (l.foldl dictIncr d) k = cnt d k + l.count k := by
  induction l generalizing d with
  | nil => simp
  | cons x tl ih =>
    simp only [List.foldl_cons, ih, cnt_dictIncr, List.count_cons]
    by_cases h : x = k <;> simp [h] <;> omega

theorem hasKey_foldl (l : List BE) (d : List (BE × Nat)) (k : BE) :
    hasKey (l.foldl dictIncr d) k = (hasKey d k || l.contains k) := by
  induction l generalizing d with
  | nil => simp
  | cons x tl ih =>
    simp only [List.foldl_cons, ih, hasKey_dictIncr, List.contains_cons]
    by_cases h : x = k
    · subst h; simp
    · have h' : (k == x) = false := by simp; exact fun e => h e.symm
      simp [h, h']

theorem cnt_explicitDict (bs : List BE) (k : BE) : cnt (explicitDict bs) k = (counted bs).count k := by
  rw [explicitDict, cnt_foldl]; simp [cnt]

theorem hasKey_explicitDict (bs : List BE) (k : BE) : hasKey (explicitDict bs) k = (counted bs).contains k := by
  rw [explicitDict, hasKey_foldl]; simp [hasKey]


theorem counted_eq_localised (bs : List BE) : counted bs = localised bs := by
  simp only [counted, localised]
  congr 1
  funext b
  by_cases h4 : b.1 = 4 <;> by_cases h8 : b.1 = 8 <;> simp [h4, h8]

/-- the executable test is the declarative requirement -/
theorem ruleMatches_iff (bs : List BE) (r : Rule) :
    ruleMatches (explicitDict bs) r = true ↔ EnvMet bs r.set r.dict := by
  simp only [ruleMatches, EnvMet, Bool.and_eq_true, List.all_eq_true, hasKey_explicitDict, cnt_explicitDict,
    counted_eq_localised, List.contains_iff_mem, decide_eq_true_eq, ge_iff_le]

theorem perm_counted {bs bs' : List BE} (h : bs.Perm bs') : (counted bs).Perm (counted bs') := h.filter _

theorem ruleMatches_perm {bs bs' : List BE} (h : bs.Perm bs') (r : Rule) :
    ruleMatches (explicitDict bs) r = ruleMatches (explicitDict bs') r := by
  have hc := perm_counted h
  simp only [ruleMatches, hasKey_explicitDict, cnt_explicitDict]
  congr 1
  · apply List.all_congr rfl; intro k
    rw [hasKey_explicitDict, hasKey_explicitDict, Bool.eq_iff_iff]
    simp only [List.contains_iff_mem]
    exact hc.mem_iff
  · apply List.all_congr rfl; intro kc
    rw [hc.count_eq]

theorem explicitSum_perm {bs bs' : List BE} (h : bs.Perm bs') : explicitSum bs = explicitSum bs' :=
  ((perm_counted h).map _).sum_nat

theorem aromaCount_perm {bs bs' : List BE} (h : bs.Perm bs') : aromaCount bs = aromaCount bs' :=
  (h.filter _).length_eq

theorem firstRule_congr {ed ed' : List (BE × Nat)} (h : ∀ r, ruleMatches ed r = ruleMatches ed' r) (rs : List Rule) :
    firstRule ed rs = firstRule ed' rs := by
  induction rs with
  | nil => rfl
  | cons r tl ih => simp only [firstRule, h r, ih]

theorem calcWith_perm (t : Rules) (z : Nat) (c : Int) (r : Bool) {bs bs' : List BE} (h : bs.Perm bs') :
    calcWith t ⟨z, c, r, bs⟩ = calcWith t ⟨z, c, r, bs'⟩ := by
  simp only [calcWith, aromaCount_perm h, explicitSum_perm h, firstRule_congr (ruleMatches_perm h)]

theorem checkWith_perm (t : Rules) (z : Nat) (c : Int) (r : Bool) (hh : Nat) {bs bs' : List BE} (h : bs.Perm bs') :
    checkWith t ⟨z, c, r, bs⟩ hh = checkWith t ⟨z, c, r, bs'⟩ hh := by
  simp only [checkWith, aromaCount_perm h, explicitSum_perm h, ruleMatches_perm h]

/-- `firstRule` returns `h` iff `h` is the count of the first matching rule -/
theorem firstRule_some (ed : List (BE × Nat)) (rs : List Rule) (h : Nat) :
    firstRule ed rs = some h ↔ ∃ r, IsFirst (fun q => ruleMatches ed q = true) rs r ∧ r.h = h := by
  induction rs with
  | nil => simp [firstRule, IsFirst]
  | cons r tl ih =>
    simp only [firstRule]
    by_cases hm : ruleMatches ed r = true
    · simp only [hm, if_true, Option.some.injEq]
      constructor
      · intro e; exact ⟨r, ⟨[], tl, rfl, hm, by simp⟩, e⟩
      · rintro ⟨q, ⟨pre, post, e, hq, hpre⟩, eh⟩
        cases pre with
        | nil => simp at e; rw [e.1]; exact eh
        | cons p pre' =>
          simp at e
          exact absurd hm (e.1 ▸ hpre p (by simp))
    · simp only [hm, if_false, ih, Bool.false_eq_true]
      constructor
      · rintro ⟨q, ⟨pre, post, e, hq, hpre⟩, eh⟩
        refine ⟨q, ⟨r :: pre, post, by simp [e], hq, ?_⟩, eh⟩
        intro p hp
        cases List.mem_cons.mp hp with
        | inl e1 => rw [e1]; exact hm
        | inr h1 => exact hpre p h1
      · rintro ⟨q, ⟨pre, post, e, hq, hpre⟩, eh⟩
        cases pre with
        | nil => simp at e; exact absurd (e.1 ▸ hq) hm
        | cons p pre' =>
          simp at e
          exact ⟨q, ⟨pre', post, e.2, hq, fun p' hp' => hpre p' (List.mem_cons_of_mem _ hp')⟩, eh⟩

theorem firstRule_none (ed : List (BE × Nat)) (rs : List Rule) :
    firstRule ed rs = none ↔ ∀ r ∈ rs, ruleMatches ed r = false := by
  induction rs with
  | nil => simp [firstRule]
  | cons r tl ih =>
    simp only [firstRule]
    by_cases hm : ruleMatches ed r = true
    · simp [hm]
    · simp only [hm, if_false, ih, List.mem_cons, forall_eq_or_imp, Bool.false_eq_true]
      simp at hm
      simp [hm]

theorem lookup_setH (atoms : List (Nat × Atom)) (n k : Nat) (h : Option Nat) :
    (atoms.map (setHEntry n h)).lookup k =
      (atoms.lookup k).map fun a => if k == n then withH a h else a := by
  induction atoms with
  | nil => rfl
  | cons p tl ih =>
    obtain ⟨k0, a⟩ := p
    have e1 : setHEntry n h (k0, a) = (k0, if k0 == n then withH a h else a) := by
      simp only [setHEntry]; split <;> rfl
    rw [List.map_cons, e1]
    cases hb : (k == k0) with
    | true =>
      have : k = k0 := by simpa using hb
      subst this
      simp only [List.lookup, hb, Option.map_some]
    | false =>
      simp only [List.lookup, hb, ih]

theorem ctxOf_setH (m : Mol) (n : Nat) (h : Option Nat) (k : Nat) : ctxOf (setH m n h) k = ctxOf m k := by
  have hl : ∀ j, (setH m n h).atoms.lookup j = (m.atoms.lookup j).map fun a => if j == n then withH a h else a :=
    fun j => lookup_setH m.atoms n j h
  have hf : nbrEntry (setH m n h).atoms = nbrEntry m.atoms := by
    funext kb
    simp only [nbrEntry, hl]
    cases m.atoms.lookup kb.1 with
    | none => rfl
    | some a => cases (kb.1 == n) <;> rfl
  have hadj : (setH m n h).adj = m.adj := rfl
  simp only [ctxOf, hf, hadj, hl]
  cases m.atoms.lookup k with
  | none => rfl
  | some a =>
    cases m.adj.lookup k with
    | none => rfl
    | some nb => cases (k == n) <;> rfl

theorem calcImplicitMol_setH (m : Mol) (n : Nat) (h : Option Nat) (k : Nat) :
    calcImplicitMol (setH m n h) k = calcImplicitMol m k := by
  simp only [calcImplicitMol, ctxOf_setH]

/-- what the `fix_structure` loop over `ns` does to the atom table: atoms whose key is in `ns` get the value
    computed on the original molecule -/
def fixEntry (m0 : Mol) (ns : List Nat) (p : Nat × Atom) : Nat × Atom :=
  if ns.contains p.1 then (p.1, withH p.2 (calcImplicitMol m0 p.1).join) else p

theorem fixLoop_spec (m0 : Mol) : ∀ (ns : List Nat) (m m' : Mol),
    (∀ k, calcImplicitMol m k = calcImplicitMol m0 k) → fixLoop ns m = some m' →
    m'.atoms = m.atoms.map (fixEntry m0 ns) ∧ m'.adj = m.adj ∧ ∀ n ∈ ns, (calcImplicitMol m0 n).isSome = true := by
  intro ns
  induction ns with
  | nil =>
    intro m m' _ hfix
    simp only [fixLoop, Option.some.injEq] at hfix
    subst hfix
    refine ⟨?_, rfl, by simp⟩
    have : fixEntry m0 [] = id := by funext p; simp [fixEntry]
    simp [this]
  | cons n tl ih =>
    intro m m' hinv hfix
    simp only [fixLoop] at hfix
    cases hc : calcImplicitMol m n with
    | none => simp [hc] at hfix
    | some h =>
      simp only [hc] at hfix
      have hinv' : ∀ k, calcImplicitMol (setH m n h) k = calcImplicitMol m0 k := fun k => by
        rw [calcImplicitMol_setH, hinv]
      obtain ⟨ha, hadj, hall⟩ := ih (setH m n h) m' hinv' hfix
      have hc0 : calcImplicitMol m0 n = some h := by rw [← hinv, hc]
      refine ⟨?_, hadj, ?_⟩
      · rw [ha]
        simp only [setH, List.map_map]
        apply List.map_congr_left
        intro p _
        obtain ⟨k, a⟩ := p
        simp only [Function.comp, fixEntry, setHEntry, List.contains_cons]
        by_cases hk : k = n
        · subst hk
          simp only [beq_self_eq_true, if_true, Bool.true_or, hc0, Option.join_some]
          split <;> simp [withH]
        · have hb : (k == n) = false := by simp [hk]
          simp [hb]
      · intro j hj
        cases List.mem_cons.mp hj with
        | inl e => rw [e, hc0]; rfl
        | inr h1 => exact hall j h1

theorem sum_int_perm {l l' : List Int} (h : l.Perm l') : l.sum = l'.sum := by
  induction h with
  | nil => rfl
  | cons x _ ih => simp only [List.sum_cons, ih]
  | swap x y l => simp only [List.sum_cons]; omega
  | trans _ _ ih1 ih2 => exact ih1.trans ih2

theorem optSum_perm {l l' : List (Option Nat)} (h : l.Perm l') : optSum l = optSum l' := by
  induction h with
  | nil => rfl
  | cons x _ ih => simp only [optSum, ih]
  | swap x y l =>
    simp only [optSum]
    cases x <;> cases y <;> cases optSum l <;> simp
    omega
  | trans _ _ ih1 ih2 => exact ih1.trans ih2

theorem optSum_some_iff (l : List (Option Nat)) (s : Nat) :
    optSum l = some s ↔ ∃ hs : List Nat, l = hs.map some ∧ s = hs.sum := by
  induction l generalizing s with
  | nil =>
    simp only [optSum, Option.some.injEq]
    constructor
    · intro e; exact ⟨[], rfl, by simp [← e]⟩
    · rintro ⟨hs, e, rfl⟩
      cases hs with
      | nil => rfl
      | cons a b => simp at e
  | cons x tl ih =>
    simp only [optSum]
    cases x with
    | none =>
      constructor
      · intro e; simp at e
      · rintro ⟨hs, e, _⟩
        cases hs with
        | nil => simp at e
        | cons a b => simp at e
    | some h =>
      cases ho : optSum tl with
      | none =>
        constructor
        · intro e; simp at e
        · rintro ⟨hs, e, _⟩
          cases hs with
          | nil => simp at e
          | cons a b =>
            simp only [List.map_cons, List.cons.injEq, Option.some.injEq] at e
            have := (ih b.sum).mpr ⟨b, e.2, rfl⟩
            rw [ho] at this; simp at this
      | some t =>
        obtain ⟨hs, e1, e2⟩ := (ih t).mp ho
        simp only [Option.some.injEq]
        constructor
        · intro e; exact ⟨h :: hs, by simp [e1], by simp [← e, e2]⟩
        · rintro ⟨hs', e, rfl⟩
          cases hs' with
          | nil => simp at e
          | cons a b =>
            simp only [List.map_cons, List.cons.injEq, Option.some.injEq] at e
            have h2 := (ih b.sum).mpr ⟨b, e.2, rfl⟩
            rw [ho] at h2
            simp only [Option.some.injEq] at h2
            simp [e.1, h2]

theorem counterGet_counterAdd (c : List (String × Nat)) (k k' : String) (v : Nat) :
    counterGet (counterAdd c k v) k' = counterGet c k' + (if k = k' then v else 0) := by
  induction c with
  | nil =>
    by_cases h : k = k'
    · subst h; simp [counterAdd, counterGet, List.lookup]
    · have h' : (k' == k) = false := by simp; exact fun e => h e.symm
      simp [counterAdd, counterGet, List.lookup, h, h']
  | cons p tl ih =>
    obtain ⟨k0, n⟩ := p
    by_cases h0 : k0 = k
    · subst h0
      by_cases h : k0 = k'
      · subst h; simp [counterAdd, counterGet, List.lookup]
      · have h' : (k' == k0) = false := by simp; exact fun e => h e.symm
        simp [counterAdd, counterGet, List.lookup, h, h']
    · by_cases hk : k' = k0
      · subst hk
        have : ¬ k = k' := fun e => h0 e.symm
        simp [counterAdd, counterGet, List.lookup, h0, this]
      · have hk' : (k' == k0) = false := by simp; exact hk
        simp only [counterGet] at ih
        simp [counterAdd, counterGet, List.lookup, h0, hk', ih]

/-- number of atoms whose element symbol is `s` -/
def symbolCount (atoms : List (Nat × Atom)) (s : String) : Nat :=
  (atoms.filter fun p => symOf p.2.z == some s).length

theorem symbolCounter_count : ∀ (l : List (Nat × Atom)) (acc c : List (String × Nat)),
    symbolCounter l acc = some c → ∀ s, counterGet c s = counterGet acc s + symbolCount l s := by
  intro l
  induction l with
  | nil => intro acc c h s; simp only [symbolCounter, Option.some.injEq] at h; subst h; simp [symbolCount]
  | cons p tl ih =>
    intro acc c h s
    obtain ⟨n, a⟩ := p
    simp only [symbolCounter] at h
    cases hs : symOf a.z with
    | none => simp [hs] at h
    | some sym =>
      simp only [hs] at h
      rw [ih _ _ h s, counterGet_counterAdd]
      simp only [symbolCount, List.filter_cons, hs]
      by_cases e : sym = s
      · subst e; simp; omega
      · simp [e]

theorem lookup_mem {α β : Type} [BEq α] [LawfulBEq α] (l : List (α × β)) (k : α) (v : β) (h : l.lookup k = some v) :
    (k, v) ∈ l := by
  induction l with
  | nil => simp at h
  | cons p tl ih =>
    obtain ⟨k0, v0⟩ := p
    simp only [List.lookup] at h
    cases hb : (k == k0) with
    | true =>
      simp only [hb, Option.some.injEq] at h
      have : k = k0 := by simpa using hb
      subst this; subst h; simp
    | false =>
      simp only [hb] at h
      exact List.mem_cons_of_mem _ (ih h)

theorem lookup_none_of_all {α β : Type} [BEq α] [LawfulBEq α] (l : List (α × β)) (k : α) (h : ∀ p ∈ l, p.1 ≠ k) :
    l.lookup k = none := by
  induction l with
  | nil => rfl
  | cons p tl ih =>
    obtain ⟨k0, v0⟩ := p
    have hne : (k == k0) = false := by
      have := h (k0, v0) (by simp)
      simp only [ne_eq] at this
      simp; exact fun e => this e.symm
    simp only [List.lookup, hne]
    exact ih fun p hp => h p (List.mem_cons_of_mem _ hp)

theorem counted8_eq_counted (bs : List BE) (ha : aromaCount bs = 0) : counted8 bs = counted bs := by
  simp only [counted8, counted]
  apply List.filter_congr
  intro b hb
  have h4 : (b.1 == 4) = false := by
    simp only [aromaCount, List.length_eq_zero_iff, List.filter_eq_nil_iff] at ha
    have := ha b hb
    simpa using this
  have : (b.1 != 4) = true := by simp [bne, h4]
  simp [this]

theorem scanStep_found (t : Rules) (c : Int) (r : Bool) (bs : List BE) (i h : Nat)
    (hs : scanStep t c r bs i = .found h) :
    ∃ rules q, valenceRules t c r (((counted8 bs).map (·.1)).sum) = some rules ∧ q ∈ rules ∧ q.h = h ∧ i ≤ h ∧
      ruleMatches ((counted8 bs).foldl dictIncr []) q = true := by
  simp only [scanStep] at hs
  cases hv : valenceRules t c r (((counted8 bs).map (·.1)).sum) with
  | none => simp [hv] at hs
  | some rules =>
    simp only [hv] at hs
    cases hf : rules.find? (fun q => ruleMatches ((counted8 bs).foldl dictIncr []) q && decide (q.h ≥ i)) with
    | none => simp [hf] at hs
    | some q =>
      simp only [hf, ScanStep.found.injEq] at hs
      have hp := List.find?_some hf
      simp only [Bool.and_eq_true, decide_eq_true_eq] at hp
      exact ⟨rules, q, rfl, List.mem_of_find?_eq_some hf, hs, hs ▸ hp.2, hp.1⟩

/-- number of explicit hydrogen atoms -/
def explicitH (atoms : List (Nat × Atom)) : Nat := (atoms.filter (·.2.z == 1)).length

theorem toAdd_spec : ∀ (atoms : List (Nat × Atom)) (l : List Nat), toAdd atoms = some l →
    implicitTotal atoms = some l.length ∧ ∀ p ∈ atoms, p.2.implH = some 0 ∨ p.1 ∈ l := by
  intro atoms
  induction atoms with
  | nil => intro l h; simp only [toAdd, Option.some.injEq] at h; subst h; simp [implicitTotal, optSum]
  | cons p tl ih =>
    intro l h
    obtain ⟨n, a⟩ := p
    simp only [toAdd] at h
    cases hh : a.implH with
    | none => simp [hh] at h
    | some k =>
      cases ht : toAdd tl with
      | none => simp [hh, ht] at h
      | some rest =>
        simp only [hh, ht, Option.some.injEq] at h
        subst h
        obtain ⟨h1, h2⟩ := ih rest ht
        constructor
        · simp only [implicitTotal] at h1 ⊢
          simp [optSum, hh, h1]
        · intro p hp
          cases List.mem_cons.mp hp with
          | inl e =>
            subst e
            cases k with
            | zero => left; exact hh
            | succ k' => right; simp [List.replicate_succ]
          | inr hp' =>
            cases h2 p hp' with
            | inl e => left; exact e
            | inr e => right; exact List.mem_append_right _ e

theorem explicitH_setH (atoms : List (Nat × Atom)) (n : Nat) (h : Option Nat) :
    explicitH (atoms.map (setHEntry n h)) = explicitH atoms := by
  induction atoms with
  | nil => rfl
  | cons p tl ih =>
    simp only [explicitH] at ih ⊢
    have : (setHEntry n h p).2.z = p.2.z := by
      simp only [setHEntry]; split <;> rfl
    simp only [List.map_cons, List.filter_cons, this]
    split <;> simp [ih]

theorem addHydrogens_spec : ∀ (l : List Nat) (nxt : Nat) (m : Mol),
    explicitH (addHydrogens l nxt m).atoms = explicitH m.atoms + l.length ∧
    ∀ p ∈ (addHydrogens l nxt m).atoms, p.2.implH = some 0 ∨
      ∃ p0 ∈ m.atoms, p0.1 = p.1 ∧ p0.2.implH = p.2.implH ∧ p.1 ∉ l := by
  intro l
  induction l with
  | nil => intro nxt m; exact ⟨by simp [addHydrogens], fun p hp => Or.inr ⟨p, hp, rfl, rfl, by simp⟩⟩
  | cons n tl ih =>
    intro nxt m
    simp only [addHydrogens]
    obtain ⟨h1, h2⟩ := ih (nxt + 1)
      ⟨m.atoms.map (setHEntry n (some 0)) ++ [(nxt, { z := 1, implH := some 0 })],
       (m.adj.map fun p => if p.1 == n then (p.1, p.2 ++ [(nxt, (⟨1, none⟩ : Bond))]) else p) ++ [(nxt, [(n, ⟨1, none⟩)])]⟩
    constructor
    · rw [h1]
      have : explicitH (m.atoms.map (setHEntry n (some 0)) ++ [(nxt, ({ z := 1, implH := some 0 } : Atom))]) =
          explicitH m.atoms + 1 := by
        have := explicitH_setH m.atoms n (some 0)
        simp only [explicitH, List.filter_append, List.length_append] at this ⊢
        rw [this]; rfl
      simp only [this, List.length_cons]; omega
    · intro p hp
      cases h2 p hp with
      | inl e => left; exact e
      | inr e =>
        obtain ⟨p1, hp1, ek, eh, hnot⟩ := e
        simp only [List.mem_append, List.mem_map, List.mem_singleton] at hp1
        cases hp1 with
        | inr enew => left; rw [← eh, enew]
        | inl eold =>
          obtain ⟨p0, hp0, e0⟩ := eold
          by_cases hk : p0.1 = n
          · left
            have : (p0.1 == n) = true := by simp [hk]
            rw [← eh, ← e0]; simp [setHEntry, this, withH]
          · have hb : (p0.1 == n) = false := by simp [hk]
            have e1 : p1 = p0 := by rw [← e0]; simp [setHEntry, hb]
            subst e1
            right
            refine ⟨p1, hp0, ek, eh, ?_⟩
            intro hmem
            cases List.mem_cons.mp hmem with
            | inl e2 => exact hk (ek.trans e2)
            | inr e2 => exact hnot e2

theorem optSum_all_zero (l : List (Option Nat)) (h : ∀ x ∈ l, x = some 0) : optSum l = some 0 := by
  induction l with
  | nil => rfl
  | cons x tl ih =>
    have hx := h x (by simp)
    subst hx
    simp [optSum, ih (fun y hy => h y (List.mem_cons_of_mem _ hy))]

end ChythonModel.Proofs.C04
