import ChythonModel.Proofs.C02Global
import ChythonModel.Proofs.C02GEvents
import ChythonModel.Proofs.C02ReadOk
import ChythonModel.Proofs.C02Fuel
/-!
# C02 — assembly: what is read back from the written tokens is the constitution of the molecule
-/
namespace ChythonModel.Proofs.C02
open ChythonModel.Model ChythonModel.Model.SmilesWriter ChythonModel.Model.C02RT

/-- atom ids of the written tokens, in written order -/
def wAtoms (ts : List WTok) : List Nat := ts.filterMap fun t => match t with | .atom n _ => some n | _ => none

def skAtom : SK → Option Nat
  | .atom n => some n
  | _ => none

theorem wAtoms_wsk (ts : List WTok) : wAtoms ts = (wsk ts).filterMap skAtom := by
  simp only [wAtoms, wsk, List.filterMap_filterMap]
  congr 1
  funext t
  cases t <;> rfl

theorem fatoms_fsk (l : List FTok) : fatoms l = (fsk l).filterMap skAtom := by
  simp only [fatoms, fsk, List.filterMap_filterMap]
  congr 1
  funext t
  cases t <;> rfl

theorem wAtoms_joinRounds : ∀ rs : List Round, wAtoms (joinRounds rs) = rs.flatMap fun r => wAtoms r.out := by
  intro rs
  induction rs with
  | nil => rfl
  | cons r tl ih =>
    cases tl with
    | nil => simp [joinRounds]
    | cons r2 tl2 =>
      simp only [joinRounds, List.flatMap_cons] at ih ⊢
      rw [← ih]
      simp [wAtoms, List.filterMap_append, List.filterMap_cons]

theorem wAtoms_round {m : Mol} {opts : Opts} {r : Round} (hs : RoundSpec m opts r) : wAtoms r.out = fatoms r.smi := by
  obtain ⟨order, vb', he⟩ := hs.emitted
  rw [wAtoms_wsk, fatoms_fsk, emit_skel m opts r.sc r.castedOut r.tokens r.smi r.vbIn r.out order vb' he]

/-- the pairs of all read edges are the closure pairs plus the chain pairs -/
theorem edges_split (es : List REdge) :
    (es.map fun e => (e.a, e.b)).Perm (closureEdges es ++ chainOf es) := by
  have := (List.filter_append_perm (fun e : REdge => e.closure) es).symm
  have h2 := this.map fun e => (e.a, e.b)
  simp only [List.map_append] at h2
  simpa [closureEdges, chainOf] using h2

theorem und_swap (a b : Nat) : undirected a b = undirected b a := by
  rw [undirected_eq_iff]; exact Or.inr ⟨rfl, rfl⟩

/-- **assembly** -/
theorem writer_constitution (m : Mol) (env : Env) (opts : Opts) (rs : List Round) (order : List Nat)
    (hwf : m.WF = true) (h : smilesRounds m env opts = .ok (rs, order)) :
    order.Perm m.ids ∧ wAtoms (joinRounds rs) = order ∧
    ∃ es, readToks (joinRounds rs) = .ok es ∧
      (es.map fun e => undirected e.a e.b).Nodup ∧
      ∀ a b, (∃ e ∈ es, undirected e.a e.b = undirected a b) ↔ b ∈ nk m a := by
  obtain ⟨hD, hord⟩ := smilesRounds_dfs hwf h
  obtain ⟨hs, _⟩ := smilesRounds_spec m env opts rs order h
  obtain ⟨G, M, _, F⟩ := roundsDfs_gfacts hwf rs m.ids 0 hD
  obtain ⟨hcw, honce, hevp⟩ := roundsDfs_structure (opts := opts) hwf rs m.ids 0 hD hs
  have hclosed := closure_all_closed G _ hevp
  have hperm : order.Perm m.ids := by
    rw [hord]
    exact (List.perm_ext_iff_of_nodup G.vNodup (wf_ids_nodup hwf)).2 M
  have hatoms : wAtoms (joinRounds rs) = order := by
    rw [wAtoms_joinRounds, hord]
    apply flatMap_congr'
    intro r hr
    rw [wAtoms_round (hs r hr), (F r hr).atomsVis]
  obtain ⟨es, hes⟩ := writer_readToks_ok m env opts rs order h hcw (by
    have : (rs.flatMap roundCAtoms).map (·.n) = rs.flatMap fun r => closureAtoms r.smi r.tokens := by
      rw [List.map_flatMap]
      apply flatMap_congr'
      intro r _
      simp [roundCAtoms, Function.comp_def]
    rw [this]; exact honce) hclosed
  refine ⟨hperm, hatoms, es, hes, ?_⟩
  -- chain and closure bonds
  have hchain : chainOf es = rs.flatMap fun r => fbonds r.smi := by
    have h1 := readToks_chain _ _ hes
    have h2 := skRead_rounds m opts rs (fun r hr => (hs r hr).emittedRound) none false (Or.inl rfl)
    simp only [chainRead] at h1
    have e : wsk (joinRounds rs) = (joinRounds rs).filterMap WTok.skel := rfl
    rw [← e, h2] at h1
    simp only [Option.some.injEq] at h1
    rw [← h1]; rfl
  have hclos := (writer_closures m env opts rs order h hcw es hes).1
  have hCH : (chainOf es).Perm (rs.flatMap fun r => treeP r.edges) := by
    rw [hchain]
    exact List.Perm.flatMap_left _ fun r hr => (F r hr).bondsPerm
  have hsplit := edges_split es
  rw [hclos] at hsplit
  set E := (pairAll [] (rs.flatMap cycleEvents)).2 with hE
  set Tg := rs.flatMap fun r => treeP r.edges with hTg
  set Cg := rs.flatMap fun r => cycT r.tokens with hCg
  have hmemE : ∀ a b, (a, b) ∈ E → ∃ k, (a, b, k) ∈ Cg := closure_bond_is_record G _ hevp
  have hsym : ∀ a b, b ∈ nk m a → a ∈ nk m b := fun a b hb => ((wf_nbrs hwf a).2 b hb).2.2
  have hmap : (es.map fun e => undirected e.a e.b) = (es.map fun e => (e.a, e.b)).map fun p => undirected p.1 p.2 := by
    simp [List.map_map, Function.comp_def]
  have hP : (es.map fun e => undirected e.a e.b).Perm
      ((E.map fun p => undirected p.1 p.2) ++ (Tg.map fun p => undirected p.1 p.2)) := by
    rw [hmap]
    refine (hsplit.map _).trans ?_
    simp only [List.map_append]
    exact List.Perm.append_left _ (hCH.map _)
  refine ⟨hP.nodup_iff.2 ?_, ?_⟩
  · refine List.Nodup.append (closure_bonds_nodup G _ hevp) G.tree_undirected_nodup ?_
    intro x hx hx'
    obtain ⟨p, hp, rfl⟩ := List.mem_map.1 hx
    obtain ⟨q, hq, hqe⟩ := List.mem_map.1 hx'
    obtain ⟨k, hk⟩ := hmemE p.1 p.2 hp
    exact G.tree_closure_disjoint q hq (p.1, p.2, k) hk hqe
  · intro a b
    have hmem : (∃ e ∈ es, undirected e.a e.b = undirected a b) ↔
        (∃ p, (p ∈ E ∨ p ∈ Tg) ∧ undirected p.1 p.2 = undirected a b) := by
      constructor
      · rintro ⟨e, he, heq⟩
        have : undirected e.a e.b ∈ es.map fun e => undirected e.a e.b := List.mem_map.2 ⟨e, he, rfl⟩
        have := hP.mem_iff.1 this
        rcases List.mem_append.1 this with h1 | h1
        · obtain ⟨p, hp, hpe⟩ := List.mem_map.1 h1
          exact ⟨p, Or.inl hp, hpe.trans heq⟩
        · obtain ⟨p, hp, hpe⟩ := List.mem_map.1 h1
          exact ⟨p, Or.inr hp, hpe.trans heq⟩
      · rintro ⟨p, hp, heq⟩
        have : undirected p.1 p.2 ∈ (es.map fun e => undirected e.a e.b) := by
          refine hP.mem_iff.2 (List.mem_append.2 ?_)
          rcases hp with hp | hp
          · exact Or.inl (List.mem_map.2 ⟨p, hp, rfl⟩)
          · exact Or.inr (List.mem_map.2 ⟨p, hp, rfl⟩)
        obtain ⟨e, he, hee⟩ := List.mem_map.1 this
        exact ⟨e, he, hee.trans heq⟩
    rw [hmem]
    constructor
    · rintro ⟨⟨x, y⟩, hp, heq⟩
      simp only at heq
      rw [undirected_eq_iff] at heq
      rcases hp with hp | hp
      · obtain ⟨k, hk⟩ := hmemE x y hp
        obtain ⟨c1, _, _, _, c5, _⟩ := G.cMem x y k hk
        rcases heq with ⟨rfl, rfl⟩ | ⟨rfl, rfl⟩
        · exact c5
        · exact (G.cMem _ _ k c1).2.2.2.2.1
      · obtain ⟨_, _, t3⟩ := G.tMem x y hp
        rcases heq with ⟨rfl, rfl⟩ | ⟨rfl, rfl⟩
        · exact t3
        · exact hsym _ _ t3
    · intro hb
      have haV : a ∈ rs.flatMap (·.visited) := by
        rw [M]
        by_contra hn
        have := Fuel.nbrs_nil_of_not_mem hwf hn
        simp [nk, this] at hb
      rcases (G.mem_bond_iff hsym a b haV).1 hb with h1 | h1 | ⟨k, hk⟩
      · exact ⟨(a, b), Or.inr h1, rfl⟩
      · exact ⟨(b, a), Or.inr h1, und_swap b a⟩
      · rcases record_is_closure_bond G _ hevp a b k hk with h2 | h2
        · exact ⟨(a, b), Or.inl h2, rfl⟩
        · exact ⟨(b, a), Or.inl h2, und_swap b a⟩

end ChythonModel.Proofs.C02
