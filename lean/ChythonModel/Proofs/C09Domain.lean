import ChythonModel.Proofs.C09Mask
namespace ChythonModel.Proofs.C09
open ChythonModel.Model.Bits ChythonModel.Gen.Bits ChythonModel.Model.Query

/-- atomic numbers a query atom names -/
def kindElems : QKind → List Nat
  | .element z _ => [z]
  | .list zs => zs
  | _ => []

/-- the pair does not run into the shared Lv/Ts/Og bit: either nothing above 116 is involved,
    or the atom is Ts/Og and the query names no element above 115 (and is not the any-metal query) -/
def NoHeavyClash (q : QAtom) (a : MAtom) : Prop :=
  (a.z ≤ 116 ∧ ∀ z ∈ kindElems q.kind, z ≤ 116) ∨
  (117 ≤ a.z ∧ isMetalKind q.kind = false ∧ ∀ z ∈ kindElems q.kind, z ≤ 115)

/-- the hydrogen count of the atom is known, or the query does not constrain it -/
def HKnown (q : QAtom) (a : MAtom) : Prop := a.implH.isSome = true ∨ q.implH = [] ∨ isMetalKind q.kind = true

theorem capS_gt (z : Nat) (h : 117 ≤ z) : capS z = 116 := by
  have h' : z > 116 := by omega
  simp [capS, sHeavyGt, sHeavyCap, h']

theorem pyEq_raw (q : QAtom) (a : MAtom) :
    pyEq q a =
      ((match q.kind with
        | .element zq _ => zq == a.z
        | .any => true
        | .list zs => zs.contains a.z
        | .metal => !notMetal a.z) &&
        (if isMetalKind q.kind then
          (!tupleRejects q.neighbors a.neighbors && !tupleRejects q.hybridization a.hybridization)
        else
          ((q.charge == a.charge) && (q.radical == a.radical) && !isoRejects (kindIso q.kind) a.isotope &&
           !tupleRejects q.neighbors a.neighbors && !tupleRejects q.hybridization a.hybridization &&
           !ringRejects q.ringSizes a.ringSizes && !hRejects q.implH a.implH &&
           !tupleRejects q.heteroatoms a.heteroatoms))) := by
  unfold pyEq
  cases hk : q.kind with
  | element zq iso =>
    simp only [isMetalKind, kindIso, extendedTail_eq, Bool.false_eq_true, if_false]
    cases h : (zq == a.z)
    · have : (zq != a.z) = true := by simp [bne, h]
      simp [this]
    · have : (zq != a.z) = false := by simp [bne, h]
      simp [this]
  | any => simp only [isMetalKind, kindIso, extendedTail_eq, Bool.false_eq_true, if_false, Bool.true_and]
  | list zs =>
    simp only [isMetalKind, kindIso, extendedTail_eq, Bool.false_eq_true, if_false]
    cases zs.contains a.z <;> simp
  | metal =>
    simp only [isMetalKind, if_true]
    cases notMetal a.z <;> cases tupleRejects q.neighbors a.neighbors <;>
      cases tupleRejects q.hybridization a.hybridization <;> rfl

theorem kindAccepts_raw (q : QAtom) (a : MAtom) (h : NoHeavyClash q a) :
    kindAccepts q.kind a.z =
      (match q.kind with
        | .element zq _ => zq == a.z
        | .any => true
        | .list zs => zs.contains a.z
        | .metal => !notMetal a.z) := by
  have key : ∀ zq ∈ kindElems q.kind, (capS zq == capS a.z) = (zq == a.z) := by
    intro zq hzq
    rcases h with ⟨h1, h2⟩ | ⟨h1, _, h3⟩
    · rw [capS_of_le a.z h1, capS_of_le zq (h2 zq hzq)]
    · have := h3 zq hzq
      rw [capS_gt a.z h1, capS_of_le zq (by omega)]
      rw [Bool.eq_iff_iff, beq_iff_eq, beq_iff_eq]; omega
  cases hk : q.kind with
  | element zq iso => rw [hk] at key; exact key zq (by simp [kindElems])
  | any => rfl
  | list zs =>
    rw [hk] at key
    simp only [kindAccepts, kindElems] at key ⊢
    rw [any_congr_mem zs _ (fun zq => zq == a.z) key]
    exact any_beq_contains zs a.z
  | metal =>
    simp only [kindAccepts]
    rcases h with ⟨h1, _⟩ | ⟨_, h2, _⟩
    · rw [capS_of_le a.z h1]
    · rw [hk] at h2; simp [isMetalKind] at h2

theorem hRejects_norm (q : QAtom) (a : MAtom) (h : a.implH.isSome = true ∨ q.implH = []) :
    hRejects q.implH (some (hOr a.implH)) = hRejects q.implH a.implH := by
  rcases h with h | h
  · cases ha : a.implH with
    | none => rw [ha] at h; simp at h
    | some k =>
      have : hOr (some k) = k := by
        unfold hOr; by_cases hk : k = 0 <;> simp [hk, sHNone]
      rw [this]
  · rw [h]; simp [hRejects]

/-- inside the documented domain the normalisation is invisible to the reference comparison -/
theorem pyEq_norm_eq (q : QAtom) (a : MAtom) (h : NoHeavyClash q a) (hH : HKnown q a) :
    pyEq (normQ q) (normA a) = pyEq q a := by
  rw [pyEq_norm, pyEq_raw, kindAccepts_raw q a h]
  cases hm : isMetalKind q.kind
  · have hH' : a.implH.isSome = true ∨ q.implH = [] := by
      rcases hH with h | h | h
      · exact Or.inl h
      · exact Or.inr h
      · rw [hm] at h; simp at h
    simp only [Bool.false_eq_true, if_false, hRejects_norm q a hH']
  · simp only [if_true]

/-- `QueryElement.mdl_isotope` and `Element.mdl_isotope` of the same atomic number coincide when every table row says so -/
theorem mdl_tables_agree_gen (l : List ChythonModel.Gen.ElemRow) (h : ∀ r ∈ l, r.qmdl = some r.mdl ∧ r.qz = some r.z) (z : Nat) :
    (l.find? (·.qz == some z)).bind (·.qmdl) = (l.find? (·.z == z)).map (·.mdl) := by
  induction l with
  | nil => rfl
  | cons r rs ih =>
    have hr := h r (by simp)
    have ih' := ih (fun x hx => h x (by simp [hx]))
    simp only [List.find?_cons, hr.2]
    by_cases hz : r.z = z
    · simp [hz, hr.1]
    · have : (some r.z == some z) = false := by simp [hz]
      have : (r.z == z) = false := by simp [hz]
      simp [*]

end ChythonModel.Proofs.C09
