import ChythonModel.Proofs.C08Reject
import ChythonModel.Spec.SmartsDoc
/-!
# C08 — reading back printed numbers, value lists and separators (general lemmas, no bound on the numbers or list lengths)
-/
namespace ChythonModel.Proofs.C08
open ChythonModel.Model.Query ChythonModel.Spec.Query ChythonModel.Gen.Query

theorem isDigit_of_charIsDigit (c : Char) (h : c.isDigit = true) : isDigit c = true := by
  unfold Char.isDigit at h
  unfold isDigit
  simp only [Bool.and_eq_true, decide_eq_true_eq] at h ⊢
  constructor
  · show '0'.val ≤ c.val
    exact h.1
  · show c.val ≤ '9'.val
    exact h.2

theorem printNat_digits (n : Nat) : ∀ c ∈ printNat n, isDigit c = true := fun c hc =>
  isDigit_of_charIsDigit c (Nat.isDigit_of_mem_toDigits (by decide) (by decide) hc)

theorem printNat_ne_nil (n : Nat) : printNat n ≠ [] := Nat.toDigits_ne_nil

theorem natOfDigits_printNat (n : Nat) : natOfDigits (printNat n) = n := by
  have := Nat.ofDigitChars_toDigits (b := 10) (n := n) (by decide) (by decide)
  unfold natOfDigits printNat
  simpa [Nat.ofDigitChars, digitVal] using this

theorem digitsU_digits : ∀ (ds : List Char) (prev : Bool) (acc : Nat), (∀ c ∈ ds, isDigit c = true) → (ds ≠ [] ∨ prev = true) →
    digitsU ds prev acc = some (ds.foldl (fun a c => 10 * a + digitVal c) acc)
  | [], prev, acc, _, h => by
    rcases h with h | h
    · exact absurd rfl h
    · simp [digitsU, h]
  | c :: cs, prev, acc, hd, _ => by
    unfold digitsU
    simp only [hd c List.mem_cons_self, if_true, List.foldl_cons]
    exact digitsU_digits cs true _ (fun x hx => hd x (List.mem_cons_of_mem _ hx)) (Or.inr rfl)

theorem digit_not_space (c : Char) (h : isDigit c = true) : isPySpace c = false := by
  unfold isDigit at h
  simp only [Bool.and_eq_true, decide_eq_true_eq] at h
  have h1 : 48 ≤ c.toNat := h.1
  have h2 : c.toNat ≤ 57 := h.2
  unfold isPySpace
  have e1 : (c == ' ') = false := by
    apply beq_eq_false_iff_ne.mpr; intro e; subst e; revert h1; decide
  have e2 : (c == '\t') = false := by
    apply beq_eq_false_iff_ne.mpr; intro e; subst e; revert h1; decide
  have e3 : (c == '\n') = false := by
    apply beq_eq_false_iff_ne.mpr; intro e; subst e; revert h1; decide
  have e4 : (c == '\r') = false := by
    apply beq_eq_false_iff_ne.mpr; intro e; subst e; revert h1; decide
  have e5 : (c.toNat == 11) = false := by simp; omega
  have e6 : (c.toNat == 12) = false := by simp; omega
  have e7 : (c.toNat == 28) = false := by simp; omega
  have e8 : (c.toNat == 29) = false := by simp; omega
  have e9 : (c.toNat == 30) = false := by simp; omega
  have e10 : (c.toNat == 31) = false := by simp; omega
  simp [e1, e2, e3, e4, e5, e6, e7, e8, e9, e10]

theorem dropSpaces_head (c : Char) (cs : List Char) (h : isPySpace c = false) : dropSpaces (c :: cs) = c :: cs := by
  simp [dropSpaces, h]

theorem dropSpaces_digits (s : List Char) (hd : ∀ c ∈ s, isDigit c = true) : dropSpaces s = s := by
  cases s with
  | nil => rfl
  | cons c cs => exact dropSpaces_head c cs (digit_not_space c (hd c List.mem_cons_self))

theorem pyInt_digits (s : List Char) (hne : s ≠ []) (hd : ∀ c ∈ s, isDigit c = true) : pyInt s = some (Int.ofNat (natOfDigits s)) := by
  unfold pyInt
  have hr : ∀ c ∈ s.reverse, isDigit c = true := fun c hc => hd c (List.mem_reverse.mp hc)
  rw [dropSpaces_digits s hd, dropSpaces_digits s.reverse hr, List.reverse_reverse]
  cases s with
  | nil => exact absurd rfl hne
  | cons c cs =>
    have hc := hd c List.mem_cons_self
    have np : c ≠ '+' := by intro e; subst e; revert hc; decide
    have nm : c ≠ '-' := by intro e; subst e; revert hc; decide
    have := digitsU_digits (c :: cs) false 0 hd (Or.inl (by simp))
    simp only
    split
    · rename_i r heq; injection heq with h1 _; exact absurd h1 np
    · rename_i r heq; injection heq with h1 _; exact absurd h1 nm
    · rw [this]; rfl

theorem pyInt_printNat (n : Nat) : pyInt (printNat n) = some (Int.ofNat n) := by
  rw [pyInt_digits _ (printNat_ne_nil n) (printNat_digits n), natOfDigits_printNat]

/-! ### `split` -/

theorem splitOn_nosep (sep : Char) : ∀ a : List Char, (∀ c ∈ a, c ≠ sep) → splitOn sep a = [a]
  | [], _ => rfl
  | x :: xs, h => by
    unfold splitOn
    rw [splitOn_nosep sep xs (fun c hc => h c (List.mem_cons_of_mem _ hc))]
    have : (x == sep) = false := by simp [h x List.mem_cons_self]
    simp [this]

theorem splitOn_ne_nil (sep : Char) : ∀ l : List Char, splitOn sep l ≠ []
  | [] => by simp [splitOn]
  | y :: ys => by
    unfold splitOn
    cases h' : splitOn sep ys with
    | nil => exact absurd h' (splitOn_ne_nil sep ys)
    | cons hd tl => simp only; split <;> simp

theorem splitOn_cons_sep (sep : Char) (b : List Char) : splitOn sep (sep :: b) = [] :: splitOn sep b := by
  rw [splitOn]
  cases h : splitOn sep b with
  | nil => exact absurd h (splitOn_ne_nil sep b)
  | cons hd tl => simp

theorem splitOn_cons_ne (sep x : Char) (xs : List Char) (h : x ≠ sep) :
    splitOn sep (x :: xs) = (match splitOn sep xs with | [] => [[]] | hd :: tl => (x :: hd) :: tl) := by
  rw [splitOn]
  have : (x == sep) = false := by simp [h]
  cases splitOn sep xs with
  | nil => rfl
  | cons hd tl => simp [this]

theorem splitOn_append (sep : Char) : ∀ (a b : List Char), (∀ c ∈ a, c ≠ sep) →
    splitOn sep (a ++ sep :: b) = a :: splitOn sep b
  | [], b, _ => splitOn_cons_sep sep b
  | x :: xs, b, h => by
    show splitOn sep (x :: (xs ++ sep :: b)) = _
    rw [splitOn_cons_ne sep x _ (h x List.mem_cons_self),
        splitOn_append sep xs b (fun c hc => h c (List.mem_cons_of_mem _ hc))]

theorem splitOn_joinWith (sep : Char) : ∀ (ps : List (List Char)), ps ≠ [] → (∀ p ∈ ps, ∀ c ∈ p, c ≠ sep) →
    splitOn sep (joinWith sep ps) = ps
  | [], h, _ => absurd rfl h
  | [p], _, hp => by simp [joinWith, splitOn_nosep sep p (hp p (by simp))]
  | p :: q :: rest, _, hp => by
    show splitOn sep (p ++ sep :: joinWith sep (q :: rest)) = _
    rw [splitOn_append sep p _ (hp p (by simp)),
        splitOn_joinWith sep (q :: rest) (by simp) (fun x hx => hp x (List.mem_cons_of_mem _ hx))]

/-! ### one numeric primitive with an arbitrary value list -/

theorem digit_ne_comma (c : Char) (h : isDigit c = true) : c ≠ ',' := by
  intro e; subst e; revert h; decide

theorem parsePrimNums_printed (t : Char) : ∀ l : List Nat,
    parsePrimNums (l.map fun v => t :: printNat v) = .ok (l.map Int.ofNat)
  | [] => rfl
  | v :: vs => by
    simp only [List.map_cons, parsePrimNums, List.tail_cons, pyInt_printNat, parsePrimNums_printed t vs, bind, Except.bind]

theorem firstChars_printed (t : Char) : ∀ l : List Nat,
    firstChars (l.map fun v => t :: printNat v) = some (l.map fun _ => t)
  | [] => rfl
  | v :: vs => by simp [firstChars, firstChars_printed t vs]

theorem allSame_const (t : Char) {α} (l : List α) : allSame (l.map fun _ => t) = true := by
  cases l with
  | nil => rfl
  | cons _ tl => simp [allSame, List.all_eq_true]

/-- a printed value list `t v1 , t v2 , …` is read as the list of its values under the key of letter `t` -/
theorem applyNumPrim_printed (out : Parsed) (t : Char) (ht : primLetters.contains t = true) (l : List Nat) (hne : l ≠ []) :
    applyNumPrim out (l.map fun v => t :: printNat v) = .ok (setPrim out t (l.map Int.ofNat)) := by
  unfold applyNumPrim
  cases l with
  | nil => exact absurd rfl hne
  | cons v vs =>
    cases vs with
    | nil =>
      have ht' : t ∈ primLetters := List.contains_iff_mem.mp ht
      simp [ht', parsePrimNums, pyInt_printNat, bind, Except.bind]
    | cons w ws =>
      have ht' : t ∈ primLetters := List.contains_iff_mem.mp ht
      have hfc := firstChars_printed t (v :: w :: ws)
      have hsame := allSame_const t (v :: w :: ws)
      have hp := parsePrimNums_printed t (v :: w :: ws)
      simp only [List.map_cons] at hfc hsame hp ⊢
      simp [hfc, hsame, ht', hp]

/-! ### the four mark scanners on structured text -/

theorem spanDigits_split : ∀ (ds rest : List Char), (∀ c ∈ ds, isDigit c = true) →
    (match rest with | [] => True | r :: _ => isDigit r = false) → spanDigits (ds ++ rest) = (ds, rest)
  | [], rest, _, hr => by
    cases rest with
    | nil => rfl
    | cons r rs => simp only [List.nil_append, spanDigits]; simp only at hr; simp [hr]
  | d :: ds, rest, hd, hr => by
    simp only [List.cons_append, spanDigits, hd d List.mem_cons_self, if_true,
               spanDigits_split ds rest (fun c hc => hd c (List.mem_cons_of_mem _ hc)) hr]

theorem chgSearch_none : ∀ s : List Char, (∀ c ∈ s, c ≠ '+' ∧ c ≠ '-') → chgSearch s = none
  | [], _ => rfl
  | x :: xs, h => by
    have hx := h x List.mem_cons_self
    have : (x == '+' || x == '-') = false := by simp [hx.1, hx.2]
    simp only [chgSearch, this, Bool.false_eq_true, if_false,
               chgSearch_none xs (fun c hc => h c (List.mem_cons_of_mem _ hc)), Option.map_none]

/-- a charge text is `+`/`-` alone (then what follows must not extend it) or followed by one of `1234+-` -/
def chargeFollowOk (post : List Char) : Bool :=
  match post with
  | [] => true
  | d :: _ => !(d == '1' || d == '2' || d == '3' || d == '4' || d == '+' || d == '-')

theorem chgSearch_found : ∀ (pre : List Char) (sg : Char) (ext : Option Char) (post : List Char),
    (∀ c ∈ pre, c ≠ '+' ∧ c ≠ '-') → (sg = '+' ∨ sg = '-') →
    (match ext with
     | some d => (d == '1' || d == '2' || d == '3' || d == '4' || d == '+' || d == '-') = true
     | none => chargeFollowOk post = true) →
    chgSearch (pre ++ sg :: (ext.toList ++ post)) = some (pre, sg :: ext.toList, post)
  | [], sg, ext, post, _, hs, he => by
    have hsg : (sg == '+' || sg == '-') = true := by rcases hs with e | e <;> simp [e]
    cases ext with
    | some d => simp only at he; simp [chgSearch, hsg, he]
    | none =>
      simp only [Option.toList_none, List.nil_append, List.append_nil]
      cases post with
      | nil => simp [chgSearch, hsg]
      | cons d ds =>
        simp only [chargeFollowOk, Bool.not_eq_true'] at he
        simp [chgSearch, hsg, he]
  | x :: xs, sg, ext, post, hp, hs, he => by
    have hx := hp x List.mem_cons_self
    have : (x == '+' || x == '-') = false := by simp [hx.1, hx.2]
    simp only [List.cons_append, chgSearch, this, Bool.false_eq_true, if_false,
               chgSearch_found xs sg ext post (fun c hc => hp c (List.mem_cons_of_mem _ hc)) hs he, Option.map_some]

theorem mppSearch_none : ∀ s : List Char, (∀ c ∈ s, c ≠ ':') → mppSearch s = none
  | [], _ => rfl
  | x :: xs, h => by
    have : (x == ':') = false := by simp [h x List.mem_cons_self]
    simp only [mppSearch, this, Bool.false_and, Bool.false_eq_true, if_false,
               mppSearch_none xs (fun c hc => h c (List.mem_cons_of_mem _ hc)), Option.map_none]

theorem mppSearch_found : ∀ (pre ds : List Char), (∀ c ∈ pre, c ≠ ':') → mppTail ds = true →
    mppSearch (pre ++ ':' :: ds) = some (pre, natOfDigits ds)
  | [], ds, _, ht => by simp [mppSearch, ht]
  | x :: xs, ds, hp, ht => by
    have : (x == ':') = false := by simp [hp x List.mem_cons_self]
    simp only [List.cons_append, mppSearch, this, Bool.false_and, Bool.false_eq_true, if_false,
               mppSearch_found xs ds (fun c hc => hp c (List.mem_cons_of_mem _ hc)) ht, Option.map_some]

theorem strSearch_none : ∀ s : List Char, (∀ c ∈ s, c ≠ '@') → strSearch s = none
  | [], _ => rfl
  | x :: xs, h => by
    have : (x == '@') = false := by simp [h x List.mem_cons_self]
    simp only [strSearch, this, Bool.false_eq_true, if_false,
               strSearch_none xs (fun c hc => h c (List.mem_cons_of_mem _ hc)), Option.map_none]

def notStereoExt : List Char → Prop
  | [] => True
  | d :: _ => d ≠ '@' ∧ d ≠ '?'

/-- `@` followed by something that is not `@` / `?`, or `@@` followed by anything -/
theorem strSearch_found : ∀ (pre : List Char) (two : Bool) (post : List Char), (∀ c ∈ pre, c ≠ '@') →
    (two = false → notStereoExt post) →
    strSearch (pre ++ '@' :: ((if two then ['@'] else []) ++ post)) = some (pre, '@' :: (if two then ['@'] else []), post)
  | [], two, post, _, hpost => by
    cases two with
    | true => simp [strSearch]
    | false =>
      simp only [Bool.false_eq_true, if_false, List.nil_append]
      cases post with
      | nil => simp [strSearch]
      | cons d ds =>
        have := hpost rfl
        simp only [notStereoExt] at this
        simp [strSearch, this.1, this.2]
  | x :: xs, two, post, hp, hpost => by
    have : (x == '@') = false := by simp [hp x List.mem_cons_self]
    simp only [List.cons_append, strSearch, this, Bool.false_eq_true, if_false,
               strSearch_found xs two post (fun c hc => hp c (List.mem_cons_of_mem _ hc)) hpost, Option.map_some]

/-! ### `stripMarks` on `iso ++ head ++ stereo ++ charge ++ prims ++ map` -/

def stereoText : Option Bool → List Char
  | none => []
  | some true => ['@']
  | some false => ['@', '@']

def chargeText : Option (Char × Option Char) → List Char
  | none => []
  | some (sg, ext) => sg :: ext.toList

def mapText : Option (List Char) → List Char
  | none => []
  | some ds => ':' :: ds

/-- characters that none of the mark scanners looks for -/
def plainChar (c : Char) : Prop := c ≠ '+' ∧ c ≠ '-' ∧ c ≠ ':' ∧ c ≠ '@' ∧ c ≠ '[' ∧ c ≠ ']'

/-- text that follows the marks: nothing, or the `;` of the first primitive -/
def startsWithSemi (l : List Char) : Prop := l = [] ∨ ∃ t, l = ';' :: t

def strResult (head prims : List Char) : Option Bool → Option (List Char × List Char × List Char)
  | none => none
  | some b => some (head, stereoText (some b), prims)

def mppResult (pre : List Char) : Option (List Char) → Option (List Char × Nat)
  | none => none
  | some ds => some (pre, natOfDigits ds)

def mapOk : Option (List Char) → Prop
  | none => True
  | some ds => mppTail ds = true

def headOk : List Char → Prop
  | [] => False
  | r :: _ => isDigit r = false

def extOk : Option Char → Prop
  | some d => (d == '1' || d == '2' || d == '3' || d == '4' || d == '+' || d == '-') = true
  | none => True

def chgOk : Option (Char × Option Char) → Option Int → Prop
  | none, cval => cval = none
  | some (sg, ext), cval => (sg = '+' ∨ sg = '-') ∧ lookupC (sg :: ext.toList) chargeDict = cval ∧ cval.isSome = true ∧ extOk ext

theorem notStereoExt_of_semi (prims : List Char) (hsemi : startsWithSemi prims) : notStereoExt prims := by
  rcases hsemi with e | ⟨t, e⟩
  · subst e; trivial
  · subst e; exact ⟨by decide, by decide⟩

theorem strStep (head prims : List Char) (st : Option Bool) (hh : ∀ c ∈ head, c ≠ '@') (hp : ∀ c ∈ prims, c ≠ '@')
    (hsemi : startsWithSemi prims) :
    strSearch (head ++ stereoText st ++ prims) = strResult head prims st := by
  cases st with
  | none =>
    have e : head ++ stereoText none ++ prims = head ++ prims := by simp [stereoText]
    rw [e]
    exact strSearch_none _ (fun c hc => by
      rcases List.mem_append.mp hc with h | h
      · exact hh c h
      · exact hp c h)
  | some b =>
    have := strSearch_found head (!b) prims hh (fun _ => notStereoExt_of_semi prims hsemi)
    cases b with
    | true =>
      have e : head ++ stereoText (some true) ++ prims = head ++ '@' :: ((if (!true) = true then ['@'] else []) ++ prims) := by
        simp [stereoText]
      rw [e, this]; rfl
    | false =>
      have e : head ++ stereoText (some false) ++ prims = head ++ '@' :: ((if (!false) = true then ['@'] else []) ++ prims) := by
        simp [stereoText]
      rw [e, this]; rfl

theorem mppStep (pre : List Char) (mp : Option (List Char)) (hpre : ∀ c ∈ pre, c ≠ ':') (hmp : mapOk mp) :
    mppSearch (pre ++ mapText mp) = mppResult pre mp := by
  cases mp with
  | none =>
    have e : pre ++ mapText none = pre := by simp [mapText]
    rw [e]; exact mppSearch_none _ hpre
  | some ds =>
    have e : pre ++ mapText (some ds) = pre ++ ':' :: ds := by simp [mapText]
    rw [e]; exact mppSearch_found pre ds hpre hmp

theorem stripMarks_structured (iso head : List Char) (st : Option Bool) (chg : Option (Char × Option Char))
    (prims : List Char) (mp : Option (List Char)) (cval : Option Int)
    (hiso : ∀ c ∈ iso, isDigit c = true) (hhead0 : headOk head)
    (hhead : ∀ c ∈ head, plainChar c) (hprims : ∀ c ∈ prims, plainChar c) (hsemi : startsWithSemi prims)
    (hchg : chgOk chg cval) (hmp : mapOk mp) :
    stripMarks (iso ++ head ++ stereoText st ++ chargeText chg ++ prims ++ mapText mp) =
      .ok (head ++ prims, { isotope := if iso.isEmpty then none else some (natOfDigits iso), charge := cval,
                            mapping := mp.map natOfDigits, stereo := st }) := by
  have hst : ∀ c ∈ stereoText st, c ≠ '+' ∧ c ≠ '-' ∧ c ≠ ':' := by
    intro c hc; cases st with
    | none => cases hc
    | some b => cases b <;> (simp [stereoText] at hc; subst hc; decide)
  have hpost_chg : chargeFollowOk (prims ++ mapText mp) = true := by
    rcases hsemi with e | ⟨t, e⟩
    · subst e; cases mp <;> simp [mapText, chargeFollowOk]
    · subst e; simp [chargeFollowOk]
  have hmapc : ∀ c ∈ mapText mp, c ≠ '+' ∧ c ≠ '-' := by
    intro c hc
    cases mp with
    | none => cases hc
    | some ds =>
      simp only [mapText, List.mem_cons] at hc
      rcases hc with e | m
      · subst e; decide
      · have hd : isDigit c = true := by
          cases ds with
          | nil => cases m
          | cons d dt =>
            simp only [mapOk, mppTail, Bool.and_eq_true, decide_eq_true_eq, List.all_eq_true] at hmp
            rcases List.mem_cons.mp m with e | m'
            · subst e
              unfold isDigit
              simp only [Bool.and_eq_true, decide_eq_true_eq]
              exact ⟨Char.le_trans (by decide : '0' ≤ '1') hmp.1.1, hmp.1.2⟩
            · exact hmp.2 c m'
        refine ⟨?_, ?_⟩ <;> (intro e; subst e; revert hd; decide)
  have h1 : spanDigits (iso ++ (head ++ stereoText st ++ chargeText chg ++ prims ++ mapText mp)) =
      (iso, head ++ stereoText st ++ chargeText chg ++ prims ++ mapText mp) := by
    apply spanDigits_split iso _ hiso
    cases head with
    | nil => exact hhead0.elim
    | cons r rs => simpa [headOk] using hhead0
  have hpre : ∀ c ∈ head ++ stereoText st ++ prims, c ≠ ':' := by
    intro c hc
    simp only [List.mem_append] at hc
    rcases hc with (h | h) | h
    · exact (hhead c h).2.2.1
    · exact (hst c h).2.2
    · exact (hprims c h).2.2.1
  have hms := mppStep (head ++ stereoText st ++ prims) mp hpre hmp
  have hss := strStep head prims st (fun c hc => (hhead c hc).2.2.2.1) (fun c hc => (hprims c hc).2.2.2.1) hsemi
  -- the two last steps, on the text that is left after the charge step
  have finish : ∀ (cv : Option Int),
      (Except.ok
        (match strSearch (match mppResult (head ++ stereoText st ++ prims) mp with
                          | none => head ++ stereoText st ++ prims ++ mapText mp | some (b, _) => b) with
          | none => (match mppResult (head ++ stereoText st ++ prims) mp with
                     | none => head ++ stereoText st ++ prims ++ mapText mp | some (b, _) => b)
          | some (b, _, a) => b ++ a,
         ({ isotope := if iso.isEmpty then none else some (natOfDigits iso), charge := cv,
            mapping := (mppResult (head ++ stereoText st ++ prims) mp).map (·.2),
            stereo := (strSearch (match mppResult (head ++ stereoText st ++ prims) mp with
                          | none => head ++ stereoText st ++ prims ++ mapText mp | some (b, _) => b)).map
                        fun x => x.2.1 == ['@'] } : Marks)) : Except PyErr (List Char × Marks)) =
      .ok (head ++ prims, { isotope := if iso.isEmpty then none else some (natOfDigits iso), charge := cv,
                            mapping := mp.map natOfDigits, stereo := st }) := by
    intro cv
    cases mp with
    | none =>
      simp only [mppResult, mapText, List.append_nil, hss]
      cases st with
      | none => simp [strResult, stereoText]
      | some b => cases b <;> simp [strResult, stereoText]
    | some ds =>
      simp only [mppResult, hss]
      cases st with
      | none => simp [strResult, stereoText]
      | some b => cases b <;> simp [strResult, stereoText]
  unfold stripMarks
  have hassoc : iso ++ head ++ stereoText st ++ chargeText chg ++ prims ++ mapText mp =
      iso ++ (head ++ stereoText st ++ chargeText chg ++ prims ++ mapText mp) := by simp [List.append_assoc]
  rw [hassoc, h1]
  simp only
  cases chg with
  | none =>
    simp only [chgOk] at hchg
    subst hchg
    have hnone : chgSearch (head ++ stereoText st ++ chargeText none ++ prims ++ mapText mp) = none := by
      apply chgSearch_none
      intro c hc
      simp only [chargeText, List.append_nil, List.mem_append] at hc
      rcases hc with ((h | h) | h) | h
      · exact ⟨(hhead c h).1, (hhead c h).2.1⟩
      · exact ⟨(hst c h).1, (hst c h).2.1⟩
      · exact ⟨(hprims c h).1, (hprims c h).2.1⟩
      · exact hmapc c h
    have e0 : head ++ stereoText st ++ chargeText none ++ prims ++ mapText mp = head ++ stereoText st ++ prims ++ mapText mp := by
      simp [chargeText]
    simp only [hnone]
    rw [e0, hms]
    exact finish none
  | some ce =>
    obtain ⟨sg, ext⟩ := ce
    simp only [chgOk] at hchg
    obtain ⟨hsg, hlook, hsome, hext⟩ := hchg
    have hpre2 : ∀ c ∈ head ++ stereoText st, c ≠ '+' ∧ c ≠ '-' := by
      intro c hc
      simp only [List.mem_append] at hc
      rcases hc with h | h
      · exact ⟨(hhead c h).1, (hhead c h).2.1⟩
      · exact ⟨(hst c h).1, (hst c h).2.1⟩
    have hfound := chgSearch_found (head ++ stereoText st) sg ext (prims ++ mapText mp) hpre2 hsg
      (by cases ext with
          | some d => simpa [extOk] using hext
          | none => simpa using hpost_chg)
    have hshape : head ++ stereoText st ++ chargeText (some (sg, ext)) ++ prims ++ mapText mp =
        (head ++ stereoText st) ++ sg :: (ext.toList ++ (prims ++ mapText mp)) := by
      simp [chargeText, List.append_assoc]
    rw [hshape, hfound]
    cases hcv : cval with
    | none => rw [hcv] at hsome; cases hsome
    | some cv =>
      rw [hcv] at hlook
      simp only [hlook]
      have e0 : (head ++ stereoText st) ++ (prims ++ mapText mp) = head ++ stereoText st ++ prims ++ mapText mp := by
        simp [List.append_assoc]
      rw [e0, hms]
      exact finish (some cv)

/-! ### `;`-splitting of `head ++ ;p1 ;p2 …`, element items, primitive bodies -/

theorem splitOn_semi (head : List Char) (hh : ∀ c ∈ head, c ≠ ';') :
    ∀ bodies : List (List Char), (∀ b ∈ bodies, ∀ c ∈ b, c ≠ ';') →
      splitOn ';' (head ++ (bodies.map fun p => ';' :: p).flatten) = head :: bodies
  | [], _ => by simp [splitOn_nosep ';' head hh]
  | b :: bs, hb => by
    have : head ++ ((b :: bs).map fun p => ';' :: p).flatten = head ++ ';' :: (b ++ (bs.map fun p => ';' :: p).flatten) := by
      simp
    rw [this, splitOn_append ';' head _ hh, splitOn_semi b (hb b (by simp)) bs (fun x hx => hb x (List.mem_cons_of_mem _ hx))]

theorem symbols_are_letters : ∀ z ∈ List.range' 1 118, (symbolOf z).all isLetter = true ∧ symbolOf z ≠ [] := by
  decide +kernel

theorem letter_facts (c : Char) (h : isLetter c = true) :
    isDigit c = false ∧ c ≠ '#' ∧ c ≠ ',' ∧ c ≠ ';' ∧ c ≠ '+' ∧ c ≠ '-' ∧ c ≠ ':' ∧ c ≠ '@' ∧ c ≠ '!' ∧ c ≠ '[' ∧ c ≠ ']' := by
  have hn : ∀ d : Char, isLetter d = false → c ≠ d := fun d hd e => by subst e; rw [h] at hd; cases hd
  refine ⟨?_, hn _ (by decide), hn _ (by decide), hn _ (by decide), hn _ (by decide), hn _ (by decide), hn _ (by decide),
          hn _ (by decide), hn _ (by decide), hn _ (by decide), hn _ (by decide)⟩
  unfold isLetter at h
  unfold isDigit
  simp only [Bool.or_eq_true, Bool.and_eq_true, decide_eq_true_eq] at h
  simp only [Bool.and_eq_false_iff, decide_eq_false_iff_not, Char.not_le]
  rcases h with ⟨h1, _⟩ | ⟨h1, _⟩
  · right
    have h1' : 97 ≤ c.toNat := h1
    show 57 < c.toNat
    omega
  · right
    have h1' : 65 ≤ c.toNat := h1
    show 57 < c.toNat
    omega

/-- the token `_query_parse` makes of a printed item -/
def tokOf : DocItem → ElemTok
  | .sym z => .sym (symbolOf z)
  | .num z => .num (Int.ofNat z)

def itemOk (i : DocItem) : Prop := 1 ≤ i.z ∧ i.z ≤ 118

theorem symbolOf_facts (z : Nat) (h1 : 1 ≤ z) (h2 : z ≤ 118) :
    (∀ c ∈ symbolOf z, isLetter c = true) ∧ symbolOf z ≠ [] := by
  have := symbols_are_letters z (List.mem_range'_1.mpr ⟨h1, by omega⟩)
  exact ⟨fun c hc => List.all_eq_true.mp this.1 c hc, this.2⟩

theorem parseElemItems_printed : ∀ l : List DocItem, (∀ i ∈ l, itemOk i) →
    parseElemItems (l.map printItem) = .ok (l.map tokOf)
  | [], _ => rfl
  | i :: rest, h => by
    have ih := parseElemItems_printed rest (fun j hj => h j (List.mem_cons_of_mem _ hj))
    cases i with
    | num z =>
      simp only [List.map_cons, printItem, parseElemItems, pyInt_printNat, ih, bind, Except.bind, tokOf]
    | sym z =>
      obtain ⟨hl, hne⟩ := symbolOf_facts z (h _ List.mem_cons_self).1 (h _ List.mem_cons_self).2
      simp only [List.map_cons, printItem, tokOf]
      cases hs : symbolOf z with
      | nil => exact absurd hs hne
      | cons c cs =>
        have hc : c ≠ '#' := (letter_facts c (hl c (by rw [hs]; simp))).2.1
        unfold parseElemItems
        split
        · rename_i r heq; injection heq with e1 _; exact absurd e1 hc
        · simp only [ih, bind, Except.bind]

theorem printItem_chars (i : DocItem) (hi : itemOk i) :
    (∀ c ∈ printItem i, (isLetter c = true ∨ isDigit c = true ∨ c = '#')) ∧ headOk (printItem i) := by
  cases i with
  | sym z =>
    obtain ⟨hl, hne⟩ := symbolOf_facts z hi.1 hi.2
    refine ⟨fun c hc => Or.inl (hl c hc), ?_⟩
    simp only [printItem]
    cases hs : symbolOf z with
    | nil => exact absurd hs hne
    | cons c cs => exact (letter_facts c (hl c (by rw [hs]; simp))).1
  | num z =>
    refine ⟨fun c hc => ?_, ?_⟩
    · simp only [printItem, List.mem_cons] at hc
      rcases hc with e | m
      · exact Or.inr (Or.inr e)
      · exact Or.inr (Or.inl (printNat_digits z c m))
    · simp only [printItem, headOk]; decide

theorem mem_joinWith (sep : Char) : ∀ (ps : List (List Char)) (c : Char), c ∈ joinWith sep ps → c = sep ∨ ∃ p ∈ ps, c ∈ p
  | [], c, h => by cases h
  | [p], c, h => Or.inr ⟨p, by simp, by simpa [joinWith] using h⟩
  | p :: q :: rest, c, h => by
    have h' : c ∈ p ++ sep :: joinWith sep (q :: rest) := h
    rcases List.mem_append.mp h' with h1 | h1
    · exact Or.inr ⟨p, by simp, h1⟩
    · rcases List.mem_cons.mp h1 with e | m
      · exact Or.inl e
      · rcases mem_joinWith sep (q :: rest) c m with e | ⟨x, hx, hc⟩
        · exact Or.inl e
        · exact Or.inr ⟨x, List.mem_cons_of_mem _ hx, hc⟩

theorem joinWith_head (sep : Char) (p : List Char) (rest : List (List Char)) (hp : p ≠ []) :
    ∃ c t, p = c :: (p.tail) ∧ joinWith sep (p :: rest) = c :: t := by
  cases p with
  | nil => exact absurd rfl hp
  | cons c cs =>
    cases rest with
    | nil => exact ⟨c, cs, rfl, rfl⟩
    | cons q qs => exact ⟨c, cs ++ sep :: joinWith sep (q :: qs), rfl, rfl⟩

def headToks : DocHead → List ElemTok
  | .one i => [tokOf i]
  | .list l => l.map tokOf
  | .any => [.sym ['A']]
  | .metal => [.sym ['M']]

def headWF : DocHead → Prop
  | .one i => itemOk i
  | .list l => l ≠ [] ∧ ∀ i ∈ l, itemOk i
  | .any => True
  | .metal => True

theorem printItem_no_comma (i : DocItem) (hi : itemOk i) : ∀ c ∈ printItem i, c ≠ ',' := by
  intro c hc
  rcases (printItem_chars i hi).1 c hc with h | h | h
  · exact (letter_facts c h).2.2.1
  · exact digit_ne_comma c h
  · subst h; decide

theorem head_items (h : DocHead) (hw : headWF h) : parseElemItems (splitOn ',' (printHead h)) = .ok (headToks h) := by
  cases h with
  | one i =>
    simp only [printHead, headToks]
    rw [splitOn_nosep ',' _ (printItem_no_comma i hw)]
    exact parseElemItems_printed [i] (fun j hj => by simp at hj; subst hj; exact hw)
  | list l =>
    simp only [printHead, headToks]
    rw [splitOn_joinWith ',' (l.map printItem) (by simpa using hw.1)
          (fun p hp => by
            obtain ⟨i, hi, e⟩ := List.mem_map.mp hp
            subst e; exact printItem_no_comma i (hw.2 i hi))]
    exact parseElemItems_printed l hw.2
  | any => rfl
  | metal => rfl

theorem head_chars (h : DocHead) (hw : headWF h) :
    (∀ c ∈ printHead h, plainChar c ∧ c ≠ ';') ∧ headOk (printHead h) := by
  have item : ∀ i, itemOk i → ∀ c ∈ printItem i, plainChar c ∧ c ≠ ';' := by
    intro i hi c hc
    rcases (printItem_chars i hi).1 c hc with h | h | h
    · obtain ⟨_, _, _, a4, a5, a6, a7, a8, _, b1, b2⟩ := letter_facts c h
      exact ⟨⟨a5, a6, a7, a8, b1, b2⟩, a4⟩
    · refine ⟨⟨?_, ?_, ?_, ?_, ?_, ?_⟩, ?_⟩ <;> (intro e; subst e; revert h; decide)
    · subst h; exact ⟨⟨by decide, by decide, by decide, by decide, by decide, by decide⟩, by decide⟩
  cases h with
  | one i => exact ⟨item i hw, (printItem_chars i hw).2⟩
  | list l =>
    refine ⟨?_, ?_⟩
    · intro c hc
      rcases mem_joinWith ',' _ c hc with e | ⟨p, hp, hcp⟩
      · subst e; exact ⟨⟨by decide, by decide, by decide, by decide, by decide, by decide⟩, by decide⟩
      · obtain ⟨i, hi, e⟩ := List.mem_map.mp hp
        subst e; exact item i (hw.2 i hi) c hcp
    · cases l with
      | nil => exact absurd rfl hw.1
      | cons i rest =>
        have hi := hw.2 i List.mem_cons_self
        have hok := (printItem_chars i hi).2
        have hne : printItem i ≠ [] := by
          intro e; rw [e] at hok; exact hok
        obtain ⟨c, t, e1, e2⟩ := joinWith_head ',' (printItem i) (rest.map printItem) hne
        simp only [printHead, List.map_cons]
        rw [e2]
        rw [e1] at hok
        exact hok
  | any => exact ⟨fun c hc => by simp [printHead] at hc; subst hc; exact ⟨⟨by decide, by decide, by decide, by decide, by decide, by decide⟩, by decide⟩, by simp [printHead, headOk]; decide⟩
  | metal => exact ⟨fun c hc => by simp [printHead] at hc; subst hc; exact ⟨⟨by decide, by decide, by decide, by decide, by decide, by decide⟩, by decide⟩, by simp [printHead, headOk]; decide⟩

/-! ### primitive bodies -/

theorem applyPrims_append : ∀ (a b : List (List Char)) (out : Parsed),
    applyPrims out (a ++ b) = (match applyPrims out a with | .ok o => applyPrims o b | .error e => .error e)
  | [], b, out => by simp [applyPrims]
  | x :: xs, b, out => by
    simp only [List.cons_append, applyPrims, bind, Except.bind]
    cases applyPrim out x with
    | error e => rfl
    | ok o => exact applyPrims_append xs b o

theorem primLetter_is_letter (t : Char) (ht : primLetters.contains t = true) : isLetter t = true :=
  List.all_eq_true.mp primLetters_are_letters t (List.contains_iff_mem.mp ht)

theorem printedList_shape (t : Char) (l : List Nat) (hne : l ≠ []) :
    ∃ dgt rest, joinWith ',' (l.map fun v => t :: printNat v) = t :: dgt :: rest ∧ isDigit dgt = true := by
  cases l with
  | nil => exact absurd rfl hne
  | cons v vs =>
    cases hp : printNat v with
    | nil => exact absurd hp (printNat_ne_nil v)
    | cons d ds =>
      have hd : isDigit d = true := printNat_digits v d (by rw [hp]; simp)
      cases vs with
      | nil => exact ⟨d, ds, by simp [joinWith, hp], hd⟩
      | cons w ws => exact ⟨d, ds ++ ',' :: joinWith ',' ((w :: ws).map fun v => t :: printNat v), by simp [joinWith, hp], hd⟩

theorem applyPrim_printed (out : Parsed) (t : Char) (ht : primLetters.contains t = true) (l : List Nat) (hne : l ≠ []) :
    applyPrim out (joinWith ',' (l.map fun v => t :: printNat v)) = .ok (setPrim out t (l.map Int.ofNat)) := by
  obtain ⟨dgt, rest, hshape, hd⟩ := printedList_shape t l hne
  have hl := primLetter_is_letter t ht
  unfold applyPrim
  have h1 : (joinWith ',' (l.map fun v => t :: printNat v)).isEmpty = false := by rw [hshape]; rfl
  have hlen : ∀ w : Char, joinWith ',' (l.map fun v => t :: printNat v) ≠ [w] := by
    intro w e; rw [hshape] at e; injection e with _ e2; cases e2
  have h2 : (joinWith ',' (l.map fun v => t :: printNat v) == ['a']) = false := beq_eq_false_iff_ne.mpr (hlen _)
  have h3 : (joinWith ',' (l.map fun v => t :: printNat v) == ['A']) = false := beq_eq_false_iff_ne.mpr (hlen _)
  have h5 : (joinWith ',' (l.map fun v => t :: printNat v) == ['M']) = false := beq_eq_false_iff_ne.mpr (hlen _)
  have h4 : (joinWith ',' (l.map fun v => t :: printNat v) == ['!', 'R']) = false := by
    apply beq_eq_false_iff_ne.mpr
    intro e; rw [hshape] at e; injection e with e1 _
    subst e1; revert hl; decide
  simp only [h1, h2, h3, h4, h5, Bool.false_eq_true, if_false]
  rw [splitOn_joinWith ',' _ (by simpa using hne) (fun p hp c hc => by
        obtain ⟨v, _, e⟩ := List.mem_map.mp hp
        subst e
        rcases List.mem_cons.mp hc with e | m
        · subst e; exact (letter_facts c hl).2.2.1
        · exact digit_ne_comma c (printNat_digits v c m))]
  exact applyNumPrim_printed out t ht l hne

theorem applyPrims_printPrim (out : Parsed) (t : Char) (ht : primLetters.contains t = true) (l : List Nat)
    (rest : List (List Char)) :
    applyPrims out (printPrim t l ++ rest) =
      applyPrims (if l.isEmpty then out else setPrim out t (l.map Int.ofNat)) rest := by
  unfold printPrim
  cases l with
  | nil => simp
  | cons v vs =>
    simp only [List.isEmpty_cons, Bool.false_eq_true, if_false, List.cons_append, List.nil_append, applyPrims, bind, Except.bind,
               applyPrim_printed out t ht (v :: vs) (by simp)]

theorem printPrim_chars (t : Char) (ht : primLetters.contains t = true) (l : List Nat) :
    ∀ b ∈ printPrim t l, ∀ c ∈ b, plainChar c ∧ c ≠ ';' := by
  intro b hb c hc
  unfold printPrim at hb
  split at hb
  · cases hb
  · simp only [List.mem_singleton] at hb
    subst hb
    have hl := primLetter_is_letter t ht
    have plainD : ∀ x : Char, isDigit x = true → plainChar x ∧ x ≠ ';' := by
      intro x hx
      refine ⟨⟨?_, ?_, ?_, ?_, ?_, ?_⟩, ?_⟩ <;> (intro e; subst e; revert hx; decide)
    rcases mem_joinWith ',' _ c hc with e | ⟨p, hp, hcp⟩
    · subst e; exact ⟨⟨by decide, by decide, by decide, by decide, by decide, by decide⟩, by decide⟩
    · obtain ⟨v, _, e⟩ := List.mem_map.mp hp
      subst e
      rcases List.mem_cons.mp hcp with e | m
      · subst e
        obtain ⟨_, _, _, a4, a5, a6, a7, a8, _, b1, b2⟩ := letter_facts c hl
        exact ⟨⟨a5, a6, a7, a8, b1, b2⟩, a4⟩
      · exact plainD c (printNat_digits v c m)

def bodiesOf (d : DocAtom) : List (List Char) :=
  printPrim 'D' d.neighbors ++ printPrim 'h' d.hydrogens ++ printPrim 'r' d.rings ++
    (if d.notRing then [['!', 'R']] else []) ++ printPrim 'x' d.hetero ++ printPrim 'z' d.hyb ++
    (if d.aromatic then [['a']] else []) ++ (if d.aliphatic then [['A']] else []) ++ (if d.masked then [['M']] else [])

def stepD (d : DocAtom) (o : Parsed) : Parsed := if d.neighbors.isEmpty then o else { o with neighbors := some (d.neighbors.map Int.ofNat) }
def stepH (d : DocAtom) (o : Parsed) : Parsed := if d.hydrogens.isEmpty then o else { o with implH := some (d.hydrogens.map Int.ofNat) }
def stepR (d : DocAtom) (o : Parsed) : Parsed := if d.rings.isEmpty then o else { o with ringSizes := some (.lst (d.rings.map Int.ofNat)) }
def stepNR (d : DocAtom) (o : Parsed) : Parsed := if d.notRing then { o with ringSizes := some (.int 0) } else o
def stepX (d : DocAtom) (o : Parsed) : Parsed := if d.hetero.isEmpty then o else { o with heteroatoms := some (d.hetero.map Int.ofNat) }
def stepZ (d : DocAtom) (o : Parsed) : Parsed := if d.hyb.isEmpty then o else { o with hybridization := some (.lst (d.hyb.map Int.ofNat)) }
def stepA (d : DocAtom) (o : Parsed) : Parsed := if d.aromatic then { o with hybridization := some (.int 4) } else o
def stepM (d : DocAtom) (o : Parsed) : Parsed := if d.masked then { o with masked := true } else o

/-- the `out` dict after the primitive loop ran over the printed primitives of `d`, in printing order -/
def afterPrims (out : Parsed) (d : DocAtom) : Parsed :=
  stepM d (stepA d (stepZ d (stepX d (stepNR d (stepR d (stepH d (stepD d out)))))))

theorem setPrim_D (o : Parsed) (l) : setPrim o 'D' l = { o with neighbors := some l } := by simp [setPrim]
theorem setPrim_h (o : Parsed) (l) : setPrim o 'h' l = { o with implH := some l } := by simp [setPrim]
theorem setPrim_r (o : Parsed) (l) : setPrim o 'r' l = { o with ringSizes := some (.lst l) } := by simp [setPrim]
theorem setPrim_x (o : Parsed) (l) : setPrim o 'x' l = { o with heteroatoms := some l } := by simp [setPrim]
theorem setPrim_z (o : Parsed) (l) : setPrim o 'z' l = { o with hybridization := some (.lst l) } := by simp [setPrim]

theorem applyPrims_word_notRing (out : Parsed) (rest : List (List Char)) :
    applyPrims out ([['!', 'R']] ++ rest) = applyPrims { out with ringSizes := some (.int 0) } rest := by
  simp only [List.cons_append, List.nil_append, applyPrims, bind, Except.bind]
  have : applyPrim out ['!', 'R'] = .ok { out with ringSizes := some (.int 0) } := by
    unfold applyPrim; simp
  rw [this]

theorem applyPrims_word_a (out : Parsed) (rest : List (List Char)) :
    applyPrims out ([['a']] ++ rest) = applyPrims { out with hybridization := some (.int 4) } rest := by
  simp only [List.cons_append, List.nil_append, applyPrims, bind, Except.bind]
  have : applyPrim out ['a'] = .ok { out with hybridization := some (.int 4) } := by
    unfold applyPrim; simp
  rw [this]

theorem applyPrims_word_A (out : Parsed) (rest : List (List Char)) :
    applyPrims out ([['A']] ++ rest) = applyPrims out rest := by
  simp only [List.cons_append, List.nil_append, applyPrims, bind, Except.bind]
  have : applyPrim out ['A'] = .ok out := by
    unfold applyPrim; simp
  rw [this]

theorem applyPrims_word_M (out : Parsed) (rest : List (List Char)) :
    applyPrims out ([['M']] ++ rest) = applyPrims { out with masked := true } rest := by
  simp only [List.cons_append, List.nil_append, applyPrims, bind, Except.bind]
  have : applyPrim out ['M'] = .ok { out with masked := true } := by
    unfold applyPrim; simp
  rw [this]

theorem applyPrims_tail (o : Parsed) (d : DocAtom) :
    applyPrims o ((if d.aromatic then [['a']] else []) ++ ((if d.aliphatic then [['A']] else []) ++ (if d.masked then [['M']] else []))) =
      .ok (stepM d (stepA d o)) := by
  unfold stepM stepA
  cases d.aromatic <;> cases d.aliphatic <;> cases d.masked <;>
    simp only [Bool.false_eq_true, if_false, if_true, List.nil_append, List.append_nil, applyPrims_word_a, applyPrims_word_A,
               applyPrims] <;>
    first
    | rfl
    | (rw [← List.append_nil [['M']], applyPrims_word_M]; rfl)
    | (rw [← List.append_nil [['A']], applyPrims_word_A]; rfl)
    | (rw [← List.append_nil [['a']], applyPrims_word_a]; rfl)

theorem applyPrims_bodies (out : Parsed) (d : DocAtom) : applyPrims out (bodiesOf d) = .ok (afterPrims out d) := by
  unfold bodiesOf afterPrims
  simp only [List.append_assoc]
  rw [applyPrims_printPrim out 'D' (by decide), applyPrims_printPrim _ 'h' (by decide), applyPrims_printPrim _ 'r' (by decide)]
  have e1 : (if d.neighbors.isEmpty = true then out else setPrim out 'D' (d.neighbors.map Int.ofNat)) = stepD d out := by
    unfold stepD; rw [setPrim_D]
  rw [e1]
  have e2 : (if d.hydrogens.isEmpty = true then stepD d out else setPrim (stepD d out) 'h' (d.hydrogens.map Int.ofNat)) = stepH d (stepD d out) := by
    unfold stepH; rw [setPrim_h]
  rw [e2]
  have e3 : (if d.rings.isEmpty = true then stepH d (stepD d out) else setPrim (stepH d (stepD d out)) 'r' (d.rings.map Int.ofNat)) =
      stepR d (stepH d (stepD d out)) := by
    unfold stepR; rw [setPrim_r]
  rw [e3]
  have e4 : ∀ rest, applyPrims (stepR d (stepH d (stepD d out))) ((if d.notRing = true then [['!', 'R']] else []) ++ rest) =
      applyPrims (stepNR d (stepR d (stepH d (stepD d out)))) rest := by
    intro rest
    unfold stepNR
    cases d.notRing
    · simp
    · simp only [if_true]; exact applyPrims_word_notRing _ _
  rw [e4, applyPrims_printPrim _ 'x' (by decide), applyPrims_printPrim _ 'z' (by decide)]
  have e5 : (if d.hetero.isEmpty = true then stepNR d (stepR d (stepH d (stepD d out)))
             else setPrim (stepNR d (stepR d (stepH d (stepD d out)))) 'x' (d.hetero.map Int.ofNat)) =
      stepX d (stepNR d (stepR d (stepH d (stepD d out)))) := by
    unfold stepX; rw [setPrim_x]
  rw [e5]
  have e6 : (if d.hyb.isEmpty = true then stepX d (stepNR d (stepR d (stepH d (stepD d out))))
             else setPrim (stepX d (stepNR d (stepR d (stepH d (stepD d out))))) 'z' (d.hyb.map Int.ofNat)) =
      stepZ d (stepX d (stepNR d (stepR d (stepH d (stepD d out))))) := by
    unfold stepZ; rw [setPrim_z]
  rw [e6]
  exact applyPrims_tail _ d

/-! ### numbers without leading zero, charges -/

theorem digitChar_range (k : Nat) (h1 : 1 ≤ k) (h2 : k < 10) : '1' ≤ Nat.digitChar k ∧ Nat.digitChar k ≤ '9' := by
  have : k = 1 ∨ k = 2 ∨ k = 3 ∨ k = 4 ∨ k = 5 ∨ k = 6 ∨ k = 7 ∨ k = 8 ∨ k = 9 := by omega
  rcases this with rfl | rfl | rfl | rfl | rfl | rfl | rfl | rfl | rfl <;> decide

theorem printNat_head : ∀ (fuel m : Nat), m < fuel → 1 ≤ m → ∃ d ds, printNat m = d :: ds ∧ '1' ≤ d ∧ d ≤ '9'
  | 0, m, h, _ => by omega
  | fuel + 1, m, hf, h1 => by
    by_cases hlt : m < 10
    · refine ⟨Nat.digitChar m, [], ?_, digitChar_range m h1 hlt⟩
      exact Nat.toDigits_of_lt_base hlt
    · have hge : 10 ≤ m := by omega
      have hdiv : 1 ≤ m / 10 := by omega
      obtain ⟨d, ds, hp, hr⟩ := printNat_head fuel (m / 10) (by omega) hdiv
      refine ⟨d, ds ++ [Nat.digitChar (m % 10)], ?_, hr⟩
      unfold printNat at hp ⊢
      rw [Nat.toDigits_of_base_le (by decide) hge, hp]
      rfl

theorem mppTail_printNat (m : Nat) (h : 1 ≤ m) : mppTail (printNat m) = true := by
  obtain ⟨d, ds, hp, h1, h2⟩ := printNat_head (m + 1) m (by omega) h
  have hall : ∀ c ∈ ds, isDigit c = true := fun c hc => printNat_digits m c (by rw [hp]; exact List.mem_cons_of_mem _ hc)
  rw [hp]
  simp only [mppTail, Bool.and_eq_true, decide_eq_true_eq, List.all_eq_true]
  exact ⟨⟨h1, h2⟩, hall⟩

def chgOf : Int → Option (Char × Option Char)
  | 1 => some ('+', none)
  | 2 => some ('+', some '2')
  | 3 => some ('+', some '3')
  | 4 => some ('+', some '4')
  | -1 => some ('-', none)
  | -2 => some ('-', some '2')
  | -3 => some ('-', some '3')
  | -4 => some ('-', some '4')
  | _ => none

theorem charge_cases (c : Int) (h1 : -4 ≤ c) (h2 : c ≤ 4) :
    printCharge c = chargeText (chgOf c) ∧ chgOk (chgOf c) (if c = 0 then none else some c) := by
  have : c = -4 ∨ c = -3 ∨ c = -2 ∨ c = -1 ∨ c = 0 ∨ c = 1 ∨ c = 2 ∨ c = 3 ∨ c = 4 := by omega
  rcases this with rfl | rfl | rfl | rfl | rfl | rfl | rfl | rfl | rfl
  · exact ⟨by decide, show chgOk (some ('-', some '4')) (some (-4)) from ⟨Or.inr rfl, by decide, rfl, (by simp [extOk] : extOk _)⟩⟩
  · exact ⟨by decide, show chgOk (some ('-', some '3')) (some (-3)) from ⟨Or.inr rfl, by decide, rfl, (by simp [extOk] : extOk _)⟩⟩
  · exact ⟨by decide, show chgOk (some ('-', some '2')) (some (-2)) from ⟨Or.inr rfl, by decide, rfl, (by simp [extOk] : extOk _)⟩⟩
  · exact ⟨by decide, show chgOk (some ('-', none)) (some (-1)) from ⟨Or.inr rfl, by decide, rfl, trivial⟩⟩
  · exact ⟨by decide, show chgOk none none from rfl⟩
  · exact ⟨by decide, show chgOk (some ('+', none)) (some 1) from ⟨Or.inl rfl, by decide, rfl, trivial⟩⟩
  · exact ⟨by decide, show chgOk (some ('+', some '2')) (some 2) from ⟨Or.inl rfl, by decide, rfl, (by simp [extOk] : extOk _)⟩⟩
  · exact ⟨by decide, show chgOk (some ('+', some '3')) (some 3) from ⟨Or.inl rfl, by decide, rfl, (by simp [extOk] : extOk _)⟩⟩
  · exact ⟨by decide, show chgOk (some ('+', some '4')) (some 4) from ⟨Or.inl rfl, by decide, rfl, (by simp [extOk] : extOk _)⟩⟩

/-! ### `_query_parse` of the canonical spelling -/

def isoText : Option Nat → List Char
  | some i => printNat i
  | none => []

theorem printDoc_shape (d : DocAtom) :
    printDoc d = isoText d.isotope ++ printHead d.head ++ stereoText d.stereo ++ printCharge d.charge ++
      ((bodiesOf d).map fun p => ';' :: p).flatten ++ mapText (d.map.map printNat) := by
  unfold printDoc bodiesOf
  cases d.isotope <;> cases hs : d.stereo <;> cases d.map <;>
    first
    | rfl
    | (rename_i b; cases b <;> rfl)
    | (rename_i b _; cases b <;> rfl)
    | (rename_i _ b; cases b <;> rfl)
    | (rename_i _ b _; cases b <;> rfl)

/-- side conditions used by the general round trip (they follow from `DocWF`) -/
structure DocOK (d : DocAtom) : Prop where
  head : headWF d.head
  chargeLo : -4 ≤ d.charge
  chargeHi : d.charge ≤ 4
  map : ∀ m, d.map = some m → 1 ≤ m

/-- what `_query_parse` returns for the canonical spelling of `d` -/
def parsedOf (d : DocAtom) : Parsed :=
  afterPrims { isotope := d.isotope, charge := if d.charge = 0 then none else some d.charge, mapping := d.map,
               stereo := d.stereo, element := mkElem (headToks d.head) } d

theorem bodies_chars (d : DocAtom) : ∀ b ∈ bodiesOf d, ∀ c ∈ b, plainChar c ∧ c ≠ ';' := by
  intro b hb c hc
  unfold bodiesOf at hb
  simp only [List.mem_append] at hb
  have word : ∀ w : List Char, (w = ['!', 'R'] ∨ w = ['a'] ∨ w = ['A'] ∨ w = ['M']) → c ∈ w → plainChar c ∧ c ≠ ';' := by
    intro w hw hcw
    rcases hw with e | e | e | e <;> subst e <;> simp at hcw
    · rcases hcw with e | e <;> subst e <;> exact ⟨⟨by decide, by decide, by decide, by decide, by decide, by decide⟩, by decide⟩
    · subst hcw; exact ⟨⟨by decide, by decide, by decide, by decide, by decide, by decide⟩, by decide⟩
    · subst hcw; exact ⟨⟨by decide, by decide, by decide, by decide, by decide, by decide⟩, by decide⟩
    · subst hcw; exact ⟨⟨by decide, by decide, by decide, by decide, by decide, by decide⟩, by decide⟩
  rcases hb with (((((((h | h) | h) | h) | h) | h) | h) | h) | h
  · exact printPrim_chars 'D' (by decide) _ b h c hc
  · exact printPrim_chars 'h' (by decide) _ b h c hc
  · exact printPrim_chars 'r' (by decide) _ b h c hc
  · split at h
    · simp at h; exact word b (Or.inl h) hc
    · cases h
  · exact printPrim_chars 'x' (by decide) _ b h c hc
  · exact printPrim_chars 'z' (by decide) _ b h c hc
  · split at h
    · simp at h; exact word b (Or.inr (Or.inl h)) hc
    · cases h
  · split at h
    · simp at h; exact word b (Or.inr (Or.inr (Or.inl h))) hc
    · cases h
  · split at h
    · simp at h; exact word b (Or.inr (Or.inr (Or.inr h))) hc
    · cases h

theorem flatten_semi_chars (bodies : List (List Char)) (hb : ∀ b ∈ bodies, ∀ c ∈ b, plainChar c ∧ c ≠ ';') :
    (∀ c ∈ (bodies.map fun p => ';' :: p).flatten, plainChar c) ∧ startsWithSemi (bodies.map fun p => ';' :: p).flatten := by
  constructor
  · intro c hc
    simp only [List.mem_flatten, List.mem_map] at hc
    obtain ⟨l, ⟨p, hp, e⟩, hcl⟩ := hc
    subst e
    rcases List.mem_cons.mp hcl with e | m
    · subst e; exact ⟨by decide, by decide, by decide, by decide, by decide, by decide⟩
    · exact (hb p hp c m).1
  · cases bodies with
    | nil => left; rfl
    | cons b bs => right; exact ⟨b ++ (bs.map fun p => ';' :: p).flatten, by simp⟩

/-- **general**: for every documented atom (no bound on numbers, list lengths or the number of listed elements), `_query_parse`
    of its canonical spelling returns the expected dictionary -/
theorem queryParse_printDoc (d : DocAtom) (ok : DocOK d) : queryParse (printDoc d) = .ok (parsedOf d) := by
  obtain ⟨hch, hch0⟩ := head_chars d.head ok.head
  obtain ⟨hcharge, hcok⟩ := charge_cases d.charge ok.chargeLo ok.chargeHi
  obtain ⟨hbp, hsemi⟩ := flatten_semi_chars (bodiesOf d) (bodies_chars d)
  have hiso : ∀ c ∈ isoText d.isotope, isDigit c = true := by
    intro c hc
    cases hi : d.isotope with
    | none => rw [hi] at hc; cases hc
    | some i => rw [hi] at hc; exact printNat_digits i c hc
  have hmap : mapOk (d.map.map printNat) := by
    cases hm : d.map with
    | none => trivial
    | some m => exact mppTail_printNat m (ok.map m hm)
  have hstrip := stripMarks_structured (isoText d.isotope) (printHead d.head) d.stereo (chgOf d.charge)
    ((bodiesOf d).map fun p => ';' :: p).flatten (d.map.map printNat) (if d.charge = 0 then none else some d.charge)
    hiso hch0 (fun c hc => (hch c hc).1) hbp hsemi hcok hmap
  unfold queryParse
  rw [printDoc_shape, hcharge, hstrip]
  simp only
  unfold parseBody
  rw [splitOn_semi (printHead d.head) (fun c hc => (hch c hc).2) (bodiesOf d) (fun b hb c hc => (bodies_chars d b hb c hc).2)]
  simp only
  have hne : (printHead d.head).isEmpty = false := by
    cases hp : printHead d.head with
    | nil => rw [hp] at hch0; exact hch0.elim
    | cons _ _ => rfl
  simp only [hne, Bool.false_eq_true, if_false, head_items d.head ok.head]
  have hisoV : (if (isoText d.isotope).isEmpty = true then none else some (natOfDigits (isoText d.isotope))) = d.isotope := by
    cases hi : d.isotope with
    | none => rfl
    | some i =>
      have : (printNat i).isEmpty = false := by
        cases hp : printNat i with
        | nil => exact absurd hp (printNat_ne_nil i)
        | cons _ _ => rfl
      simp only [isoText, this, Bool.false_eq_true, if_false, natOfDigits_printNat]
  have hmapV : Option.map natOfDigits (Option.map printNat d.map) = d.map := by
    cases d.map with
    | none => rfl
    | some m => simp [natOfDigits_printNat]
  rw [hisoV, hmapV, applyPrims_bodies]
  rfl

end ChythonModel.Proofs.C08
