import ChythonModel.Proofs.C09TotalS
import ChythonModel.Proofs.C09Keys
import ChythonModel.Proofs.C07Compile
namespace ChythonModel.Proofs.C09
open ChythonModel.Model.Bits ChythonModel.Gen.Bits ChythonModel.Model.Query ChythonModel.Model

theorem lookup_isSome_of_mem {β} (l : List (Nat × β)) (k : Nat) (h : k ∈ l.map (·.1)) : ∃ v, l.lookup k = some v := by
  induction l with
  | nil => simp at h
  | cons e rest ih =>
    obtain ⟨k', v'⟩ := e
    simp only [List.lookup_cons]
    by_cases hk : k = k'
    · subst hk; exact ⟨v', by simp⟩
    · have hb : (k == k') = false := by simp [hk]
      simp only [hb]
      simp only [List.map_cons, List.mem_cons] at h
      rcases h with h | h
      · exact absurd h hk
      · exact ih h

theorem qnbrs_eq (q : LQuery) (n : Nat) : q.graph.nbrs n = ((q.adj.lookup n).map (fun ms => ms.map (·.1))).getD [] := by
  unfold Iso.Graph.nbrs LQuery.graph
  simp only
  rw [lookup_map_val q.adj (fun ms => ms.map (·.1)) n]

/-- a neighbour in the graph has a bond object in the adjacency dict -/
theorem qbond_of_nbr (q : LQuery) (n k : Nat) (h : k ∈ q.graph.nbrs n) : ∃ b, q.bond? n k = some b := by
  rw [qnbrs_eq] at h
  unfold LQuery.bond?
  cases hl : q.adj.lookup n with
  | none => rw [hl] at h; simp at h
  | some ms =>
    rw [hl] at h
    simp only [Option.map_some, Option.getD_some] at h
    obtain ⟨b, hb⟩ := lookup_isSome_of_mem ms k h
    exact ⟨b, by simp [hb]⟩

theorem qmdl_table : ∀ z ∈ List.range' 1 118, (qmdlOf z).isSome = true := by decide +kernel

theorem qmdlFor_ok (a : QAtom) (ha : QDom a) : ∃ v, qmdlFor a = .ok v := by
  unfold qmdlFor
  cases hk : a.kind with
  | element z iso =>
    simp only
    cases hi : qIso (QKind.element z iso) with
    | none => exact ⟨0, rfl⟩
    | some i =>
      simp only
      have he := ha.elems
      rw [hk] at he
      have := qmdl_table z (mem_range' z he.1 he.2)
      cases hq : qmdlOf z with
      | none => rw [hq] at this; simp at this
      | some v => exact ⟨v, rfl⟩
  | any => exact ⟨0, rfl⟩
  | list zs => exact ⟨0, rfl⟩
  | metal => exact ⟨0, rfl⟩


theorem stepMask_total (q : LQuery) (hq : QueryOK q) (hg : ChythonModel.Proofs.C07.GraphOK q.graph) (s : Iso.Step)
    (hfront : s.front ∈ q.atoms.map (·.1)) (hback : ∀ b, s.back = some b → b ∈ q.graph.nbrs s.front) :
    ∃ w, stepMask q s = .ok w := by
  obtain ⟨a, ha⟩ := lookup_isSome_of_mem q.atoms s.front hfront
  have hqa : q.atom? s.front = some a := ha
  have hdom : QDom a := hq.dom (s.front, a) (lookup_mem' _ _ _ ha)
  obtain ⟨qmdl, hqm⟩ := qmdlFor_ok a hdom
  have hsh : qShiftsOk qmdl a = true := (qatom_ok qmdl a none hdom).1
  unfold stepMask
  simp only [bind, Except.bind, pure, Except.pure, hqa]
  cases hb : s.back with
  | none => exact ⟨qWords qmdl a none, by simp only [hqm, hsh, Bool.not_true, Bool.false_eq_true, if_false]⟩
  | some k =>
    obtain ⟨b, hbb⟩ := qbond_of_nbr q k s.front (hg.symm _ _ (hback k hb))
    exact ⟨qWords qmdl a (some b), by simp only [hbb, hqm, hsh, Bool.not_true, Bool.false_eq_true, if_false]⟩

theorem mapM_except_total {ε α β} (f : α → Except ε β) : ∀ (l : List α), (∀ x ∈ l, ∃ y, f x = .ok y) → ∃ r, l.mapM f = .ok r := by
  intro l
  induction l with
  | nil => intro _; exact ⟨[], rfl⟩
  | cons a l ih =>
    intro h
    obtain ⟨y, hy⟩ := h a (by simp)
    obtain ⟨r, hr⟩ := ih (fun x hx => h x (by simp [hx]))
    exact ⟨y :: r, by rw [List.mapM_cons, hy, hr]; rfl⟩

theorem mem_take_fronts (lq : List Iso.Step) (j : Nat) (x : Nat) (h : x ∈ (lq.take j).map (·.front)) : x ∈ lq.map (·.front) := by
  obtain ⟨s, hs, rfl⟩ := List.mem_map.mp h
  exact List.mem_map.mpr ⟨s, List.mem_of_mem_take hs, rfl⟩

/-- closure rows succeed when every kept entry lists neighbours that belong to the component -/
theorem closureRows_total (q : LQuery) (fronts : List Nat) :
    ∀ (cl : Iso.Closures) (start : Nat),
      (∀ n ms, (n, ms) ∈ cl → n ∈ fronts → ∀ mq ∈ ms, mq ∈ q.graph.nbrs n ∧ mq ∈ fronts) →
      ∃ res, closureRows q fronts cl start = .ok res := by
  intro cl
  induction cl with
  | nil => intro start _; exact ⟨([], []), rfl⟩
  | cons ent rest ih =>
    intro start h
    obtain ⟨n, ms⟩ := ent
    have ih' := fun st => ih st (fun n' ms' hm => h n' ms' (List.mem_cons_of_mem _ hm))
    unfold closureRows
    cases hi : indexOf? fronts n with
    | none => simp only; exact ih' start
    | some i =>
      simp only
      by_cases hemp : ms.isEmpty = true
      · simp only [hemp, if_true]; exact ih' start
      · simp only [hemp, Bool.false_eq_true, if_false]
        have hnf : n ∈ fronts := List.mem_of_getElem? (indexOf_get fronts n i hi)
        have hcb : ∃ bs, closureBonds q fronts n ms = .ok bs := by
          unfold closureBonds
          apply mapM_except_total
          intro mq hmq
          obtain ⟨h1, h2⟩ := h n ms (by simp) hnf mq hmq
          obtain ⟨b, hb⟩ := qbond_of_nbr q n mq h1
          obtain ⟨jj, hj, _⟩ := indexOf_some_of_mem fronts mq h2
          exact ⟨⟨closureWord b, jj⟩, by simp only [hb, hj]⟩
        obtain ⟨bs, hbs⟩ := hcb
        obtain ⟨res, hres⟩ := ih' (start + ms.length)
        exact ⟨((i, ms.length, start, start + ms.length) :: res.1, bs ++ res.2), by simp only [hbs, hres, bind, Except.bind, pure, Except.pure]⟩


theorem closureWord_lt (b : QBond) : closureWord b < two64 := by
  unfold closureWord
  have wa : Within cAtomAny 0 64 := by
    have : cAtomAny = (2 ^ 57 - 1) <<< 0 := by decide
    rw [this]; exact within_mono (within_run 57 0) (by omega) (by omega)
  have wo := within_mono (within_qOrderBits cOrd1 cOrd2 cOrd3 cOrd4 cOrdElse cOrderBit_eq b.orders) (show 0 ≤ 59 by omega) (show 64 ≤ 64 by omega)
  have wr := within_mono (within_qRingBit cRingAny cRingYes cRingNo (by decide) (by decide) (by decide) b.inRing) (show 0 ≤ 57 by omega) (show 59 ≤ 64 by omega)
  exact lt_of_within (within_or (within_or wa wo) wr)

theorem closureBonds_mem (q : LQuery) (fronts : List Nat) (n : Nat) (ms : List Nat) (bs : List CBond)
    (h : closureBonds q fronts n ms = .ok bs) : ∀ b ∈ bs, b.bond < two64 ∧ b.index < fronts.length := by
  intro b hb
  obtain ⟨t, ht, rfl⟩ := List.mem_iff_getElem.mp hb
  obtain ⟨_, hget⟩ := closureBonds_get q fronts n ms bs h
  obtain ⟨mq, bq, _, _, e3, e4⟩ := hget t bs[t] (List.getElem?_eq_getElem ht)
  exact ⟨by rw [e4]; exact closureWord_lt bq, (List.getElem?_eq_some_iff.mp (indexOf_get _ _ _ e3)).1⟩

theorem closureRows_bounds (q : LQuery) (fronts : List Nat) :
    ∀ (cl : Iso.Closures) (start : Nat) (rows : List (Nat × Nat × Nat × Nat)) (bonds : List CBond),
      closureRows q fronts cl start = .ok (rows, bonds) →
      bonds.length ≤ (cl.map (·.2.length)).sum ∧
      (∀ b ∈ bonds, b.bond < two64 ∧ b.index < fronts.length) ∧
      (∀ r ∈ rows, r.2.1 ≤ bonds.length ∧ r.2.2.1 ≤ r.2.2.2 ∧ r.2.2.2 ≤ start + bonds.length) := by
  intro cl
  induction cl with
  | nil =>
    intro start rows bonds h
    simp [closureRows] at h
    obtain ⟨rfl, rfl⟩ := h
    exact ⟨by simp, by intro b hb; simp at hb, by intro r hr; simp at hr⟩
  | cons ent rest ih =>
    intro start rows bonds h
    obtain ⟨n0, ms0⟩ := ent
    unfold closureRows at h
    cases hi : indexOf? fronts n0 with
    | none =>
      simp only [hi] at h
      obtain ⟨h1, h2, h3⟩ := ih start rows bonds h
      exact ⟨by simp only [List.map_cons, List.sum_cons]; omega, h2, h3⟩
    | some i0 =>
      simp only [hi] at h
      by_cases hemp : ms0.isEmpty = true
      · simp only [hemp, if_true] at h
        obtain ⟨h1, h2, h3⟩ := ih start rows bonds h
        exact ⟨by simp only [List.map_cons, List.sum_cons]; omega, h2, h3⟩
      · simp only [hemp, Bool.false_eq_true, if_false, bind, Except.bind] at h
        cases hb : closureBonds q fronts n0 ms0 with
        | error e => simp [hb] at h
        | ok bs =>
          simp only [hb] at h
          cases hr : closureRows q fronts rest (start + ms0.length) with
          | error e => simp [hr] at h
          | ok res =>
            obtain ⟨rows', tl⟩ := res
            simp only [hr, pure, Except.pure, Except.ok.injEq, Prod.mk.injEq] at h
            obtain ⟨rfl, rfl⟩ := h
            obtain ⟨h1, h2, h3⟩ := ih (start + ms0.length) rows' tl hr
            have hbl : bs.length = ms0.length := mapM_except_length _ ms0 bs hb
            refine ⟨by simp only [List.map_cons, List.sum_cons, List.length_append, hbl]; omega, ?_, ?_⟩
            · intro b hb'
              rcases List.mem_append.mp hb' with h' | h'
              · exact closureBonds_mem q fronts n0 ms0 bs hb b h'
              · exact h2 b h'
            · intro r hr'
              rcases List.mem_cons.mp hr' with rfl | hr''
              · simp [hbl]
              · have := h3 r hr''
                simp only [List.length_append, hbl]; omega

theorem rowOf_cases (rows : List (Nat × Nat × Nat × Nat)) (i : Nat) :
    rowOf rows i = (0, 0, 0) ∨ ∃ r ∈ rows, rowOf rows i = (r.2.1, r.2.2.1, r.2.2.2) := by
  unfold rowOf
  cases hf : rows.reverse.find? (·.1 == i) with
  | none => left; rfl
  | some e =>
    right
    obtain ⟨a, b, c, d⟩ := e
    exact ⟨(a, b, c, d), List.mem_reverse.mp (List.mem_of_find?_eq_some hf), rfl⟩


/-- sizes of a query fit the 32-bit fields -/
structure QuerySmall (q : LQuery) (cl : Iso.Closures) : Prop where
  natoms : q.atoms.length < two32
  numbers : ∀ p ∈ q.atoms, p.1 < two32
  nclosures : (cl.map (·.2.length)).sum < two32

/-- **`_cython_compiled_query` does not raise** for a component of an accepted linearisation of a query in the shape `QueryOK` whose
    sizes fit the 32-bit fields -/
theorem encComponent_total (q : LQuery) (hq : QueryOK q) (hqwf : q.graph.WF = true) (comps : List (List Iso.Step)) (cl : Iso.Closures)
    (hCO : ChythonModel.Proofs.C07.CompiledOK q.graph comps cl) (hcl : (cl.map (·.1)).Nodup) (hs : QuerySmall q cl)
    (lq : List Iso.Step) (hlq : lq ∈ comps) : ∃ cq, encComponent q cl lq = .ok cq := by
  have hg := ChythonModel.Proofs.C07.wf_ok q.graph hqwf
  have hcomp := hCO.comp lq hlq
  have hF := ChythonModel.Proofs.C07.CompiledOK.comp_nodup hCO hlq
  have hsub : ∀ s ∈ lq, s.front ∈ q.atoms.map (·.1) := by
    intro s hs'
    have : s.front ∈ comps.flatten.map (·.front) :=
      List.mem_map.mpr ⟨s, List.mem_flatten.mpr ⟨lq, hlq, hs'⟩, rfl⟩
    have := hCO.sub _ this
    simpa [LQuery.graph] using this
  have hLq : lq.length ≤ q.atoms.length := by
    have h1 : (lq.map (·.front)).length ≤ (q.atoms.map (·.1)).length := by
      apply List.Subperm.length_le
      exact List.subperm_of_subset hF (fun x hx => by
        obtain ⟨s, hs', rfl⟩ := List.mem_map.mp hx; exact hsub s hs')
    simpa using h1
  -- masks
  obtain ⟨masks, hmasks⟩ := mapM_except_total (stepMask q) lq (by
    intro s hs'
    obtain ⟨j, hj, rfl⟩ := List.mem_iff_getElem.mp hs'
    have hst := hcomp.step j lq[j] (List.getElem?_eq_getElem hj)
    exact stepMask_total q hq hg lq[j] (hsub _ hs') (fun b hb => (hst.back_some b hb).2.1))
  -- closure rows
  obtain ⟨res, hres⟩ := closureRows_total q (lq.map (·.front)) cl 0 (by
    intro n ms hmem hn mq hmq
    obtain ⟨s, hs', rfl⟩ := List.mem_map.mp hn
    obtain ⟨j, hj, rfl⟩ := List.mem_iff_getElem.mp hs'
    have hst := hcomp.step j lq[j] (List.getElem?_eq_getElem hj)
    have hget : Iso.Closures.get cl (lq[j]).front = ms := by
      simp [Iso.Closures.get, lookup_mem_nodup cl hcl _ ms hmem]
    have := (hst.cls mq).mp (List.mem_append.mpr (Or.inr (by rw [hget]; exact hmq)))
    exact ⟨this.1, mem_take_fronts lq j mq this.2⟩)
  obtain ⟨rows, bonds⟩ := res
  -- parent indices
  obtain ⟨backs, hbacks⟩ := mapM_except_total (backIndex (lq.map (·.front))) lq (by
    intro s hs'
    obtain ⟨j, hj, rfl⟩ := List.mem_iff_getElem.mp hs'
    have hst := hcomp.step j lq[j] (List.getElem?_eq_getElem hj)
    unfold backIndex
    cases hb : (lq[j]).back with
    | none => exact ⟨0, rfl⟩
    | some b =>
      obtain ⟨jj, hjj, _⟩ := indexOf_some_of_mem (lq.map (·.front)) b (mem_take_fronts lq j b (hst.back_some b hb).1)
      exact ⟨jj, by simp only [hjj]⟩)
  obtain ⟨hbl, hbm, hrb⟩ := closureRows_bounds q (lq.map (·.front)) cl 0 rows bonds hres
  have hbsmall : bonds.length < two32 := Nat.lt_of_le_of_lt hbl hs.nclosures
  have hLsmall : lq.length < two32 := Nat.lt_of_le_of_lt hLq hs.natoms
  unfold encComponent
  simp only [hmasks, hres, hbacks, bind, Except.bind]
  have hfit : (decide ((lq.map (·.front)).length < two32) &&
      (((masks.zip backs).zip (lq.map (·.front))).zipIdx.map fun (x : ((Words × Nat) × Nat) × Nat) =>
        (⟨x.1.1.1.v1, x.1.1.1.v2, x.1.1.1.v3, x.1.1.1.v4, x.1.1.2, (rowOf rows x.2).1, (rowOf rows x.2).2.1,
          (rowOf rows x.2).2.2, x.1.2⟩ : CQAtom)).all CQAtom.fit &&
      bonds.all CBond.fit) = true := by
    rw [Bool.and_eq_true, Bool.and_eq_true]
    refine ⟨⟨decide_eq_true (by simpa using hLsmall), ?_⟩, ?_⟩
    · rw [List.all_eq_true]
      intro qa hqa
      obtain ⟨x, hx, rfl⟩ := List.mem_map.mp hqa
      have hx' := List.mem_zipIdx hx
      have hxz : x.1 ∈ (masks.zip backs).zip (lq.map (·.front)) := by
        have := hx'.2.2; rw [this]; exact List.getElem_mem _
      obtain ⟨hwb, hfr⟩ := List.of_mem_zip hxz
      obtain ⟨hw1, hb1⟩ := List.of_mem_zip hwb
      -- the mask words fit
      have hwfit : x.1.1.1.fit = true := by
        obtain ⟨t, ht, hte⟩ := List.mem_iff_getElem.mp hw1
        have hml := mapM_except_length _ _ _ hmasks
        have htl : t < lq.length := by omega
        obtain ⟨y, hy, hr⟩ := mapM_except_get _ _ _ hmasks t lq[t] (List.getElem?_eq_getElem htl)
        rw [List.getElem?_eq_getElem ht, hte] at hr
        obtain rfl := Option.some.inj hr
        obtain ⟨a, b, qmdl, k1, _, _, _, k5⟩ := stepMask_ok q lq[t] _ hy
        rw [k5]
        exact (qatom_ok qmdl a b (hq.dom _ (lookup_mem' _ _ _ k1))).2
      simp only [Words.fit, Bool.and_eq_true, decide_eq_true_eq] at hwfit
      -- parent index
      have hbk : x.1.1.2 < two32 := by
        obtain ⟨t, ht, hte⟩ := List.mem_iff_getElem.mp hb1
        have hbl' := mapM_except_length _ _ _ hbacks
        have htl : t < lq.length := by omega
        obtain ⟨y, hy, hr⟩ := mapM_except_get _ _ _ hbacks t lq[t] (List.getElem?_eq_getElem htl)
        rw [List.getElem?_eq_getElem ht, hte] at hr
        obtain rfl := Option.some.inj hr
        unfold backIndex at hy
        cases hb : (lq[t]).back with
        | none => rw [hb] at hy; simp only [Except.ok.injEq] at hy; rw [← hy]; decide
        | some b =>
          rw [hb] at hy
          simp only at hy
          cases hix : indexOf? (lq.map (·.front)) b with
          | none => rw [hix] at hy; simp at hy
          | some jj =>
            rw [hix] at hy; simp only [Except.ok.injEq] at hy
            have := (List.getElem?_eq_some_iff.mp (indexOf_get _ _ _ hix)).1
            simp only [List.length_map] at this
            rw [← hy]; omega
      have hnum : x.1.2 < two32 := by
        obtain ⟨s, hs', hse⟩ := List.mem_map.mp hfr
        obtain ⟨p, hp, hpe⟩ := List.mem_map.mp (hsub s hs')
        have := hs.numbers p hp
        rw [← hse, ← hpe]; exact this
      have hrow : (rowOf rows x.2).1 < two32 ∧ (rowOf rows x.2).2.1 < two32 ∧ (rowOf rows x.2).2.2 < two32 := by
        rcases rowOf_cases rows x.2 with h0 | ⟨r, hr, h0⟩
        · rw [h0]; exact ⟨by decide, by decide, by decide⟩
        · rw [h0]; have := hrb r hr; simp only; omega
      simp only [CQAtom.fit, Bool.and_eq_true, decide_eq_true_eq]
      exact ⟨⟨⟨⟨⟨⟨⟨⟨hwfit.1.1.1, hwfit.1.1.2⟩, hwfit.1.2⟩, hwfit.2⟩, hbk⟩, hrow.1⟩, hrow.2.1⟩, hrow.2.2⟩, hnum⟩
    · rw [List.all_eq_true]
      intro b hb
      obtain ⟨h1, h2⟩ := hbm b hb
      simp only [CBond.fit, Bool.and_eq_true, decide_eq_true_eq]
      simp only [List.length_map] at h2
      exact ⟨h1, by omega⟩
  exact ⟨_, by simp only [hfit, if_true]; rfl⟩

end ChythonModel.Proofs.C09
