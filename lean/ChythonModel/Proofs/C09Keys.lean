import ChythonModel.Model.Iso
import Mathlib.Data.List.Nodup
namespace ChythonModel.Proofs.C09
open ChythonModel.Model

/-- keys of the closures dict are distinct and have been visited -/
def KeysOK (seen : List Nat) (cl : Iso.Closures) : Prop := (cl.map (·.1)).Nodup ∧ ∀ k ∈ cl.map (·.1), k ∈ seen

theorem KeysOK.mono {seen seen' : List Nat} {cl : Iso.Closures} (h : KeysOK seen cl) (hs : ∀ k ∈ seen, k ∈ seen') : KeysOK seen' cl :=
  ⟨h.1, fun k hk => hs k (h.2 k hk)⟩

theorem dfsLoop_keys (g : Iso.Graph) : ∀ (fuel : Nat) (stack : List (Nat × Nat)) (seen : List Nat) (order : List Iso.Step)
    (cl : Iso.Closures) (seen' : List Nat) (order' : List Iso.Step) (cl' : Iso.Closures),
    Iso.dfsLoop g fuel stack seen order cl = some (seen', order', cl') → KeysOK seen cl → KeysOK seen' cl' := by
  intro fuel
  induction fuel with
  | zero => intro stack seen order cl seen' order' cl' h; simp [Iso.dfsLoop] at h
  | succ fuel ih =>
    intro stack seen order cl seen' order' cl' h hk
    cases stack with
    | nil => simp only [Iso.dfsLoop, Option.some.injEq, Prod.mk.injEq] at h; obtain ⟨rfl, _, rfl⟩ := h; exact hk
    | cons e stack =>
      obtain ⟨front, back⟩ := e
      simp only [Iso.dfsLoop] at h
      by_cases hs : seen.contains front = true
      · simp only [hs, if_true] at h; exact ih _ _ _ _ _ _ _ h hk
      · simp only [hs, Bool.false_eq_true, if_false] at h
        apply ih _ _ _ _ _ _ _ h
        have hnot : front ∉ seen := fun hm => hs (List.contains_iff_mem.mpr hm)
        constructor
        · rw [List.map_append, List.map_cons, List.map_nil, List.nodup_append]
          refine ⟨hk.1, by simp, ?_⟩
          intro a ha b hb
          simp only [List.mem_singleton] at hb; subst hb
          intro e; subst e; exact hnot (hk.2 _ ha)
        · intro k hkm
          rw [List.map_append, List.mem_append] at hkm
          rcases hkm with h1 | h1
          · exact List.mem_cons_of_mem _ (hk.2 k h1)
          · simp only [List.map_cons, List.map_nil, List.mem_singleton] at h1; subst h1; simp

theorem compileLoop_keys (g : Iso.Graph) (fuel : Nat) : ∀ (xs seen : List Nat) (comps : List (List Iso.Step)) (cl : Iso.Closures)
    (comps' : List (List Iso.Step)) (cl' : Iso.Closures),
    Iso.compileLoop g fuel xs seen comps cl = some (comps', cl') → KeysOK seen cl → (cl'.map (·.1)).Nodup := by
  intro xs
  induction xs with
  | nil => intro seen comps cl comps' cl' h hk; simp only [Iso.compileLoop, Option.some.injEq, Prod.mk.injEq] at h; obtain ⟨_, rfl⟩ := h; exact hk.1
  | cons x rest ih =>
    intro seen comps cl comps' cl' h hk
    simp only [Iso.compileLoop] at h
    by_cases hs : seen.contains x = true
    · simp only [hs, if_true] at h; exact ih _ _ _ _ _ h hk
    · simp only [hs, Bool.false_eq_true, if_false] at h
      cases hd : Iso.dfsLoop g fuel ((g.nbrs x).map fun n => (n, x)) (x :: seen) [⟨x, none⟩] cl with
      | none => rw [hd] at h; simp at h
      | some res =>
        obtain ⟨seen', order, cl''⟩ := res
        rw [hd] at h
        simp only at h
        exact ih _ _ _ _ _ h (dfsLoop_keys g _ _ _ _ _ _ _ _ hd (hk.mono (fun k hk' => List.mem_cons_of_mem _ hk')))

/-- `_compile_query` never records two closure lists for the same atom: the keys of the closures dict are distinct -/
theorem compile_closure_keys_nodup (g : Iso.Graph) (comps : List (List Iso.Step)) (cl : Iso.Closures)
    (h : Iso.compileQuery g = some (comps, cl)) : (cl.map (·.1)).Nodup :=
  compileLoop_keys g _ _ _ _ _ _ _ h ⟨by simp, by intro k hk; simp at hk⟩

end ChythonModel.Proofs.C09
