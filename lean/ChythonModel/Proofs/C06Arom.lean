import ChythonModel.Model.C06Rings
/-!
# `aromatic_rings` selects exactly the reported rings all of whose bonds have order 4
-/
namespace ChythonModel.Proofs.C06
open ChythonModel.Model ChythonModel.Model.C06

/-- every looked-up bond exists and has order 4 -/
def AllOrder4 (m : Mol) (ring : Ring) : Prop :=
  ∀ ab ∈ ringBondPairs ring, ∃ bd, m.bond? ab.1 ab.2 = some bd ∧ bd.order = 4

theorem allBonds4_true {m : Mol} {ps : List (Nat × Nat)} :
    allBonds4 m ps = some true ↔ ∀ ab ∈ ps, ∃ bd, m.bond? ab.1 ab.2 = some bd ∧ bd.order = 4 := by
  induction ps with
  | nil => simp [allBonds4]
  | cons ab rest ih =>
    simp only [allBonds4, bondIs4, List.mem_cons, forall_eq_or_imp]
    cases hb : m.bond? ab.1 ab.2 with
    | none => simp
    | some bd =>
      by_cases h4 : bd.order = 4
      · simp [h4, ih]
      · have : (bd.order == 4) = false := by simpa using h4
        simp [this, h4]

/-- no look-up fails (no KeyError) when every pair is bonded -/
theorem allBonds4_isSome {m : Mol} {ps : List (Nat × Nat)} (h : ∀ ab ∈ ps, (m.bond? ab.1 ab.2).isSome = true) :
    (allBonds4 m ps).isSome = true := by
  induction ps with
  | nil => rfl
  | cons ab rest ih =>
    have h1 := h ab (List.mem_cons_self ..)
    have h2 := ih fun x hx => h x (List.mem_cons_of_mem _ hx)
    simp only [allBonds4, bondIs4]
    cases hb : m.bond? ab.1 ab.2 with
    | none => rw [hb] at h1; cases h1
    | some bd =>
      by_cases h4 : bd.order = 4
      · simpa [h4] using h2
      · have : (bd.order == 4) = false := by simpa using h4
        simp [this]

theorem isAromaticRing_true {m : Mol} {ring : Ring} :
    isAromaticRing m ring = some true ↔ ring ≠ [] ∧ AllOrder4 m ring := by
  cases ring with
  | nil => simp [isAromaticRing]
  | cons r0 tl => simp [isAromaticRing, AllOrder4, allBonds4_true]

/-- the result is the sub-list of the reported rings whose looked-up bonds all have order 4, in the same order -/
theorem aromaticRings_spec {m : Mol} {sssr out : List Ring} (h : aromaticRings m sssr = some out) :
    out.Sublist sssr ∧ ∀ r, r ∈ out ↔ r ∈ sssr ∧ r ≠ [] ∧ AllOrder4 m r := by
  induction sssr generalizing out with
  | nil => simp only [aromaticRings, Option.some.injEq] at h; subst h; simp
  | cons r rs ih =>
    simp only [aromaticRings] at h
    cases hr : isAromaticRing m r with
    | none => rw [hr] at h; cases h
    | some b =>
      rw [hr] at h
      cases ho : aromaticRings m rs with
      | none => rw [ho] at h; cases h
      | some out' =>
        rw [ho] at h
        simp only [Option.some.injEq] at h
        obtain ⟨hs, hm⟩ := ih ho
        cases b with
        | true =>
          simp only [↓reduceIte] at h; subst h
          have hrt := isAromaticRing_true.1 hr
          refine ⟨hs.cons_cons r, fun x => ?_⟩
          simp only [List.mem_cons, hm]
          constructor
          · rintro (rfl | h)
            · exact ⟨Or.inl rfl, hrt⟩
            · exact ⟨Or.inr h.1, h.2⟩
          · rintro ⟨rfl | h, h2⟩
            · exact Or.inl rfl
            · exact Or.inr ⟨h, h2⟩
        | false =>
          simp only [Bool.false_eq_true, ↓reduceIte] at h; subst h
          have hrf : ¬ (r ≠ [] ∧ AllOrder4 m r) := by
            intro hc
            have := isAromaticRing_true.2 hc
            rw [hr] at this; cases this
          refine ⟨hs.cons r, fun x => ?_⟩
          simp only [List.mem_cons, hm]
          constructor
          · rintro h; exact ⟨Or.inr h.1, h.2⟩
          · rintro ⟨rfl | h, h2⟩
            · exact absurd h2 hrf
            · exact ⟨h, h2⟩

/-- it does not raise when every reported ring is non-empty and all its looked-up pairs are bonded -/
theorem aromaticRings_isSome {m : Mol} {sssr : List Ring}
    (h : ∀ r ∈ sssr, r ≠ [] ∧ ∀ ab ∈ ringBondPairs r, (m.bond? ab.1 ab.2).isSome = true) :
    (aromaticRings m sssr).isSome = true := by
  induction sssr with
  | nil => rfl
  | cons r rs ih =>
    have h1 := h r (List.mem_cons_self ..)
    have h2 := ih fun x hx => h x (List.mem_cons_of_mem _ hx)
    simp only [aromaticRings]
    have : (isAromaticRing m r).isSome = true := by
      cases r with
      | nil => exact absurd rfl h1.1
      | cons r0 tl => simpa [isAromaticRing] using allBonds4_isSome h1.2
    cases hr : isAromaticRing m r with
    | none => rw [hr] at this; cases this
    | some b =>
      cases ho : aromaticRings m rs with
      | none => rw [ho] at h2; cases h2
      | some out => simp

end ChythonModel.Proofs.C06
