import ChythonModel.Spec.CycleBasis
/-!
# From the adjacency view back to the molecule: a neighbour in `not_special_connectivity` is an existing bond of
# order ≠ 8
-/
namespace ChythonModel.Proofs.C06
open ChythonModel.Model ChythonModel.Model.C06 ChythonModel.Spec.CycleBasis

theorem lookup_map_adj {β γ : Type} (f : β → γ) (l : List (Nat × β)) (n : Nat) :
    (l.map fun p => (p.1, f p.2)).lookup n = (l.lookup n).map f := by
  induction l with
  | nil => rfl
  | cons p tl ih =>
    obtain ⟨k, v⟩ := p
    simp only [List.map_cons, List.lookup_cons, ih]
    by_cases h : n = k
    · subst h; simp
    · have h1 : (n == k) = false := by simpa using h
      simp [h1]

theorem nbrsOf_notSpecial (m : Mol) (a : Nat) :
    nbrsOf (notSpecial m) a = ((m.nbrs a).filter fun mb => mb.2.order != 8).map (·.1) := by
  unfold nbrsOf notSpecial Mol.nbrs
  rw [lookup_map_adj (fun ms : List (Nat × Bond) => (ms.filter fun mb => mb.2.order != 8).map (·.1))]
  cases m.adj.lookup a <;> simp

theorem lookup_isSome_of_mem {l : List (Nat × Bond)} {b : Nat} {bd : Bond} (h : (b, bd) ∈ l) :
    ∃ bd', l.lookup b = some bd' := by
  induction l with
  | nil => cases h
  | cons p tl ih =>
    obtain ⟨k, v⟩ := p
    rw [List.lookup_cons]
    by_cases hk : b = k
    · subst hk; exact ⟨v, by simp⟩
    · have h1 : (b == k) = false := by simpa using hk
      rw [h1]
      rcases List.mem_cons.1 h with h | h
      · cases h; exact absurd rfl hk
      · exact ih h

theorem lookup_of_mem_nodup {l : List (Nat × Bond)} (hn : (l.map (·.1)).Nodup) {b : Nat} {bd : Bond}
    (h : (b, bd) ∈ l) : l.lookup b = some bd := by
  induction l with
  | nil => cases h
  | cons p tl ih =>
    obtain ⟨k, v⟩ := p
    simp only [List.map_cons, List.nodup_cons] at hn
    rw [List.lookup_cons]
    rcases List.mem_cons.1 h with h1 | h2
    · cases h1; simp
    · have hk : b ≠ k := by
        intro e; subst e
        exact hn.1 (List.mem_map.2 ⟨(b, bd), h2, rfl⟩)
      have : (b == k) = false := by simpa using hk
      rw [this]
      exact ih hn.2 h2

theorem mem_of_lookup_gen {β : Type} {l : List (Nat × β)} {a : Nat} {v : β} (h : l.lookup a = some v) :
    (a, v) ∈ l := by
  induction l with
  | nil => simp at h
  | cons p tl ih =>
    obtain ⟨k, w⟩ := p
    rw [List.lookup_cons] at h
    by_cases hk : a = k
    · subst hk
      simp only [beq_self_eq_true, Option.some.injEq] at h
      subst h; exact List.mem_cons_self ..
    · have h1 : (a == k) = false := by simpa using hk
      rw [h1] at h
      exact List.mem_cons_of_mem _ (ih h)

/-- neighbour keys of every adjacency row of a well-formed molecule are unique -/
theorem nbrs_keys_nodup {m : Mol} (h : m.WF = true) (a : Nat) : ((m.nbrs a).map (·.1)).Nodup := by
  unfold Mol.nbrs
  cases hl : m.adj.lookup a with
  | none => simp
  | some ms =>
    simp only [Option.getD_some]
    simp only [Mol.WF, Bool.and_eq_true, List.all_eq_true] at h
    have hmem : (a, ms) ∈ m.adj := mem_of_lookup_gen hl
    have := h.2 (a, ms) hmem
    simp only [decide_eq_true_eq] at this
    exact this.1

/-- **every bond of a certified ring is an existing bond of the molecule whose order is not 8** -/
theorem ring_bonds_exist {m : Mol} (h : m.WF = true) {r : List Nat} (hc : IsSimpleCycle (notSpecial m) r) :
    ∀ ab ∈ cyclePairs r, ∃ bd, m.bond? ab.1 ab.2 = some bd ∧ bd.order ≠ 8 := by
  intro ab hab
  have hn := hc.2.2 ab hab
  rw [nbrsOf_notSpecial] at hn
  obtain ⟨mb, hmb, e⟩ := List.mem_map.1 hn
  obtain ⟨hmem, hord⟩ := List.mem_filter.1 hmb
  obtain ⟨k, bd⟩ := mb
  simp only at e hord
  subst e
  refine ⟨bd, ?_, by simpa using hord⟩
  unfold Mol.bond?
  exact lookup_of_mem_nodup (nbrs_keys_nodup h ab.1) hmem

end ChythonModel.Proofs.C06
